(* Facts about the reader model (Model/Newick.v) used by the translator tie: how a parsed node
   changes the parenthesis level, and that a node which ends inside an open parenthesis leaves a
   current token behind. *)
From Coq Require Import ZArith List Bool Lia.
From DV Require Import Model.PyPrims Gen.CharClasses Model.Tokenizer Model.Newick.
Import ListNotations.
Open Scope Z_scope.

Ltac dbind H := match type of H with context [bind ?X _] => let E := fresh "Eb" in destruct X eqn:E; cbn [bind] in H; try discriminate end.

Section Inv.
Variable L : Type.
Variable parse_len : str -> option L.
Variable lower : str -> str.
Variable ro : ropts.

Lemma advance_tok st st' : advance st = AdvTok st' ->
  ps_cur st' <> None /\ ps_nesting st' = ps_nesting st /\ ps_seen st' = ps_seen st /\ ps_map st' = ps_map st /\ ps_complete st' = ps_complete st.
Proof.
  unfold advance. destruct (ps_toks st) as [|t r]; [destruct (ps_end st); discriminate|].
  intro H. inversion H. cbn. repeat split. discriminate.
Qed.

Lemma advance_stop st st' : advance st = AdvStop st' -> ps_nesting st' = ps_nesting st.
Proof.
  unfold advance. destruct (ps_toks st) as [|t r]; [|discriminate]. destruct (ps_end st); try discriminate.
  intro H. inversion H. reflexivity.
Qed.

Lemma require_next_ok st st' : require_next st = Ok st' -> ps_cur st' <> None /\ ps_nesting st' = ps_nesting st.
Proof.
  unfold require_next. destruct (advance st) as [x|x|e] eqn:A; try discriminate.
  - intro H. inversion H; subst. destruct (advance_tok _ _ A) as (H1 & H2 & _). split; assumption.
  - destruct e; discriminate.
Qed.

Lemma cur_is_some st c : cur_is st c = true -> ps_cur st <> None.
Proof. unfold cur_is. destruct (ps_cur st); [discriminate | discriminate]. Qed.

Lemma comma_loop_inv : forall f st kids kids' st', ps_cur st <> None ->
  comma_loop L f st kids = Ok (kids', st') -> ps_cur st' <> None /\ ps_nesting st' = ps_nesting st.
Proof.
  induction f as [|f IH]; intros st kids kids' st' Hc H; [discriminate|]. cbn [comma_loop] in H.
  destruct (cur_is st COMMA).
  - destruct (pull_comments st) as [cs st1] eqn:Ep. destruct (require_next st1) as [st2|e|] eqn:Er; cbn [bind] in H; try discriminate.
    destruct (require_next_ok _ _ Er) as (C2 & N2). destruct (IH _ _ _ _ C2 H) as (C3 & N3). split; [exact C3|].
    rewrite N3, N2. unfold pull_comments in Ep. inversion Ep. reflexivity.
  - inversion H; subst. split; [exact Hc | reflexivity].
Qed.

(* label / length / terminator loop: the level is unchanged; a result reached with an open
   parenthesis came through `)` or `,`, which is then the current token *)
Lemma label_loop_inv : forall f st isint lp nd nd' st',
  label_loop L parse_len lower ro f st isint lp nd = Ok (nd', st') ->
  ps_nesting st' = ps_nesting st /\ (ps_nesting st' <> 0 -> ps_cur st' <> None).
Proof.
  induction f as [|f IH]; intros st isint lp nd nd' st' H; [discriminate|]. cbn [label_loop] in H.
  destruct (pull_comments st) as [cc st1] eqn:Ep.
  assert (N1 : ps_nesting st1 = ps_nesting st) by (unfold pull_comments in Ep; inversion Ep; reflexivity).
  assert (C1 : forall c, cur_is st1 c = cur_is st c) by (intro c; unfold pull_comments in Ep; inversion Ep; reflexivity).
  destruct (cur_is st1 COLON).
  { destruct (require_next st1) as [sa|e|] eqn:Er; cbn [bind] in H; try discriminate.
    destruct (require_next_ok _ _ Er) as (_ & Na).
    dbind H.
    destruct (advance sa) as [sb|sb|e] eqn:A.
    - destruct (advance_tok _ _ A) as (_ & Nb & _). destruct (IH _ _ _ _ _ _ H) as (N & C). split; [lia | exact C].
    - destruct (ro_terminating_semicolon_required ro); [discriminate|].
      change (ps_nesting (set_complete sb true)) with (ps_nesting sb) in H.
      destruct (ps_nesting sb =? 0) eqn:Z; [|discriminate]. inversion H; subst.
      apply Z.eqb_eq in Z. pose proof (advance_stop _ _ A). cbn. split; [lia | intro X; cbn in X; lia].
    - destruct e; discriminate. }
  destruct (cur_is st1 RPAREN) eqn:E2.
  { inversion H; subst. split; [exact N1 | intros _; exact (cur_is_some _ _ E2)]. }
  destruct (cur_is st1 SEMI).
  { unfold next_token_or_none in H. destruct (advance (set_complete st1 true)) as [sb|sb|e] eqn:A; cbn [bind] in H.
    - destruct (ps_nesting sb =? 0) eqn:Z; [|discriminate]. inversion H; subst. apply Z.eqb_eq in Z.
      destruct (advance_tok _ _ A) as (_ & Nb & _). cbn in Nb. split; [lia | intro X; lia].
    - change (ps_nesting (set_cur sb None)) with (ps_nesting sb) in H.
      destruct (ps_nesting sb =? 0) eqn:Z; [|discriminate]. inversion H; subst. apply Z.eqb_eq in Z.
      pose proof (advance_stop _ _ A) as Nb. cbn in Nb. cbn. split; [lia | intro X; cbn in X; lia].
    - destruct e; discriminate. }
  destruct (cur_is st1 COMMA) eqn:E4.
  { inversion H; subst. split; [exact N1 | intros _; exact (cur_is_some _ _ E4)]. }
  destruct (cur_is st1 LPAREN); [discriminate|]. destruct lp; [discriminate|].
  dbind H. rename Eb into End1. destruct p as [nd1 st1'].
  assert (N1' : ps_nesting st1' = ps_nesting st1).
  { destruct ((isint && ro_suppress_internal_node_taxa ro) || (negb isint && ro_suppress_leaf_node_taxa ro)).
    - inversion End1; reflexivity.
    - destruct (require_taxon_for_symbol lower (ps_map st1) (cur_text st1)) as [i m0].
      destruct (existsb (Nat.eqb i) (ps_seen st1)); inversion End1. reflexivity. }
  destruct (advance st1') as [sb|sb|e] eqn:A.
  - destruct (advance_tok _ _ A) as (_ & Nb & _). destruct (IH _ _ _ _ _ _ H) as (N & C). split; [lia | exact C].
  - destruct (ro_terminating_semicolon_required ro); [discriminate|].
    destruct (ps_nesting sb =? 0) eqn:Z; [|discriminate]. inversion H; subst. apply Z.eqb_eq in Z.
    pose proof (advance_stop _ _ A). split; [lia | intro X; lia].
  - destruct e; discriminate.
Qed.

(* unfolding equations of the mutual fixpoint *)
Lemma parse_node_eq f st is_internal pre :
  parse_node L parse_len lower ro (S f) st is_internal pre =
    let '(cs0, st) := pull_comments st in
    do ks <- (if cur_is st LPAREN
              then do st1 <- require_next st ;; children_loop L parse_len lower ro f st1 false true []
              else Ok ([], st)) ;;
    let '(kids, st2) := ks in
    let st3 := set_complete st2 false in
    let isint := match is_internal with Some b => b | None => negb (is_nil kids) end in
    do r <- label_loop L parse_len lower ro f st3 isint false (mkPnode L None None None (pre ++ cs0)) ;;
    let '(nd, st4) := r in
    Ok (finish L nd kids, st4).
Proof. reflexivity. Qed.

Lemma children_loop_eq f st node_created count0 kids :
  children_loop L parse_len lower ro (S f) st node_created count0 kids =
    if cur_is st COMMA then
      let '(kids1, st1) :=
          if node_created then (kids, st)
          else let '(cs, st') := pull_comments st in (kids ++ [blank_node L cs], st') in
      do st2 <- require_next st1 ;;
      do r <- comma_loop L f st2 kids1 ;;
      let '(kids2, st3) := r in
      if (ro_blank_after_comma ro || negb node_created) && cur_is st3 RPAREN then
        let '(cs, st4) := pull_comments st3 in
        children_loop L parse_len lower ro f st4 true false (kids2 ++ [blank_node L cs])
      else children_loop L parse_len lower ro f st3 node_created false kids2
    else if cur_is st RPAREN then
      let kids1 := if count0 then kids ++ [blank_node L []] else kids in
      do st1 <- require_next (set_nesting st (ps_nesting st - 1)) ;;
      Ok (kids1, st1)
    else
      let isnew := cur_is st LPAREN in
      let st0 := if isnew then set_nesting st (ps_nesting st + 1) else st in
      let '(cs, st1) := pull_comments st0 in
      do r <- parse_node L parse_len lower ro f st1 (Some isnew) cs ;;
      let '(child, st2) := r in
      children_loop L parse_len lower ro f st2 true false (kids ++ [child]).
Proof. reflexivity. Qed.

(* a node: the level drops by one iff the node opened a parenthesis *)
Definition node_inv (st : pstate) (r : ptree L * pstate) : Prop :=
  ps_nesting (snd r) = ps_nesting st - (if cur_is st LPAREN then 1 else 0)
  /\ (ps_nesting (snd r) <> 0 -> ps_cur (snd r) <> None).

Lemma node_children_inv : forall f,
  (forall st isint pre r, parse_node L parse_len lower ro f st isint pre = Ok r -> node_inv st r) /\
  (forall st nc c0 kids kids' st', children_loop L parse_len lower ro f st nc c0 kids = Ok (kids', st') ->
     ps_nesting st' = ps_nesting st - 1 /\ ps_cur st' <> None).
Proof.
  induction f as [|f [IHn IHc]]; [split; intros; discriminate|]. split.
  - intros st isint pre [t st'] H. rewrite parse_node_eq in H.
    destruct (pull_comments st) as [cs0 st0] eqn:Ep.
    assert (N0 : ps_nesting st0 = ps_nesting st) by (unfold pull_comments in Ep; inversion Ep; reflexivity).
    assert (C0 : cur_is st0 LPAREN = cur_is st LPAREN) by (unfold pull_comments in Ep; inversion Ep; reflexivity).
    unfold node_inv. rewrite <- C0. cbn [snd].
    destruct (cur_is st0 LPAREN).
    + destruct (require_next st0) as [st1|e|] eqn:Er; cbn [bind] in H; try discriminate.
      destruct (require_next_ok _ _ Er) as (_ & N1).
      destruct (children_loop L parse_len lower ro f st1 false true []) as [[kids st2]|e|] eqn:Ec; cbn [bind] in H; try discriminate.
      destruct (IHc _ _ _ _ _ _ Ec) as (N2 & _).
      destruct (label_loop L parse_len lower ro f (set_complete st2 false) _ false _) as [[nd st4]|e|] eqn:El; cbn [bind] in H; try discriminate.
      inversion H; subst. destruct (label_loop_inv _ _ _ _ _ _ _ El) as (N4 & C4).
      change (ps_nesting (set_complete st2 false)) with (ps_nesting st2) in N4. split; [lia | exact C4].
    + cbn [bind] in H.
      destruct (label_loop L parse_len lower ro f (set_complete st0 false) _ false _) as [[nd st4]|e|] eqn:El; cbn [bind] in H; try discriminate.
      inversion H; subst. destruct (label_loop_inv _ _ _ _ _ _ _ El) as (N4 & C4).
      change (ps_nesting (set_complete st0 false)) with (ps_nesting st0) in N4. split; [lia | exact C4].
  - intros st nc c0 kids kids' st' H. rewrite children_loop_eq in H.
    destruct (cur_is st COMMA).
    { destruct (if nc then _ else _) as [kids1 st1] eqn:E1 in H.
      assert (N1 : ps_nesting st1 = ps_nesting st).
      { destruct nc; [inversion E1; reflexivity|]. destruct (pull_comments st) as [cs x] eqn:Ep. inversion E1; subst.
        unfold pull_comments in Ep. inversion Ep. reflexivity. }
      destruct (require_next st1) as [st2|e|] eqn:Er; cbn [bind] in H; try discriminate.
      destruct (require_next_ok _ _ Er) as (C2 & N2).
      destruct (comma_loop L f st2 kids1) as [[kids2 st3]|e|] eqn:Ecl; cbn [bind] in H; try discriminate.
      destruct (comma_loop_inv _ _ _ _ _ C2 Ecl) as (C3 & N3).
      destruct ((ro_blank_after_comma ro || negb nc) && cur_is st3 RPAREN).
      - destruct (pull_comments st3) as [cs st4] eqn:Ep.
        assert (N4 : ps_nesting st4 = ps_nesting st3) by (unfold pull_comments in Ep; inversion Ep; reflexivity).
        destruct (IHc _ _ _ _ _ _ H) as (N & C). split; [lia | exact C].
      - destruct (IHc _ _ _ _ _ _ H) as (N & C). split; [lia | exact C]. }
    destruct (cur_is st RPAREN).
    { destruct (require_next (set_nesting st (ps_nesting st - 1))) as [st1|e|] eqn:Er; cbn [bind] in H; try discriminate.
      inversion H; subst. destruct (require_next_ok _ _ Er) as (C1 & N1). cbn in N1. split; [exact N1 | exact C1]. }
    cbv zeta in H.
    destruct (pull_comments (if cur_is st LPAREN then set_nesting st (ps_nesting st + 1) else st)) as [cs st1] eqn:Ep.
    destruct (parse_node L parse_len lower ro f st1 (Some (cur_is st LPAREN)) cs) as [[child st2]|e|] eqn:En; cbn [bind] in H; try discriminate.
    destruct (IHn _ _ _ _ En) as (N2 & _). cbn [snd] in N2.
    assert (N1 : ps_nesting st1 = ps_nesting st + (if cur_is st LPAREN then 1 else 0)).
    { unfold pull_comments in Ep. inversion Ep. destruct (cur_is st LPAREN); cbn; lia. }
    assert (C1 : cur_is st1 LPAREN = cur_is st LPAREN).
    { unfold pull_comments in Ep. inversion Ep. destruct (cur_is st LPAREN) eqn:E; [|exact E]. cbn. exact E. }
    destruct (IHc _ _ _ _ _ _ H) as (N & C). split; [|exact C].
    rewrite N, N2, C1, N1. destruct (cur_is st LPAREN); lia.
Qed.
End Inv.
