(* C14, sixth wave: the length of a split is a function of the metric -- explicitly, the smallest positive
   part of (d(a,b) + d(a',b') - d(a,a') - d(b,b')) / 2 over the quartets a, a' | b, b' across the split
   (a = a' and b = b' allowed: for the pendant edge of x this is min over y, z of
   (d(x,y) + d(x,z) - d(y,z)) / 2).  In particular a split is an edge of positive length iff every quartet
   across it satisfies the strict four-point inequality d(a,a') + d(b,b') < d(a,b) + d(a',b'). *)
From Coq Require Import ZArith QArith List Bool Lia Lqa.
From DV Require Import Model.PyPrims Model.Tree Model.C14Model Model.C14Spec Model.C14Spec2 Model.C14Spec3
     Proofs.C14Dict Proofs.C14Pdm Proofs.C14Clu Proofs.C14Upgma Proofs.C14Nj Proofs.C14Qcrit Proofs.C14NjQ
     Proofs.C14Uniq Proofs.C14Split Proofs.C14SplitTree.
Import ListNotations.
Open Scope Z_scope.

Lemma qpos_ge e : (e <= qpos e)%Q.
Proof. unfold qpos. destruct (Qle_bool 0 e) eqn:E; [lra|]. destruct (Qlt_le_dec e 0); [lra|]. apply Qle_bool_iff in q. congruence. Qed.

Lemma qpos_nonneg e : (0 <= qpos e)%Q.
Proof. unfold qpos. destruct (Qle_bool 0 e) eqn:E; [apply Qle_bool_iff; exact E | lra]. Qed.

Lemma qpos_of_nonneg e : (0 <= e)%Q -> (qpos e == e)%Q.
Proof. intro H. unfold qpos. apply Qle_bool_iff in H. rewrite H. reflexivity. Qed.

Lemma qpos_of_nonpos e : (e <= 0)%Q -> (qpos e == 0)%Q.
Proof. intro H. unfold qpos. destruct (Qle_bool 0 e) eqn:E; [apply Qle_bool_iff in E; lra | reflexivity]. Qed.

Lemma qpos_eq e e' : (e == e')%Q -> (qpos e == qpos e')%Q.
Proof.
  intro H. destruct (Qlt_le_dec e 0).
  - rewrite (qpos_of_nonpos e), (qpos_of_nonpos e'); lra.
  - rewrite (qpos_of_nonneg e), (qpos_of_nonneg e'); lra.
Qed.

Lemma slen_formula L ns s :
  family L ns -> snonneg L ns -> proper_split L s ->
  (forall a a' b b', In a L -> In a' L -> In b L -> In b' L -> s a = true -> s a' = true -> s b = false -> s b' = false ->
     (2 * slen L ns s <= qpos (dexpr ns a a' b b'))%Q) /\
  (exists a a' b b', In a L /\ In a' L /\ In b L /\ In b' L /\ s a = true /\ s a' = true /\ s b = false /\ s b' = false /\
     (qpos (dexpr ns a a' b b') == 2 * slen L ns s)%Q).
Proof.
  intros [F1 F2 F3 F4] SN P.
  destruct (existsb (fun m => same_split L s (qcl m)) ns) eqn:E.
  - apply existsb_exists in E. destruct E as [n [Hn Sn]]. split.
    + intros a a' b b' Ha Ha' Hb Hb' A1 A2 B1 B2.
      pose proof (bound_present L ns F2 s n a a' b b' SN Hn Sn Ha Ha' Hb Hb' A1 A2 B1 B2). pose proof (qpos_ge (dexpr ns a a' b b')). lra.
    + destruct (proper_node L s n P Sn) as [Pn [b0 [Hb0 Nb0]]].
      destruct (tight_eval L ns F1 F2 F3 F4 n b0 Hn Hb0 Nb0) as [a [a' [b [b' [Ha [Ha' [Hb [Hb' [X1 [X2 [X3 [X4 [_ [_ [E1 _]]]]]]]]]]]]]]].
      pose proof (SN n Hn Pn) as Pos. rewrite <- (slen_congr L ns s (qcl n) Sn) in *.
      apply same_split_iff in Sn. destruct Sn as [Ag|An].
      * exists a, a', b, b'. rewrite (Ag a Ha), (Ag a' Ha'), (Ag b Hb), (Ag b' Hb'). repeat split; auto.
        rewrite (qpos_eq _ _ E1). apply qpos_of_nonneg. lra.
      * exists b, b', a, a'. rewrite (An a Ha), (An a' Ha'), (An b Hb), (An b' Hb'), X1, X2, X3, X4. repeat split; auto.
        assert (E2 : (dexpr ns b b' a a' == dexpr ns a a' b b')%Q).
        { unfold dexpr. rewrite (dsum_sym ns b a), (dsum_sym ns b' a'). ring. }
        rewrite (qpos_eq _ _ E2), (qpos_eq _ _ E1). apply qpos_of_nonneg. lra.
  - assert (Z0 : (slen L ns s == 0)%Q).
    { unfold slen. apply sumif_false. intros m Hm. destruct (same_split L s (qcl m)) eqn:E1; [|reflexivity].
      assert (existsb (fun m => same_split L s (qcl m)) ns = true); [|congruence]. apply existsb_exists. eauto. }
    split.
    + intros a a' b b' _ _ _ _ _ _ _ _. pose proof (qpos_nonneg (dexpr ns a a' b b')). lra.
    + destruct (absent_quartet L ns F2 s P) as [a [a' [b [b' [Ha [Ha' [Hb [Hb' [A1 [A2 [B1 [B2 No]]]]]]]]]]]].
      { intros m Hm. destruct (same_split L s (qcl m)) eqn:E1; [|reflexivity].
        assert (existsb (fun m => same_split L s (qcl m)) ns = true); [|congruence]. apply existsb_exists. eauto. }
      exists a, a', b, b'. repeat split; auto.
      pose proof (bound_absent L ns a a' b b' SN Ha Ha' Hb Hb' No). rewrite qpos_of_nonpos; lra.
Qed.

Lemma qd_dsum t a b : NoDup (qtaxa t) -> In a (qtaxa t) -> In b (qtaxa t) -> (qd t a b == dsum (qnodes t) a b)%Q.
Proof.
  intros N Ha Hb. unfold qd. destruct (qdist_sum a b t N) as [q [E V]]; [apply qhas_taxa; exact Ha | apply qhas_taxa; exact Hb|].
  rewrite E. exact V.
Qed.

(* the split length read off the path distances *)
Theorem split_len_formula T s :
  qleaves_ok T -> NoDup (qtaxa T) -> split_nonneg T -> proper_split (qtaxa T) s ->
  let L := qtaxa T in
  let e := fun a a' b b' => (qd T a b + qd T a' b' - qd T a a' - qd T b b')%Q in
  (forall a a' b b', In a L -> In a' L -> In b L -> In b' L -> s a = true -> s a' = true -> s b = false -> s b' = false ->
     (2 * split_len T s <= qpos (e a a' b b'))%Q) /\
  (exists a a' b b', In a L /\ In a' L /\ In b L /\ In b' L /\ s a = true /\ s a' = true /\ s b = false /\ s b' = false /\
     (qpos (e a a' b b') == 2 * split_len T s)%Q).
Proof.
  intros LO N SN P L e.
  destruct (slen_formula (qtaxa T) (qnodes T) s (tree_family T LO N (proper_internal T s P)) SN P) as [A B].
  assert (Ee : forall a a' b b', In a L -> In a' L -> In b L -> In b' L -> (e a a' b b' == dexpr (qnodes T) a a' b b')%Q).
  { intros a a' b b' Ha Ha' Hb Hb'. unfold e, dexpr. rewrite !qd_dsum by assumption. reflexivity. }
  split.
  - intros a a' b b' Ha Ha' Hb Hb' A1 A2 B1 B2. rewrite (qpos_eq _ _ (Ee a a' b b' Ha Ha' Hb Hb')). apply A; assumption.
  - destruct B as [a [a' [b [b' [Ha [Ha' [Hb [Hb' [A1 [A2 [B1 [B2 Eq]]]]]]]]]]]]. exists a, a', b, b'. repeat split; auto.
    rewrite (qpos_eq _ _ (Ee a a' b b' Ha Ha' Hb Hb')). exact Eq.
Qed.

(* a split is an edge of positive length iff every quartet across it is strictly resolved in its favour *)
Theorem split_iff_four_point T s :
  qleaves_ok T -> NoDup (qtaxa T) -> split_nonneg T -> proper_split (qtaxa T) s ->
  ((0 < split_len T s)%Q <->
   forall a a' b b', In a (qtaxa T) -> In a' (qtaxa T) -> In b (qtaxa T) -> In b' (qtaxa T) ->
     s a = true -> s a' = true -> s b = false -> s b' = false ->
     (qd T a a' + qd T b b' < qd T a b + qd T a' b')%Q).
Proof.
  intros LO N SN P. destruct (split_len_formula T s LO N SN P) as [A [a [a' [b [b' [Ha [Ha' [Hb [Hb' [A1 [A2 [B1 [B2 Eq]]]]]]]]]]]]].
  split.
  - intros Pos x x' y y' Hx Hx' Hy Hy' X1 X2 Y1 Y2. pose proof (A x x' y y' Hx Hx' Hy Hy' X1 X2 Y1 Y2) as B.
    set (ee := (qd T x y + qd T x' y' - qd T x x' - qd T y y')%Q) in *.
    destruct (Qlt_le_dec 0 ee); [unfold ee in *; lra|]. rewrite (qpos_of_nonpos ee q) in B. lra.
  - intro H. pose proof (H a a' b b' Ha Ha' Hb Hb' A1 A2 B1 B2) as B.
    set (ee := (qd T a b + qd T a' b' - qd T a a' - qd T b b')%Q) in *.
    assert (0 < ee)%Q by (unfold ee; lra). rewrite qpos_of_nonneg in Eq; lra.
Qed.
