(* C07, translator tie: the function generated from Tree.reroot_at_midpoint (Gen/Midpoint.v, regenerated
   from the source on every run) equals C07Model.midpoint_core.

   Stage 1 (`gen_is_mirror`, by conversion): the generated term is the hand-written copy `mirror` below,
   whose loop bodies are named.  Any semantic edit of the Python method changes the generated term and
   breaks this lemma.  Stage 2: `mirror` equals the model, by induction over the leaf list (search for
   the two spanning leaves) and over the chain of ancestors (the walk towards the mrca). *)
From Coq Require Import ZArith List Bool Lia.
From DV Require Import Model.PyPrims Model.Tree Model.C07Model Model.C07GenMidPrims Gen.Midpoint
     Proofs.C07Base Proofs.C07Ops Proofs.C07Mid Proofs.C07GenDfr.
Import ListNotations.
Open Scope Z_scope.

(* ---------- the mirror ---------- *)
Definition span_inner (nd : node) (tax : option Z) (st : list node * Z) : res ((list node * Z) * bool) :=
  let '(sp, found) := st in
  do x <- rd_taxon nd;;
  if oz_eqb x tax
  then (do sp <- list_set sp found nd;; let found := found + 1 in Ok ((sp, found), true))
  else Ok ((sp, found), false).

Definition span_outer (a b : option Z) (nd : node) (st : list node * Z) : res ((list node * Z) * bool) :=
  let '(sp, found) := st in
  do (sp, found) <- for_break [a; b] (span_inner nd) (sp, found);;
  if found =? 2 then Ok ((sp, found), true) else Ok ((sp, found), false).

Definition wstate := (node * option Z * Z * node * node)%type.

Definition walk_cond (m : Z) (st : wstate) : res bool :=
  let '(te, hl, plen, cur, bon) := st in Ok (negb (node_is_id cur m)).

Definition walk_body (st : wstate) : res (wstate * bool) :=
  let '(te, hl, plen, cur, bon) := st in
  do e1 <- rd_edge cur;;
  do l1 <- edge_length e1;;
  do c1 <- py_gt l1 (Some plen);;
  if c1 then
    (do e2 <- rd_edge cur;;
     let te := e2 in let hl := Some plen in let plen := 0 in
     Ok ((te, hl, plen, cur, bon), true))
  else
    (do e3 <- rd_edge cur;;
     do l3 <- edge_length e3;;
     do c3 <- py_lt l3 (Some plen);;
     if c3 then
       (do e4 <- rd_edge cur;;
        do l4 <- edge_length e4;;
        do d <- py_sub (Some plen) l4;;
        let plen := d in
        do p <- rd_parent cur;;
        let cur := p in
        Ok ((te, hl, plen, cur, bon), false))
     else
       (do p <- rd_parent cur;;
        let bon := p in
        Ok ((te, hl, plen, cur, bon), true))).

(* after the walk *)
Definition mirror_tail (fresh : Z) (self : gstate) (upd supp coll : bool) (st : wstate) : res gstate :=
  let '(te, hl, plen, cur, bon) := st in
  if negb (is_some bon || is_some te) then Err AssertErr else
  do (self, ns) <- (if is_some bon
                    then (do self <- op_reseed_at self bon false supp false;; Ok (self, bon))
                    else (do l <- edge_length te;;
                          do tl <- py_sub l hl;;
                          do h <- edge_head te;;
                          do tn <- edge_tail te;;
                          do (self, ns) <- op_split_block fresh self tn h hl (Some tl);;
                          do self <- op_reseed_at self ns false supp false;;
                          Ok (self, ns)));;
  let self := op_set_rooted self (Some true) in
  do self <- (if upd then (let self := op_update_bipartitions self false coll in Ok self) else Ok self);;
  Ok self.

(* after the search for the spanning leaves *)
Definition mirror_mid (fresh : Z) (self : gstate) (upd supp coll : bool) (pdm : pdm) (a b : option Z)
           (st : list node * Z) : res gstate :=
  let '(sp, found) := st in
  do i0 <- list_get sp 0;;
  do d0 <- gen_distance_from_root i0;;      (* the GENERATED Node.distance_from_root, = dfr by Proofs/C07GenDfr.v *)
  do i1 <- list_get sp 1;;
  do d1 <- gen_distance_from_root i1;;
  do c <- py_lt (Some d0) (Some d1);;
  do (n1, n2) <- (if c then (do x <- list_get sp 1;; do y <- list_get sp 0;; Ok (x, y))
                  else (do x <- list_get sp 0;; do y <- list_get sp 1;; Ok (x, y)));;
  do D <- pdm_patristic pdm a b;;
  let plen := py_half D in
  do x1 <- rd_taxon n1;;
  do x2 <- rd_taxon n2;;
  do m <- pdm_mrca pdm x1 x2;;
  do st <- while_fuel (loop_fuel self) (walk_cond m) walk_body (None, None, plen, n1, None);;
  mirror_tail fresh self upd supp coll st.

Definition mirror (pr : option (option Z * option Z)) (fresh : Z) (self : gstate) (upd supp coll : bool)
  : res gstate :=
  do pdm <- pdm_from_tree pr self;;
  do (a, b) <- unpack2 (pdm_max_pair pdm);;
  do st <- for_break (leaf_node_iter self) (span_outer a b) ([None; None], 0);;
  mirror_mid fresh self upd supp coll pdm a b st.

Lemma gen_is_mirror pr fresh self upd supp coll :
  gen_reroot_at_midpoint pr fresh self upd supp coll = mirror pr fresh self upd supp coll.
Proof. reflexivity. Qed.

(* ---------- leaf paths and the model's chains ---------- *)
Definition ptx (p : list tree) : option Z := match p with Y :: _ => t_taxon Y | [] => None end.
Definition pne (p : list tree) : Prop := p <> [].

Lemma leaf_paths_ne : forall t, Forall pne (leaf_paths t).
Proof.
  induction t as [i x l e ks IH] using tree_ind'. destruct ks as [|k r].
  - simpl. constructor; [discriminate|constructor].
  - cbn [leaf_paths]. apply Forall_forall. intros p Hp. apply in_map_iff in Hp.
    destruct Hp as [q [<- _]]. destruct q; discriminate.
Qed.

Lemma leaf_paths_ne_F ks : Forall pne (flat_map leaf_paths ks).
Proof.
  apply Forall_forall. intros p Hp. apply in_flat_map in Hp. destruct Hp as [k [_ Hp]].
  pose proof (leaf_paths_ne k) as F. rewrite Forall_forall in F. apply F, Hp.
Qed.

Lemma find_app' {A} (P : A -> bool) l1 l2 :
  find P (l1 ++ l2) = match find P l1 with Some x => Some x | None => find P l2 end.
Proof. induction l1 as [|a l1 IH]; simpl; [reflexivity|]. destruct (P a); [reflexivity | apply IH]. Qed.

Lemma find_flat_map {A B} (P : B -> bool) (g : A -> list B) l :
  find P (flat_map g l) = first_some (fun k => find P (g k)) l.
Proof.
  induction l as [|a r IH]; [reflexivity|]. simpl flat_map. rewrite first_some_cons, find_app', IH. reflexivity.
Qed.

Definition pfind (a : option Z) (L : list (list tree)) := find (fun p => oz_eqb (ptx p) a) L.

Lemma find_map_snoc a t L : Forall pne L ->
  pfind a (map (fun p => p ++ [t]) L) = option_map (fun p => p ++ [t]) (pfind a L).
Proof.
  unfold pfind. induction L as [|q L IH]; intro F; [reflexivity|]. inversion F as [|? ? Hq F']; subst.
  destruct q as [|Y q']; [exfalso; apply Hq; reflexivity|]. simpl.
  destruct (oz_eqb (t_taxon Y) a); [reflexivity | apply IH; assumption].
Qed.

Lemma up_chain_paths a : forall t, up_chain a t = option_map (map node_pair) (pfind a (leaf_paths t)).
Proof.
  induction t as [i x l e ks IH] using tree_ind'. destruct ks as [|k r].
  - unfold pfind. simpl. destruct (oz_eqb x a); reflexivity.
  - rewrite up_chain_node by discriminate. cbn [leaf_paths]. rewrite find_map_snoc by apply leaf_paths_ne_F.
    unfold pfind. rewrite find_flat_map.
    assert (E : first_some (up_chain a) (k :: r) =
                option_map (map node_pair) (first_some (fun k0 => find (fun p => oz_eqb (ptx p) a) (leaf_paths k0)) (k :: r))).
    { induction IH as [|c cs Hc _ IHcs]; [reflexivity|]. rewrite !first_some_cons, Hc. unfold pfind.
      destruct (find (fun p => oz_eqb (ptx p) a) (leaf_paths c)); [reflexivity | apply IHcs]. }
    rewrite E. clear E.
    generalize (first_some (fun k0 : tree => find (fun p => oz_eqb (ptx p) a) (leaf_paths k0)) (k :: r)).
    intros [q|]; [|reflexivity]. cbn [option_map]. rewrite map_app. reflexivity.
Qed.

Lemma map_flat_map' {A B C} (f : B -> C) (g : A -> list B) l :
  map f (flat_map g l) = flat_map (fun x => map f (g x)) l.
Proof. induction l as [|a r IH]; [reflexivity|]. simpl. rewrite map_app, IH. reflexivity. Qed.

Lemma leaf_taxa_paths : forall t, leaf_taxa t = map ptx (leaf_paths t).
Proof.
  induction t as [i x l e ks IH] using tree_ind'. destruct ks as [|k r]; [reflexivity|].
  cbn [leaf_taxa leaf_paths]. rewrite map_map.
  rewrite (map_ext_in (fun p => ptx (p ++ [T i x l e (k :: r)])) ptx).
  - rewrite map_flat_map'. induction IH as [|c cs Hc _ IHcs]; [reflexivity|]. simpl. rewrite Hc, IHcs. reflexivity.
  - intros p Hp. pose proof (leaf_paths_ne_F (k :: r)) as F. rewrite Forall_forall in F.
    specialize (F p Hp). destruct p; [exfalso; apply F; reflexivity | reflexivity].
Qed.

Lemma pfind_in a L p : pfind a L = Some p -> In p L /\ ptx p = a.
Proof.
  unfold pfind. intro H. apply find_some in H. destruct H as [H1 H2]. apply oz_eqb_true in H2. auto.
Qed.

(* ---------- the search for the two spanning leaves ---------- *)
Lemma span_inner_loop a b p sp found : pne p ->
  for_break [a; b] (span_inner (Some p)) (sp, found) =
  if oz_eqb (ptx p) a || oz_eqb (ptx p) b
  then (do sp' <- list_set sp found (Some p);; Ok (sp', found + 1))
  else Ok (sp, found).
Proof.
  intro Hp. destruct p as [|Y q]; [exfalso; apply Hp; reflexivity|].
  cbn [for_break span_inner rd_taxon bind ptx].
  destruct (oz_eqb (t_taxon Y) a).
  - cbn [orb]. destruct (list_set sp found (Some (Y :: q))); cbn [bind snd fst]; reflexivity.
  - cbn [orb for_break span_inner rd_taxon bind snd fst]. destruct (oz_eqb (t_taxon Y) b).
    + destruct (list_set sp found (Some (Y :: q))); cbn [bind snd fst]; reflexivity.
    + cbn [bind snd fst]. reflexivity.
Qed.

Lemma span_phase1 a b c1 p0 : forall L p1,
  Forall pne L ->
  (forall p, In p L -> oz_eqb (ptx p) a || oz_eqb (ptx p) b = oz_eqb (ptx p) c1) ->
  pfind c1 L = Some p1 ->
  for_break (map Some L) (span_outer a b) ([Some p0; None], 1) = Ok ([Some p0; Some p1], 2).
Proof.
  induction L as [|p L IH]; intros p1 F H Hf; [discriminate|].
  inversion F as [|? ? Hp F']; subst.
  cbn [map for_break]. unfold span_outer at 1. rewrite span_inner_loop by assumption.
  rewrite (H p (or_introl eq_refl)). unfold pfind in Hf. cbn [find] in Hf.
  destruct (oz_eqb (ptx p) c1).
  - inversion Hf; subst. reflexivity.
  - cbn [bind snd fst]. replace (1 =? 2) with false by reflexivity. cbn [bind snd fst].
    apply IH; [assumption | intros q Hq; apply H; right; assumption | assumption].
Qed.

Lemma span_phase0 a b : forall L pa pb,
  Forall pne L -> NoDup (map ptx L) -> a <> b ->
  pfind a L = Some pa -> pfind b L = Some pb ->
  for_break (map Some L) (span_outer a b) ([None; None], 0) =
  Ok (if comes_first a b (map ptx L) then [Some pa; Some pb] else [Some pb; Some pa], 2).
Proof.
  induction L as [|p L IH]; intros pa pb F ND Hab Ha Hb; [discriminate|].
  inversion F as [|? ? Hp F']; subst. cbn [map] in ND. inversion ND as [|? ? Hnin ND']; subst.
  cbn [map for_break comes_first]. unfold span_outer at 1. rewrite span_inner_loop by assumption.
  unfold pfind in Ha, Hb. cbn [find] in Ha, Hb.
  destruct (oz_eqb (ptx p) a) eqn:Ea.
  - apply oz_eqb_true in Ea. inversion Ha; subst pa.
    destruct (oz_eqb (ptx p) b) eqn:Eb; [apply oz_eqb_true in Eb; congruence|].
    cbn [orb]. replace (list_set [None; None] 0 (Some p)) with (Ok [Some p; @None (list tree)]) by reflexivity.
    cbn [bind snd fst]. replace (0 + 1 =? 2) with false by reflexivity. cbn [bind snd fst].
    replace (0 + 1) with 1 by reflexivity.
    apply (span_phase1 a b b p L pb F'); [| exact Hb].
    intros q Hq. replace (oz_eqb (ptx q) a) with false; [reflexivity|].
    symmetry. destruct (oz_eqb (ptx q) a) eqn:E; [|reflexivity]. apply oz_eqb_true in E.
    exfalso. apply Hnin. rewrite Ea, <- E. apply in_map. assumption.
  - destruct (oz_eqb (ptx p) b) eqn:Eb.
    + apply oz_eqb_true in Eb. inversion Hb; subst pb.
      cbn [orb]. replace (list_set [None; None] 0 (Some p)) with (Ok [Some p; @None (list tree)]) by reflexivity.
      cbn [bind snd fst]. replace (0 + 1 =? 2) with false by reflexivity. cbn [bind snd fst].
      replace (0 + 1) with 1 by reflexivity.
      apply (span_phase1 a b a p L pa F'); [| exact Ha].
      intros q Hq. replace (oz_eqb (ptx q) b) with false; [apply orb_false_r|].
      symmetry. destruct (oz_eqb (ptx q) b) eqn:E; [|reflexivity]. apply oz_eqb_true in E.
      exfalso. apply Hnin. rewrite Eb, <- E. apply in_map. assumption.
    + cbn [orb bind snd fst]. replace (0 =? 2) with false by reflexivity. cbn [bind snd fst].
      apply IH; assumption.
Qed.

(* ---------- the walk towards the mrca ---------- *)
Definition wloop (fuel : nat) (m p : Z) (cur : list tree) : res wstate :=
  while_fuel fuel (walk_cond m) walk_body (None, None, p, Some cur, None).

Lemma walk_body_step te hl p i x l oe ks Z0 zs bon :
  walk_body (te, hl, p, Some (T i x l oe ks :: Z0 :: zs), bon) =
  match oe with
  | None => Err TypeErr
  | Some e =>
    if p <? e then Ok ((Some (T i x l oe ks :: Z0 :: zs), Some p, 0, Some (T i x l oe ks :: Z0 :: zs), bon), true)
    else if e <? p then Ok ((te, hl, p - e, Some (Z0 :: zs), bon), false)
    else Ok ((te, hl, p, Some (T i x l oe ks :: Z0 :: zs), Some (Z0 :: zs)), true)
  end.
Proof.
  unfold walk_body. cbn [rd_edge edge_length t_len bind]. destruct oe as [e|]; [|reflexivity].
  cbn [py_gt py_lt bind]. destruct (p <? e); [reflexivity|].
  cbn [rd_edge edge_length t_len bind py_lt]. destruct (e <? p); reflexivity.
Qed.

Lemma walk_loop m M above : t_id M = m -> forall hs p fuel,
  (length hs < fuel)%nat -> Forall (fun Y => t_id Y <> m) hs ->
  match walk m p (map node_pair hs) with
  | Ok (HitNode n) => exists plen' cur' bp,
      wloop fuel m p (hs ++ M :: above) = Ok (None, None, plen', cur', Some bp) /\ nid (Some bp) = Ok n
  | Ok (HitEdge i hl tl) => exists Y rest,
      wloop fuel m p (hs ++ M :: above) = Ok (Some (Y :: rest), Some hl, 0, Some (Y :: rest), None)
      /\ t_id Y = i /\ t_len Y = Some (hl + tl) /\ rest <> []
  | Err e => (e = AssertErr /\ exists plen' cur', wloop fuel m p (hs ++ M :: above) = Ok (None, None, plen', cur', None))
             \/ (e = TypeErr /\ wloop fuel m p (hs ++ M :: above) = Err TypeErr)
  | OutOfFuel => False
  end.
Proof.
  intro HM. induction hs as [|Y hs IH]; intros p fuel Hf HF.
  - cbn [map walk]. left. split; [reflexivity|]. destruct fuel as [|f]; [simpl in Hf; lia|].
    unfold wloop. cbn [app while_fuel walk_cond node_is_id bind]. rewrite HM, Z.eqb_refl. cbn [negb].
    eexists _, _. reflexivity.
  - destruct fuel as [|f]; [simpl in Hf; lia|]. inversion HF as [|? ? HY HF']; subst.
    destruct Y as [i x l oe ks]. cbn [t_id] in HY. apply Z.eqb_neq in HY.
    assert (Hne : exists Z0 zs, hs ++ M :: above = Z0 :: zs /\
                  t_id Z0 = match map node_pair hs with (q, _) :: _ => q | [] => t_id M end).
    { destruct hs as [|Y' hs']; [exists M, above | exists Y', (hs' ++ M :: above)]; split; reflexivity. }
    destruct Hne as [Z0 [zs [Ezs Hz]]].
    specialize (IH (match oe with Some e => p - e | None => p end) f).
    unfold wloop in *. cbn [map node_pair t_id t_len walk]. rewrite <- app_comm_cons.
    cbn [while_fuel walk_cond node_is_id bind t_id]. rewrite HY. cbn [negb].
    rewrite Ezs in *. rewrite walk_body_step.
    destruct oe as [e|].
    + destruct (p <? e) eqn:E1.
      * cbn [bind snd fst]. exists (T i x l (Some e) ks), (Z0 :: zs).
        split; [reflexivity|]. split; [reflexivity|]. split; [cbn [t_len]; f_equal; lia|]. discriminate.
      * destruct (e <? p) eqn:E2.
        -- cbn [bind snd fst]. simpl in Hf. apply IH; [lia | assumption].
        -- cbn [bind snd fst].
           exists p, (Some (T i x l (Some e) ks :: Z0 :: zs)), (Z0 :: zs). split; [reflexivity|].
           cbn [nid]. rewrite Hz. reflexivity.
    + right. split; reflexivity.
Qed.

(* ---------- symmetry of the matrix ---------- *)
Definition sw3 (x : Z * list (Z * option Z) * list (Z * option Z)) := let '(m, ca, cb) := x in (m, cb, ca).

Lemma mrca_chains_sym a b : forall t, mrca_chains b a t = option_map sw3 (mrca_chains a b t).
Proof.
  induction t as [i x l e ks IH] using tree_ind'. rewrite !mrca_chains_eq. cbn [t_kids t_id].
  assert (E : first_some (mrca_chains b a) ks = option_map sw3 (first_some (mrca_chains a b) ks)).
  { induction IH as [|c cs Hc _ IHcs]; [reflexivity|]. rewrite !first_some_cons, Hc.
    destruct (mrca_chains a b c); [reflexivity | apply IHcs]. }
  rewrite E. destruct (first_some (mrca_chains a b) ks) as [[[m ca] cb]|]; [reflexivity|]. cbn [option_map].
  destruct (first_some (up_chain a) ks), (first_some (up_chain b) ks); reflexivity.
Qed.

(* ---------- the model's chains are prefixes of the paths to the seed ---------- *)
Lemma first_some_up_kid a ks k :
  NoDup (flat_map leaf_taxa ks) -> In k ks -> In a (leaf_taxa k) -> first_some (up_chain a) ks = up_chain a k.
Proof.
  induction ks as [|k0 r IH]; intros ND Hk Ha; [destruct Hk|]. simpl flat_map in ND. rewrite first_some_cons.
  destruct Hk as [->|Hk].
  - destruct (in_up_chain a k Ha) as [c Hc]. rewrite Hc. reflexivity.
  - destruct (up_chain a k0) eqn:E.
    + exfalso. apply up_chain_in in E. eapply nodup_app_disj; [exact ND | exact E |].
      apply in_flat_map. exists k. split; assumption.
    + apply IH; [eapply nodup_app_r; eauto | assumption | assumption].
Qed.

Lemma nodup_flat_in {A B} (f : A -> list B) l k : NoDup (flat_map f l) -> In k l -> NoDup (f k).
Proof.
  induction l as [|a0 l IH]; simpl; intros ND Hk; [destruct Hk|]. destruct Hk as [->|H].
  - eapply nodup_app_l; eauto.
  - apply IH; [eapply nodup_app_r; eauto | assumption].
Qed.

Lemma chains_prefix a b : forall t m ca cb, NoDup (leaf_taxa t) -> mrca_chains a b t = Some (m, ca, cb) ->
  exists e above, up_chain a t = Some (ca ++ (m, e) :: above) /\ up_chain b t = Some (cb ++ (m, e) :: above).
Proof.
  induction t as [i x l e ks IH] using tree_ind'. intros m ca cb ND H. rewrite mrca_chains_eq in H.
  cbn [t_kids t_id] in H.
  assert (Hks : ks <> []). { intro; subst ks. simpl in H. discriminate. }
  rewrite leaf_taxa_node in ND by assumption. rewrite !up_chain_node by assumption.
  destruct (first_some (mrca_chains a b) ks) as [mm|] eqn:E.
  - inversion H; subst mm. apply first_some_some in E. destruct E as [k [Hk Hf]].
    rewrite Forall_forall in IH.
    assert (NDk : NoDup (leaf_taxa k)).
    { exact (nodup_flat_in leaf_taxa ks k ND Hk). }
    destruct (IH k Hk _ _ _ NDk Hf) as [e' [above [Ua Ub]]].
    rewrite (first_some_up_kid a ks k ND Hk (up_chain_in _ _ _ Ua)),
            (first_some_up_kid b ks k ND Hk (up_chain_in _ _ _ Ub)), Ua, Ub.
    cbn [option_map]. exists e', (above ++ [(i, e)]). rewrite <- !app_assoc. split; reflexivity.
  - destruct (first_some (up_chain a) ks) as [ca'|]; [|discriminate].
    destruct (first_some (up_chain b) ks) as [cb'|]; [|discriminate].
    inversion H; subst. exists e, []. split; reflexivity.
Qed.

Lemma nodup_ids_sub : forall t M, In M (preorder t) -> NoDup (ids t) -> NoDup (ids M).
Proof.
  induction t as [i x l e ks IH] using tree_ind'. intros M HM ND. rewrite preorder_node in HM.
  destruct HM as [<-|HM]; [assumption|].
  apply in_flat_map in HM. destruct HM as [k [Hk HM]]. rewrite Forall_forall in IH. apply (IH k Hk M HM).
  rewrite ids_node in ND. inversion ND; subst. eapply nodup_flat_in; eauto.
Qed.

Lemma chain_ids_ne a t M c : NoDup (ids t) -> In M (preorder t) ->
  first_some (up_chain a) (t_kids M) = Some c -> Forall (fun q => fst q <> t_id M) c.
Proof.
  intros ND HM H. apply first_some_some in H. destruct H as [k [Hk Hc]]. apply Forall_forall. intros [i e] Hq.
  apply in_split in Hq. destruct Hq as [pre [post Hq]].
  destruct (up_chain_nodes a k c Hc pre i e post Hq) as [Y [Y1 [Y2 _]]]. cbn [fst]. rewrite <- Y2.
  apply below_id; [eapply nodup_ids_sub; eauto | eapply kid_below; eauto].
Qed.

Lemma fuel_ok t r p : In p (leaf_paths t) -> (length p < loop_fuel (mkG t r))%nat.
Proof.
  intro H. unfold loop_fuel. cbn [g_tree]. apply Nat.lt_succ_r.
  assert (F : Forall (fun k => k <= list_max (map (@length tree) (leaf_paths t)))%nat (map (@length tree) (leaf_paths t)))
    by (apply list_max_le; apply Nat.le_refl).
  rewrite Forall_forall in F. apply F. apply in_map. assumption.
Qed.

(* ---------- assembly ---------- *)
Definition lift (x : res (tree * option bool)) : res gstate :=
  match x with Ok tr => Ok (mkG (fst tr) (snd tr)) | Err e => Err e | OutOfFuel => OutOfFuel end.

Definition model_tail (t : tree) (r : option bool) (upd supp coll : bool) (fresh : Z) (h : hit)
  : res (tree * option bool) :=
  do tr <- match h with
           | HitNode n => reseed_at t r n false false supp
           | HitEdge hd hl tl =>
             match split_edge hd fresh (Some tl) (Some hl) t with
             | Some t' => reseed_at t' r fresh false false supp
             | None => Err LookupErr
             end
           end;;
  Ok (if upd then (fst (post_reseed (fst tr) (Some true) coll false), Some true)
      else (fst tr, Some true)).

Ltac fin upd :=
  destruct upd; cbn [bind lift fst snd]; unfold op_update_bipartitions, op_set_rooted; cbn [g_tree g_rooted];
  rewrite ?post_reseed_rooted; reflexivity.

Lemma tail_eq t r upd supp coll fresh m M above : t_id M = m -> forall hs p fuel,
  (length hs < fuel)%nat -> Forall (fun Y => t_id Y <> m) hs ->
  (do st <- wloop fuel m p (hs ++ M :: above);; mirror_tail fresh (mkG t r) upd supp coll st)
  = lift (do h <- walk m p (map node_pair hs);; model_tail t r upd supp coll fresh h).
Proof.
  intros HM hs p fuel Hf HF. pose proof (walk_loop m M above HM hs p fuel Hf HF) as W.
  destruct (walk m p (map node_pair hs)) as [[n|hd hl tl]|e|].
  - destruct W as [plen' [cur' [bp [-> Hn]]]]. cbn [bind mirror_tail is_some orb negb].
    unfold op_reseed_at, model_tail. rewrite Hn. cbn [bind g_tree g_rooted].
    destruct (reseed_at t r n false false supp) as [[t' r']|e|]; cbn [bind lift fst snd]; [|reflexivity..].
    fin upd.
  - destruct W as [Y [rest [-> [HY [HL Hr]]]]]. cbn [bind mirror_tail is_some orb negb edge_length].
    rewrite HL. cbn [py_sub bind edge_head rd_edge edge_tail rd_parent].
    destruct rest as [|R0 rest']; [congruence|]. cbn [bind]. unfold op_split_block, op_split_edge. cbn [nid bind g_tree g_rooted].
    rewrite HY. replace (hl + tl - hl) with tl by lia. unfold model_tail. cbn [bind].
    destruct (split_edge hd fresh (Some tl) (Some hl) t) as [t1|]; [|reflexivity].
    cbn [bind]. unfold op_reseed_at. cbn [nid bind t_id g_tree g_rooted].
    destruct (reseed_at t1 r fresh false false supp) as [[t' r']|e|]; cbn [bind lift fst snd]; [|reflexivity..].
    fin upd.
  - destruct W as [[-> [plen' [cur' ->]]]|[-> ->]]; reflexivity.
  - destruct W.
Qed.

Lemma rd_taxon_ptx p : pne p -> rd_taxon (Some p) = Ok (ptx p).
Proof. destruct p; [intro H; exfalso; apply H; reflexivity | reflexivity]. Qed.

Lemma pdm_patristic_sym t pr a b : pdm_patristic (t, pr) b a = pdm_patristic (t, pr) a b.
Proof.
  unfold pdm_patristic. cbn [fst]. rewrite (mrca_chains_sym a b t).
  destruct (mrca_chains a b t) as [[[m ca] cb]|]; cbn [option_map sw3]; [f_equal; lia | reflexivity].
Qed.

(* splitting a path at the mrca *)
Lemma path_split p c m e abv : map node_pair p = c ++ (m, e) :: abv ->
  exists hs M above, p = hs ++ M :: above /\ map node_pair hs = c /\ t_id M = m.
Proof.
  intro H. apply map_eq_app in H. destruct H as [hs [rs [-> [H1 H2]]]].
  apply map_eq_cons in H2. destruct H2 as [M [above [-> [H2 _]]]].
  exists hs, M, above. split; [reflexivity|]. split; [assumption|]. unfold node_pair in H2. congruence.
Qed.

Theorem gen_midpoint_core_eq t r a b upd supp coll fresh :
  NoDup (ids t) -> NoDup (leaf_taxa t) -> a <> b -> In a (leaf_taxa t) -> In b (leaf_taxa t) ->
  gen_reroot_at_midpoint (Some (a, b)) fresh (mkG t r) upd supp coll
  = lift (midpoint_core t r (Some (a, b)) upd supp coll fresh).
Proof.
  intros NI ND Hab Ia Ib. rewrite gen_is_mirror. unfold mirror, midpoint_core, pdm_from_tree. cbn [g_tree].
  destruct (negb (is_leaf t) && existsb is_none (leaf_taxa t)); [reflexivity|].
  cbn [bind pdm_max_pair snd unpack2]. unfold leaf_node_iter. cbn [g_tree].
  destruct (in_up_chain a t Ia) as [fa Ua]. destruct (in_up_chain b t Ib) as [fb Ub].
  rewrite up_chain_paths in Ua, Ub.
  destruct (pfind a (leaf_paths t)) as [pa|] eqn:Fa; [|discriminate].
  destruct (pfind b (leaf_paths t)) as [pb|] eqn:Fb; [|discriminate]. clear Ua Ub fa fb.
  assert (NDp : NoDup (map ptx (leaf_paths t))) by (rewrite <- leaf_taxa_paths; assumption).
  pose proof (span_phase0 a b _ pa pb (leaf_paths_ne t) NDp Hab Fa Fb) as SP. rewrite <- leaf_taxa_paths in SP.
  match goal with |- (do st <- ?X;; _) = _ =>
    replace X with (@Ok (list node * Z) (if comes_first a b (leaf_taxa t) then [Some pa; Some pb] else [Some pb; Some pa], 2))
      by (symmetry; exact SP) end.
  cbn [bind]. clear SP.
  assert (G : forall s0 s1 p0 p1, s0 <> s1 ->
    pfind s0 (leaf_paths t) = Some p0 -> pfind s1 (leaf_paths t) = Some p1 ->
    pdm_patristic (t, Some (a, b)) a b = pdm_patristic (t, Some (a, b)) s0 s1 ->
    mirror_mid fresh (mkG t r) upd supp coll (t, Some (a, b)) a b ([Some p0; Some p1], 2) =
    lift (match up_chain s0 t, up_chain s1 t, mrca_chains s0 s1 t with
          | Some f0, Some f1, Some (m, c0, c1) =>
            do d0 <- dfr f0;;
            do d1 <- dfr f1;;
            let chain := if d0 <? d1 then c1 else c0 in
            let D := sum_len0 c0 + sum_len0 c1 in
            do h <- walk m (D / 2) chain;;
            do tr <- match h with
                     | HitNode n => reseed_at t r n false false supp
                     | HitEdge hd hl tl =>
                       match split_edge hd fresh (Some tl) (Some hl) t with
                       | Some t' => reseed_at t' r fresh false false supp
                       | None => Err LookupErr
                       end
                     end;;
            Ok (if upd then (fst (post_reseed (fst tr) (Some true) coll false), Some true)
                else (fst tr, Some true))
          | _, _, _ => Err LookupErr
          end)).
  { clear Fa Fb pa pb. intros s0 s1 p0 p1 Hs F0 F1 HP.
    destruct (pfind_in _ _ _ F0) as [I0 T0]. destruct (pfind_in _ _ _ F1) as [I1 T1].
    pose proof (leaf_paths_ne t) as NE. rewrite Forall_forall in NE.
    pose proof (NE p0 I0) as N0. pose proof (NE p1 I1) as N1.
    assert (U0 : up_chain s0 t = Some (map node_pair p0)) by (rewrite up_chain_paths, F0; reflexivity).
    assert (U1 : up_chain s1 t = Some (map node_pair p1)) by (rewrite up_chain_paths, F1; reflexivity).
    rewrite U0, U1.
    destruct (mrca_chains s0 s1 t) as [[[m c0] c1]|] eqn:EM;
      [|exfalso; eapply (mrca_chains_some s0 s1 t); eauto].
    unfold mirror_mid.
    change (list_get [Some p0; Some p1] 0) with (@Ok node (Some p0)).
    change (list_get [Some p0; Some p1] 1) with (@Ok node (Some p1)).
    cbn [bind]. rewrite (gen_dfr_eq_model p0 N0), (gen_dfr_eq_model p1 N1).
    destruct (dfr (map node_pair p0)) as [d0|e|]; cbn [bind lift]; [|reflexivity..].
    destruct (dfr (map node_pair p1)) as [d1|e|]; cbn [bind lift]; [|reflexivity..].
    cbn [py_lt bind]. rewrite HP. unfold pdm_patristic, py_half. cbn [fst]. rewrite EM.
    destruct (mrca_chains_node _ _ _ _ _ _ EM) as [M [M1 [M2 [M3 [M4 M5]]]]].
    destruct (chains_prefix s0 s1 t m c0 c1 ND EM) as [em [abv [X0 X1]]].
    rewrite U0 in X0. rewrite U1 in X1. apply some_inj in X0. apply some_inj in X1.
    destruct (path_split _ _ _ _ _ X0) as [h0 [M0 [ab0 [E0 [C0 I0m]]]]].
    destruct (path_split _ _ _ _ _ X1) as [h1 [M1' [ab1 [E1 [C1 I1m]]]]].
    pose proof (chain_ids_ne s0 t M c0 NI M1 M4) as Q0. pose proof (chain_ids_ne s1 t M c1 NI M1 M5) as Q1.
    rewrite M2 in Q0, Q1. rewrite <- C0 in Q0. rewrite <- C1 in Q1. rewrite Forall_map in Q0, Q1.
    pose proof (fuel_ok t r p0 I0) as FU0. pose proof (fuel_ok t r p1 I1) as FU1.
    destruct (d0 <? d1).
    - cbn [bind]. rewrite (rd_taxon_ptx p1 N1), (rd_taxon_ptx p0 N0), T0, T1. cbn [bind].
      unfold pdm_mrca. cbn [fst]. rewrite (mrca_chains_sym s0 s1 t), EM. cbn [option_map sw3 bind]. cbv zeta.
      rewrite E1 in *. rewrite <- C1.
      change (while_fuel (loop_fuel (mkG t r)) (walk_cond m) walk_body
                (None, None, (sum_len0 c0 + sum_len0 (map node_pair h1)) / 2, Some (h1 ++ M1' :: ab1), None))
        with (wloop (loop_fuel (mkG t r)) m ((sum_len0 c0 + sum_len0 (map node_pair h1)) / 2) (h1 ++ M1' :: ab1)).
      apply (tail_eq t r upd supp coll fresh m M1' ab1 I1m h1); [|exact Q1].
      rewrite app_length in FU1. lia.
    - cbn [bind]. rewrite (rd_taxon_ptx p1 N1), (rd_taxon_ptx p0 N0), T0, T1. cbn [bind].
      unfold pdm_mrca. cbn [fst]. rewrite EM. cbn [bind]. cbv zeta.
      rewrite E0 in *. rewrite <- C0.
      change (while_fuel (loop_fuel (mkG t r)) (walk_cond m) walk_body
                (None, None, (sum_len0 (map node_pair h0) + sum_len0 c1) / 2, Some (h0 ++ M0 :: ab0), None))
        with (wloop (loop_fuel (mkG t r)) m ((sum_len0 (map node_pair h0) + sum_len0 c1) / 2) (h0 ++ M0 :: ab0)).
      apply (tail_eq t r upd supp coll fresh m M0 ab0 I0m h0); [|exact Q0].
      rewrite app_length in FU0. lia. }
  destruct (comes_first a b (leaf_taxa t)).
  - apply (G a b pa pb); auto.
  - apply (G b a pb pa); auto. symmetry. apply pdm_patristic_sym.
Qed.
