(* C13 (wave 7): TWO READERS ALIVE AT ONCE.

   A reader (a suspended Tree.yield_from_files iterator, an eager read in progress) drives its symbol mapper through
   construction (NexusTaxonSymbolMapper(..): a new TREES block, a new read), add_translate_token, lookup_taxon_symbol and
   require_taxon_for_symbol.  Two readers A and B run in ONE store of container objects, their steps interleaved by an
   arbitrary schedule, with the OBJECT-LEVEL compiled methods (Gen/RoutesMapperObj.v).
     orun2_is_vrun2            from any store in which the two mappers are well-formed and hold disjoint containers, the
                               interleaved run returns what the VALUE-LEVEL compiled methods return on two separate values
     interleaved_is_separate   both mappers constructed in one store (any store, any blank objects), then any schedule
     vrun2_alone               the value-level run gives each reader what it gets when only its own steps are run
     interleaved_model         with mutable namespaces: every answer is the one the model's mapper (new_mapper,
                               add_translate_token, lookup_taxon_symbol, require_taxon_for_symbol) gives to that reader alone *)
From Coq Require Import ZArith List Bool Lia Arith.
From DV Require Import Model.PyPrims Model.C13Model Model.C13MapPrims Model.C13MapObjPrims.
From DV Require Import Gen.RoutesMapper Gen.RoutesMapperObj Proofs.C13GenMapper Proofs.C13MapObj.
Import ListNotations.
Local Open Scope nat_scope.

Inductive mop : Type :=
| ONew (ns : nsobj) (by_number : bool)         (* NexusTaxonSymbolMapper(taxon_namespace=ns, enable_lookup_by_taxon_number=..) *)
| OAdd (tok : str) (taxon : nat)               (* add_translate_token *)
| OLookup (sym : str) (create : bool)          (* lookup_taxon_symbol *)
| ORequire (sym : str).                        (* require_taxon_for_symbol *)

Definition disjoint (a b : list nat) : Prop := forall c, In c a -> ~ In c b.

Section Sys.
Variable lower : str -> str.
Variable cls : mcls.

Definition vstep (m : mobj) (op : mop) : res (option nat * mobj) :=
  match op with
  | ONew ns b => do r <- gm_init lower m ns b ;; let '(_, m) := r in Ok (None, m)
  | OAdd t x => do r <- gm_add_translate_token lower m t x ;; let '(_, m) := r in Ok (None, m)
  | OLookup s c => gm_lookup_taxon_symbol lower m s c
  | ORequire s => gm_require_taxon_for_symbol lower m s
  end.
Definition ostep (o : mref) (w : world) (op : mop) : res (option nat * mref * world) :=
  match op with
  | ONew ns b => do r <- gmo_init lower cls o w ns b ;; let '(_, o, w) := r in Ok (None, o, w)
  | OAdd t x => do r <- gmo_add_translate_token lower cls o w t x ;; let '(_, o, w) := r in Ok (None, o, w)
  | OLookup s c => gmo_lookup_taxon_symbol lower cls o w s c
  | ORequire s => gmo_require_taxon_for_symbol lower cls o w s
  end.

Lemma sim_step : forall w o op, wfo w o -> sim w o (vstep (deref w o) op) (ostep o w op).
Proof.
  intros w o op H. pose proof (inv_refl w o H) as I. destruct op as [ns b|t x|s c|s]; cbn [vstep ostep].
  - pose proof (sim_init lower cls o w (deref w o) ns b) as S.
    destruct (gm_init lower (deref w o) ns b) as [[[] m']| |].
    + destruct S as [o' [w' [E [D [Hw [Hn [Hnew Hold]]]]]]]. rewrite E. cbn [bind sim].
      exists o', w'. split; [reflexivity|]. split; [exact D|]. split; [exact Hw|].
      split; [exact Hn|]. split; [intros c H1 _; exact (Hold c H1)|]. intros c Hc. right. exact (Hnew c Hc).
    + rewrite S. reflexivity.
    + rewrite S. reflexivity.
  - pose proof (sim_add_translate_token lower cls w o w o t x I) as S.
    destruct (gm_add_translate_token lower (deref w o) t x) as [[[] m']| |]; cbn [sim] in S.
    + destruct S as [o' [w' [E [D J]]]]. rewrite E. cbn [bind sim]. exists o', w'. split; [reflexivity|]. split; assumption.
    + rewrite S. reflexivity.
    + rewrite S. reflexivity.
  - apply sim_lookup_taxon_symbol. exact I.
  - apply sim_require_taxon_for_symbol. exact I.
Qed.

(* a step of one object changes nothing of another object that holds other containers *)
Lemma frame_other : forall w o1 w' o1' o2, inv w o1 w' o1' -> wfo w o2 -> disjoint (refs o1) (refs o2) ->
  deref w' o2 = deref w o2 /\ wfo w' o2 /\ disjoint (refs o1') (refs o2).
Proof.
  intros w o1 w' o1' o2 [_ [Hn [Hf Hr]]] [Hd Hb] Hdis.
  assert (K : forall c, In c (refs o2) -> wn_get w' c = wn_get w c /\ ws_get w' c = ws_get w c).
  { intros c Hc. apply Hf; [apply Hb; exact Hc|]. intro X. exact (Hdis c X Hc). }
  split; [|split].
  - unfold deref. rewrite (proj1 (K _ (in_token o2))), (proj1 (K _ (in_label o2))), (proj1 (K _ (in_number o2))),
      (proj2 (K _ (in_number_label o2))). reflexivity.
  - split; [exact Hd|]. intros c Hc. specialize (Hb c Hc). lia.
  - intros c Hc Hc2. destruct (Hr c Hc) as [H|H]; [exact (Hdis c H Hc2)|]. specialize (Hb c Hc2). lia.
Qed.

Lemma disjoint_sym : forall a b, disjoint a b -> disjoint b a.
Proof. intros a b H c Hc Hc'. exact (H c Hc' Hc). Qed.

(* the interleaved runs: false = reader A, true = reader B; the answers of each reader in order *)
Fixpoint vrun2 (mA mB : mobj) (sched : list (bool * mop)) : res (list (option nat) * list (option nat)) :=
  match sched with
  | [] => Ok ([], [])
  | (false, op) :: r =>
    do x <- vstep mA op ;; let '(a, mA') := x in
    do y <- vrun2 mA' mB r ;; Ok (a :: fst y, snd y)
  | (true, op) :: r =>
    do x <- vstep mB op ;; let '(a, mB') := x in
    do y <- vrun2 mA mB' r ;; Ok (fst y, a :: snd y)
  end.
Fixpoint orun2 (oA oB : mref) (w : world) (sched : list (bool * mop)) : res (list (option nat) * list (option nat)) :=
  match sched with
  | [] => Ok ([], [])
  | (false, op) :: r =>
    do x <- ostep oA w op ;; let '(a, oA', w') := x in
    do y <- orun2 oA' oB w' r ;; Ok (a :: fst y, snd y)
  | (true, op) :: r =>
    do x <- ostep oB w op ;; let '(a, oB', w') := x in
    do y <- orun2 oA oB' w' r ;; Ok (fst y, a :: snd y)
  end.

Theorem orun2_is_vrun2 : forall sched w oA oB,
  wfo w oA -> wfo w oB -> disjoint (refs oA) (refs oB) ->
  orun2 oA oB w sched = vrun2 (deref w oA) (deref w oB) sched.
Proof.
  induction sched as [|[[|] op] r IH]; intros w oA oB HA HB Hdis; [reflexivity| |]; cbn [orun2 vrun2].
  - pose proof (sim_step w oB op HB) as S.
    destruct (vstep (deref w oB) op) as [[a m']| |]; cbn [sim] in S.
    + destruct S as [o' [w' [E [D I]]]]. rewrite E. cbn [bind].
      destruct (frame_other w oB w' o' oA I HA (disjoint_sym _ _ Hdis)) as [DA [HA' Hdis']].
      rewrite (IH w' oA o' HA' (proj1 I) (disjoint_sym _ _ Hdis')), DA, D. reflexivity.
    + rewrite S. reflexivity.
    + rewrite S. reflexivity.
  - pose proof (sim_step w oA op HA) as S.
    destruct (vstep (deref w oA) op) as [[a m']| |]; cbn [sim] in S.
    + destruct S as [o' [w' [E [D I]]]]. rewrite E. cbn [bind].
      destruct (frame_other w oA w' o' oB I HB Hdis) as [DB [HB' Hdis']].
      rewrite (IH w' o' oB (proj1 I) HB' Hdis'), DB, D. reflexivity.
    + rewrite S. reflexivity.
    + rewrite S. reflexivity.
Qed.

(* both mappers constructed in ONE store - whatever it holds, whatever the blank objects are - then any schedule *)
Definition osys2 (w0 : world) (oA0 oB0 : mref) (nsA : nsobj) (bA : bool) (nsB : nsobj) (bB : bool) (sched : list (bool * mop))
  : res (list (option nat) * list (option nat)) :=
  do rA <- gmo_init lower cls oA0 w0 nsA bA ;; let '(_, oA, w1) := rA in
  do rB <- gmo_init lower cls oB0 w1 nsB bB ;; let '(_, oB, w2) := rB in
  orun2 oA oB w2 sched.
Definition vsys2 (nsA : nsobj) (bA : bool) (nsB : nsobj) (bB : bool) (sched : list (bool * mop))
  : res (list (option nat) * list (option nat)) :=
  do rA <- gm_init lower mo_blank nsA bA ;; let '(_, mA) := rA in
  do rB <- gm_init lower mo_blank nsB bB ;; let '(_, mB) := rB in
  vrun2 mA mB sched.

Theorem interleaved_is_separate : forall w0 oA0 oB0 nsA bA nsB bB sched,
  osys2 w0 oA0 oB0 nsA bA nsB bB sched = vsys2 nsA bA nsB bB sched.
Proof.
  intros. unfold osys2, vsys2.
  pose proof (sim_init lower cls oA0 w0 mo_blank nsA bA) as SA.
  destruct (gm_init lower mo_blank nsA bA) as [[[] mA]| |]; [|rewrite SA; reflexivity|rewrite SA; reflexivity].
  destruct SA as [oA [w1 [EA [DA [HA [HnA [HnewA HoldA]]]]]]]. rewrite EA. cbn [bind].
  pose proof (sim_init lower cls oB0 w1 mo_blank nsB bB) as SB.
  destruct (gm_init lower mo_blank nsB bB) as [[[] mB]| |]; [|rewrite SB; reflexivity|rewrite SB; reflexivity].
  destruct SB as [oB [w2 [EB [DB [HB [HnB [HnewB HoldB]]]]]]]. rewrite EB. cbn [bind].
  assert (KA : forall c, In c (refs oA) -> wn_get w2 c = wn_get w1 c /\ ws_get w2 c = ws_get w1 c).
  { intros c Hc. apply HoldB. exact (proj2 HA c Hc). }
  assert (DA2 : deref w2 oA = mA).
  { rewrite <- DA. unfold deref. rewrite (proj1 (KA _ (in_token oA))), (proj1 (KA _ (in_label oA))), (proj1 (KA _ (in_number oA))),
      (proj2 (KA _ (in_number_label oA))). reflexivity. }
  assert (HA2 : wfo w2 oA).
  { split; [exact (proj1 HA)|]. intros c Hc. pose proof (proj2 HA c Hc). lia. }
  assert (Hdis : disjoint (refs oA) (refs oB)).
  { intros c Hc Hc'. pose proof (proj2 HA c Hc). pose proof (HnewB c Hc'). lia. }
  rewrite (orun2_is_vrun2 sched w2 oA oB HA2 HB Hdis), DA2, DB. reflexivity.
Qed.

(* two mapper objects constructed one after the other in one store SHARE NO TABLE: the second construction allocates
   four containers that did not exist, and leaves the first object's tables as they were *)
Theorem new_mappers_share_no_table : forall w0 oA0 oB0 nsA bA nsB bB oA w1 oB w2,
  gmo_init lower cls oA0 w0 nsA bA = Ok (tt, oA, w1) ->
  gmo_init lower cls oB0 w1 nsB bB = Ok (tt, oB, w2) ->
  disjoint (refs oA) (refs oB) /\ wfo w2 oA /\ wfo w2 oB /\ deref w2 oA = deref w1 oA.
Proof.
  intros w0 oA0 oB0 nsA bA nsB bB oA w1 oB w2 EA EB.
  pose proof (sim_init lower cls oA0 w0 mo_blank nsA bA) as SA. rewrite EA in SA.
  destruct (gm_init lower mo_blank nsA bA) as [[[] mA]| |]; try discriminate.
  destruct SA as [oA' [w1' [E [DA [HA [HnA [HnewA HoldA]]]]]]]. inversion E; subst oA' w1'. clear E.
  pose proof (sim_init lower cls oB0 w1 mo_blank nsB bB) as SB. rewrite EB in SB.
  destruct (gm_init lower mo_blank nsB bB) as [[[] mB]| |]; try discriminate.
  destruct SB as [oB' [w2' [E [DB [HB [HnB [HnewB HoldB]]]]]]]. inversion E; subst oB' w2'. clear E.
  assert (KA : forall c, In c (refs oA) -> wn_get w2 c = wn_get w1 c /\ ws_get w2 c = ws_get w1 c).
  { intros c Hc. apply HoldB. exact (proj2 HA c Hc). }
  split; [|split; [|split]].
  - intros c Hc Hc'. pose proof (proj2 HA c Hc). pose proof (HnewB c Hc'). lia.
  - split; [exact (proj1 HA)|]. intros c Hc. pose proof (proj2 HA c Hc). lia.
  - exact HB.
  - unfold deref. rewrite (proj1 (KA _ (in_token oA))), (proj1 (KA _ (in_label oA))), (proj1 (KA _ (in_number oA))),
      (proj2 (KA _ (in_number_label oA))). reflexivity.
Qed.

(* the value-level interleaved run gives each reader what it gets ALONE *)
Fixpoint vrun1 (m : mobj) (ops : list mop) : res (list (option nat)) :=
  match ops with
  | [] => Ok []
  | op :: r => do x <- vstep m op ;; let '(a, m') := x in do y <- vrun1 m' r ;; Ok (a :: y)
  end.
Definition ops_of (side : bool) (sched : list (bool * mop)) : list mop :=
  map snd (filter (fun p => Bool.eqb (fst p) side) sched).

Theorem vrun2_alone : forall sched mA mB outA outB,
  vrun2 mA mB sched = Ok (outA, outB) ->
  vrun1 mA (ops_of false sched) = Ok outA /\ vrun1 mB (ops_of true sched) = Ok outB.
Proof.
  induction sched as [|[[|] op] r IH]; intros mA mB outA outB H; cbn [vrun2] in H.
  - inversion H. split; reflexivity.
  - unfold ops_of. cbn [filter fst Bool.eqb map snd]. fold (ops_of false r). fold (ops_of true r).
    cbn [vrun1].
    destruct (vstep mB op) as [[a mB']| |]; cbn [bind] in H |- *; try discriminate.
    destruct (vrun2 mA mB' r) as [[ya yb]| |] eqn:E; cbn [bind fst snd] in H; try discriminate.
    inversion H; subst. destruct (IH _ _ _ _ E) as [I1 I2]. split; [exact I1|].
    rewrite I2. reflexivity.
  - unfold ops_of. cbn [filter fst Bool.eqb map snd]. fold (ops_of false r). fold (ops_of true r).
    cbn [vrun1].
    destruct (vstep mA op) as [[a mA']| |]; cbn [bind] in H |- *; try discriminate.
    destruct (vrun2 mA' mB r) as [[ya yb]| |] eqn:E; cbn [bind fst snd] in H; try discriminate.
    inversion H; subst. destruct (IH _ _ _ _ E) as [I1 I2]. split; [|exact I2].
    rewrite I1. reflexivity.
Qed.

(* ---- in the model's terms (Model/C13Model.v), for namespaces that are mutable when a mapper is built ---- *)
Definition mop_mutable (op : mop) : Prop := match op with ONew ns _ => nso_mutable ns = true | _ => True end.
Definition mstep (m : mapper) (op : mop) : option nat * mapper :=
  match op with
  | ONew ns b => (None, new_mapper lower (nso_taxa ns) b)
  | OAdd t x => (None, add_translate_token lower m t x)
  | OLookup s c => lookup_taxon_symbol lower m s c
  | ORequire s => (Some (fst (require_taxon_for_symbol lower m s)), snd (require_taxon_for_symbol lower m s))
  end.
Fixpoint mrun1 (m : mapper) (ops : list mop) : list (option nat) :=
  match ops with
  | [] => []
  | op :: r => fst (mstep m op) :: mrun1 (snd (mstep m op)) r
  end.

Lemma vstep_model : forall nl m op, mop_mutable op ->
  exists nl', vstep (mo_of nl m) op = Ok (fst (mstep m op), mo_of nl' (snd (mstep m op))).
Proof.
  intros nl m op Hm. destruct op as [[taxa mut] b|t x|s c|s]; cbn [vstep mstep fst snd].
  - cbn in Hm. subst mut. rewrite G_mapper_init. cbn [bind]. eexists.
    unfold mo_of, new_mapper, nso_taxa. cbn [fst m_ns m_tokens m_labels m_numbers m_by_number]. reflexivity.
  - exists nl. destruct m. reflexivity.
  - exists nl. apply G_mapper_lookup_taxon_symbol.
  - exists nl. unfold gm_require_taxon_for_symbol. rewrite G_mapper_lookup_taxon_symbol. cbn [bind].
    rewrite require_is_lookup. reflexivity.
Qed.

Lemma vrun1_model : forall ops nl m, Forall mop_mutable ops -> vrun1 (mo_of nl m) ops = Ok (mrun1 m ops).
Proof.
  induction ops as [|op r IH]; intros nl m H; [reflexivity|]. inversion H as [|? ? H1 H2]; subst.
  cbn [vrun1 mrun1]. destruct (vstep_model nl m op H1) as [nl' E]. rewrite E. cbn [bind]. rewrite (IH nl' _ H2). reflexivity.
Qed.

Lemma vrun2_model : forall sched nlA mA nlB mB, Forall (fun p => mop_mutable (snd p)) sched ->
  vrun2 (mo_of nlA mA) (mo_of nlB mB) sched = Ok (mrun1 mA (ops_of false sched), mrun1 mB (ops_of true sched)).
Proof.
  induction sched as [|[[|] op] r IH]; intros nlA mA nlB mB H; [reflexivity| |]; inversion H as [|? ? H1 H2]; subst;
    cbn [snd] in H1; cbn [vrun2]; unfold ops_of; cbn [filter fst Bool.eqb map snd]; fold (ops_of false r); fold (ops_of true r).
  - destruct (vstep_model nlB mB op H1) as [nl' E]. rewrite E. cbn [bind]. rewrite (IH nlA mA nl' _ H2). reflexivity.
  - destruct (vstep_model nlA mA op H1) as [nl' E]. rewrite E. cbn [bind]. rewrite (IH nl' _ nlB mB H2). reflexivity.
Qed.

(* two mappers constructed in one store over mutable namespaces, their steps interleaved by ANY schedule (which may
   construct further mappers on either side): every answer is the one the MODEL's mapper gives that reader alone *)
Theorem interleaved_model : forall w0 oA0 oB0 taxaA bA taxaB bB sched,
  Forall (fun p => mop_mutable (snd p)) sched ->
  osys2 w0 oA0 oB0 (taxaA, true) bA (taxaB, true) bB sched
  = Ok (mrun1 (new_mapper lower taxaA bA) (ops_of false sched), mrun1 (new_mapper lower taxaB bB) (ops_of true sched)).
Proof.
  intros. rewrite interleaved_is_separate. unfold vsys2. rewrite !G_mapper_init. cbn [bind].
  exact (vrun2_model sched _ (new_mapper lower taxaA bA) _ (new_mapper lower taxaB bB) H).
Qed.

End Sys.

(* ---- the statements are not vacuous; the disjointness hypothesis is necessary ---- *)
Definition ex_lower (s : str) : str := s.
Definition ex_cls : mcls := mkMcls 0 0 0 0.
Definition ex_blank : mref := mkMref None None 0 0 0 0 false.
Definition sA : str := [97%Z].     (* "a" *)
Definition sB : str := [98%Z].
Definition s1 : str := [49%Z].     (* "1" *)
Definition s2 : str := [50%Z].
Definition ex_sched : list (bool * mop) :=
  [(false, OLookup s1 true); (true, OLookup s1 true); (true, OAdd s2 0); (false, OLookup s2 true); (true, OLookup s2 true);
   (true, ONew ([sB; sA], true) true); (false, OLookup s1 true); (true, OLookup s1 true)].

(* A over [a; b], B over [b]: "1" is a in A and b in B; B's TRANSLATE entry 2 -> b and B's later re-construction over
   [b; a] leave A's answers as they are *)
Example interleaved_example :
  osys2 ex_lower ex_cls world_empty ex_blank ex_blank ([sA; sB], true) true ([sB], true) true ex_sched
  = Ok ([Some 0; Some 1; Some 0], [Some 0; None; Some 0; None; Some 0]).
Proof. vm_compute. reflexivity. Qed.

Example interleaved_example_hyp : Forall (fun p => mop_mutable (snd p)) ex_sched.
Proof. repeat constructor. Qed.

(* two mapper objects that hold the SAME number table (what a class-level table amounts to): a new taxon created through
   B is entered under its number into the table A reads, and A's answer changes - the disjointness hypothesis of
   orun2_is_vrun2 cannot be dropped *)
Definition sC : str := [99%Z].
Definition sh_w : world := mkW (fun _ => []) (fun _ => []) 8.
Definition sh_A : mref := mkMref (Some ([sA], false)) (Some true) 0 1 2 3 true.
Definition sh_B : mref := mkMref (Some ([sB], false)) (Some true) 4 5 2 3 true.
Definition sh_sched : list (bool * mop) := [(false, OLookup s2 false); (true, OLookup sC true); (false, OLookup s2 false)].
Example shared_table_breaks_independence :
  wfo sh_w sh_A /\ wfo sh_w sh_B
  /\ orun2 ex_lower ex_cls sh_A sh_B sh_w sh_sched = Ok ([None; Some 1], [Some 1])
  /\ vrun2 ex_lower (deref sh_w sh_A) (deref sh_w sh_B) sh_sched = Ok ([None; None], [Some 1]).
Proof.
  split; [|split; [|split]].
  - split; [unfold distinct4; cbn; repeat split; lia|]. intros c Hc. cbn in Hc |- *. destruct Hc as [H|[H|[H|[H|[]]]]]; subst; lia.
  - split; [unfold distinct4; cbn; repeat split; lia|]. intros c Hc. cbn in Hc |- *. destruct Hc as [H|[H|[H|[H|[]]]]]; subst; lia.
  - vm_compute. reflexivity.
  - vm_compute. reflexivity.
Qed.
