(* C01: encode_bipartitions with the flags suppress_unifurcations / collapse_unrooted_basal_bifurcation
   (Model/C01Model.v encode_f).  The theorems of C01Enc generalised over both flags. *)
From Coq Require Import ZArith List Bool Lia ZifyBool.
From DV Require Import Model.PyPrims Model.Tree Gen.BitFns Model.C01Model Proofs.C01Bits Proofs.C01Enc.
Import ListNotations.
Open Scope Z_scope.

Definition pre_collapse_f (cb : bool) (rooted : option bool) (t : tree) : tree * option bool :=
  if cb then pre_collapse rooted t else (t, rooted).

Definition post_f (su : bool) (t : tree) : tree := if su then suppress t else t.

Lemma enc_node_f_true acc t : enc_node_f true acc t = enc_node acc t.
Proof.
  induction t as [i x l e ks IH] using tree_ind'. cbn [enc_node_f enc_node]. unfold enc_visit_f.
  f_equal. apply map_ext_in. intros k Hk. rewrite Forall_forall in IH. apply IH. exact Hk.
Qed.

Lemma enc_node_f_false acc t : enc_node_f false acc t = (t, cmask acc t, entries_of acc t).
Proof.
  induction t as [i x l e ks IH] using tree_ind'.
  assert (M : map (enc_node_f false acc) ks = map (fun k => (k, cmask acc k, entries_of acc k)) ks).
  { apply map_ext_in. intros k Hk. rewrite Forall_forall in IH. apply IH. exact Hk. }
  cbn [enc_node_f]. rewrite M. clear M IH. unfold enc_visit_f.
  destruct ks as [|k r].
  - cbn [map]. rewrite entries_of_node. cbn [map concat app]. unfold cmask. cbn [leaf_taxa mask_of fold_right leaf_mask].
    rewrite Z.lor_0_r. reflexivity.
  - set (ks := k :: r). set (F := fun k0 : tree => (k0, cmask acc k0, entries_of acc k0)).
    assert (V : match map F ks with
                | [] => (T i x l e [], match x with Some tx => taxon_bitmask acc tx | None => 0 end,
                         [(i, match x with Some tx => taxon_bitmask acc tx | None => 0 end)])
                | _ :: _ => (T i x l e (map (fun r0 => fst (fst r0)) (map F ks)),
                             fold_left Z.lor (map (fun r0 => snd (fst r0)) (map F ks)) 0,
                             concat (map snd (map F ks)) ++ [(i, fold_left Z.lor (map (fun r0 => snd (fst r0)) (map F ks)) 0)])
                end =
                (T i x l e (map (fun r0 => fst (fst r0)) (map F ks)),
                 fold_left Z.lor (map (fun r0 => snd (fst r0)) (map F ks)) 0,
                 concat (map snd (map F ks)) ++ [(i, fold_left Z.lor (map (fun r0 => snd (fst r0)) (map F ks)) 0)])) by reflexivity.
    rewrite V. clear V. rewrite !map_map. unfold F. cbn [fst snd]. rewrite map_id.
    rewrite fold_left_lor, Z.lor_0_l. rewrite entries_of_node. unfold ks. rewrite (cmask_node acc i x l e k r). reflexivity.
Qed.

Lemma enc_node_f_spec su acc t :
  enc_node_f su acc t = (post_f su t, cmask acc t, entries_of acc (post_f su t)).
Proof.
  destruct su; cbn [post_f]; [rewrite enc_node_f_true; apply enc_node_spec | apply enc_node_f_false].
Qed.

Lemma leaf_taxa_post_f su t : leaf_taxa (post_f su t) = leaf_taxa t.
Proof. destruct su; [apply leaf_taxa_suppress | reflexivity]. Qed.

Lemma leaf_taxa_pre_collapse_f cb rooted t : leaf_taxa (fst (pre_collapse_f cb rooted t)) = leaf_taxa t.
Proof. destruct cb; [apply leaf_taxa_pre_collapse | reflexivity]. Qed.

Lemma encode_f_spec su cb acc rooted t :
  encode_f su cb acc rooted t =
  let t1 := fst (pre_collapse_f cb rooted t) in
  let rooted1 := snd (pre_collapse_f cb rooted t) in
  let t2 := post_f su t1 in
  mkEnc t2 rooted1 (spec_edges acc rooted1 (cmask acc t) t2) (map snd (spec_edges acc rooted1 (cmask acc t) t2)).
Proof.
  unfold encode_f, pre_collapse_f, pre_collapse. destruct cb; cbn [andb].
  - destruct (negb (is_true rooted) && (nkids t =? 2)) eqn:E.
    + destruct (collapse_basal t) as [t' ch] eqn:EC. cbn [fst snd]. cbv zeta.
      rewrite enc_node_f_spec, entries_of_last. cbn [snd].
      assert (L : cmask acc (post_f su t') = cmask acc t).
      { unfold cmask. rewrite leaf_taxa_post_f, <- (leaf_taxa_collapse_basal t), EC. reflexivity. }
      rewrite L. unfold spec_edges, entries_of. rewrite !map_map. cbn [fst snd]. reflexivity.
    + cbn [fst snd]. cbv zeta. rewrite enc_node_f_spec, entries_of_last. cbn [snd].
      replace (cmask acc (post_f su t)) with (cmask acc t) by (unfold cmask; rewrite leaf_taxa_post_f; reflexivity).
      unfold spec_edges, entries_of. rewrite !map_map. cbn [fst snd]. reflexivity.
  - cbn [fst snd]. cbv zeta. rewrite enc_node_f_spec, entries_of_last. cbn [snd].
    replace (cmask acc (post_f su t)) with (cmask acc t) by (unfold cmask; rewrite leaf_taxa_post_f; reflexivity).
    unfold spec_edges, entries_of. rewrite !map_map. cbn [fst snd]. reflexivity.
Qed.

(* the default flags give the function studied in C01Enc *)
Lemma encode_f_default acc rooted t : encode_f true true acc rooted t = encode acc rooted t.
Proof. rewrite encode_f_spec, encode_spec. reflexivity. Qed.

Lemma leaf_taxa_result_f su cb acc rooted t : leaf_taxa (r_tree (encode_f su cb acc rooted t)) = leaf_taxa t.
Proof. rewrite encode_f_spec. cbn [r_tree]. rewrite leaf_taxa_post_f. apply leaf_taxa_pre_collapse_f. Qed.

Lemma leafset_mask_exact_f_l su cb acc rooted t :
  (forall x, In (Some x) (leaf_taxa t) -> 0 <= acc x) ->
  Forall2 (fun n e =>
             fst e = t_id n /\
             forall i, 0 <= i ->
               (Z.testbit (fst (snd e)) i = true <-> exists x, In (Some x) (leaf_taxa n) /\ acc x = i))
          (postorder (r_tree (encode_f su cb acc rooted t))) (r_edges (encode_f su cb acc rooted t))
  /\ r_enc (encode_f su cb acc rooted t) = map snd (r_edges (encode_f su cb acc rooted t)).
Proof.
  intro Hacc. pose proof (leaf_taxa_result_f su cb acc rooted t) as LT. revert LT.
  rewrite encode_f_spec. cbv zeta. cbn [r_tree r_edges r_enc]. intro LT. split; [| reflexivity].
  unfold spec_edges. apply Forall2_map_self. intros n Hn. cbn [fst snd]. split; [reflexivity|].
  intros i Hi. apply mask_of_testbit; [| exact Hi].
  intros x Hx. apply Hacc. rewrite <- LT. apply (postorder_leaf_taxa_incl _ n Hn). exact Hx.
Qed.

Lemma pre_collapse_f_rooted cb rooted t : is_true rooted = true -> pre_collapse_f cb rooted t = (t, rooted).
Proof. intro H. destruct cb; [apply pre_collapse_rooted; exact H | reflexivity]. Qed.

Lemma pre_collapse_f_unrooted cb rooted t : is_true rooted = false -> is_true (snd (pre_collapse_f cb rooted t)) = false.
Proof. intro H. destruct cb; [apply pre_collapse_unrooted; exact H | exact H]. Qed.

Lemma result_nodes_subset su cb acc rooted t n :
  In n (postorder (post_f su (fst (pre_collapse_f cb rooted t)))) -> msubset (cmask acc n) (cmask acc t).
Proof.
  intro Hn. replace (cmask acc t) with (cmask acc (post_f su (fst (pre_collapse_f cb rooted t)))).
  - apply postorder_cmask_subset. exact Hn.
  - unfold cmask. rewrite leaf_taxa_post_f, leaf_taxa_pre_collapse_f. reflexivity.
Qed.

Lemma split_mask_rooted_f_l su cb acc rooted t : is_true rooted = true ->
  Forall (fun e => snd (snd e) = fst (snd e)) (r_edges (encode_f su cb acc rooted t))
  /\ r_rooted (encode_f su cb acc rooted t) = rooted.
Proof.
  intro HR. rewrite encode_f_spec. cbv zeta. cbn [r_edges r_rooted].
  rewrite (pre_collapse_f_rooted cb rooted t HR). cbn [fst snd]. split; [| reflexivity].
  unfold spec_edges. apply Forall_forall. intros e He. apply in_map_iff in He. destruct He as (n & <- & Hn). cbn [fst snd].
  unfold compile_split. rewrite HR. destruct (Z.eqb_spec (cmask acc t) 0) as [E0 | _]; [| reflexivity].
  symmetry. apply msubset_0. rewrite <- E0.
  pose proof (result_nodes_subset su cb acc rooted t n) as RS. rewrite (pre_collapse_f_rooted cb rooted t HR) in RS.
  apply RS. exact Hn.
Qed.

Lemma split_mask_unrooted_f_l su cb acc rooted t : is_true rooted = false ->
  let S := cmask acc t in
  (S = 0 -> Forall (fun e => snd (snd e) = 0) (r_edges (encode_f su cb acc rooted t))) /\
  (forall low, 0 <= low -> Z.testbit S low = true -> (forall j, 0 <= j < low -> Z.testbit S j = false) ->
     Forall (fun e =>
               let ls := fst (snd e) in
               let sp := snd (snd e) in
               sp = (if Z.testbit ls low then Z.land (Z.lnot ls) S else ls) /\
               Z.testbit sp low = false /\
               Z.land sp S = sp)
            (r_edges (encode_f su cb acc rooted t))).
Proof.
  intros HR S. rewrite encode_f_spec. cbv zeta. cbn [r_edges].
  pose proof (pre_collapse_f_unrooted cb rooted t HR) as HR1.
  split.
  - intro S0. apply Forall_forall. intros e He. unfold spec_edges in He.
    apply in_map_iff in He. destruct He as (n & <- & Hn). cbn [fst snd].
    unfold compile_split. fold S. rewrite S0. reflexivity.
  - intros low Hlow Hbit Hmin. apply Forall_forall. intros e He. unfold spec_edges in He.
    apply in_map_iff in He. destruct He as (n & <- & Hn). cbn [fst snd]. cbv zeta.
    unfold compile_split. fold S. rewrite HR1.
    assert (SN : S <> 0) by (intro E; rewrite E, Z.bits_0 in Hbit; discriminate).
    destruct (Z.eqb_spec S 0) as [E | _]; [contradiction|].
    destruct (lsb_pow2 S SN) as (k & Hk & EL).
    assert (K : k = low).
    { apply (lowest_unique S); [exact Hk|]. split; [exact Hlow|]. split; [exact Hbit | exact Hmin]. }
    subst k. rewrite EL. split; [| split].
    + rewrite normalize_eq by exact Hlow. destruct (Z.testbit (cmask acc n) low); [reflexivity|].
      apply msubset_land. apply (result_nodes_subset su cb acc rooted t n Hn).
    + apply normalize_low_clear. exact Hlow.
    + apply normalize_subset_fill. exact Hlow.
Qed.

(* structure: what the flags switch on and off, and what never changes *)
Lemma encode_structure_f_l su cb acc rooted t :
  let basal := cb && negb (is_true rooted) && (nkids t =? 2) in
  r_tree (encode_f su cb acc rooted t)
    = (if su then suppress else (fun u => u)) (if basal then fst (collapse_basal t) else t) /\
  r_rooted (encode_f su cb acc rooted t)
    = (if basal && snd (collapse_basal t) then Some false else rooted) /\
  leaf_taxa (r_tree (encode_f su cb acc rooted t)) = leaf_taxa t /\
  (su = true -> unif_free (r_tree (encode_f su cb acc rooted t)) = true) /\
  (su = false -> cb = false -> r_tree (encode_f su cb acc rooted t) = t).
Proof.
  cbv zeta. split; [| split; [| split; [| split]]].
  - rewrite encode_f_spec. cbv zeta. cbn [r_tree]. unfold pre_collapse_f, pre_collapse, post_f.
    destruct cb, su; cbn [andb]; try reflexivity;
      destruct (negb (is_true rooted) && (nkids t =? 2)); reflexivity.
  - rewrite encode_f_spec. cbv zeta. cbn [r_rooted]. unfold pre_collapse_f, pre_collapse.
    destruct cb; cbn [andb]; [| reflexivity]. destruct (negb (is_true rooted) && (nkids t =? 2)); reflexivity.
  - apply leaf_taxa_result_f.
  - intros ->. rewrite encode_f_spec. cbv zeta. cbn [r_tree post_f]. apply suppress_unif_free.
  - intros -> ->. rewrite encode_f_spec. reflexivity.
Qed.
