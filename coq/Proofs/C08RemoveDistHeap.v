(* C08 (wave 6): distance preservation of Node.remove_child(child, suppress_unifurcations=True) at the
   pointer level and for the GENERATED code (Gen/Mutators.v Node_remove_child, through C03Gen's
   refinement gen_remove_child and C03's context lemma remove_child_su_unary): the case the property
   speaks about - the parent p of the removed child has a parent itself and is left with exactly one
   child k; p is spliced out and k's edge takes len(k) + len(p).  No hypothesis on any other length. *)
From Coq Require Import ZArith List Bool Lia.
From DV Require Import Model.PyPrims Model.Tree Model.C08Model Model.C08Spec2 Proofs.C08Base Proofs.C08Child Proofs.C08Dist
     Proofs.C08RemoveDist.
From DV Require Model.Heap Model.HeapOps Model.C03Spec Proofs.C03Base Proofs.C03Abs Proofs.C03RemoveSu
     Model.MutPrims Gen.Mutators Model.C03GenInst Proofs.C03GenRemove.
Import ListNotations.
Open Scope Z_scope.

(* two subtrees that cannot be told apart, from above, by the nodes of interest *)
Definition leq (P : Z -> Prop) (s s' : tree) : Prop :=
  (forall a, P a -> rdk a s = rdk a s') /\ (forall a b, P a -> P b -> dist a b s = dist a b s').

Lemma leq_trans P a b c : leq P a b -> leq P b c -> leq P a c.
Proof. intros [A1 A2] [B1 B2]. split; intros; [rewrite A1, B1|rewrite A2, B2]; auto. Qed.

Lemma first_some_mid {A} (g : tree -> option A) lft s s' rgt :
  g s = g s' -> first_some (map g (lft ++ s :: rgt)) = first_some (map g (lft ++ s' :: rgt)).
Proof. intro E. rewrite !map_app, !first_some_app. simpl. rewrite E. reflexivity. Qed.

Lemma leq_node P i x l e lft s s' rgt :
  leq P s s' -> leq P (T i x l e (lft ++ s :: rgt)) (T i x l e (lft ++ s' :: rgt)).
Proof.
  intros [R D].
  assert (Rd : forall a, P a -> rd a (T i x l e (lft ++ s :: rgt)) = rd a (T i x l e (lft ++ s' :: rgt))).
  { intros a Pa. rewrite !rd_T. rewrite (first_some_mid (rdk a) lft s s' rgt (R a Pa)). reflexivity. }
  split.
  - intros a Pa. unfold rdk. rewrite (Rd a Pa). reflexivity.
  - intros a b Pa Pb. rewrite !dist_T, (Rd a Pa), (Rd b Pb).
    rewrite (first_some_mid (dist a b) lft s s' rgt (D a b Pa Pb)). reflexivity.
Qed.

Lemma leq_plug P c : forall s s', leq P s s' -> leq P (C03Base.plug c s) (C03Base.plug c s').
Proof.
  induction c as [|c' IH i x l e lft rgt]; intros s s' L; [exact L|].
  simpl. apply IH. apply leq_node, L.
Qed.

(* dropping a child subtree whose nodes are not of interest *)
Lemma leq_drop (P : Z -> Prop) i x l e lft s rgt :
  (forall a, P a -> ~ In a (ids s)) ->
  leq P (T i x l e (lft ++ s :: rgt)) (T i x l e (lft ++ rgt)).
Proof.
  intro Ps.
  assert (F : forall A (g : tree -> option A), g s = None ->
            first_some (map g (lft ++ s :: rgt)) = first_some (map g (lft ++ rgt))).
  { intros A g E. rewrite !map_app, !first_some_app. simpl. rewrite E. reflexivity. }
  assert (Rd : forall a, P a -> rd a (T i x l e (lft ++ s :: rgt)) = rd a (T i x l e (lft ++ rgt))).
  { intros a Pa. rewrite !rd_T, (F _ (rdk a) (rdk_notin a s (Ps a Pa))). reflexivity. }
  split.
  - intros a Pa. unfold rdk. rewrite (Rd a Pa). reflexivity.
  - intros a b Pa Pb. rewrite !dist_T, (Rd a Pa), (Rd b Pb), (F _ (dist a b) (dist_notin a b s (Ps a Pa))). reflexivity.
Qed.

(* the merge *)
Lemma leq_splice (P : Z -> Prop) p x l e ki xk lk ek kk :
  (forall a, P a -> a <> p) ->
  leq P (T p x l (Some e) [T ki xk lk (Some ek) kk]) (T ki xk lk (Some (ek + e)) kk).
Proof.
  intro Pp. destruct (splice_loc_ok p x l e (T ki xk lk (Some ek) kk) ek P eq_refl Pp) as [R D].
  unfold splice_try in R, D. cbn [t_kids t_len try_add set_len map] in R, D.
  split.
  - intros a Pa. specialize (R a Pa). rewrite fs1 in R. symmetry. exact R.
  - intros a b Pa Pb. specialize (D a b Pa Pb). rewrite fs1 in D. symmetry. exact D.
Qed.

(* pointer level *)
Theorem heap_remove_child_su_dist_l h c q xq lq eq a b p x l e lft s rgt ki xk lk ek kk :
  lft ++ rgt = [T ki xk lk (Some ek) kk] ->
  C03Base.Wr h (C03Base.plug c (T q xq lq eq (a ++ T p x l (Some e) (lft ++ s :: rgt) :: b))) ->
  exists h' t',
    Heap.remove_child p (t_id s) true h = Heap.HOk h' /\ C03Base.Wr h' t' /\
    forall u v, ~ In u (ids s) -> ~ In v (ids s) -> u <> p -> v <> p ->
      dist u v t' = dist u v (C03Base.plug c (T q xq lq eq (a ++ T p x l (Some e) (lft ++ s :: rgt) :: b))).
Proof.
  intros Ek W.
  destruct (C03RemoveSu.remove_child_su_unary h c q xq lq eq a b p x l (Some e) lft s rgt _ Ek W) as [h' [E [W' _]]].
  cbn [C03Spec.try_add_len] in W'.
  exists h'. eexists. split; [exact E|]. split; [exact W'|].
  intros u v Hu Hv Hup Hvp.
  set (P := fun z => ~ In z (ids s) /\ z <> p).
  assert (L : leq P (T p x l (Some e) (lft ++ s :: rgt)) (T ki xk lk (Some (ek + e)) kk)).
  { eapply leq_trans; [apply leq_drop; intros z [Hz _]; exact Hz|]. rewrite Ek.
    apply leq_splice. intros z [_ Hz]. exact Hz. }
  pose proof (leq_plug P c _ _ (leq_node P q xq lq eq a _ _ b L)) as [_ D].
  symmetry. apply D; split; assumption.
Qed.

(* the generated method *)
Theorem gen_remove_child_su_dist_l fuel h c q xq lq eq a b p x l e lft s rgt ki xk lk ek kk :
  lft ++ rgt = [T ki xk lk (Some ek) kk] ->
  C03Base.Wr h (C03Base.plug c (T q xq lq eq (a ++ T p x l (Some e) (lft ++ s :: rgt) :: b))) ->
  Heap.memz p (Heap.kids h p) = false -> (forall z, (length (Heap.kids h z) < fuel)%nat) ->
  exists hg h' t',
    Mutators.Node_remove_child C03GenInst.HG fuel p (t_id s) true h = MutPrims.MOk (t_id s) hg /\
    C03GenInst.heq hg h' /\ C03Base.Wr h' t' /\
    forall u v, ~ In u (ids s) -> ~ In v (ids s) -> u <> p -> v <> p ->
      dist u v t' = dist u v (C03Base.plug c (T q xq lq eq (a ++ T p x l (Some e) (lft ++ s :: rgt) :: b))).
Proof.
  intros Ek W Hself Hfuel.
  destruct (heap_remove_child_su_dist_l h c q xq lq eq a b p x l e lft s rgt ki xk lk ek kk Ek W) as [h' [t' [E [W' D]]]].
  pose proof (C03GenRemove.gen_remove_child fuel p (t_id s) true h Hself Hfuel) as S. rewrite E in S.
  destruct (Mutators.Node_remove_child C03GenInst.HG fuel p (t_id s) true h) as [vv hg|ee hg|]; simpl in S; try contradiction.
  destruct S as [-> Hq]. exists hg, h', t'. split; [reflexivity|]. split; [exact Hq|]. split; [exact W'|exact D].
Qed.

(* the hypotheses are satisfiable: ((A:1,B:2)p:3,C:4), remove A from p *)
Example gen_remove_child_su_dist_hyps :
  C03Base.Wr (Heap.of_tree exrd None)
    (C03Base.plug C03Base.CTop
       (T 0 None None None ([] ++ T 1 None None (Some 3) ([] ++ T 2 (Some 10) None (Some 1) [] :: [T 3 (Some 11) None (Some 2) []])
                                :: [T 4 (Some 12) None (Some 4) []]))) /\
  Heap.memz 1 (Heap.kids (Heap.of_tree exrd None) 1) = false /\
  (forall z, (length (Heap.kids (Heap.of_tree exrd None) z) < 10)%nat).
Proof.
  split; [|split].
  - apply C03Abs.of_tree_WFt. vm_compute. repeat constructor; simpl; intuition discriminate.
  - reflexivity.
  - intro z. unfold Heap.kids, Heap.get, Heap.of_tree. simpl.
    repeat (destruct (Z.eqb z _); [simpl; lia|]). simpl. lia.
Qed.
