(* C10: the operation-level model `step` re-assembled from the GENERATED functions only
   (gen_step), and the proof that it coincides with the hand-written `step` in every state
   satisfying the invariant - hence along every history.  The theorems of Props/C10.v about
   `step` / `run_world` therefore hold of the code generated from the Python source. *)
From Coq Require Import ZArith List Bool Lia String.
From DV Require Import Model.PyPrims Model.C10Model Model.C10ModelExt Model.C10NsPrims Gen.Namespace.
From DV Require Import Proofs.C10Lists Proofs.C10Inv Proofs.C10Bits Proofs.C10Gen.
Import ListNotations.
Open Scope Z_scope.

Definition untaxon (v : pyval) : tid := match v with VTaxon t => t | _ => -1 end.

Definition v_unit (_ : pyval) : out := OUnit.
Definition v_tax (v : pyval) : out :=
  match v with VTaxon t => OTax (Some t) | VNone => OTax None | _ => OErr OtherErr end.
Definition v_taxa (v : pyval) : out :=
  match v with VList l => OTaxa (map untaxon l) | _ => OErr OtherErr end.
Definition v_bool (v : pyval) : out := match v with VBool b => OBool b | _ => OErr OtherErr end.
Definition v_int (v : pyval) : out := match v with VInt z => OInt z | _ => OErr OtherErr end.
Definition v_out (v : pyval) : out := match v with VOut o => o | _ => OErr OtherErr end.

(* an exception leaves the observed world unchanged, as in C10Model.step *)
Definition eff (w : world) (r : res (world * pyval)) (f : pyval -> out) : world * out :=
  match r with Ok (w', v) => (w', f v) | Err e => (w, OErr e) | OutOfFuel => (w, OErr Hang) end.
Definition pur (w : world) (r : res pyval) (f : pyval -> out) : world * out :=
  match r with Ok v => (w, f v) | Err e => (w, OErr e) | OutOfFuel => (w, OErr Hang) end.

Section S.
Variable lower : lbl -> lbl.
Variable casefold : lbl -> lbl.

Definition gen_step (w : world) (o : op) : world * out :=
  match o with
  | AddTaxon t => eff w (py_add_taxon w (VTaxon t)) v_unit
  | AddTaxa ts => eff w (py_add_taxa w (VList (map VTaxon ts))) v_unit
  | NewTaxon l => eff w (py_new_taxon w (VLabel l)) v_tax
  | NewTaxa ls => eff w (py_new_taxa w (VList (map VLabel ls))) v_taxa
  | RequireTaxon l cs => eff w (py_require_taxon lower casefold w (VLabel l) (cs_val cs)) v_tax
  | RemoveTaxon t => eff w (py_remove_taxon w (VTaxon t)) v_unit
  | RemoveLabel l cs first => eff w (py_remove_taxon_label lower casefold w (VLabel l) (cs_val cs) (VBool first)) v_unit
  | DiscardLabel l cs first => eff w (py_discard_taxon_label lower casefold w (VLabel l) (cs_val cs) (VBool first)) v_unit
  | Clear => eff w (py_clear w) v_unit
  | Sort reverse => eff w (py_sort w VNone (VBool reverse)) v_unit
  | Reverse => eff w (py_reverse w) v_unit
  | GetTaxon l cs => pur w (py_get_taxon lower casefold w (VLabel l) (cs_val cs)) v_tax
  | FindAll l cs => pur w (py_findall lower casefold w (VLabel l) (cs_val cs)) v_taxa
  | HasLabel l cs => pur w (py_has_taxon_label lower casefold w (VLabel l) (cs_val cs)) v_bool
  | HasLabels ls cs => pur w (py_has_taxa_labels lower casefold w (VList (map VLabel ls)) (cs_val cs)) v_bool
  | GetTaxa ls cs first => pur w (py_get_taxa lower casefold w (VList (map VLabel ls)) (cs_val cs) (VBool first)) v_taxa
  | TaxonBitmask t => eff w (py_taxon_bitmask w (VTaxon t)) v_int
  | TaxaBitmask ts => eff w (py_taxa_bitmask lower casefold w (VKw [("taxa"%string, VList (map VTaxon ts))])) v_int
  | AllBitmask => pur w (py_all_taxa_bitmask w) v_int
  | BitmaskTaxa m => pur w (py_bitmask_taxa_list w (VInt m) (VInt 0)) v_taxa
  | AccIndex t => pur w (py_accession_index w (VTaxon t)) v_int
  | NewickGroups m => eff w (py_bitmask_as_newick_string w (VInt m) (VBool false) (VBool true)) v_out
  (* plain attribute assignments / the copy protocol: not translated *)
  | Relabel _ _ | SetMutable _ | SetCS _ | CopyConstruct | DeepCopy => step lower w o
  end.

Lemma untaxon_map ts : map untaxon (map VTaxon ts) = ts.
Proof. induction ts as [|t r IH]; [reflexivity|]. cbn. rewrite IH. reflexivity. Qed.

Theorem gen_step_eq_l (w : world) (o : op) :
  idx_nonneg (w_ns w) -> 0 <= count (w_ns w) -> gen_step w o = step lower w o.
Proof.
  intros Hn Hc. destruct o; cbn [gen_step step]; try reflexivity.
  - rewrite gen_add_taxon_l. unfold lift_ns_v, lift_ns. destruct (add_taxon (w_ns w) t); reflexivity.
  - rewrite gen_add_taxa_l. unfold lift_ns_v, lift_ns. destruct (add_taxa (w_ns w) ts); reflexivity.
  - rewrite gen_new_taxon_l. unfold new_taxon_v. destruct (new_taxon w l) as [[w' t]| |]; reflexivity.
  - rewrite gen_new_taxa_l. unfold new_taxa_v. destruct (negb (is_mut (w_ns w))); [reflexivity|].
    destruct (new_taxa w ls []) as [[w' ts]| |]; cbn [eff v_taxa]; [rewrite untaxon_map|..]; reflexivity.
  - rewrite gen_require_taxon_l. unfold require_taxon_v. destruct (lookup_first lower w l cs); [reflexivity|].
    destruct (negb (is_mut (w_ns w))); [reflexivity|]. unfold new_taxon_v.
    destruct (new_taxon w l) as [[w' t]| |]; reflexivity.
  - rewrite gen_remove_taxon_l. unfold lift_ns_v, lift_ns. destruct (remove_taxon (w_ns w) t); reflexivity.
  - rewrite gen_remove_taxon_label_l. unfold remove_label_v. destruct (lookup_all lower w l cs); [reflexivity|].
    unfold lift_ns_v, lift_ns. destruct (remove_each _ _); reflexivity.
  - rewrite gen_discard_taxon_label_l. unfold remove_label_v. destruct (lookup_all lower w l cs); [reflexivity|].
    unfold lift_ns_v, lift_ns. destruct (remove_each _ _); reflexivity.
  - rewrite gen_get_taxon_l. cbn [pur]. destruct (lookup_first lower w l cs); reflexivity.
  - rewrite gen_findall_l. cbn [pur v_taxa]. rewrite untaxon_map. reflexivity.
  - rewrite gen_has_taxon_label_l. reflexivity.
  - rewrite gen_has_taxa_labels_l. reflexivity.
  - rewrite gen_get_taxa_l. cbn [pur v_taxa]. rewrite untaxon_map. reflexivity.
  - rewrite gen_taxon_bitmask_l by exact Hn. unfold taxon_bitmask_v.
    destruct (taxon_bitmask (w_ns w) t) as [[n m]| |]; reflexivity.
  - rewrite gen_taxa_bitmask_taxa_l by exact Hn. unfold taxa_bitmask_v.
    destruct (taxa_bitmask (w_ns w) ts 0) as [[n m]| |]; reflexivity.
  - rewrite gen_all_taxa_bitmask_l by exact Hc. reflexivity.
  - rewrite gen_bitmask_taxa_list_l.
    destruct (bitmask_taxa_list (w_ns w) (bits_fuel m) m 0 []); cbn [pur v_taxa]; [rewrite untaxon_map|..]; reflexivity.
  - rewrite gen_accession_index_l. destruct (alookup t (acc (w_ns w))); reflexivity.
  - rewrite gen_bitmask_as_newick_string_l by assumption. unfold newick_v.
    destruct (_ || _); [reflexivity|].
    destruct (newick_groups w (w_ns w) m (taxa (w_ns w)) [] []) as [[n' [l r]]| |]; reflexivity.
Qed.

Lemma Inv_idx_nonneg n : Inv n -> idx_nonneg n /\ 0 <= count n.
Proof.
  intros I. split; [|apply (inv_count _ I)]. intros t i A. apply (inv_range _ I) in A. lia.
Qed.

Fixpoint gen_run (w : world) (ops : list op) : list (out * list (tid * Z)) :=
  match ops with
  | [] => []
  | o :: r => let '(w', x) := gen_step w o in (x, observe w') :: gen_run w' r
  end.

(* the whole observable behaviour (outputs and member/index table after every operation) of the
   generated code along any history from a state satisfying the invariant *)
Theorem gen_run_eq_l (w : world) (ops : list op) : Inv (w_ns w) -> gen_run w ops = run lower w ops.
Proof.
  revert w. induction ops as [|o r IH]; intros w I; [reflexivity|]. cbn [gen_run run].
  destruct (Inv_idx_nonneg _ I) as [Hn Hc]. rewrite (gen_step_eq_l w o Hn Hc).
  pose proof (step_inv lower w o I) as I'. destruct (step lower w o) as [w' x]. cbn [fst] in I'.
  rewrite IH by exact I'. reflexivity.
Qed.

End S.
