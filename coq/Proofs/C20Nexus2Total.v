(* C20: the NEXUS control skeleton (Model/C20Nexus2.v, character level) is total: for EVERY
   character list, with loop budget F >= 2*|text| + 8, it ends in Ok or an error - never out of
   budget (no hang) - and the error is DataParseError except at the recorded defect sites while they
   are in their current form. *)
From Coq Require Import String Ascii ZArith NArith List Bool Lia.
From DV Require Import Model.PyPrims Gen.CharClasses Gen.ReaderLoops Model.Tokenizer Model.Newick
                       Model.C20Model Model.C20Nexus2 Proofs.C20Tok Proofs.C20Newick.
Import ListNotations.
Close Scope string_scope.
Open Scope list_scope.
Open Scope Z_scope.

(* measure: the characters not yet consumed *)
Definition W (st : nstate) : nat := length (n_rest st).

(* an invariant of the payload that every step keeps: once a matrix exists NCHAR is known *)
Definition sok (st : nstate) : Prop := n_mats st = [] \/ n_nchar st <> None.

Section Tot.
Variable fx : nfix.
Variable upper lower : str -> str.
Variable dval : Z -> option Z.
Variable sym_ok : Z -> Z -> bool.
Variable is_float : str -> bool.
Variable F : nat.
(* the error classes a read may end in *)
Variable EP : err -> Prop.
Hypothesis EP_parse : EP ParseErr.
Hypothesis EP_cblock : fx_cblock fx = false -> EP OtherErr.
Hypothesis EP_alpha : fx_alpha fx = false -> EP ValueErr /\ EP TypeErr.

Definition tot {A} (r : nr A) (Q : A -> Prop) : Prop :=
  match r with ROk a => Q a | RErr e => EP e | RFuel => False end.

Lemma tot_bind {A C} (r : nr A) (f : A -> nr C) (P : A -> Prop) (Q : C -> Prop) :
  tot r P -> (forall a, P a -> tot (f a) Q) -> tot (nbind r f) Q.
Proof. destruct r; simpl; auto. Qed.

Lemma tot_impl {A} (r : nr A) (P Q : A -> Prop) : tot r P -> (forall a, P a -> Q a) -> tot r Q.
Proof. destruct r; simpl; auto. Qed.

Lemma tot_perr {A} (Q : A -> Prop) : tot (RErr ParseErr) Q.
Proof. exact EP_parse. Qed.

Definition le (st st' : nstate) : Prop := sok st' /\ (W st' <= W st)%nat.

Lemma le_refl st : sok st -> le st st.
Proof. intro. split; [assumption | lia]. Qed.

(* ---- fetches ---- *)
Inductive fcase (st : nstate) : fetched -> Prop :=
| FC_tok st' : sok st' -> (W st' < W st)%nat -> n_cur st' <> None -> fcase st (GotTok st')
| FC_end st' : sok st' -> W st' = 0%nat -> n_eof st' = true -> fcase st (GotEnd st')
| FC_err : fcase st (GotErr ParseErr).

Lemma nadvance_fcase st : sok st -> fcase st (nadvance st).
Proof.
  intros S. unfold nadvance.
  pose proof (tokenizer_progress_l (st_cfg st) (n_rest st)) as P.
  destruct (Tokenizer.next_token (st_cfg st) (n_rest st)) as [cs|e| |t q cs rest].
  - apply FC_end; [exact S | reflexivity | reflexivity].
  - subst e. apply FC_err.
  - contradiction.
  - apply FC_tok; [exact S | exact P | discriminate].
Qed.

Definition got (st : nstate) (p : option str * nstate) : Prop :=
  sok (snd p) /\ (W (snd p) < W st)%nat /\ fst p <> None.
Definition ended (st : nstate) (p : option str * nstate) : Prop :=
  sok (snd p) /\ W (snd p) = 0%nat /\ fst p = None /\ n_eof (snd p) = true.

Lemma next_token_tot st : sok st -> tot (next_token st) (fun p => got st p \/ ended st p).
Proof.
  intros S. unfold next_token. destruct (nadvance_fcase st S) as [st' S' L C|st' S' L1 E|].
  - cbn [tot]. left. unfold got. cbn [fst snd]. split; [exact S' | split; [exact L | exact C]].
  - cbn [tot]. right. unfold ended. cbn [fst snd].
    split; [exact S'|]. split; [exact L1|]. split; [reflexivity | exact E].
  - exact EP_parse.
Qed.

Lemma require_next_token_tot st : sok st -> tot (require_next_token st) (fun p => got st p).
Proof.
  intros S. unfold require_next_token. destruct (nadvance_fcase st S) as [st' S' L C|st' S' L1 E|].
  - cbn [tot]. unfold got. cbn [fst snd]. split; [exact S' | split; [exact L | exact C]].
  - exact EP_parse.
  - exact EP_parse.
Qed.

Lemma ucase_tot st r :
  tot r (fun p => got st p \/ ended st p) ->
  tot (ucase upper r) (fun p => got st p \/ ended st p).
Proof.
  intros H. unfold ucase. eapply tot_bind; [exact H|].
  intros [t s] [[A [B0 C]] | [A [B0 [C D]]]]; cbn [fst snd] in *.
  - destruct t as [x|]; [|congruence]. cbn [tot]. left. unfold got. cbn [fst snd].
    split; [exact A|]. split; [exact B0 | discriminate].
  - subst t. cbn [tot]. right. unfold ended. cbn [fst snd]. auto.
Qed.

Lemma ucase_got st r :
  tot r (fun p => got st p) -> tot (ucase upper r) (fun p => got st p).
Proof.
  intros H. unfold ucase. eapply tot_bind; [exact H|].
  intros [t s] [A [B0 C]]; cbn [fst snd] in *.
  destruct t as [x|]; [|congruence]. cbn [tot]. unfold got. cbn [fst snd].
  split; [exact A|]. split; [exact B0 | discriminate].
Qed.

Lemma got_le st p : got st p -> le st (snd p).
Proof. intros [A [B0 _]]. split; [exact A | lia]. Qed.

Lemma ended_le st p : ended st p -> le st (snd p).
Proof. intros [A [B0 _]]. split; [exact A | lia]. Qed.

Lemma got_or_ended_le st p : got st p \/ ended st p -> le st (snd p).
Proof. intros [H|H]; [apply (got_le _ _ H) | apply (ended_le _ _ H)]. Qed.

(* ---- facts read off the generated loop records ---- *)
Lemma gen_skip : guard_tests_cur_char L_skip = true /\ guard_tests_none L_skip = true
                 /\ uniform_prim L_skip = FNextToken.
Proof. repeat split; vm_compute; reflexivity. Qed.

Lemma skip_loop_tot : forall f tok st, sok st ->
  (W st + 2 <= f)%nat \/ (tok = None /\ (1 <= f)%nat) ->
  tot (skip_loop f tok st) (fun st' => le st st').
Proof.
  destruct gen_skip as [G1 [G2 G3]].
  induction f as [|f IH]; intros tok st S Hf; [destruct Hf as [Hf|[_ Hf]]; lia|].
  cbn [skip_loop]. rewrite G1, G2, G3.
  destruct Hf as [Hf | [Hn _]].
  2:{ subst tok. cbn [is_none negb andb]. rewrite andb_false_r. apply le_refl. exact S. }
  destruct (negb (tok_is tok ";") && negb (n_eof st) && negb (is_none tok)); [|apply le_refl; exact S].
  eapply tot_bind; [apply next_token_tot; exact S|].
  intros [t st1] [[A [B0 C]] | [A [B0 [C D]]]]; cbn [fst snd] in *.
  - eapply tot_impl; [apply IH; [exact A | left; lia]|].
    intros st2 [S2 L2]. split; [exact S2 | lia].
  - subst t. eapply tot_impl; [apply IH; [exact A | right; split; [reflexivity | lia]]|].
    intros st2 [S2 L2]. split; [exact S2 | lia].
Qed.

Lemma skip_to_semicolon_tot st : sok st -> (W st + 3 <= F)%nat ->
  tot (skip_to_semicolon F st) (fun st' => le st st').
Proof.
  intros S HF. unfold skip_to_semicolon.
  eapply tot_bind; [apply next_token_tot; exact S|].
  intros [t st1] H1. pose proof (got_or_ended_le _ _ H1) as [S1 L1]. cbn [fst snd] in *.
  eapply tot_impl; [apply skip_loop_tot; [exact S1 | left; lia]|].
  intros st2 [S2 L2]. split; [exact S2 | lia].
Qed.

(* updates of the payload do not touch the characters left and keep the invariant *)
Definition same_tok (a b : nstate) : Prop :=
  n_rest a = n_rest b /\ n_eof a = n_eof b /\ (sok b -> sok a).

Lemma same_tok_W a b : same_tok a b -> W a = W b.
Proof. intros [P _]. unfold W. rewrite P. reflexivity. Qed.

Lemma same_tok_sok a b : same_tok a b -> sok b -> sok a.
Proof. intros [_ [_ H]]. exact H. Qed.

Lemma same_tok_refl a : same_tok a a.
Proof. repeat split; auto. Qed.

Lemma tns_set_labels_same st i ls : same_tok (tns_set_labels st i ls) st.
Proof. unfold tns_set_labels. destruct (nth_error (n_tns st) i) as [[t l]|]; repeat split; auto. Qed.

Lemma set_last_mat_same st m : same_tok (set_last_mat st m) st.
Proof.
  unfold set_last_mat. destruct (rev (n_mats st)) as [|x r] eqn:E; repeat split; auto.
  unfold sok. simpl. intros [H|H]; [|right; exact H].
  rewrite H in E. discriminate.
Qed.

Lemma new_tns_same st title : same_tok (snd (new_tns st title)) st.
Proof. unfold new_tns. repeat split; auto. Qed.

(* _parse_title_statement *)
Lemma parse_title_tot st : sok st ->
  tot (parse_title st) (fun p => sok (snd p) /\ (W (snd p) < W st)%nat).
Proof.
  intros S. unfold parse_title.
  eapply tot_bind; [apply require_next_token_tot; exact S|].
  intros [title st1] [A [B0 _]]; cbn [fst snd] in *.
  eapply tot_bind; [apply require_next_token_tot; exact A|].
  intros [sc st2] [A2 [B2 _]]; cbn [fst snd] in *.
  destruct (tok_is sc ";"); cbn [tot]; [|exact EP_parse]. cbn [fst snd]. split; [exact A2 | lia].
Qed.

(* _consume_to_end_of_block *)
Lemma gen_consume : guard_tests_eof L_consume = true /\ guard_tests_none L_consume = true
                    /\ nth_prim L_consume 0 = FSkipToSemicolon /\ nth_prim L_consume 1 = FNextTokenUcase.
Proof. repeat split; vm_compute; reflexivity. Qed.

Lemma consume_loop_tot : forall f tok st, sok st -> (W st + 3 <= F)%nat ->
  (W st + 2 <= f)%nat \/ ((tok = None \/ n_eof st = true) /\ (1 <= f)%nat) ->
  tot (consume_loop upper F f tok st) (fun p => le st (snd p) /\ (n_eof st = true -> snd p = st)).
Proof.
  destruct gen_consume as [G1 [G2 [G3 G4]]].
  induction f as [|f IH]; intros tok st S HF Hf; [destruct Hf as [Hf|[_ Hf]]; lia|].
  cbn [consume_loop]. unfold guard_extra. rewrite G1, G2, G3, G4.
  destruct (negb (is_end tok) && (negb (n_eof st) && negb (is_none tok))) eqn:GD.
  2:{ cbn [tot snd]. split; [apply le_refl; exact S | reflexivity]. }
  apply andb_true_iff in GD. destruct GD as [_ GD]. apply andb_true_iff in GD. destruct GD as [GE GN].
  apply negb_true_iff in GE. apply negb_true_iff in GN.
  destruct Hf as [Hf | [[Hn | He] _]]; [| subst tok; discriminate | congruence].
  eapply tot_bind; [apply skip_to_semicolon_tot; assumption|].
  intros st1 [S1 L1].
  eapply tot_bind; [cbn [fetch]; apply ucase_tot; apply next_token_tot; exact S1|].
  intros [t st2] [[A [B0 C]] | [A [B0 [C D]]]]; cbn [fst snd] in *.
  - eapply tot_impl; [apply IH; [exact A | lia | left; lia]|].
    intros [t' st3] [[S3 L3] _]. cbn [snd] in *. split; [split; [exact S3 | lia] | congruence].
  - eapply tot_impl; [apply IH; [exact A | lia | right; split; [left; exact C | lia]]|].
    intros [t' st3] [[S3 L3] _]. cbn [snd] in *. split; [split; [exact S3 | lia] | congruence].
Qed.

Lemma consume_to_end_of_block_tot tok st : sok st -> (W st + 3 <= F)%nat ->
  tot (consume_to_end_of_block upper F tok st) (fun p => le st (snd p) /\ (n_eof st = true -> snd p = st)).
Proof.
  intros S HF. unfold consume_to_end_of_block. apply consume_loop_tot; [exact S | exact HF | left; lia].
Qed.

(* _parse_link_statement *)
Lemma gen_link : guard_tests_eof L_link = false /\ guard_tests_none L_link = false
                 /\ nth_prim L_link 0 = FNextToken /\ nth_prim L_link 1 = FNextToken
                 /\ nth_prim L_link 2 = FNextTokenUcase /\ nth_prim L_link 6 = FRequireNextTokenUcase.
Proof. repeat split; vm_compute; reflexivity. Qed.

Lemma link_item_tot st : sok st ->
  tot (link_item upper st) (fun r => sok (snd r) /\ (W (snd r) < W st)%nat).
Proof.
  destruct gen_link as [_ [_ [G0 [G1 [G2 _]]]]].
  intros S. unfold link_item. rewrite G0, G1, G2. cbn [fetch].
  eapply tot_bind; [apply next_token_tot; exact S|].
  intros [t st1] H1. cbn [fst snd].
  destruct (tok_is t "=") eqn:E; cbn [negb]; [|exact EP_parse].
  destruct H1 as [[A [B0 C]] | [A [B0 [C D]]]]; cbn [fst snd] in *; [|subst t; discriminate].
  eapply tot_bind; [apply next_token_tot; exact A|].
  intros [t2 st2] H2. cbn [fst snd].
  pose proof (got_or_ended_le _ _ H2) as [S2 L2]. cbn [snd] in *.
  eapply tot_bind; [apply ucase_tot; apply next_token_tot; exact S2|].
  intros [t3 st3] H3. cbn [tot fst snd].
  pose proof (got_or_ended_le _ _ H3) as [S3 L3]. cbn [snd] in *. split; [exact S3 | lia].
Qed.

Lemma link_loop_tot : forall f tok st lt lc, sok st -> (W st + 1 <= f)%nat ->
  tot (link_loop upper f tok st lt lc) (fun r => le st (snd r)).
Proof.
  destruct gen_link as [G1 [G2 [_ [_ [_ G6]]]]].
  induction f as [|f IH]; intros tok st lt lc S Hf; [lia|].
  cbn [link_loop]. unfold guard_extra. rewrite G1, G2, G6.
  destruct (negb (tok_is tok ";") && (true && true)); [|cbn [tot snd]; apply le_refl; exact S].
  destruct (tok_is tok "TAXA").
  { eapply tot_bind; [apply link_item_tot; exact S|].
    intros [[v t] st1] [S1 L1]. cbn [fst snd] in *.
    eapply tot_impl; [apply IH; [exact S1 | lia]|].
    intros r [S2 L2]. split; [exact S2 | lia]. }
  destruct (tok_is tok "CHARACTERS").
  { eapply tot_bind; [apply link_item_tot; exact S|].
    intros [[v t] st1] [S1 L1]. cbn [fst snd] in *.
    eapply tot_impl; [apply IH; [exact S1 | lia]|].
    intros r [S2 L2]. split; [exact S2 | lia]. }
  cbn [fetch]. eapply tot_bind; [apply ucase_got; apply require_next_token_tot; exact S|].
  intros [t st1] [S1 [L1 _]]. cbn [fst snd] in *.
  eapply tot_impl; [apply IH; [exact S1 | lia]|].
  intros r [S2 L2]. split; [exact S2 | lia].
Qed.

Lemma parse_link_tot st : sok st -> (W st + 2 <= F)%nat ->
  tot (parse_link upper F st) (fun r => le st (snd r)).
Proof.
  intros S HF. unfold parse_link.
  eapply tot_bind; [apply ucase_tot; apply next_token_tot; exact S|].
  intros [t st1] H1. cbn [fst snd].
  pose proof (got_or_ended_le _ _ H1) as [S1 L1]. cbn [snd] in *.
  eapply tot_bind; [apply link_loop_tot; [exact S1 | lia]|].
  intros [[[lt lc] tok] st2] [S2 L2]. cbn [tot fst snd] in *. split; [exact S2 | lia].
Qed.

(* _parse_dimensions_statement *)
Lemma gen_dims : guard_tests_eof L_dims = false /\ guard_tests_none L_dims = false
                 /\ uniform_prim L_dims = FRequireNextTokenUcase.
Proof. repeat split; vm_compute; reflexivity. Qed.

Ltac req_step S :=
  cbn [fetch]; eapply tot_bind; [apply ucase_got; apply require_next_token_tot; exact S|].

Lemma sok_upd_ntax st v : sok st -> sok (upd_ntax st v).
Proof. exact (fun H => H). Qed.
Lemma sok_upd_nchar st v : sok st -> sok (upd_nchar st (Some v)).
Proof. intros _. right. discriminate. Qed.

Lemma dims_loop_tot : forall f tok st, sok st -> (W st + 1 <= f)%nat ->
  tot (dims_loop upper dval f tok st) (fun st' => le st st').
Proof.
  destruct gen_dims as [G1 [G2 G3]].
  induction f as [|f IH]; intros tok st S Hf; [lia|].
  cbn [dims_loop]. unfold guard_extra. rewrite G1, G2, G3.
  destruct (negb (tok_is tok ";") && (true && true)); [|cbn [tot]; apply le_refl; exact S].
  match goal with |- tot (nbind ?r _) _ => assert (R : tot r (fun st1 => le st st1)) end.
  { destruct (tok_is tok "NTAX" || tok_is tok "NCHAR").
    - req_step S. intros [t1 st1] [S1 [L1 _]]. cbn [fst snd] in *.
      destruct (tok_is t1 "="); [|exact EP_parse].
      req_step S1. intros [t2 st2] [S2 [L2 N2]]. cbn [fst snd] in *.
      destruct t2 as [v|]; [|congruence].
      destruct (all_digits dval v); [|exact EP_parse].
      cbn [tot]. destruct (tok_is tok "NTAX"); (split; [|unfold W in *; simpl; lia]).
      + apply sok_upd_ntax. exact S2.
      + apply sok_upd_nchar. exact S2.
    - destruct (tok_is tok "BEGIN"); [exact EP_parse|]. cbn [tot]. apply le_refl; exact S. }
  eapply tot_bind; [exact R|].
  intros st1 [S1 L1].
  req_step S1. intros [t st2] [S2 [L2 _]]. cbn [fst snd] in *.
  eapply tot_impl; [apply IH; [exact S2 | lia]|].
  intros st3 [S3 L3]. split; [exact S3 | lia].
Qed.

Lemma parse_dimensions_tot st : sok st -> (W st + 1 <= F)%nat ->
  tot (parse_dimensions upper dval F st) (fun st' => le st st').
Proof.
  intros S HF. unfold parse_dimensions.
  eapply tot_bind; [apply ucase_got; apply require_next_token_tot; exact S|].
  intros [t st1] [S1 [L1 _]]. cbn [fst snd] in *.
  eapply tot_impl; [apply dims_loop_tot; [exact S1 | lia]|].
  intros st3 [S3 L3]. split; [exact S3 | lia].
Qed.

(* _parse_format_statement *)
Lemma gen_format : guard_tests_eof L_format = false /\ guard_tests_none L_format = false
                   /\ uniform_prim L_format = FRequireNextTokenUcase
                   /\ guard_tests_eof L_symbols = false /\ guard_tests_none L_symbols = false
                   /\ uniform_prim L_symbols = FRequireNextTokenUcase.
Proof. repeat split; vm_compute; reflexivity. Qed.

Lemma symbols_loop_tot : forall f tok st acc, sok st -> tok <> None -> (W st + 1 <= f)%nat ->
  tot (symbols_loop upper f tok st acc) (fun r => le st (snd r)).
Proof.
  destruct gen_format as [_ [_ [_ [G1 [G2 G3]]]]].
  induction f as [|f IH]; intros tok st acc S NN Hf; [lia|].
  cbn [symbols_loop]. unfold guard_extra. rewrite G1, G2, G3.
  destruct (negb (tok_is tok """") && (true && true)); [|cbn [tot snd]; apply le_refl; exact S].
  destruct tok as [t|]; [|congruence].
  req_step S. intros [t1 st1] [S1 [L1 N1]]. cbn [fst snd] in *.
  eapply tot_impl; [apply IH; [exact S1 | exact N1 | lia]|].
  intros r [S2 L2]. split; [exact S2 | lia].
Qed.

Lemma format_loop_tot : forall f tok st, sok st -> (W st + 1 <= F)%nat -> (W st + 1 <= f)%nat ->
  tot (format_loop upper lower F f tok st) (fun st' => le st st').
Proof.
  destruct gen_format as [G1 [G2 [G3 _]]].
  induction f as [|f IH]; intros tok st S HF Hf; [lia|].
  cbn [format_loop]. unfold guard_extra. rewrite G1, G2, G3.
  destruct (negb (tok_is tok ";") && (true && true)); [|cbn [tot]; apply le_refl; exact S].
  assert (K : forall tk s2, sok s2 -> (W s2 < W st)%nat ->
              tot (format_loop upper lower F f tk s2) (fun st' => le st st')).
  { intros tk s2 S2 L2. eapply tot_impl; [apply IH; [exact S2 | lia | lia]|].
    intros st4 [S4 L4]. split; [exact S4 | lia]. }
  destruct (tok_is tok "DATATYPE").
  { req_step S. intros [t1 st1] [S1 [L1 _]]. cbn [fst snd] in *.
    destruct (tok_is t1 "="); [|exact EP_parse].
    req_step S1. intros [t2 st2] [S2 [L2 _]]. cbn [fst snd] in *.
    match goal with |- tot (nbind (ucase _ (require_next_token ?x)) _) _ => set (st2' := x) end.
    assert (S2' : sok st2').
    { subst st2'. repeat match goal with |- context [if ?c then _ else _] => destruct c end; exact S2. }
    assert (W2' : W st2' = W st2).
    { subst st2'. repeat match goal with |- context [if ?c then _ else _] => destruct c end; reflexivity. }
    req_step S2'. intros [t3 st3] [S3 [L3 _]]. cbn [fst snd] in *.
    apply K; [exact S3 | lia]. }
  destruct (tok_is tok "SYMBOLS").
  { req_step S. intros [t1 st1] [S1 [L1 _]]. cbn [fst snd] in *.
    destruct (tok_is t1 "="); [|exact EP_parse].
    req_step S1. intros [t2 st2] [S2 [L2 _]]. cbn [fst snd] in *.
    destruct (tok_is t2 """"); [|exact EP_parse].
    req_step S2. intros [t3 st3] [S3 [L3 N3]]. cbn [fst snd] in *.
    eapply tot_bind; [apply symbols_loop_tot; [exact S3 | exact N3 | lia]|].
    intros [sy st4] [S4 L4]. cbn [fst snd] in *.
    match goal with |- tot (nbind (ucase _ (require_next_token ?x)) _) _ => set (st4' := x) end.
    assert (S4' : sok st4') by exact S4. assert (W4' : W st4' = W st4) by reflexivity.
    req_step S4'. intros [t5 st5] [S5 [L5 _]]. cbn [fst snd] in *.
    apply K; [exact S5 | lia]. }
  destruct (tok_is tok "GAP" || tok_is tok "MISSING" || tok_is tok "MATCHCHAR").
  { req_step S. intros [t1 st1] [S1 [L1 _]]. cbn [fst snd] in *.
    destruct (tok_is t1 "="); [|exact EP_parse].
    req_step S1. intros [t2 st2] [S2 [L2 N2]]. cbn [fst snd] in *.
    destruct t2 as [v|]; [|congruence].
    match goal with |- tot (nbind (ucase _ (require_next_token ?x)) _) _ => set (st2' := x) end.
    assert (S2' : sok st2').
    { subst st2'. repeat match goal with |- context [if ?c then _ else _] => destruct c end; exact S2. }
    assert (W2' : W st2' = W st2).
    { subst st2'. repeat match goal with |- context [if ?c then _ else _] => destruct c end; reflexivity. }
    req_step S2'. intros [t3 st3] [S3 [L3 _]]. cbn [fst snd] in *.
    apply K; [exact S3 | lia]. }
  destruct (tok_is tok "INTERLEAVE").
  { req_step S. intros [t1 st1] [S1 [L1 _]]. cbn [fst snd] in *.
    destruct (tok_is t1 "=").
    - req_step S1. intros [t2 st2] [S2 [L2 N2]]. cbn [fst snd] in *.
      destruct t2 as [v|]; [|congruence].
      match goal with |- tot (nbind (ucase _ (require_next_token ?x)) _) _ => set (st2' := x) end.
      assert (S2' : sok st2') by exact S2. assert (W2' : W st2' = W st2) by reflexivity.
      req_step S2'. intros [t3 st3] [S3 [L3 _]]. cbn [fst snd] in *.
      apply K; [exact S3 | lia].
    - apply K; [exact S1 | exact L1]. }
  destruct (tok_is tok "BEGIN"); [exact EP_parse|].
  req_step S. intros [t1 st1] [S1 [L1 _]]. cbn [fst snd] in *.
  apply K; [exact S1 | lia].
Qed.

Lemma parse_format_tot st : sok st -> (W st + 2 <= F)%nat ->
  tot (parse_format upper lower F st) (fun st' => le st st').
Proof.
  intros S HF. unfold parse_format.
  eapply tot_bind; [apply ucase_got; apply require_next_token_tot; exact S|].
  intros [t st1] [S1 [L1 _]]. cbn [fst snd] in *.
  eapply tot_impl; [apply format_loop_tot; [exact S1 | lia | lia]|].
  intros st3 [S3 L3]. split; [exact S3 | lia].
Qed.

(* _parse_taxlabels_statement *)
Lemma gen_taxlabels : guard_tests_eof L_taxlabels = false /\ guard_tests_none L_taxlabels = false
                      /\ uniform_prim L_taxlabels = FRequireNextToken.
Proof. repeat split; vm_compute; reflexivity. Qed.

Lemma taxlabels_loop_tot : forall f tok st ti, sok st -> tok <> None -> (W st + 1 <= f)%nat ->
  tot (taxlabels_loop upper lower f tok st ti) (fun st' => le st st').
Proof.
  destruct gen_taxlabels as [G1 [G2 G3]].
  induction f as [|f IH]; intros tok st ti S NN Hf; [lia|].
  cbn [taxlabels_loop]. unfold guard_extra. rewrite G1, G2, G3.
  destruct (negb (tok_is tok ";") && (true && true)); [|cbn [tot]; apply le_refl; exact S].
  destruct tok as [label|]; [|congruence].
  match goal with |- tot (nbind ?r _) _ => assert (R : tot r (fun st1 => same_tok st1 st)) end.
  { destruct (find_label lower label (tns_labels st ti) 0); [cbn [tot]; apply same_tok_refl|].
    destruct (n_ntax st).
    - match goal with |- tot (if ?c then _ else _) _ => destruct c end; [exact EP_parse|].
      cbn [tot]. apply tns_set_labels_same.
    - cbn [tot]. apply tns_set_labels_same. }
  eapply tot_bind; [exact R|].
  intros st1 ST1.
  cbn [fetch]. eapply tot_bind; [apply require_next_token_tot; eapply same_tok_sok; [exact ST1 | exact S]|].
  intros [t st2] [S2 [L2 N2]]. cbn [fst snd] in *.
  rewrite (same_tok_W _ _ ST1) in L2.
  eapply tot_impl; [apply IH; [exact S2 | exact N2 | lia]|].
  intros st3 [S3 L3]. split; [exact S3 | lia].
Qed.

Lemma parse_taxlabels_tot st ti : sok st -> (W st + 1 <= F)%nat ->
  tot (parse_taxlabels upper lower F st ti) (fun st' => le st st').
Proof.
  intros S HF. unfold parse_taxlabels.
  eapply tot_bind; [apply require_next_token_tot; exact S|].
  intros [t st1] [S1 [L1 N1]]. cbn [fst snd] in *.
  eapply tot_impl; [apply taxlabels_loop_tot; [exact S1 | exact N1 | lia]|].
  intros st3 [S3 L3]. split; [exact S3 | lia].
Qed.

(* _parse_taxa_block *)
Lemma gen_taxa : guard_tests_eof L_taxa = false /\ guard_tests_none L_taxa = false
                 /\ uniform_prim L_taxa = FRequireNextTokenUcase.
Proof. repeat split; vm_compute; reflexivity. Qed.

Lemma taxa_loop_tot : forall f tok st tns, sok st -> (W st + 3 <= F)%nat -> (W st + 1 <= f)%nat ->
  tot (taxa_loop upper lower dval F f tok st tns) (fun st' => le st st').
Proof.
  destruct gen_taxa as [G1 [G2 G3]].
  induction f as [|f IH]; intros tok st tns S HF Hf; [lia|].
  cbn [taxa_loop]. unfold guard_extra. rewrite G1, G2, G3.
  destruct (negb (is_end tok) && (true && true)); [|cbn [tot]; apply le_refl; exact S].
  req_step S. intros [tok1 st1] [S1 [L1 _]]. cbn [fst snd] in *.
  match goal with |- tot (nbind ?r _) _ =>
    assert (R : tot r (fun a => sok (snd (fst a)) /\ (W (snd (fst a)) <= W st1)%nat)) end.
  { destruct (tok_is tok1 "TITLE").
    - eapply tot_bind; [apply parse_title_tot; exact S1|].
      intros [title st2] [S2 L2]. cbn [fst snd] in *.
      pose proof (new_tns_same st2 title) as NT. destruct (new_tns st2 title) as [i st3]. cbn [tot fst snd] in *.
      split; [eapply same_tok_sok; [exact NT | exact S2] | rewrite (same_tok_W _ _ NT); lia].
    - cbn [tot fst snd]. split; [exact S1 | lia]. }
  eapply tot_bind; [exact R|].
  intros [[tok2 st2] tns2] [S2 L2]. cbn [fst snd] in *.
  match goal with |- tot (nbind ?r _) _ => assert (R2 : tot r (fun st3 => le st2 st3)) end.
  { destruct (tok_is tok2 "DIMENSIONS"); [apply parse_dimensions_tot; [exact S2 | lia] | cbn [tot]; apply le_refl; exact S2]. }
  eapply tot_bind; [exact R2|].
  intros st3 [S3 L3].
  destruct (tok_is tok2 "TAXLABELS").
  - match goal with |- tot (let '(i, st4) := ?x in _) _ =>
      assert (X : same_tok (snd x) st3) by (destruct tns2; [apply same_tok_refl | apply new_tns_same]); destruct x as [i st4] end.
    cbn [snd] in X.
    eapply tot_bind; [apply parse_taxlabels_tot; [eapply same_tok_sok; [exact X | exact S3] | rewrite (same_tok_W _ _ X); lia]|].
    intros st5 [S5 L5]. rewrite (same_tok_W _ _ X) in L5.
    eapply tot_impl; [apply IH; [exact S5 | lia | lia]|].
    intros st6 [S6 L6]. split; [exact S6 | lia].
  - eapply tot_impl; [apply IH; [exact S3 | lia | lia]|].
    intros st6 [S6 L6]. split; [exact S6 | lia].
Qed.

Lemma parse_taxa_block_tot st : sok st -> (W st + 3 <= F)%nat ->
  tot (parse_taxa_block upper lower dval F st) (fun st' => le st st').
Proof.
  intros S HF. unfold parse_taxa_block.
  eapply tot_bind; [apply skip_to_semicolon_tot; assumption|].
  intros st1 [S1 L1].
  eapply tot_bind; [apply taxa_loop_tot; [exact S1 | lia | lia]|].
  intros st2 [S2 L2].
  eapply tot_impl; [apply skip_to_semicolon_tot; [exact S2 | lia]|].
  intros st3 [S3 L3]. split; [exact S3 | lia].
Qed.

(* namespaces *)
Lemma get_tns_tot st title :
  tot (get_tns upper st title) (fun r => same_tok (snd r) st).
Proof.
  unfold get_tns. destruct title as [t|].
  - match goal with |- tot (match ?h with _ => _ end) _ => destruct h as [|[i x] [|y r]] end; try exact EP_parse.
    cbn [tot snd]. apply same_tok_refl.
  - destruct (n_tns st) as [|a [|b r]]; try exact EP_parse; cbn [tot snd]; [apply new_tns_same | apply same_tok_refl].
Qed.

Lemma get_taxon_tot st ti label :
  tot (get_taxon lower st ti label) (fun r => same_tok (snd r) st).
Proof.
  unfold get_taxon. destruct (find_label lower label (tns_labels st ti) 0); [cbn [tot snd]; apply same_tok_refl|].
  match goal with |- tot (if ?c then _ else _) _ => destruct c end; [exact EP_parse|].
  cbn [tot snd]. apply tns_set_labels_same.
Qed.

(* state alphabets: construction ends, with a key list or ValueError *)
Definition aok {A} (r : nr A) : Prop :=
  match r with ROk _ => True | RErr e => e = ValueErr | RFuel => False end.

Lemma aok_bind {A C} (r : nr A) (f : A -> nr C) : aok r -> (forall a, aok (f a)) -> aok (nbind r f).
Proof. destruct r; simpl; auto. Qed.

Lemma add_symbol_aok keys s : aok (add_symbol upper lower keys s).
Proof.
  unfold add_symbol. destruct (existsb (seqb s) keys); [reflexivity|].
  apply aok_bind.
  - apply aok_bind; [exact I|]. intros k.
    destruct (seqb (upper s) s); [exact I|]. destruct (existsb (seqb (upper s)) k); [reflexivity | exact I].
  - intros k. destruct (seqb (lower s) s); [exact I|]. destruct (existsb (seqb (lower s)) k); [reflexivity | exact I].
Qed.

Lemma add_symbols_aok : forall l keys, aok (add_symbols upper lower keys l).
Proof.
  induction l as [|x r IH]; intros keys; cbn [add_symbols]; [exact I|].
  apply aok_bind; [apply add_symbol_aok | intros k; apply IH].
Qed.

Lemma build_std_alphabet_tot st :
  tot (build_std_alphabet fx upper lower st)
      (fun k => k = None -> fx_alpha fx = false).
Proof.
  unfold build_std_alphabet.
  assert (VE : forall A (Q : A -> Prop), tot (RErr (if fx_alpha fx then ParseErr else ValueErr)) Q).
  { intros A Q. destruct (fx_alpha fx) eqn:E; cbn [tot]; [exact EP_parse | exact (proj1 (EP_alpha eq_refl))]. }
  match goal with |- tot (match ?l with _ => _ end) _ => destruct l as [|s0 l0] end.
  - destruct (fx_alpha fx) eqn:E; cbn [tot]; [exact EP_parse | reflexivity].
  - pose proof (add_symbols_aok (s0 :: l0) []) as A1.
    destruct (add_symbols upper lower [] (s0 :: l0)) as [k1|e1|]; cbn [nbind aok] in *;
      [| subst e1; apply VE | contradiction].
    assert (A2 : aok (if is_nil (n_gap st) then ROk k1 else add_symbol upper lower k1 (n_gap st)))
      by (destruct (is_nil (n_gap st)); [exact I | apply add_symbol_aok]).
    destruct (if is_nil (n_gap st) then ROk k1 else add_symbol upper lower k1 (n_gap st)) as [k2|e2|];
      cbn [nbind aok] in *; [| subst e2; apply VE | contradiction].
    assert (A3 : aok (if is_nil (n_missing st) then ROk k2 else add_symbol upper lower k2 (n_missing st)))
      by (destruct (is_nil (n_missing st)); [exact I | apply add_symbol_aok]).
    destruct (if is_nil (n_missing st) then ROk k2 else add_symbol upper lower k2 (n_missing st)) as [k3|e3|];
      cbn [nbind aok] in *; [| subst e3; apply VE | contradiction].
    cbn [tot]. discriminate.
Qed.

(* an alphabet whose lookups cannot raise TypeError unless that site is unrepaired *)
Definition alpha_fine (al : alphabet) : Prop :=
  match al with AStd None => fx_alpha fx = false | _ => True end.

Lemma alpha_lookup_tot al c : alpha_fine al -> tot (alpha_lookup sym_ok al c) (fun _ => True).
Proof.
  intros AF. destruct al as [code|[keys|]]; cbn [alpha_lookup tot]; auto.
  exact (proj2 (EP_alpha AF)).
Qed.

Lemma add_chars_tot al mc nchar first : alpha_fine al -> forall cs n,
  tot (add_chars sym_ok al mc nchar first cs n) (fun _ => True).
Proof.
  intros AF. induction cs as [|c r IH]; intros n; cbn [add_chars]; [exact I|].
  match goal with |- tot (nbind ?x _) _ => assert (R : tot x (fun _ => True)) end.
  { destruct (existsb (seqb [c]) mc).
    - destruct first as [fl|]; [destruct (n <? fl)|]; cbn [tot]; auto.
    - eapply tot_bind; [apply alpha_lookup_tot; exact AF|]. intros ok _. destruct ok; cbn [tot]; auto. }
  eapply tot_bind; [exact R|]. intros _ _.
  destruct (n =? nchar); [exact EP_parse | apply IH].
Qed.

Lemma group_ok_tot al : alpha_fine al -> forall cs, tot (group_ok sym_ok al cs) (fun _ => True).
Proof.
  intros AF. induction cs as [|c r IH]; cbn [group_ok]; [exact I|].
  eapply tot_bind; [apply alpha_lookup_tot; exact AF|]. intros ok _. destruct ok; [apply IH | exact I].
Qed.

Lemma gen_states : nth_prim L_states 0 = FRequireNextToken /\ uniform_prim L_multi = FRequireNextToken
                   /\ nth_prim L_cvalues 0 = FRequireNextToken.
Proof. repeat split; vm_compute; reflexivity. Qed.

Lemma multi_loop_tot closing : forall f st acc, sok st -> (W st + 1 <= f)%nat ->
  tot (multi_loop upper f closing st acc) (fun r => le st (snd r)).
Proof.
  destruct gen_states as [_ [G _]].
  induction f as [|f IH]; intros st acc S Hf; [lia|].
  cbn [multi_loop]. rewrite G. cbn [fetch].
  eapply tot_bind; [apply require_next_token_tot; exact S|].
  intros [t st1] [S1 [L1 N1]]. cbn [fst snd] in *.
  destruct (tok_is t closing); [cbn [tot snd]; split; [exact S1 | lia]|].
  destruct (tok_is t ",").
  { eapply tot_impl; [apply IH; [exact S1 | lia]|]. intros r [S2 L2]. split; [exact S2 | lia]. }
  destruct t as [x|]; [|congruence].
  eapply tot_impl; [apply IH; [exact S1 | lia]|].
  intros r [S2 L2]. split; [exact S2 | lia].
Qed.

Lemma states_loop_tot al il nchar first : alpha_fine al -> forall f n st, sok st -> (W st + 1 <= F)%nat -> (W st + 1 <= f)%nat ->
  tot (states_loop upper sym_ok F f al il nchar first n st) (fun r => le st (snd r)).
Proof.
  intros AF. destruct gen_states as [G _].
  induction f as [|f IH]; intros n st S HF Hf; [lia|].
  cbn [states_loop]. rewrite G.
  destruct (n <? nchar); [|cbn [tot snd]; apply le_refl; exact S].
  cbn [fetch]. eapply tot_bind; [apply require_next_token_tot; exact S|].
  intros [tok st1] [S1 [L1 N1]]. cbn [fst snd] in *.
  assert (K : forall n' s2, le st1 s2 ->
     tot (states_loop upper sym_ok F f al il nchar first n' s2) (fun r => le st (snd r))).
  { intros n' s2 [S2 L2]. eapply tot_impl; [apply IH; [exact S2 | lia | lia]|].
    intros r [S3 L3]. split; [exact S3 | lia]. }
  destruct (tok_is tok "{" || tok_is tok "(").
  { eapply tot_bind; [apply multi_loop_tot; [exact S1 | lia]|].
    intros [cs st2] X. cbn [fst snd] in *.
    eapply tot_bind; [apply group_ok_tot; exact AF|]. intros ok _.
    destruct ok; [apply K; exact X | exact EP_parse]. }
  destruct (is_eol tok).
  { destruct il; [cbn [tot snd]; split; [exact S1 | lia] | apply K; apply le_refl; exact S1]. }
  destruct (tok_is tok ";").
  { destruct il; [cbn [tot snd]; split; [exact S1 | lia] | exact EP_parse]. }
  destruct tok as [cs|]; [|congruence].
  eapply tot_bind; [apply add_chars_tot; exact AF|]. intros n1 _.
  apply K. apply le_refl. exact S1.
Qed.

Lemma upd_modes_same st c h : same_tok (upd_modes st c h) st.
Proof. repeat split; auto. Qed.

Lemma read_character_states_tot al nchar first n st : alpha_fine al -> sok st -> (W st + 1 <= F)%nat ->
  tot (read_character_states upper sym_ok F al nchar first n st) (fun r => le st (snd r)).
Proof.
  intros AF S HF. unfold read_character_states.
  match goal with |- context [states_loop _ _ _ _ _ _ _ _ _ ?s] => set (st0 := s) end.
  assert (X0 : same_tok st0 st) by (subst st0; destruct (n_interleave st); [apply upd_modes_same | apply same_tok_refl]).
  eapply tot_bind; [apply states_loop_tot; [exact AF | eapply same_tok_sok; [exact X0 | exact S] | rewrite (same_tok_W _ _ X0); lia | rewrite (same_tok_W _ _ X0); lia]|].
  intros [[n1 term] st1] [S1 L1]. cbn [tot fst snd] in *. rewrite (same_tok_W _ _ X0) in L1.
  match goal with |- le st ?s => assert (X1 : same_tok s st1) by (destruct (n_interleave st && negb term); [apply upd_modes_same | apply same_tok_refl]) end.
  split; [eapply same_tok_sok; [exact X1 | exact S1] | rewrite (same_tok_W _ _ X1); lia].
Qed.

Lemma cvalues_loop_tot il nchar : forall f n st, sok st -> (W st + 1 <= f)%nat ->
  tot (cvalues_loop fx upper is_float f il nchar n st) (fun r => le st (snd r)).
Proof.
  destruct gen_states as [_ [_ G]].
  induction f as [|f IH]; intros n st S Hf; [lia|].
  cbn [cvalues_loop]. rewrite G.
  destruct (n <? nchar); [|cbn [tot snd]; apply le_refl; exact S].
  cbn [fetch]. eapply tot_bind; [apply require_next_token_tot; exact S|].
  intros [tok st1] [S1 [L1 N1]]. cbn [fst snd] in *.
  assert (K : forall n', tot (cvalues_loop fx upper is_float f il nchar n' st1) (fun r => le st (snd r))).
  { intros n'. eapply tot_impl; [apply IH; [exact S1 | lia]|].
    intros r [S3 L3]. split; [exact S3 | lia]. }
  destruct (is_eol tok).
  { destruct il; [cbn [tot snd]; split; [exact S1 | lia] | apply K]. }
  destruct (tok_is tok ";").
  { destruct il; [cbn [tot snd]; split; [exact S1 | lia]|].
    destruct (fx_cblock fx) eqn:E; cbn [tot]; [exact EP_parse | exact (EP_cblock eq_refl)]. }
  destruct tok as [t|]; [|congruence].
  destruct (is_float t); [apply K | exact EP_parse].
Qed.

Lemma read_continuous_values_tot nchar n st : sok st -> (W st + 1 <= F)%nat ->
  tot (read_continuous_values fx upper is_float F nchar n st) (fun r => le st (snd r)).
Proof.
  intros S HF. unfold read_continuous_values.
  match goal with |- context [cvalues_loop _ _ _ _ _ _ _ ?s] => set (st0 := s) end.
  assert (X0 : same_tok st0 st) by (subst st0; destruct (n_interleave st); [apply upd_modes_same | apply same_tok_refl]).
  eapply tot_bind; [apply cvalues_loop_tot; [eapply same_tok_sok; [exact X0 | exact S] | rewrite (same_tok_W _ _ X0); lia]|].
  intros [[n1 term] st1] [S1 L1]. cbn [tot fst snd] in *. rewrite (same_tok_W _ _ X0) in L1.
  match goal with |- le st ?s => assert (X1 : same_tok s st1) by (destruct (n_interleave st && negb term); [apply upd_modes_same | apply same_tok_refl]) end.
  split; [eapply same_tok_sok; [exact X1 | exact S1] | rewrite (same_tok_W _ _ X1); lia].
Qed.

(* the row loops *)
Definition pbudget (f : nat) (st : nstate) : Prop :=
  (W st + 2 <= f)%nat \/ (n_eof st = true /\ (1 <= f)%nat).

Definition row_loop_record (L : loop) : Prop :=
  guard_tests_eof L = true /\ guard_tests_none L = false /\ nth_prim L 0 = FNextToken.

Lemma gen_matrix : row_loop_record L_matrix /\ row_loop_record L_matrix_il
                   /\ row_loop_record L_cmatrix /\ row_loop_record L_cmatrix_il.
Proof. repeat split; vm_compute; reflexivity. Qed.

Definition al_fine (al : option alphabet) : Prop :=
  match al with Some a => alpha_fine a | None => True end.

Lemma matrix_loop_tot L al il nchar : row_loop_record L -> al_fine al ->
  forall f tok st m first, sok st -> (W st + 1 <= F)%nat -> pbudget f st ->
  tot (matrix_loop fx upper lower sym_ok is_float F f L al il nchar tok st m first) (fun r => le st (snd (fst r))).
Proof.
  intros [G1 [G2 G3]] AF.
  induction f as [|f IH]; intros tok st m first S HF Hf; [destruct Hf as [Hf|[_ Hf]]; lia|].
  cbn [matrix_loop]. unfold guard_extra. rewrite G1, G2, G3.
  destruct (negb (tok_is tok ";") && (negb (n_eof st) && true)) eqn:GD; [|cbn [tot fst snd]; apply le_refl; exact S].
  destruct Hf as [Hf | [HE _]].
  2:{ rewrite HE in GD. cbn in GD. rewrite andb_false_r in GD. discriminate. }
  eapply tot_bind; [apply get_taxon_tot|].
  intros [t st1] ST1. cbn [snd] in ST1.
  match goal with |- context [set_last_mat st1 ?mm] => set (m1 := mm) end.
  assert (ST1' : same_tok (set_last_mat st1 m1) st).
  { pose proof (set_last_mat_same st1 m1) as [P [Q R]]. destruct ST1 as [P1 [Q1 R1]].
    split; [congruence|]. split; [congruence | auto]. }
  remember (set_last_mat st1 m1) as st1' eqn:E1'. clear E1'.
  assert (S1' : sok st1') by (eapply same_tok_sok; [exact ST1' | exact S]).
  match goal with |- tot (nbind ?r _) _ => assert (R : tot r (fun q => le st (snd q))) end.
  { destruct al as [a|].
    - eapply tot_impl; [apply read_character_states_tot; [exact AF | exact S1' | rewrite (same_tok_W _ _ ST1'); lia]|].
      intros q [Sq Lq]. rewrite (same_tok_W _ _ ST1') in Lq. split; assumption.
    - eapply tot_impl; [apply read_continuous_values_tot; [exact S1' | rewrite (same_tok_W _ _ ST1'); lia]|].
      intros q [Sq Lq]. rewrite (same_tok_W _ _ ST1') in Lq. split; assumption. }
  eapply tot_bind; [exact R|].
  intros [[n1 term] st2] [S2 L2]. cbn [fst snd] in *.
  match goal with |- context [set_last_mat st2 ?mm] => set (m2 := mm) end.
  assert (ST3 : same_tok (set_last_mat st2 m2) st2) by apply set_last_mat_same.
  remember (set_last_mat st2 m2) as st3 eqn:E3. clear E3.
  assert (S3 : sok st3) by (eapply same_tok_sok; [exact ST3 | exact S2]).
  destruct term; [cbn [tot fst snd]; split; [exact S3 | rewrite (same_tok_W _ _ ST3); lia]|].
  match goal with |- tot (if ?c then _ else _) _ => destruct c end; [exact EP_parse|].
  cbn [fetch]. eapply tot_bind; [apply next_token_tot; exact S3|].
  intros [tok' st4] H4. cbn [fst snd].
  pose proof (same_tok_W _ _ ST3) as W3.
  destruct H4 as [[S4 [L4 _]] | [S4 [L4 [TN E4]]]]; cbn [fst snd] in *.
  - eapply tot_impl; [apply IH; [exact S4 | lia | left; lia]|].
    intros r [S5 L5]. split; [exact S5 | lia].
  - eapply tot_impl; [apply IH; [exact S4 | lia | right; split; [exact E4 | lia]]|].
    intros r [S5 L5]. split; [exact S5 | lia].
Qed.

Lemma get_tns_nchar st title i st1 : get_tns upper st title = ROk (i, st1) -> n_nchar st1 = n_nchar st.
Proof.
  unfold get_tns. destruct title as [t|].
  - match goal with |- match ?h with _ => _ end = _ -> _ => destruct h as [|[j x] [|y r]] end; try discriminate.
    intro H. inversion H. reflexivity.
  - destruct (n_tns st) as [|a [|b r]]; try discriminate; intro H; inversion H; reflexivity.
Qed.

Lemma parse_matrix_tot st bt lt : sok st -> (W st + 3 <= F)%nat ->
  tot (parse_matrix fx upper lower sym_ok is_float F st bt lt) (fun st' => le st st').
Proof.
  destruct gen_matrix as [GM [GMI [GC GCI]]].
  intros S HF. unfold parse_matrix.
  destruct (n_ntax st) as [nt|]; [|exact EP_parse]. destruct (n_nchar st) as [nc|] eqn:NC; [|exact EP_parse].
  destruct ((nt =? 0) || (nc =? 0)); [exact EP_parse|].
  pose proof (get_tns_tot st lt) as GT. pose proof (get_tns_nchar st lt) as GN.
  destruct (get_tns upper st lt) as [[ti st1]| |]; cbn [nbind tot snd] in *; [|exact GT | contradiction].
  specialize (GN ti st1 eq_refl).
  match goal with |- context [upd_mats st1 ?mm] => remember (upd_mats st1 mm) as st2 eqn:E2 end.
  assert (ST2 : same_tok st2 st).
  { destruct GT as [P [Q R]]. subst st2. split; [exact P|]. split; [exact Q|].
    intros _. right. simpl. rewrite GN, NC. discriminate. }
  assert (S2 : sok st2) by (eapply same_tok_sok; [exact ST2 | exact S]).
  pose proof (same_tok_W _ _ ST2) as W2.
  (* after the row loop: the closing fetch when the block was terminated, the checks *)
  assert (FIN : forall L al il m0 (p : option str * nstate), row_loop_record L -> al_fine al ->
     got st2 p \/ ended st2 p -> forall chk : option str -> nstate -> nr nstate,
     (forall tk s, sok s -> (W s <= W st)%nat -> tot (chk tk s) (fun st' => le st st')) ->
     tot (dn r <- matrix_loop fx upper lower sym_ok is_float F F L al il nc (fst p) (snd p) m0 None ;;
          let '(tok, st3, term) := r in
          dn st4 <- (if term then dn q <- next_token st3 ;; ROk (snd q) else chk tok st3) ;;
          (if il && fx_ildims fx && rows_short st4 nc then RErr ParseErr else ROk st4))
         (fun st' => le st st')).
  { intros L al il m0 p RL AF Hp chk CH.
    pose proof (got_or_ended_le _ _ Hp) as [S3 L3].
    eapply tot_bind; [apply matrix_loop_tot; [exact RL | exact AF | exact S3 | lia | left; lia]|].
    intros [[tk st3] term] [S4 L4]. cbn [fst snd] in *.
    match goal with |- tot (nbind ?r _) _ => assert (R : tot r (fun st' => le st st')) end.
    { destruct term.
      - eapply tot_bind; [apply next_token_tot; exact S4|].
        intros q Hq. pose proof (got_or_ended_le _ _ Hq) as [S5 L5]. cbn [tot]. split; [exact S5 | lia].
      - apply CH; [exact S4 | lia]. }
    eapply tot_bind; [exact R|]. intros st4 X.
    match goal with |- tot (if ?c then _ else _) _ => destruct c end; [exact EP_parse | exact X]. }
  set (il := n_interleave st2) in *.
  set (m0 := mkMat bt ti [] []).
  assert (DISC : forall al, alpha_fine al ->
     tot (dn p <- next_token st2 ;;
          dn r <- matrix_loop fx upper lower sym_ok is_float F F (if il then L_matrix_il else L_matrix) (Some al) il nc (fst p) (snd p) m0 None ;;
          let '(tok, st3, term) := r in
          dn st4 <- (if term then dn q <- next_token st3 ;; ROk (snd q)
                     else if negb il && negb (tok_is tok ";") then RErr ParseErr else ROk st3) ;;
          (if il && fx_ildims fx && rows_short st4 nc then RErr ParseErr else ROk st4))
         (fun st' => le st st')).
  { intros al AF. eapply tot_bind; [apply next_token_tot; exact S2|]. intros p Hp.
    apply (FIN (if il then L_matrix_il else L_matrix) (Some al) il m0 p
               ltac:(destruct il; assumption) AF Hp
               (fun tok st3 => if negb il && negb (tok_is tok ";") then RErr ParseErr else ROk st3)).
    intros tk s0 Ss Ls. destruct (negb il && negb (tok_is tk ";")); [exact EP_parse | cbn [tot]; split; assumption]. }
  destruct (n_dtype st2) eqn:DT; cbn [nbind dtype_code].
  - apply DISC. exact I.
  - apply DISC. exact I.
  - apply DISC. exact I.
  - apply DISC. exact I.
  - eapply tot_bind with (P := alpha_fine).
    + eapply tot_bind; [apply build_std_alphabet_tot|].
      intros k Hk. cbn [tot alpha_fine]. destruct k; [exact I | apply Hk; reflexivity].
    + intros al Hal. apply DISC. exact Hal.
  - eapply tot_bind; [apply next_token_tot; exact S2|]. intros p Hp.
    apply (FIN (if il then L_cmatrix_il else L_cmatrix) None il m0 p
               ltac:(destruct il; assumption) I Hp (fun _ st3 => ROk st3)).
    intros tk s0 Ss Ls. cbn [tot]. split; assumption.
Qed.

(* CHARACTERS / DATA block *)
Lemma gen_chars : guard_tests_eof L_chars = true /\ guard_tests_none L_chars = true
                  /\ uniform_prim L_chars = FNextTokenUcase.
Proof. repeat split; vm_compute; reflexivity. Qed.

Definition lbudget (f : nat) (tok : option str) (st : nstate) : Prop :=
  (W st + 2 <= f)%nat \/ ((tok = None \/ n_eof st = true) /\ (1 <= f)%nat).

Lemma guard_exit l tok st : guard_tests_eof l = true -> guard_tests_none l = true ->
  (tok = None \/ n_eof st = true) -> guard_extra l tok st = false.
Proof.
  intros G1 G2 H. unfold guard_extra. rewrite G1, G2. destruct H as [H|H]; [subst; simpl; apply andb_false_r|].
  rewrite H. reflexivity.
Qed.

Lemma chars_loop_tot : forall f tok st bt lt, sok st -> (W st + 3 <= F)%nat -> lbudget f tok st ->
  tot (chars_loop fx upper lower dval sym_ok is_float F f tok st bt lt) (fun st' => le st st').
Proof.
  destruct gen_chars as [G1 [G2 G3]].
  induction f as [|f IH]; intros tok st bt lt S HF Hf; [destruct Hf as [Hf|[_ Hf]]; lia|].
  cbn [chars_loop].
  destruct (negb (is_end tok) && guard_extra L_chars tok st) eqn:GD; [|cbn [tot]; apply le_refl; exact S].
  destruct Hf as [Hf | [HX _]].
  2:{ rewrite (guard_exit _ _ _ G1 G2 HX) in GD. rewrite andb_false_r in GD. discriminate. }
  rewrite G3. cbn [fetch].
  eapply tot_bind; [apply ucase_tot; apply next_token_tot; exact S|].
  intros [tok1 st1] H1. cbn [fst snd].
  destruct H1 as [[S1 [L1 _]] | [S1 [L1 [TN E1]]]]; cbn [fst snd] in *.
  2:{ subst tok1. cbn [tok_is].
      eapply tot_impl; [apply IH; [exact S1 | lia | right; split; [left; reflexivity | lia]]|].
      intros st2 [S2 L2]. split; [exact S2 | lia]. }
  assert (K : forall s2 b l, le st1 s2 ->
     tot (chars_loop fx upper lower dval sym_ok is_float F f tok1 s2 b l) (fun st' => le st st')).
  { intros s2 b l [S2 L2]. eapply tot_impl; [apply IH; [exact S2 | lia | left; lia]|].
    intros st3 [S3 L3]. split; [exact S3 | lia]. }
  destruct (tok_is tok1 "TITLE").
  { eapply tot_bind; [apply parse_title_tot; exact S1|].
    intros [ti st2] [S2 L2]. cbn [fst snd] in *. apply K. split; [exact S2 | lia]. }
  destruct (tok_is tok1 "LINK").
  { eapply tot_bind; [apply parse_link_tot; [exact S1 | lia]|].
    intros [[lta ltc] st2] X. cbn [fst snd] in *. apply K. exact X. }
  destruct (tok_is tok1 "DIMENSIONS").
  { eapply tot_bind; [apply parse_dimensions_tot; [exact S1 | lia]|]. intros st2 X. apply K. exact X. }
  destruct (tok_is tok1 "FORMAT").
  { eapply tot_bind; [apply parse_format_tot; [exact S1 | lia]|]. intros st2 X. apply K. exact X. }
  destruct (tok_is tok1 "MATRIX").
  { eapply tot_bind; [apply parse_matrix_tot; [exact S1 | lia]|]. intros st2 X. apply K. exact X. }
  destruct (tok_is tok1 "BEGIN"); [exact EP_parse|].
  apply K. apply le_refl. exact S1.
Qed.

Lemma parse_characters_block_tot tok st : sok st -> (W st + 3 <= F)%nat ->
  tot (parse_characters_block fx upper lower dval sym_ok is_float F tok st) (fun st' => le st st').
Proof.
  intros S HF. unfold parse_characters_block.
  eapply tot_bind; [apply skip_to_semicolon_tot; [exact S | lia]|].
  intros st1 [S1 L1].
  match goal with |- context [chars_loop _ _ _ _ _ _ _ _ _ ?x] => remember x as st1' eqn:E1 end.
  assert (S1' : sok st1') by (subst st1'; exact S1). assert (W st1' = W st1) by (subst st1'; reflexivity).
  eapply tot_bind; [apply chars_loop_tot; [exact S1' | lia | left; lia]|].
  intros st2 [S2 L2].
  eapply tot_impl; [apply skip_to_semicolon_tot; [exact S2 | lia]|].
  intros st3 [S3 L3]. split; [exact S3 | lia].
Qed.

(* TRANSLATE *)
Lemma gen_translate : uniform_prim L_translate = FNextToken.
Proof. vm_compute; reflexivity. Qed.

Lemma fetch_next_le st tok : sok st ->
  tot (fetch upper FNextToken tok st) (fun p => got st p \/ ended st p).
Proof. intros S. cbn [fetch]. apply next_token_tot. exact S. Qed.

Lemma translate_loop_tot : forall f st ti m, sok st -> (W st + 1 <= f)%nat ->
  tot (translate_loop upper lower f st ti m) (fun r => le st (snd r)).
Proof.
  induction f as [|f IH]; intros st ti m S Hf; [lia|].
  cbn [translate_loop]. rewrite gen_translate.
  eapply tot_bind; [apply fetch_next_le; exact S|].
  intros [ttok st1] H1. cbn [fst snd].
  pose proof (got_or_ended_le _ _ H1) as [S1 L1]. cbn [snd] in S1, L1.
  match goal with |- tot (if ?c then _ else _) _ => destruct c end; [exact EP_parse|].
  eapply tot_bind; [apply fetch_next_le; exact S1|].
  intros [tlabel st2] H2. cbn [fst snd].
  pose proof (got_or_ended_le _ _ H2) as [S2 L2]. cbn [snd] in S2, L2.
  match goal with |- tot (nbind ?r _) _ => assert (R : tot r (fun a => same_tok (snd a) st2)) end.
  { destruct tlabel as [l|].
    - destruct (find_label lower l (tns_labels st2 ti) 0); [cbn [tot snd]; apply same_tok_refl|].
      destruct (n_ntax st2); [exact EP_parse|]. cbn [tot snd]. apply tns_set_labels_same.
    - destruct (n_ntax st2); [exact EP_parse|]. cbn [tot snd]. apply same_tok_refl. }
  eapply tot_bind; [exact R|].
  intros [taxon st3] ST3. cbn [snd] in ST3.
  assert (S3 : sok st3) by (eapply same_tok_sok; [exact ST3 | exact S2]).
  eapply tot_bind; [apply fetch_next_le; exact S3|].
  intros [tok st4] H4. cbn [fst snd].
  match goal with |- tot (if ?c then _ else _) _ => destruct c eqn:EX end.
  { cbn [tot snd]. pose proof (got_or_ended_le _ _ H4) as [S4 L4]. cbn [snd] in *.
    rewrite (same_tok_W _ _ ST3) in L4. split; [exact S4 | lia]. }
  destruct (negb (tok_is tok ",")); [exact EP_parse|].
  destruct H4 as [[S4 [L4 _]] | [_ [_ [TN _]]]]; cbn [fst snd] in *.
  - rewrite (same_tok_W _ _ ST3) in L4.
    eapply tot_impl; [apply IH; [exact S4 | lia]|].
    intros r [S5 L5]. split; [exact S5 | lia].
  - subst tok. cbn in EX. discriminate.
Qed.

Lemma parse_translate_tot st ti : sok st -> (W st + 1 <= F)%nat ->
  tot (parse_translate upper lower F st ti) (fun r => le st (snd r)).
Proof. intros S HF. unfold parse_translate. apply translate_loop_tot; assumption. Qed.

(* TREE statements: the Newick reader model on the tokens of the remaining characters *)
Lemma tokenize_fuel_count cfg : forall n s, (length (fst (tokenize_fuel cfg n s)) <= length s)%nat.
Proof.
  induction n as [|n IH]; intros s; [simpl; lia|]. simpl.
  destruct (Tokenizer.next_token cfg s) as [cs|e| |t q cs rest] eqn:E; simpl; try lia.
  apply next_token_progress in E. specialize (IH rest). destruct (tokenize_fuel cfg n rest) as [l e]. simpl in *. lia.
Qed.

Lemma drop_tokens_len cfg : forall k s, (length (drop_tokens cfg k s) <= length s)%nat.
Proof.
  induction k as [|k IH]; intros s; cbn [drop_tokens]; [lia|].
  destruct (Tokenizer.next_token cfg s) as [cs|e| |t q cs rest] eqn:E; simpl; try lia.
  apply next_token_progress in E. specialize (IH rest). lia.
Qed.

Lemma parse_tree_statement_nexus_tot st ti m : sok st -> (2 * W st + 4 <= F)%nat ->
  tot (parse_tree_statement_nexus lower is_float F st ti m)
      (fun r => sok (snd r) /\ (W (snd r) < W st)%nat).
Proof.
  intros S HF. unfold parse_tree_statement_nexus.
  eapply tot_bind; [apply next_token_tot; exact S|].
  intros [t0 st0] H0. pose proof (got_or_ended_le _ _ H0) as [S0 L0]. cbn [fst snd] in *.
  match goal with |- tot (nbind ?r _) _ =>
    assert (R : tot r (fun p => sok (snd p) /\ (W (snd p) <= W st)%nat)) end.
  { destruct (tok_is t0 "*").
    - eapply tot_impl; [apply next_token_tot; exact S0|].
      intros p Hp. pose proof (got_or_ended_le _ _ Hp) as [Sp Lp]. split; [exact Sp | lia].
    - cbn [tot snd]. split; [exact S0 | lia]. }
  eapply tot_bind; [exact R|].
  intros [t1 st1] [S1 L1]. cbn [fst snd] in *.
  eapply tot_bind; [apply next_token_tot; exact S1|].
  intros [t2 st2] H2. cbn [fst snd].
  destruct (tok_is t2 "=") eqn:EQ; cbn [negb]; [|exact EP_parse].
  destruct H2 as [[S2 [L2 _]] | [_ [_ [TN _]]]]; cbn [fst snd] in *; [|subst t2; discriminate].
  eapply tot_bind; [apply next_token_tot; exact S2|].
  intros [t3 st3] H3. pose proof (got_or_ended_le _ _ H3) as [S3 L3]. cbn [fst snd] in *.
  set (cfg := st_cfg st3).
  pose proof (tokenize_total_l cfg (n_rest st3)) as [T1 T2].
  pose proof (tokenize_fuel_count cfg (Datatypes.S (length (n_rest st3))) (n_rest st3)) as T3.
  fold (tokenize cfg (n_rest st3)) in T3.
  destruct (tokenize cfg (n_rest st3)) as [toks e] eqn:ET. cbn [fst snd] in *.
  set (ps1 := mkPS (n_cur st3) (n_eof st3) [] toks e 0 false [] m).
  assert (G1 : good ps1) by (unfold good, ps1; simpl; split; assumption).
  assert (B1 : (B ps1 + 2 <= F)%nat).
  { unfold B, mu, hasc, ps1, W in *. simpl. destruct (n_cur st3); lia. }
  pose proof (parse_tree_statement_spec unit (parse_len_unit is_float) lower default_ropts eq_refl F ps1 G1 B1) as PT.
  destruct (Newick.parse_tree_statement unit (parse_len_unit is_float) lower default_ropts F ps1) as [[[tr|] ps2]| |];
    cbn [of_res nbind rok] in *; try contradiction.
  - cbn [tot snd].
    match goal with |- sok ?x /\ _ => assert (X : same_tok x (upd_tok st3 (if ps_eof ps2 then [] else drop_tokens cfg (length toks - length (ps_toks ps2)) (n_rest st3)) (ps_cur ps2) (ps_eof ps2) false)) end.
    { match goal with |- same_tok (upd_trees ?y _) _ => pose proof (tns_set_labels_same (upd_tok st3 (if ps_eof ps2 then [] else drop_tokens cfg (length toks - length (ps_toks ps2)) (n_rest st3)) (ps_cur ps2) (ps_eof ps2) false) ti (m_ns (ps_map ps2))) as [P [Q R0]] end.
      split; [exact P|]. split; [exact Q | exact R0]. }
    split.
    + eapply same_tok_sok; [exact X | exact S3].
    + rewrite (same_tok_W _ _ X). unfold W at 1. simpl.
      pose proof (drop_tokens_len cfg (length toks - length (ps_toks ps2)) (n_rest st3)).
      unfold W in *. destruct (ps_eof ps2); simpl; lia.
  - exact EP_parse.
  - subst e0. exact EP_parse.
Qed.

Lemma tree_stmts_loop_tot : forall f st ti m, sok st -> (2 * W st + 4 <= F)%nat -> (W st + 1 <= f)%nat ->
  tot (tree_stmts_loop upper lower is_float F f st ti m) (fun r => le st (snd r)).
Proof.
  induction f as [|f IH]; intros st ti m S HF Hf; [lia|].
  cbn [tree_stmts_loop].
  eapply tot_bind; [apply parse_tree_statement_nexus_tot; assumption|].
  intros [m1 st1] [S1 L1]. cbn [fst snd] in *.
  match goal with |- tot (if ?c then _ else _) _ => destruct c end.
  { cbn [tot snd]. split; [exact S1 | lia]. }
  match goal with |- tot (if ?c then _ else _) _ => destruct c end.
  { cbn [tot snd]. split; [exact S1 | unfold W in *; simpl; lia]. }
  eapply tot_impl; [apply IH; [exact S1 | unfold W in *; simpl; lia | unfold W in *; simpl; lia]|].
  intros r [S2 L2]. split; [exact S2 | unfold W in *; simpl in *; lia].
Qed.

(* TREES block *)
Lemma gen_trees : guard_tests_eof L_trees = true /\ guard_tests_none L_trees = true
                  /\ uniform_prim L_trees = FNextTokenUcase.
Proof. repeat split; vm_compute; reflexivity. Qed.

Lemma trees_loop_tot : forall f tok st lt tns m, sok st -> (2 * W st + 4 <= F)%nat -> lbudget f tok st ->
  tot (trees_loop upper lower is_float F f tok st lt tns m) (fun st' => le st st').
Proof.
  destruct gen_trees as [G1 [G2 G3]].
  induction f as [|f IH]; intros tok st lt tns m S HF Hf; [destruct Hf as [Hf|[_ Hf]]; lia|].
  cbn [trees_loop].
  destruct (negb (is_end tok) && guard_extra L_trees tok st) eqn:GD; [|cbn [tot]; apply le_refl; exact S].
  destruct Hf as [Hf | [HX _]].
  2:{ rewrite (guard_exit _ _ _ G1 G2 HX) in GD. rewrite andb_false_r in GD. discriminate. }
  rewrite G3. cbn [fetch].
  eapply tot_bind; [apply ucase_tot; apply next_token_tot; exact S|].
  intros [tok1 st1] H1. cbn [fst snd].
  destruct H1 as [[S1 [L1 _]] | [S1 [L1 [TN E1]]]]; cbn [fst snd] in *.
  2:{ subst tok1. cbn [tok_is].
      eapply tot_impl; [apply IH; [exact S1 | lia | right; split; [left; reflexivity | lia]]|].
      intros st2 [S2 L2]. split; [exact S2 | lia]. }
  assert (K : forall tk s2 l t mm, le st1 s2 ->
     tot (trees_loop upper lower is_float F f tk s2 l t mm) (fun st' => le st st')).
  { intros tk s2 l t mm [S2 L2]. eapply tot_impl; [apply IH; [exact S2 | lia | left; lia]|].
    intros st3 [S3 L3]. split; [exact S3 | lia]. }
  destruct (tok_is tok1 "LINK").
  { eapply tot_bind; [apply parse_link_tot; [exact S1 | lia]|].
    intros [[lta ltc] st2] X. cbn [fst snd] in *. apply K. exact X. }
  destruct (tok_is tok1 "TITLE").
  { eapply tot_bind; [apply parse_title_tot; exact S1|].
    intros [ti st2] [S2 L2]. cbn [fst snd] in *. apply K. split; [exact S2 | lia]. }
  destruct (tok_is tok1 "TRANSLATE").
  { match goal with |- tot (nbind ?r _) _ => assert (R : tot r (fun a => same_tok (snd a) st1)) end.
    { destruct tns; [cbn [tot snd]; apply same_tok_refl | apply get_tns_tot]. }
    eapply tot_bind; [exact R|]. intros [ti st2] ST2. cbn [snd] in ST2.
    eapply tot_bind; [apply parse_translate_tot; [eapply same_tok_sok; [exact ST2 | exact S1] | rewrite (same_tok_W _ _ ST2); lia]|].
    intros [m1 st3] [S3 L3]. cbn [fst snd] in *. rewrite (same_tok_W _ _ ST2) in L3.
    apply K. split; [exact S3 | lia]. }
  destruct (tok_is tok1 "TREE").
  { match goal with |- tot (nbind ?r _) _ => assert (R : tot r (fun a => same_tok (snd a) st1)) end.
    { destruct tns; [cbn [tot snd]; apply same_tok_refl | apply get_tns_tot]. }
    eapply tot_bind; [exact R|]. intros [ti st2] ST2. cbn [snd] in ST2.
    eapply tot_bind; [apply tree_stmts_loop_tot; [eapply same_tok_sok; [exact ST2 | exact S1] | rewrite (same_tok_W _ _ ST2); lia | rewrite (same_tok_W _ _ ST2); lia]|].
    intros [[tok2 m1] st3] [S3 L3]. cbn [fst snd] in *. rewrite (same_tok_W _ _ ST2) in L3.
    apply K. split; [exact S3 | lia]. }
  destruct (tok_is tok1 "BEGIN"); [exact EP_parse|].
  apply K. apply le_refl. exact S1.
Qed.

Lemma parse_trees_block_tot tok st : sok st -> (2 * W st + 5 <= F)%nat ->
  tot (parse_trees_block upper lower is_float F tok st) (fun st' => le st st').
Proof.
  intros S HF. unfold parse_trees_block.
  eapply tot_bind; [apply skip_to_semicolon_tot; [exact S | lia]|].
  intros st1 [S1 L1].
  eapply tot_bind; [apply trees_loop_tot; [exact S1 | lia | left; lia]|].
  intros st2 [S2 L2].
  eapply tot_impl; [apply skip_to_semicolon_tot; [exact S2 | lia]|].
  intros st3 [S3 L3]. split; [exact S3 | lia].
Qed.

(* SETS *)
Lemma get_char_matrix_tot st title : tot (get_char_matrix upper st title) (fun _ => True).
Proof.
  unfold get_char_matrix. destruct title as [t|].
  - destruct (find_mats upper (n_mats st) t 0) as [|i [|j r]]; try exact EP_parse.
    destruct (nth_error (n_mats st) i); [exact I | exact EP_parse].
  - destruct (n_mats st) as [|a [|b r]]; try exact EP_parse. exact I.
Qed.

Lemma gen_positions : guard_tests_eof L_positions = true /\ guard_tests_none L_positions = false
                      /\ uniform_prim L_positions = FNextToken.
Proof. repeat split; vm_compute; reflexivity. Qed.

Lemma pos_fetch_tot tok st : sok st -> tot (pos_fetch upper tok st) (fun p => got st p \/ ended st p).
Proof.
  intros S. unfold pos_fetch. destruct gen_positions as [_ [_ G3]]. rewrite G3. cbn [fetch]. apply next_token_tot. exact S.
Qed.

Lemma positions_loop_tot : forall f maxp tok st bad, sok st -> pbudget f st ->
  tot (positions_loop upper dval f maxp tok st bad) (fun r => le st (snd r)).
Proof.
  destruct gen_positions as [G1 [G2 G3]].
  induction f as [|f IH]; intros maxp tok st bad S Hf; [destruct Hf as [Hf|[_ Hf]]; lia|].
  cbn [positions_loop]. unfold guard_extra. rewrite G1, G2.
  destruct (negb (tok_is tok ";") && negb (tok_is tok ",") && (negb (n_eof st) && true)) eqn:GD;
    [|cbn [tot snd]; apply le_refl; exact S].
  destruct Hf as [Hf | [HE _]].
  2:{ rewrite HE in GD. cbn in GD. rewrite andb_false_r in GD. discriminate. }
  destruct (negb (truthy tok)); [cbn [tot snd]; apply le_refl; exact S|].
  destruct (seqb (upper (tok_text tok)) (s_of "ALL")); [cbn [tot snd]; apply le_refl; exact S|].
  destruct (all_digits dval (tok_text tok)); [|exact EP_parse].
  assert (K : forall tk s2 b, sok s2 -> (W s2 < W st)%nat ->
              tot (positions_loop upper dval f maxp tk s2 b) (fun r => le st (snd r))).
  { intros tk s2 b S2 L2. eapply tot_impl; [apply IH; [exact S2 | left; lia]|].
    intros r [S3 L3]. split; [exact S3 | lia]. }
  assert (KE : forall s2 b, sok s2 -> (W s2 <= W st)%nat -> n_eof s2 = true ->
              tot (positions_loop upper dval f maxp None s2 b) (fun r => le st (snd r))).
  { intros s2 b S2 L2 E2. eapply tot_impl; [apply IH; [exact S2 | right; split; [exact E2 | lia]]|].
    intros r [S3 L3]. split; [exact S3 | lia]. }
  eapply tot_bind; [apply pos_fetch_tot; exact S|].
  intros [tok1 st1] H1. cbn [fst snd].
  destruct H1 as [[S1 [L1 N1]] | [S1 [L1 [TN E1]]]]; cbn [fst snd] in *.
  2:{ subst tok1. cbn [truthy negb tot snd]. split; [exact S1 | lia]. }
  destruct (negb (truthy tok1)); [cbn [tot snd]; split; [exact S1 | lia]|].
  match goal with |- tot (if ?c then _ else _) _ => destruct c end; [apply K; assumption|].
  destruct (tok_is tok1 "-"); [|exact EP_parse].
  eapply tot_bind; [apply pos_fetch_tot; exact S1|].
  intros [tok2 st2] H2. pose proof (got_or_ended_le _ _ H2) as [S2 L2]. cbn [fst snd] in *.
  destruct (negb (truthy tok2)); [exact EP_parse|].
  match goal with |- tot (if ?c then _ else _) _ => destruct c end; [|exact EP_parse].
  eapply tot_bind; [apply pos_fetch_tot; exact S2|].
  intros [tok3 st3] H3. cbn [fst snd].
  destruct (truthy tok3 && (tok_is tok3 "\" || tok_is tok3 "/")) eqn:E3.
  - pose proof (got_or_ended_le _ _ H3) as [S3 L3]. cbn [snd] in *.
    eapply tot_bind; [apply pos_fetch_tot; exact S3|].
    intros [tok4 st4] H4. pose proof (got_or_ended_le _ _ H4) as [S4 L4]. cbn [fst snd] in *.
    destruct (negb (truthy tok4)); [exact EP_parse|].
    match goal with |- tot (if ?c then _ else _) _ => destruct c end; [exact EP_parse|].
    eapply tot_bind; [apply pos_fetch_tot; exact S4|].
    intros [tok5 st5] H5. pose proof (got_or_ended_le _ _ H5) as [S5 L5]. cbn [fst snd] in *.
    apply K; [exact S5 | lia].
  - destruct H3 as [[S3 [L3 _]] | [S3 [L3 [TN E3']]]]; cbn [fst snd] in *.
    + apply K; [exact S3 | lia].
    + subst tok3. apply KE; [exact S3 | lia | exact E3'].
Qed.

Lemma next_token_nchar st t st' : next_token st = ROk (t, st') -> n_nchar st' = n_nchar st.
Proof.
  unfold next_token, nadvance.
  destruct (Tokenizer.next_token (st_cfg st) (n_rest st)); intro H; inversion H; reflexivity.
Qed.

Lemma parse_positions_tot st : sok st -> n_nchar st <> None -> (W st + 3 <= F)%nat ->
  tot (parse_positions upper dval F st) (fun st' => le st st').
Proof.
  intros S NC HF. unfold parse_positions.
  destruct (n_nchar st) as [maxp|]; [|congruence].
  match goal with |- context [next_token ?x] => remember x as st0 eqn:E0 end.
  assert (S0 : sok st0) by (subst st0; exact S). assert (W0 : W st0 = W st) by (subst st0; reflexivity).
  eapply tot_bind; [apply next_token_tot; exact S0|].
  intros [tok st1] H1. pose proof (got_or_ended_le _ _ H1) as [S1 L1]. cbn [fst snd] in *.
  destruct (n_eof st1 || negb (truthy tok)); [exact EP_parse|].
  eapply tot_bind; [apply positions_loop_tot; [exact S1 | left; lia]|].
  intros [bad st2] [S2 L2]. cbn [fst snd] in *.
  destruct bad; [exact EP_parse|]. cbn [tot]. split; [exact S2 | unfold W in *; simpl; lia].
Qed.

Lemma parse_charset_tot st lt : sok st -> (W st + 3 <= F)%nat ->
  tot (parse_charset upper dval F st lt) (fun st' => le st st').
Proof.
  intros S HF. unfold parse_charset.
  assert (NC : forall mm, get_char_matrix upper st lt = ROk mm -> n_nchar st <> None).
  { intros mm H. destruct S as [E|E]; [|exact E]. unfold get_char_matrix in H. rewrite E in H.
    destruct lt; simpl in H; discriminate. }
  pose proof (get_char_matrix_tot st lt) as GM.
  destruct (get_char_matrix upper st lt) as [[mi m]| |]; cbn [nbind tot] in *; [|exact GM | contradiction].
  specialize (NC _ eq_refl).
  pose proof (next_token_tot st S) as N1. pose proof (next_token_nchar st) as C1.
  destruct (next_token st) as [[tok st1]| |]; cbn [nbind tot] in *; [|exact N1 | contradiction].
  pose proof (got_or_ended_le _ _ N1) as [S1 L1]. specialize (C1 _ _ eq_refl). cbn [fst snd] in *.
  destruct (n_eof st1 || negb (truthy tok)); [exact EP_parse|].
  pose proof (next_token_tot st1 S1) as N2. pose proof (next_token_nchar st1) as C2.
  destruct (next_token st1) as [[tok2 st2]| |]; cbn [nbind tot] in *; [|exact N2 | contradiction].
  pose proof (got_or_ended_le _ _ N2) as [S2 L2]. specialize (C2 _ _ eq_refl). cbn [fst snd] in *.
  destruct (negb (truthy tok2)); [exact EP_parse|].
  destruct (negb (tok_is tok2 "=")); [exact EP_parse|].
  eapply tot_bind; [apply parse_positions_tot; [exact S2 | congruence | lia]|].
  intros st3 [S3 L3].
  match goal with |- tot (if ?c then _ else _) _ => destruct c end; [exact EP_parse|].
  cbn [tot]. split; [|unfold W in *; simpl; lia].
  (* the matrix list keeps its length: the invariant is kept *)
  destruct S3 as [E|E]; [left | right; exact E].
  simpl. rewrite E. destruct mi; reflexivity.
Qed.

Lemma gen_sets : guard_tests_eof L_sets = true /\ guard_tests_none L_sets = true
                 /\ nth_prim L_sets 0 = FNextTokenUcase.
Proof. repeat split; vm_compute; reflexivity. Qed.

Lemma sets_loop_tot : forall f tok st lt, sok st -> (W st + 3 <= F)%nat -> lbudget f tok st ->
  tot (sets_loop upper dval F f tok st lt) (fun st' => le st st').
Proof.
  destruct gen_sets as [G1 [G2 G3]].
  induction f as [|f IH]; intros tok st lt S HF Hf; [destruct Hf as [Hf|[_ Hf]]; lia|].
  cbn [sets_loop].
  destruct (negb (is_end tok) && guard_extra L_sets tok st) eqn:GD; [|cbn [tot]; apply le_refl; exact S].
  destruct Hf as [Hf | [HX _]].
  2:{ rewrite (guard_exit _ _ _ G1 G2 HX) in GD. rewrite andb_false_r in GD. discriminate. }
  rewrite G3. cbn [fetch].
  eapply tot_bind; [apply ucase_tot; apply next_token_tot; exact S|].
  intros [tok1 st1] H1. cbn [fst snd].
  destruct H1 as [[S1 [L1 _]] | [S1 [L1 [TN E1]]]]; cbn [fst snd] in *.
  2:{ subst tok1. cbn [tok_is].
      eapply tot_impl; [apply IH; [exact S1 | lia | right; split; [left; reflexivity | lia]]|].
      intros st2 [S2 L2]. split; [exact S2 | lia]. }
  assert (K : forall s2 l, le st1 s2 ->
     tot (sets_loop upper dval F f tok1 s2 l) (fun st' => le st st')).
  { intros s2 l [S2 L2]. eapply tot_impl; [apply IH; [exact S2 | lia | left; lia]|].
    intros st3 [S3 L3]. split; [exact S3 | lia]. }
  destruct (tok_is tok1 "TITLE").
  { eapply tot_bind; [apply parse_title_tot; exact S1|].
    intros [ti st2] [S2 L2]. cbn [fst snd] in *. apply K. split; [exact S2 | lia]. }
  destruct (tok_is tok1 "LINK").
  { eapply tot_bind; [apply parse_link_tot; [exact S1 | lia]|].
    intros [[lta ltc] st2] X. cbn [fst snd] in *. apply K. exact X. }
  destruct (tok_is tok1 "CHARSET").
  { eapply tot_bind; [apply parse_charset_tot; [exact S1 | lia]|]. intros st2 X. apply K. exact X. }
  destruct (tok_is tok1 "BEGIN"); [exact EP_parse|].
  apply K. apply le_refl. exact S1.
Qed.

Lemma parse_sets_block_tot tok st : sok st -> (W st + 3 <= F)%nat ->
  tot (parse_sets_block upper dval F tok st) (fun st' => le st st').
Proof.
  intros S HF. unfold parse_sets_block.
  eapply tot_bind; [apply skip_to_semicolon_tot; [exact S | lia]|].
  intros st1 [S1 L1].
  eapply tot_bind; [apply sets_loop_tot; [exact S1 | lia | left; lia]|].
  intros st2 [S2 L2].
  eapply tot_impl; [apply skip_to_semicolon_tot; [exact S2 | lia]|].
  intros st3 [S3 L3]. split; [exact S3 | lia].
Qed.

(* the block dispatch loop *)
Lemma gen_scan : guard_tests_eof L_scan_begin = true /\ guard_tests_none L_scan_begin = true
                 /\ uniform_prim L_scan_begin = FNextTokenUcase.
Proof. repeat split; vm_compute; reflexivity. Qed.

Lemma scan_begin_loop_tot : forall f tok st, sok st -> lbudget f tok st ->
  tot (scan_begin_loop upper f tok st) (fun p => le st (snd p) /\ (tok = None -> snd p = st)).
Proof.
  destruct gen_scan as [G1 [G2 G3]].
  induction f as [|f IH]; intros tok st S Hf; [destruct Hf as [Hf|[_ Hf]]; lia|].
  cbn [scan_begin_loop].
  destruct (negb (tok_is tok "BEGIN") && guard_extra L_scan_begin tok st) eqn:GD.
  2:{ cbn [tot snd]. split; [apply le_refl; exact S | reflexivity]. }
  assert (TN : tok <> None).
  { intro; subst tok. rewrite (guard_exit _ _ _ G1 G2 (or_introl eq_refl)) in GD. rewrite andb_false_r in GD. discriminate. }
  destruct Hf as [Hf | [HX _]].
  2:{ rewrite (guard_exit _ _ _ G1 G2 HX) in GD. rewrite andb_false_r in GD. discriminate. }
  rewrite G3. cbn [fetch].
  eapply tot_bind; [apply ucase_tot; apply next_token_tot; exact S|].
  intros [tok1 st1] H1. cbn [fst snd].
  destruct H1 as [[S1 [L1 _]] | [S1 [L1 [T1 E1]]]]; cbn [fst snd] in *.
  - eapply tot_impl; [apply IH; [exact S1 | left; lia]|].
    intros [t2 st2] [[S2 L2] _]. cbn [snd] in *. split; [split; [exact S2 | lia] | congruence].
  - eapply tot_impl; [apply IH; [exact S1 | right; split; [left; exact T1 | lia]]|].
    intros [t2 st2] [[S2 L2] _]. cbn [snd] in *. split; [split; [exact S2 | lia] | congruence].
Qed.

Lemma gen_outer : guard_tests_eof L_outer = true /\ guard_tests_none L_outer = false.
Proof. split; vm_compute; reflexivity. Qed.

Lemma outer_loop_tot : forall f st, sok st -> (2 * W st + 5 <= F)%nat -> pbudget f st ->
  tot (outer_loop fx upper lower dval sym_ok is_float F f st) (fun _ => True).
Proof.
  destruct gen_outer as [G1 G2].
  induction f as [|f IH]; intros st S HF Hf; [destruct Hf as [Hf|[_ Hf]]; lia|].
  cbn [outer_loop]. unfold guard_extra. rewrite G1, G2.
  destruct (negb (n_eof st) && true) eqn:GD; [|exact I].
  destruct Hf as [Hf | [HE _]]; [|rewrite HE in GD; discriminate].
  eapply tot_bind; [apply ucase_tot; apply next_token_tot; exact S|].
  intros [tok1 st1] H1. cbn [fst snd].
  destruct H1 as [[S1 [L1 _]] | [S1 [L1 [T1 E1]]]]; cbn [fst snd] in *.
  - eapply tot_bind; [apply scan_begin_loop_tot; [exact S1 | left; lia]|].
    intros [tok2 st2] [[S2 L2] _]. cbn [fst snd] in *.
    eapply tot_bind; [apply ucase_tot; apply next_token_tot; exact S2|].
    intros [tok st3] H3. pose proof (got_or_ended_le _ _ H3) as [S3 L3]. cbn [fst snd] in *.
    match goal with |- tot (nbind ?r _) _ => assert (R : tot r (fun st4 => le st3 st4)) end.
    { destruct (tok_is tok "TAXA"); [apply parse_taxa_block_tot; [exact S3 | lia]|].
      destruct (tok_is tok "CHARACTERS" || tok_is tok "DATA"); [apply parse_characters_block_tot; [exact S3 | lia]|].
      destruct (tok_is tok "TREES"); [apply parse_trees_block_tot; [exact S3 | lia]|].
      destruct (tok_is tok "SETS" || tok_is tok "ASSUMPTIONS" || tok_is tok "CODONS"); [apply parse_sets_block_tot; [exact S3 | lia]|].
      destruct (tok_is tok "BEGIN"); [exact EP_parse|].
      eapply tot_bind; [apply consume_to_end_of_block_tot; [exact S3 | lia]|].
      intros [t4 st4] [X _]. cbn [tot snd] in *. exact X. }
    eapply tot_bind; [exact R|].
    intros st4 [S4 L4]. apply IH; [exact S4 | lia | left; lia].
  - subst tok1.
    eapply tot_bind; [apply scan_begin_loop_tot; [exact S1 | right; split; [left; reflexivity | lia]]|].
    intros [tok2 st2] [_ EQ]. cbn [fst snd] in *. specialize (EQ eq_refl). subst st2.
    eapply tot_bind; [apply ucase_tot; apply next_token_tot; exact S1|].
    intros [tok st3] H3. cbn [fst snd].
    destruct H3 as [[_ [L3 _]] | [S3 [L3 [T3 E3]]]]; cbn [fst snd] in *; [lia|].
    subst tok. cbn [tok_is orb].
    eapply tot_bind with (P := fun st4 => st4 = st3).
    { eapply tot_bind; [apply consume_to_end_of_block_tot; [exact S3 | lia]|].
      intros [t4 st4] [_ EQ]. cbn [tot snd] in *. apply EQ. exact E3. }
    intros st4 EQ. subst st4. apply IH; [exact S3 | lia | right; split; [exact E3 | lia]].
Qed.

Lemma parse_nexus_stream_tot text : (2 * length text + 8 <= F)%nat ->
  tot (parse_nexus_stream fx upper lower dval sym_ok is_float F text) (fun _ => True).
Proof.
  intros HF. unfold parse_nexus_stream.
  set (st0 := init_nstate text).
  assert (S0 : sok st0) by (left; reflexivity).
  assert (W0 : W st0 = length text) by reflexivity.
  eapply tot_bind; [apply require_next_token_tot; exact S0|].
  intros [t st1] [S1 [L1 _]]. cbn [fst snd] in *.
  match goal with |- tot (if ?c then _ else _) _ => destruct c end; [exact EP_parse|].
  apply outer_loop_tot; [exact S1 | lia | left; lia].
Qed.

End Tot.

(* For EVERY character list and every form of the recorded defect sites: the skeleton never runs out of
   its budget (the reader does not hang) *)
Lemma nexus_never_hangs_l fx upper lower dval sym_ok is_float (text : str) :
  nexus_read fx upper lower dval sym_ok is_float text <> RFuel.
Proof.
  pose proof (parse_nexus_stream_tot fx upper lower dval sym_ok is_float (nexus_fuel text) (fun _ => True)
                I (fun _ => I) (fun _ => conj I I) text) as H.
  unfold nexus_read. intro E. rewrite E in H. apply H. unfold nexus_fuel. lia.
Qed.

(* ... and on the repaired form the only error class is DataParseError *)
Lemma nexus_skeleton_total2_l upper lower dval sym_ok is_float (text : str) :
  match nexus_read nfix_all upper lower dval sym_ok is_float text with
  | ROk _ => True
  | RErr e => e = ParseErr
  | RFuel => False
  end.
Proof.
  pose proof (parse_nexus_stream_tot nfix_all upper lower dval sym_ok is_float (nexus_fuel text) (fun e => e = ParseErr)
                eq_refl (fun H => ltac:(discriminate H)) (fun H => ltac:(discriminate H)) text) as H.
  unfold nexus_read. unfold tot in H. apply H. unfold nexus_fuel. lia.
Qed.

(* on the current form the error is DataParseError or one of the recorded internal errors *)
Lemma nexus_error_classes_l fx upper lower dval sym_ok is_float (text : str) :
  match nexus_read fx upper lower dval sym_ok is_float text with
  | ROk _ => True
  | RErr e => e = ParseErr \/ (fx_cblock fx = false /\ e = OtherErr)
              \/ (fx_alpha fx = false /\ (e = ValueErr \/ e = TypeErr))
  | RFuel => False
  end.
Proof.
  pose proof (parse_nexus_stream_tot fx upper lower dval sym_ok is_float (nexus_fuel text)
                (fun e => e = ParseErr \/ (fx_cblock fx = false /\ e = OtherErr)
                          \/ (fx_alpha fx = false /\ (e = ValueErr \/ e = TypeErr)))
                (or_introl eq_refl) (fun H => or_intror (or_introl (conj H eq_refl)))
                (fun H => conj (or_intror (or_intror (conj H (or_introl eq_refl))))
                               (or_intror (or_intror (conj H (or_intror eq_refl))))) text) as H.
  unfold nexus_read. unfold tot in H. apply H. unfold nexus_fuel. lia.
Qed.

(* crash points: the totality theorems instantiated at every prefix of every document *)
Lemma prefix_closed_nexus_l upper lower dval sym_ok is_float (document : str) (k : nat) :
  match nexus_read nfix_all upper lower dval sym_ok is_float (firstn k document) with
  | ROk _ => True
  | RErr e => e = ParseErr
  | RFuel => False
  end.
Proof. apply nexus_skeleton_total2_l. Qed.

Lemma prefix_closed_newick_l (L : Type) (parse_len : str -> option L) (lower : str -> str) (o : ropts)
      (ns : list str) (document : str) (k : nat) :
  ro_terminating_semicolon_required o = true ->
  match read_newick L parse_len lower o ns (firstn k document) with
  | Ok _ => True
  | Err e => e = ParseErr
  | OutOfFuel => False
  end.
Proof. apply newick_reader_total_l. Qed.
