(* C05: target trees: collapse of weakly supported edges, support decoration;
   the tree-building insertion keeps every leaf; rooting of the consensus *)
From Coq Require Import ZArith QArith Qabs Qreduction List Bool Lia Lqa Permutation Sorted Setoid Morphisms.
From DV Require Import Model.PyPrims Gen.BitFns Gen.Consts Model.C05Model Model.C05Spec
     Proofs.C05Lists Proofs.C05Freq Proofs.C05Consensus.
Import ListNotations.
Open Scope Z_scope.

Section StreeInd.
  Variable P : stree -> Prop.
  Hypothesis H : forall s l ks, Forall P ks -> P (SN s l ks).
  Fixpoint stree_ind' (t : stree) : P t :=
    match t with
    | SN s l ks =>
      H s l ks ((fix go (ks : list stree) : Forall P ks :=
                   match ks with
                   | [] => Forall_nil P
                   | k :: r => Forall_cons k (stree_ind' k) (go r)
                   end) ks)
    end.
End StreeInd.

Lemma map_flat_map {A B C} (f : B -> C) (g : A -> list B) l :
  map f (flat_map g l) = flat_map (fun x => map f (g x)) l.
Proof. induction l as [|x r IH]; simpl; [reflexivity|]. now rewrite map_app, IH. Qed.

(* ---------------------------------------------------------------- tips up to == *)

Definition tipeq (a b : Z * Q) : Prop := fst a = fst b /\ (snd a == snd b)%Q.
Definition tips_eq : list (Z * Q) -> list (Z * Q) -> Prop := Forall2 tipeq.

Lemma tips_eq_refl l : tips_eq l l.
Proof. induction l; constructor; [split; reflexivity | assumption]. Qed.

Lemma tips_eq_trans a b c : tips_eq a b -> tips_eq b c -> tips_eq a c.
Proof.
  intro H. revert c. induction H as [|x y l l' [E1 E2] F IH]; intros c' G; inversion G as [|? z ? ? [E3 E4]]; subst; constructor.
  - split; [congruence | now rewrite E2].
  - now apply IH.
Qed.

Lemma tips_eq_app a b c d : tips_eq a b -> tips_eq c d -> tips_eq (a ++ c) (b ++ d).
Proof. apply Forall2_app. Qed.

Lemma tips_eq_flat_map {A} (f g : A -> list (Z * Q)) l :
  (forall x, In x l -> tips_eq (f x) (g x)) -> tips_eq (flat_map f l) (flat_map g l).
Proof.
  induction l as [|x r IH]; intro H; simpl; [constructor|].
  apply tips_eq_app; [apply H; now left | apply IH; intros; apply H; now right].
Qed.

Lemma st_tips_congr t : forall a b, (a == b)%Q -> tips_eq (st_tips a t) (st_tips b t).
Proof.
  induction t as [s l ks IH] using stree_ind'. intros a b E. simpl.
  destruct ks as [|k r].
  - constructor; [|constructor]. split; [reflexivity | simpl; now rewrite E].
  - apply tips_eq_flat_map. intros x I. rewrite Forall_forall in IH. apply IH; [assumption|]. now rewrite E.
Qed.

(* ---------------------------------------------------------------- collapse *)

Fixpoint collapse_list (ftbl : list (Z * Q)) (mf : Q) (ks : list stree) : res (list stree) :=
  match ks with
  | [] => Ok []
  | k :: r => match collapse_below ftbl mf k, collapse_list ftbl mf r with
              | Ok a, Ok b => Ok (a ++ b)
              | Err e, _ => Err e
              | _, Err e => Err e
              | _, _ => OutOfFuel
              end
  end.

Lemma collapse_below_eq ftbl mf s l kids :
  collapse_below ftbl mf (SN s l kids) =
  match collapse_list ftbl mf kids with
  | Ok kids' =>
    if low_support ftbl mf s then
      match kids with [] => Err ValueErr | _ => Ok (map (lift_child l) kids') end
    else Ok [SN s l kids']
  | Err e => Err e
  | OutOfFuel => OutOfFuel
  end.
Proof.
  simpl.
  match goal with |- match ?X with _ => _ end = _ => replace X with (collapse_list ftbl mf kids) end.
  - reflexivity.
  - induction kids as [|k r IH]; simpl; [reflexivity | rewrite IH; reflexivity].
Qed.

Lemma collapse_root_eq ftbl mf s l kids :
  collapse_root ftbl mf (SN s l kids) =
  match collapse_list ftbl mf kids with
  | Ok kids' => Ok (SN s l kids')
  | Err e => Err e
  | OutOfFuel => OutOfFuel
  end.
Proof.
  unfold collapse_root.
  match goal with |- match ?X with _ => _ end = _ => replace X with (collapse_list ftbl mf kids) end.
  - reflexivity.
  - induction kids as [|k r IH]; simpl; [reflexivity | rewrite IH; reflexivity].
Qed.

Definition node_of (n : stree) : Z * bool := (sn_split n, st_is_leaf n).
Definition nodes (k : stree) : list (Z * bool) := map node_of (st_preorder k).

Lemma st_nonroot_nodes t : st_nonroot t = flat_map nodes (sn_kids t).
Proof. reflexivity. Qed.

Lemma nodes_cons s l ks : nodes (SN s l ks) = (s, st_is_leaf (SN s l ks)) :: flat_map nodes ks.
Proof. unfold nodes. simpl. now rewrite map_flat_map. Qed.

(* a node is kept iff it is a leaf or its split is not below the threshold *)
Definition keep (ftbl : list (Z * Q)) (mf : Q) (p : Z * bool) : bool :=
  snd p || negb (low_support ftbl mf (fst p)).

Lemma nodes_lift l k : nodes (lift_child l k) = nodes k.
Proof. destruct k as [s kl kk]. unfold nodes. simpl. reflexivity. Qed.

Lemma olen_lift l kl :
  (olen (match l with
         | None => kl
         | Some x => match kl with None => Some x | Some y => Some (qplus y x) end
         end) == olen l + olen kl)%Q.
Proof.
  destruct l as [x|]; destruct kl as [y|]; simpl; try rewrite qplus_eq; ring.
Qed.

Lemma tips_lift l k acc : tips_eq (st_tips acc (lift_child l k)) (st_tips (acc + olen l)%Q k).
Proof.
  destruct k as [s kl kk]. simpl. destruct kk as [|k1 kr].
  - constructor; [|constructor]. split; [reflexivity|]. simpl. rewrite olen_lift. ring.
  - apply tips_eq_flat_map. intros x _. apply st_tips_congr. rewrite olen_lift. ring.
Qed.

Section CollapseProofs.
  Variable ftbl : list (Z * Q).
  Variable mf : Q.

  Definition GoodNode (k : stree) : Prop :=
    forall res, collapse_below ftbl mf k = Ok res ->
      res <> [] /\
      flat_map nodes res = filter (keep ftbl mf) (nodes k) /\
      forall acc, tips_eq (flat_map (st_tips acc) res) (st_tips acc k).

  Lemma good_list ks : Forall GoodNode ks -> forall res, collapse_list ftbl mf ks = Ok res ->
      (ks <> [] -> res <> []) /\
      flat_map nodes res = filter (keep ftbl mf) (flat_map nodes ks) /\
      forall acc, tips_eq (flat_map (st_tips acc) res) (flat_map (st_tips acc) ks).
  Proof.
    induction 1 as [|k r Hk Hr IH]; intros res E; simpl in E.
    - inversion E. subst. repeat split; [congruence | constructor].
    - destruct (collapse_below ftbl mf k) as [a| |] eqn:Ek;
        destruct (collapse_list ftbl mf r) as [b| |] eqn:Er; try discriminate.
      inversion E. subst res. destruct (Hk a Ek) as [A1 [A2 A3]]. destruct (IH b eq_refl) as [B1 [B2 B3]].
      repeat split.
      + intros _ X. apply app_eq_nil in X. tauto.
      + simpl. rewrite flat_map_app, filter_app, A2, B2. reflexivity.
      + intro acc. simpl. rewrite flat_map_app. apply tips_eq_app; [apply A3 | apply B3].
  Qed.

  Lemma good_node : forall k, GoodNode k.
  Proof.
    induction k as [s l ks IH] using stree_ind'. intros res E.
    rewrite collapse_below_eq in E.
    destruct (collapse_list ftbl mf ks) as [kids'| |] eqn:El; try discriminate.
    destruct (good_list ks IH kids' El) as [L1 [L2 L3]].
    rewrite nodes_cons.
    destruct (low_support ftbl mf s) eqn:Low.
    - destruct ks as [|k1 kr]; [discriminate|]. inversion E. subst res.
      assert (NE : kids' <> []) by (apply L1; discriminate).
      repeat split.
      + intro X. apply map_eq_nil in X. contradiction.
      + rewrite flat_map_concat_map, map_map, <- flat_map_concat_map.
        erewrite flat_map_ext; [|intro; apply nodes_lift].
        simpl filter. unfold keep at 1. simpl. rewrite Low. simpl. exact L2.
      + intro acc. rewrite flat_map_concat_map, map_map, <- flat_map_concat_map.
        eapply tips_eq_trans; [apply tips_eq_flat_map; intros x _; apply tips_lift|].
        simpl st_tips. apply L3.
    - inversion E. subst res. repeat split.
      + discriminate.
      + change (flat_map nodes [SN s l kids']) with (nodes (SN s l kids') ++ []).
        rewrite app_nil_r, nodes_cons. simpl filter. unfold keep at 1. simpl fst. simpl snd.
        rewrite Low, orb_true_r.
        assert (Leaf : st_is_leaf (SN s l kids') = st_is_leaf (SN s l ks)).
        { unfold st_is_leaf. simpl. destruct ks as [|k1 kr].
          - simpl in El. inversion El. reflexivity.
          - destruct kids'; [exfalso; apply L1; [discriminate | reflexivity] | reflexivity]. }
        rewrite Leaf, L2. reflexivity.
      + intro acc. change (flat_map (st_tips acc) [SN s l kids']) with (st_tips acc (SN s l kids') ++ []).
        rewrite app_nil_r. simpl.
        destruct ks as [|k1 kr].
        * simpl in El. inversion El. subst. apply tips_eq_refl.
        * destruct kids' as [|k1' kr']; [exfalso; apply L1; [discriminate | reflexivity]|].
          apply L3.
  Qed.

  (* a leaf whose split is below the threshold is the only way to fail *)
  Definition NoLowLeaf (l : list (Z * bool)) : Prop :=
    forall p, In p l -> snd p = true -> low_support ftbl mf (fst p) = false.

  Lemma ok_node : forall k, NoLowLeaf (nodes k) -> exists res, collapse_below ftbl mf k = Ok res.
  Proof.
    induction k as [s l ks IH] using stree_ind'. intro NL.
    rewrite collapse_below_eq. rewrite nodes_cons in NL.
    assert (L : exists kids', collapse_list ftbl mf ks = Ok kids').
    { assert (NLk : NoLowLeaf (flat_map nodes ks)) by (intros p I; apply NL; now right).
      clear NL. induction IH as [|k r Hk Hr IHr]; simpl; [now eexists|].
      destruct Hk as [a Ea]. { intros p I. apply NLk. simpl. apply in_or_app. now left. }
      destruct IHr as [b Eb]. { intros p I. apply NLk. simpl. apply in_or_app. now right. }
      rewrite Ea, Eb. now eexists. }
    destruct L as [kids' El]. rewrite El.
    destruct (low_support ftbl mf s) eqn:Low; [|now eexists].
    destruct ks as [|k1 kr]; [|now eexists].
    exfalso. specialize (NL (s, true) (or_introl eq_refl) eq_refl). simpl in NL. congruence.
  Qed.

  Theorem collapse_root_spec_l t t' :
    collapse_root ftbl mf t = Ok t' ->
    sn_split t' = sn_split t /\ sn_len t' = sn_len t /\
    st_nonroot t' = filter (keep ftbl mf) (st_nonroot t) /\
    tips_eq (st_root_tips t') (st_root_tips t).
  Proof.
    destruct t as [s l ks]. rewrite collapse_root_eq.
    destruct (collapse_list ftbl mf ks) as [kids'| |] eqn:El; try discriminate.
    intro E. inversion E. subst t'.
    assert (F : Forall GoodNode ks) by (apply Forall_forall; intros; apply good_node).
    destruct (good_list ks F kids' El) as [_ [L2 L3]].
    repeat split; try reflexivity.
    - rewrite !st_nonroot_nodes. simpl. exact L2.
    - unfold st_root_tips. simpl. apply L3.
  Qed.

  Theorem collapse_root_ok_l t :
    NoLowLeaf (st_nonroot t) -> exists t', collapse_root ftbl mf t = Ok t'.
  Proof.
    destruct t as [s l ks]. intro NL. rewrite collapse_root_eq. rewrite st_nonroot_nodes in NL. simpl in NL.
    assert (L : exists kids', collapse_list ftbl mf ks = Ok kids').
    { induction ks as [|k r IHr]; simpl; [now eexists|].
      destruct (ok_node k) as [a Ea]. { intros p I. apply NL. simpl. apply in_or_app. now left. }
      destruct IHr as [b Eb]. { intros p I. apply NL. simpl. apply in_or_app. now right. }
      rewrite Ea, Eb. now eexists. }
    destruct L as [kids' El]. rewrite El. now eexists.
  Qed.

  Lemma collapse_err_node : forall k e, collapse_below ftbl mf k = Err e -> e = ValueErr.
  Proof.
    - induction k as [s l ks IH] using stree_ind'. intros e E. rewrite collapse_below_eq in E.
      assert (L : forall e', collapse_list ftbl mf ks = Err e' -> e' = ValueErr).
      { clear E. induction IH as [|k r Hk Hr IHr]; simpl; intros e' E'; [discriminate|].
        destruct (collapse_below ftbl mf k) eqn:Ek; destruct (collapse_list ftbl mf r) eqn:Er;
          try discriminate; inversion E'; subst; try (now apply (Hk _ eq_refl)); try (now apply IHr). }
      destruct (collapse_list ftbl mf ks) eqn:El; try discriminate.
      + destruct (low_support ftbl mf s); [|discriminate]. destruct ks; [|discriminate]. now inversion E.
      + inversion E. subst. now apply L.
  Qed.
End CollapseProofs.

(* low support in terms of the exact frequency *)
Lemma low_support_exact c ts th s :
  (forall t, In t ts -> NoDup (splits_of t)) ->
  (0 < th)%Q ->
  (low_support (snd (get_freqs (count_trees c sd_empty ts))) th s = true <-> (exact_freq c ts s < th)%Q).
Proof.
  intros ND P. unfold low_support, collapse_test_is_lt.
  pose proof (rep_counted c ts) as R.
  rewrite counted_get_freqs.
  pose proof (freq_table_val c _ ts s R) as V. rewrite exact_freq_m_nodup in V by assumption.
  unfold aget_d in V.
  destruct (aget s (freq_table (count_trees c sd_empty ts))) as [f|].
  - rewrite qlt_bool_iff, V. reflexivity.
  - split; [intros _; rewrite <- V; exact P | reflexivity].
Qed.

(* ---------------------------------------------------------------- support decoration *)

Lemma sequence_ok {A} (l : list (res A)) outs :
  sequence l = Ok outs -> Forall2 (fun r o => r = Ok o) l outs.
Proof.
  revert outs. induction l as [|r l IH]; intros outs E; simpl in E.
  - inversion E. constructor.
  - destruct r as [x| |]; try discriminate.
    destruct (sequence l) as [xs| |]; try discriminate.
    inversion E. subst. constructor; [reflexivity | now apply IH].
Qed.

Lemma Forall2_flat_map {A B} (R : A -> B -> Prop) {X} (f : X -> list A) (g : X -> list B) l :
  (forall x, In x l -> Forall2 R (f x) (g x)) -> Forall2 R (flat_map f l) (flat_map g l).
Proof.
  induction l as [|x r IH]; intro H; simpl; [constructor|].
  apply Forall2_app; [apply H; now left | apply IH; intros; apply H; now right].
Qed.

Definition fields_if (tbl : list (Z * summary)) (s : Z) : option sfields :=
  match tbl with [] => None | _ => Some (fields_of tbl s) end.

Lemma summ_nodes_support ftbl lsum asum o t : forall pa,
  Forall2 (fun node r => forall out, r = Ok out ->
                          n_split out = sn_split node /\ n_support out = support_of ftbl o (sn_split node)
                          /\ n_lenf out = fields_if lsum (sn_split node)
                          /\ n_agef out = fields_if asum (sn_split node))
          (st_preorder t) (summ_nodes ftbl lsum asum o pa t).
Proof.
  induction t as [s l ks IH] using stree_ind'. intro pa. simpl. constructor.
  - intros out E. destruct (new_len ftbl lsum asum o pa s l); try discriminate.
    inversion E. subst. simpl. repeat split; reflexivity.
  - apply Forall2_flat_map. intros x I. rewrite Forall_forall in IH. now apply IH.
Qed.

Lemma Forall2_compose {A B C} (R : A -> B -> Prop) (S : B -> C -> Prop) (T : A -> C -> Prop) la lb lc :
  (forall a b c, R a b -> S b c -> T a c) -> Forall2 R la lb -> Forall2 S lb lc -> Forall2 T la lc.
Proof.
  intros H F. revert lc. induction F as [|a b la lb Rab F IH]; intros lc G; inversion G; subst; constructor.
  - eapply H; eassumption.
  - now apply IH.
Qed.

Theorem support_is_freq_l c ts o t d' outs :
  (forall t, In t ts -> NoDup (splits_of t)) ->
  summarize_tree (count_trees c sd_empty ts) o t = (d', Ok outs) ->
  Forall2 (fun node out =>
             n_split out = sn_split node /\
             (n_support out == (if o_percent o then 100 else 1) * exact_freq c ts (sn_split node))%Q /\
             n_lenf out = fields_if (calc_summaries (elens (count_trees c sd_empty ts))) (sn_split node) /\
             n_agef out = fields_if (calc_summaries (nages (count_trees c sd_empty ts))) (sn_split node))
          (st_preorder t) outs.
Proof.
  intros ND E. unfold summarize_tree in E.
  set (d := count_trees c sd_empty ts) in *.
  pose proof (rep_counted c ts) as R. pose proof (counted_cache c ts) as C. fold d in R, C.
  assert (V : forall s, (aget_d s 0%Q (snd (get_freqs d)) == exact_freq c ts s)%Q).
  { intro s. rewrite (get_freqs_val c d ts s R C). now apply exact_freq_m_nodup. }
  destruct (get_freqs d) as [d1 ftbl]. simpl in V.
  inversion E as [[E1 E2]]. clear E E1.
  assert (S : sequence (summ_nodes ftbl (calc_summaries (elens d)) (calc_summaries (nages d)) o None t) = Ok outs).
  { destruct (calc_summaries (nages d)); destruct (is_age_mode (o_mode o));
      destruct (calc_summaries (elens d)); destruct (is_len_mode (o_mode o)); try discriminate; exact E2. }
  apply sequence_ok in S.
  eapply Forall2_compose; [| apply summ_nodes_support | exact S].
  intros node r out H Er. simpl in H. destruct (H out Er) as [H1 [H2 [H3 H4]]].
  split; [assumption|]. split; [|split; assumption].
  rewrite H2. unfold support_of. destruct (o_percent o).
  - rewrite qmult_eq, V. ring.
  - rewrite V. ring.
Qed.

(* the tree-level insertion only ever creates the clade it was asked to insert *)
Lemma ct_clades_node m ks : ks <> [] -> ct_clades (CT m ks) = m :: flat_map ct_clades ks.
Proof. destruct ks; [congruence | reflexivity]. Qed.

(* ---------------------------------------------------------------- the tree-building insertion keeps the leaves *)

Section CtreeInd.
  Variable P : ctree -> Prop.
  Hypothesis H : forall m ks, Forall P ks -> P (CT m ks).
  Fixpoint ctree_ind' (t : ctree) : P t :=
    match t with
    | CT m ks =>
      H m ks ((fix go (ks : list ctree) : Forall P ks :=
                 match ks with
                 | [] => Forall_nil P
                 | k :: r => Forall_cons k (ctree_ind' k) (go r)
                 end) ks)
    end.
End CtreeInd.

Lemma filter_partition_perm {A} (f : A -> bool) l :
  Permutation (filter f l ++ filter (fun x => negb (f x)) l) l.
Proof.
  induction l as [|x r IH]; simpl; [constructor|].
  destruct (f x); simpl.
  - now constructor.
  - apply Permutation_sym. apply Permutation_cons_app. now apply Permutation_sym.
Qed.

Lemma flat_map_map_perm {A B} (leaves : A -> list B) (g : A -> A) l :
  (forall k, In k l -> Permutation (leaves (g k)) (leaves k)) ->
  Permutation (flat_map leaves (map g l)) (flat_map leaves l).
Proof.
  induction l as [|x r IH]; intro H; simpl; [constructor|].
  apply Permutation_app; [apply H; now left | apply IH; intros; apply H; now right].
Qed.

Lemma ct_leaves_node m ks : ks <> [] -> ct_leaves (CT m ks) = flat_map ct_leaves ks.
Proof. destruct ks; [congruence | reflexivity]. Qed.

Lemma ct_insert_leaves s : s <> 0 -> forall t, Permutation (ct_leaves (ct_insert s t)) (ct_leaves t).
Proof.
  intro NZ. induction t as [m ks IH] using ctree_ind'.
  simpl ct_insert.
  destruct (existsb (fun k => contains (ct_mask k) s) ks) eqn:Ex.
  - assert (NE : ks <> []) by (destruct ks; [discriminate | discriminate]).
    rewrite !ct_leaves_node; [| assumption | destruct ks; [congruence | discriminate]].
    apply flat_map_map_perm. intros k I. destruct (contains (ct_mask k) s); [|reflexivity].
    rewrite Forall_forall in IH. now apply IH.
  - destruct (m =? s); [reflexivity|].
    remember (filter (fun k => negb (Z.land (ct_mask k) s =? 0)) ks) as inside eqn:Ei.
    destruct (fold_left Z.lor (map ct_mask inside) 0 =? s) eqn:Eq; [|reflexivity].
    assert (NI : inside <> []).
    { intro X. rewrite X in Eq. change ((0 =? s) = true) in Eq. apply Z.eqb_eq in Eq. congruence. }
    assert (NE : ks <> []). { intro X. subst ks. simpl in Ei. congruence. }
    rewrite (ct_leaves_node m ks NE).
    rewrite ct_leaves_node by (intro X; apply app_eq_nil in X; destruct X; discriminate).
    rewrite flat_map_app.
    change (flat_map ct_leaves [CT s inside]) with (ct_leaves (CT s inside) ++ []).
    rewrite app_nil_r, (ct_leaves_node s inside NI).
    rewrite <- flat_map_app. apply Permutation_flat_map. subst inside. apply filter_partition_perm.
Qed.

Lemma ct_add_leaves t s : s <> 0 -> Permutation (ct_leaves (ct_add t s)) (ct_leaves t).
Proof.
  intro NZ. unfold ct_add. destruct (negb (contains (ct_mask t) s)); [reflexivity|].
  now apply ct_insert_leaves.
Qed.

Lemma ct_insert_clades s : s <> 0 -> forall t c, In c (ct_clades (ct_insert s t)) -> c = s \/ In c (ct_clades t).
Proof.
  intro NZ. induction t as [m ks IH] using ctree_ind'. intros c I. simpl ct_insert in I.
  destruct (existsb (fun k => contains (ct_mask k) s) ks) eqn:Ex.
  - assert (NE : ks <> []) by (destruct ks; discriminate).
    rewrite ct_clades_node in I by (destruct ks; [congruence | discriminate]).
    rewrite (ct_clades_node m ks NE).
    destruct I as [I|I]; [right; now left|].
    apply in_flat_map in I. destruct I as [k' [Ik' Ic]]. apply in_map_iff in Ik'.
    destruct Ik' as [k [Ek Ik]]. subst k'.
    destruct (contains (ct_mask k) s).
    + rewrite Forall_forall in IH. destruct (IH k Ik c Ic) as [H|H]; [now left|].
      right. right. apply in_flat_map. now exists k.
    + right. right. apply in_flat_map. now exists k.
  - destruct (m =? s); [now right|].
    remember (filter (fun k => negb (Z.land (ct_mask k) s =? 0)) ks) as inside eqn:Ei.
    destruct (fold_left Z.lor (map ct_mask inside) 0 =? s) eqn:Eq; [|now right].
    destruct ks as [|k1 kr].
    { exfalso. simpl in Ei. subst inside. change ((0 =? s) = true) in Eq. apply Z.eqb_eq in Eq. congruence. }
    rewrite ct_clades_node in I by (intro X; apply app_eq_nil in X; destruct X; discriminate).
    rewrite ct_clades_node by discriminate.
    destruct I as [I|I]; [right; now left|].
    rewrite flat_map_app in I. apply in_app_or in I. destruct I as [I|I].
    + right. right. apply in_flat_map in I. destruct I as [k [Ik Ic]]. apply filter_In in Ik.
      apply in_flat_map. exists k. tauto.
    + simpl in I. rewrite app_nil_r in I. destruct inside as [|i1 ir]; [destruct I|].
      destruct I as [I|I]; [now left|].
      right. right. apply in_flat_map in I. destruct I as [k [Ik Ic]].
      rewrite Ei in Ik. apply filter_In in Ik. apply in_flat_map. exists k. tauto.
Qed.

Lemma fsb_prepare_nonzero_fwd : forall all rooted ss c, In c (fsb_prepare all rooted ss) -> c <> 0.
Proof.
  intros all rooted ss c I. apply fsb_prepare_in in I. destruct I as [s [_ [N E]]]. subst c.
  unfold fsb_nontrivial in N. apply andb_true_iff in N. destruct N as [N1 N2].
  apply negb_true_iff in N1. apply Z.eqb_neq in N1.
  apply negb_true_iff in N2. apply Z.eqb_neq in N2.
  set (m := Z.land s all) in *.
  assert (M0 : m <> 0) by (intro X; rewrite X in N2; apply N2; reflexivity).
  unfold fsb_denorm. fold m. destruct rooted; [assumption|].
  destruct (negb (Z.land 1 m =? 0)); [|assumption].
  intro X. apply N1.
  apply Z.bits_inj'. intros n Hn.
  assert (Xn : Z.testbit (Z.land (Z.lnot m) all) n = false) by (rewrite X; apply Z.bits_0).
  rewrite Z.land_spec, Z.lnot_spec in Xn by assumption.
  unfold m in *. rewrite Z.land_spec in *.
  destruct (Z.testbit s n), (Z.testbit all n); simpl in *; congruence.
Qed.

Theorem consensus_tree_clades_sound_l all bits rooted ss c :
  In c (ct_clades (fsb_tree all bits rooted ss)) ->
  In c (ct_clades (ct_star all bits)) \/ In c (fsb_prepare all rooted ss).
Proof.
  unfold fsb_tree.
  assert (G : forall cs t, (forall x, In x cs -> x <> 0) ->
                           In c (ct_clades (fold_left ct_add cs t)) -> In c (ct_clades t) \/ In c cs).
  { induction cs as [|x r IH]; intros t NZ I; simpl in *; [now left|].
    destruct (IH _ (fun y Iy => NZ y (or_intror Iy)) I) as [H|H]; [|right; now right].
    unfold ct_add in H. destruct (negb (contains (ct_mask t) x)); [now left|].
    apply ct_insert_clades in H; [|apply NZ; now left].
    destruct H as [H|H]; [right; left; now symmetry | now left]. }
  apply G. intros x I. eapply fsb_prepare_nonzero_fwd. exact I.
Qed.

Lemma fsb_prepare_nonzero all rooted ss c : In c (fsb_prepare all rooted ss) -> c <> 0.
Proof. apply fsb_prepare_nonzero_fwd. Qed.

Theorem consensus_spans_namespace_l all bits rooted ss :
  bits <> [] -> Permutation (ct_leaves (fsb_tree all bits rooted ss)) bits.
Proof.
  intro NE. unfold fsb_tree.
  assert (G : forall cs t, (forall c, In c cs -> c <> 0) ->
                           Permutation (ct_leaves (fold_left ct_add cs t)) (ct_leaves t)).
  { induction cs as [|c r IH]; intros t H; simpl; [reflexivity|].
    rewrite IH by (intros; apply H; now right). apply ct_add_leaves. apply H. now left. }
  rewrite G by (intros c I; eapply fsb_prepare_nonzero; exact I).
  unfold ct_star. rewrite ct_leaves_node by (intro X; apply map_eq_nil in X; contradiction).
  clear. induction bits as [|b r IH]; simpl; [constructor | now constructor].
Qed.

(* ---------------------------------------------------------------- rooting of the consensus *)

Lemma count_tree_rootings c d t :
  rootings (fst (count_tree c d t)) = add_rooting (is_rooted_truthy (t_rooting t)) (rootings d).
Proof.
  unfold count_tree.
  destruct (count_recs c (weight_to_use c t) (t_recs t) (counts d) (elens d) (nages d)) as [[cnt el] ag].
  reflexivity.
Qed.

Lemma rootings_uniform c b ts : forall d,
  (rootings d = [] \/ rootings d = [b]) ->
  (forall t, In t ts -> is_rooted_truthy (t_rooting t) = b) ->
  (ts <> [] \/ rootings d = [b]) ->
  rootings (count_trees c d ts) = [b].
Proof.
  induction ts as [|t r IH]; intros d Hd Ht Hn; simpl.
  - destruct Hn as [X|X]; [congruence | assumption].
  - unfold count_trees in *. simpl. apply IH.
    + right. rewrite count_tree_rootings, (Ht t (or_introl eq_refl)).
      destruct Hd as [E|E]; rewrite E; unfold add_rooting; simpl; [reflexivity|].
      destruct b; reflexivity.
    + intros; apply Ht; now right.
    + right. rewrite count_tree_rootings, (Ht t (or_introl eq_refl)).
      destruct Hd as [E|E]; rewrite E; unfold add_rooting; simpl; [reflexivity|].
      destruct b; reflexivity.
Qed.

Theorem consensus_rooting_l c ts b :
  ts <> [] -> (forall t, In t ts -> is_rooted_truthy (t_rooting t) = b) ->
  resolve_rooting (count_trees c sd_empty ts) None = Some b.
Proof.
  intros NE H. unfold resolve_rooting, is_all_rooted, is_all_strictly_unrooted.
  rewrite (rootings_uniform c b ts sd_empty); [| now left | assumption | now left].
  destruct b; reflexivity.
Qed.
