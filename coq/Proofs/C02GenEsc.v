(* Translator tie, part 1: the generated escape_nexus_token and NexusTaxonSymbolMapper methods
   (Gen/NewickGen.v) equal the hand-written model (Model/Newick.v). *)
From Coq Require Import ZArith List Bool Lia.
From DV Require Import Model.PyPrims Model.Tokenizer Model.Newick Model.C02GenPrims Gen.NewickGen.
Import ListNotations.
Open Scope Z_scope.

Lemma str_in_single c s : str_in [c] s = zmem c s.
Proof.
  induction s as [|b s IH]; [reflexivity|]. cbn [str_in prefix_b]. rewrite IH. unfold zmem. cbn [existsb].
  destruct (c =? b); [destruct s; reflexivity | reflexivity].
Qed.

Lemma replace_ws label :
  replace1 (replace1 label 32 [95]) 9 [95]
  = map (fun c => if (c =? SPACE) || (c =? TAB) then UNDERSCORE else c) label.
Proof.
  induction label as [|c l IH]; [reflexivity|]. unfold replace1 in *. cbn [flat_map map].
  change SPACE with 32. change TAB with 9. change UNDERSCORE with 95.
  destruct (c =? 32) eqn:E1; cbn [app flat_map orb].
  - rewrite IH. reflexivity.
  - destruct (c =? 9) eqn:E2; cbn [app]; rewrite IH; reflexivity.
Qed.

Lemma split1_acc_nonempty s q cur : split1_acc s q cur <> [].
Proof. revert cur. induction s as [|c s IH]; intro cur; cbn [split1_acc]; [discriminate|]. destruct (c =? q); [discriminate | apply IH]. Qed.

Lemma join_split1_acc q s : forall cur,
  str_join [q; q] (split1_acc s q cur) = rev cur ++ flat_map (fun c => if c =? q then [q; q] else [c]) s.
Proof.
  induction s as [|c s IH]; intro cur; cbn [split1_acc flat_map].
  - cbn [str_join flat_map]. rewrite !app_nil_r. reflexivity.
  - destruct (c =? q) eqn:E.
    + specialize (IH []). cbn [rev app] in IH. unfold str_join at 1.
      destruct (split1_acc s q []) as [|p r] eqn:Es; [exfalso; exact (split1_acc_nonempty _ _ _ Es)|].
      cbn [flat_map]. unfold str_join in IH. rewrite <- IH. rewrite <- !app_assoc. reflexivity.
    + rewrite IH. cbn [rev]. rewrite <- app_assoc. reflexivity.
Qed.

Lemma split1_acc_len1 q s : forall cur, length (split1_acc s q cur) = 1%nat -> zmem q s = false.
Proof.
  induction s as [|c s IH]; intros cur H; [reflexivity|]. cbn [split1_acc] in H. unfold zmem. cbn [existsb].
  rewrite Z.eqb_sym. destruct (c =? q) eqn:E.
  - cbn [length] in H. injection H as H. apply length_zero_iff_nil in H. exfalso. exact (split1_acc_nonempty _ _ _ H).
  - cbn [orb]. apply (IH _ H).
Qed.

Lemma double_quotes_none l : zmem QUOTE l = false -> double_quotes l = l.
Proof.
  induction l as [|c l IH]; intro H; [reflexivity|]. unfold zmem in H. cbn [existsb] in H. apply orb_false_iff in H.
  destruct H as [H1 H2]. unfold double_quotes. cbn [flat_map]. rewrite Z.eqb_sym, H1. cbn [app]. f_equal. apply IH. exact H2.
Qed.

Lemma quoted_many label : [39] ++ str_join [39; 39] (split1 label 39) ++ [39] = QUOTE :: double_quotes label ++ [QUOTE].
Proof. unfold split1. rewrite join_split1_acc. reflexivity. Qed.

Lemma quoted_one label : (Z.of_nat (length (split1 label 39)) =? 1) = true ->
  ([39] ++ label) ++ [39] = QUOTE :: double_quotes label ++ [QUOTE].
Proof.
  intro H. apply Z.eqb_eq in H. assert (H' : length (split1 label 39) = 1%nat) by lia.
  rewrite (double_quotes_none label (split1_acc_len1 39 label [] H')). reflexivity.
Qed.

Ltac red_esc :=
  cbn [fst snd is_none py_escape_nexus_token_v_label py_escape_nexus_token_v_preserve_spaces
       py_escape_nexus_token_v_protect_regex py_escape_nexus_token_v_quote_underscores py_escape_nexus_token_v_s
       set_py_escape_nexus_token_v_label set_py_escape_nexus_token_v_s need_str bind].
Ltac quote_branch label :=
  destruct (Z.of_nat (length (split1 label 39)) =? 1) eqn:EL; red_esc;
  [ rewrite (quoted_one label EL) | rewrite (quoted_many label) ]; reflexivity.

(* escape_nexus_token(label, preserve_spaces, quote_underscores, protect_regex), label a str *)
Theorem py_escape_nexus_token_eq protect ps qu label :
  py_escape_nexus_token tt (Some label) ps qu protect = MRet (Some (escape_token protect ps qu label)) tt.
Proof.
  unfold py_escape_nexus_token, escape_token, run, s_seq, s_if, s_ife, s_doe, s_ret, s_rete, s_skip.
  red_esc.
  rewrite !str_in_single. change (re_search_class protect label) with (existsb (fun c => zmem c protect) label).
  change 95 with UNDERSCORE. change 32 with SPACE.
  destruct ps; cbn [negb andb bind].
  - destruct (existsb (fun c => zmem c protect) label) eqn:E1; cbn [orb bind].
    + quote_branch label.
    + destruct (zmem SPACE label) eqn:E2; cbn [orb].
      * quote_branch label.
      * destruct qu; cbn [andb].
        -- destruct (zmem UNDERSCORE label) eqn:E3; [quote_branch label | reflexivity].
        -- reflexivity.
  - destruct (zmem UNDERSCORE label) eqn:E3; cbn [negb andb bind].
    + destruct (existsb (fun c => zmem c protect) label) eqn:E1; cbn [orb bind].
      * quote_branch label.
      * destruct (zmem SPACE label) eqn:E2; cbn [orb]; [quote_branch label|].
        destruct qu; cbn [andb]; [quote_branch label | reflexivity].
    + destruct (existsb (fun c => zmem c protect) label) eqn:E1; cbn [negb orb bind].
      * quote_branch label.
      * change UNDERSCORE with 95. change SPACE with 32. rewrite replace_ws. reflexivity.
Qed.

Theorem py_escape_nexus_token_none protect ps qu :
  py_escape_nexus_token tt None ps qu protect = MRet (Some []) tt.
Proof. reflexivity. Qed.

(* ---- NexusTaxonSymbolMapper ---- *)
Ltac red_map :=
  cbn [fst snd py_map_lookup_taxon_symbol_v_symbol py_map_lookup_taxon_symbol_v_create_taxon_if_not_found bind
       catch_err err_eqb].

Section Mapper.
Variable lower : str -> str.

Theorem py_map_add_translate_token_eq m token taxon :
  py_map_add_translate_token lower m token taxon = MRet tt (add_translate_token lower m token taxon).
Proof. reflexivity. Qed.

(* lookup order: TRANSLATE token, then label, then (if enabled) number, then a new taxon *)
Theorem py_map_lookup_taxon_symbol_create_eq m symbol :
  py_map_lookup_taxon_symbol lower m symbol true
  = MRet (Some (fst (require_taxon_for_symbol lower m symbol))) (snd (require_taxon_for_symbol lower m symbol)).
Proof.
  unfold py_map_lookup_taxon_symbol, require_taxon_for_symbol, run, s_seq, s_try, s_rete, s_if, s_ret, s_skip,
    map_getitem, dict_key.
  red_map.
  destruct (assoc (m_key lower m symbol) (m_tokens m)) as [i|]; red_map; [reflexivity|].
  red_map.
  destruct (assoc (m_key lower m symbol) (m_labels m)) as [i|]; red_map; [reflexivity|].
  red_map.
  destruct (m_by_number m); red_map.
  - destruct (assoc symbol (m_numbers m)) as [i|]; red_map; [reflexivity|].
    destruct (mapper_new_taxon lower m symbol); reflexivity.
  - destruct (mapper_new_taxon lower m symbol); reflexivity.
Qed.

Theorem py_map_require_taxon_for_symbol_eq m symbol :
  py_map_require_taxon_for_symbol lower m symbol
  = MRet (Some (fst (require_taxon_for_symbol lower m symbol))) (snd (require_taxon_for_symbol lower m symbol)).
Proof.
  unfold py_map_require_taxon_for_symbol, run, s_call_ret.
  cbn [fst snd py_map_require_taxon_for_symbol_v_symbol].
  rewrite py_map_lookup_taxon_symbol_create_eq. reflexivity.
Qed.

(* create_taxon_if_not_found=False: the same three look-ups, None when all fail, the mapper unchanged *)
Theorem py_map_lookup_taxon_symbol_nocreate_eq m symbol :
  py_map_lookup_taxon_symbol lower m symbol false
  = MRet (match assoc (m_key lower m symbol) (m_tokens m) with
          | Some i => Some i
          | None => match assoc (m_key lower m symbol) (m_labels m) with
                    | Some i => Some i
                    | None => if m_by_number m then assoc symbol (m_numbers m) else None
                    end
          end) m.
Proof.
  unfold py_map_lookup_taxon_symbol, run, s_seq, s_try, s_rete, s_if, s_ret, s_skip, map_getitem, dict_key.
  red_map.
  destruct (assoc (m_key lower m symbol) (m_tokens m)) as [i|]; red_map; [reflexivity|].
  red_map.
  destruct (assoc (m_key lower m symbol) (m_labels m)) as [i|]; red_map; [reflexivity|].
  red_map.
  destruct (m_by_number m); red_map; [|reflexivity].
  destruct (assoc symbol (m_numbers m)) as [i|]; red_map; reflexivity.
Qed.
End Mapper.
