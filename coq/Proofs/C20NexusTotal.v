(* C20: the NEXUS control skeleton (Model/C20Nexus.v) on the repaired form is total:
   for EVERY token stream, with loop budget F above twice the weight of the stream + 8, it ends in
   Ok / ParseErr (or leaves the model: RUnm), never out of budget. *)
From Coq Require Import String Ascii ZArith NArith List Bool Lia.
From DV Require Import Model.PyPrims Gen.CharClasses Gen.ReaderLoops Model.Tokenizer Model.Newick
                       Model.C20Model Model.C20Nexus Proofs.C20Tok Proofs.C20Newick.
Import ListNotations.
Close Scope string_scope.
Open Scope list_scope.
Open Scope Z_scope.

(* weight of a token: its length (at least 1); splitting a token at hyphens and joining the pieces
   again preserve the total weight *)
Definition wt (t : token) : nat := Nat.max 1 (length (t_text t)).
Definition wsum (l : list token) : nat := fold_right (fun t a => (wt t + a)%nat) 0%nat l.
Definition W (st : nstate) : nat := (wsum (n_pend st) + wsum (ps_toks (n_ps st)))%nat.

Definition sok (st : nstate) : Prop :=
  ps_end (n_ps st) <> EndFuel /\ (forall e, ps_end (n_ps st) = EndErr e -> e = ParseErr).

Definition tot {A} (r : nr A) (Q : A -> Prop) : Prop :=
  match r with ROk a => Q a | RErr e => e = ParseErr | RFuel => False | RUnm => True end.

Lemma tot_bind {A C} (r : nr A) (f : A -> nr C) (P : A -> Prop) (Q : C -> Prop) :
  tot r P -> (forall a, P a -> tot (f a) Q) -> tot (nbind r f) Q.
Proof. destruct r; simpl; auto. Qed.

Lemma tot_impl {A} (r : nr A) (P Q : A -> Prop) : tot r P -> (forall a, P a -> Q a) -> tot r Q.
Proof. destruct r; simpl; auto. Qed.

(* the state a sub-parser returns: stream still well-formed, no heavier *)
Definition le (st st' : nstate) : Prop := sok st' /\ (W st' <= W st)%nat.

Lemma le_refl st : sok st -> le st st.
Proof. intro. split; [assumption | lia]. Qed.

Lemma le_trans a b c : le a b -> le b c -> le a c.
Proof. intros [_ X] [S Y]. split; [exact S | lia]. Qed.

Lemma wt_pos t : (1 <= wt t)%nat.
Proof. unfold wt. lia. Qed.

(* ---- fetches ---- *)
Inductive fcase (st : nstate) : fetched -> Prop :=
| FC_tok st' : sok st' -> (W st' < W st)%nat -> n_cur st' <> None -> fcase st (GotTok st')
| FC_end st' : sok st' -> W st' = 0%nat -> W st = 0%nat -> n_eof st' = true -> fcase st (GotEnd st')
| FC_err : fcase st (GotErr (RErr ParseErr)).

Lemma nadvance_fcase st : sok st -> fcase st (nadvance st).
Proof.
  intros [S1 S2]. unfold nadvance. destruct (n_pend st) as [|t r] eqn:P.
  - destruct (ps_toks (n_ps st)) as [|t r] eqn:T; unfold advance; rewrite T.
    + destruct (ps_end (n_ps st)) as [cs|e|] eqn:E.
      * apply FC_end.
        -- unfold sok; simpl. split; [discriminate | intros; discriminate].
        -- unfold W; simpl. rewrite ?P, ?T. reflexivity.
        -- unfold W. rewrite ?P, ?T. reflexivity.
        -- reflexivity.
      * rewrite (S2 e eq_refl). apply FC_err.
      * congruence.
    + apply FC_tok.
      * unfold sok; simpl. split; assumption.
      * unfold W; simpl. rewrite ?P, ?T. simpl. pose proof (wt_pos t). lia.
      * unfold n_cur; simpl. discriminate.
  - apply FC_tok.
    + unfold sok; simpl. split; assumption.
    + unfold W; simpl. rewrite ?P. simpl. pose proof (wt_pos t). lia.
    + unfold n_cur; simpl. discriminate.
Qed.

(* a fetched token: (token, state) *)
Definition got (st : nstate) (p : option str * nstate) : Prop :=
  sok (snd p) /\ (W (snd p) < W st)%nat /\ fst p <> None.
(* end of stream reached *)
Definition ended (st : nstate) (p : option str * nstate) : Prop :=
  sok (snd p) /\ W (snd p) = 0%nat /\ W st = 0%nat /\ fst p = None /\ n_eof (snd p) = true.

Lemma next_token_tot st : sok st -> tot (next_token st) (fun p => got st p \/ ended st p).
Proof.
  intros S. unfold next_token. destruct (nadvance_fcase st S) as [st' S' L C|st' S' L1 L0 E|].
  - cbn [tot]. left. unfold got. cbn [fst snd]. split; [exact S' | split; [exact L | exact C]].
  - cbn [tot]. right. unfold ended. cbn [fst snd].
    split; [exact S'|]. split; [exact L1|]. split; [exact L0|]. split; [reflexivity | exact E].
  - reflexivity.
Qed.

Lemma require_next_token_tot st : sok st -> tot (require_next_token st) (fun p => got st p).
Proof.
  intros S. unfold require_next_token. destruct (nadvance_fcase st S) as [st' S' L C|st' S' L1 L0 E|].
  - cbn [tot]. unfold got. cbn [fst snd]. split; [exact S' | split; [exact L | exact C]].
  - reflexivity.
  - reflexivity.
Qed.

Section Tot.
Variable upper lower : str -> str.
Variable dval : Z -> option Z.
Variable sym_ok : Z -> bool.
Variable is_float : str -> bool.
Variable F : nat.

Notation fx := nfix_all.

Lemma ucase_tot st r :
  tot r (fun p => got st p \/ ended st p) ->
  tot (ucase upper r) (fun p => got st p \/ ended st p).
Proof.
  intros H. unfold ucase. eapply tot_bind; [exact H|].
  intros [t s] [[A [B0 C]] | [A [B0 [C [D E]]]]]; cbn [fst snd] in *.
  - destruct t as [x|]; [|congruence]. cbn [tot]. left. unfold got. cbn [fst snd].
    split; [exact A|]. split; [exact B0 | discriminate].
  - subst t. cbn [tot]. right. unfold ended. cbn [fst snd]. auto.
Qed.

Lemma ucase_got st r :
  tot r (fun p => got st p) -> tot (ucase upper r) (fun p => got st p).
Proof.
  intros H. unfold ucase. eapply tot_bind; [exact H|].
  intros [t s] [A [B0 C]]; cbn [fst snd] in *.
  destruct t as [x|]; [|congruence]. cbn [tot]. unfold got. cbn [fst snd].
  split; [exact A|]. split; [exact B0 | discriminate].
Qed.

(* ---- facts read off the generated loop records (they fail to compute if the source changes) ---- *)
Lemma gen_skip : guard_tests_cur_char L_skip = true /\ guard_tests_none L_skip = true
                 /\ uniform_prim L_skip = FNextToken.
Proof. repeat split; vm_compute; reflexivity. Qed.

(* skip_to_semicolon *)
Lemma skip_loop_tot : forall f tok st, sok st ->
  (W st + 2 <= f)%nat \/ (tok = None /\ (1 <= f)%nat) ->
  tot (skip_loop f tok st) (fun st' => le st st').
Proof.
  destruct gen_skip as [G1 [G2 G3]].
  induction f as [|f IH]; intros tok st S Hf; [destruct Hf as [Hf|[_ Hf]]; lia|].
  cbn [skip_loop]. rewrite G1, G2, G3.
  destruct Hf as [Hf | [Hn _]].
  2:{ subst tok. cbn [is_none negb andb]. rewrite andb_false_r. apply le_refl. exact S. }
  destruct (negb (tok_is tok ";") && negb (n_eof st) && negb (is_none tok)); [|apply le_refl; exact S].
  eapply tot_bind; [apply next_token_tot; exact S|].
  intros [t st1] [[A [B0 C]] | [A [B0 [C [D E]]]]]; cbn [fst snd] in *.
  - eapply tot_impl; [apply IH; [exact A | left; lia]|].
    intros st2 [S2 L2]. split; [exact S2 | lia].
  - subst t. eapply tot_impl; [apply IH; [exact A | right; split; [reflexivity | lia]]|].
    intros st2 [S2 L2]. split; [exact S2 | lia].
Qed.

Lemma skip_to_semicolon_tot st : sok st -> (W st + 3 <= F)%nat ->
  tot (skip_to_semicolon F st) (fun st' => le st st').
Proof.
  intros S HF. unfold skip_to_semicolon.
  eapply tot_bind; [apply next_token_tot; exact S|].
  intros [t st1] [[A [B0 C]] | [A [B0 [C [D E]]]]]; cbn [fst snd] in *.
  - eapply tot_impl; [apply skip_loop_tot; [exact A | left; lia]|].
    intros st2 [S2 L2]. split; [exact S2 | lia].
  - eapply tot_impl; [apply skip_loop_tot; [exact A | left; lia]|].
    intros st2 [S2 L2]. split; [exact S2 | lia].
Qed.

(* updates of the payload part of the state do not touch the tokenizer *)
Definition same_tok (a b : nstate) : Prop := n_ps a = n_ps b /\ n_pend a = n_pend b.

Lemma same_tok_le a b st : same_tok a b -> le st b -> le st a.
Proof. intros [P Q] [S L]. unfold le, sok, W in *. rewrite P, Q. auto. Qed.

Lemma same_tok_W a b : same_tok a b -> W a = W b.
Proof. intros [P Q]. unfold W. rewrite P, Q. reflexivity. Qed.

Lemma same_tok_sok a b : same_tok a b -> sok b -> sok a.
Proof. intros [P Q]. unfold sok. rewrite P. auto. Qed.

Lemma same_tok_eof a b : same_tok a b -> n_eof a = n_eof b.
Proof. intros [P Q]. unfold n_eof. rewrite P. reflexivity. Qed.

Lemma tns_set_labels_same st i ls : same_tok (tns_set_labels st i ls) st.
Proof. unfold tns_set_labels. destruct (nth_error (n_tns st) i) as [[t l]|]; split; reflexivity. Qed.

Lemma set_last_mat_same st m : same_tok (set_last_mat st m) st.
Proof. unfold set_last_mat. destruct (rev (n_mats st)); split; reflexivity. Qed.

Lemma got_le st p : got st p -> le st (snd p).
Proof. intros [A [B0 _]]. split; [exact A | lia]. Qed.

Lemma ended_le st p : ended st p -> le st (snd p).
Proof. intros [A [B0 [C _]]]. split; [exact A | lia]. Qed.

(* _parse_title_statement *)
Lemma parse_title_tot st : sok st ->
  tot (parse_title st) (fun p => sok (snd p) /\ (W (snd p) < W st)%nat).
Proof.
  intros S. unfold parse_title.
  eapply tot_bind; [apply require_next_token_tot; exact S|].
  intros [title st1] [A [B0 _]]; cbn [fst snd] in *.
  eapply tot_bind; [apply require_next_token_tot; exact A|].
  intros [sc st2] [A2 [B2 _]]; cbn [fst snd] in *.
  destruct (tok_is sc ";"); cbn [tot]; [|reflexivity]. cbn [fst snd]. split; [exact A2 | lia].
Qed.

(* _consume_to_end_of_block *)
Lemma gen_consume : guard_tests_eof L_consume = true /\ guard_tests_none L_consume = true
                    /\ nth_prim L_consume 0 = FSkipToSemicolon /\ nth_prim L_consume 1 = FNextTokenUcase.
Proof. repeat split; vm_compute; reflexivity. Qed.

Lemma consume_loop_tot : forall f tok st, sok st -> (W st + 3 <= F)%nat ->
  (W st + 2 <= f)%nat \/ ((tok = None \/ n_eof st = true) /\ (1 <= f)%nat) ->
  tot (consume_loop upper F f tok st) (fun p => le st (snd p) /\ (n_eof st = true -> snd p = st)).
Proof.
  destruct gen_consume as [G1 [G2 [G3 G4]]].
  induction f as [|f IH]; intros tok st S HF Hf; [destruct Hf as [Hf|[_ Hf]]; lia|].
  cbn [consume_loop]. unfold guard_extra. rewrite G1, G2, G3, G4.
  destruct (negb (is_end tok) && (negb (n_eof st) && negb (is_none tok))) eqn:GD.
  2:{ cbn [tot snd]. split; [apply le_refl; exact S | reflexivity]. }
  apply andb_true_iff in GD. destruct GD as [_ GD]. apply andb_true_iff in GD. destruct GD as [GE GN].
  apply negb_true_iff in GE. apply negb_true_iff in GN.
  destruct Hf as [Hf | [[Hn | He] _]]; [| subst tok; discriminate | congruence].
  eapply tot_bind; [apply skip_to_semicolon_tot; assumption|].
  intros st1 [S1 L1].
  eapply tot_bind; [cbn [fetch]; apply ucase_tot; apply next_token_tot; exact S1|].
  intros [t st2] [[A [B0 C]] | [A [B0 [C [D E]]]]]; cbn [fst snd] in *.
  - eapply tot_impl; [apply IH; [exact A | lia | left; lia]|].
    intros [t' st3] [[S3 L3] _]. cbn [snd] in *. split; [split; [exact S3 | lia] | congruence].
  - eapply tot_impl; [apply IH; [exact A | lia | right; split; [left; exact D | lia]]|].
    intros [t' st3] [[S3 L3] _]. cbn [snd] in *. split; [split; [exact S3 | lia] | congruence].
Qed.

Lemma consume_to_end_of_block_tot tok st : sok st -> (W st + 3 <= F)%nat ->
  tot (consume_to_end_of_block upper F tok st) (fun p => le st (snd p) /\ (n_eof st = true -> snd p = st)).
Proof.
  intros S HF. unfold consume_to_end_of_block. apply consume_loop_tot; [exact S | exact HF | left; lia].
Qed.

(* _parse_link_statement, repaired form *)
Lemma gen_link : guard_tests_eof L_link = false /\ guard_tests_none L_link = false.
Proof. split; vm_compute; reflexivity. Qed.

Lemma link_item_tot st : sok st ->
  tot (link_item upper fx st) (fun r => sok (snd r) /\ (W (snd r) < W st)%nat).
Proof.
  intros S. unfold link_item. cbn [fx_link nfix_all fetch].
  eapply tot_bind; [apply next_token_tot; exact S|].
  intros [t st1] H1. cbn [fst snd].
  destruct (tok_is t "=") eqn:E; cbn [negb]; [|reflexivity].
  destruct H1 as [[A [B0 C]] | [A [B0 [C [D E0]]]]]; cbn [fst snd] in *; [|subst t; discriminate].
  eapply tot_bind; [apply next_token_tot; exact A|].
  intros [t2 st2] H2. cbn [fst snd].
  assert (X2 : le st1 st2) by (destruct H2 as [H2|H2]; [apply (got_le _ _ H2) | apply (ended_le _ _ H2)]).
  destruct X2 as [S2 L2].
  eapply tot_bind; [apply next_token_tot; exact S2|].
  intros [t3 st3] H3. cbn [tot fst snd].
  assert (X3 : le st2 st3) by (destruct H3 as [H3|H3]; [apply (got_le _ _ H3) | apply (ended_le _ _ H3)]).
  destruct X3 as [S3 L3]. split; [exact S3 | lia].
Qed.

Lemma link_loop_tot : forall f tok st lt lc, sok st -> (W st + 1 <= f)%nat ->
  tot (link_loop upper fx f tok st lt lc) (fun r => le st (snd r)).
Proof.
  destruct gen_link as [G1 G2].
  induction f as [|f IH]; intros tok st lt lc S Hf; [lia|].
  cbn [link_loop]. unfold guard_extra. rewrite G1, G2. cbn [fx_link nfix_all].
  destruct (negb (tok_is tok ";") && (true && true)); [|cbn [tot snd]; apply le_refl; exact S].
  destruct (tok_is tok "TAXA").
  { eapply tot_bind; [apply link_item_tot; exact S|].
    intros [[v t] st1] [S1 L1]. cbn [fst snd] in *.
    eapply tot_impl; [apply IH; [exact S1 | lia]|].
    intros r [S2 L2]. split; [exact S2 | lia]. }
  destruct (tok_is tok "CHARACTERS").
  { eapply tot_bind; [apply link_item_tot; exact S|].
    intros [[v t] st1] [S1 L1]. cbn [fst snd] in *.
    eapply tot_impl; [apply IH; [exact S1 | lia]|].
    intros r [S2 L2]. split; [exact S2 | lia]. }
  eapply tot_bind; [apply ucase_got; apply require_next_token_tot; exact S|].
  intros [t st1] [S1 [L1 _]]. cbn [fst snd] in *.
  eapply tot_impl; [apply IH; [exact S1 | lia]|].
  intros r [S2 L2]. split; [exact S2 | lia].
Qed.

Lemma parse_link_tot st : sok st -> (W st + 2 <= F)%nat ->
  tot (parse_link upper fx F st) (fun r => le st (snd r)).
Proof.
  intros S HF. unfold parse_link.
  eapply tot_bind; [apply ucase_tot; apply next_token_tot; exact S|].
  intros [t st1] H1. cbn [fst snd].
  assert (X : le st st1) by (destruct H1 as [H1|H1]; [apply (got_le _ _ H1) | apply (ended_le _ _ H1)]).
  destruct X as [S1 L1].
  eapply tot_bind; [apply link_loop_tot; [exact S1 | lia]|].
  intros [[[lt lc] tok] st2] [S2 L2]. cbn [tot fst snd] in *. split; [exact S2 | lia].
Qed.

(* _parse_dimensions_statement *)
Lemma gen_dims : guard_tests_eof L_dims = false /\ guard_tests_none L_dims = false
                 /\ uniform_prim L_dims = FRequireNextTokenUcase.
Proof. repeat split; vm_compute; reflexivity. Qed.

Lemma dims_loop_tot : forall f tok st, sok st -> (W st + 1 <= f)%nat ->
  tot (dims_loop upper dval f tok st) (fun st' => le st st').
Proof.
  destruct gen_dims as [G1 [G2 G3]].
  induction f as [|f IH]; intros tok st S Hf; [lia|].
  cbn [dims_loop]. unfold guard_extra. rewrite G1, G2, G3.
  destruct (negb (tok_is tok ";") && (true && true)); [|cbn [tot]; apply le_refl; exact S].
  match goal with |- tot (nbind ?r _) _ => assert (R : tot r (fun st1 => le st st1)) end.
  { destruct (tok_is tok "NTAX" || tok_is tok "NCHAR").
    - cbn [fetch]. eapply tot_bind; [apply ucase_got; apply require_next_token_tot; exact S|].
      intros [t1 st1] [S1 [L1 _]]. cbn [fst snd] in *.
      destruct (tok_is t1 "="); [|reflexivity].
      eapply tot_bind; [apply ucase_got; apply require_next_token_tot; exact S1|].
      intros [t2 st2] [S2 [L2 N2]]. cbn [fst snd] in *.
      destruct t2 as [v|]; [|congruence].
      destruct (all_digits dval v); [|reflexivity].
      cbn [tot]. destruct (tok_is tok "NTAX"); (split; [exact S2 | unfold W in *; simpl; lia]).
    - destruct (tok_is tok "BEGIN"); [reflexivity|]. cbn [tot]. apply le_refl; exact S. }
  eapply tot_bind; [exact R|].
  intros st1 [S1 L1].
  cbn [fetch]. eapply tot_bind; [apply ucase_got; apply require_next_token_tot; exact S1|].
  intros [t st2] [S2 [L2 _]]. cbn [fst snd] in *.
  eapply tot_impl; [apply IH; [exact S2 | lia]|].
  intros st3 [S3 L3]. split; [exact S3 | lia].
Qed.

Lemma parse_dimensions_tot st : sok st -> (W st + 1 <= F)%nat ->
  tot (parse_dimensions upper dval F st) (fun st' => le st st').
Proof.
  intros S HF. unfold parse_dimensions.
  eapply tot_bind; [apply ucase_got; apply require_next_token_tot; exact S|].
  intros [t st1] [S1 [L1 _]]. cbn [fst snd] in *.
  eapply tot_impl; [apply dims_loop_tot; [exact S1 | lia]|].
  intros st3 [S3 L3]. split; [exact S3 | lia].
Qed.

(* _parse_format_statement *)
Lemma gen_format : guard_tests_eof L_format = false /\ guard_tests_none L_format = false
                   /\ uniform_prim L_format = FRequireNextTokenUcase.
Proof. repeat split; vm_compute; reflexivity. Qed.

Ltac req_step S :=
  cbn [fetch]; eapply tot_bind; [apply ucase_got; apply require_next_token_tot; exact S|].

Lemma format_loop_tot : forall f tok st, sok st -> (W st + 1 <= f)%nat ->
  tot (format_loop upper f tok st) (fun st' => le st st').
Proof.
  destruct gen_format as [G1 [G2 G3]].
  induction f as [|f IH]; intros tok st S Hf; [lia|].
  cbn [format_loop]. unfold guard_extra. rewrite G1, G2, G3.
  destruct (negb (tok_is tok ";") && (true && true)); [|cbn [tot]; apply le_refl; exact S].
  destruct (unmodelled_format_kw tok); [exact I|].
  destruct (tok_is tok "DATATYPE").
  { req_step S. intros [t1 st1] [S1 [L1 _]]. cbn [fst snd] in *.
    destruct (tok_is t1 "="); [|reflexivity].
    req_step S1. intros [t2 st2] [S2 [L2 _]]. cbn [fst snd] in *.
    match goal with |- context [upd_dtype st2 ?d] => set (st2' := upd_dtype st2 d) end.
    assert (S2' : sok st2') by exact S2.
    req_step S2'. intros [t3 st3] [S3 [L3 _]]. cbn [fst snd] in *.
    assert (W st2' = W st2) by reflexivity.
    eapply tot_impl; [apply IH; [exact S3 | lia]|].
    intros st4 [S4 L4]. split; [exact S4 | lia]. }
  destruct (tok_is tok "GAP" || tok_is tok "MISSING").
  { req_step S. intros [t1 st1] [S1 [L1 _]]. cbn [fst snd] in *.
    destruct (tok_is t1 "="); [|reflexivity].
    req_step S1. intros [t2 st2] [S2 [L2 _]]. cbn [fst snd] in *.
    match goal with |- tot (if ?c then _ else _) _ => destruct c end; [exact I|].
    req_step S2. intros [t3 st3] [S3 [L3 _]]. cbn [fst snd] in *.
    eapply tot_impl; [apply IH; [exact S3 | lia]|].
    intros st4 [S4 L4]. split; [exact S4 | lia]. }
  destruct (tok_is tok "BEGIN"); [reflexivity|].
  req_step S. intros [t1 st1] [S1 [L1 _]]. cbn [fst snd] in *.
  eapply tot_impl; [apply IH; [exact S1 | lia]|].
  intros st4 [S4 L4]. split; [exact S4 | lia].
Qed.

Lemma parse_format_tot st : sok st -> (W st + 1 <= F)%nat ->
  tot (parse_format upper F st) (fun st' => le st st').
Proof.
  intros S HF. unfold parse_format.
  eapply tot_bind; [apply ucase_got; apply require_next_token_tot; exact S|].
  intros [t st1] [S1 [L1 _]]. cbn [fst snd] in *.
  eapply tot_impl; [apply format_loop_tot; [exact S1 | lia]|].
  intros st3 [S3 L3]. split; [exact S3 | lia].
Qed.

(* _parse_taxlabels_statement, repaired form *)
Lemma gen_taxlabels : guard_tests_eof L_taxlabels = false /\ guard_tests_none L_taxlabels = false
                      /\ uniform_prim L_taxlabels = FRequireNextToken.
Proof. repeat split; vm_compute; reflexivity. Qed.

Lemma taxlabels_loop_tot : forall f tok st ti, sok st -> tok <> None -> (W st + 1 <= f)%nat ->
  tot (taxlabels_loop upper lower fx f tok st ti) (fun st' => le st st').
Proof.
  destruct gen_taxlabels as [G1 [G2 G3]].
  induction f as [|f IH]; intros tok st ti S NN Hf; [lia|].
  cbn [taxlabels_loop]. unfold guard_extra. rewrite G1, G2, G3.
  destruct (negb (tok_is tok ";") && (true && true)); [|cbn [tot]; apply le_refl; exact S].
  destruct tok as [label|]; [|congruence].
  match goal with |- tot (nbind ?r _) _ => assert (R : tot r (fun st1 => same_tok st1 st)) end.
  { destruct (find_label lower label (tns_labels st ti) 0); [cbn [tot]; split; reflexivity|].
    destruct (n_ntax st).
    - match goal with |- tot (if ?c then _ else _) _ => destruct c end; [reflexivity|].
      cbn [tot]. apply tns_set_labels_same.
    - cbn [fx_taxlabels_nodims nfix_all tot]. apply tns_set_labels_same. }
  eapply tot_bind; [exact R|].
  intros st1 ST1.
  cbn [fetch]. eapply tot_bind; [apply require_next_token_tot; eapply same_tok_sok; [exact ST1 | exact S]|].
  intros [t st2] [S2 [L2 N2]]. cbn [fst snd] in *.
  rewrite (same_tok_W _ _ ST1) in L2.
  eapply tot_impl; [apply IH; [exact S2 | exact N2 | lia]|].
  intros st3 [S3 L3]. split; [exact S3 | lia].
Qed.

Lemma parse_taxlabels_tot st ti : sok st -> (W st + 1 <= F)%nat ->
  tot (parse_taxlabels upper lower fx F st ti) (fun st' => le st st').
Proof.
  intros S HF. unfold parse_taxlabels. cbn [fx_taxlabels_eof nfix_all].
  eapply tot_bind; [apply require_next_token_tot; exact S|].
  intros [t st1] [S1 [L1 N1]]. cbn [fst snd] in *.
  eapply tot_impl; [apply taxlabels_loop_tot; [exact S1 | exact N1 | lia]|].
  intros st3 [S3 L3]. split; [exact S3 | lia].
Qed.

(* _parse_taxa_block *)
Lemma gen_taxa : guard_tests_eof L_taxa = false /\ guard_tests_none L_taxa = false
                 /\ uniform_prim L_taxa = FRequireNextTokenUcase.
Proof. repeat split; vm_compute; reflexivity. Qed.

Lemma taxa_loop_tot : forall f tok st tns, sok st -> (W st + 3 <= F)%nat -> (W st + 1 <= f)%nat ->
  tot (taxa_loop upper lower dval fx F f tok st tns) (fun st' => le st st').
Proof.
  destruct gen_taxa as [G1 [G2 G3]].
  induction f as [|f IH]; intros tok st tns S HF Hf; [lia|].
  cbn [taxa_loop]. unfold guard_extra. rewrite G1, G2, G3.
  destruct (negb (is_end tok) && (true && true)); [|cbn [tot]; apply le_refl; exact S].
  req_step S. intros [tok1 st1] [S1 [L1 _]]. cbn [fst snd] in *.
  match goal with |- tot (nbind ?r _) _ =>
    assert (R : tot r (fun a => sok (snd (fst a)) /\ (W (snd (fst a)) <= W st1)%nat)) end.
  { destruct (tok_is tok1 "TITLE").
    - eapply tot_bind; [apply parse_title_tot; exact S1|].
      intros [title st2] [S2 L2]. cbn [fst snd] in *.
      destruct (new_tns st2 title) as [i st3] eqn:NT. cbn [tot fst snd].
      unfold new_tns in NT. inversion NT; subst. split; [exact S2 | unfold W in *; simpl; lia].
    - cbn [tot fst snd]. split; [exact S1 | lia]. }
  eapply tot_bind; [exact R|].
  intros [[tok2 st2] tns2] [S2 L2]. cbn [fst snd] in *.
  match goal with |- tot (nbind ?r _) _ => assert (R2 : tot r (fun st3 => le st2 st3)) end.
  { destruct (tok_is tok2 "DIMENSIONS"); [apply parse_dimensions_tot; [exact S2 | lia] | cbn [tot]; apply le_refl; exact S2]. }
  eapply tot_bind; [exact R2|].
  intros st3 [S3 L3].
  destruct (tok_is tok2 "TAXLABELS").
  - match goal with |- tot (let '(i, st4) := ?x in _) _ =>
      assert (X : same_tok (snd x) st3) by (destruct tns2; split; reflexivity); destruct x as [i st4] end.
    cbn [snd] in X.
    eapply tot_bind; [apply parse_taxlabels_tot; [eapply same_tok_sok; eauto | rewrite (same_tok_W _ _ X); lia]|].
    intros st5 [S5 L5]. rewrite (same_tok_W _ _ X) in L5.
    eapply tot_impl; [apply IH; [exact S5 | lia | lia]|].
    intros st6 [S6 L6]. split; [exact S6 | lia].
  - eapply tot_impl; [apply IH; [exact S3 | lia | lia]|].
    intros st6 [S6 L6]. split; [exact S6 | lia].
Qed.

Lemma parse_taxa_block_tot st : sok st -> (W st + 3 <= F)%nat ->
  tot (parse_taxa_block upper lower dval fx F st) (fun st' => le st st').
Proof.
  intros S HF. unfold parse_taxa_block.
  eapply tot_bind; [apply skip_to_semicolon_tot; assumption|].
  intros st1 [S1 L1].
  eapply tot_bind; [apply taxa_loop_tot; [exact S1 | lia | lia]|].
  intros st2 [S2 L2].
  eapply tot_impl; [apply skip_to_semicolon_tot; [exact S2 | lia]|].
  intros st3 [S3 L3]. split; [exact S3 | lia].
Qed.

(* namespaces *)
Lemma get_tns_tot st title :
  tot (get_tns upper st title) (fun r => same_tok (snd r) st).
Proof.
  unfold get_tns. destruct title as [t|].
  - match goal with |- tot (match ?h with _ => _ end) _ => destruct h as [|[i x] [|y r]] end; try reflexivity.
    cbn [tot snd]. split; reflexivity.
  - destruct (n_tns st) as [|a [|b r]]; try reflexivity; cbn [tot snd]; split; reflexivity.
Qed.

Lemma get_taxon_tot st ti label :
  tot (get_taxon lower st ti label) (fun r => same_tok (snd r) st).
Proof.
  unfold get_taxon. destruct (find_label lower label (tns_labels st ti) 0); [cbn [tot snd]; split; reflexivity|].
  match goal with |- tot (if ?c then _ else _) _ => destruct c end; [reflexivity|].
  cbn [tot snd]. apply tns_set_labels_same.
Qed.

(* TRANSLATE *)
Lemma gen_translate : uniform_prim L_translate = FNextToken.
Proof. vm_compute; reflexivity. Qed.

Lemma fetch_next_le st tok : sok st ->
  tot (fetch upper FNextToken tok st) (fun p => got st p \/ ended st p).
Proof. intros S. cbn [fetch]. apply next_token_tot. exact S. Qed.

Lemma got_or_ended_le st p : got st p \/ ended st p -> le st (snd p).
Proof. intros [H|H]; [apply (got_le _ _ H) | apply (ended_le _ _ H)]. Qed.

Lemma translate_loop_tot : forall f st ti m, sok st -> (W st + 1 <= f)%nat ->
  tot (translate_loop upper lower f st ti m) (fun r => le st (snd r)).
Proof.
  induction f as [|f IH]; intros st ti m S Hf; [lia|].
  cbn [translate_loop]. rewrite gen_translate.
  eapply tot_bind; [apply fetch_next_le; exact S|].
  intros [ttok st1] H1. cbn [fst snd].
  pose proof (got_or_ended_le _ _ H1) as [S1 L1]. cbn [snd] in S1, L1.
  match goal with |- tot (if ?c then _ else _) _ => destruct c end; [reflexivity|].
  eapply tot_bind; [apply fetch_next_le; exact S1|].
  intros [tlabel st2] H2. cbn [fst snd].
  pose proof (got_or_ended_le _ _ H2) as [S2 L2]. cbn [snd] in S2, L2.
  match goal with |- tot (nbind ?r _) _ => assert (R : tot r (fun a => same_tok (snd a) st2)) end.
  { destruct tlabel as [l|].
    - destruct (find_label lower l (tns_labels st2 ti) 0); [cbn [tot snd]; split; reflexivity|].
      destruct (n_ntax st2); [reflexivity|]. cbn [tot snd]. apply tns_set_labels_same.
    - destruct (n_ntax st2); [reflexivity|]. cbn [tot snd]. split; reflexivity. }
  eapply tot_bind; [exact R|].
  intros [taxon st3] ST3. cbn [snd] in ST3.
  assert (S3 : sok st3) by (eapply same_tok_sok; [exact ST3 | exact S2]).
  eapply tot_bind; [apply fetch_next_le; exact S3|].
  intros [tok st4] H4. cbn [fst snd].
  match goal with |- tot (if ?c then _ else _) _ => destruct c eqn:EX end.
  { cbn [tot snd]. pose proof (got_or_ended_le _ _ H4) as [S4 L4]. cbn [snd] in *.
    rewrite (same_tok_W _ _ ST3) in L4. split; [exact S4 | lia]. }
  destruct (negb (tok_is tok ",")); [reflexivity|].
  destruct H4 as [[S4 [L4 _]] | [_ [_ [_ [TN _]]]]]; cbn [fst snd] in *.
  - rewrite (same_tok_W _ _ ST3) in L4.
    eapply tot_impl; [apply IH; [exact S4 | lia]|].
    intros r [S5 L5]. split; [exact S5 | lia].
  - subst tok. cbn in EX. discriminate.
Qed.

Lemma parse_translate_tot st ti : sok st -> (W st + 1 <= F)%nat ->
  tot (parse_translate upper lower F st ti) (fun r => le st (snd r)).
Proof. intros S HF. unfold parse_translate. apply translate_loop_tot; assumption. Qed.

(* TREE statements: the Newick reader model on the shared tokenizer state *)
Lemma wsum_skipn : forall k l, (wsum (skipn k l) <= wsum l)%nat.
Proof.
  induction k as [|k IH]; intros l; [simpl; lia|].
  destruct l as [|t r]; simpl; [lia|]. specialize (IH r). lia.
Qed.

Lemma wsum_length l : (length l <= wsum l)%nat.
Proof. induction l as [|t r IH]; simpl; [lia|]. pose proof (wt_pos t). lia. Qed.

Lemma parse_tree_statement_nexus_tot st ti m : sok st -> (2 * W st + 4 <= F)%nat ->
  tot (parse_tree_statement_nexus lower is_float fx F st ti m)
      (fun r => sok (snd r) /\ (W (snd r) < W st)%nat).
Proof.
  intros S HF. unfold parse_tree_statement_nexus.
  eapply tot_bind; [apply next_token_tot; exact S|].
  intros [t0 st0] H0. pose proof (got_or_ended_le _ _ H0) as [S0 L0]. cbn [fst snd] in *.
  match goal with |- tot (nbind ?r _) _ =>
    assert (R : tot r (fun p => sok (snd p) /\ (W (snd p) <= W st)%nat)) end.
  { destruct (tok_is t0 "*").
    - eapply tot_impl; [apply next_token_tot; exact S0|].
      intros p Hp. pose proof (got_or_ended_le _ _ Hp) as [Sp Lp]. split; [exact Sp | lia].
    - cbn [tot snd]. split; [exact S0 | lia]. }
  eapply tot_bind; [exact R|].
  intros [t1 st1] [S1 L1]. cbn [fst snd] in *.
  eapply tot_bind; [apply next_token_tot; exact S1|].
  intros [t2 st2] H2. cbn [fst snd].
  destruct (tok_is t2 "=") eqn:EQ; cbn [negb]; [|reflexivity].
  destruct H2 as [[S2 [L2 _]] | [_ [_ [_ [TN _]]]]]; cbn [fst snd] in *; [|subst t2; discriminate].
  eapply tot_bind; [apply next_token_tot; exact S2|].
  intros [t3 st3] H3. pose proof (got_or_ended_le _ _ H3) as [S3 L3]. cbn [fst snd] in *.
  destruct (n_pend st3) as [|pt pr] eqn:PE; [|exact I].
  set (ps := n_ps st3).
  set (ps1 := mkPS (ps_cur ps) (ps_eof ps) (ps_comments ps) (ps_toks ps) (ps_end ps)
                   (ps_nesting ps) (ps_complete ps) (ps_seen ps) m).
  assert (G1 : good ps1) by (unfold good, ps1; simpl; exact S3).
  assert (W3 : W st3 = wsum (ps_toks ps)) by (unfold W; rewrite PE; reflexivity).
  assert (B1 : (B ps1 + 2 <= F)%nat).
  { unfold B, mu, hasc, ps1. simpl. pose proof (wsum_length (ps_toks ps)). destruct (ps_cur ps); lia. }
  pose proof (parse_tree_statement_spec unit (parse_len_unit is_float) lower default_ropts eq_refl F ps1 G1 B1) as PT.
  destruct (Newick.parse_tree_statement unit (parse_len_unit is_float) lower default_ropts F ps1) as [[[tr|] ps2]| |];
    cbn [of_res nbind rok] in *; try contradiction.
  - destruct PT as [G2 [_ [_ [k K]]]]. cbn [fst snd] in *.
    cbn [tot snd]. split.
    + eapply same_tok_sok; [apply (conj eq_refl eq_refl)|].
      eapply same_tok_sok; [apply tns_set_labels_same|]. unfold sok. simpl. exact G2.
    + assert (X : W (upd_trees (tns_set_labels (upd_tok st3 ps2 [] false) ti (m_ns (ps_map ps2))) (n_trees st3 + 1))
                  = wsum (ps_toks ps2)).
      { pose proof (tns_set_labels_same (upd_tok st3 ps2 [] false) ti (m_ns (ps_map ps2))) as [P1 P2].
        unfold W. simpl. rewrite P1, P2. reflexivity. }
      rewrite X, K. unfold ps1. simpl. pose proof (wsum_skipn k (ps_toks ps)). lia.
  - cbn [fx_tree_eof nfix_all tot]. reflexivity.
  - cbn [tot]. exact PT.
Qed.

Lemma tree_stmts_loop_tot : forall f st ti m, sok st -> (2 * W st + 4 <= F)%nat -> (W st + 1 <= f)%nat ->
  tot (tree_stmts_loop upper lower is_float fx F f st ti m) (fun r => le st (snd r)).
Proof.
  induction f as [|f IH]; intros st ti m S HF Hf; [lia|].
  cbn [tree_stmts_loop].
  eapply tot_bind; [apply parse_tree_statement_nexus_tot; assumption|].
  intros [m1 st1] [S1 L1]. cbn [fst snd] in *.
  match goal with |- tot (if ?c then _ else _) _ => destruct c end.
  { cbn [tot snd]. split; [exact S1 | lia]. }
  match goal with |- tot (if ?c then _ else _) _ => destruct c end.
  { cbn [tot snd]. split; [exact S1 | unfold W in *; simpl; lia]. }
  eapply tot_impl; [apply IH; [exact S1 | unfold W in *; simpl; lia | unfold W in *; simpl; lia]|].
  intros r [S2 L2]. split; [exact S2 | unfold W in *; simpl in *; lia].
Qed.

(* TREES block *)
Lemma gen_trees : guard_tests_eof L_trees = true /\ guard_tests_none L_trees = true
                  /\ uniform_prim L_trees = FNextTokenUcase.
Proof. repeat split; vm_compute; reflexivity. Qed.

Definition lbudget (f : nat) (tok : option str) (st : nstate) : Prop :=
  (W st + 2 <= f)%nat \/ ((tok = None \/ n_eof st = true) /\ (1 <= f)%nat).

Lemma guard_exit l tok st : guard_tests_eof l = true -> guard_tests_none l = true ->
  (tok = None \/ n_eof st = true) -> guard_extra l tok st = false.
Proof.
  intros G1 G2 H. unfold guard_extra. rewrite G1, G2. destruct H as [H|H]; [subst; simpl; apply andb_false_r|].
  rewrite H. reflexivity.
Qed.

Lemma trees_loop_tot : forall f tok st lt tns m, sok st -> (2 * W st + 4 <= F)%nat -> lbudget f tok st ->
  tot (trees_loop upper lower is_float fx F f tok st lt tns m) (fun st' => le st st').
Proof.
  destruct gen_trees as [G1 [G2 G3]].
  induction f as [|f IH]; intros tok st lt tns m S HF Hf; [destruct Hf as [Hf|[_ Hf]]; lia|].
  cbn [trees_loop].
  destruct (negb (is_end tok) && guard_extra L_trees tok st) eqn:GD; [|cbn [tot]; apply le_refl; exact S].
  destruct Hf as [Hf | [HX _]].
  2:{ rewrite (guard_exit _ _ _ G1 G2 HX) in GD. rewrite andb_false_r in GD. discriminate. }
  rewrite G3. cbn [fetch].
  eapply tot_bind; [apply ucase_tot; apply next_token_tot; exact S|].
  intros [tok1 st1] H1. cbn [fst snd].
  destruct H1 as [[S1 [L1 _]] | [S1 [L1 [L0 [TN E1]]]]]; cbn [fst snd] in *.
  2:{ subst tok1. cbn [tok_is]. 
      eapply tot_impl; [apply IH; [exact S1 | lia | right; split; [left; reflexivity | lia]]|].
      intros st2 [S2 L2]. split; [exact S2 | lia]. }
  assert (NX : forall tk s2, le st1 s2 -> tot (trees_loop upper lower is_float fx F f tk s2 lt tns m) (fun st' => le st st')
               -> True) by auto.
  clear NX.
  destruct (tok_is tok1 "LINK").
  { eapply tot_bind; [apply parse_link_tot; [exact S1 | lia]|].
    intros [[lta ltc] st2] [S2 L2]. cbn [fst snd] in *.
    eapply tot_impl; [apply IH; [exact S2 | lia | left; lia]|].
    intros st3 [S3 L3]. split; [exact S3 | lia]. }
  destruct (tok_is tok1 "TITLE").
  { eapply tot_bind; [apply parse_title_tot; exact S1|].
    intros [ti st2] [S2 L2]. cbn [fst snd] in *.
    eapply tot_impl; [apply IH; [exact S2 | lia | left; lia]|].
    intros st3 [S3 L3]. split; [exact S3 | lia]. }
  destruct (tok_is tok1 "TRANSLATE").
  { match goal with |- tot (nbind ?r _) _ => assert (R : tot r (fun a => same_tok (snd a) st1)) end.
    { destruct tns; [cbn [tot snd]; split; reflexivity | apply get_tns_tot]. }
    eapply tot_bind; [exact R|]. intros [ti st2] ST2. cbn [snd] in ST2.
    eapply tot_bind; [apply parse_translate_tot; [eapply same_tok_sok; [exact ST2 | exact S1] | rewrite (same_tok_W _ _ ST2); lia]|].
    intros [m1 st3] [S3 L3]. cbn [fst snd] in *. rewrite (same_tok_W _ _ ST2) in L3.
    eapply tot_impl; [apply IH; [exact S3 | lia | left; lia]|].
    intros st4 [S4 L4]. split; [exact S4 | lia]. }
  destruct (tok_is tok1 "TREE").
  { match goal with |- tot (nbind ?r _) _ => assert (R : tot r (fun a => same_tok (snd a) st1)) end.
    { destruct tns; [cbn [tot snd]; split; reflexivity | apply get_tns_tot]. }
    eapply tot_bind; [exact R|]. intros [ti st2] ST2. cbn [snd] in ST2.
    eapply tot_bind; [apply tree_stmts_loop_tot; [eapply same_tok_sok; [exact ST2 | exact S1] | rewrite (same_tok_W _ _ ST2); lia | rewrite (same_tok_W _ _ ST2); lia]|].
    intros [[tok2 m1] st3] [S3 L3]. cbn [fst snd] in *. rewrite (same_tok_W _ _ ST2) in L3.
    eapply tot_impl; [apply IH; [exact S3 | lia | left; lia]|].
    intros st4 [S4 L4]. split; [exact S4 | lia]. }
  destruct (tok_is tok1 "BEGIN"); [reflexivity|].
  eapply tot_impl; [apply IH; [exact S1 | lia | left; lia]|].
  intros st4 [S4 L4]. split; [exact S4 | lia].
Qed.

Lemma parse_trees_block_tot tok st : sok st -> (2 * W st + 5 <= F)%nat ->
  tot (parse_trees_block upper lower is_float fx F tok st) (fun st' => le st st').
Proof.
  intros S HF. unfold parse_trees_block.
  eapply tot_bind; [apply skip_to_semicolon_tot; [exact S | lia]|].
  intros st1 [S1 L1].
  eapply tot_bind; [apply trees_loop_tot; [exact S1 | lia | left; lia]|].
  intros st2 [S2 L2].
  eapply tot_impl; [apply skip_to_semicolon_tot; [exact S2 | lia]|].
  intros st3 [S3 L3]. split; [exact S3 | lia].
Qed.

(* SETS: character matrices by title *)
Lemma find_mats_tot : forall mats t i, tot (find_mats upper fx mats t i) (fun _ => True).
Proof.
  induction mats as [|m r IH]; intros t i; cbn [find_mats]; [exact I|].
  destruct (m_label m); cbn [fx_untitled nfix_all].
  - eapply tot_bind; [apply IH|]. intros; exact I.
  - apply IH.
Qed.

Lemma get_char_matrix_tot st title : tot (get_char_matrix upper fx st title) (fun _ => True).
Proof.
  unfold get_char_matrix. destruct title as [t|].
  - eapply tot_bind; [apply find_mats_tot|]. intros hits _. destruct hits as [|i [|j r]]; simpl; auto.
  - destruct (n_mats st) as [|a [|b r]]; simpl; auto.
Qed.

(* hyphen splitting keeps the weight *)
Definition psum (l : list str) : nat := fold_right (fun p a => (Nat.max 1 (length p) + a)%nat) 0%nat l.

Lemma psum_app a b : psum (a ++ b) = (psum a + psum b)%nat.
Proof.
  induction a as [|x r IH]; [reflexivity|].
  change (psum ((x :: r) ++ b)) with (Nat.max 1 (length x) + psum (r ++ b))%nat.
  change (psum (x :: r)) with (Nat.max 1 (length x) + psum r)%nat. rewrite IH. lia.
Qed.

Lemma psum_one p : psum [p] = Nat.max 1 (length p).
Proof. cbn [psum fold_right]. lia. Qed.

Lemma psum_cur cur : psum (match cur with [] => [] | _ => [rev cur] end) = length cur.
Proof.
  destruct cur as [|x y]; [reflexivity|]. rewrite psum_one, rev_length. cbn [length]. lia.
Qed.

Lemma split_hyphen_sum : forall s cur, psum (split_hyphen s cur) = (length s + length cur)%nat.
Proof.
  induction s as [|c r IH]; intros cur; cbn [split_hyphen].
  - rewrite psum_cur. reflexivity.
  - destruct (c =? 45).
    + rewrite !psum_app, IH, psum_cur, psum_one. cbn [length]. lia.
    + rewrite IH. cbn [length]. lia.
Qed.

Lemma wsum_pieces : forall ps eof, wsum (pieces_to_tokens ps eof) = psum ps.
Proof.
  induction ps as [|p r IH]; intros eof; [reflexivity|].
  destruct r as [|q r']; [reflexivity|].
  change (pieces_to_tokens (p :: q :: r') eof) with (mkTok p false [] false :: pieces_to_tokens (q :: r') eof).
  change (wsum (mkTok p false [] false :: pieces_to_tokens (q :: r') eof))
    with (wt (mkTok p false [] false) + wsum (pieces_to_tokens (q :: r') eof))%nat.
  rewrite IH. reflexivity.
Qed.

Lemma next_pos_token_tot st : sok st ->
  tot (next_pos_token st) (fun p => got st p \/ ended st p).
Proof.
  intros S. unfold next_pos_token.
  destruct (n_pend st) as [|pt pr] eqn:PE; [|apply next_token_tot; exact S].
  destruct (ps_toks (n_ps st)) as [|t r] eqn:TK; [apply next_token_tot; exact S|].
  match goal with |- tot (if ?c then _ else _) _ => destruct c eqn:EC end; [|apply next_token_tot; exact S].
  match goal with |- tot (next_token ?s) _ => set (st' := s) end.
  assert (S' : sok st') by exact S.
  assert (NE : (1 <= length (t_text t))%nat).
  { apply andb_true_iff in EC. destruct EC as [EC _]. apply andb_true_iff in EC. destruct EC as [_ EC].
    destruct (t_text t); [discriminate | simpl; lia]. }
  assert (WS : W st' = (length (t_text t) + wsum r)%nat).
  { unfold W, st'. simpl. rewrite wsum_pieces, split_hyphen_sum. simpl. lia. }
  assert (WO : W st = (wt t + wsum r)%nat).
  { unfold W. rewrite PE, TK. reflexivity. }
  assert (WT : wt t = length (t_text t)) by (unfold wt; lia).
  eapply tot_impl; [apply next_token_tot; exact S'|].
  intros p [[A [B0 C]] | [A [B0 [C [D E]]]]].
  - left. split; [exact A|]. split; [lia | exact C].
  - exfalso. lia.
Qed.

Lemma flat_len_wsum : forall ts, (length (flat_map t_text ts) <= wsum ts)%nat.
Proof.
  induction ts as [|t r IH]; [simpl; lia|].
  change (wsum (t :: r)) with (wt t + wsum r)%nat. cbn [flat_map]. rewrite app_length. unfold wt. lia.
Qed.

Lemma rejoin_pending_le st : sok st -> le st (rejoin_pending st).
Proof.
  intros S. unfold rejoin_pending. destruct (n_pend st) as [|t r] eqn:PE; [apply le_refl; exact S|].
  split; [exact S|]. unfold W. cbn [rejoin_pending n_pend upd_tok n_ps]. rewrite PE.
  pose proof (flat_len_wsum (t :: r)) as FL.
  match goal with |- (wsum [?x] + _ <= _)%nat => change (wsum [x]) with (wt x + 0)%nat; unfold wt at 1; cbn [t_text] end.
  pose proof (wt_pos t). change (wsum (t :: r)) with (wt t + wsum r)%nat in *. lia.
Qed.

Lemma rejoin_pending_eof st : n_eof (rejoin_pending st) = n_eof st.
Proof. unfold rejoin_pending. destruct (n_pend st); reflexivity. Qed.

(* _parse_positions, repaired form *)
Lemma gen_positions : guard_tests_eof L_positions = true /\ guard_tests_none L_positions = false
                      /\ uniform_prim L_positions = FNextToken.
Proof. repeat split; vm_compute; reflexivity. Qed.

Lemma pos_fetch_tot tok st : sok st -> tot (pos_fetch tok st) (fun p => got st p \/ ended st p).
Proof.
  intros S. unfold pos_fetch. destruct gen_positions as [_ [_ G3]]. rewrite G3. apply next_pos_token_tot. exact S.
Qed.

Definition pbudget (f : nat) (st : nstate) : Prop :=
  (W st + 2 <= f)%nat \/ (n_eof st = true /\ (1 <= f)%nat).

Lemma not_truthy_none : truthy None = false.
Proof. reflexivity. Qed.

Lemma positions_loop_tot : forall f maxp tok st bad, sok st -> pbudget f st ->
  tot (positions_loop upper dval fx f maxp tok st bad) (fun r => le st (snd r)).
Proof.
  destruct gen_positions as [G1 [G2 G3]].
  induction f as [|f IH]; intros maxp tok st bad S Hf; [destruct Hf as [Hf|[_ Hf]]; lia|].
  cbn [positions_loop]. unfold guard_extra. rewrite G1, G2.
  destruct (negb (tok_is tok ";") && negb (tok_is tok ",") && (negb (n_eof st) && true)) eqn:GD;
    [|cbn [tot snd]; apply le_refl; exact S].
  destruct Hf as [Hf | [HE _]].
  2:{ rewrite HE in GD. cbn in GD. rewrite andb_false_r in GD. discriminate. }
  destruct (negb (truthy tok)); [cbn [tot snd]; apply le_refl; exact S|].
  destruct (seqb (upper (tok_text tok)) (s_of "ALL")); [cbn [tot snd]; apply le_refl; exact S|].
  destruct (all_digits dval (tok_text tok)); [|cbn [fx_positions nfix_all]; reflexivity].
  (* a number: every continuation has fetched at least once *)
  assert (K : forall tk s2 b, sok s2 -> (W s2 < W st)%nat ->
              tot (positions_loop upper dval fx f maxp tk s2 b) (fun r => le st (snd r))).
  { intros tk s2 b S2 L2. eapply tot_impl; [apply IH; [exact S2 | left; lia]|].
    intros r [S3 L3]. split; [exact S3 | lia]. }
  assert (KE : forall s2 b, sok s2 -> (W s2 <= W st)%nat -> n_eof s2 = true ->
              tot (positions_loop upper dval fx f maxp None s2 b) (fun r => le st (snd r))).
  { intros s2 b S2 L2 E2. eapply tot_impl; [apply IH; [exact S2 | right; split; [exact E2 | lia]]|].
    intros r [S3 L3]. split; [exact S3 | lia]. }
  eapply tot_bind; [apply pos_fetch_tot; exact S|].
  intros [tok1 st1] H1. cbn [fst snd].
  destruct H1 as [[S1 [L1 N1]] | [S1 [L1 [L0 [TN E1]]]]]; cbn [fst snd] in *.
  2:{ subst tok1. cbn [truthy negb tot snd]. split; [exact S1 | lia]. }
  destruct (negb (truthy tok1)); [cbn [tot snd]; split; [exact S1 | lia]|].
  match goal with |- tot (if ?c then _ else _) _ => destruct c end; [apply K; assumption|].
  destruct (tok_is tok1 "-"); [|reflexivity].
  eapply tot_bind; [apply pos_fetch_tot; exact S1|].
  intros [tok2 st2] H2. pose proof (got_or_ended_le _ _ H2) as [S2 L2]. cbn [fst snd] in *.
  destruct (negb (truthy tok2)); [reflexivity|].
  match goal with |- tot (if ?c then _ else _) _ => destruct c end; [|reflexivity].
  eapply tot_bind; [apply pos_fetch_tot; exact S2|].
  intros [tok3 st3] H3. cbn [fst snd].
  destruct (truthy tok3 && (tok_is tok3 "\" || tok_is tok3 "/")) eqn:E3.
  - pose proof (got_or_ended_le _ _ H3) as [S3 L3]. cbn [snd] in *.
    eapply tot_bind; [apply pos_fetch_tot; exact S3|].
    intros [tok4 st4] H4. pose proof (got_or_ended_le _ _ H4) as [S4 L4]. cbn [fst snd] in *.
    destruct (negb (truthy tok4)); [reflexivity|].
    destruct (negb (all_digits dval (tok_text tok4))); [reflexivity|].
    eapply tot_bind; [apply pos_fetch_tot; exact S4|].
    intros [tok5 st5] H5. pose proof (got_or_ended_le _ _ H5) as [S5 L5]. cbn [fst snd] in *.
    destruct (int_val dval (tok_text tok4) =? 0); [cbn [fx_step0 nfix_all]; reflexivity|].
    apply K; [exact S5 | lia].
  - destruct H3 as [[S3 [L3 _]] | [S3 [L3 [_ [TN E3']]]]]; cbn [fst snd] in *.
    + apply K; [exact S3 | lia].
    + subst tok3. apply KE; [exact S3 | lia | exact E3'].
Qed.

Lemma parse_positions_tot st : sok st -> (W st + 2 <= F)%nat ->
  tot (parse_positions upper dval fx F st) (fun st' => le st st').
Proof.
  intros S HF. unfold parse_positions. destruct (n_nchar st); [|exact I].
  eapply tot_bind; [apply next_pos_token_tot; exact S|].
  intros [tok st1] H1. pose proof (got_or_ended_le _ _ H1) as [S1 L1]. cbn [fst snd] in *.
  destruct (n_eof st1 || negb (truthy tok)); [reflexivity|].
  eapply tot_bind; [apply positions_loop_tot; [exact S1 | left; lia]|].
  intros [bad st2] [S2 L2]. cbn [fst snd] in *.
  destruct bad; [reflexivity|]. cbn [tot].
  pose proof (rejoin_pending_le st2 S2) as [S3 L3]. split; [exact S3 | lia].
Qed.

(* _parse_charset_statement, repaired form *)
Lemma parse_charset_tot st lt : sok st -> (W st + 2 <= F)%nat ->
  tot (parse_charset upper dval fx F st lt) (fun st' => le st st').
Proof.
  intros S HF. unfold parse_charset.
  eapply tot_bind; [apply get_char_matrix_tot|]. intros mi _.
  eapply tot_bind; [apply next_token_tot; exact S|].
  intros [tok st1] H1. pose proof (got_or_ended_le _ _ H1) as [S1 L1]. cbn [fst snd] in *.
  destruct (n_eof st1 || negb (truthy tok)); [reflexivity|].
  eapply tot_bind; [apply next_token_tot; exact S1|].
  intros [tok2 st2] H2. pose proof (got_or_ended_le _ _ H2) as [S2 L2]. cbn [fst snd] in *.
  destruct (negb (truthy tok2)); [reflexivity|].
  destruct (negb (tok_is tok2 "=")); [reflexivity|].
  eapply tot_bind; [apply parse_positions_tot; [exact S2 | lia]|].
  intros st3 [S3 L3].
  destruct (nth_error (n_mats st3) mi); [|exact I].
  match goal with |- tot (if ?c then _ else _) _ => destruct c end; [cbn [fx_charsetdup nfix_all]; reflexivity|].
  cbn [tot]. split; [exact S3 | unfold W in *; simpl; lia].
Qed.

(* SETS / ASSUMPTIONS / CODONS *)
Lemma gen_sets : guard_tests_eof L_sets = true /\ guard_tests_none L_sets = true
                 /\ nth_prim L_sets 0 = FNextTokenUcase.
Proof. repeat split; vm_compute; reflexivity. Qed.

Lemma sets_loop_tot : forall f tok st lt, sok st -> (W st + 3 <= F)%nat -> lbudget f tok st ->
  tot (sets_loop upper dval fx F f tok st lt) (fun st' => le st st').
Proof.
  destruct gen_sets as [G1 [G2 G3]].
  induction f as [|f IH]; intros tok st lt S HF Hf; [destruct Hf as [Hf|[_ Hf]]; lia|].
  cbn [sets_loop].
  destruct (negb (is_end tok) && guard_extra L_sets tok st) eqn:GD; [|cbn [tot]; apply le_refl; exact S].
  destruct Hf as [Hf | [HX _]].
  2:{ rewrite (guard_exit _ _ _ G1 G2 HX) in GD. rewrite andb_false_r in GD. discriminate. }
  rewrite G3. cbn [fetch].
  eapply tot_bind; [apply ucase_tot; apply next_token_tot; exact S|].
  intros [tok1 st1] H1. cbn [fst snd].
  destruct H1 as [[S1 [L1 _]] | [S1 [L1 [L0 [TN E1]]]]]; cbn [fst snd] in *.
  2:{ subst tok1. cbn [tok_is].
      eapply tot_impl; [apply IH; [exact S1 | lia | right; split; [left; reflexivity | lia]]|].
      intros st2 [S2 L2]. split; [exact S2 | lia]. }
  destruct (tok_is tok1 "TITLE").
  { eapply tot_bind; [apply parse_title_tot; exact S1|].
    intros [ti st2] [S2 L2]. cbn [fst snd] in *.
    eapply tot_impl; [apply IH; [exact S2 | lia | left; lia]|].
    intros st3 [S3 L3]. split; [exact S3 | lia]. }
  destruct (tok_is tok1 "LINK").
  { eapply tot_bind; [apply parse_link_tot; [exact S1 | lia]|].
    intros [[lta ltc] st2] [S2 L2]. cbn [fst snd] in *.
    eapply tot_impl; [apply IH; [exact S2 | lia | left; lia]|].
    intros st3 [S3 L3]. split; [exact S3 | lia]. }
  destruct (tok_is tok1 "CHARSET").
  { eapply tot_bind; [apply parse_charset_tot; [exact S1 | lia]|].
    intros st2 [S2 L2].
    eapply tot_impl; [apply IH; [exact S2 | lia | left; lia]|].
    intros st3 [S3 L3]. split; [exact S3 | lia]. }
  destruct (tok_is tok1 "BEGIN"); [reflexivity|].
  eapply tot_impl; [apply IH; [exact S1 | lia | left; lia]|].
  intros st4 [S4 L4]. split; [exact S4 | lia].
Qed.

Lemma parse_sets_block_tot tok st : sok st -> (W st + 3 <= F)%nat ->
  tot (parse_sets_block upper dval fx F tok st) (fun st' => le st st').
Proof.
  intros S HF. unfold parse_sets_block.
  eapply tot_bind; [apply skip_to_semicolon_tot; [exact S | lia]|].
  intros st1 [S1 L1].
  eapply tot_bind; [apply sets_loop_tot; [exact S1 | lia | left; lia]|].
  intros st2 [S2 L2].
  eapply tot_impl; [apply skip_to_semicolon_tot; [exact S2 | lia]|].
  intros st3 [S3 L3]. split; [exact S3 | lia].
Qed.

(* MATRIX *)
Lemma add_chars_tot dt nchar first : dt <> DStandardEmpty -> forall cs n,
  tot (add_chars sym_ok dt nchar first cs n) (fun _ => True).
Proof.
  intros ND. induction cs as [|c r IH]; intros n; cbn [add_chars]; [exact I|].
  match goal with |- tot (nbind ?x _) _ => assert (R : tot x (fun _ => True)) end.
  { destruct (c =? 46).
    - destruct first as [fl|]; [destruct (n <? fl)|]; simpl; auto.
    - destruct dt; [congruence | destruct (sym_ok c); simpl; auto | exact I]. }
  eapply tot_bind; [exact R|]. intros _ _.
  destruct (n =? nchar); [reflexivity | apply IH].
Qed.

Lemma gen_states : nth_prim L_states 0 = FRequireNextToken.
Proof. vm_compute; reflexivity. Qed.

Lemma states_loop_tot dt nchar first : dt <> DStandardEmpty -> forall f n st, sok st -> (W st + 1 <= f)%nat ->
  tot (states_loop upper sym_ok fx f dt nchar first n st) (fun r => le st (snd r)).
Proof.
  intros ND. induction f as [|f IH]; intros n st S Hf; [lia|].
  cbn [states_loop]. rewrite gen_states.
  destruct (n <? nchar); [|cbn [tot snd]; apply le_refl; exact S].
  cbn [fetch]. eapply tot_bind; [apply require_next_token_tot; exact S|].
  intros [tok st1] [S1 [L1 N1]]. cbn [fst snd] in *.
  destruct (tok_is tok "{" || tok_is tok "("); [exact I|].
  destruct (tok_is tok ";"); [cbn [fx_blockterm nfix_all]; reflexivity|].
  destruct tok as [cs|]; [|congruence].
  eapply tot_bind; [apply add_chars_tot; exact ND|]. intros n1 _.
  eapply tot_impl; [apply IH; [exact S1 | lia]|].
  intros r [S2 L2]. split; [exact S2 | lia].
Qed.

Lemma gen_matrix : guard_tests_eof L_matrix = true /\ guard_tests_none L_matrix = false
                   /\ nth_prim L_matrix 0 = FNextToken.
Proof. repeat split; vm_compute; reflexivity. Qed.

Lemma matrix_loop_tot dt nchar : dt <> DStandardEmpty -> forall f tok st first, sok st -> (W st + 1 <= F)%nat ->
  pbudget f st ->
  tot (matrix_loop upper lower sym_ok fx F f dt nchar tok st first) (fun r => le st (snd r)).
Proof.
  intros ND. destruct gen_matrix as [G1 [G2 G3]].
  induction f as [|f IH]; intros tok st first S HF Hf; [destruct Hf as [Hf|[_ Hf]]; lia|].
  cbn [matrix_loop]. unfold guard_extra. rewrite G1, G2, G3.
  destruct (negb (tok_is tok ";") && (negb (n_eof st) && true)) eqn:GD; [|cbn [tot snd]; apply le_refl; exact S].
  destruct Hf as [Hf | [HE _]].
  2:{ rewrite HE in GD. cbn in GD. rewrite andb_false_r in GD. discriminate. }
  destruct tok as [label|]; [|exact I].
  destruct (last_mat st) as [m|]; [|exact I].
  eapply tot_bind; [apply get_taxon_tot|].
  intros [t st1] ST1. cbn [snd] in ST1.
  match goal with |- context [set_last_mat st1 ?mm] => set (st1' := set_last_mat st1 mm) end.
  assert (ST1' : same_tok st1' st).
  { destruct (set_last_mat_same st1 (mkMat (m_label m) (m_tns m)
       (set_row (m_rows m) t match row_len_of (m_rows m) t with Some n => n | None => 0 end) (m_sets m))) as [P Q].
    destruct ST1 as [P1 Q1]. split; subst st1'; congruence. }
  eapply tot_bind; [apply states_loop_tot; [exact ND | eapply same_tok_sok; [exact ST1' | exact S] | rewrite (same_tok_W _ _ ST1'); lia]|].
  intros [n1 st2] [S2 L2]. cbn [fst snd] in *. rewrite (same_tok_W _ _ ST1') in L2.
  destruct (n1 <? nchar); [reflexivity|].
  match goal with |- context [set_last_mat st2 ?mm] => set (st3 := set_last_mat st2 mm) end.
  assert (ST3 : same_tok st3 st2) by apply set_last_mat_same.
  cbn [fetch]. eapply tot_bind; [apply next_token_tot; eapply same_tok_sok; [exact ST3 | exact S2]|].
  intros [tok' st4] H4. cbn [fst snd].
  destruct H4 as [[S4 [L4 _]] | [S4 [L4 [L0 [TN E4]]]]]; cbn [fst snd] in *; rewrite (same_tok_W _ _ ST3) in *.
  - eapply tot_impl; [apply IH; [exact S4 | lia | left; lia]|].
    intros r [S5 L5]. split; [exact S5 | lia].
  - eapply tot_impl; [apply IH; [exact S4 | lia | right; split; [exact E4 | lia]]|].
    intros r [S5 L5]. split; [exact S5 | lia].
Qed.

Lemma parse_matrix_tot st bt lt : sok st -> (W st + 3 <= F)%nat ->
  tot (parse_matrix upper lower sym_ok fx F st bt lt) (fun st' => le st st').
Proof.
  intros S HF. unfold parse_matrix.
  destruct (n_ntax st) as [nt|]; [|reflexivity]. destruct (n_nchar st) as [nc|]; [|reflexivity].
  destruct ((nt =? 0) || (nc =? 0)); [reflexivity|].
  eapply tot_bind; [apply get_tns_tot|]. intros [ti st1] ST1. cbn [snd] in ST1.
  match goal with |- context [upd_mats st1 ?mm] => set (st2 := upd_mats st1 mm) end.
  assert (ST2 : same_tok st2 st) by (destruct ST1 as [P Q]; split; subst st2; simpl; assumption).
  destruct (n_interleave st2); [exact I|].
  assert (S2 : sok st2) by (eapply same_tok_sok; [exact ST2 | exact S]).
  assert (K : forall dt, dt <> DStandardEmpty ->
     tot (dn p <- next_token st2;;
          dn r <- matrix_loop upper lower sym_ok fx F F dt nc (fst p) (snd p) None;;
          (if fx_truncmatrix fx && negb (tok_is (fst r) ";") then RErr ParseErr else ROk (snd r)))
         (fun st' => le st st')).
  { intros dt ND.
    eapply tot_bind; [apply next_token_tot; exact S2|].
    intros [tok st3] H3. pose proof (got_or_ended_le _ _ H3) as [S3 L3]. cbn [fst snd] in *.
    rewrite (same_tok_W _ _ ST2) in L3.
    eapply tot_bind; [apply matrix_loop_tot; [exact ND | exact S3 | lia | left; lia]|].
    intros [tk st4] [S4 L4]. cbn [fst snd] in *.
    match goal with |- tot (if ?c then _ else _) _ => destruct c end; [reflexivity|].
    cbn [tot]. split; [exact S4 | lia]. }
  destruct (n_dtype st2); [cbn [fx_datatype nfix_all]; exact I | apply K; discriminate | exact I].
Qed.

(* CHARACTERS / DATA block *)
Lemma gen_chars : guard_tests_eof L_chars = true /\ guard_tests_none L_chars = true
                  /\ uniform_prim L_chars = FNextTokenUcase.
Proof. repeat split; vm_compute; reflexivity. Qed.

Lemma chars_loop_tot : forall f tok st bt lt, sok st -> (W st + 3 <= F)%nat -> lbudget f tok st ->
  tot (chars_loop upper lower dval sym_ok fx F f tok st bt lt) (fun st' => le st st').
Proof.
  destruct gen_chars as [G1 [G2 G3]].
  induction f as [|f IH]; intros tok st bt lt S HF Hf; [destruct Hf as [Hf|[_ Hf]]; lia|].
  cbn [chars_loop].
  destruct (negb (is_end tok) && guard_extra L_chars tok st) eqn:GD; [|cbn [tot]; apply le_refl; exact S].
  destruct Hf as [Hf | [HX _]].
  2:{ rewrite (guard_exit _ _ _ G1 G2 HX) in GD. rewrite andb_false_r in GD. discriminate. }
  rewrite G3. cbn [fetch].
  eapply tot_bind; [apply ucase_tot; apply next_token_tot; exact S|].
  intros [tok1 st1] H1. cbn [fst snd].
  destruct H1 as [[S1 [L1 _]] | [S1 [L1 [L0 [TN E1]]]]]; cbn [fst snd] in *.
  2:{ subst tok1. cbn [tok_is].
      eapply tot_impl; [apply IH; [exact S1 | lia | right; split; [left; reflexivity | lia]]|].
      intros st2 [S2 L2]. split; [exact S2 | lia]. }
  assert (K : forall s2 b l, le st1 s2 ->
     tot (chars_loop upper lower dval sym_ok fx F f tok1 s2 b l) (fun st' => le st st')).
  { intros s2 b l [S2 L2]. eapply tot_impl; [apply IH; [exact S2 | lia | left; lia]|].
    intros st3 [S3 L3]. split; [exact S3 | lia]. }
  destruct (tok_is tok1 "TITLE").
  { eapply tot_bind; [apply parse_title_tot; exact S1|].
    intros [ti st2] [S2 L2]. cbn [fst snd] in *. apply K. split; [exact S2 | lia]. }
  destruct (tok_is tok1 "LINK").
  { eapply tot_bind; [apply parse_link_tot; [exact S1 | lia]|].
    intros [[lta ltc] st2] X. cbn [fst snd] in *. apply K. exact X. }
  destruct (tok_is tok1 "DIMENSIONS").
  { eapply tot_bind; [apply parse_dimensions_tot; [exact S1 | lia]|]. intros st2 X. apply K. exact X. }
  destruct (tok_is tok1 "FORMAT").
  { eapply tot_bind; [apply parse_format_tot; [exact S1 | lia]|]. intros st2 X. apply K. exact X. }
  destruct (tok_is tok1 "MATRIX").
  { eapply tot_bind; [apply parse_matrix_tot; [exact S1 | lia]|]. intros st2 X. apply K. exact X. }
  destruct (tok_is tok1 "BEGIN"); [reflexivity|].
  apply K. apply le_refl. exact S1.
Qed.

Lemma parse_characters_block_tot tok st : sok st -> (W st + 3 <= F)%nat ->
  tot (parse_characters_block upper lower dval sym_ok fx F tok st) (fun st' => le st st').
Proof.
  intros S HF. unfold parse_characters_block.
  eapply tot_bind; [apply skip_to_semicolon_tot; [exact S | lia]|].
  intros st1 [S1 L1].
  match goal with |- context [upd_dtype st1 ?d] => set (st1' := upd_dtype st1 d) end.
  assert (S1' : sok st1') by exact S1. assert (W st1' = W st1) by reflexivity.
  eapply tot_bind; [apply chars_loop_tot; [exact S1' | lia | left; lia]|].
  intros st2 [S2 L2].
  eapply tot_impl; [apply skip_to_semicolon_tot; [exact S2 | lia]|].
  intros st3 [S3 L3]. split; [exact S3 | lia].
Qed.

(* the block dispatch loop *)
Lemma gen_scan : guard_tests_eof L_scan_begin = true /\ guard_tests_none L_scan_begin = true
                 /\ uniform_prim L_scan_begin = FNextTokenUcase.
Proof. repeat split; vm_compute; reflexivity. Qed.

Lemma scan_begin_loop_tot : forall f tok st, sok st -> lbudget f tok st ->
  tot (scan_begin_loop upper f tok st) (fun p => le st (snd p) /\ (tok = None -> snd p = st)).
Proof.
  destruct gen_scan as [G1 [G2 G3]].
  induction f as [|f IH]; intros tok st S Hf; [destruct Hf as [Hf|[_ Hf]]; lia|].
  cbn [scan_begin_loop].
  destruct (negb (tok_is tok "BEGIN") && guard_extra L_scan_begin tok st) eqn:GD.
  2:{ cbn [tot snd]. split; [apply le_refl; exact S | reflexivity]. }
  assert (TN : tok <> None).
  { intro; subst tok. rewrite (guard_exit _ _ _ G1 G2 (or_introl eq_refl)) in GD. rewrite andb_false_r in GD. discriminate. }
  destruct Hf as [Hf | [HX _]].
  2:{ rewrite (guard_exit _ _ _ G1 G2 HX) in GD. rewrite andb_false_r in GD. discriminate. }
  rewrite G3. cbn [fetch].
  eapply tot_bind; [apply ucase_tot; apply next_token_tot; exact S|].
  intros [tok1 st1] H1. cbn [fst snd].
  destruct H1 as [[S1 [L1 _]] | [S1 [L1 [L0 [T1 E1]]]]]; cbn [fst snd] in *.
  - eapply tot_impl; [apply IH; [exact S1 | left; lia]|].
    intros [t2 st2] [[S2 L2] _]. cbn [snd] in *. split; [split; [exact S2 | lia] | congruence].
  - eapply tot_impl; [apply IH; [exact S1 | right; split; [left; exact T1 | lia]]|].
    intros [t2 st2] [[S2 L2] _]. cbn [snd] in *. split; [split; [exact S2 | lia] | congruence].
Qed.

Lemma gen_outer : guard_tests_eof L_outer = true /\ guard_tests_none L_outer = false.
Proof. split; vm_compute; reflexivity. Qed.

Lemma outer_loop_tot : forall f st, sok st -> (2 * W st + 5 <= F)%nat -> pbudget f st ->
  tot (outer_loop upper lower dval sym_ok is_float fx F f st) (fun _ => True).
Proof.
  destruct gen_outer as [G1 G2].
  induction f as [|f IH]; intros st S HF Hf; [destruct Hf as [Hf|[_ Hf]]; lia|].
  cbn [outer_loop]. unfold guard_extra. rewrite G1, G2.
  destruct (negb (n_eof st) && true) eqn:GD; [|exact I].
  destruct Hf as [Hf | [HE _]]; [|rewrite HE in GD; discriminate].
  eapply tot_bind; [apply ucase_tot; apply next_token_tot; exact S|].
  intros [tok1 st1] H1. cbn [fst snd].
  destruct H1 as [[S1 [L1 _]] | [S1 [L1 [L0 [T1 E1]]]]]; cbn [fst snd] in *.
  - (* a token was consumed: everything after is no heavier *)
    eapply tot_bind; [apply scan_begin_loop_tot; [exact S1 | left; lia]|].
    intros [tok2 st2] [[S2 L2] _]. cbn [fst snd] in *.
    eapply tot_bind; [apply ucase_tot; apply next_token_tot; exact S2|].
    intros [tok st3] H3. pose proof (got_or_ended_le _ _ H3) as [S3 L3]. cbn [fst snd] in *.
    match goal with |- tot (nbind ?r _) _ => assert (R : tot r (fun st4 => le st3 st4)) end.
    { destruct (tok_is tok "TAXA"); [apply parse_taxa_block_tot; [exact S3 | lia]|].
      destruct (tok_is tok "CHARACTERS" || tok_is tok "DATA"); [apply parse_characters_block_tot; [exact S3 | lia]|].
      destruct (tok_is tok "TREES"); [apply parse_trees_block_tot; [exact S3 | lia]|].
      destruct (tok_is tok "SETS" || tok_is tok "ASSUMPTIONS" || tok_is tok "CODONS"); [apply parse_sets_block_tot; [exact S3 | lia]|].
      destruct (tok_is tok "BEGIN"); [reflexivity|].
      eapply tot_bind; [apply consume_to_end_of_block_tot; [exact S3 | lia]|].
      intros [t4 st4] [X _]. cbn [tot snd] in *. exact X. }
    eapply tot_bind; [exact R|].
    intros st4 [S4 L4]. apply IH; [exact S4 | lia | left; lia].
  - (* end of stream: nothing is consumed any more, is_eof() stays true, the loop is left *)
    subst tok1.
    eapply tot_bind; [apply scan_begin_loop_tot; [exact S1 | right; split; [left; reflexivity | lia]]|].
    intros [tok2 st2] [_ EQ]. cbn [fst snd] in *. specialize (EQ eq_refl). subst st2.
    eapply tot_bind; [apply ucase_tot; apply next_token_tot; exact S1|].
    intros [tok st3] H3. cbn [fst snd].
    destruct H3 as [[_ [L3 _]] | [S3 [L3 [_ [T3 E3]]]]]; cbn [fst snd] in *; [lia|].
    subst tok. cbn [tok_is orb].
    eapply tot_bind with (P := fun st4 => st4 = st3).
    { eapply tot_bind; [apply consume_to_end_of_block_tot; [exact S3 | lia]|].
      intros [t4 st4] [_ EQ]. cbn [tot snd] in *. apply EQ. exact E3. }
    intros st4 EQ. subst st4. apply IH; [exact S3 | lia | right; split; [exact E3 | lia]].
Qed.

End Tot.

(* ---- the tokens of a text never outweigh the text ---- *)
Section TokW.
Variable cfg : tok_cfg.

Lemma quoted_loop_weight q : forall n s d rest, (length s <= n)%nat ->
  quoted_loop cfg q s = Some (d, rest) -> (length d + length rest <= length s)%nat.
Proof.
  induction n as [|n IH]; intros s d rest Hn H.
  - destruct s; [discriminate | simpl in Hn; lia].
  - destruct s as [|c r]; [discriminate|]. simpl in H, Hn.
    destruct (c =? q).
    + destruct (tc_double cfg).
      * destruct r as [|c2 r2]; [inversion H; subst; simpl; lia|].
        destruct (c2 =? q).
        -- destruct (quoted_loop cfg q r2) as [[d' rest']|] eqn:E; [|discriminate].
           inversion H; subst. apply IH in E; simpl in *; lia.
        -- inversion H; subst. simpl. lia.
      * inversion H; subst. destruct r; simpl; lia.
    + destruct (quoted_loop cfg q r) as [[d' rest']|] eqn:E; [|discriminate].
      inversion H; subst. apply IH in E; simpl in *; lia.
Qed.

Lemma next_tok_weight : forall n s t q cs rest, next_tok cfg n s = TTok t q cs rest ->
  (Nat.max 1 (length t) + length rest <= length s)%nat.
Proof.
  induction n as [|n IH]; intros s t q cs rest H; [discriminate|]. cbn [next_tok] in H.
  pose proof (skip_ws_len cfg s) as Hs.
  destruct (skip_ws cfg s) as [|c r] eqn:Es; [discriminate|].
  pose proof (skip_ws_head cfg _ _ _ Es) as Hu.
  destruct (zmem c (tc_captured cfg)) eqn:Hc.
  { inversion H; subst. cbn [length] in *. lia. }
  destruct (zmem c (tc_quotes cfg)).
  { destruct (quoted_loop cfg c r) as [[d rest']|] eqn:Eq; [|discriminate].
    inversion H; subst. apply (quoted_loop_weight c (length r)) in Eq; [cbn [length] in *; lia | lia]. }
  destruct (unquoted_loop cfg (S (length (c :: r))) (c :: r)) as [[[d cs'] rest']|] eqn:E; [|discriminate].
  destruct d as [|d0 d].
  - destruct rest' as [|x rest']; [discriminate|].
    pose proof (unquoted_loop_empty_progress cfg _ _ _ _ _ Hu Hc E) as P.
    destruct (next_tok cfg n (x :: rest')) eqn:En; try discriminate.
    inversion H; subst. apply IH in En. cbn [length] in *. lia.
  - inversion H; subst. apply unquoted_loop_len in E. cbn [length] in *. lia.
Qed.

Lemma tokenize_fuel_weight : forall n s, (wsum (fst (tokenize_fuel cfg n s)) <= length s)%nat.
Proof.
  induction n as [|n IH]; intros s; [simpl; lia|]. simpl.
  destruct (Tokenizer.next_token cfg s) as [cs|e| |t q cs rest] eqn:E; simpl; try lia.
  unfold Tokenizer.next_token in E. apply next_tok_weight in E.
  specialize (IH rest). destruct (tokenize_fuel cfg n rest) as [l e]. cbn [fst snd] in *.
  change (wsum (mkTok t q cs (is_nil rest) :: l)) with (wt (mkTok t q cs (is_nil rest)) + wsum l)%nat.
  unfold wt. cbn [t_text]. lia.
Qed.

Lemma tokenize_weight s : (wsum (fst (tokenize cfg s)) <= length s)%nat.
Proof. apply tokenize_fuel_weight. Qed.

End TokW.

(* ---- the theorem ---- *)
Lemma parse_nexus_stream_tot upper lower dval sym_ok is_float F (toks : list token * tend) :
  snd toks <> EndFuel -> (forall e, snd toks = EndErr e -> e = ParseErr) ->
  (2 * wsum (fst toks) + 8 <= F)%nat ->
  tot (parse_nexus_stream upper lower dval sym_ok is_float nfix_all F toks) (fun _ => True).
Proof.
  intros E1 E2 HF. unfold parse_nexus_stream.
  set (st0 := init_nstate lower toks).
  assert (S0 : sok st0) by (unfold sok, st0, init_nstate, init_pstate; simpl; split; assumption).
  assert (W0 : W st0 = wsum (fst toks)) by reflexivity.
  eapply tot_bind; [apply next_token_tot; exact S0|].
  intros [t st1] H1. pose proof (got_or_ended_le _ _ H1) as [S1 L1]. cbn [fst snd] in *.
  destruct t as [t|]; [|reflexivity].
  match goal with |- tot (if ?c then _ else _) _ => destruct c end; [reflexivity|].
  apply outer_loop_tot; [exact S1 | lia | left; lia].
Qed.

Lemma nexus_skeleton_total_l upper lower dval sym_ok is_float (text : str) :
  match nexus_read upper lower dval sym_ok is_float nfix_all text with
  | ROk _ => True
  | RErr e => e = ParseErr
  | RFuel => False
  | RUnm => True
  end.
Proof.
  unfold nexus_read.
  pose proof (tokenize_total (nexus_cfg false) text) as T1.
  pose proof (tokenize_err (nexus_cfg false) text) as T2.
  pose proof (tokenize_weight (nexus_cfg false) text) as T3.
  apply parse_nexus_stream_tot; [exact T1 | exact T2 | unfold nexus_fuel; lia].
Qed.
