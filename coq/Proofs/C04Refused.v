(* C04, wave 8: a call the library REFUSES (documented error, caught by the caller) between distance calls.
   The harness reports it to the model like every structural edit made outside the model: as the structure
   (tree from the seed, rooting flag, detached edges) it leaves and whether it reset the caches (OpEdit).
   Clause "a refused operation changes nothing": what is reported is what the tree already was.  Then the
   step is the identity on the world, so every later encode / distance call computes what it would have
   computed without the refused call (cached encodings included). *)
From Coq Require Import ZArith List Bool.
From DV Require Import Model.PyPrims Model.Tree Model.C04Model.
Import ListNotations.
Open Scope Z_scope.

Lemma list_set_same {A} (l : list A) : forall n x, nth_error l n = Some x -> list_set l n x = l.
Proof.
  induction l as [|y r IH]; intros [|n] x H; cbn in *; try discriminate.
  - injection H as ->. reflexivity.
  - rewrite (IH n x H). reflexivity.
Qed.

Definition unchanged_edit (a : nat) (st : tstate) : op :=
  OpEdit a (ts_tree st) (ts_rooted st) (ts_det st) false false.

Lemma refused_edit_frame_l mg p w a st :
  get_t w a = Ok st -> step mg p w (unchanged_edit a st) = (OUnit, w).
Proof.
  intros G. unfold unchanged_edit. cbn [step]. rewrite G.
  unfold get_t in G. destruct (nth_error (w_trees w) a) as [st'|] eqn:E; [|discriminate]. injection G as ->.
  f_equal. destruct w as [acc ts]. unfold set_t. cbn [w_acc w_trees] in *. f_equal.
  destruct st as [ns t r det eb fr en bm]. cbn [ts_ns ts_tree ts_rooted ts_det ts_ebip ts_frozen ts_enc ts_bmap].
  apply list_set_same. exact E.
Qed.

(* every later result is the one of the history without the refused call *)
Lemma refused_edit_later_results_l mg p w a st ops :
  get_t w a = Ok st ->
  run_show mg p w (unchanged_edit a st :: ops) = (OUnit, map ts_struct (w_trees w)) :: run_show mg p w ops.
Proof. intros G. cbn [run_show]. rewrite (refused_edit_frame_l mg p w a st G). reflexivity. Qed.

Lemma refused_edit_run_ok_l mg p w a st ops ex ch :
  get_t w a = Ok st ->
  run_ok mg p w (unchanged_edit a st :: ops) ((OUnit, ch) :: ex) = run_ok mg p w ops ex.
Proof.
  intros G. cbn [run_ok]. rewrite (refused_edit_frame_l mg p w a st G). cbn [out_eqb is_edit unchanged_edit andb]. reflexivity.
Qed.

(* satisfiable: a world with a cached encoding; the refused-call step keeps it and the distance after it is the
   distance before it *)
Definition rf_tree : tree :=
  T 0 None None None [T 1 None None (Some 2048) [T 2 (Some 0) None (Some 1024) []; T 3 (Some 1) None (Some 1024) []];
                      T 4 None None (Some 3072) [T 5 (Some 2) None (Some 1024) []; T 6 (Some 3) None (Some 1024) []]].
Definition rf_world : world := mkW [(0, 0); (1, 1); (2, 2); (3, 3)] [fresh 0 (rf_tree, Some false); fresh 0 (rf_tree, Some false)].

Lemma refused_example :
  exists w1 st d, snd (step true ZeroBoth rf_world (OpWRF 0 1 false)) = w1 /\ get_t w1 0 = Ok st /\
                  ts_enc st <> None /\
                  fst (step true ZeroBoth w1 (OpWRF 0 1 true)) = d /\
                  run_show true ZeroBoth w1 [unchanged_edit 0 st; OpWRF 0 1 true] =
                  [(OUnit, map ts_struct (w_trees w1)); (d, map ts_struct (w_trees w1))] /\ d = OInt 0.
Proof. eexists. eexists. eexists. vm_compute. repeat split. discriminate. Qed.
