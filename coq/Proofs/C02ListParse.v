(* C02 (tree lists): the Newick reader on the token rendering of a tree, for an ARBITRARY state of
   the taxon symbol mapper.  The mapper is threaded opaquely (expectM); what it does on a shared
   namespace is settled in Proofs/C02ListMap.v. *)
From Coq Require Import ZArith List Bool Lia Arith.
From DV Require Import Model.PyPrims Gen.CharClasses Model.Tokenizer Model.Newick Model.C02Spec
     Proofs.C02Tok Proofs.C02Escape Proofs.C02Lex Proofs.C02Parse.
Import ListNotations.
Open Scope Z_scope.

Section ListParse.
Variable L : Type.
Variable render_len : L -> str.
Variable parse_len : str -> option L.
Variable lower : str -> str.
Hypothesis len_roundtrip : forall x, parse_len (render_len x) = Some x.
Variable o : rt_opts.

Notation ro := (rt_ropts o).

Notation ntree := (ntree L).
Notation ptree := (ptree L).
Notation wtoks := (wtoks L render_len o).
Notation body_toks := (body_toks L render_len o).
Notation wf := (wf_tree L o).
Notation own_taxa := (own_taxa L o).
Notation exp_label := (exp_label L o).
Notation label_loop := (label_loop L parse_len lower ro).
Notation parse_node := (parse_node L parse_len lower ro).
Notation children_loop := (children_loop L parse_len lower ro).
Notation HKt := (HKt L parse_len lower o).
Notation need := (need L).
Notation nsize := (nsize L).
Notation nsizes := (nsizes L).
Notation paren := (paren L).
Notation is_leafb := (is_leafb L).

Definition smap := (list nat * mapper)%type.

(* one taxon lookup: lookup_taxon_symbol + the _seen_taxa bookkeeping *)
Definition tstepM (sm : smap) (l : str) : nat * smap :=
  let '(i, m') := require_taxon_for_symbol lower (snd sm) l in (i, (i :: fst sm, m')).

(* the node itself, after its children *)
Definition bodyM (t : ntree) (sm : smap) : pnode L * smap :=
  match own_taxa t with
  | l :: _ => let '(i, sm2) := tstepM sm l in (mkPnode L (Some i) (exp_label t) (n_len L t) [], sm2)
  | [] => (mkPnode L None (exp_label t) (n_len L t) [], sm)
  end.

(* NewickReaderDuplicateTaxonError does not fire *)
Definition body_ok (t : ntree) (sm : smap) : bool :=
  match own_taxa t with
  | l :: _ => negb (existsb (Nat.eqb (fst (require_taxon_for_symbol lower (snd sm) l))) (fst sm))
  | [] => true
  end.

Fixpoint expectM (t : ntree) (sm : smap) : ptree * smap :=
  match t with
  | Nd tx lb ln ks =>
    let '(pks, sm1) :=
        (fix go (ks : list ntree) (sm : smap) : list ptree * smap :=
           match ks with
           | [] => ([], sm)
           | k :: r => let '(p, s1) := expectM k sm in let '(ps, s2) := go r s1 in (p :: ps, s2)
           end) ks sm in
    let '(nd, sm2) := bodyM t sm1 in (finish L nd pks, sm2)
  end.

Fixpoint expectM_list (ks : list ntree) (sm : smap) : list ptree * smap :=
  match ks with
  | [] => ([], sm)
  | k :: r => let '(p, s1) := expectM k sm in let '(ps, s2) := expectM_list r s1 in (p :: ps, s2)
  end.

Lemma expectM_unfold tx lb ln ks sm :
  expectM (Nd tx lb ln ks) sm =
  let '(pks, sm1) := expectM_list ks sm in
  let '(nd, sm2) := bodyM (Nd tx lb ln ks) sm1 in (finish L nd pks, sm2).
Proof.
  cbn [expectM].
  assert (E : forall ks sm,
    (fix go (ks : list ntree) (sm : smap) : list ptree * smap :=
       match ks with
       | [] => ([], sm)
       | k :: r => let '(p, s1) := expectM k sm in let '(ps, s2) := go r s1 in (p :: ps, s2)
       end) ks sm = expectM_list ks sm).
  { clear. induction ks as [|k r IH]; intro sm; [reflexivity|]. cbn [expectM_list].
    destruct (expectM k sm) as [p s1]. rewrite IH. reflexivity. }
  rewrite E. reflexivity.
Qed.

Fixpoint noclashM (t : ntree) (sm : smap) : bool :=
  match t with
  | Nd tx lb ln ks =>
    (fix go (ks : list ntree) (sm : smap) : bool :=
       match ks with
       | [] => true
       | k :: r => noclashM k sm && go r (snd (expectM k sm))
       end) ks sm
    && body_ok t (snd (expectM_list ks sm))
  end.

Fixpoint noclashM_list (ks : list ntree) (sm : smap) : bool :=
  match ks with
  | [] => true
  | k :: r => noclashM k sm && noclashM_list r (snd (expectM k sm))
  end.

Lemma noclashM_unfold tx lb ln ks sm :
  noclashM (Nd tx lb ln ks) sm =
  noclashM_list ks sm && body_ok (Nd tx lb ln ks) (snd (expectM_list ks sm)).
Proof.
  cbn [noclashM].
  assert (E : forall ks sm,
    (fix go (ks : list ntree) (sm : smap) : bool :=
       match ks with
       | [] => true
       | k :: r => noclashM k sm && go r (snd (expectM k sm))
       end) ks sm = noclashM_list ks sm).
  { clear. induction ks as [|k r IH]; intro sm; [reflexivity|]. cbn [noclashM_list]. rewrite IH. reflexivity. }
  rewrite E. reflexivity.
Qed.

(* a label token that becomes the node's taxon, whatever the mapper answers *)
Lemma ll_taxonM f l s q rest e n b seen m isint ln0 i m' : not_struct l ->
  (isint && negb (rt_it o))%bool = false ->
  require_taxon_for_symbol lower m l = (i, m') ->
  existsb (Nat.eqb i) seen = false ->
  label_loop (S f) (St l (T s q :: rest) e n b seen m) isint false (mkPnode L None None ln0 [])
  = label_loop f (St s rest e n b (i :: seen) m') isint true (mkPnode L (Some i) None ln0 []).
Proof.
  intros Hns Hi Hreq Hseen. cbn [Newick.label_loop]. rewrite pull_St.
  rewrite !(cur_is_not_struct l _ e n b seen m _ Hns) by (simpl; tauto).
  cbv iota.
  change (ro_suppress_internal_node_taxa ro) with (negb (rt_it o)).
  change (ro_suppress_leaf_node_taxa ro) with false.
  rewrite Hi. rewrite andb_false_r. cbn [orb].
  change (cur_text (St l (T s q :: rest) e n b seen m)) with l.
  change (ps_map (St l (T s q :: rest) e n b seen m)) with m.
  change (ps_seen (St l (T s q :: rest) e n b seen m)) with seen.
  rewrite Hreq. rewrite Hseen. cbn [bind].
  change (set_seen_map (St l (T s q :: rest) e n b seen m) (i :: seen) m')
    with (St l (T s q :: rest) e n b (i :: seen) m').
  rewrite advance_T. reflexivity.
Qed.

Lemma own_taxa_shape t : own_taxa t = [] \/ exists l, own_taxa t = [l].
Proof. apply own_taxa_cases. Qed.

Lemma ll_bodyM tx lb ln ks F ftxt fq rest e n seen m K :
  (3 <= F)%nat ->
  (match tag_of L o (Nd tx lb ln ks) with Some l => label_ok o l | None => true end) = true ->
  (if is_nil ks then true else if rt_it o then is_none lb else is_none tx) = true ->
  body_ok (Nd tx lb ln ks) (seen, m) = true ->
  HKt ftxt rest e n K ->
  label_loop F (ST (body_toks (Nd tx lb ln ks) ++ T ftxt fq :: rest) e n false seen m)
             (negb (is_nil ks)) false (mkPnode L None None None [])
  = Ok (fst (bodyM (Nd tx lb ln ks) (seen, m)),
        K (fst (snd (bodyM (Nd tx lb ln ks) (seen, m)))) (snd (snd (bodyM (Nd tx lb ln ks) (seen, m))))).
Proof.
  intros HF Hl Hs Hok HK.
  destruct F as [|[|[|F]]]; try lia.
  assert (TAIL : forall isint lp txo lbo seen2 m2 f, (2 <= f)%nat ->
     label_loop f (ST ((match ln with Some x => [T [COLON] false; T (render_len x) false] | None => [] end)
                       ++ T ftxt fq :: rest) e n false seen2 m2) isint lp (mkPnode L txo lbo None [])
     = Ok (mkPnode L txo lbo ln [], K seen2 m2)).
  { intros isint lp txo lbo seen2 m2 f Hf. destruct f as [|[|f]]; try lia.
    destruct ln as [x|].
    - simpl app. cbn [ST t_text T]. rewrite (ll_len L render_len parse_len lower len_roundtrip). apply HK. lia.
    - simpl app. cbn [ST t_text T]. apply HK. lia. }
  unfold C02Lex.body_toks, tag_toks. cbn [n_len]. rewrite <- app_assoc.
  unfold bodyM, body_ok, tstepM in *. cbn [n_len fst snd] in *.
  unfold C02Parse.own_taxa, C02Parse.exp_label, tag_is_taxon, tag_of in *.
  destruct (is_nil ks) eqn:Ek; cbn [negb orb] in *.
  - destruct tx as [l|].
    + simpl app. cbn [ST t_text T].
      destruct (match ln with Some x => [T [COLON] false; T (render_len x) false] | None => [] end ++ T ftxt fq :: rest)
        as [|[s q cm ef] tl] eqn:Etl; [destruct ln; discriminate|].
      assert (Esh : cm = [] /\ ef = false) by (destruct ln; inversion Etl; auto). destruct Esh; subst cm ef.
      change (mkTok s q [] false) with (T s q) in *.
      destruct (require_taxon_for_symbol lower m l) as [i m'] eqn:Er. cbn [fst snd] in *.
      apply negb_true_iff in Hok.
      rewrite (ll_taxonM _ l s q tl e n false seen m false None i m'); [| apply (label_ok_not_struct o); exact Hl | reflexivity | exact Er | exact Hok].
      change (St s tl e n false (i :: seen) m') with (ST (T s q :: tl) e n false (i :: seen) m').
      rewrite TAIL by lia. reflexivity.
    + simpl app. rewrite TAIL by lia. reflexivity.
  - destruct (rt_it o) eqn:Eit.
    + destruct lb; [discriminate|]. destruct tx as [l|].
      * simpl app. cbn [ST t_text T].
        destruct (match ln with Some x => [T [COLON] false; T (render_len x) false] | None => [] end ++ T ftxt fq :: rest)
          as [|[s q cm ef] tl] eqn:Etl; [destruct ln; discriminate|].
        assert (Esh : cm = [] /\ ef = false) by (destruct ln; inversion Etl; auto). destruct Esh; subst cm ef.
        change (mkTok s q [] false) with (T s q) in *.
        destruct (require_taxon_for_symbol lower m l) as [i m'] eqn:Er. cbn [fst snd] in *.
        apply negb_true_iff in Hok.
        rewrite (ll_taxonM _ l s q tl e n false seen m true None i m'); [| apply (label_ok_not_struct o); exact Hl | rewrite Eit; reflexivity | exact Er | exact Hok].
        change (St s tl e n false (i :: seen) m') with (ST (T s q :: tl) e n false (i :: seen) m').
        rewrite TAIL by lia. reflexivity.
      * simpl app. rewrite TAIL by lia. reflexivity.
    + destruct tx; [discriminate|]. destruct lb as [l|].
      * simpl app. cbn [ST t_text T].
        destruct (match ln with Some x => [T [COLON] false; T (render_len x) false] | None => [] end ++ T ftxt fq :: rest)
          as [|[s q cm ef] tl] eqn:Etl; [destruct ln; discriminate|].
        assert (Esh : cm = [] /\ ef = false) by (destruct ln; inversion Etl; auto). destruct Esh; subst cm ef.
        change (mkTok s q [] false) with (T s q) in *.
        rewrite (ll_label L parse_len lower o); [| apply (label_ok_not_struct o); exact Hl | rewrite Eit; reflexivity].
        change (St s tl e n false seen m) with (ST (T s q :: tl) e n false seen m).
        rewrite TAIL by lia. reflexivity.
      * simpl app. rewrite TAIL by lia. reflexivity.
Qed.

(* ---- parse_node on a subtree, mapper threaded ---- *)
Definition PnodeM (t : ntree) : Prop :=
  forall f ftxt fq rest e n b seen m io K,
    wf t = true -> (need t <= f)%nat ->
    noclashM t (seen, m) = true ->
    (io = None \/ io = Some (negb (is_leafb t))) ->
    HKt ftxt rest e n K ->
    parse_node f (ST (wtoks true t ++ T ftxt fq :: rest) e (n + paren t) b seen m) io []
    = Ok (fst (expectM t (seen, m)),
          K (fst (snd (expectM t (seen, m)))) (snd (snd (expectM t (seen, m))))).

Lemma child_stepM k tl f e n b seen m created count0 acc c rest :
  PnodeM k -> wf k = true -> (need k <= f)%nat ->
  noclashM k (seen, m) = true ->
  tl = T [c] false :: rest -> (c = COMMA \/ c = RPAREN) ->
  children_loop (S f) (ST (wtoks true k ++ tl) e n b seen m) created count0 acc
  = children_loop f (St [c] rest e n false (fst (snd (expectM k (seen, m)))) (snd (snd (expectM k (seen, m)))))
                  true false (acc ++ [fst (expectM k (seen, m))]).
Proof.
  intros HP Hwf Hf Hnc Etl Hc. subst tl.
  destruct (wtoks_head L render_len lower o k Hwf) as [s [q [rest' [Ew Hcur]]]].
  pose proof (HP f [c] false rest e n b seen m (Some (negb (is_leafb k)))
                 (fun seen m => St [c] rest e n false seen m) Hwf Hf Hnc (or_intror eq_refl)
                 (HK_follow L parse_len lower o c rest e n Hc)) as HPk.
  rewrite Ew in *. simpl app in *. cbn [ST t_text T] in *.
  destruct (Hcur e n b seen m (rest' ++ T [c] false :: rest)) as [C1 [C2 [C3 C4]]].
  rewrite (children_loop_S L parse_len lower o). rewrite C1, C2, C4. cbv iota zeta.
  assert (Est : (if negb (is_leafb k)
                 then set_nesting (St s (rest' ++ T [c] false :: rest) e n b seen m)
                        (ps_nesting (St s (rest' ++ T [c] false :: rest) e n b seen m) + 1)
                 else St s (rest' ++ T [c] false :: rest) e n b seen m)
                = St s (rest' ++ T [c] false :: rest) e (n + paren k) b seen m).
  { destruct k as [tx lb ln [|k1 ks]]; simpl; unfold St, set_nesting; simpl; [rewrite Z.add_0_r|]; reflexivity. }
  rewrite Est. rewrite pull_St. rewrite HPk. reflexivity.
Qed.

Lemma children_sepM : forall ks, Forall PnodeM ks ->
  forall F s q rest e n seen m acc,
    forallb wf ks = true -> (4 * nsizes ks + 2 <= F)%nat ->
    noclashM_list ks (seen, m) = true ->
    children_loop F (ST (flat_map (wtoks false) ks ++ T [RPAREN] false :: T s q :: rest) e (n + 1) false seen m)
                  true false acc
    = Ok (acc ++ fst (expectM_list ks (seen, m)),
          St s rest e n false (fst (snd (expectM_list ks (seen, m)))) (snd (snd (expectM_list ks (seen, m))))).
Proof.
  induction ks as [|k ks IH]; intros HPs F s q rest e n seen m acc Hwf HF Hnc.
  - simpl flat_map. simpl app. cbn [ST t_text T]. destruct F as [|F]; [simpl in HF; lia|].
    rewrite (children_loop_S L parse_len lower o).
    change (cur_is (St [RPAREN] (T s q :: rest) e (n + 1) false seen m) COMMA) with false.
    change (cur_is (St [RPAREN] (T s q :: rest) e (n + 1) false seen m) RPAREN) with true.
    cbv iota. unfold set_nesting, St. cbn [ps_cur ps_eof ps_comments ps_toks ps_end ps_nesting ps_complete ps_seen ps_map].
    replace (n + 1 - 1) with n by lia.
    change (require_next (mkPS (Some [RPAREN]) false [] (T s q :: rest) e n false seen m))
      with (Ok (St s rest e n false seen m)).
    cbn [bind expectM_list fst snd]. rewrite app_nil_r. reflexivity.
  - pose proof (Forall_inv HPs) as HPk. pose proof (Forall_inv_tail HPs) as HPr. cbv beta in HPk.
    simpl in Hwf. apply andb_true_iff in Hwf. destruct Hwf as [Hk Hr].
    cbn [noclashM_list] in Hnc. apply andb_true_iff in Hnc. destruct Hnc as [Hnk Hnr].
    rewrite (nsizes_cons L) in HF. pose proof (nsize_pos L k) as Hpos.
    cbn [flat_map]. rewrite (wtoks_false L render_len o). rewrite <- !app_assoc. simpl app.
    cbn [ST t_text T].
    destruct F as [|[|F]]; try lia.
    rewrite (children_loop_S L parse_len lower o).
    change (cur_is (St [COMMA] ((wtoks true k ++ flat_map (wtoks false) ks ++ T [RPAREN] false :: T s q :: rest)) e (n + 1) false seen m) COMMA) with true.
    cbv iota.
    destruct (wtoks_head L render_len lower o k Hk) as [s1 [q1 [rest1 [Ew Hcur]]]].
    rewrite Ew. simpl app. rewrite require_next_T. cbn [bind].
    destruct (Hcur e (n + 1) false seen m (rest1 ++ flat_map (wtoks false) ks ++ T [RPAREN] false :: T s q :: rest)) as [C1 [C2 [C3 C4]]].
    rewrite (comma_loop_exit L F _ _ _ _ _ _ _ _ C1). cbn [bind]. rewrite C2, andb_false_r.
    destruct (kids_tail_head L render_len o ks (T s q :: rest)) as [c [rest2 [Etl Hc]]].
    change (St s1 (rest1 ++ flat_map (wtoks false) ks ++ T [RPAREN] false :: T s q :: rest) e (n + 1) false seen m)
      with (ST ((T s1 q1 :: rest1) ++ flat_map (wtoks false) ks ++ T [RPAREN] false :: T s q :: rest) e (n + 1) false seen m).
    rewrite <- Ew.
    rewrite (child_stepM k _ F e (n + 1) false seen m true false acc c rest2 HPk Hk);
      [| unfold C02Parse.need; lia | exact Hnk | exact Etl | exact Hc].
    set (sm1 := snd (expectM k (seen, m))) in *.
    change (St [c] rest2 e (n + 1) false (fst sm1) (snd sm1))
      with (ST (T [c] false :: rest2) e (n + 1) false (fst sm1) (snd sm1)).
    rewrite <- Etl.
    assert (Esm : sm1 = (fst sm1, snd sm1)) by (destruct sm1; reflexivity).
    rewrite Esm in Hnr.
    rewrite (IH HPr F s q rest e n (fst sm1) (snd sm1) _ Hr); [| lia | exact Hnr].
    rewrite <- Esm. cbn [expectM_list]. unfold sm1.
    destruct (expectM k (seen, m)) as [pk s1']. cbn [fst snd].
    destruct (expectM_list ks s1') as [pks s2]. cbn [fst snd].
    rewrite <- app_assoc. reflexivity.
Qed.

Lemma PnodeM_all : forall t, PnodeM t.
Proof.
  induction t as [tx lb ln ks IH] using ntree_ind'.
  intros f ftxt fq rest e n b seen m io K Hwf Hf Hnc Hio HK.
  pose proof (wf_unfold L o _ _ _ _ Hwf) as [Hl [_ Hk]]. pose proof (wf_shape L o _ _ _ _ Hwf) as Hs.
  unfold C02Parse.need in Hf. rewrite (nsize_eq L) in Hf. destruct f as [|f]; [lia|].
  rewrite noclashM_unfold in Hnc. apply andb_true_iff in Hnc. destruct Hnc as [Hncl Hbok].
  rewrite expectM_unfold.
  destruct ks as [|k ks].
  - (* leaf *)
    cbn [C02Lex.wtoks]. simpl app. cbn [C02Parse.paren expectM_list fst snd] in *. rewrite Z.add_0_r.
    destruct (wtoks_head L render_len lower o (Nd tx lb ln []) Hwf) as [s [q [rest' [Ew Hcur]]]].
    cbn [C02Lex.wtoks] in Ew. simpl app in Ew.
    rewrite (parse_node_S L parse_len lower o).
    assert (E1 : pull_comments (ST (body_toks (Nd tx lb ln []) ++ T ftxt fq :: rest) e n b seen m)
                 = ([], ST (body_toks (Nd tx lb ln []) ++ T ftxt fq :: rest) e n b seen m)).
    { rewrite Ew. reflexivity. }
    rewrite E1.
    assert (E2 : cur_is (ST (body_toks (Nd tx lb ln []) ++ T ftxt fq :: rest) e n b seen m) LPAREN = false).
    { rewrite Ew. simpl app. cbn [ST t_text T]. apply Hcur. }
    rewrite E2. cbn [bind].
    assert (E3 : set_complete (ST (body_toks (Nd tx lb ln []) ++ T ftxt fq :: rest) e n b seen m) false
                 = ST (body_toks (Nd tx lb ln []) ++ T ftxt fq :: rest) e n false seen m).
    { rewrite Ew. reflexivity. }
    rewrite E3.
    assert (Eint : match io with Some b0 => b0 | None => negb (is_nil (@nil ptree)) end = negb (is_nil (@nil ntree))).
    { destruct Hio as [E|E]; subst io; reflexivity. }
    rewrite Eint. simpl app.
    rewrite (ll_bodyM tx lb ln [] f ftxt fq rest e n seen m K); [| lia | exact Hl | exact Hs | exact Hbok | exact HK].
    cbn [bind]. destruct (bodyM (Nd tx lb ln []) (seen, m)) as [nd sm2]. reflexivity.
  - (* internal node *)
    pose proof (Forall_inv IH) as IHk. pose proof (Forall_inv_tail IH) as IHks. cbv beta in IHk.
    simpl in Hk. apply andb_true_iff in Hk. destruct Hk as [Hk Hks].
    cbn [noclashM_list] in Hncl. apply andb_true_iff in Hncl. destruct Hncl as [Hnk Hnr].
    cbn [C02Lex.wtoks]. simpl app. cbn [C02Parse.paren ST t_text T].
    rewrite (parse_node_S L parse_len lower o). rewrite pull_St.
    change (cur_is (St [LPAREN] ((wtoks true k ++ flat_map (wtoks false) ks ++ T [RPAREN] false :: body_toks (Nd tx lb ln (k :: ks))) ++ T ftxt fq :: rest) e (n + 1) b seen m) LPAREN) with true.
    cbv iota.
    rewrite <- !app_assoc. simpl app.
    destruct (wtoks_head L render_len lower o k Hk) as [s1 [q1 [rest1 [Ew Hcur]]]].
    assert (Ereq : require_next (St [LPAREN] (wtoks true k ++ flat_map (wtoks false) ks ++ T [RPAREN] false :: body_toks (Nd tx lb ln (k :: ks)) ++ T ftxt fq :: rest) e (n + 1) b seen m)
                   = Ok (ST (wtoks true k ++ flat_map (wtoks false) ks ++ T [RPAREN] false :: body_toks (Nd tx lb ln (k :: ks)) ++ T ftxt fq :: rest) e (n + 1) b seen m)).
    { rewrite Ew. reflexivity. }
    rewrite Ereq. cbn [bind].
    rewrite (nsizes_cons L) in Hf. pose proof (nsize_pos L k) as Hpos.
    destruct f as [|f]; [lia|].
    destruct (body_toks (Nd tx lb ln (k :: ks)) ++ T ftxt fq :: rest) as [|[s2 q2 cm2 ef2] rest2] eqn:Ebody.
    { destruct (body_toks (Nd tx lb ln (k :: ks))); simpl in Ebody; discriminate. }
    assert (Esh : cm2 = [] /\ ef2 = false).
    { unfold C02Lex.body_toks, tag_toks, T in Ebody. cbn [n_len] in Ebody.
      destruct (tag_of L o (Nd tx lb ln (k :: ks))); destruct ln; simpl in Ebody;
        injection Ebody as _ _ A B _; subst; split; reflexivity. }
    destruct Esh; subst cm2 ef2. change (mkTok s2 q2 [] false) with (T s2 q2) in *.
    destruct (kids_tail_head L render_len o ks (T s2 q2 :: rest2)) as [c [rest3 [Etl Hc]]].
    rewrite (child_stepM k _ f e (n + 1) b seen m false true [] c rest3 IHk Hk);
      [| unfold C02Parse.need; lia | exact Hnk | exact Etl | exact Hc].
    set (sm1 := snd (expectM k (seen, m))) in *.
    change (St [c] rest3 e (n + 1) false (fst sm1) (snd sm1))
      with (ST (T [c] false :: rest3) e (n + 1) false (fst sm1) (snd sm1)).
    rewrite <- Etl.
    assert (Esm : sm1 = (fst sm1, snd sm1)) by (destruct sm1; reflexivity).
    rewrite Esm in Hnr.
    rewrite (children_sepM ks IHks f s2 q2 rest2 e n (fst sm1) (snd sm1) _ Hks); [| lia | exact Hnr].
    rewrite <- Esm. cbn [bind].
    cbn [expectM_list] in Hbok |- *. unfold sm1 in *. clear Esm Hnr sm1.
    destruct (expectM k (seen, m)) as [pk s1']. cbn [fst snd] in *.
    destruct (expectM_list ks s1') as [pks s2'] eqn:Eks. cbn [fst snd] in *.
    unfold set_complete, St. cbn [ps_cur ps_eof ps_comments ps_toks ps_end ps_nesting ps_complete ps_seen ps_map].
    change (mkPS (Some s2) false [] rest2 e n false (fst s2') (snd s2'))
      with (ST (T s2 q2 :: rest2) e n false (fst s2') (snd s2')).
    rewrite <- Ebody.
    match goal with |- context [match io with Some b0 => b0 | None => ?x end] =>
      replace (match io with Some b0 => b0 | None => x end) with (negb (is_nil (k :: ks)))
        by (destruct Hio as [E|E]; subst io; reflexivity) end.
    assert (Es2 : s2' = (fst s2', snd s2')) by (destruct s2'; reflexivity).
    rewrite Es2 in Hbok.
    rewrite (ll_bodyM tx lb ln (k :: ks) (S f) ftxt fq rest e n (fst s2') (snd s2') K);
      [| lia | exact Hl | exact Hs | exact Hbok | exact HK].
    rewrite <- Es2. cbn [bind]. simpl app.
    destruct (bodyM (Nd tx lb ln (k :: ks)) s2') as [nd sm2]. reflexivity.
Qed.

End ListParse.
