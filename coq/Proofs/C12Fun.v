(* C12, second wave, fourth pass over the fuel induction: the recorded correspondence is single-valued
   on the source side (except on tuples, which the re-targeting of bound annotations records twice),
   no recorded source is an owned annotation set, and every fresh object has distinct keys. *)
From Coq Require Import ZArith List Bool Lia.
From DV Require Import Model.PyPrims Model.C12Model Proofs.C12Heap Proofs.C12Inv Proofs.C12Copy Proofs.C12Iso Proofs.C12AnnDef Proofs.C12Own2.
Import ListNotations.
Open Scope Z_scope.

Section Fun.
Variable h0 : heap.
Variable seeds : list Z.
Notation n0 := (hlen h0).
Notation Inv := (Inv h0 seeds).
Notation Inv2 := (Inv2 h0).
Notation Loop2 := (Loop2 h0 seeds).
Notation vsrc := (vsrc h0).
Notation vsrc2 := (vsrc2 h0).
Notation U := (U h0).
Notation RecSpecB := (RecSpecB h0 seeds).
Notation owned := (owned h0).

(* lt is the `_taxa` list of a namespace *)
Definition taxalist (lt : Z) : Prop :=
  exists x ob, hget h0 x = Some ob /\ okind ob = KNamespace /\ bget (obody ob) NM_TAXA = Some (R lt).

Definition nt (v : val) : Prop := match v with R a => ~ taxalist a | P _ => True end.

Definition tup (a : Z) : Prop := kind_at h0 a = Some KTuple.

Record Inv4 (s : st) : Prop := mkInv4 {
  k_nodup : forall y ob, n0 <= y -> hget (sh s) y = Some ob -> NoDup (map fst (obody ob));
  k_src : forall a b, In (a, b) (sc s) -> ~ owned a;
  k_dom : forall a b, In (a, b) (sc s) -> alookup a (sm s) <> None \/ tup a;
  k_fun : forall a b b', In (a, b) (sc s) -> In (a, b') (sc s) -> b = b' \/ tup a;
  k_taxa : forall x ob lt b, hget h0 x = Some ob -> okind ob = KNamespace ->
           bget (obody ob) NM_TAXA = Some (R lt) -> In (lt, b) (sc s) -> alookup x (sm s) <> None;
  k_seedmemo : forall x, In x seeds -> alookup x (sm s) <> None;
  k_seed : forall a b, In (a, b) (sc s) -> In a seeds -> tup a \/ taxalist a
}.

(* ---- primitives ------------------------------------------------------------------------------------ *)

Lemma bset_keys_nodup : forall b k v, NoDup (map fst b) -> NoDup (map fst (bset b k v)).
Proof.
  induction b as [|[k0 v0] r IH]; intros k v ND; simpl.
  - constructor; [intros [] | constructor].
  - destruct (val_eqb k k0) eqn:E.
    + apply val_eqb_eq in E. subst k0. exact ND.
    + simpl. inversion ND as [|? ? NI NR]; subst. constructor; [|apply IH; exact NR].
      intro I. apply in_map_iff in I. destruct I as [[k1 v1] [E1 I1]]. simpl in E1. subst k1.
      apply In_bset in I1. destruct I1 as [I1|I1].
      * inversion I1; subst. rewrite val_eqb_refl in E. discriminate.
      * apply NI. apply in_map_iff. exists (k0, v1). split; [reflexivity | exact I1].
Qed.

Lemma inv4_heap : forall s s', Inv4 s -> sc s' = sc s ->
  (forall k, alookup k (sm s) <> None -> alookup k (sm s') <> None) ->
  (forall y ob, n0 <= y -> hget (sh s') y = Some ob -> NoDup (map fst (obody ob))) -> Inv4 s'.
Proof.
  intros s s' [A B C D E F1 F2] SC SM ND. constructor.
  - exact ND.
  - intros a b I. rewrite SC in I. eauto.
  - intros a b I. rewrite SC in I. destruct (C a b I) as [X|X]; [left; apply SM; exact X | right; exact X].
  - intros a b b' I I'. rewrite SC in I, I'. eauto.
  - intros x ob lt b G K BT I. rewrite SC in I. apply SM. eauto.
  - intros x I. apply SM. eauto.
  - intros a b I. rewrite SC in I. eauto.
Qed.

Lemma inv4_put : forall s y k v, Inv4 s -> Inv4 (put s y k v).
Proof.
  intros s y k v K. apply (inv4_heap s); [exact K | apply put_sc | rewrite put_sm; auto |].
  intros o ob Ho G. apply put_get_inv in G. destruct G as [[_ G]|[E [ob0 [G0 EO]]]].
  - exact (k_nodup _ K o ob Ho G).
  - subst ob. simpl. apply bset_keys_nodup. subst o. exact (k_nodup _ K _ _ Ho G0).
Qed.

Lemma inv4_alloc : forall s ob, Inv4 s -> NoDup (map fst (obody ob)) -> Inv4 (fst (alloc s ob)).
Proof.
  intros s ob K ND. apply (inv4_heap s); [exact K | reflexivity | auto |].
  intros o ob' Ho G. simpl in G. destruct (Z_lt_dec o (hlen (sh s))) as [L|L].
  - rewrite hget_app_old in G by exact L. exact (k_nodup _ K o ob' Ho G).
  - assert (R0 := hget_Some_range _ _ _ G). rewrite hlen_app1 in R0. assert (o = hlen (sh s)) by lia. subst o.
    rewrite hget_app_new in G. inversion G; subst. exact ND.
Qed.

Lemma alookup_cons_mono : forall a b k l, alookup k l <> None -> alookup k ((a, b) :: l) <> None.
Proof. intros a b k l H. rewrite alookup_cons. destruct (Z.eqb k a); [discriminate | exact H]. Qed.

Lemma inv4_memo_set : forall s a b, Inv4 s -> Inv4 (memo_set s a b).
Proof.
  intros s a b K. apply (inv4_heap s); [exact K | reflexivity | | exact (k_nodup _ K)].
  intros k H. simpl. apply alookup_cons_mono. exact H.
Qed.

Lemma inv4_set_none : forall s, Inv4 s -> Inv4 (set_none s).
Proof. intros s K. apply (inv4_heap s); [exact K | reflexivity | auto | exact (k_nodup _ K)]. Qed.

Lemma inv4_memo_val : forall s v v', Inv4 s -> Inv4 (memo_val s v v').
Proof.
  intros s [p|a] [q|b] K; simpl; try exact K; try (destruct p; try exact K; apply inv4_set_none; exact K).
  apply inv4_memo_set. exact K.
Qed.

(* recording a pair *)
Lemma inv4_note : forall s a b, Inv4 s -> ~ owned a ->
  (forall x ob, hget h0 x = Some ob -> okind ob = KNamespace -> bget (obody ob) NM_TAXA = Some (R a) ->
     alookup x (sm s) <> None) ->
  (alookup a (sm s) <> None \/ tup a) -> ((forall b', ~ In (a, b') (sc s)) \/ tup a) ->
  (In a seeds -> tup a \/ taxalist a) -> Inv4 (note s a b).
Proof.
  intros s a b [A B C D E F1 F2] NO NT DOM FUN SEED. constructor; simpl.
  - exact A.
  - intros a1 b1 [I|I]; [inversion I; subst; exact NO | eauto].
  - intros a1 b1 [I|I]; [inversion I; subst; exact DOM | eauto].
  - intros a1 b1 b2 [I|I] [I'|I'].
    + inversion I; inversion I'; subst. left. reflexivity.
    + inversion I; subst a1 b1. destruct FUN as [F|F]; [exfalso; eapply F; exact I' | right; exact F].
    + inversion I'; subst a1 b2. destruct FUN as [F|F]; [exfalso; eapply F; exact I | right; exact F].
    + eauto.
  - intros x ob lt b1 G K BT [I|I]; [|eauto]. inversion I; subst a b1. eauto.
  - exact F1.
  - intros a1 b1 [I|I]; [inversion I; subst; exact SEED | eauto].
Qed.

Lemma tup_dec : forall a, tup a \/ ~ tup a.
Proof.
  intro a. unfold tup. destruct (kind_at h0 a) as [[]|]; try (right; discriminate). left. reflexivity.
Qed.

Lemma inv4_new_pair : forall s x y, Inv4 s -> ~ owned x -> ~ taxalist x -> alookup x (sm s) = None ->
  Inv4 (note (memo_set s x y) x y).
Proof.
  intros s x y K NO NT ML. apply inv4_note.
  - apply inv4_memo_set. exact K.
  - exact NO.
  - intros x' ob G KO BT. exfalso. apply NT. exists x', ob. auto.
  - left. change (sm (memo_set s x y)) with ((x, y) :: sm s). rewrite alookup_cons, Z.eqb_refl. discriminate.
  - destruct (tup_dec x) as [T|T]; [right; exact T|]. left. intros b' I. simpl in I.
    destruct (k_dom _ K x b' I) as [X|X]; [apply X; exact ML | exact (T X)].
  - intros I. exfalso. apply (k_seedmemo _ K x I). exact ML.
Qed.

(* ---- annotation sets -------------------------------------------------------------------------------- *)

Lemma oset_add4 : forall s sy a s', Inv4 s -> oset_add s sy a = Ok s' -> Inv4 s'.
Proof.
  intros s sy a s' K H. unfold oset_add in H.
  destruct (bget (body_of s sy) NM_ISET) as [[?|zy]|]; try discriminate.
  destruct (bget (body_of s sy) NM_ILIST) as [[?|ly]|]; try discriminate.
  destruct (bget (body_of s zy) a); inversion H; subst; [exact K|]. apply inv4_put. apply inv4_put. exact K.
Qed.

Lemma new_annset4 : forall s cls tg, Inv4 s -> Inv4 (fst (new_annset s cls tg)).
Proof.
  intros s cls tg K. rewrite new_annset_eq. cbn [fst].
  apply inv4_put. apply inv4_put. apply inv4_put.
  apply inv4_alloc; [|constructor]. apply inv4_alloc; [|constructor]. apply inv4_alloc; [exact K | constructor].
Qed.

Lemma annotations_add4 : forall s dst a2 s', Inv4 s -> annotations_add s dst a2 = Ok s' -> Inv4 s'.
Proof.
  intros s dst a2 s' K H. unfold annotations_add in H.
  destruct (bget (body_of s dst) NM_ANN) as [[?|sy]|]; try discriminate.
  - eapply oset_add4; eassumption.
  - assert (K1 := new_annset4 s CLS_ANNSET (R dst) K).
    destruct (new_annset s CLS_ANNSET (R dst)) as [s1 sy]. cbn [fst] in K1.
    eapply oset_add4; [|exact H]. apply inv4_put. exact K1.
Qed.

(* ---- the fourth pass -------------------------------------------------------------------------------- *)

Record St4 (s : st) : Prop := mkSt4 { t4_inv : Inv s; t4_inv2 : Inv2 s; t4_inv4 : Inv4 s }.

Definition RecSpec4 (rec : rec_t) (f : nat) : Prop :=
  RecSpecB rec f /\
  forall s v, Inv s -> Inv2 s -> Inv4 s -> vsrc2 v -> nt v -> (U s < f)%nat ->
    forall s' v', rec s v = Ok (s', v') -> Inv4 s'.

Lemma st4_rec : forall rec f s v s1 v', RecSpec4 rec f -> St4 s -> vsrc2 v -> nt v -> (U s < f)%nat ->
  rec s v = Ok (s1, v') ->
  St4 s1 /\ Loop2 s s1 /\ res_ok h0 seeds (hlen (sh s1)) v v' /\ vrel n0 (sc s1) v v'.
Proof.
  intros rec f s v s1 v' [RB R4] [IV J K] V N Uf E.
  destruct (loop2_rec h0 seeds rec f s v s1 v' RB IV J V Uf E) as [L1 [R1 V1]].
  split; [|auto]. constructor; [exact (l_inv h0 seeds _ _ L1) | exact (l_inv2 h0 seeds _ _ L1) |].
  exact (R4 s v IV J K V N Uf s1 v' E).
Qed.

Lemma st4_step : forall s s', Loop2 s s' -> Inv4 s' -> St4 s'.
Proof. intros s s' L K. constructor; [exact (l_inv h0 seeds _ _ L) | exact (l_inv2 h0 seeds _ _ L) | exact K]. Qed.

Lemma copy_append4 : forall xs rec f s y i kd x ob,
  RecSpec4 rec f -> St4 s -> (U s < f)%nat -> n0 <= y ->
  kind_at (sh s) y = Some kd -> free_kind kd ->
  Forall vsrc2 xs -> Forall nt xs -> In (x, y) (sc s) -> hget h0 x = Some ob ->
  (forall j a, nth_error xs j = Some a -> In (pidx (i + Z.of_nat j), a) (obody ob)) ->
  forall s', copy_append rec s y i xs = Ok s' -> St4 s'.
Proof.
  induction xs as [|a r IH]; intros rec f s y i kd x ob R4 T Uf Hy K FK Fx Fn Ixy G HS s' H.
  - simpl in H. inversion H; subst. exact T.
  - inversion Fx as [|? ? Va Vr]; subst. inversion Fn as [|? ? Na Nr]; subst.
    assert (ONE := copy_append2 h0 seeds [a] rec f s y i kd x ob (proj1 R4) (t4_inv _ T) (t4_inv2 _ T) Uf Hy K FK
                     (Forall_cons _ Va (Forall_nil _)) Ixy G).
    simpl in H. destruct (rec s a) as [[s1 a']| |] eqn:E; simpl in H; try discriminate.
    destruct (st4_rec rec f s a s1 a' R4 T Va Na Uf E) as [T1 [L1 _]].
    set (s2 := put s1 y (pidx i) a') in *.
    destruct (ONE ltac:(intros j a0 N; destruct j as [|j]; [simpl in N; inversion N; subst a0; apply (HS O a eq_refl)
                                                         | destruct j; discriminate]) s2) as [L2 _].
    { rewrite copy_append_one, E. reflexivity. }
    assert (K1 : kind_at (sh s1) y = Some kd) by (eapply kind_ext; [exact (l_ext h0 seeds _ _ L1) | exact K]).
    assert (T2 : St4 s2) by (apply (st4_step s s2 L2); apply inv4_put; exact (t4_inv4 _ T1)).
    eapply IH with (s := s2) (i := i + 1) (kd := kd) (x := x) (ob := ob); try eassumption.
    + eapply U_lt_ext; [exact (l_ext h0 seeds _ _ L2) | exact Uf].
    + unfold s2. rewrite put_kind. exact K1.
    + unfold s2. rewrite put_sc. apply (proj1 (l_ext2 h0 seeds _ _ L1)). exact Ixy.
    + intros j a0 N. specialize (HS (S j) a0 N). replace (i + 1 + Z.of_nat j) with (i + Z.of_nat (S j)) by lia. exact HS.
Qed.

Lemma copy_entries4 : forall es rec f ck s y kd x ob,
  RecSpec4 rec f -> St4 s -> (U s < f)%nat -> n0 <= y ->
  kind_at (sh s) y = Some kd -> free_kind kd ->
  Forall (fun e => vsrc2 (fst e) /\ vsrc2 (snd e)) es -> Forall (fun e => nt (fst e) /\ nt (snd e)) es ->
  In (x, y) (sc s) -> hget h0 x = Some ob ->
  (forall e, In e es -> In e (obody ob)) ->
  forall s', copy_entries rec ck s y es = Ok s' -> St4 s'.
Proof.
  induction es as [|[k v] r IH]; intros rec f ck s y kd x ob R4 T Uf Hy K FK Fx Fn Ixy G HS s' H.
  - simpl in H. inversion H; subst. exact T.
  - inversion Fx as [|? ? [Vk Vv] Vr]; subst. simpl in Vk, Vv. inversion Fn as [|? ? [Nk Nv] Nr]; subst. simpl in Nk, Nv.
    assert (HS1 : forall e, In e [(k, v)] -> In e (obody ob)).
    { intros e [E|[]]. subst e. apply HS. left. reflexivity. }
    assert (FE : Forall (fun e : val * val => vsrc2 (fst e) /\ vsrc2 (snd e)) [(k, v)]).
    { constructor; [split; assumption | constructor]. }
    assert (ONE := copy_entries2 h0 seeds [(k, v)] rec f ck s y kd x ob (proj1 R4) (t4_inv _ T) (t4_inv2 _ T) Uf Hy K FK
                     FE Ixy G HS1).
    change (copy_entries rec ck s y ((k, v) :: r)) with
      (do (s1, k') <- (if ck then rec s k else match k with P _ => Ok (s, k) | R _ => Err AttrErr end) ;;
       do (s2, v') <- rec s1 v ;; copy_entries rec ck (put s2 y k' v') y r) in H.
    assert (KEY : exists s1 k', (if ck then rec s k else match k with P _ => Ok (s, k) | R _ => Err AttrErr end) = Ok (s1, k')
                  /\ St4 s1 /\ Loop2 s s1).
    { destruct ck.
      - destruct (rec s k) as [[s1 k']| |] eqn:E; simpl in H; try discriminate.
        destruct (st4_rec rec f s k s1 k' R4 T Vk Nk Uf E) as [T1 [L1 _]]. eauto.
      - destruct k as [p|o]; simpl in H; [|discriminate]. exists s, (P p). split; [reflexivity|].
        split; [exact T | apply loop2_refl; [exact (t4_inv _ T) | exact (t4_inv2 _ T)]]. }
    destruct KEY as [s1 [k' [EK [T1 L1]]]]. rewrite EK in H. simpl in H.
    destruct (rec s1 v) as [[s2 v']| |] eqn:E2; simpl in H; try discriminate.
    destruct (st4_rec rec f s1 v s2 v' R4 T1 Vv Nv (U_lt_ext h0 _ _ _ (l_ext h0 seeds _ _ L1) Uf) E2) as [T2 [L2 _]].
    set (s3 := put s2 y k' v') in *.
    destruct (ONE s3) as [L3 _].
    { rewrite copy_entries_one, EK. simpl. rewrite E2. reflexivity. }
    assert (L02 : Loop2 s s2) by exact (loop2_trans h0 seeds _ _ _ L1 L2).
    assert (K2 : kind_at (sh s2) y = Some kd) by (eapply kind_ext; [exact (l_ext h0 seeds _ _ L02) | exact K]).
    assert (T3 : St4 s3) by (apply (st4_step s s3 L3); apply inv4_put; exact (t4_inv4 _ T2)).
    eapply IH with (s := s3) (kd := kd) (x := x) (ob := ob); try eassumption.
    + eapply U_lt_ext; [exact (l_ext h0 seeds _ _ L3) | exact Uf].
    + unfold s3. rewrite put_kind. exact K2.
    + unfold s3. rewrite put_sc. apply (proj1 (l_ext2 h0 seeds _ _ L02)). exact Ixy.
    + intros e Ie. apply HS. right. exact Ie.
Qed.

Lemma plain_fields4 : forall es rec f skip s y kd x ob,
  RecSpec4 rec f -> St4 s -> (U s < f)%nat -> n0 <= y ->
  kind_at (sh s) y = Some kd -> kd <> KAnnSet -> (is_annk kd = true -> In NM_ANN skip) ->
  Forall (fun e => (exists p, fst e = P p) /\ vsrc (snd e)) es ->
  (forall k v, In (k, v) es -> existsb (val_eqb k) skip = false -> vsrc2 v /\ nt v) ->
  In (x, y) (sc s) -> hget h0 x = Some ob -> (forall e, In e es -> In e (obody ob)) ->
  forall s', plain_fields rec skip s y es = Ok s' -> St4 s'.
Proof.
  induction es as [|[k v] r IH]; intros rec f skip s y kd x ob R4 T Uf Hy K NA SK Fx V2 Ixy G HS s' H.
  - simpl in H. inversion H; subst. exact T.
  - inversion Fx as [|? ? [[p Vk] Vv] Vr]; subst. simpl in Vk, Vv. subst k.
    assert (HS1 : forall e, In e [(P p, v)] -> In e (obody ob)).
    { intros e [E|[]]. subst e. apply HS. left. reflexivity. }
    assert (FE : Forall (fun e : val * val => (exists p, fst e = P p) /\ vsrc (snd e)) [(P p, v)]).
    { constructor; [split; [eexists; reflexivity | exact Vv] | constructor]. }
    assert (V21 : forall k0 v0, In (k0, v0) [(P p, v)] -> existsb (val_eqb k0) skip = false -> vsrc2 v0).
    { intros k0 v0 [E|[]] NS. inversion E; subst. apply (V2 (P p) v0); [left; reflexivity | exact NS]. }
    assert (ONE := plain_fields2 h0 seeds [(P p, v)] rec f skip s y kd x ob (proj1 R4) (t4_inv _ T) (t4_inv2 _ T) Uf Hy K NA SK
                     FE V21 Ixy G HS1).
    change (plain_fields rec skip s y ((P p, v) :: r)) with
      (if existsb (val_eqb (P p)) skip then plain_fields rec skip s y r
       else do (s1, v') <- rec s v ;; plain_fields rec skip (put s1 y (P p) v') y r) in H.
    assert (REST : forall k0 v0, In (k0, v0) r -> existsb (val_eqb k0) skip = false -> vsrc2 v0 /\ nt v0).
    { intros k0 v0 I0. apply V2. right. exact I0. }
    assert (HSR : forall e, In e r -> In e (obody ob)) by (intros e Ie; apply HS; right; exact Ie).
    destruct (existsb (val_eqb (P p)) skip) eqn:EXS.
    + eapply IH with (kd := kd) (x := x) (ob := ob); eassumption.
    + destruct (V2 (P p) v (or_introl eq_refl) EXS) as [Vv2 Nv].
      destruct (rec s v) as [[s1 v']| |] eqn:E; simpl in H; try discriminate.
      destruct (st4_rec rec f s v s1 v' R4 T Vv2 Nv Uf E) as [T1 [L1 _]].
      set (s2 := put s1 y (P p) v') in *.
      destruct (ONE s2) as [L2 _].
      { rewrite plain_fields_one, EXS, E. reflexivity. }
      assert (K1 : kind_at (sh s1) y = Some kd) by (eapply kind_ext; [exact (l_ext h0 seeds _ _ L1) | exact K]).
      assert (T2 : St4 s2) by (apply (st4_step s s2 L2); apply inv4_put; exact (t4_inv4 _ T1)).
      eapply IH with (s := s2) (kd := kd) (x := x) (ob := ob); try eassumption.
      * eapply U_lt_ext; [exact (l_ext h0 seeds _ _ L2) | exact Uf].
      * unfold s2. rewrite put_kind. exact K1.
      * unfold s2. rewrite put_sc. apply (proj1 (l_ext2 h0 seeds _ _ L1)). exact Ixy.
Qed.

Lemma annotable_fields4 : forall es rec f s y kd x ob,
  RecSpec4 rec f -> St4 s -> (U s < f)%nat -> n0 <= y ->
  kind_at (sh s) y = Some kd -> kd <> KAnnSet ->
  Forall (fun e => (exists p, fst e = P p) /\ vsrc (snd e)) es ->
  (forall k v, In (k, v) es -> k <> NM_ANN -> vsrc2 v /\ nt v) ->
  In (x, y) (sc s) -> hget h0 x = Some ob -> (forall e, In e es -> In e (obody ob)) ->
  forall s', annotable_fields rec s y es = Ok s' -> St4 s'.
Proof.
  induction es as [|[k v] r IH]; intros rec f s y kd x ob R4 T Uf Hy K NA Fx V2 Ixy G HS s' H.
  - simpl in H. inversion H; subst. exact T.
  - inversion Fx as [|? ? [[p Vk] Vv] Vr]; subst. simpl in Vk, Vv. subst k.
    assert (HS1 : forall e, In e [(P p, v)] -> In e (obody ob)).
    { intros e [E|[]]. subst e. apply HS. left. reflexivity. }
    assert (FE : Forall (fun e : val * val => (exists p, fst e = P p) /\ vsrc (snd e)) [(P p, v)]).
    { constructor; [split; [eexists; reflexivity | exact Vv] | constructor]. }
    assert (V21 : forall k0 v0, In (k0, v0) [(P p, v)] -> k0 <> NM_ANN -> vsrc2 v0).
    { intros k0 v0 [E|[]] NS. inversion E; subst. apply (V2 (P p) v0); [left; reflexivity | exact NS]. }
    assert (ONE := annotable_fields2 h0 seeds [(P p, v)] rec f s y kd x ob (proj1 R4) (t4_inv _ T) (t4_inv2 _ T) Uf Hy K NA
                     FE V21 Ixy G HS1).
    change (annotable_fields rec s y ((P p, v) :: r)) with
      (if val_eqb (P p) NM_ANN then annotable_fields rec s y r
       else match bget (body_of s y) (P p) with
            | Some _ => annotable_fields rec s y r
            | None => do (s1, v') <- rec s v ;; annotable_fields rec (memo_val (put s1 y (P p) v') v v') y r
            end) in H.
    assert (REST : forall k0 v0, In (k0, v0) r -> k0 <> NM_ANN -> vsrc2 v0 /\ nt v0).
    { intros k0 v0 I0. apply V2. right. exact I0. }
    assert (HSR : forall e, In e r -> In e (obody ob)) by (intros e Ie; apply HS; right; exact Ie).
    destruct (val_eqb (P p) NM_ANN) eqn:EA.
    { eapply IH with (kd := kd) (x := x) (ob := ob); eassumption. }
    destruct (bget (body_of s y) (P p)) as [v0|] eqn:BG.
    { eapply IH with (kd := kd) (x := x) (ob := ob); eassumption. }
    apply val_eqb_neq in EA.
    destruct (V2 (P p) v (or_introl eq_refl) EA) as [Vv2 Nv].
    destruct (rec s v) as [[s1 v']| |] eqn:E; simpl in H; try discriminate.
    destruct (st4_rec rec f s v s1 v' R4 T Vv2 Nv Uf E) as [T1 [L1 [R1 V1]]].
    set (s2 := put s1 y (P p) v') in *.
    set (s3 := memo_val s2 v v') in *.
    destruct (ONE s3) as [L3 _].
    { rewrite annotable_fields_one. destruct (val_eqb (P p) NM_ANN) eqn:EA'; [apply val_eqb_eq in EA'; contradiction|].
      rewrite BG, E. reflexivity. }
    assert (K1 : kind_at (sh s1) y = Some kd) by (eapply kind_ext; [exact (l_ext h0 seeds _ _ L1) | exact K]).
    assert (T3 : St4 s3).
    { apply (st4_step s s3 L3). apply inv4_memo_val. apply inv4_put. exact (t4_inv4 _ T1). }
    assert (SC3 : sc s3 = sc s1) by (unfold s3; rewrite memo_val_sc; unfold s2; apply put_sc).
    eapply IH with (s := s3) (kd := kd) (x := x) (ob := ob); try eassumption.
    + eapply U_lt_ext; [exact (l_ext h0 seeds _ _ L3) | exact Uf].
    + eapply kind_ext; [exact (l_ext h0 seeds _ _ L3) | exact K].
    + rewrite SC3. apply (proj1 (l_ext2 h0 seeds _ _ L1)). exact Ixy.
Qed.

Lemma retarget_shape4 : forall s dst src a1 a2 s', retarget s dst src a1 a2 = Ok s' ->
  s' = s \/ exists a1o a2o t name rest, a1 = R a1o /\ a2 = R a2o /\ bget (body_of s a1o) NM_VALUE = Some (R t) /\
    (kind_of s t = Some KTuple \/ kind_of s t = Some KList) /\ values (body_of s t) = R src :: name :: rest /\
    s' = put (note (fst (alloc s (mkObj CLS_TUPLE KTuple [(pidx 0, R dst); (pidx 1, name)]))) t (hlen (sh s)))
             a2o NM_VALUE (R (hlen (sh s))).
Proof.
  intros s dst src a1 a2 s' H. unfold retarget in H.
  destruct a2 as [?|a2o]; [discriminate|].
  destruct (bget (body_of s a2o) NM_ISATTR) as [isattr|]; [|discriminate].
  destruct (val_eqb isattr PTrue); [|inversion H; auto].
  destruct a1 as [?|a1o]; [discriminate|].
  destruct (bget (body_of s a1o) NM_VALUE) as [[?|t]|] eqn:BV; try discriminate.
  destruct (kind_of s t) as [[]|] eqn:KT; simpl in H; try discriminate;
    (destruct (values (body_of s t)) as [|owner rest] eqn:VL; [discriminate|];
     destruct (val_eqb owner (R src)) eqn:EO; [|inversion H; auto];
     apply val_eqb_eq in EO; subst owner;
     destruct rest as [|name rest']; [discriminate|];
     cbn [alloc] in H; inversion H; right; exists a1o, a2o, t, name, rest'; repeat (split; [solve [auto]|]); auto).
Qed.

(* ---- hypotheses on the source heap ------------------------------------------------------------------ *)

Hypothesis Hclosed : forall o ob k v, hget h0 o = Some ob -> In (k, v) (obody ob) -> vsrc k /\ vsrc v.
Hypothesis Hitems : forall x ob a, hget h0 x = Some ob -> In (R a) (ann_items h0 ob) -> ~ Shared h0 seeds a.
Hypothesis Hnames : forall x ob a ao t tob owner name rest,
  hget h0 x = Some ob -> In (R a) (ann_items h0 ob) -> hget h0 a = Some ao ->
  bget (obody ao) NM_VALUE = Some (R t) -> hget h0 t = Some tob ->
  (okind tob = KTuple \/ okind tob = KList) ->
  values (obody tob) = owner :: name :: rest -> owner = R x -> exists p, name = P p.
Hypothesis Hkeys : forall o ob k v, hget h0 o = Some ob ->
  (okind ob = KPlain \/ okind ob = KAnnotable \/ okind ob = KTaxon \/ okind ob = KNamespace \/ okind ob = KAnnSet) ->
  In (k, v) (obody ob) -> exists p, k = P p.
Hypothesis H2listkeys : forall o ob n e, hget h0 o = Some ob -> (okind ob = KList \/ okind ob = KTuple) ->
  nth_error (obody ob) n = Some e -> fst e = pidx (Z.of_nat n).
Hypothesis H2noalias : forall o ob k v, hget h0 o = Some ob -> In (k, v) (obody ob) ->
  ~ (is_annk (okind ob) = true /\ k = NM_ANN) -> ~ owned_ref h0 k /\ ~ owned_ref h0 v.
Hypothesis H2taxa : forall x ob lt, hget h0 x = Some ob -> okind ob = KNamespace ->
  bget (obody ob) NM_TAXA = Some (R lt) ->
  exists lo, hget h0 lt = Some lo /\ okind lo = KList /\ ocls lo = CLS_LIST.
Hypothesis H2bound : forall x ob a ao t tob owner rest,
  hget h0 x = Some ob -> In (R a) (ann_items h0 ob) -> hget h0 a = Some ao ->
  bget (obody ao) NM_VALUE = Some (R t) -> hget h0 t = Some tob ->
  (okind tob = KTuple \/ okind tob = KList) ->
  values (obody tob) = owner :: rest -> owner = R x ->
  okind tob = KTuple /\ ocls tob = CLS_TUPLE /\ length (obody tob) = 2%nat.
Hypothesis H2ilist : forall x ob sx sxo lx l, hget h0 x = Some ob -> is_annk (okind ob) = true ->
  bget (obody ob) NM_ANN = Some (R sx) -> hget h0 sx = Some sxo ->
  bget (obody sxo) NM_ILIST = Some (R lx) -> hget h0 lx = Some l -> okind l = KList.
Hypothesis H2ilist2 : forall x ob lx l, hget h0 x = Some ob -> okind ob = KAnnSet ->
  bget (obody ob) NM_ILIST = Some (R lx) -> hget h0 lx = Some l -> okind l = KList.
Hypothesis H2nodup : forall o ob, hget h0 o = Some ob -> NoDup (map fst (obody ob)).
(* the `_taxa` list of a namespace is private to it *)
Hypothesis H4private : forall o ob k v, hget h0 o = Some ob -> In (k, v) (obody ob) ->
  nt k /\ (nt v \/ (okind ob = KNamespace /\ k = NM_TAXA)).
Hypothesis H4distinct : forall x1 x2 ob1 ob2 lt, hget h0 x1 = Some ob1 -> hget h0 x2 = Some ob2 ->
  okind ob1 = KNamespace -> okind ob2 = KNamespace ->
  bget (obody ob1) NM_TAXA = Some (R lt) -> bget (obody ob2) NM_TAXA = Some (R lt) -> x1 = x2.

Lemma old_values_nt : forall o ob, hget h0 o = Some ob -> okind ob <> KNamespace -> Forall nt (values (obody ob)).
Proof.
  intros o ob G K. apply Forall_forall. intros v I. apply In_values in I. destruct I as [k I].
  destruct (H4private o ob k v G I) as [_ [X|[X _]]]; [exact X | contradiction].
Qed.

Lemma old_entries_nt : forall o ob, hget h0 o = Some ob -> okind ob <> KNamespace ->
  Forall (fun e => nt (fst e) /\ nt (snd e)) (obody ob).
Proof.
  intros o ob G K. apply Forall_forall. intros [k v] I. simpl.
  destruct (H4private o ob k v G I) as [X [Y|[Y _]]]; [split; assumption | contradiction].
Qed.


Lemma retarget4 : forall s dst src a1 a2 s' sob, St4 s -> 0 <= src < n0 -> item_ok h0 seeds src a1 ->
  hget h0 src = Some sob -> (forall a, a1 = R a -> In (R a) (ann_items h0 sob)) ->
  retarget s dst src a1 a2 = Ok s' -> Inv4 s'.
Proof.
  intros s dst src a1 a2 s' sob [IV J K] Hs IO Gs ITEM H.
  destruct (retarget_shape4 _ _ _ _ _ _ H) as [E|[a1o [a2o [t [name [rest [E1 [E2 [BV [KT [VL E]]]]]]]]]]]; [subst s'; exact K|].
  subst a1 a2.
  assert (V1 : 0 <= a1o < n0) by (destruct IO as [V _]; exact V).
  rewrite (body_of_old h0 seeds s a1o IV) in BV by lia.
  destruct (hget h0 a1o) as [ao|] eqn:GA; [|discriminate].
  assert (Vt : 0 <= t < n0).
  { destruct (Hclosed _ _ _ _ GA (bget_In _ _ _ BV)) as [_ X]. exact X. }
  unfold kind_of in KT. rewrite (i_old _ _ _ IV t) in KT by lia.
  rewrite (body_of_old h0 seeds s t IV) in VL by lia.
  destruct (hget h0 t) as [tob|] eqn:Gt; [|destruct KT; discriminate].
  assert (KT' : okind tob = KTuple \/ okind tob = KList) by (destruct KT as [X|X]; inversion X; auto).
  destruct (H2bound src sob a1o ao t tob (R src) (name :: rest) Gs (ITEM a1o eq_refl) GA BV Gt KT' VL eq_refl) as [KTu _].
  assert (TU : tup t) by (unfold tup, kind_at; rewrite Gt, KTu; reflexivity).
  assert (NO : ~ owned t).
  { destruct (H2noalias a1o ao NM_VALUE (R t) GA (bget_In _ _ _ BV)) as [_ X]; [intros [_ C]; discriminate C | exact X]. }
  subst s'. apply inv4_put. apply inv4_note; [| exact NO | | right; exact TU | right; exact TU | intros _; left; exact TU].
  - apply inv4_alloc; [exact K|]. simpl. constructor; [|constructor; [intros [] | constructor]].
    intros [C|[]]. apply pidx_inj in C. discriminate C.
  - intros x ob G KO BT. exfalso. destruct (H2taxa x ob t G KO BT) as [lo [GL [KL _]]].
    rewrite Gt in GL. inversion GL; subst lo. congruence.
Qed.

Lemma copy_annotation_items4 : forall items rec f s dst src kd sob,
  RecSpec4 rec f -> St4 s -> (U s < f)%nat -> n0 <= dst < hlen (sh s) ->
  kind_at (sh s) dst = Some kd -> is_annk kd = true -> 0 <= src < n0 ->
  Forall (item_ok h0 seeds src) items -> Forall vsrc2 items -> Forall nt items ->
  In (src, dst) (sc s) -> hget h0 src = Some sob -> is_annk (okind sob) = true ->
  (forall a, In (R a) items -> In (R a) (ann_items h0 sob)) ->
  forall s', copy_annotation_items rec s dst src items = Ok s' -> St4 s'.
Proof.
  induction items as [|a1 r IH]; intros rec f s dst src kd sob R4 T Uf Hd K AK Hs Fx F2 Fn Isd Gs AKs ITEMS s' H.
  - simpl in H. inversion H; subst. exact T.
  - inversion Fx as [|? ? IO Fr]; subst. inversion F2 as [|? ? V2 F2r]; subst. inversion Fn as [|? ? N1 Fnr]; subst.
    simpl in H. destruct (rec s a1) as [[s1 a2]| |] eqn:E; simpl in H; try discriminate.
    destruct (st4_rec rec f s a1 s1 a2 R4 T V2 N1 Uf E) as [T1 [L1 [R1 VR1]]].
    set (s2 := memo_val s1 a1 a2) in *.
    assert (L12 : Loop2 s1 s2).
    { apply loop2_memo_val; [exact (t4_inv _ T1) | exact (t4_inv2 _ T1) | exact (proj1 V2) | exact R1 | exact VR1]. }
    assert (T2 : St4 s2) by (apply (st4_step s1 s2 L12); apply inv4_memo_val; exact (t4_inv4 _ T1)).
    assert (L02 : Loop2 s s2) by exact (loop2_trans h0 seeds _ _ _ L1 L12).
    assert (HL2 : hlen (sh s2) = hlen (sh s1)) by apply memo_val_hlen.
    destruct (retarget s2 dst src a1 a2) as [s3| |] eqn:RT; simpl in H; try discriminate.
    assert (Hd2 : n0 <= dst < hlen (sh s2)) by (destruct (l_ext h0 seeds _ _ L02) as [LL _]; lia).
    assert (R2 : res_ok h0 seeds (hlen (sh s2)) a1 a2) by (rewrite HL2; exact R1).
    assert (VR2 : vrel n0 (sc s2) a1 a2) by (eapply vrel_mono; [exact (proj1 (l_ext2 h0 seeds _ _ L12)) | exact VR1]).
    assert (Isd2 : In (src, dst) (sc s2)) by (apply (proj1 (l_ext2 h0 seeds _ _ L02)); exact Isd).
    assert (IT1 : forall a, a1 = R a -> In (R a) (ann_items h0 sob)) by (intros a EA; subst a1; apply ITEMS; left; reflexivity).
    assert (L23 := retarget2 h0 seeds Hclosed H2listkeys H2bound s2 dst src a1 a2 s3 sob (t4_inv _ T2) (t4_inv2 _ T2)
                     Hd2 Hs IO R2 VR2 Isd2 Gs IT1 RT).
    assert (T3 : St4 s3) by (apply (st4_step s2 s3 L23); exact (retarget4 s2 dst src a1 a2 s3 sob T2 Hs IO Gs IT1 RT)).
    assert (L03 : Loop2 s s3) by exact (loop2_trans h0 seeds _ _ _ L02 L23).
    destruct (annotations_add s3 dst a2) as [s4| |] eqn:AA; simpl in H; try discriminate.
    assert (K3 : kind_at (sh s3) dst = Some kd) by (eapply kind_ext; [exact (l_ext h0 seeds _ _ L03) | exact K]).
    assert (V3 : vok h0 seeds (hlen (sh s3)) a2).
    { eapply vok_ext; [exact (l_ext h0 seeds _ _ L23)|]. rewrite HL2. eapply res_ok_vok. exact R1. }
    assert (Isd3 : In (src, dst) (sc s3)) by (apply (proj1 (l_ext2 h0 seeds _ _ L03)); exact Isd).
    assert (L34 := annotations_add2 h0 seeds s3 dst a2 s4 kd src sob (t4_inv _ T3) (t4_inv2 _ T3) (proj1 Hd) K3 AK V3 Isd3 Gs AKs AA).
    assert (T4 : St4 s4) by (apply (st4_step s3 s4 L34); exact (annotations_add4 s3 dst a2 s4 (t4_inv4 _ T3) AA)).
    assert (L04 : Loop2 s s4) by exact (loop2_trans h0 seeds _ _ _ L03 L34).
    eapply (IH rec f s4 dst src kd sob R4 T4); try eassumption.
    + eapply U_lt_ext; [exact (l_ext h0 seeds _ _ L04) | exact Uf].
    + destruct (l_ext h0 seeds _ _ L04) as [LL _]. lia.
    + eapply kind_ext; [exact (l_ext h0 seeds _ _ L04) | exact K].
    + apply (proj1 (l_ext2 h0 seeds _ _ L04)). exact Isd.
    + intros a Ia. apply ITEMS. right. exact Ia.
Qed.

Lemma dcaf4 : forall rec f s dst src kd sob,
  RecSpec4 rec f -> St4 s -> (U s < f)%nat -> n0 <= dst < hlen (sh s) ->
  kind_at (sh s) dst = Some kd -> is_annk kd = true -> 0 <= src < n0 ->
  In (src, dst) (sc s) -> hget h0 src = Some sob -> is_annk (okind sob) = true ->
  forall s', deep_copy_annotations_from rec s dst src = Ok s' -> Inv4 s'.
Proof.
  intros rec f s dst src kd sob R4 T Uf Hd K AK Hs Isd Gs AKs s' H.
  assert (IV := t4_inv _ T).
  unfold deep_copy_annotations_from in H.
  rewrite (body_of_old h0 seeds s src IV) in H by lia. rewrite Gs in H.
  destruct (bget (obody sob) NM_ANN) as [[?|sx]|] eqn:BA; try discriminate.
  2:{ inversion H; subst. exact (t4_inv4 _ T). }
  assert (Vx : 0 <= sx < n0).
  { destruct (Hclosed _ _ _ _ Gs (bget_In _ _ _ BA)) as [_ X]. exact X. }
  destruct (hget (sh s) dst) as [d|]; [|discriminate].
  destruct (hget (sh s) src) as [o|]; [|discriminate].
  destruct (negb (ocls d =? ocls o)); [discriminate|].
  rewrite (body_of_old h0 seeds s sx IV) in H by lia.
  destruct (hget h0 sx) as [sxo|] eqn:GX; [|discriminate].
  destruct (bget (obody sxo) NM_ILIST) as [[?|lx]|] eqn:BL; try discriminate.
  assert (Vl : 0 <= lx < n0).
  { destruct (Hclosed _ _ _ _ GX (bget_In _ _ _ BL)) as [_ X]. exact X. }
  rewrite (body_of_old h0 seeds s lx IV) in H by lia.
  set (items := values (match hget h0 lx with Some x => obody x | None => [] end)) in *.
  assert (AI : ann_items h0 sob = items).
  { unfold ann_items, items. rewrite BA, GX, BL. destruct (hget h0 lx); reflexivity. }
  assert (FI : Forall (item_ok h0 seeds src) items /\ Forall vsrc2 items /\ Forall nt items).
  { unfold items. destruct (hget h0 lx) as [l|] eqn:GL; [|repeat split; constructor].
    assert (AI' : ann_items h0 sob = values (obody l)) by (unfold ann_items; rewrite BA, GX, BL, GL; reflexivity).
    assert (KL := H2ilist src sob sx sxo lx l Gs AKs BA GX BL GL).
    split; [|split].
    - apply Forall_forall. intros a1 IN. split.
      + assert (F := old_values_vsrc h0 Hclosed _ _ GL). rewrite Forall_forall in F. apply F. assumption.
      + intros a EA. subst a1. rewrite <- AI' in IN. split.
        * exact (Hitems src sob a Gs IN).
        * intros ao t tob owner name rest G1 G2 G3 G4 G5 G6.
          exact (Hnames src sob a ao t tob owner name rest Gs IN G1 G2 G3 G4 G5 G6).
    - apply Forall_forall. intros a1 IN. apply In_values in IN. destruct IN as [k IN].
      destruct (old_entry_vsrc2 h0 Hclosed H2noalias lx l k a1 GL IN) as [_ X]; [|exact X].
      intros [AKl _]. rewrite KL in AKl. discriminate AKl.
    - apply (old_values_nt lx l GL). rewrite KL. discriminate. }
  destruct FI as [FI1 [FI2 FIn]].
  assert (FI3 : forall a, In (R a) items -> In (R a) (ann_items h0 sob)) by (intros a IN; rewrite AI; exact IN).
  destruct (copy_annotation_items rec s dst src items) as [s1| |] eqn:CI; simpl in H; try discriminate.
  assert (T1 := copy_annotation_items4 items rec f s dst src kd sob R4 T Uf Hd K AK Hs FI1 FI2 FIn Isd Gs AKs FI3 s1 CI).
  destruct (bget (body_of s1 dst) NM_ANN) as [[?|sy]|]; inversion H; subst s'.
  - exact (t4_inv4 _ T1).
  - apply inv4_memo_set. exact (t4_inv4 _ T1).
  - exact (t4_inv4 _ T1).
Qed.

Lemma annset_items4 : forall items rec f s o,
  RecSpec4 rec f -> St4 s -> (U s < f)%nat -> n0 <= o ->
  kind_at (sh s) o = Some KAnnSet -> Forall vsrc2 items -> Forall nt items ->
  forall s', annset_items rec s o items = Ok s' -> St4 s'.
Proof.
  induction items as [|a r IH]; intros rec f s o R4 T Uf Ho K Fx Fn s' H.
  - simpl in H. inversion H; subst. exact T.
  - inversion Fx as [|? ? Va Vr]; subst. inversion Fn as [|? ? Na Nr]; subst. simpl in H.
    destruct (rec s a) as [[sa a']| |] eqn:E; simpl in H; try discriminate.
    destruct (st4_rec rec f s a sa a' R4 T Va Na Uf E) as [T1 [L1 [R1 VR1]]].
    set (s2 := memo_val sa a a') in *.
    assert (L12 : Loop2 sa s2).
    { apply loop2_memo_val; [exact (t4_inv _ T1) | exact (t4_inv2 _ T1) | exact (proj1 Va) | exact R1 | exact VR1]. }
    assert (T2 : St4 s2) by (apply (st4_step sa s2 L12); apply inv4_memo_val; exact (t4_inv4 _ T1)).
    assert (L02 : Loop2 s s2) by exact (loop2_trans h0 seeds _ _ _ L1 L12).
    destruct (oset_add s2 o a') as [sq| |] eqn:OA; simpl in H; try discriminate.
    assert (L23 : Loop2 s2 sq).
    { apply (oset_add2 h0 seeds s2 o a' sq (t4_inv _ T2) (t4_inv2 _ T2) Ho); [| | exact OA].
      - eapply kind_ext; [exact (l_ext h0 seeds _ _ L02) | exact K].
      - unfold s2. rewrite memo_val_hlen. eapply res_ok_vok. exact R1. }
    assert (T3 : St4 sq) by (apply (st4_step s2 sq L23); exact (oset_add4 s2 o a' sq (t4_inv4 _ T2) OA)).
    assert (L03 : Loop2 s sq) by exact (loop2_trans h0 seeds _ _ _ L02 L23).
    eapply IH with (s := sq) (o := o); try eassumption.
    + eapply U_lt_ext; [exact (l_ext h0 seeds _ _ L03) | exact Uf].
    + eapply kind_ext; [exact (l_ext h0 seeds _ _ L03) | exact K].
Qed.

(* ---- one level of copy.deepcopy (fourth pass) ------------------------------------------------------- *)

Lemma dc_step4 : forall rec f, RecSpec4 rec f -> RecSpec4 (dc_step rec) (S f).
Proof.
  intros rec f R4. split.
  { apply (dc_step2 h0 seeds Hclosed Hitems Hnames Hkeys H2listkeys H2noalias H2taxa H2bound H2ilist H2ilist2). exact (proj1 R4). }
  intros s v IV J K4 [Vs NO] NT Uf s' v' H. unfold dc_step in H. destruct v as [p|x].
  { inversion H; subst. exact K4. }
  simpl in Vs. simpl in NO. simpl in NT. destruct (alookup x (sm s)) as [y|] eqn:ML.
  { inversion H; subst. exact K4. }
  rewrite (i_old _ _ _ IV x) in H by lia. destruct (hget_in_range h0 x Vs) as [ob G]. rewrite G in H.
  destruct (new_copy_spec h0 seeds s x ob IV Vs ML) as [I1 [E1 [Y1 [K1 [U1 L1]]]]].
  destruct (new_copy2 h0 seeds s x ob IV J Vs G ML) as [J1 [F1 IN1]].
  assert (K41 : Inv4 (fst (new_copy s x ob))).
  { rewrite new_copy_eq. cbn [fst]. apply inv4_new_pair; [apply inv4_alloc; [exact K4 | constructor] | exact NO | exact NT | exact ML]. }
  assert (T1 := mkSt4 _ I1 J1 K41).
  assert (N := i_len _ _ _ IV).
  assert (Uf1 : (U (fst (new_copy s x ob)) < f)%nat) by lia.
  assert (Hy : n0 <= hlen (sh s)) by lia.
  destruct (okind ob) eqn:KO.
  - (* KAtomic *) inversion H; subst. exact K4.
  - (* KList *)
    destruct (new_copy s x ob) as [s1 y] eqn:NC. cbn [fst snd] in *. subst y.
    destruct (copy_append rec s1 (hlen (sh s)) 0 (values (obody ob))) as [s2| |] eqn:LP; simpl in H; try discriminate.
    inversion H; subst s' v'.
    assert (FK : free_kind KList) by (split; [reflexivity | discriminate]).
    assert (VS : Forall vsrc2 (values (obody ob))) by (apply (old_values_vsrc2 h0 Hclosed H2noalias x ob G); rewrite KO; reflexivity).
    assert (NS : Forall nt (values (obody ob))) by (apply (old_values_nt x ob G); rewrite KO; discriminate).
    assert (SRC := list_source_entries h0 H2listkeys x ob G (or_introl KO)).
    exact (t4_inv4 _ (copy_append4 _ rec f s1 (hlen (sh s)) 0 KList x ob R4 T1 Uf1 Hy K1 FK VS NS IN1 G SRC s2 LP)).
  - (* KDict *)
    destruct (new_copy s x ob) as [s1 y] eqn:NC. cbn [fst snd] in *. subst y.
    destruct (copy_entries rec true s1 (hlen (sh s)) (obody ob)) as [s2| |] eqn:LP; simpl in H; try discriminate.
    inversion H; subst s' v'.
    assert (FK : free_kind KDict) by (split; [reflexivity | discriminate]).
    assert (VS := old_entries_vsrc2 h0 Hclosed H2noalias x ob G ltac:(rewrite KO; reflexivity)).
    assert (NS : Forall (fun e => nt (fst e) /\ nt (snd e)) (obody ob)) by (apply (old_entries_nt x ob G); rewrite KO; discriminate).
    exact (t4_inv4 _ (copy_entries4 _ rec f true s1 (hlen (sh s)) KDict x ob R4 T1 Uf1 Hy K1 FK VS NS IN1 G (fun e I => I) s2 LP)).
  - (* KSet *)
    destruct (forallb (fun e => is_prim (fst e) && is_prim (snd e)) (obody ob)) eqn:FA; [|discriminate].
    cbn [alloc] in H. inversion H; subst s' v'. clear H.
    apply (inv4_new_pair (fst (alloc s ob))); [apply inv4_alloc; [exact K4 | exact (H2nodup x ob G)] | exact NO | exact NT | exact ML].
  - (* KTuple *)
    destruct (new_copy s x ob) as [s1 y] eqn:NC. cbn [fst snd] in *. subst y.
    destruct (copy_append rec s1 (hlen (sh s)) 0 (values (obody ob))) as [s2| |] eqn:LP; simpl in H; try discriminate.
    inversion H; subst s' v'.
    assert (FK : free_kind KTuple) by (split; [reflexivity | discriminate]).
    assert (VS : Forall vsrc2 (values (obody ob))) by (apply (old_values_vsrc2 h0 Hclosed H2noalias x ob G); rewrite KO; reflexivity).
    assert (NS : Forall nt (values (obody ob))) by (apply (old_values_nt x ob G); rewrite KO; discriminate).
    assert (SRC := list_source_entries h0 H2listkeys x ob G (or_intror KO)).
    exact (t4_inv4 _ (copy_append4 _ rec f s1 (hlen (sh s)) 0 KTuple x ob R4 T1 Uf1 Hy K1 FK VS NS IN1 G SRC s2 LP)).
  - (* KPlain *)
    destruct (new_copy s x ob) as [s1 y] eqn:NC. cbn [fst snd] in *. subst y.
    destruct (plain_fields rec [] s1 (hlen (sh s)) (obody ob)) as [s2| |] eqn:LP; simpl in H; try discriminate.
    inversion H; subst s' v'.
    assert (NA : KPlain <> KAnnSet) by discriminate.
    assert (SK : is_annk KPlain = true -> In NM_ANN []) by (intro C; discriminate C).
    assert (FO : Forall (fun e : val * val => (exists p, fst e = P p) /\ vsrc (snd e)) (obody ob)).
    { eapply old_fields; [exact Hclosed | exact Hkeys | exact G | tauto]. }
    assert (V2 : forall k v, In (k, v) (obody ob) -> existsb (val_eqb k) [] = false -> vsrc2 v /\ nt v).
    { intros k v IN _. split.
      - destruct (old_entry_vsrc2 h0 Hclosed H2noalias x ob k v G IN) as [_ X]; [|exact X].
        rewrite KO. intros [C _]. discriminate C.
      - destruct (H4private x ob k v G IN) as [_ [X|[X _]]]; [exact X | congruence]. }
    exact (t4_inv4 _ (plain_fields4 _ rec f [] s1 (hlen (sh s)) KPlain x ob R4 T1 Uf1 Hy K1 NA SK FO V2 IN1 G (fun e I => I) s2 LP)).
  - (* KAnnotable *)
    destruct (new_copy s x ob) as [s1 y] eqn:NC. cbn [fst snd] in *. subst y.
    destruct (annotable_fields rec s1 (hlen (sh s)) (obody ob)) as [s2| |] eqn:LP; simpl in H; try discriminate.
    destruct (deep_copy_annotations_from rec s2 (hlen (sh s)) x) as [s3| |] eqn:DC; simpl in H; try discriminate.
    inversion H; subst s' v'.
    assert (NA : KAnnotable <> KAnnSet) by discriminate.
    assert (FO : Forall (fun e : val * val => (exists p, fst e = P p) /\ vsrc (snd e)) (obody ob)).
    { eapply old_fields; [exact Hclosed | exact Hkeys | exact G | tauto]. }
    assert (V2 : forall k v, In (k, v) (obody ob) -> k <> NM_ANN -> vsrc2 v /\ nt v).
    { intros k v IN NE. split.
      - destruct (old_entry_vsrc2 h0 Hclosed H2noalias x ob k v G IN) as [_ X]; [|exact X]. intros [_ C]. contradiction.
      - destruct (H4private x ob k v G IN) as [_ [X|[X _]]]; [exact X | congruence]. }
    assert (V2' : forall k v, In (k, v) (obody ob) -> k <> NM_ANN -> vsrc2 v) by (intros k v IN NE; exact (proj1 (V2 k v IN NE))).
    assert (T2 := annotable_fields4 _ rec f s1 (hlen (sh s)) KAnnotable x ob R4 T1 Uf1 Hy K1 NA FO V2 IN1 G (fun e I => I) s2 LP).
    destruct (annotable_fields2 h0 seeds _ rec f s1 (hlen (sh s)) KAnnotable x ob (proj1 R4) I1 J1 Uf1 Hy K1 NA FO V2' IN1 G (fun e I => I) s2 LP) as [L2 _].
    assert (U2' : (U s2 < f)%nat) by (eapply U_lt_ext; [exact (l_ext h0 seeds _ _ L2) | exact Uf1]).
    assert (Hd2 : n0 <= hlen (sh s) < hlen (sh s2)) by (destruct (l_ext h0 seeds _ _ L2) as [LL _]; lia).
    assert (Ky2 : kind_at (sh s2) (hlen (sh s)) = Some KAnnotable) by (eapply kind_ext; [exact (l_ext h0 seeds _ _ L2) | exact K1]).
    assert (Ix2 : In (x, hlen (sh s)) (sc s2)) by (apply (proj1 (l_ext2 h0 seeds _ _ L2)); exact IN1).
    assert (AK2 : is_annk (okind ob) = true) by (rewrite KO; reflexivity).
    exact (dcaf4 rec f s2 (hlen (sh s)) x KAnnotable ob R4 T2 U2' Hd2 Ky2 eq_refl Vs Ix2 G AK2 s3 DC).
  - (* KAnnSet *)
    destruct (bget (obody ob) NM_TARGET) as [tg|] eqn:BT; [|discriminate].
    assert (TGS : ~ (is_annk (okind ob) = true /\ NM_TARGET = NM_ANN)) by (intros [_ C]; discriminate C).
    destruct (old_entry_vsrc2 h0 Hclosed H2noalias x ob NM_TARGET tg G (bget_In _ _ _ BT) TGS) as [_ [Vtg NOtg]].
    destruct (match tg with
              | R t => match alookup t (sm s) with Some t' => Ok (R t') | None => Err KeyErr end
              | P 0 => if snone s then Ok PNone else Err KeyErr
              | P _ => Err KeyErr end) as [tg'| |] eqn:ET; cbn [bind] in H; try discriminate.
    assert (TG : vok h0 seeds (hlen (sh s)) tg' /\ vrel n0 (sc s) tg tg').
    { destruct tg as [q|t].
      - destruct q; try discriminate. destruct (snone s); [|discriminate]. inversion ET. split; [exact Logic.I | reflexivity].
      - destruct (alookup t (sm s)) as [t'|] eqn:MT; [|discriminate]. inversion ET; subst.
        destruct (i_memo _ _ _ IV t t' MT) as [_ [V EQ]]. split; [exact V|]. simpl. simpl in Vtg, NOtg.
        destruct (Z_lt_dec t' n0) as [Lt|Ge].
        + right. rewrite (EQ Lt). split; [reflexivity | exact Vtg].
        + destruct (j_msc _ _ J t t' MT ltac:(lia)) as [I|O]; [left; exact I | contradiction]. }
    destruct TG as [Vt VRt].
    destruct (new_annset2 h0 seeds s (ocls ob) tg' IV J Vt) as [La _].
    destruct (new_annset_spec h0 seeds s (ocls ob) tg' IV Vt) as [Ia [Ea [Ya Ka]]].
    destruct (new_annset2 h0 seeds s (ocls ob) tg' IV J Vt) as [_ SCa].
    destruct (new_annset_shape s (ocls ob) tg') as [SH0 [SH1 [SH2 [SHL SHO]]]].
    assert (K4a := new_annset4 s (ocls ob) tg' K4).
    assert (SMa : sm (fst (new_annset s (ocls ob) tg')) = sm s) by (rewrite new_annset_eq; cbn [fst]; rewrite !put_sm; reflexivity).
    destruct (new_annset s (ocls ob) tg') as [sa o] eqn:NA. cbn [fst snd] in *. subst o.
    set (y := hlen (sh s)) in *.
    set (s2 := note (memo_set sa x y) x y) in *.
    assert (I2 : Inv s2).
    { apply inv_note. apply inv_memo_set; [exact Ia | exact Vs | left; unfold y; lia | intro; unfold y in *; lia]. }
    assert (J2 : Inv2 s2).
    { unfold s2. rewrite note_memo_comm. apply inv2_memo_set; [|intros _; left; left; reflexivity].
      apply (inv2_note h0 seeds); [exact Ia | exact (l_inv2 h0 seeds _ _ La) | exact Vs | unfold y; lia | | |].
      - rewrite SCa. apply (not_in_range_new h0); [exact J | unfold y; lia].
      - exists ob. eexists. split; [exact G|]. split; [exact SH0|]. split; [reflexivity|].
        split; [rewrite KO; reflexivity|]. intros k0 v0 IN. simpl in IN.
        destruct IN as [IN|[IN|[IN|[]]]]; inversion IN; subst k0 v0.
        + left. right. rewrite KO. split; [reflexivity | left; reflexivity].
        + left. right. rewrite KO. split; [reflexivity | right; reflexivity].
        + right. exists NM_TARGET, tg. split; [apply bget_In; exact BT|]. split; [reflexivity|].
          eapply vrel_mono; [|exact VRt]. intros p Ip. right. rewrite SCa. exact Ip.
      - intros o ob' Ho Go.
        assert (NE : forall k, bget (obody ob') k <> Some (R y)).
        { intros k B. destruct (Z_lt_dec o y) as [Lt|Ge].
          - rewrite (SHO o Lt) in Go.
            assert (X := fresh_refs_lt h0 seeds s o ob' k (R y) y IV Ho Go (bget_In _ _ _ B) (or_intror eq_refl)).
            unfold y in X. lia.
          - assert (R0 := hget_Some_range _ _ _ Go). rewrite SHL in R0.
            assert (CASES : o = y \/ o = y + 1 \/ o = y + 2) by lia.
            destruct CASES as [E|[E|E]]; subst o.
            + rewrite SH0 in Go. inversion Go; subst ob'. apply bget_In in B. simpl in B.
              destruct B as [B|[B|[B|[]]]]; inversion B; try lia.
              subst tg'. simpl in Vt. destruct Vt as [Vt|[[_ Vt] _]]; unfold y in *; lia.
            + rewrite SH1 in Go. inversion Go; subst ob'. discriminate B.
            + rewrite SH2 in Go. inversion Go; subst ob'. discriminate B. }
        split; [intros _; apply NE|]. intros _. split; apply NE. }
    assert (T2 : St4 s2).
    { constructor; [exact I2 | exact J2 |]. unfold s2.
      apply inv4_new_pair; [exact K4a | exact NO | exact NT | rewrite SMa; exact ML]. }
    destruct (bget (obody ob) NM_ILIST) as [[?|lx]|] eqn:BL; try discriminate.
    assert (Vl : 0 <= lx < n0).
    { destruct (Hclosed _ _ _ _ G (bget_In _ _ _ BL)) as [_ X]. exact X. }
    destruct (annset_items rec s2 y (values (body_of s2 lx))) as [s5| |] eqn:AI; simpl in H; try discriminate.
    inversion H; subst s' v'. clear H.
    assert (Ea2 : Ext sa s2) by (eapply ext_trans; [apply ext_memo_set | apply ext_note]).
    assert (U2 : (U s2 < f)%nat).
    { assert (X : (U s2 < U s)%nat); [|lia].
      eapply (U_after_memo h0); [eapply ext_trans; [exact Ea | exact Ea2] | exact Vs | exact ML |].
      simpl. rewrite Z.eqb_refl. reflexivity. }
    apply (t4_inv4 s5).
    eapply annset_items4 with (o := y); [exact R4 | exact T2 | exact U2 | unfold y; lia | | | | exact AI].
    + eapply kind_ext; [exact Ea2 | exact Ka].
    + rewrite (body_of_old h0 seeds s2 lx I2) by lia. destruct (hget h0 lx) as [l|] eqn:GL; [|constructor].
      apply Forall_forall. intros v0 I0. apply In_values in I0. destruct I0 as [k0 I0].
      destruct (old_entry_vsrc2 h0 Hclosed H2noalias lx l k0 v0 GL I0) as [_ X]; [|exact X].
      intros [AKl C]. rewrite (H2ilist2 x ob lx l G KO BL GL) in AKl. discriminate AKl.
    + rewrite (body_of_old h0 seeds s2 lx I2) by lia. destruct (hget h0 lx) as [l|] eqn:GL; [|constructor].
      apply (old_values_nt lx l GL). rewrite (H2ilist2 x ob lx l G KO BL GL). discriminate.
  - (* KTaxon *)
    destruct (new_copy s x ob) as [s1 y] eqn:NC. cbn [fst snd] in *. subst y.
    destruct (plain_fields rec [NM_ANN] s1 (hlen (sh s)) (obody ob)) as [s2| |] eqn:LP; simpl in H; try discriminate.
    destruct (deep_copy_annotations_from rec s2 (hlen (sh s)) x) as [s3| |] eqn:DC; simpl in H; try discriminate.
    inversion H; subst s' v'.
    assert (NA : KTaxon <> KAnnSet) by discriminate.
    assert (SK : is_annk KTaxon = true -> In NM_ANN [NM_ANN]) by (intros _; left; reflexivity).
    assert (FO : Forall (fun e : val * val => (exists p, fst e = P p) /\ vsrc (snd e)) (obody ob)).
    { eapply old_fields; [exact Hclosed | exact Hkeys | exact G | tauto]. }
    assert (V2 : forall k v, In (k, v) (obody ob) -> existsb (val_eqb k) [NM_ANN] = false -> vsrc2 v /\ nt v).
    { intros k v IN NS. split.
      - destruct (old_entry_vsrc2 h0 Hclosed H2noalias x ob k v G IN) as [_ X]; [|exact X].
        intros [_ C]. subst k. simpl in NS. discriminate NS.
      - destruct (H4private x ob k v G IN) as [_ [X|[X _]]]; [exact X | congruence]. }
    assert (V2' : forall k v, In (k, v) (obody ob) -> existsb (val_eqb k) [NM_ANN] = false -> vsrc2 v)
      by (intros k v IN NE; exact (proj1 (V2 k v IN NE))).
    assert (T2 := plain_fields4 _ rec f [NM_ANN] s1 (hlen (sh s)) KTaxon x ob R4 T1 Uf1 Hy K1 NA SK FO V2 IN1 G (fun e I => I) s2 LP).
    destruct (plain_fields2 h0 seeds _ rec f [NM_ANN] s1 (hlen (sh s)) KTaxon x ob (proj1 R4) I1 J1 Uf1 Hy K1 NA SK FO V2' IN1 G (fun e I => I) s2 LP) as [L2 _].
    assert (U2' : (U s2 < f)%nat) by (eapply U_lt_ext; [exact (l_ext h0 seeds _ _ L2) | exact Uf1]).
    assert (Hd2 : n0 <= hlen (sh s) < hlen (sh s2)) by (destruct (l_ext h0 seeds _ _ L2) as [LL _]; lia).
    assert (Ky2 : kind_at (sh s2) (hlen (sh s)) = Some KTaxon) by (eapply kind_ext; [exact (l_ext h0 seeds _ _ L2) | exact K1]).
    assert (Ix2 : In (x, hlen (sh s)) (sc s2)) by (apply (proj1 (l_ext2 h0 seeds _ _ L2)); exact IN1).
    assert (AK2 : is_annk (okind ob) = true) by (rewrite KO; reflexivity).
    exact (dcaf4 rec f s2 (hlen (sh s)) x KTaxon ob R4 T2 U2' Hd2 Ky2 eq_refl Vs Ix2 G AK2 s3 DC).
  - (* KNamespace *)
    destruct (new_copy s x ob) as [s1 y] eqn:NC. cbn [fst snd] in *. subst y.
    destruct (bget (obody ob) NM_TAXA) as [[?|lt]|] eqn:BT; try discriminate.
    assert (Vl : 0 <= lt < n0).
    { destruct (Hclosed _ _ _ _ G (bget_In _ _ _ BT)) as [_ X]. exact X. }
    destruct (H2taxa x ob lt G KO BT) as [lo [GL [KL CL]]].
    cbn [alloc] in H.
    set (y := hlen (sh s)) in *.
    set (s2 := fst (alloc s1 (mkObj CLS_LIST KList []))) in *.
    change (mkSt (sh s1 ++ [mkObj CLS_LIST KList []]) (sm s1) (snone s1) (sc s1)) with s2 in H.
    set (l := hlen (sh s1)) in *.
    rewrite put_note_memo_comm in H.
    set (sn := memo_set (note s2 lt l) lt l) in *.
    set (s3 := put sn y NM_TAXA (R l)) in *.
    assert (I2 : Inv s2) by (apply inv_alloc_empty; exact I1).
    assert (J2 : Inv2 s2) by (apply (inv2_alloc h0 seeds); auto; simpl; intros; discriminate).
    assert (L2 : hlen (sh s2) = hlen (sh s1) + 1) by (unfold s2; simpl; apply hlen_app1).
    assert (K2 : kind_at (sh s2) l = Some KList) by apply (kind_alloc_new s1).
    assert (Gl : hget (sh s2) l = Some (mkObj CLS_LIST KList [])) by (unfold s2, l; simpl; apply hget_app_new).
    assert (Ky2 : kind_at (sh s2) y = Some KNamespace) by (eapply kind_ext; [apply ext_alloc | exact K1]).
    assert (In' : Inv sn).
    { apply inv_memo_set; [apply inv_note; exact I2 | exact Vl | left; change (n0 <= l < hlen (sh s2)); unfold l; lia
                          | unfold l; intro; lia]. }
    assert (Jn : Inv2 sn).
    { apply inv2_memo_set; [|intros _; left; left; reflexivity].
      apply (inv2_note h0 seeds); [exact I2 | exact J2 | exact Vl | unfold l; lia | | |].
      - apply (not_in_range_new h0 s1 l J1). unfold l. lia.
      - exists lo. eexists. split; [exact GL|]. split; [exact Gl|]. split; [rewrite CL; reflexivity|].
        split; [rewrite KL; reflexivity|]. intros k0 v0 [].
      - intros o ob' Ho Go.
        assert (NE : forall k, bget (obody ob') k <> Some (R l)).
        { intros k B. destruct (Z.eq_dec o l) as [E|E].
          - subst o. rewrite Gl in Go. inversion Go; subst ob'. discriminate B.
          - assert (R0 := hget_Some_range _ _ _ Go). rewrite L2 in R0.
            assert (G0 : hget (sh s1) o = Some ob').
            { unfold s2 in Go. simpl in Go. rewrite hget_app_old in Go by (unfold l in E; lia). exact Go. }
            assert (X := fresh_refs_lt h0 seeds s1 o ob' k (R l) l I1 Ho G0 (bget_In _ _ _ B) (or_intror eq_refl)).
            unfold l in X. lia. }
        split; [intros _; apply NE|]. intros _. split; apply NE. }
    assert (Kyn : kind_at (sh sn) y = Some KNamespace) by exact Ky2.
    assert (Ixn : In (x, y) (sc sn)) by (right; exact IN1).
    assert (I3 : Inv s3).
    { apply inv_put; [exact In' | unfold y; lia | exact Logic.I | left; change (n0 <= l < hlen (sh s2)); unfold l; lia |].
      eapply put_side_kind; [exact Kyn | intros _; discriminate | discriminate]. }
    assert (J3' : Inv2 s3).
    { apply inv2_put; [exact Jn | |].
      - eapply justified_by with (x := x) (k := NM_TAXA) (v := R lt);
          [exact Jn | exact Ixn | exact G | apply bget_In; exact BT | reflexivity | left; left; reflexivity].
      - eapply priv_side_kind; [exact Kyn | intros _; discriminate | discriminate]. }
    assert (E13 : Ext s1 s3).
    { eapply ext_trans; [apply ext_alloc|]. eapply ext_trans; [apply ext_note|].
      eapply ext_trans; [apply ext_memo_set | apply ext_put]. }
    assert (HL3 : hlen (sh s3) = hlen (sh s) + 2).
    { unfold s3. rewrite put_hlen. change (hlen (sh s2) = hlen (sh s) + 2). lia. }
    assert (SM1 : sm s1 = (x, y) :: sm s /\ sc s1 = (x, y) :: sc s).
    { assert (X := new_copy_eq s x ob). rewrite NC in X. inversion X. split; reflexivity. }
    destruct SM1 as [SM1 SC1].
    assert (NElt : lt <> x).
    { intro C. subst lt. rewrite G in GL. inversion GL; subst lo. congruence. }
    assert (K43 : Inv4 s3).
    { unfold s3. apply inv4_put. unfold sn. rewrite <- note_memo_comm. apply inv4_note.
      - apply inv4_memo_set. apply inv4_alloc; [exact K41 | constructor].
      - destruct (H2noalias x ob NM_TAXA (R lt) G (bget_In _ _ _ BT)) as [_ X]; [intros [_ C]; discriminate C | exact X].
      - intros x' ob' G' KO' BT'. assert (x' = x) by exact (H4distinct x' x ob' ob lt G' G KO' KO BT' BT). subst x'.
        change (sm (memo_set s2 lt l)) with ((lt, l) :: sm s1). rewrite SM1. rewrite !alookup_cons, Z.eqb_refl.
        destruct (x =? lt); discriminate.
      - left. change (sm (memo_set s2 lt l)) with ((lt, l) :: sm s1). rewrite alookup_cons, Z.eqb_refl. discriminate.
      - left. intros b' I. change (sc (memo_set s2 lt l)) with (sc s1) in I. rewrite SC1 in I. destruct I as [I|I].
        + inversion I. apply NElt. symmetry. assumption.
        + exact (k_taxa _ K4 x ob lt b' G KO BT I ML).
      - intros _. right. exists x, ob. auto. }
    assert (T3 := mkSt4 _ I3 J3' K43).
    assert (U3 : (U s3 < f)%nat) by (eapply U_lt_ext; [exact E13 | exact Uf1]).
    assert (Ix3 : In (x, y) (sc s3)) by (unfold s3; rewrite put_sc; exact Ixn).
    assert (Il3 : In (lt, l) (sc s3)) by (unfold s3; rewrite put_sc; left; reflexivity).
    destruct (copy_append rec s3 l 0 (values (body_of s3 lt))) as [s4| |] eqn:LP; simpl in H; try discriminate.
    destruct (plain_fields rec [NM_ANN; NM_TAXA] s4 y (obody ob)) as [s5| |] eqn:LF; simpl in H; try discriminate.
    destruct (deep_copy_annotations_from rec s5 y x) as [s6| |] eqn:DC; simpl in H; try discriminate.
    inversion H; subst s' v'. clear H.
    rewrite (body_of_old h0 seeds s3 lt I3) in LP by lia. rewrite GL in LP.
    assert (Hl : n0 <= l) by (unfold l; lia).
    assert (Kl3 : kind_at (sh s3) l = Some KList) by (unfold s3; rewrite put_kind; exact K2).
    assert (FKl : free_kind KList) by (split; [reflexivity | discriminate]).
    assert (VSl : Forall vsrc2 (values (obody lo))).
    { apply (old_values_vsrc2 h0 Hclosed H2noalias lt lo GL). rewrite KL. reflexivity. }
    assert (NSl : Forall nt (values (obody lo))) by (apply (old_values_nt lt lo GL); rewrite KL; discriminate).
    assert (SRC : forall j a, nth_error (values (obody lo)) j = Some a -> In (pidx (0 + Z.of_nat j), a) (obody lo)).
    { apply (list_source_entries h0 H2listkeys lt lo GL). left. exact KL. }
    assert (T4 := copy_append4 _ rec f s3 l 0 KList lt lo R4 T3 U3 Hl Kl3 FKl VSl NSl Il3 GL SRC s4 LP).
    destruct (copy_append2 h0 seeds (values (obody lo)) rec f s3 l 0 KList lt lo (proj1 R4) I3 J3' U3 Hl Kl3 FKl VSl Il3 GL SRC s4 LP)
      as [L34 _].
    assert (Ky4 : kind_at (sh s4) y = Some KNamespace).
    { eapply kind_ext; [exact (l_ext h0 seeds _ _ L34)|]. unfold s3. rewrite put_kind. exact Kyn. }
    assert (U4 : (U s4 < f)%nat) by (eapply U_lt_ext; [exact (l_ext h0 seeds _ _ L34) | exact U3]).
    assert (NA4 : KNamespace <> KAnnSet) by discriminate.
    assert (SK4 : is_annk KNamespace = true -> In NM_ANN [NM_ANN; NM_TAXA]) by (intros _; left; reflexivity).
    assert (Fx4 : Forall (fun e : val * val => (exists p, fst e = P p) /\ vsrc (snd e)) (obody ob)).
    { eapply old_fields; [exact Hclosed | exact Hkeys | exact G | tauto]. }
    assert (V24 : forall k v, In (k, v) (obody ob) -> existsb (val_eqb k) [NM_ANN; NM_TAXA] = false -> vsrc2 v /\ nt v).
    { intros k v IN NS. split.
      - destruct (old_entry_vsrc2 h0 Hclosed H2noalias x ob k v G IN) as [_ X]; [|exact X].
        intros [_ C]. subst k. simpl in NS. discriminate NS.
      - destruct (H4private x ob k v G IN) as [_ [X|[_ X]]]; [exact X|]. subst k. simpl in NS. discriminate NS. }
    assert (V24' : forall k v, In (k, v) (obody ob) -> existsb (val_eqb k) [NM_ANN; NM_TAXA] = false -> vsrc2 v)
      by (intros k v IN NE; exact (proj1 (V24 k v IN NE))).
    assert (Ix4 : In (x, y) (sc s4)) by (apply (proj1 (l_ext2 h0 seeds _ _ L34)); exact Ix3).
    assert (T5 := plain_fields4 _ rec f [NM_ANN; NM_TAXA] s4 y KNamespace x ob R4 T4 U4 Hy Ky4 NA4 SK4 Fx4 V24 Ix4 G
               (fun e I => I) s5 LF).
    destruct (plain_fields2 h0 seeds (obody ob) rec f [NM_ANN; NM_TAXA] s4 y KNamespace x ob (proj1 R4) (t4_inv _ T4) (t4_inv2 _ T4)
                U4 Hy Ky4 NA4 SK4 Fx4 V24' Ix4 G (fun e I => I) s5 LF) as [L45 _].
    assert (L35 : Loop2 s3 s5) by exact (loop2_trans h0 seeds _ _ _ L34 L45).
    assert (U5 : (U s5 < f)%nat) by (eapply U_lt_ext; [exact (l_ext h0 seeds _ _ L35) | exact U3]).
    assert (Hd5 : n0 <= y < hlen (sh s5)) by (destruct (l_ext h0 seeds _ _ L35) as [LL _]; unfold y; lia).
    assert (Ky5 : kind_at (sh s5) y = Some KNamespace) by (eapply kind_ext; [exact (l_ext h0 seeds _ _ L45) | exact Ky4]).
    assert (Ix5 : In (x, y) (sc s5)) by (apply (proj1 (l_ext2 h0 seeds _ _ L35)); exact Ix3).
    assert (AK5 : is_annk (okind ob) = true) by (rewrite KO; reflexivity).
    exact (dcaf4 rec f s5 y x KNamespace ob R4 T5 U5 Hd5 Ky5 eq_refl Vs Ix5 G AK5 s6 DC).
  - (* KCDict *)
    destruct (new_copy s x ob) as [s1 y] eqn:NC. cbn [fst snd] in *. subst y.
    destruct (copy_entries rec false s1 (hlen (sh s)) (obody ob)) as [s2| |] eqn:LP; simpl in H; try discriminate.
    inversion H; subst s' v'.
    assert (FK : free_kind KCDict) by (split; [reflexivity | discriminate]).
    assert (VS := old_entries_vsrc2 h0 Hclosed H2noalias x ob G ltac:(rewrite KO; reflexivity)).
    assert (NS : Forall (fun e => nt (fst e) /\ nt (snd e)) (obody ob)) by (apply (old_entries_nt x ob G); rewrite KO; discriminate).
    exact (t4_inv4 _ (copy_entries4 _ rec f false s1 (hlen (sh s)) KCDict x ob R4 T1 Uf1 Hy K1 FK VS NS IN1 G (fun e I => I) s2 LP)).
Qed.

Theorem dc_spec4 : forall f, RecSpec4 (dc f) f.
Proof.
  induction f as [|f IH].
  - split; [apply (dc_specB h0 seeds Hclosed Hitems Hnames Hkeys H2listkeys H2noalias H2taxa H2bound H2ilist H2ilist2)|].
    intros s v _ _ _ _ _ H. lia.
  - simpl. apply dc_step4. exact IH.
Qed.

End Fun.
