(* C15, object level: no list object is shared, over all histories; child_nodes() returns a new
   object; a node assigned as seed is spliced out of its old parent's child list.
   The statements are about the GENERATED code of Gen/TraversalsObj.v. *)
From Coq Require Import ZArith List Bool Lia.
From DV Require Import Model.PyPrims Model.Tree Model.C15Prims Model.C15WorldPrims
     Gen.TraversalsObj Model.C15Model Model.C15World.
Import ListNotations.
Open Scope Z_scope.

(* ---- association lists ---- *)
Lemma alookup_app {A} k (l1 l2 : list (Z * A)) :
  alookup k (l1 ++ l2) = match alookup k l1 with Some v => Some v | None => alookup k l2 end.
Proof.
  induction l1 as [|[k' v] r IH]; cbn [app alookup]; [reflexivity|].
  destruct (Z.eqb k k'); [reflexivity|exact IH].
Qed.

Lemma alookup_aset_same {A} k (v : A) l : alookup k (aset k v l) = Some v.
Proof.
  induction l as [|[k' v'] r IH]; cbn [aset alookup].
  - rewrite Z.eqb_refl. reflexivity.
  - destruct (Z.eqb k k') eqn:E; cbn [alookup]; rewrite ?E, ?Z.eqb_refl; [reflexivity|exact IH].
Qed.

Lemma alookup_aset_other {A} k k2 (v : A) l : k2 <> k -> alookup k2 (aset k v l) = alookup k2 l.
Proof.
  intros N. induction l as [|[k' v'] r IH]; cbn [aset alookup].
  - destruct (Z.eqb k2 k) eqn:E; [apply Z.eqb_eq in E; contradiction|reflexivity].
  - destruct (Z.eqb k k') eqn:E; cbn [alookup].
    + apply Z.eqb_eq in E. subst k'.
      destruct (Z.eqb k2 k) eqn:E2; [apply Z.eqb_eq in E2; contradiction|reflexivity].
    + destruct (Z.eqb k2 k'); [reflexivity|exact IH].
Qed.

Lemma map_aset {A B} (g : Z * A -> B) k v v' (l : list (Z * A)) :
  alookup k l = Some v -> g (k, v') = g (k, v) -> map g (aset k v' l) = map g l.
Proof.
  induction l as [|[k' w] r IH]; cbn [alookup aset map]; [discriminate|].
  intros H Hg. destruct (Z.eqb k k') eqn:E.
  - apply Z.eqb_eq in E. subst k'. injection H as ->. cbn [map]. rewrite Hg. reflexivity.
  - cbn [map]. rewrite (IH H Hg). reflexivity.
Qed.

(* ---- the shape of a store: which list object each node owns, which list objects exist, the
   allocation pointer, what the caller holds.  Contents and parent pointers are not part of it. ---- *)
Definition shape (s : store) : list (Z * Z) * list Z * Z * list Z :=
  (map (fun nr : Z * nrec => (fst nr, n_kids (snd nr))) (s_nodes s), map fst (s_lists s), s_next s, s_held s).

Definition pres {A} (m : M A) : Prop := forall s a s', m s = Ok (a, s') -> shape s' = shape s.

Lemma pres_ret {A} (a : A) : pres (ret a).
Proof. intros s a' s' H. injection H as _ <-. reflexivity. Qed.

Lemma pres_raise {A} e : pres (@raise A e).
Proof. intros s a s' H. discriminate. Qed.

Lemma pres_bind {A B} (m : M A) (f : A -> M B) : pres m -> (forall a, pres (f a)) -> pres (mbind m f).
Proof.
  intros Hm Hf s b s'' H. unfold mbind in H.
  destruct (m s) as [[a s']| |] eqn:E; try discriminate.
  rewrite (Hf a _ _ _ H). exact (Hm _ _ _ E).
Qed.

Lemma pres_o_child_list x : pres (o_child_list x).
Proof. intros s a s' H. unfold o_child_list in H. destruct (node_of s x); [|discriminate]. injection H as _ <-. reflexivity. Qed.

Lemma pres_o_get_parent x : pres (o_get_parent x).
Proof. intros s a s' H. unfold o_get_parent in H. destruct (node_of s x); [|discriminate]. injection H as _ <-. reflexivity. Qed.

Lemma pres_o_set_parent x p : pres (o_set_parent x p).
Proof.
  intros s a s' H. unfold o_set_parent in H. destruct (node_of s x) as [r|] eqn:E; [|discriminate].
  injection H as _ <-. unfold shape, set_nodes. cbn [s_nodes s_lists s_next s_held].
  rewrite (map_aset (fun nr : Z * nrec => (fst nr, n_kids (snd nr))) x r _ _ E); reflexivity.
Qed.

Lemma pres_l_contents l : pres (l_contents l).
Proof. intros s a s' H. unfold l_contents in H. destruct (list_of s l); [|discriminate]. injection H as _ <-. reflexivity. Qed.

Lemma pres_l_put l c : pres (l_put l c).
Proof.
  intros s a s' H. unfold l_put in H. destruct (list_of s l) as [c0|] eqn:E; [|discriminate].
  injection H as _ <-. unfold shape, set_lists. cbn [s_nodes s_lists s_next s_held].
  rewrite (map_aset (@fst Z (list Z)) l c0 c _ E); reflexivity.
Qed.

Lemma pres_l_clear l : pres (l_clear l).
Proof. apply pres_l_put. Qed.

Lemma pres_l_append l y : pres (l_append l y).
Proof. apply pres_bind; [apply pres_l_contents|intros; apply pres_l_put]. Qed.

Lemma pres_l_mem l y : pres (l_mem l y).
Proof. apply pres_bind; [apply pres_l_contents|intros; apply pres_ret]. Qed.

Lemma pres_l_remove l y : pres (l_remove l y).
Proof.
  apply pres_bind; [apply pres_l_contents|]. intros c. match goal with |- pres (if ?b then _ else _) => destruct b end; [apply pres_l_put|apply pres_raise].
Qed.

Lemma pres_mtry m : pres m -> pres (mtry_value m).
Proof.
  intros Hm s a s' H. unfold mtry_value in H.
  destruct (m s) as [[a0 s0]|e|] eqn:E.
  - injection H as <- <-. exact (Hm _ _ _ E).
  - destruct e; try discriminate. injection H as _ <-. reflexivity.
  - discriminate.
Qed.

Lemma pres_mfor xs body : (forall x, pres (body x)) -> pres (mfor xs body).
Proof.
  intros Hb. induction xs as [|x r IH]; cbn [mfor]; [apply pres_ret|].
  apply pres_bind; [apply Hb|intros; exact IH].
Qed.

Lemma pres_t_set_seed t x : pres (t_set_seed t x).
Proof.
  intros s a s' H. unfold t_set_seed in H. destruct x as [n|]; [|discriminate].
  destruct (Z.ltb t 0); [discriminate|].
  destruct (Z.ltb t _).
  - injection H as _ <-. reflexivity.
  - destruct (Z.eqb t _); [|discriminate]. injection H as _ <-. reflexivity.
Qed.

Ltac pres_tac :=
  repeat first
    [ apply pres_ret | apply pres_raise | apply pres_o_child_list | apply pres_o_get_parent
    | apply pres_o_set_parent | apply pres_l_contents | apply pres_l_put | apply pres_l_clear
    | apply pres_l_append | apply pres_l_mem | apply pres_l_remove | apply pres_t_set_seed
    | apply pres_mtry | apply pres_mfor; intros | apply pres_bind; [|intros]
    | match goal with
      | |- pres (if ?b then _ else _) => destruct b
      | |- pres (match ?o with Some _ => _ | None => _ end) => destruct o
      end ].

(* the generated mutators other than child_nodes keep the shape: they allocate nothing and never
   make a node point to another list object *)
Lemma pres_clear_child_nodes x : pres (Node_clear_child_nodes_obj x).
Proof. unfold Node_clear_child_nodes_obj. pres_tac. Qed.

Lemma pres_add_child x y : pres (Node_add_child_obj x y).
Proof. unfold Node_add_child_obj. pres_tac. Qed.

Lemma pres_set_child_nodes x l : pres (Node_set_child_nodes_obj x l).
Proof. unfold Node_set_child_nodes_obj. pres_tac; try apply pres_clear_child_nodes; try apply pres_add_child. Qed.

Lemma pres_set_parent_node x p : pres (Node_set_parent_node_obj x p).
Proof. unfold Node_set_parent_node_obj. pres_tac. Qed.

Lemma pres_set_seed_node t x : pres (Tree_set_seed_node_obj t x).
Proof. unfold Tree_set_seed_node_obj. pres_tac; try apply pres_set_parent_node. Qed.

(* ---- the invariant ---- *)
Definition owned (s : store) : list Z := map (fun nr : Z * nrec => n_kids (snd nr)) (s_nodes s) ++ s_held s.

(* no list object shared (between two nodes, or a node and the caller), and the allocator is ahead *)
Definition sep (s : store) : Prop := NoDup (owned s) /\ (forall o, In o (owned s) -> o < s_next s).

Lemma owned_shape s s' : shape s' = shape s -> owned s' = owned s /\ s_next s' = s_next s.
Proof.
  unfold shape, owned. intros H. injection H as H1 _ H3 H4. split; [|exact H3].
  rewrite H4. f_equal.
  assert (E : forall l : list (Z * nrec), map (fun nr => n_kids (snd nr)) l = map snd (map (fun nr => (fst nr, n_kids (snd nr))) l)).
  { intros l. rewrite map_map. reflexivity. }
  rewrite !E, H1. reflexivity.
Qed.

Lemma sep_shape s s' : shape s' = shape s -> sep s -> sep s'.
Proof.
  intros H [N B]. destruct (owned_shape _ _ H) as [E1 E2]. split.
  - rewrite E1. exact N.
  - intros o Ho. rewrite E1 in Ho. rewrite E2. exact (B o Ho).
Qed.

Lemma sep_pres {A} (m : M A) s a s' : pres m -> m s = Ok (a, s') -> sep s -> sep s'.
Proof. intros P H. apply sep_shape. exact (P _ _ _ H). Qed.

Lemma NoDup_app_single (l1 l2 : list Z) x :
  NoDup (l1 ++ l2) -> ~ In x (l1 ++ l2) -> NoDup ((l1 ++ [x]) ++ l2).
Proof.
  intros N NI. rewrite <- app_assoc. cbn [app].
  apply NoDup_Add with (a := x) (l := l1 ++ l2); [apply Add_app|split; assumption].
Qed.

Lemma sep_new_node x s s' : new_node x s = Ok (tt, s') -> sep s -> sep s'.
Proof.
  unfold new_node. destruct (node_of s x); [discriminate|]. intros H [N B]. injection H as <-.
  unfold sep, owned in *. cbn [s_nodes s_held s_next]. rewrite map_app. cbn [map snd n_kids].
  assert (NI : ~ In (s_next s) (map (fun nr : Z * nrec => n_kids (snd nr)) (s_nodes s) ++ s_held s)).
  { intros HI. specialize (B _ HI). lia. }
  split.
  - apply NoDup_app_single; assumption.
  - intros o Ho. rewrite <- app_assoc in Ho. cbn [app] in Ho.
    apply in_app_or in Ho. destruct Ho as [Ho|[<-|Ho]]; [| lia |].
    + assert (o < s_next s) by (apply B; apply in_or_app; left; exact Ho). lia.
    + assert (o < s_next s) by (apply B; apply in_or_app; right; exact Ho). lia.
Qed.

(* child_nodes(): the result is a list object that did not exist before, nobody else refers to it,
   its contents are those of the node's child list, and nothing else changes *)
Lemma child_nodes_new_object x s l s' :
  Node_child_nodes_obj x s = Ok (l, s') ->
  l = s_next s /\ s_next s' = s_next s + 1 /\ s_nodes s' = s_nodes s /\ s_held s' = s_held s /\ s_trees s' = s_trees s /\
  exists r c, node_of s x = Some r /\ list_of s (n_kids r) = Some c /\ s_lists s' = s_lists s ++ [(l, c)].
Proof.
  unfold Node_child_nodes_obj, mbind, o_child_list, l_copy, ret.
  destruct (node_of s x) as [r|] eqn:E1; [|discriminate].
  destruct (list_of s (n_kids r)) as [c|] eqn:E2; [|discriminate].
  intros H. injection H as <- <-. cbn [s_next s_nodes s_held s_trees s_lists].
  repeat split. exists r, c. repeat split; assumption.
Qed.

Lemma sep_child_nodes x s l s' :
  Node_child_nodes_obj x s = Ok (l, s') -> sep s -> sep s' /\ ~ In l (owned s') /\ l < s_next s'.
Proof.
  intros H [N B]. destruct (child_nodes_new_object _ _ _ _ H) as (-> & Hn & Hnodes & Hheld & _ & _).
  unfold sep, owned. rewrite Hnodes, Hheld, Hn. fold (owned s). repeat split.
  - exact N.
  - intros o Ho. specialize (B o Ho). lia.
  - intros HI. specialize (B _ HI). lia.
  - lia.
Qed.

(* a list the caller holds privately: not owned by anybody (yet) *)
Definition private (l : Z) (s : store) : Prop := sep s /\ ~ In l (owned s) /\ l < s_next s.

Lemma private_shape l s s' : shape s' = shape s -> private l s -> private l s'.
Proof.
  intros H (S & NI & L). destruct (owned_shape _ _ H) as [E1 E2]. split; [|split].
  - exact (sep_shape _ _ H S).
  - rewrite E1. exact NI.
  - rewrite E2. exact L.
Qed.

Lemma private_new_node l x s s' : new_node x s = Ok (tt, s') -> private l s -> private l s'.
Proof.
  intros H (S & NI & L). split; [exact (sep_new_node _ _ _ H S)|].
  unfold new_node in H. destruct (node_of s x); [discriminate|]. injection H as <-.
  unfold owned in *. cbn [s_nodes s_held s_next]. rewrite map_app. cbn [map snd n_kids]. split; [|lia].
  intros HI. rewrite <- app_assoc in HI. cbn [app] in HI. apply in_app_or in HI.
  destruct HI as [HI|[HI|HI]]; [apply NI; apply in_or_app; left; exact HI | lia | apply NI; apply in_or_app; right; exact HI].
Qed.

Lemma private_edit l e s s' : apply_edit l e s = Ok (tt, s') -> private l s -> private l s'.
Proof.
  destruct e as [x|i x|i| |]; cbn [apply_edit]; intros H P.
  - unfold mbind in H. destruct (new_node x s) as [[[] s1]| |] eqn:E; try discriminate.
    apply (private_shape l s1); [exact (pres_l_append _ _ _ _ _ H)|exact (private_new_node _ _ _ _ E P)].
  - unfold mbind at 1 in H. destruct (new_node x s) as [[[] s1]| |] eqn:E; try discriminate.
    apply (private_shape l s1); [|exact (private_new_node _ _ _ _ E P)].
    revert H. apply (pres_bind (l_contents l)); [apply pres_l_contents|intros; apply pres_l_put].
  - apply (private_shape l s); [|exact P]. revert H. apply (pres_bind (l_contents l)); [apply pres_l_contents|intros; apply pres_l_put].
  - apply (private_shape l s); [|exact P]. revert H. apply (pres_bind (l_contents l)); [apply pres_l_contents|intros; apply pres_l_put].
  - apply (private_shape l s); [|exact P]. exact (pres_l_clear _ _ _ _ H).
Qed.

Lemma private_edits l es : forall s s', apply_edits l es s = Ok (tt, s') -> private l s -> private l s'.
Proof.
  induction es as [|e r IH]; cbn [apply_edits]; intros s s' H P.
  - injection H as <-. exact P.
  - unfold mbind in H. destruct (apply_edit l e s) as [[[] s1]| |] eqn:E; try discriminate.
    exact (IH _ _ H (private_edit _ _ _ _ E P)).
Qed.

Lemma sep_hold l s s' : hold l s = Ok (tt, s') -> private l s -> sep s'.
Proof.
  unfold hold. intros H ((N & B) & NI & L). injection H as <-. unfold sep, owned in *.
  cbn [s_nodes s_held s_next]. rewrite app_assoc. split.
  - pose proof (NoDup_app_single (map (fun nr : Z * nrec => n_kids (snd nr)) (s_nodes s) ++ s_held s) [] l) as Q.
    rewrite !app_nil_r in Q. apply Q; assumption.
  - intros o Ho. apply in_app_or in Ho. destruct Ho as [Ho|[<-|[]]]; [exact (B o Ho)|exact L].
Qed.

Lemma sep_build t : forall s s', build t s = Ok (tt, s') -> sep s -> sep s'.
Proof.
  induction t as [i tx lb ln ks IH] using tree_ind'.
  cbn [build]. induction IH as [|k r Hk Hr IHr]; intros s s' H S.
  - injection H as <-. exact S.
  - unfold mbind at 1 in H. destruct (new_node (t_id k) s) as [[[] s1]| |] eqn:E1; try discriminate.
    unfold mbind at 1 in H. destruct (Node_add_child_obj i (t_id k) s1) as [[a s2]| |] eqn:E2; try discriminate.
    unfold mbind at 1 in H. destruct (build k s2) as [[[] s3]| |] eqn:E3; try discriminate.
    apply (IHr _ _ H). apply (Hk _ _ E3). apply (sep_pres _ _ _ _ (pres_add_child _ _) E2).
    exact (sep_new_node _ _ _ E1 S).
Qed.

Lemma sep_new_tree t s s' : new_tree t s = Ok (tt, s') -> sep s -> sep s'.
Proof.
  unfold new_tree. intros H S.
  unfold mbind at 1 in H. destruct (new_node (t_id t) s) as [[[] s1]| |] eqn:E1; try discriminate.
  unfold mbind at 1 in H. destruct (Tree_set_seed_node_obj (n_trees s1) (Some (t_id t)) s1) as [[[] s2]| |] eqn:E2; try discriminate.
  apply (sep_build _ _ _ H). apply (sep_pres _ _ _ _ (pres_set_seed_node _ _) E2). exact (sep_new_node _ _ _ E1 S).
Qed.

(* every step of a history keeps the list objects separate *)
Lemma sep_step st s s' : do_step st s = Ok (tt, s') -> sep s -> sep s'.
Proof.
  destruct st as [n es pb|n|t n|n p|n x|n|t|k p n]; cbn [do_step]; intros H S.
  - unfold mbind at 1 in H. destruct (Node_child_nodes_obj n s) as [[l s1]| |] eqn:E1; try discriminate.
    unfold mbind at 1 in H. destruct (apply_edits l es s1) as [[[] s2]| |] eqn:E2; try discriminate.
    assert (P : private l s2) by (apply (private_edits _ _ _ _ E2); exact (sep_child_nodes _ _ _ _ E1 S)).
    destruct pb.
    + exact (sep_pres _ _ _ _ (pres_set_child_nodes _ _) H (proj1 P)).
    + exact (sep_hold _ _ _ H P).
  - exact (sep_pres _ _ _ _ (pres_set_seed_node _ _) H S).
  - exact (sep_pres _ _ _ _ (pres_set_seed_node _ _) H S).
  - exact (sep_pres _ _ _ _ (pres_set_parent_node _ _) H S).
  - unfold mbind at 1 in H. destruct (new_node x s) as [[[] s1]| |] eqn:E1; try discriminate.
    refine (sep_pres _ _ _ _ _ H (sep_new_node _ _ _ E1 S)). pres_tac. apply pres_add_child.
  - refine (sep_pres _ _ _ _ _ H S). unfold remove_child. pres_tac; apply pres_set_parent_node.
  - exact (sep_new_tree _ _ _ H S).
  - refine (sep_pres _ _ _ _ _ H S). destruct k; cbn [do_refused].
    + unfold remove_child. pres_tac; apply pres_set_parent_node.
    + pres_tac. apply pres_add_child.
Qed.

Fixpoint run_steps (sts : list step) : M unit :=
  match sts with
  | [] => ret tt
  | st :: r => mbind (do_step st) (fun _ => run_steps r)
  end.

Lemma sep_empty : sep empty_store.
Proof. split; [constructor|intros o []]. Qed.

Lemma sep_build_world ts : forall s s', build_world ts s = Ok (tt, s') -> sep s -> sep s'.
Proof.
  induction ts as [|t r IH]; cbn [build_world]; intros s s' H S.
  - injection H as <-. exact S.
  - unfold mbind in H. destruct (new_tree t s) as [[[] s1]| |] eqn:E; try discriminate.
    exact (IH _ _ H (sep_new_tree _ _ _ E S)).
Qed.

Lemma sep_history ts sts s0 s :
  build_world ts empty_store = Ok (tt, s0) -> run_steps sts s0 = Ok (tt, s) -> sep s.
Proof.
  intros H0. assert (S0 : sep s0) by exact (sep_build_world _ _ _ H0 sep_empty). clear H0.
  revert s0 S0. induction sts as [|st r IH]; cbn [run_steps]; intros s0 S0 H.
  - injection H as <-. exact S0.
  - unfold mbind in H. destruct (do_step st s0) as [[[] s1]| |] eqn:E; try discriminate.
    exact (IH _ (sep_step _ _ _ E S0) H).
Qed.

(* ---- frame: what the caller does to a list it holds privately is invisible to every node ---- *)
Lemma kids_of_l_put l c s s' x :
  l_put l c s = Ok (tt, s') -> (forall r, node_of s x = Some r -> n_kids r <> l) ->
  kids_of s' x = kids_of s x /\ parent_of s' x = parent_of s x.
Proof.
  unfold l_put. destruct (list_of s l); [|discriminate]. intros H Hx. injection H as <-.
  unfold kids_of, parent_of, node_of, list_of, set_lists. cbn [s_nodes s_lists].
  destruct (alookup x (s_nodes s)) as [r|] eqn:E; [|split; reflexivity].
  rewrite alookup_aset_other by (apply Hx; exact E). split; reflexivity.
Qed.

Lemma not_owned_not_kids l s x r : ~ In l (owned s) -> node_of s x = Some r -> n_kids r <> l.
Proof.
  intros NI E <-. apply NI. unfold owned. apply in_or_app. left.
  unfold node_of in E. induction (s_nodes s) as [|[k v] rest IH]; cbn [alookup] in E; [discriminate|].
  cbn [map snd]. destruct (Z.eqb x k); [injection E as ->; left; reflexivity|right; exact (IH E)].
Qed.

(* ---- the seed_node setter splices the new seed out of its old context ---- *)
Lemma remove_first_notin y c : memZ y c = false -> remove_first y c = c.
Proof.
  induction c as [|x r IH]; cbn [memZ existsb remove_first]; [reflexivity|].
  destruct (Z.eqb y x); cbn [orb]; [discriminate|]. intros H. rewrite (IH H). reflexivity.
Qed.

Lemma node_of_set_parent x y r p s :
  node_of s x = Some r ->
  node_of (set_nodes s (aset x (mkN (n_kids r) p) (s_nodes s))) y =
  if Z.eqb y x then Some (mkN (n_kids r) p) else node_of s y.
Proof.
  intros E. unfold node_of, set_nodes. cbn [s_nodes].
  destruct (Z.eqb y x) eqn:Eq.
  - apply Z.eqb_eq in Eq. subst y. apply alookup_aset_same.
  - apply alookup_aset_other. intros ->. rewrite Z.eqb_refl in Eq. discriminate.
Qed.

(* tree.seed_node = n / Tree(seed_node=n) for a node n whose parent is p: afterwards n has no parent and
   p's child list (the same list object, mutated in place) has lost its first occurrence of n; all other
   list objects and all other parent pointers are as before *)
Lemma seed_spliced_out t n p s s' :
  Tree_set_seed_node_obj t (Some n) s = Ok (tt, s') ->
  parent_of s n = Some p ->
  parent_of s' n = None /\
  kids_of s' p = remove_first n (kids_of s p) /\
  (forall y, y <> n -> parent_of s' y = parent_of s y) /\
  (forall rp l, node_of s p = Some rp -> l <> n_kids rp -> list_of s' l = list_of s l).
Proof.
  unfold Tree_set_seed_node_obj, parent_of. intros H Hp.
  destruct (node_of s n) as [r|] eqn:En; [|discriminate].
  unfold mbind at 1 in H. destruct (t_set_seed t (Some n) s) as [[[] s1]| |] eqn:E1; try discriminate.
  assert (Q : s_nodes s1 = s_nodes s /\ s_lists s1 = s_lists s).
  { unfold t_set_seed in E1. destruct (Z.ltb t 0); [discriminate|]. destruct (Z.ltb t _).
    - injection E1 as <-. split; reflexivity.
    - destruct (Z.eqb t _); [|discriminate]. injection E1 as <-. split; reflexivity. }
  destruct Q as [Qn Ql].
  assert (N1 : forall y, node_of s1 y = node_of s y) by (intros y; unfold node_of; rewrite Qn; reflexivity).
  assert (L1 : forall l, list_of s1 l = list_of s l) by (intros l; unfold list_of; rewrite Ql; reflexivity).
  cbv beta iota in H. cbn [negb] in H. cbv beta iota in H.
  unfold mbind at 1 in H. unfold mbind at 1 in H. unfold o_get_parent at 1 in H. rewrite N1, En, Hp in H.
  cbv beta iota in H. cbn [negb] in H. cbv beta iota in H. unfold ret at 1 in H. cbv beta iota in H.
  unfold Node_set_parent_node_obj in H.
  unfold mbind at 1 in H. unfold mbind at 1 in H. unfold o_get_parent at 1 in H. rewrite N1, En, Hp in H.
  cbv beta iota in H. cbn [negb] in H. cbv beta iota in H.
  (* the try block: remove n from p's child list *)
  match type of H with match ?m s1 with _ => _ end = _ => destruct (m s1) as [[[] s2]|e|] eqn:E2 end;
    try discriminate.
  assert (R : (forall y, node_of s2 y = node_of s y) /\
              kids_of s2 p = remove_first n (kids_of s p) /\
              (forall rp l, node_of s p = Some rp -> l <> n_kids rp -> list_of s2 l = list_of s l)).
  { unfold mtry_value, mbind in E2. unfold o_get_parent at 1 in E2. rewrite N1, En, Hp in E2.
    unfold o_child_list in E2. rewrite N1 in E2. unfold kids_of.
    destruct (node_of s p) as [rp|] eqn:Epn.
    - unfold l_remove, mbind, l_contents in E2. rewrite L1 in E2.
      destruct (list_of s (n_kids rp)) as [c|] eqn:Ec.
      + destruct (C15WorldPrims.memZ n c) eqn:Em.
        * unfold l_put in E2. rewrite L1, Ec in E2. injection E2 as <-.
          split; [|split].
          -- intros y. unfold node_of, set_lists. cbn [s_nodes]. rewrite Qn. reflexivity.
          -- unfold node_of, list_of, set_lists. cbn [s_nodes s_lists]. rewrite Qn. fold (node_of s p). rewrite Epn.
             rewrite alookup_aset_same. reflexivity.
          -- intros rp' l Hrp Hl. injection Hrp as <-. unfold list_of, set_lists. cbn [s_lists].
             rewrite alookup_aset_other by exact Hl. rewrite Ql. reflexivity.
        * unfold raise in E2. injection E2 as <-.
          split; [|split].
          -- exact N1.
          -- rewrite N1, Epn, L1, Ec. symmetry. apply remove_first_notin. exact Em.
          -- intros; apply L1.
      + discriminate.
    - discriminate. }
  destruct R as (Rn & Rk & Rl).
  (* self._parent_node = None, then nothing more *)
  unfold mbind at 1 in H. unfold o_set_parent at 1 in H. rewrite Rn, En in H.
  unfold mbind at 1 in H. unfold o_get_parent at 1 in H.
  rewrite (node_of_set_parent n n r None s2) in H by (rewrite Rn; exact En).
  rewrite Z.eqb_refl in H. cbn [n_parent negb ret] in H. injection H as <-.
  split; [|split; [|split]].
  - rewrite (node_of_set_parent n n r None s2) by (rewrite Rn; exact En). rewrite Z.eqb_refl. reflexivity.
  - rewrite <- Rk. unfold kids_of. rewrite (node_of_set_parent n p r None s2) by (rewrite Rn; exact En).
    destruct (Z.eqb p n) eqn:Epn.
    + apply Z.eqb_eq in Epn. subst p. rewrite Rn, En. reflexivity.
    + reflexivity.
  - intros y Hy. rewrite (node_of_set_parent n y r None s2) by (rewrite Rn; exact En).
    destruct (Z.eqb y n) eqn:Ey; [apply Z.eqb_eq in Ey; contradiction|]. rewrite Rn. reflexivity.
  - intros rp l Hrp Hl. rewrite <- (Rl rp l Hrp Hl). reflexivity.
Qed.

Lemma memZ_In y c : C15WorldPrims.memZ y c = true <-> In y c.
Proof.
  unfold C15WorldPrims.memZ. rewrite existsb_exists. split.
  - intros (x & Hx & E). apply Z.eqb_eq in E. subst x. exact Hx.
  - intros H. exists y. split; [exact H|apply Z.eqb_refl].
Qed.

Lemma remove_first_NoDup y c : NoDup c -> ~ In y (remove_first y c).
Proof.
  induction c as [|x r IH]; cbn [remove_first]; intros N; [intros []|].
  inversion N as [|x' r' Hx Nr]; subst.
  destruct (Z.eqb y x) eqn:E.
  - apply Z.eqb_eq in E. subst x. exact Hx.
  - intros [->|H]; [rewrite Z.eqb_refl in E; discriminate|exact (IH Nr H)].
Qed.

Lemma seed_not_a_child_any_more t n p s s' :
  Tree_set_seed_node_obj t (Some n) s = Ok (tt, s') -> parent_of s n = Some p -> NoDup (kids_of s p) ->
  ~ In n (kids_of s' p) /\ parent_of s' n = None.
Proof.
  intros H Hp N. destruct (seed_spliced_out _ _ _ _ _ H Hp) as (A & B & _). split; [|exact A].
  rewrite B. apply remove_first_NoDup. exact N.
Qed.

Lemma private_list_frame l c s s' x :
  private l s -> l_put l c s = Ok (tt, s') -> kids_of s' x = kids_of s x /\ parent_of s' x = parent_of s x.
Proof.
  intros (_ & NI & _) H. apply (kids_of_l_put l c s s' x H). intros r E. exact (not_owned_not_kids _ _ _ _ NI E).
Qed.

(* satisfiability: a history through all the routes on which sharing could arise *)
Definition ex_tree : tree :=
  T 0 None None None [T 1 None None None [T 2 None None None []; T 3 None None None []]; T 4 None None None []].
Definition ex_steps : list step :=
  [SKids 4 [EAppend 5] true; SKids 2 [EAppend 6] false; STreeFromSeed 1; SNewChild 1 7; SAssignSeed 0 4].

Lemma ex_history_runs :
  exists s0 s, build_world [ex_tree] empty_store = Ok (tt, s0) /\ run_steps ex_steps s0 = Ok (tt, s) /\
               s_trees s = [4; 1] /\ kids_of s 0 = [] /\ kids_of s 4 = [5] /\ kids_of s 1 = [2; 3; 7] /\ kids_of s 2 = [] /\
               held_contents s = [[6]].
Proof. eexists. eexists. vm_compute. repeat split. Qed.

Lemma ex_attached_seed :
  exists s0 s', build_world [ex_tree] empty_store = Ok (tt, s0) /\ parent_of s0 1 = Some 0 /\ NoDup (kids_of s0 0) /\
                Tree_set_seed_node_obj 1 (Some 1) s0 = Ok (tt, s').
Proof.
  eexists. eexists. split; [vm_compute; reflexivity|]. split; [vm_compute; reflexivity|]. split.
  - vm_compute. repeat constructor; cbn; intuition discriminate.
  - vm_compute. reflexivity.
Qed.
