(* C10: label lookups, require_taxon, immutability, removal by label, Newick rendering. *)
From Coq Require Import ZArith List Bool Lia Permutation.
From DV Require Import Model.PyPrims Model.C10Model Proofs.C10Lists Proofs.C10Inv Proofs.C10Bits.
Import ListNotations.
Open Scope Z_scope.

(* the first element a filter keeps is the first element of the list satisfying the test *)
Lemma filter_cons_split {A} (f : A -> bool) (l : list A) (t : A) (r : list A) :
  filter f l = t :: r ->
  exists pre post, l = pre ++ t :: post /\ (forall x, In x pre -> f x = false)
                   /\ f t = true /\ r = filter f post.
Proof.
  induction l as [|y l' IH]; simpl; [discriminate|].
  destruct (f y) eqn:F.
  - intros E; inversion E; subst. exists [], l'. simpl. repeat split; auto. contradiction.
  - intros E. destruct (IH E) as (pre & post & E1 & E2 & E3 & E4).
    exists (y :: pre), post. subst l'. repeat split; auto.
    intros x [H|H]; [subst; exact F| apply E2; exact H].
Qed.

Lemma filter_nil_iff {A} (f : A -> bool) (l : list A) :
  filter f l = [] <-> forall x, In x l -> f x = false.
Proof.
  induction l as [|y l' IH]; simpl; [tauto|].
  destruct (f y) eqn:F.
  - split; [discriminate|]. intros H. rewrite (H y) in F by (left; reflexivity). discriminate.
  - rewrite IH. split; [intros H x [E|E]; [subst; exact F| apply H; exact E] | intros H x E; apply H; right; exact E].
Qed.

Lemma memb_cons x t r : memb x (t :: r) = Z.eqb x t || memb x r.
Proof. reflexivity. Qed.

(* removing a duplicate-free list of members one after the other *)
Lemma remove_each_spec n ts : Inv n -> NoDup ts -> incl ts (taxa n) ->
  exists n', remove_each n ts = Ok n'
    /\ taxa n' = filter (fun x => negb (memb x ts)) (taxa n)
    /\ (forall x, alookup x (acc n') = if memb x ts then None else alookup x (acc n))
    /\ count n' = count n /\ is_mut n' = is_mut n /\ is_cs n' = is_cs n.
Proof.
  revert n. induction ts as [|t r IH]; intros n I Hd Hi.
  - exists n. simpl. split; [reflexivity|]. split; [|auto].
    clear. induction (taxa n) as [|y l IHl]; [reflexivity|]. cbn [filter memb existsb negb]. f_equal. exact IHl.
  - cbn [remove_each]. inversion Hd as [|? ? Ht Hr]; subst.
    assert (Mt : In t (taxa n)) by (apply Hi; left; reflexivity).
    destruct (remove_taxon n t) as [n1| |] eqn:R.
    2,3: (unfold remove_taxon in R; apply memb_In in Mt; rewrite Mt in R; simpl in R; discriminate).
    pose proof (remove_taxon_inv _ _ _ I R) as I1.
    unfold remove_taxon in R. destruct (memb t (taxa n)); simpl in R; [|discriminate].
    inversion R as [Q]; clear R.
    assert (T1 : taxa n1 = remove_all t (taxa n)) by (rewrite <- Q; reflexivity).
    assert (A1 : acc n1 = aremove t (acc n)) by (rewrite <- Q; reflexivity).
    assert (C1 : count n1 = count n /\ is_mut n1 = is_mut n /\ is_cs n1 = is_cs n)
      by (rewrite <- Q; auto).
    destruct (IH n1 I1 Hr) as (n' & E & T & A & C & Mu & Cs).
    { intros x Hx. rewrite T1. apply In_remove_all. split; [apply Hi; right; exact Hx|].
      intros Ex. subst. contradiction. }
    exists n'. split; [rewrite Q; exact E|]. split; [|split; [|intuition congruence]].
    + rewrite T, T1, remove_all_filter, filter_filter. apply filter_ext_in'.
      intros x _. rewrite memb_cons, negb_orb, (Z.eqb_sym t x). reflexivity.
    + intros x. rewrite A, A1, alookup_aremove, memb_cons.
      destruct (Z.eqb x t); simpl; [destruct (memb x r); reflexivity| reflexivity].
Qed.

Section WithLower.
Variable lower : lbl -> lbl.

(* ---------- 6. lookups ---------- *)

Theorem findall_spec_l (w : world) (l : lbl) (cs : option bool) :
  step lower w (FindAll l cs)
  = (w, OTaxa (filter (matches lower w (use_cs (w_ns w) cs) l) (taxa (w_ns w)))).
Proof. reflexivity. Qed.

Theorem get_taxon_first_l (w : world) (l : lbl) (cs : option bool) :
  let f := matches lower w (use_cs (w_ns w) cs) l in
  (forall t, step lower w (GetTaxon l cs) = (w, OTax (Some t)) <->
     exists pre post, taxa (w_ns w) = pre ++ t :: post
                      /\ (forall x, In x pre -> f x = false) /\ f t = true)
  /\ (step lower w (GetTaxon l cs) = (w, OTax None) <->
        forall x, In x (taxa (w_ns w)) -> f x = false)
  /\ step lower w (GetTaxon l cs) = (w, OTax (hd_error (filter f (taxa (w_ns w))))).
Proof.
  intros f. cbn [step]. unfold lookup_first, lookup_all. fold f.
  destruct (filter f (taxa (w_ns w))) as [|t0 r] eqn:F.
  - split; [|split; [|reflexivity]].
    + intros t. split; [discriminate|]. intros (pre & post & E & _ & Ft).
      rewrite filter_nil_iff in F. rewrite F in Ft; [discriminate|].
      rewrite E. apply in_or_app. right. left. reflexivity.
    + split; [intros _; apply filter_nil_iff; exact F| reflexivity].
  - destruct (filter_cons_split _ _ _ _ F) as (pre & post & E1 & E2 & E3 & E4).
    split; [|split; [|reflexivity]].
    + intros t. split.
      * intros H. inversion H; subst. exists pre, post. auto.
      * intros (pre' & post' & E & Hp & Ft). rewrite E in F.
        rewrite filter_app in F. assert (N : filter f pre' = []) by (apply filter_nil_iff; exact Hp).
        rewrite N in F. simpl in F. rewrite Ft in F. inversion F. reflexivity.
    + split; [discriminate|]. intros H. rewrite (proj2 (filter_nil_iff f _) H) in F. discriminate.
Qed.

Theorem has_label_spec_l (w : world) (l : lbl) (cs : option bool) :
  exists b, step lower w (HasLabel l cs) = (w, OBool b)
    /\ (b = true <-> exists t, In t (taxa (w_ns w)) /\ matches lower w (use_cs (w_ns w) cs) l t = true).
Proof.
  cbn [step]. unfold lookup_first, lookup_all.
  destruct (filter _ (taxa (w_ns w))) as [|t0 r] eqn:F.
  - exists false. split; [reflexivity|]. split; [discriminate|]. intros (t & M & Ft).
    rewrite filter_nil_iff in F. rewrite F in Ft by exact M. discriminate.
  - exists true. split; [reflexivity|]. split; [|reflexivity]. intros _. exists t0.
    apply filter_In. rewrite F. left. reflexivity.
Qed.

(* require_taxon *)
Theorem require_taxon_spec_l (w : world) (l : lbl) (cs : option bool) :
  (forall t r, lookup_all lower w l cs = t :: r ->
     step lower w (RequireTaxon l cs) = (w, OTax (Some t)))
  /\ (lookup_all lower w l cs = [] -> is_mut (w_ns w) = false ->
        step lower w (RequireTaxon l cs) = (w, OErr TypeErr))
  /\ (WInv w -> lookup_all lower w l cs = [] -> is_mut (w_ns w) = true ->
      exists w', step lower w (RequireTaxon l cs) = (w', OTax (Some (w_next w)))
        /\ ~ In (w_next w) (taxa (w_ns w))
        /\ taxa (w_ns w') = taxa (w_ns w) ++ [w_next w]
        /\ alookup (w_next w) (acc (w_ns w')) = Some (count (w_ns w))
        /\ count (w_ns w') = count (w_ns w) + 1
        /\ label_of w' (w_next w) = l
        /\ (forall t, t <> w_next w ->
              label_of w' t = label_of w t /\ alookup t (acc (w_ns w')) = alookup t (acc (w_ns w)))
        /\ w_next w' = w_next w + 1
        /\ is_mut (w_ns w') = true /\ is_cs (w_ns w') = is_cs (w_ns w)).
Proof.
  split; [|split].
  - intros t r E. cbn [step]. unfold lookup_first. rewrite E. reflexivity.
  - intros E M. cbn [step]. unfold lookup_first. rewrite E, M. reflexivity.
  - intros [I B] E M. cbn [step]. unfold lookup_first. rewrite E, M. cbn [negb].
    assert (NM : ~ In (w_next w) (taxa (w_ns w))) by (intros H; apply B in H; lia).
    assert (A : alookup (w_next w) (acc (w_ns w)) = None).
    { destruct (alookup (w_next w) (acc (w_ns w))) eqn:A; [|reflexivity].
      exfalso. apply NM. apply (inv_dom _ I). eauto. }
    unfold new_taxon, add_taxon. rewrite M, A. cbn [negb].
    eexists. split; [reflexivity|]. cbn [w_ns taxa acc count w_next is_mut is_cs].
    split; [exact NM|]. split; [reflexivity|]. split; [apply alookup_aset_eq|].
    split; [reflexivity|]. split.
    { unfold label_of. cbn [w_lab alookup]. rewrite Z.eqb_refl. reflexivity. }
    split; [|auto].
    intros t Ht. split.
    + unfold label_of. cbn [w_lab alookup]. destruct (Z.eqb_spec t (w_next w)); [contradiction| reflexivity].
    + apply alookup_aset_neq. exact Ht.
Qed.

(* an immutable namespace never gains a member *)
Theorem immutable_never_grows_l (w : world) (o : op) :
  is_mut (w_ns w) = false -> (forall b, o <> SetMutable b) -> o <> DeepCopy ->
  incl (taxa (w_ns (fst (step lower w o)))) (taxa (w_ns w))
  /\ is_mut (w_ns (fst (step lower w o))) = false.
Proof.
  intros M NS ND. destruct (step_trans lower w o ND) as [S|[S|(b & E & _)]].
  - apply star_grows in S. split; [|rewrite (g_mut _ _ S); exact M].
    intros x H. eapply Permutation_in; [apply Permutation_sym; apply (g_immut _ _ S M)| exact H].
  - apply star_shrinks in S. split; [|rewrite (s_mut _ _ S); exact M].
    intros x H. apply (s_taxa _ _ S). exact H.
  - exfalso. apply (NS b). exact E.
Qed.

Theorem immutable_run_never_grows_l (w : world) (ops : list op) :
  is_mut (w_ns w) = false -> (forall b, ~ In (SetMutable b) ops) -> ~ In DeepCopy ops ->
  incl (taxa (w_ns (run_world lower w ops))) (taxa (w_ns w))
  /\ is_mut (w_ns (run_world lower w ops)) = false.
Proof.
  revert w. unfold run_world. induction ops as [|o r IH]; intros w M NS ND; simpl.
  - split; [apply incl_refl| exact M].
  - destruct (immutable_never_grows_l w o M) as [H1 H2].
    + intros b E. apply (NS b). left. exact E.
    + intros E. apply ND. left. exact E.
    + destruct (IH (fst (step lower w o)) H2) as [H3 H4].
      * intros b E. apply (NS b). right. exact E.
      * intros E. apply ND. right. exact E.
      * split; [|exact H4]. eapply incl_tran; eauto.
Qed.

(* remove_taxon_label / discard_taxon_label *)
Definition removed_exactly (w w' : world) (gone : list tid) : Prop :=
  taxa (w_ns w') = filter (fun x => negb (memb x gone)) (taxa (w_ns w))
  /\ (forall x, alookup x (acc (w_ns w')) = if memb x gone then None else alookup x (acc (w_ns w)))
  /\ count (w_ns w') = count (w_ns w)
  /\ is_mut (w_ns w') = is_mut (w_ns w) /\ is_cs (w_ns w') = is_cs (w_ns w)
  /\ w_lab w' = w_lab w /\ w_next w' = w_next w.

Lemma lookup_all_nodup w l cs : Inv (w_ns w) ->
  NoDup (lookup_all lower w l cs) /\ incl (lookup_all lower w l cs) (taxa (w_ns w)).
Proof.
  intros I. unfold lookup_all. split; [apply NoDup_filter; apply (inv_nodup _ I)|].
  intros x H. apply filter_In in H. tauto.
Qed.

Lemma remove_matches_spec w l cs (first : bool) t r : Inv (w_ns w) ->
  lookup_all lower w l cs = t :: r ->
  exists w', lift_ns w (remove_each (w_ns w) (if first then [t] else t :: r)) OUnit = (w', OUnit)
    /\ removed_exactly w w' (if first then [t] else t :: r).
Proof.
  intros I E. destruct (lookup_all_nodup w l cs I) as [Hd Hi]. rewrite E in Hd, Hi.
  destruct (remove_each_spec (w_ns w) (if first then [t] else t :: r) I) as (n' & R & T & A & C & Mu & Cs).
  - destruct first; [|exact Hd]. constructor; [simpl; tauto| constructor].
  - destruct first; [|exact Hi]. intros x [H|[]]. subst. apply Hi. left. reflexivity.
  - rewrite R. eexists. split; [reflexivity|]. unfold removed_exactly, set_ns. cbn [w_ns w_lab w_next].
    repeat split; assumption.
Qed.

Theorem remove_label_spec_l (w : world) (l : lbl) (cs : option bool) (first : bool) :
  (lookup_all lower w l cs = [] -> step lower w (RemoveLabel l cs first) = (w, OErr LookupErr))
  /\ (forall t r, Inv (w_ns w) -> lookup_all lower w l cs = t :: r ->
        exists w', step lower w (RemoveLabel l cs first) = (w', OUnit)
                   /\ removed_exactly w w' (if first then [t] else t :: r)).
Proof.
  split.
  - intros E. cbn [step]. rewrite E. reflexivity.
  - intros t r I E. cbn [step]. rewrite E. apply (remove_matches_spec w l cs first t r I E).
Qed.

Theorem discard_label_spec_l (w : world) (l : lbl) (cs : option bool) (first : bool) :
  (lookup_all lower w l cs = [] -> step lower w (DiscardLabel l cs first) = (w, OUnit))
  /\ (forall t r, Inv (w_ns w) -> lookup_all lower w l cs = t :: r ->
        exists w', step lower w (DiscardLabel l cs first) = (w', OUnit)
                   /\ removed_exactly w w' (if first then [t] else t :: r)).
Proof.
  split.
  - intros E. cbn [step]. rewrite E. reflexivity.
  - intros t r I E. cbn [step]. rewrite E. apply (remove_matches_spec w l cs first t r I E).
Qed.

(* ---------- 5. Newick rendering of a bitmask ---------- *)

Definition bit_set (ac : list (tid * Z)) (m : Z) (t : tid) : bool :=
  match alookup t ac with Some i => Z.testbit m i | None => false end.

Lemma newick_groups_spec w n m ts l r : Inv n -> incl ts (taxa n) ->
  exists n', newick_groups w n m ts l r
             = Ok (n', (l ++ map (label_of w) (filter (bit_set (acc n) m) ts),
                        r ++ map (label_of w) (filter (fun t => negb (bit_set (acc n) m t)) ts)))
    /\ same_core n n' /\ Inv n'.
Proof.
  revert n l r. induction ts as [|t rest IH]; intros n l r I Hi.
  - exists n. simpl. rewrite !app_nil_r. split; [reflexivity|]. split; [apply same_core_refl| exact I].
  - assert (Mt : In t (taxa n)) by (apply Hi; left; reflexivity).
    destruct (taxon_bitmask_member n t I Mt) as (n1 & i & T & A).
    destruct (taxon_bitmask_spec _ _ _ _ I T) as (I1 & C1 & _).
    pose proof (inv_range _ I _ _ A) as Ri.
    assert (Hi1 : incl rest (taxa n1)).
    { destruct C1 as (E & _). rewrite E. intros x Hx. apply Hi. right. exact Hx. }
    assert (Ea : acc n1 = acc n) by apply C1.
    cbn [newick_groups]. rewrite T. rewrite land_shiftl1_zero by lia. rewrite negb_involutive.
    assert (BS : bit_set (acc n) m t = Z.testbit m i) by (unfold bit_set; rewrite A; reflexivity).
    cbn [filter]. rewrite !BS.
    destruct (Z.testbit m i) eqn:B; cbn [negb].
    + destruct (IH n1 (l ++ [label_of w t]) r I1 Hi1) as (n' & E & C & I').
      exists n'. rewrite E, Ea. cbn [map]. rewrite <- app_assoc. cbn [app].
      split; [reflexivity|]. split; [eapply same_core_trans; eauto| exact I'].
    + destruct (IH n1 l (r ++ [label_of w t]) I1 Hi1) as (n' & E & C & I').
      exists n'. rewrite E, Ea. cbn [map]. rewrite <- app_assoc. cbn [app].
      split; [reflexivity|]. split; [eapply same_core_trans; eauto| exact I'].
Qed.

Theorem newick_rendering_names_exactly_l (w : world) (m : Z) :
  Inv (w_ns w) ->
  ((m = 0 \/ m = all_taxa_bitmask (w_ns w)) ->
     step lower w (NewickGroups m) = (w, OGroup1 (map (label_of w) (taxa (w_ns w)))))
  /\ (m <> 0 -> m <> all_taxa_bitmask (w_ns w) ->
      exists n',
        step lower w (NewickGroups m)
        = (set_ns w n',
           OGroups (map (label_of w) (filter (bit_set (acc (w_ns w)) m) (taxa (w_ns w))))
                   (map (label_of w) (filter (fun t => negb (bit_set (acc (w_ns w)) m t)) (taxa (w_ns w)))))
        /\ same_core (w_ns w) n' /\ Inv n').
Proof.
  intros I. split.
  - intros H. cbn [step].
    assert (E : (m =? 0) || (m =? all_taxa_bitmask (w_ns w)) = true).
    { apply orb_true_iff. destruct H; [left|right]; apply Z.eqb_eq; assumption. }
    rewrite E. reflexivity.
  - intros H0 H1. cbn [step].
    assert (E : (m =? 0) || (m =? all_taxa_bitmask (w_ns w)) = false).
    { apply orb_false_iff. split; apply Z.eqb_neq; assumption. }
    rewrite E.
    destruct (newick_groups_spec w (w_ns w) m (taxa (w_ns w)) [] [] I (incl_refl _)) as (n' & R & C & I').
    rewrite R. exists n'. cbn [app]. split; [reflexivity|]. split; assumption.
Qed.

End WithLower.
