(* C08Gen: the loop of Node.extract_subtree (normal form, Proofs/C08GenBase.v) run over the post-order
   of the source simulates the fold of C08Model.x_step: nodes below self. *)
From Coq Require Import ZArith List Bool Lia.
From DV Require Import Model.PyPrims Model.Tree Model.Heap Model.HeapOps Model.C15Prims Model.MutPrims Gen.Mutators
     Model.C03GenInst Model.C08GenPrims Gen.Extract Model.C08GenInst Proofs.C03Base Proofs.C08GenBase Proofs.C08GenSteps.
From DV Require Model.C08Model.
Import ListNotations.
Open Scope Z_scope.

(* the filter of the model (ids on which node_filter_fn is true) and the callable of the generated code *)
Definition filter_ok (h0 : heap) (t : tree) (P : xpar) (flt : C08Model.xfilter) : Prop :=
  match flt, p_fn P with
  | None, None => True
  | Some (lfl, il, oks), Some f =>
    lfl = p_lf P /\ il = p_intl P /\
    forall s nd, In nd (ids t) -> get (xh s) nd = get h0 nd -> f s nd = C08Model.memz nd oks
  | _, _ => False
  end.

Lemma x_excl_ok h0 t P flt s u :
  filter_ok h0 t P flt -> In (t_id u) (ids t) -> get (xh s) (t_id u) = get h0 (t_id u) ->
  kids (xh s) (t_id u) = map t_id (t_kids u) ->
  x_excl P s (t_id u) = C08Model.x_excluded flt u.
Proof.
  unfold filter_ok, x_excl, C08Model.x_excluded. intros F Hin Hg Hk.
  destruct flt as [[[lfl il] oks]|]; destruct (p_fn P) as [f|]; try contradiction; [|reflexivity].
  destruct F as [-> [-> Hf]]. rewrite (Hf s (t_id u) Hin Hg), Hk. unfold is_leaf.
  destruct (t_kids u); reflexivity.
Qed.

Definition src_ok (h0 : heap) (s : xstate) : Prop := forall j, j < next h0 -> get (xh s) j = get h0 j.

(* the state of the model's fold while nodes below self are visited *)
Definition mstate (mm : list (Z * tree)) (self : Z) : C08Model.xs := C08Model.mkxs mm None (Some self) false None.

Definition root_ok (on : bool) (s : xstate) (memo : list (Z * Z)) (mm : list (Z * tree)) (a k : Z) : Prop :=
  match py_dict_get Z.eqb k memo, C08Model.lookup k mm with
  | None, None => True
  | Some n, Some v => n < next (xh s) /\ img on a s n v /\ parent (xh s) n = None
  | _, _ => False
  end.

Lemma lookup_cons_same k v mm : C08Model.lookup k ((k, v) :: mm) = Some v.
Proof. simpl. rewrite Z.eqb_refl. reflexivity. Qed.
Lemma lookup_cons_other k k' v mm : k <> k' -> C08Model.lookup k ((k', v) :: mm) = C08Model.lookup k mm.
Proof. intro N. simpl. destruct (Z.eqb_spec k' k); [congruence|reflexivity]. Qed.

Lemma cta_rel_weaken on s : forall ns vs a a' b, a' <= a -> cta_rel on s a b ns vs -> cta_rel on s a' b ns vs.
Proof.
  intros [|n r] [|v vs] a a' b L H; simpl in *; try contradiction; [lia|].
  destruct H as [Hi [Hp Hr]]. split; [eapply img_weaken; eassumption|]. split; assumption.
Qed.

Lemma mfor_app {S X V} (body : X -> V -> S -> mres S (lctl V)) : forall a b v s,
  mfor body (a ++ b) v s =
  match mfor body a v s with
  | MOk (LNext v') s' => mfor body b v' s'
  | other => other
  end.
Proof.
  induction a as [|x r IH]; intros b v s; [reflexivity|]. simpl.
  destruct (body x v s) as [[v'|v'] s'|e s'|]; try reflexivity. apply IH.
Qed.

Lemma mfor_one {S X V} (body : X -> V -> S -> mres S (lctl V)) x v s v' s' :
  body x v s = MOk (LNext v') s' -> mfor body [x] v s = MOk (LNext v') s'.
Proof. intro H. simpl. rewrite H. reflexivity. Qed.

Section Sim.
Variable h0 : heap.
Variable t : tree.
Variable P : xpar.
Variable flt : C08Model.xfilter.
Variable haspar : bool.
Hypothesis Hflt : filter_ok h0 t P flt.

Let self := p_self P.
Let base := next h0.
Let on := p_on P.
Let sup := p_sup P.

(* a node below self whose children have been processed *)
Lemma node_create i pu x l e ks cta vs s a iex memo mm :
  i <> self -> i < base ->
  get (xh s) i = mkCell (Some pu) (map t_id ks) e x l ->
  base <= a ->
  cta_rel on s a (next (xh s)) cta vs ->
  exists s' memo' mm',
    create P i cta (iex, Some self, lastn base s, None, memo) s = MOk (LNext (iex, Some self, lastn base s', None, memo')) s' /\
    C08Model.x_create self (mstate mm self) (T i x l e ks) vs = mstate mm' self /\
    next (xh s) <= next (xh s') /\
    (forall j, j < a -> get (xh s') j = get (xh s) j /\ xsource s' j = xsource s j) /\
    (forall k, k <> i -> py_dict_get Z.eqb k memo' = py_dict_get Z.eqb k memo /\ C08Model.lookup k mm' = C08Model.lookup k mm) /\
    root_ok on s' memo' mm' a i.
Proof.
  intros Hself Hib Hcell Hba Hrel.
  destruct (cta_rel_bounds _ _ _ _ _ _ Hrel) as [Hab _].
  destruct (create_ok P i (Some pu) (map t_id ks) e x l cta vs a iex (Some self) (lastn base s) None memo s Hcell ltac:(lia) Hrel)
    as [s' [Hrun [Hnx [Himg [Hpar Hfr]]]]].
  exists s', (py_dict_set Z.eqb i (next (xh s)) memo), ((i, T i x l e vs) :: mm).
  split; [|split; [|split; [|split; [|split]]]].
  - rewrite Hrun. destruct (Z.eqb_spec i self) as [E|_]; [contradiction|].
    unfold lastn. rewrite Hnx. destruct (Z.eqb_spec (next (xh s) + 1) base); [lia|].
    replace (next (xh s) + 1 - 1) with (next (xh s)) by lia. reflexivity.
  - unfold C08Model.x_create, mstate. cbn [C08Model.x_memo C08Model.x_match C08Model.x_start C08Model.x_brk C08Model.x_err t_id t_taxon t_label t_len].
    destruct (Z.eqb_spec self i) as [E|_]; [congruence|]. reflexivity.
  - lia.
  - exact Hfr.
  - intros k Hk. split; [apply dget_set_other; exact Hk|apply lookup_cons_other; exact Hk].
  - unfold root_ok. rewrite dget_set_same, lookup_cons_same. split; [lia|]. split; assumption.
Qed.

Lemma node_step i pu x l e ks s a iex memo mm :
  i <> self -> i < base -> In i (ids t) ->
  get h0 i = mkCell (Some pu) (map t_id ks) e x l ->
  src_ok h0 s -> base <= a ->
  py_dict_get Z.eqb i memo = None -> C08Model.lookup i mm = None ->
  cta_rel on s a (next (xh s)) (cta_of memo (map t_id ks)) (C08Model.omap_list (fun ch => C08Model.lookup (t_id ch) mm) ks) ->
  exists s' iex' memo' mm',
    xbody P i (iex, Some self, lastn base s, None, memo) s = MOk (LNext (iex', Some self, lastn base s', None, memo')) s' /\
    C08Model.x_step flt sup self haspar (mstate mm self) (T i x l e ks) = mstate mm' self /\
    next (xh s) <= next (xh s') /\
    (forall j, j < a -> get (xh s') j = get (xh s) j /\ xsource s' j = xsource s j) /\
    (forall k, k <> i -> py_dict_get Z.eqb k memo' = py_dict_get Z.eqb k memo /\ C08Model.lookup k mm' = C08Model.lookup k mm) /\
    root_ok on s' memo' mm' a i.
Proof.
  intros Hself Hib Hin Hc0 Hsrc Hba Hfm Hfmm Hrel.
  assert (Hcell : get (xh s) i = mkCell (Some pu) (map t_id ks) e x l) by (rewrite (Hsrc i Hib); exact Hc0).
  assert (Hkids : kids (xh s) i = map t_id ks) by (unfold kids; rewrite Hcell; reflexivity).
  assert (Hpar : parent (xh s) i = Some pu) by (unfold parent; rewrite Hcell; reflexivity).
  destruct (cta_rel_bounds _ _ _ _ _ _ Hrel) as [Hab Hbd].
  pose proof (x_excl_ok h0 t P flt s (T i x l e ks) Hflt Hin (Hsrc i Hib) Hkids) as Hx. cbn [t_id] in Hx.
  unfold xbody. rewrite Hx.
  unfold C08Model.x_step. cbn [mstate C08Model.x_brk C08Model.x_err orb].
  destruct (C08Model.x_excluded flt (T i x l e ks)).
  { exists s, true, memo, mm. split; [reflexivity|]. split; [reflexivity|]. split; [lia|].
    split; [intros; split; reflexivity|]. split; [intros; split; reflexivity|].
    unfold root_ok. rewrite Hfm, Hfmm. exact I. }
  cbv zeta. rewrite Hkids.
  cbn [mstate C08Model.x_memo C08Model.x_start C08Model.x_match C08Model.x_brk C08Model.x_err t_kids t_id t_len].
  assert (Hes : (i =? p_self P) = false) by (apply Z.eqb_neq; exact Hself).
  unfold self in *. rewrite ?Hes. cbn [andb].
  set (cta := cta_of memo (map t_id ks)) in *.
  set (vs := C08Model.omap_list (fun ch => C08Model.lookup (t_id ch) mm) ks) in *.
  assert (Hcreate : exists s' iex' memo' mm',
    create P i cta (iex, Some self, lastn base s, None, memo) s = MOk (LNext (iex', Some self, lastn base s', None, memo')) s' /\
    C08Model.x_create self (mstate mm self) (T i x l e ks) vs = mstate mm' self /\
    next (xh s) <= next (xh s') /\
    (forall j, j < a -> get (xh s') j = get (xh s) j /\ xsource s' j = xsource s j) /\
    (forall k, k <> i -> py_dict_get Z.eqb k memo' = py_dict_get Z.eqb k memo /\ C08Model.lookup k mm' = C08Model.lookup k mm) /\
    root_ok on s' memo' mm' a i).
  { destruct (node_create i pu x l e ks cta vs s a iex memo mm Hself Hib Hcell Hba Hrel) as [s' [memo' [mm' R]]].
    exists s', iex, memo', mm'. exact R. }
  destruct cta as [|c [|c2 r]]; destruct vs as [|v [|v2 rv]]; try (simpl in Hrel; tauto); try exact Hcreate.
  - (* no child was retained *)
    unfold is_leaf. cbn [t_kids]. destruct ks as [|k0 kr].
    + cbn [map py_is_empty negb]. exact Hcreate.
    + cbn [map py_is_empty negb]. rewrite Hpar.
      exists s, iex, memo, mm. split; [reflexivity|]. split; [reflexivity|]. split; [lia|].
      split; [intros; split; reflexivity|]. split; [intros; split; reflexivity|].
      unfold root_ok. rewrite Hfm, Hfmm. exact I.
  - (* exactly one *)
    fold sup. destruct sup; [|exact Hcreate].
    assert (Hc : a <= c < next (xh s)) by (apply Hbd; left; reflexivity).
    assert (Hnd1 : lastn base s = Some (next (xh s) - 1)).
    { unfold lastn. destruct (Z.eqb_spec (next (xh s)) base); [lia|reflexivity]. }
    destruct (merge_ok P i (Some pu) (map t_id ks) e x l c v a iex (Some (p_self P)) (lastn base s) None memo s Hcell ltac:(lia) Hrel Hnd1)
      as [s' [Hrun [Hnx [Himg [Hp' [Hfr Hxs]]]]]].
    exists s', iex, (py_dict_set Z.eqb i c memo), ((i, C08Model.set_len v (C08Model.merge_len e (t_len v))) :: mm).
    split; [|split; [|split; [|split; [|split]]]].
    + rewrite Hrun. unfold merge_tail. unfold parent. rewrite (Hfr i ltac:(lia)), Hcell. cbn [c_parent].
      destruct (Z.eqb_spec i (p_self P)) as [E|_]; [contradiction|].
      unfold lastn. rewrite Hnx. reflexivity.
    + cbn [t_len]. reflexivity.
    + lia.
    + intros j Hj. split; [apply Hfr; exact Hj|apply Hxs].
    + intros k Hk. split; [apply dget_set_other; exact Hk|apply lookup_cons_other; exact Hk].
    + unfold root_ok. rewrite dget_set_same, lookup_cons_same. rewrite Hnx. split; [lia|]. split; assumption.
Qed.

(* ---------------------------------------------------------------- subtrees below self *)
Definition sub_ok (u : tree) : Prop :=
  forall pu s iex memo mm,
    rep h0 (Some pu) u ->
    (forall j, In j (ids u) -> j <> self /\ j < base /\ In j (ids t)) ->
    NoDup (ids u) ->
    src_ok h0 s -> base <= next (xh s) ->
    (forall k, In k (ids u) -> py_dict_get Z.eqb k memo = None /\ C08Model.lookup k mm = None) ->
    exists s' iex' memo' mm',
      mfor (xbody P) (post_ids u) (iex, Some self, lastn base s, None, memo) s
        = MOk (LNext (iex', Some self, lastn base s', None, memo')) s' /\
      fold_left (C08Model.x_step flt sup self haspar) (postorder u) (mstate mm self) = mstate mm' self /\
      next (xh s) <= next (xh s') /\
      (forall j, j < next (xh s) -> get (xh s') j = get (xh s) j /\ xsource s' j = xsource s j) /\
      (forall k, ~ In k (ids u) ->
         py_dict_get Z.eqb k memo' = py_dict_get Z.eqb k memo /\ C08Model.lookup k mm' = C08Model.lookup k mm) /\
      root_ok on s' memo' mm' (next (xh s)) (t_id u).

Definition forest_ok (ks : list tree) : Prop :=
  forall pu s iex memo mm,
    Forall (rep h0 (Some pu)) ks ->
    (forall j, In j (flat_map ids ks) -> j <> self /\ j < base /\ In j (ids t)) ->
    NoDup (flat_map ids ks) ->
    src_ok h0 s -> base <= next (xh s) ->
    (forall k, In k (flat_map ids ks) -> py_dict_get Z.eqb k memo = None /\ C08Model.lookup k mm = None) ->
    exists s' iex' memo' mm',
      mfor (xbody P) (flat_map post_ids ks) (iex, Some self, lastn base s, None, memo) s
        = MOk (LNext (iex', Some self, lastn base s', None, memo')) s' /\
      fold_left (C08Model.x_step flt sup self haspar) (flat_map postorder ks) (mstate mm self) = mstate mm' self /\
      next (xh s) <= next (xh s') /\
      (forall j, j < next (xh s) -> get (xh s') j = get (xh s) j /\ xsource s' j = xsource s j) /\
      (forall k, ~ In k (flat_map ids ks) ->
         py_dict_get Z.eqb k memo' = py_dict_get Z.eqb k memo /\ C08Model.lookup k mm' = C08Model.lookup k mm) /\
      cta_rel on s' (next (xh s)) (next (xh s')) (cta_of memo' (map t_id ks))
              (C08Model.omap_list (fun ch => C08Model.lookup (t_id ch) mm') ks).

Lemma src_ok_step s s' :
  src_ok h0 s -> base <= next (xh s) ->
  (forall j, j < next (xh s) -> get (xh s') j = get (xh s) j /\ xsource s' j = xsource s j) -> src_ok h0 s'.
Proof. intros H L F j Hj. destruct (F j ltac:(unfold base in *; lia)) as [-> _]. apply H. exact Hj. Qed.

Lemma forest_of_subs ks : Forall sub_ok ks -> forest_ok ks.
Proof.
  induction 1 as [|k r Hk _ IH]; intros pu s iex memo mm Hrep Hids ND Hsrc Hb Hfresh.
  - exists s, iex, memo, mm. simpl. split; [reflexivity|]. split; [reflexivity|]. split; [lia|].
    split; [intros; split; reflexivity|]. split; [intros; split; reflexivity|]. lia.
  - inversion Hrep as [|? ? Rk Rr]; subst. simpl flat_map in *.
    apply NoDup_app_iff in ND. destruct ND as [NDk [NDr Dis]].
    destruct (Hk pu s iex memo mm Rk) as [s1 [iex1 [memo1 [mm1 [Hrun1 [Hfold1 [Hn1 [Hfr1 [Hoth1 Hroot1]]]]]]]]]; auto.
    { intros j Hj. apply Hids. apply in_or_app. left. exact Hj. }
    { intros j Hj. apply Hfresh. apply in_or_app. left. exact Hj. }
    assert (Hsrc1 : src_ok h0 s1) by (eapply src_ok_step; eassumption).
    destruct (IH pu s1 iex1 memo1 mm1 Rr) as [s' [iex' [memo' [mm' [Hrun2 [Hfold2 [Hn2 [Hfr2 [Hoth2 Hrel2]]]]]]]]]; auto.
    { intros j Hj. apply Hids. apply in_or_app. right. exact Hj. }
    { lia. }
    { intros j Hj. destruct (Hoth1 j) as [-> ->]; [intro E; exact (Dis j E Hj)|].
      apply Hfresh. apply in_or_app. right. exact Hj. }
    exists s', iex', memo', mm'.
    split; [rewrite mfor_app, Hrun1; exact Hrun2|].
    split; [rewrite fold_left_app, Hfold1; exact Hfold2|].
    split; [lia|].
    split.
    { intros j Hj. destruct (Hfr2 j ltac:(lia)) as [-> ->]. apply Hfr1. exact Hj. }
    split.
    { intros j Hj. destruct (Hoth2 j) as [-> ->]; [intro E; apply Hj; apply in_or_app; right; exact E|].
      apply Hoth1. intro E. apply Hj. apply in_or_app. left. exact E. }
    (* the new nodes of the children *)
    assert (Hkr : ~ In (t_id k) (flat_map ids r)) by (intro E; exact (Dis (t_id k) (ids_root k) E)).
    destruct (Hoth2 (t_id k) Hkr) as [Em Emm].
    cbn [map]. unfold cta_of, C08Model.omap_list. cbn [flat_map].
    fold (cta_of memo' (map t_id r)). fold (C08Model.omap_list (fun ch => C08Model.lookup (t_id ch) mm') r).
    rewrite Em, Emm. unfold root_ok in Hroot1.
    destruct (py_dict_get Z.eqb (t_id k) memo1) as [n|]; destruct (C08Model.lookup (t_id k) mm1) as [v|]; try contradiction.
    + destruct Hroot1 as [Hnb [Hi Hp]]. pose proof (img_lo _ _ _ _ _ Hi) as Hlo. cbn [app cta_rel].
      split; [|split].
      * eapply img_frame; [|exact Hi]. intros j Hj. apply Hfr2. lia.
      * destruct (Hfr2 n Hnb) as [Fg _]. rewrite (fld_parent _ _ _ Fg). exact Hp.
      * eapply cta_rel_weaken; [|exact Hrel2]. lia.
    + cbn [app]. eapply cta_rel_weaken; [|exact Hrel2]. lia.
Qed.

Lemma map_flat_post (ks : list tree) : map t_id (flat_map postorder ks) = flat_map post_ids ks.
Proof. induction ks as [|k r IH]; simpl; [reflexivity|]. rewrite map_app, IH. reflexivity. Qed.

Lemma post_ids_node i x l e ks : post_ids (T i x l e ks) = flat_map post_ids ks ++ [i].
Proof. unfold post_ids. simpl. rewrite map_app, map_flat_post. reflexivity. Qed.

Lemma sub_ok_all : forall u, sub_ok u.
Proof.
  induction u as [i x l e ks IH] using tree_ind'. apply forest_of_subs in IH.
  intros pu s iex memo mm Hrep Hids ND Hsrc Hb Hfresh.
  apply rep_eq in Hrep. destruct Hrep as [_ [Hcell Hreps]].
  rewrite ids_eq in *. inversion ND as [|? ? Hni NDk]; subst.
  destruct (Hids i (or_introl eq_refl)) as [Hself [Hib Hit]].
  destruct (IH i s iex memo mm Hreps) as [s1 [iex1 [memo1 [mm1 [Hrun1 [Hfold1 [Hn1 [Hfr1 [Hoth1 Hrel1]]]]]]]]]; auto.
  { intros j Hj. apply Hids. right. exact Hj. }
  { intros j Hj. apply Hfresh. right. exact Hj. }
  assert (Hsrc1 : src_ok h0 s1) by (eapply src_ok_step; eassumption).
  destruct (Hoth1 i Hni) as [Em Emm]. destruct (Hfresh i (or_introl eq_refl)) as [Fm Fmm].
  destruct (node_step i pu x l e ks s1 (next (xh s)) iex1 memo1 mm1 Hself Hib Hit Hcell Hsrc1 Hb)
    as [s' [iex' [memo' [mm' [Hrun2 [Hstep [Hn2 [Hfr2 [Hoth2 Hroot]]]]]]]]].
  { rewrite Em. exact Fm. }
  { rewrite Emm. exact Fmm. }
  { exact Hrel1. }
  exists s', iex', memo', mm'.
  split.
  { rewrite post_ids_node, mfor_app, Hrun1. apply mfor_one. exact Hrun2. }
  split.
  { change (postorder (T i x l e ks)) with (flat_map postorder ks ++ [T i x l e ks]).
    rewrite fold_left_app, Hfold1. simpl. exact Hstep. }
  split; [lia|].
  split.
  { intros j Hj. destruct (Hfr2 j Hj) as [-> ->]. apply Hfr1. exact Hj. }
  split.
  { intros k Hk. destruct (Hoth2 k) as [-> ->]; [intros ->; apply Hk; left; reflexivity|].
    apply Hoth1. intro E. apply Hk. right. exact E. }
  exact Hroot.
Qed.

End Sim.
