(* C08, wave 8 (seed C08-9): the GENERATED Tree.prune_taxa (Gen/Mutators.v, compiled from
   src/dendropy/datamodel/treemodel/_tree.py on every run) handed an EMPTY set of taxa - the "keep all"
   subset: prune_taxa([]), prune_taxa_with_labels with labels that match nothing, retain_taxa /
   retain_taxa_with_labels naming the whole namespace - is NOT a no-op: it is exactly
   prune_leaves_without_taxa(recursive=True) with the same update_bipartitions / suppress_unifurcations,
   i.e. outdegree-one nodes already on the tree are still suppressed and the encoding is still refreshed.
   A source-level early return `if not taxa: return` changes Tree_prune_taxa and breaks
   C03GenPrune.gen_prune_taxa_e, on which everything here rests. *)
From Coq Require Import ZArith List Bool Lia.
From DV Require Import Model.PyPrims Model.Tree Model.Heap Model.HeapOps Model.C15Prims Model.MutPrims Gen.Mutators
     Model.C03GenInst Proofs.C03Base Proofs.C03GenPrims Proofs.C03GenPrune.
Import ListNotations.
Open Scope Z_scope.

Lemma prune_taxa_step_nil ne ol oi nd h : prune_taxa_step_e ne [] ol oi nd h = HOk h.
Proof.
  unfold prune_taxa_step_e. destruct (taxon h nd); cbn [memz]; rewrite andb_false_r; reflexivity.
Qed.

Lemma hfold_prune_taxa_nil ne ol oi : forall l h, hfold (prune_taxa_step_e ne [] ol oi) l h = HOk h.
Proof.
  induction l as [|x r IH]; intro h; [reflexivity|].
  cbn [hfold]. rewrite prune_taxa_step_nil. cbn [hbind]. apply IH.
Qed.

Lemma prune_taxa_e_nil ne ub su ol oi h t :
  abs_at h (seed h) = Some t -> prune_taxa_e ne [] ub su ol oi h = plwt_e ne true ub su h.
Proof.
  intro A. unfold prune_taxa_e, with_sub. rewrite A, hfold_prune_taxa_nil. reflexivity.
Qed.

(* the generated method on the empty set = the pointer-level prune_leaves_without_taxa(recursive=True) *)
Theorem gen_prune_taxa_keep_all (fuel : nat) (ub su ol oi : bool) (h : heap) (t : tree) :
  abs_at h (seed h) = Some t -> (fuel_of h <= fuel)%nat ->
  plwt_e OtherErr true ub su h <> HFuel ->
  to_hres (Tree_prune_taxa HG fuel [] ub su ol oi h) = plwt_e OtherErr true ub su h.
Proof.
  intros A Hf Hnf. rewrite <- (prune_taxa_e_nil OtherErr ub su ol oi h t A).
  apply gen_prune_taxa_e.
  - intros t' h1 _ E. rewrite hfold_prune_taxa_nil in E. inversion E; subst. exact Hf.
  - rewrite (prune_taxa_e_nil OtherErr ub su ol oi h t A). exact Hnf.
Qed.

(* ... = the generated prune_leaves_without_taxa(recursive=True) itself *)
Theorem gen_prune_taxa_keep_all_is_plwt (fuel : nat) (ub su ol oi : bool) (h : heap) (t : tree) :
  abs_at h (seed h) = Some t -> (fuel_of h <= fuel)%nat ->
  plwt_e OtherErr true ub su h <> HFuel ->
  to_hres (Tree_prune_taxa HG fuel [] ub su ol oi h)
  = to_hres (Tree_prune_leaves_without_taxa HG fuel true ub su h).
Proof.
  intros A Hf Hnf. rewrite (gen_prune_taxa_keep_all fuel ub su ol oi h t A Hf Hnf).
  symmetry. apply gen_plwt_e; assumption.
Qed.

(* retain_taxa naming every member of the namespace: the list handed to prune_taxa is empty *)
Lemma retain_all_filter_nil (namespace taxa : list Z) :
  (forall x, In x namespace -> memz x taxa = true) ->
  filter (fun x => negb (memz x taxa)) namespace = [].
Proof.
  induction namespace as [|a r IH]; intro H; [reflexivity|].
  cbn [filter]. rewrite (H a (or_introl eq_refl)). cbn [negb]. apply IH. intros x Hx. apply H. right. exact Hx.
Qed.

Theorem gen_retain_taxa_keep_all (fuel : nat) (namespace taxa : list Z) (ub su : bool) (h : heap) (t : tree) :
  (forall x, In x namespace -> memz x taxa = true) ->
  abs_at h (seed h) = Some t -> (fuel_of h <= fuel)%nat ->
  plwt_e OtherErr true ub su h <> HFuel ->
  to_hres (Tree_retain_taxa HG fuel namespace taxa ub su h) = plwt_e OtherErr true ub su h.
Proof.
  intros Hall A Hf Hnf. unfold Tree_retain_taxa. cbv zeta.
  assert (Ef : filter (fun t => negb (py_in Z.eqb t taxa)) namespace = [])
    by (rewrite <- (retain_all_filter_nil namespace taxa Hall); apply filter_ext; intro x;
        rewrite py_in_memz; reflexivity).
  rewrite Ef. pose proof (gen_prune_taxa_keep_all fuel ub su true false h t A Hf Hnf) as R.
  destruct (Tree_prune_taxa HG fuel [] ub su true false h) as [[] s|e s|]; exact R.
Qed.

(* satisfiable, and the unifurcation IS suppressed: ((A:1)X:2,B:1)R with the empty set, rooted *)
Definition ka_tree : tree :=
  T 0 None None None [T 1 None None (Some 2048) [T 2 (Some 0) None (Some 1024) []]; T 3 (Some 1) None (Some 1024) []].
Definition ka_heap : heap := of_tree ka_tree (Some true).

Example keep_all_hypotheses_hold :
  abs_at ka_heap (seed ka_heap) = Some ka_tree /\ (fuel_of ka_heap <= 10)%nat /\
  plwt_e OtherErr true false true ka_heap <> HFuel.
Proof. split; [vm_compute; reflexivity|]. split; [vm_compute; lia|]. vm_compute. discriminate. Qed.

Example keep_all_suppresses :
  match to_hres (Tree_prune_taxa HG 10 [] false true true false ka_heap) with
  | HOk h' => abs_at h' (seed h')
  | _ => None
  end = Some (T 0 None None None [T 2 (Some 0) None (Some 3072) []; T 3 (Some 1) None (Some 1024) []]).
Proof. vm_compute. reflexivity. Qed.

(* the same against HeapOps.v's operation language (the current source: v_now) *)
Lemma plwt_op_eq rc ub su h :
  run_op_v v_now (OPruneLeavesWithoutTaxa rc ub su) h = plwt_e OtherErr rc ub su h.
Proof. cbn [run_op_v v_now v_seed_guard run_op]. apply relab_plwt. Qed.

Theorem gen_prune_taxa_keep_all_op (fuel : nat) (ub su ol oi : bool) (h : heap) (t : tree) :
  abs_at h (seed h) = Some t -> (fuel_of h <= fuel)%nat ->
  run_op_v v_now (OPruneLeavesWithoutTaxa true ub su) h <> HFuel ->
  to_hres (Tree_prune_taxa HG fuel [] ub su ol oi h) = run_op_v v_now (OPruneLeavesWithoutTaxa true ub su) h /\
  to_hres (Tree_prune_taxa HG fuel [] ub su ol oi h) = to_hres (Tree_prune_leaves_without_taxa HG fuel true ub su h).
Proof.
  rewrite plwt_op_eq. intros A Hf Hnf. split.
  - exact (gen_prune_taxa_keep_all fuel ub su ol oi h t A Hf Hnf).
  - exact (gen_prune_taxa_keep_all_is_plwt fuel ub su ol oi h t A Hf Hnf).
Qed.

Theorem gen_retain_taxa_keep_all_op (fuel : nat) (namespace taxa : list Z) (ub su : bool) (h : heap) (t : tree) :
  (forall x, In x namespace -> memz x taxa = true) ->
  abs_at h (seed h) = Some t -> (fuel_of h <= fuel)%nat ->
  run_op_v v_now (OPruneLeavesWithoutTaxa true ub su) h <> HFuel ->
  to_hres (Tree_retain_taxa HG fuel namespace taxa ub su h) = run_op_v v_now (OPruneLeavesWithoutTaxa true ub su) h.
Proof. rewrite plwt_op_eq. exact (gen_retain_taxa_keep_all fuel namespace taxa ub su h t). Qed.

Example keep_all_op_hypotheses_hold :
  abs_at ka_heap (seed ka_heap) = Some ka_tree /\ (fuel_of ka_heap <= 10)%nat /\
  run_op_v v_now (OPruneLeavesWithoutTaxa true false true) ka_heap <> HFuel.
Proof. split; [vm_compute; reflexivity|]. split; [vm_compute; lia|]. vm_compute. discriminate. Qed.
