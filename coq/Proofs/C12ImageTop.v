(* C12, second wave: the image theorems for a run of the copy, and the converse of the scoped-sharing
   theorem. *)
From Coq Require Import ZArith List Bool Lia.
From DV Require Import Model.PyPrims Model.C12Model Model.C12Spec2 Proofs.C12Heap Proofs.C12Inv Proofs.C12Copy Proofs.C12Wf
  Proofs.C12Proofs Proofs.C12Iso Proofs.C12Wf2 Proofs.C12IsoTop Proofs.C12Fun Proofs.C12Wf3 Proofs.C12AnnTop Proofs.C12FunTop
  Proofs.C12Image.
Import ListNotations.
Open Scope Z_scope.

Theorem deepcopy_image_l : forall nf h seeds root fuel s' y,
  wf_heap h seeds = true -> wf_heap2 h = true -> wf_heap3 h = true -> wf_heap3s h = true ->
  root_seeds_ok h seeds root = true -> memz root (owned_list h) = false ->
  0 <= root < hlen h -> (length h < fuel)%nat ->
  run_seeded nf fuel h seeds root = Ok (s', R y) ->
  (forall o, reach (sh s') y o ->
     o < hlen h \/ (exists a, In (a, o) (sc s') /\ reach h root a) \/ copy_cont h s' root o)
  /\ (forall a, reach h root a ->
        0 <= a < hlen h /\
        ((exists b, In (a, b) (sc s') /\ reach (sh s') y b) \/ reach (sh s') y a \/ src_cont h s' y a)).
Proof.
  intros nf h seeds root fuel s' y WF WF2 WF3 WF3S RS NO Hr Hf E.
  destruct (wf_heap_parts _ _ WF) as [Hc _].
  destruct (deepcopy_fresh_disjoint_l nf h seeds root fuel s' y WF Hr Hf E) as [OLD _].
  destruct (deepcopy_bisimulation_l nf h seeds root fuel s' y WF WF2 NO Hr Hf E) as [RR [PAIR _]].
  assert (ANN := deepcopy_annotation_sets_l nf h seeds root fuel s' y WF WF2 WF3 NO Hr Hf E).
  destruct (deepcopy_single_valued_l nf h seeds root fuel s' y WF WF2 WF3 RS NO Hr Hf E) as [_ [SRC FND]].
  assert (NOSRC : forall a b, In (a, b) (sc s') -> ~ owned h a).
  { intros a b I O. apply (proj1 (SRC a b I)). apply owned_in_list. exact O. }
  assert (ANN' : forall a b oa, In (a, b) (sc s') -> hget h a = Some oa -> is_annk (okind oa) = true ->
            exists done, AnnState s' b done /\ map fst done = refs_of (ann_items h oa) /\ (forall p, In p done -> In p (sc s'))).
  { intros a b oa I G AK. exact (ANN a b oa I G AK). }
  split.
  - exact (copy_image h s' root y OLD (closedb_spec h Hc) Hr RR PAIR ANN' FND NOSRC (wf3s_owned h WF3S)).
  - exact (source_image h s' root y OLD (closedb_spec h Hc) Hr RR PAIR ANN' NOSRC (wf2_nodup h WF2) (wf3s_owned h WF3S)
             (wf3s_shape h WF3S) (wf2_listkeys h WF2) (wf2_ilist h WF2)).
Qed.

Lemma src_cont_in_conts : forall h s' y a, src_cont h s' y a -> In a (owned_conts h).
Proof.
  intros h s' y a [x [b [ox [sx [sxo [_ [_ [G [AK [BA [GS WHO]]]]]]]]]]].
  unfold owned_conts. apply in_flat_map. exists ox. split; [eapply hget_In; exact G|].
  rewrite AK, BA, GS. destruct WHO as [E|[E|E]].
  - left. auto.
  - right. apply in_or_app. left. rewrite E. left. reflexivity.
  - right. apply in_or_app. right. rewrite E. left. reflexivity.
Qed.

(* old objects are untouched: what an old object reached before the copy it reaches afterwards *)
Lemma reach_old_after : forall h (h' : heap) b o, (forall x, x < hlen h -> hget h' x = hget h x) ->
  (forall x ob k v, hget h x = Some ob -> In (k, v) (obody ob) -> vsrc h k /\ vsrc h v) ->
  0 <= b < hlen h -> reach h b o -> 0 <= o < hlen h /\ reach h' b o.
Proof.
  intros h h' b o OLD CL Hb RE. induction RE as [|m c2 RE IH ED]; [split; [exact Hb | apply reach_refl]|].
  destruct IH as [Hm Rm]. destruct ED as [ob [k [v [G [I KV]]]]]. destruct (CL m ob k v G I) as [Vk Vv]. split.
  - destruct KV as [X|X]; subst; simpl in *; assumption.
  - eapply reach_step; [exact Rm|]. exists ob, k, v. rewrite (OLD m (proj2 Hm)). auto.
Qed.

(* every seed that the source reaches, and everything below it, is reached by the copy as the very same
   objects *)
Theorem seeded_shares_every_seed_l : forall nf h seeds root fuel s' y,
  wf_heap h seeds = true -> wf_heap2 h = true -> wf_heap3 h = true -> wf_heap3s h = true ->
  root_seeds_ok h seeds root = true -> memz root (owned_list h) = false ->
  0 <= root < hlen h -> (length h < fuel)%nat ->
  run_seeded nf fuel h seeds root = Ok (s', R y) ->
  forall b o, In b seeds -> reach h root b -> reach h b o ->
    reach (sh s') y o /\ reach (sh s') root o.
Proof.
  intros nf h seeds root fuel s' y WF WF2 WF3 WF3S RS NO Hr Hf E b o SB RB BO.
  destruct (wf_heap_parts _ _ WF) as [Hc _].
  destruct (deepcopy_fresh_disjoint_l nf h _ root fuel s' y WF Hr Hf E) as [OLD _].
  destruct (deepcopy_image_l nf h _ root fuel s' y WF WF2 WF3 WF3S RS NO Hr Hf E) as [_ IMG].
  destruct (deepcopy_single_valued_l nf h _ root fuel s' y WF WF2 WF3 RS NO Hr Hf E) as [_ [SRC _]].
  destruct (root_seeds_spec h _ root RS) as [_ SD].
  destruct (IMG b RB) as [Hb [[b' [I _]]|[SH|SC]]].
  - exfalso. apply (proj2 (SRC b b' I)). exact SB.
  - destruct (reach_old_after h (sh s') b o OLD (closedb_spec h Hc) Hb BO) as [_ R1].
    destruct (reach_old_after h (sh s') root b OLD (closedb_spec h Hc) Hr RB) as [_ R2].
    split; [exact (reach_trans _ _ _ _ SH R1) | exact (reach_trans _ _ _ _ R2 R1)].
  - exfalso. destruct (SD b SB) as [_ [_ N]]. apply N. eapply src_cont_in_conts. exact SC.
Qed.

(* converse of scoped_shares_only_namespace: every seed (the namespace, its taxa) that the source reaches,
   and everything below it, is reached by the copy as the very same objects *)
Theorem scoped_shares_every_seed_l : forall nf h root ns fuel s' y,
  wf_heap h (ns_seeds h ns) = true -> wf_heap2 h = true -> wf_heap3 h = true -> wf_heap3s h = true ->
  root_seeds_ok h (ns_seeds h ns) root = true -> memz root (owned_list h) = false ->
  0 <= root < hlen h -> (length h < fuel)%nat ->
  run nf fuel h root (RScoped ns) = Ok (s', R y) ->
  forall b o, In b (ns_seeds h ns) -> reach h root b -> reach h b o ->
    reach (sh s') y o /\ reach (sh s') root o.
Proof.
  intros nf h root ns fuel s' y WF WF2 WF3 WF3S RS NO Hr Hf E. simpl in E.
  exact (seeded_shares_every_seed_l nf h _ root fuel s' y WF WF2 WF3 WF3S RS NO Hr Hf E).
Qed.
