(* C11, wave 7: the object-level matrix model (Model/C11ObjModel.v): no dict object is ever shared between
   two matrix objects, over all histories; under that invariant the object level, read through the dict store,
   IS the value level (so the closure theorems of Props/C11.v speak about the objects); with the aliasing
   variant of __copy__ both statements are false. *)
From Coq Require Import List Bool Arith ZArith Lia.
From DV Require Import Model.PyPrims Model.C11Model Model.C11W7Model Model.C11ObjModel Proofs.C11Base Proofs.C11Inv
  Proofs.C11Ops Proofs.C11Ops2 Proofs.C11Final Proofs.C11W7b.
Import ListNotations.
Open Scope nat_scope.

Lemma nth_upd_same : forall A (l : list A) i x d, i < length l -> nth i (upd l i x) d = x.
Proof.
  intros A l. induction l as [|y r IH]; intros [|i] x d H; cbn in *; try lia; [reflexivity|]. apply IH. lia.
Qed.

Lemma nth_upd_other : forall A (l : list A) i j x d, j <> i -> nth j (upd l i x) d = nth j l d.
Proof.
  intros A l. induction l as [|y r IH]; intros [|i] [|j] x d H; cbn; try reflexivity; try lia. apply IH. lia.
Qed.

Lemma set_mats_eta : forall st, set_mats st (s_mats st) = st.
Proof. intros []. reflexivity. Qed.

Lemma set_mats_twice : forall st a b, set_mats (set_mats st a) b = set_mats st b.
Proof. reflexivity. Qed.

Lemma s_mats_read : forall os, s_mats (read os) = map (read_mat (o_dicts os)) (o_mats os).
Proof. reflexivity. Qed.

Section WithLower.
Variable lower : lbl -> lbl.

(* the operations on a matrix allocate no matrix *)
Lemma mat_op_length : forall st o m, mat_target_b o = Some m ->
  length (s_mats (fst (step lower st o))) = length (s_mats st).
Proof.
  intros st o m T. destruct o; try discriminate T; inversion T; subst; cbn [step].
  - destruct (valid_mat st m && valid_taxon st x); [|reflexivity].
    destruct (memb x (m_rows (getmat st m))); [reflexivity|].
    destruct (negb (memb x (members st (m_ns (getmat st m))))); [reflexivity|]. cbn. apply upd_length.
  - destruct (valid_mat st m && match k with KeyTaxon x0 => valid_taxon st x0 | _ => true end); [|reflexivity].
    destruct (row_key lower st (m_ns (getmat st m)) k) as [a|e|]; try reflexivity.
    destruct (negb (memb a (members st (m_ns (getmat st m))))); [reflexivity|]. cbn. apply upd_length.
  - destruct (valid_mat st m && valid_ns st n); [|reflexivity].
    unfold migrate_mat.
    destruct (recon_rows lower st n unify (m_rows (getmat st m)) (m_rows (getmat st m)) []) as [[[st1 rows'] mm'] ok] eqn:R.
    cbn. rewrite upd_length. rewrite (recon_rows_mats lower _ _ _ _ _ _ _ _ _ _ R). reflexivity.
  - destruct (valid_mat st m); [|reflexivity].
    unfold migrate_mat.
    destruct (recon_rows lower st (m_ns (getmat st m)) unify (m_rows (getmat st m)) (m_rows (getmat st m)) [])
      as [[[st1 rows'] mm'] ok] eqn:R.
    cbn. rewrite upd_length. rewrite (recon_rows_mats lower _ _ _ _ _ _ _ _ _ _ R). reflexivity.
  - destruct (valid_mat st m); [|reflexivity]. cbn [fst]. rewrite add_members_mats. reflexivity.
  - destruct (valid_mat st m); reflexivity.
Qed.

Lemma base_fst : forall x o, x_st (fst (step7 lower x (Base o))) = fst (step lower (x_st x) o).
Proof. intros. cbn [step7]. destruct (step lower (x_st x) o). reflexivity. Qed.

Lemma mat_target_lift : forall o m, mat_target_b o = Some m -> mat_target (Base o) = Some m.
Proof. intros o m T. destruct o; try discriminate T; exact T. Qed.

(* mutation of the dict object that matrix m holds = the value-level step, provided nobody else holds it *)
Lemma o_mutate_refines : forall os o m,
  no_dict_shared os -> mat_target_b o = Some m -> m < length (o_mats os) ->
  read (o_mutate os m (fst (step lower (read os) o))) = fst (step lower (read os) o).
Proof.
  intros os o m [ND LT] T Lm.
  set (st' := fst (step lower (read os) o)).
  unfold read at 1, o_mutate. cbn [o_st o_mats o_dicts]. rewrite set_mats_twice.
  transitivity (set_mats st' (s_mats st')); [|apply set_mats_eta]. f_equal.
  set (d := om_dict (nth m (o_mats os) domat)).
  assert (Ld : d < length (o_dicts os)) by (apply LT, nth_In, Lm).
  assert (Len : length (s_mats st') = length (o_mats os)).
  { unfold st'. rewrite (mat_op_length _ _ _ T). rewrite s_mats_read, map_length. reflexivity. }
  apply (nth_ext _ _ dmat dmat).
  - rewrite map_length, upd_length. symmetry. exact Len.
  - intros j Lj. rewrite map_length, upd_length in Lj.
    assert (E0 : dmat = read_mat (upd (o_dicts os) d (m_rows (getmat st' m))) (mkOM 0 (length (o_dicts os)))).
    { unfold read_mat. cbn [om_ns om_dict]. rewrite nth_overflow; [reflexivity|]. rewrite upd_length. lia. }
    rewrite E0 at 1. rewrite map_nth.
    destruct (Nat.eq_dec j m) as [E|Ne].
    + subst j. rewrite (nth_indep (upd _ _ _) _ domat) by (rewrite upd_length; exact Lm).
      rewrite nth_upd_same by exact Lm.
      unfold read_mat. cbn [om_ns om_dict]. rewrite nth_upd_same by exact Ld.
      unfold getmat. destruct (nth m (s_mats st') dmat). reflexivity.
    + rewrite (nth_indep (upd _ _ _) _ domat) by (rewrite upd_length; exact Lj).
      rewrite nth_upd_other by exact Ne.
      assert (Dj : om_dict (nth j (o_mats os) domat) <> d).
      { unfold d. intro Q. apply Ne.
        apply (proj1 (NoDup_nth (map om_dict (o_mats os)) 0) ND); rewrite ?map_length; try assumption.
        change 0 with (om_dict domat). rewrite !map_nth. exact Q. }
      unfold read_mat at 1. rewrite nth_upd_other by exact Dj.
      (* the value level left matrix j alone *)
      pose proof (matrix_op_frame_l lower (mkX (read os) []) (Base o) m j (mat_target_lift _ _ T) Ne) as F.
      rewrite base_fst in F. cbn [x_st] in F. rewrite s_mats_read, map_length in F. specialize (F Lj).
      fold st' in F.
      rewrite (nth_error_eq_nth' _ _ _ j dmat F).
      assert (E1 : dmat = read_mat (o_dicts os) (mkOM 0 (length (o_dicts os)))).
      { unfold read_mat. cbn [om_ns om_dict]. rewrite nth_overflow by lia. reflexivity. }
      rewrite E1. rewrite map_nth.
      rewrite (nth_indep (o_mats os) (mkOM 0 (length (o_dicts os))) domat) by exact Lj. reflexivity.
Qed.

End WithLower.

(* ---- the invariant over all histories, and the refinement ---- *)
Lemma NoDup_snoc : forall (l : list nat) x, NoDup l -> ~ In x l -> NoDup (l ++ [x]).
Proof.
  induction l as [|y r IH]; intros x N H; cbn.
  - constructor; [intros []|constructor].
  - inversion N as [|? ? Hy Nr]. subst. constructor.
    + intro K. apply in_app_or in K. destruct K as [K|[K|[]]]; [exact (Hy K)|]. subst. apply H. left. reflexivity.
    + apply IH; [exact Nr|]. intro K. apply H. right. exact K.
Qed.

Lemma map_upd_same_key : forall (l : list omat) m X, om_dict X = om_dict (nth m l domat) -> m < length l ->
  map om_dict (upd l m X) = map om_dict l.
Proof.
  induction l as [|y r IH]; intros [|m] X E L; cbn in *; try lia.
  - rewrite E. reflexivity.
  - f_equal. apply IH; [exact E | lia].
Qed.

Lemma In_upd : forall A (l : list A) i x y, In y (upd l i x) -> y = x \/ In y l.
Proof.
  induction l as [|z r IH]; intros [|i] x y H; cbn in *; try contradiction.
  - destruct H as [H|H]; [left; symmetry; exact H | right; right; exact H].
  - destruct H as [H|H]; [right; left; exact H|]. destruct (IH _ _ _ H) as [K|K]; [left; exact K | right; right; exact K].
Qed.

Lemma read_mats_app : forall ds x mats, (forall om, In om mats -> om_dict om < length ds) ->
  map (read_mat (ds ++ [x])) mats = map (read_mat ds) mats.
Proof.
  intros ds x mats H. apply map_ext_in. intros om Hin. unfold read_mat. rewrite app_nth1 by (apply H, Hin). reflexivity.
Qed.

Lemma read_mat_last : forall ds x n, read_mat (ds ++ [x]) (mkOM n (length ds)) = mkMat n x.
Proof. intros. unfold read_mat. cbn [om_ns om_dict]. rewrite app_nth2 by lia. rewrite Nat.sub_diag. reflexivity. Qed.

Lemma getmat_read : forall os m, m < length (o_mats os) ->
  getmat (read os) m = read_mat (o_dicts os) (nth m (o_mats os) domat).
Proof.
  intros os m L. unfold getmat. rewrite s_mats_read.
  rewrite (nth_indep _ dmat (read_mat (o_dicts os) domat)) by (rewrite map_length; exact L). apply map_nth.
Qed.

Section WithLower2.
Variable lower : lbl -> lbl.

Lemma mat_op_invalid : forall st o m, mat_target_b o = Some m -> valid_mat st m = false -> fst (step lower st o) = st.
Proof.
  intros st o m T V. destruct o; try discriminate T; inversion T; subst; cbn [step]; rewrite V; reflexivity.
Qed.

Theorem no_dict_shared_step_l : forall os oo,
  oop_ok oo = true -> no_dict_shared os -> no_dict_shared (o_step lower os oo).
Proof.
  intros os oo OK [ND LT]. destruct oo as [n|m|m|o|o]; cbn [o_step oop_ok] in *; try discriminate OK.
  - destruct (valid_ns (o_st os) n); [|split; assumption]. split; cbn [o_mats o_dicts].
    + rewrite map_app. cbn [map om_dict]. apply NoDup_snoc; [exact ND|].
      intro K. apply in_map_iff in K. destruct K as [om [E Hin]]. specialize (LT om Hin). lia.
    + intros om Hin. rewrite app_length. cbn [length]. apply in_app_or in Hin. destruct Hin as [Hin|[Hin|[]]].
      * specialize (LT om Hin). lia.
      * subst om. cbn. lia.
  - destruct (Nat.ltb m (length (o_mats os))); [|split; assumption]. split; cbn [o_mats o_dicts].
    + rewrite map_app. cbn [map om_dict]. apply NoDup_snoc; [exact ND|].
      intro K. apply in_map_iff in K. destruct K as [om [E Hin]]. specialize (LT om Hin). lia.
    + intros om Hin. rewrite app_length. cbn [length]. apply in_app_or in Hin. destruct Hin as [Hin|[Hin|[]]].
      * specialize (LT om Hin). lia.
      * subst om. cbn. lia.
  - destruct (mat_target_b o) as [m|]; [|split; assumption].
    destruct (Nat.ltb m (length (o_mats os))) eqn:L; [|split; assumption]. apply ltb_lt' in L.
    unfold o_mutate. split; cbn [o_mats o_dicts].
    + rewrite map_upd_same_key; [exact ND | reflexivity | exact L].
    + intros om Hin. rewrite upd_length. apply In_upd in Hin. destruct Hin as [E|Hin]; [|apply LT, Hin].
      subst om. cbn [om_dict]. apply LT, nth_In, L.
  - destruct o; try discriminate OK; split; assumption.
Qed.

Theorem o_step_refines_l : forall os oo mm,
  oop_ok oo = true -> no_dict_shared os ->
  read (o_step lower os oo) = x_st (fst (step7 lower (mkX (read os) mm) (embed oo))).
Proof.
  intros os oo mm OK [ND LT]. destruct oo as [n|m|m|o|o]; cbn [o_step oop_ok embed] in *; try discriminate OK.
  - (* NewMat *)
    rewrite base_fst. cbn [x_st step].
    change (valid_ns (read os) n) with (valid_ns (o_st os) n).
    destruct (valid_ns (o_st os) n); [|reflexivity].
    unfold read. cbn [o_st o_mats o_dicts fst alloc_mat]. unfold set_mats. cbn. f_equal.
    rewrite map_app. cbn [map]. rewrite read_mats_app by exact LT. rewrite read_mat_last. reflexivity.
  - (* __copy__ *)
    cbn [step7 x_st]. unfold valid_mat. rewrite s_mats_read, map_length.
    destruct (Nat.ltb m (length (o_mats os))) eqn:L; [|reflexivity]. apply ltb_lt' in L.
    rewrite (getmat_read os m L).
    unfold read. cbn [o_st o_mats o_dicts fst alloc_mat x_st with_st]. unfold set_mats. cbn. f_equal.
    rewrite map_app. cbn [map]. rewrite read_mats_app by exact LT. rewrite read_mat_last. reflexivity.
  - (* operation on matrix m *)
    destruct (mat_target_b o) as [m|] eqn:T; [|discriminate OK].
    rewrite base_fst. cbn [x_st].
    destruct (Nat.ltb m (length (o_mats os))) eqn:L.
    + apply ltb_lt' in L. apply (o_mutate_refines lower os o m (conj ND LT) T L).
    + symmetry. apply (mat_op_invalid (read os) o m T). unfold valid_mat. rewrite s_mats_read, map_length. exact L.
  - (* NewNs / NewTaxon *)
    destruct o; try discriminate OK; rewrite base_fst; cbn [x_st step].
    + reflexivity.
    + change (valid_ns (read os) n) with (valid_ns (o_st os) n). destruct (valid_ns (o_st os) n); reflexivity.
Qed.

(* over all histories *)
Theorem no_dict_shared_history_l : forall ops os,
  forallb oop_ok ops = true -> no_dict_shared os -> no_dict_shared (o_run lower os ops).
Proof.
  induction ops as [|oo r IH]; intros os OK N; [exact N|].
  cbn [forallb] in OK. apply andb_true_iff in OK. destruct OK as [O1 O2].
  unfold o_run. cbn [fold_left]. apply IH; [exact O2|]. apply no_dict_shared_step_l; assumption.
Qed.

Theorem object_level_refines_value_level_l : forall ops os mm,
  forallb oop_ok ops = true -> no_dict_shared os ->
  read (o_run lower os ops) = x_st (run_state7 lower (mkX (read os) mm) (map embed ops)).
Proof.
  induction ops as [|oo r IH]; intros os mm OK N; [reflexivity|].
  cbn [forallb] in OK. apply andb_true_iff in OK. destruct OK as [O1 O2].
  unfold o_run, run_state7. cbn [fold_left map].
  pose proof (o_step_refines_l os oo mm O1 N) as E.
  pose proof (no_dict_shared_step_l os oo O1 N) as N1.
  fold (o_run lower (o_step lower os oo) r).
  fold (run_state7 lower (fst (step7 lower (mkX (read os) mm) (embed oo))) (map embed r)).
  rewrite (IH (o_step lower os oo) (x_memos (fst (step7 lower (mkX (read os) mm) (embed oo)))) O2 N1).
  rewrite E. destruct (fst (step7 lower (mkX (read os) mm) (embed oo))). reflexivity.
Qed.

End WithLower2.

Lemma no_dict_shared_init : no_dict_shared o_init.
Proof. split; [constructor | intros om []]. Qed.

Lemma no_dict_sharedb_false : forall os, no_dict_sharedb os = false -> ~ no_dict_shared os.
Proof.
  intros os H [ND LT]. unfold no_dict_sharedb in H. apply andb_false_iff in H. destruct H as [H|H].
  - assert (K : forall l, NoDup l -> nodupb l = true).
    { induction l as [|x r IH]; intro N; [reflexivity|]. inversion N as [|? ? Hx Nr]. subst. cbn.
      rewrite IH by exact Nr. destruct (memb x r) eqn:M; [apply memb_In in M; contradiction | reflexivity]. }
    rewrite K in H by exact ND. discriminate.
  - assert (K : forallb (fun om => Nat.ltb (om_dict om) (length (o_dicts os))) (o_mats os) = true).
    { apply forallb_forall. intros om Hin. apply Nat.ltb_lt. apply LT, Hin. }
    rewrite K in H. discriminate.
Qed.

(* ---- the aliasing variant: both theorems fail ---- *)
(* label pool A B C a b c; ns0 = {A, B}, ns1 = {a}; m0 over ns0 with rows A, B; the copy is migrated to ns1 *)
Definition al_lower : lbl -> lbl := tbl_lower [(0, 3); (1, 4); (2, 5); (3, 3); (4, 4); (5, 5)].
Definition al_prefix : list oop :=
  [OEnv (NewNs false); OEnv (NewNs false); OEnv (NewTaxon 0 0); OEnv (NewTaxon 0 1); OEnv (NewTaxon 1 3);
   ONewMat 0; OOn (NewSeq 0 0); OOn (NewSeq 0 1)].

(* the library's __copy__: the original is untouched by the migration of the copy, the state stays closed *)
Lemma faithful_copy_example_l :
  let os := o_run al_lower o_init (al_prefix ++ [OCopy 0; OOn (MigrateMat 1 1 true)]) in
  no_dict_sharedb os = true /\ closedb (read os) = true
  /\ getmat (read os) 0 = mkMat 0 [0; 1] /\ getmat (read os) 1 = mkMat 1 [2; 3].
Proof. vm_compute. repeat split. Qed.

(* `other._taxon_sequence_map = self._taxon_sequence_map`: one dict, two matrices; the migration of the COPY
   re-keys the rows of the ORIGINAL, which still refers to ns0: the closure invariant is gone, and the
   object level is no longer what the value level computes *)
Lemma alias_copy_refuted_l :
  let os1 := o_run al_lower o_init (al_prefix ++ [OCopyAlias 0]) in
  let os2 := o_step al_lower os1 (OOn (MigrateMat 1 1 true)) in
  ~ no_dict_shared os1
  /\ Closed (read os1)
  /\ getmat (read os2) 0 = mkMat 0 [2; 3]
  /\ ~ Closed (read os2)
  /\ read os2 <> x_st (fst (step7 al_lower (mkX (read os1) []) (embed (OOn (MigrateMat 1 1 true))))).
Proof.
  split; [apply no_dict_sharedb_false; vm_compute; reflexivity|].
  split; [apply closedb_iff; vm_compute; reflexivity|].
  split; [vm_compute; reflexivity|].
  split; [intro C; apply closedb_iff in C; vm_compute in C; discriminate|].
  intro E. apply (f_equal (fun st => m_rows (getmat st 0))) in E. vm_compute in E. discriminate.
Qed.
