(* C12: content of the copy.  Second invariant of the interpreter, stated with monotone facts only
   (no reasoning about which objects a nested call leaves alone):

     soundness     every entry of a recorded copy b of a is related (vrel) to an entry of a, or is one of
                   the rebuilt entries;           preserved by every write, because every write is justified
     presence      every carried entry of a has an entry with a related key in b;  keys are never removed
     uniqueness    a recorded copy has exactly one source

   From these, at the end of the run: the recorded pairs are a bisimulation between source and copy
   (modulo the rebuilt annotation-set containers), injective on objects. *)
From Coq Require Import ZArith List Bool Lia.
From DV Require Import Model.PyPrims Model.C12Model Proofs.C12Heap Proofs.C12Inv Proofs.C12Copy.
Import ListNotations.
Open Scope Z_scope.

Section Iso.
Variable h0 : heap.
Variable seeds : list Z.
Notation n0 := (hlen h0).
Notation Inv := (Inv h0 seeds).
Notation vsrc := (vsrc h0).
Notation vrel := (vrel n0).

Definition in_range (c : list (Z * Z)) (b : Z) : Prop := exists a, In (a, b) c.

(* the annotation set owned by an annotable source object *)
Definition owned (sx : Z) : Prop :=
  exists x ob, hget h0 x = Some ob /\ is_annk (okind ob) = true /\ bget (obody ob) NM_ANN = Some (R sx).

Definition owned_ref (v : val) : Prop := match v with R a => owned a | P _ => False end.

Definition Sound (c : list (Z * Z)) (h : heap) (a b : Z) : Prop :=
  exists oa ob, hget h0 a = Some oa /\ hget h b = Some ob /\ ocls oa = ocls ob /\ okind oa = okind ob /\
    forall k' v', In (k', v') (obody ob) ->
      rebuilt (okind oa) k' \/ exists k v, In (k, v) (obody oa) /\ vrel c k k' /\ vrel c v v'.

Definition Present (c : list (Z * Z)) (h : heap) (a b : Z) : Prop :=
  forall oa ob, hget h0 a = Some oa -> hget h b = Some ob ->
    forall k v, In (k, v) (obody oa) ->
      not_carried (okind oa) k \/ exists k' v', In (k', v') (obody ob) /\ vrel c k k'.

Record Inv2 (s : st) : Prop := mkInv2 {
  j_scr : forall a b, In (a, b) (sc s) -> 0 <= a < n0 /\ n0 <= b < hlen (sh s);
  j_uniq : forall a a' b, In (a, b) (sc s) -> In (a', b) (sc s) -> a = a';
  j_msc : forall a b, alookup a (sm s) = Some b -> n0 <= b -> In (a, b) (sc s) \/ owned a;
  j_sound : forall a b, In (a, b) (sc s) -> Sound (sc s) (sh s) a b;
  (* the annotation set of a fresh annotable object, and the containers of a fresh annotation set, are
     not recorded copies of anything *)
  j_priv : forall y ob, n0 <= y -> hget (sh s) y = Some ob ->
           (is_annk (okind ob) = true -> forall sy, bget (obody ob) NM_ANN = Some (R sy) -> ~ in_range (sc s) sy)
           /\ (okind ob = KAnnSet -> forall k l, (k = NM_ILIST \/ k = NM_ISET) ->
               bget (obody ob) k = Some (R l) -> ~ in_range (sc s) l)
}.

Definition Ext2 (s s' : st) : Prop :=
  (forall p, In p (sc s) -> In p (sc s'))
  /\ (forall a b, In (a, b) (sc s') -> In (a, b) (sc s) \/ hlen (sh s) <= b)
  /\ (forall o ob k v, hget (sh s) o = Some ob -> In (k, v) (obody ob) ->
        exists ob' v', hget (sh s') o = Some ob' /\ In (k, v') (obody ob')).

Definition NewPresent (s s' : st) : Prop :=
  forall a b, In (a, b) (sc s') -> hlen (sh s) <= b -> Present (sc s') (sh s') a b.

Lemma ext2_refl : forall s, Ext2 s s.
Proof. intro s. repeat split; auto. intros o ob k v G I. eauto. Qed.

Lemma ext2_trans : forall a b c, Ext a b -> Ext2 a b -> Ext2 b c -> Ext2 a c.
Proof.
  intros a b c [L _] [A1 [A2 A3]] [B1 [B2 B3]]. split; [|split].
  - auto.
  - intros x y I. destruct (B2 x y I) as [J|J]; [apply A2; assumption | right; lia].
  - intros o ob k v G I. destruct (A3 o ob k v G I) as [ob1 [v1 [G1 I1]]]. eapply B3; eassumption.
Qed.

Lemma vrel_mono : forall c c' v v', (forall p, In p c -> In p c') -> vrel c v v' -> vrel c' v v'.
Proof.
  intros c c' [p|a] [q|b] H V; simpl in *; auto. destruct V as [V|V]; [left; auto | right; assumption].
Qed.

Lemma vrel_prim_inv : forall c p v', vrel c (P p) v' -> v' = P p.
Proof. intros c p [q|b] H; simpl in H; [subst; reflexivity | contradiction]. Qed.

Lemma vrel_prim_inv2 : forall c v p, vrel c v (P p) -> v = P p.
Proof. intros c [q|b] p H; simpl in H; [subst; reflexivity | contradiction]. Qed.

Lemma present_ext : forall s s' a b, Ext2 s s' -> Present (sc s) (sh s) a b ->
  (exists ob, hget (sh s) b = Some ob) -> Present (sc s') (sh s') a b.
Proof.
  intros s s' a b [E1 [E2 E3]] PR [ob0 G0] oa ob Ga Gb k v I.
  destruct (PR oa ob0 Ga G0 k v I) as [D|[k' [v' [I' V']]]]; [left; assumption|].
  right. destruct (E3 b ob0 k' v' G0 I') as [ob1 [v1 [G1 I1]]]. rewrite Gb in G1. inversion G1; subst ob1.
  exists k', v1. split; [assumption|]. eapply vrel_mono; eassumption.
Qed.

Lemma newpresent_trans : forall a b c, Inv2 b -> Ext a b -> Ext2 b c -> NewPresent a b -> NewPresent b c ->
  NewPresent a c.
Proof.
  intros a b c J [L _] E2 N1 N2 x y I Hy. destruct E2 as [E21 [E22 E23]].
  destruct (E22 x y I) as [Iold|Hnew]; [|apply N2; assumption].
  destruct (j_scr _ J x y Iold) as [_ Ry].
  apply present_ext with (s := b); [repeat split; assumption | apply N1; assumption|].
  apply hget_in_range. assert (X := hlen_nonneg h0). lia.
Qed.

(* ---- primitives --------------------------------------------------------------------------------- *)

Lemma sound_mono : forall c c' h a b, (forall p, In p c -> In p c') -> Sound c h a b -> Sound c' h a b.
Proof.
  intros c c' h a b M [oa [ob [Ga [Gb [C [K S]]]]]]. exists oa, ob. repeat split; auto.
  intros k' v' I. destruct (S k' v' I) as [X|[k [v [I0 [V1 V2]]]]]; [left; assumption|].
  right. exists k, v. repeat split; auto; eapply vrel_mono; eassumption.
Qed.

Lemma sound_heap_eq : forall c h h' a b, hget h' b = hget h b -> Sound c h a b -> Sound c h' a b.
Proof. intros c h h' a b E [oa [ob [Ga [Gb X]]]]. exists oa, ob. rewrite E. auto. Qed.

Lemma inv2_alloc : forall s x, Inv s -> Inv2 s ->
  (is_annk (okind x) = true -> forall sy, bget (obody x) NM_ANN = Some (R sy) -> ~ in_range (sc s) sy) ->
  (okind x = KAnnSet -> forall k l, (k = NM_ILIST \/ k = NM_ISET) -> bget (obody x) k = Some (R l) -> ~ in_range (sc s) l) ->
  Inv2 (fst (alloc s x)).
Proof.
  intros s x IV [SR UQ MS SO PR] HA HS. constructor; simpl.
  - intros a b I. destruct (SR a b I). rewrite hlen_app1. lia.
  - assumption.
  - assumption.
  - intros a b I. destruct (SR a b I) as [_ Rb]. apply sound_heap_eq with (h := sh s); [|auto].
    apply hget_app_old. lia.
  - intros y ob Hy G. destruct (Z.eq_dec y (hlen (sh s))) as [E|E].
    + subst y. rewrite hget_app_new in G. inversion G; subst ob. split; assumption.
    + assert (R0 := hget_Some_range _ _ _ G). rewrite hlen_app1 in R0. rewrite hget_app_old in G by lia.
      apply (PR y ob Hy G).
Qed.

Lemma ext2_alloc : forall s x, Ext2 s (fst (alloc s x)).
Proof.
  intros s x. split; [|split]; simpl; auto.
  intros o ob k v G I. exists ob, v. split; [|assumption]. rewrite hget_app_old; [assumption|].
  apply hget_Some_range in G. lia.
Qed.

Lemma in_bset_key : forall b k v k0 v0, In (k0, v0) b -> exists v1, In (k0, v1) (bset b k v).
Proof.
  induction b as [|[k1 v1] r IH]; simpl; intros k v k0 v0 I; [contradiction|].
  destruct (val_eqb k k1) eqn:E.
  - apply val_eqb_eq in E. subst k1. destruct I as [I|I].
    + inversion I; subst. exists v. left. reflexivity.
    + exists v0. right. assumption.
  - destruct I as [I|I].
    + inversion I; subst. exists v0. left. reflexivity.
    + destruct (IH k v k0 v0 I) as [v2 I2]. exists v2. right. assumption.
Qed.

Lemma in_bset_new : forall b k v, In (k, v) (bset b k v).
Proof.
  induction b as [|[k1 v1] r IH]; simpl; intros k v; [left; reflexivity|].
  destruct (val_eqb k k1); [left; reflexivity | right; apply IH].
Qed.

Lemma ext2_put : forall s y k v, Ext2 s (put s y k v).
Proof.
  intros s y k v. split; [|split].
  - unfold put. destruct (hget (sh s) y); auto.
  - intros a b I. left. unfold put in I. destruct (hget (sh s) y); exact I.
  - intros o ob k0 v0 G I. destruct (Z.eq_dec o y) as [E|E].
    + subst o. rewrite (put_get_same _ _ k v _ G). destruct (in_bset_key _ k v _ _ I) as [v1 I1].
      eexists. exists v1. split; [reflexivity | exact I1].
    + exists ob, v0. rewrite put_get_other by assumption. auto.
Qed.

Lemma put_sc : forall s y k v, sc (put s y k v) = sc s.
Proof. intros. unfold put. destruct (hget (sh s) y); reflexivity. Qed.

(* a write into object y is justified when, for the source a of y (if y is a recorded copy), the entry
   is rebuilt or related to an entry of a *)
Definition justified (s : st) (y : Z) (k' v' : val) : Prop :=
  forall a oa, In (a, y) (sc s) -> hget h0 a = Some oa ->
    rebuilt (okind oa) k' \/ exists k v, In (k, v) (obody oa) /\ vrel (sc s) k k' /\ vrel (sc s) v v'.

Definition priv_side (s : st) (y : Z) (k v : val) : Prop :=
  forall ob, hget (sh s) y = Some ob ->
    (is_annk (okind ob) = true -> k = NM_ANN -> forall sy, v = R sy -> ~ in_range (sc s) sy)
    /\ (okind ob = KAnnSet -> (k = NM_ILIST \/ k = NM_ISET) -> forall l, v = R l -> ~ in_range (sc s) l).

Lemma inv2_put : forall s y k v, Inv2 s -> justified s y k v -> priv_side s y k v -> Inv2 (put s y k v).
Proof.
  intros s y k v [SR UQ MS SO PR] JU PS. constructor; rewrite ?put_sc, ?put_sm, ?put_hlen; auto.
  - intros a b I. destruct (SO a b I) as [oa [ob [Ga [Gb [C [K S]]]]]].
    destruct (Z.eq_dec b y) as [E|E].
    + subst b. exists oa. eexists. split; [exact Ga|]. split; [apply put_get_same; exact Gb|].
      simpl. repeat split; auto. intros k' v' I'. apply In_bset in I'. destruct I' as [I'|I'].
      * inversion I'; subst. apply (JU a oa I Ga).
      * apply S. assumption.
    + exists oa, ob. rewrite put_get_other by assumption. repeat split; auto.
  - intros o ob Ho G. apply put_get_inv in G. destruct G as [[_ G]|[E [x [G Eo]]]].
    + apply (PR o ob Ho G).
    + subst o ob. simpl. destruct (PR y x Ho G) as [P1 P2]. destruct (PS x G) as [Q1 Q2]. split.
      * intros AK sy B. destruct (val_eqb NM_ANN k) eqn:EK.
        -- apply val_eqb_eq in EK. subst k. rewrite bget_bset_same in B. inversion B; subst. eapply Q1; eauto.
        -- apply val_eqb_neq in EK. rewrite bget_bset_other in B by assumption. eapply P1; eassumption.
      * intros KS k0 l HK B. destruct (val_eqb k0 k) eqn:EK.
        -- apply val_eqb_eq in EK. subst k0. rewrite bget_bset_same in B. inversion B; subst. eapply Q2; eauto.
        -- apply val_eqb_neq in EK. rewrite bget_bset_other in B by assumption. eapply P2; eassumption.
Qed.

(* writes into objects that are not recorded copies are always justified *)
Lemma justified_private : forall s y k v, ~ in_range (sc s) y -> justified s y k v.
Proof. intros s y k v N a oa I _. exfalso. apply N. exists a. assumption. Qed.

Lemma priv_side_key : forall s y k v, k <> NM_ANN -> k <> NM_ILIST -> k <> NM_ISET -> priv_side s y k v.
Proof. intros s y k v H1 H2 H3 ob _. split; intros; [contradiction | tauto]. Qed.

Lemma priv_side_kind : forall s y k v kd, kind_at (sh s) y = Some kd ->
  (is_annk kd = true -> k <> NM_ANN) -> kd <> KAnnSet -> priv_side s y k v.
Proof.
  intros s y k v kd K H1 H2 ob G. unfold kind_at in K. rewrite G in K. inversion K; subst kd.
  split; [|intro; contradiction]. intros A E. exfalso. apply H1; assumption.
Qed.

Lemma priv_side_prim : forall s y k p, priv_side s y k (P p).
Proof. intros s y k p ob _. split; intros; discriminate. Qed.

Lemma inv2_memo_set : forall s a b, Inv2 s -> (n0 <= b -> In (a, b) (sc s) \/ owned a) -> Inv2 (memo_set s a b).
Proof.
  intros s a b [SR UQ MS SO PR] H. constructor; simpl; auto.
  intros x y E Hy. destruct (Z.eqb x a) eqn:X.
  - apply Z.eqb_eq in X. inversion E; subst. auto.
  - apply MS; assumption.
Qed.

Lemma ext2_memo_set : forall s a b, Ext2 s (memo_set s a b).
Proof. intros. split; [|split]; simpl; auto. intros o ob k v G I. eauto. Qed.

Lemma inv2_set_none : forall s, Inv2 s -> Inv2 (set_none s).
Proof. intros s [SR UQ MS SO PR]. constructor; simpl; auto. Qed.

Lemma ext2_set_none : forall s, Ext2 s (set_none s).
Proof. intros. split; [|split]; simpl; auto. intros o ob k v G I. eauto. Qed.

(* recording a pair whose second component is an object no pair mentions yet *)
Lemma inv2_note : forall s a b, Inv s -> Inv2 s -> 0 <= a < n0 -> n0 <= b < hlen (sh s) ->
  ~ in_range (sc s) b ->
  Sound ((a, b) :: sc s) (sh s) a b ->
  (forall y ob, n0 <= y -> hget (sh s) y = Some ob ->
     (is_annk (okind ob) = true -> bget (obody ob) NM_ANN <> Some (R b))
     /\ (okind ob = KAnnSet -> bget (obody ob) NM_ILIST <> Some (R b) /\ bget (obody ob) NM_ISET <> Some (R b))) ->
  Inv2 (note s a b).
Proof.
  intros s a b IV [SR UQ MS SO PR] Ha Hb NR SD NP. constructor; simpl.
  - intros x y [E|I]; [inversion E; subst; auto | auto].
  - intros x x' y [E|I] [E'|I'].
    + inversion E; inversion E'; subst. reflexivity.
    + inversion E; subst. exfalso. apply NR. exists x'. assumption.
    + inversion E'; subst. exfalso. apply NR. exists x. assumption.
    + eapply UQ; eassumption.
  - intros x y E Hy. destruct (MS x y E Hy) as [I|O]; [left; right; assumption | right; assumption].
  - intros x y [E|I].
    + inversion E; subst. assumption.
    + apply sound_mono with (c := sc s); [intros p Ip; right; assumption | auto].
  - intros y ob Hy G. destruct (PR y ob Hy G) as [P1 P2]. destruct (NP y ob Hy G) as [N1 N2]. split.
    + intros AK sy B [x [E|I]].
      * inversion E; subst. apply (N1 AK). assumption.
      * apply (P1 AK sy B). exists x. assumption.
    + intros KS k l HK B [x [E|I]].
      * inversion E; subst. destruct (N2 KS) as [N3 N4]. destruct HK; subst; contradiction.
      * apply (P2 KS k l HK B). exists x. assumption.
Qed.

Lemma ext2_note : forall s a b, hlen (sh s) <= b + 0 -> Ext2 s (note s a b).
Proof.
  intros s a b H. split; [|split]; simpl.
  - intros p I. right. assumption.
  - intros x y [E|I]; [inversion E; subst; right; lia | left; assumption].
  - intros o ob k v G I. eauto.
Qed.

(* recording an old-enough second component (allocated before): used with the explicit bound *)
Lemma ext2_note_from : forall s0 s a b, hlen (sh s0) <= b ->
  (forall p, In p (sc s0) -> In p (sc s)) ->
  (forall x y, In (x, y) (sc s) -> In (x, y) (sc s0) \/ hlen (sh s0) <= y) ->
  forall x y, In (x, y) (sc (note s a b)) -> In (x, y) (sc s0) \/ hlen (sh s0) <= y.
Proof. intros s0 s a b H M N x y [E|I]; [inversion E; subst; right; assumption | apply N; assumption]. Qed.


(* ---- hypotheses on the source heap ------------------------------------------------------------- *)

Hypothesis Hclosed : forall o ob k v, hget h0 o = Some ob -> In (k, v) (obody ob) -> vsrc k /\ vsrc v.
Hypothesis Hitems : forall x ob a, hget h0 x = Some ob -> In (R a) (ann_items h0 ob) -> ~ Shared h0 seeds a.
Hypothesis Hnames : forall x ob a ao t tob owner name rest,
  hget h0 x = Some ob -> In (R a) (ann_items h0 ob) -> hget h0 a = Some ao ->
  bget (obody ao) NM_VALUE = Some (R t) -> hget h0 t = Some tob ->
  (okind tob = KTuple \/ okind tob = KList) ->
  values (obody tob) = owner :: name :: rest -> owner = R x -> exists p, name = P p.
Hypothesis Hkeys : forall o ob k v, hget h0 o = Some ob ->
  (okind ob = KPlain \/ okind ob = KAnnotable \/ okind ob = KTaxon \/ okind ob = KNamespace \/ okind ob = KAnnSet) ->
  In (k, v) (obody ob) -> exists p, k = P p.
(* additional shape conditions (Model.wf_heap2) *)
Hypothesis H2listkeys : forall o ob n e, hget h0 o = Some ob -> (okind ob = KList \/ okind ob = KTuple) ->
  nth_error (obody ob) n = Some e -> fst e = pidx (Z.of_nat n).
Hypothesis H2noalias : forall o ob k v, hget h0 o = Some ob -> In (k, v) (obody ob) ->
  ~ (is_annk (okind ob) = true /\ k = NM_ANN) -> ~ owned_ref k /\ ~ owned_ref v.
Hypothesis H2taxa : forall x ob lt, hget h0 x = Some ob -> okind ob = KNamespace ->
  bget (obody ob) NM_TAXA = Some (R lt) ->
  exists lo, hget h0 lt = Some lo /\ okind lo = KList /\ ocls lo = CLS_LIST.
Hypothesis H2bound : forall x ob a ao t tob owner rest,
  hget h0 x = Some ob -> In (R a) (ann_items h0 ob) -> hget h0 a = Some ao ->
  bget (obody ao) NM_VALUE = Some (R t) -> hget h0 t = Some tob ->
  (okind tob = KTuple \/ okind tob = KList) ->
  values (obody tob) = owner :: rest -> owner = R x ->
  okind tob = KTuple /\ ocls tob = CLS_TUPLE /\ length (obody tob) = 2%nat.

Hypothesis H2ilist : forall x ob sx sxo lx l, hget h0 x = Some ob -> is_annk (okind ob) = true ->
  bget (obody ob) NM_ANN = Some (R sx) -> hget h0 sx = Some sxo ->
  bget (obody sxo) NM_ILIST = Some (R lx) -> hget h0 lx = Some l -> okind l = KList.

Hypothesis H2ilist2 : forall x ob lx l, hget h0 x = Some ob -> okind ob = KAnnSet ->
  bget (obody ob) NM_ILIST = Some (R lx) -> hget h0 lx = Some l -> okind l = KList.

Notation RecSpec := (RecSpec h0 seeds).
Notation U := (U h0).
Notation res_ok := (res_ok h0 seeds).

Definition vsrc2 (v : val) : Prop := vsrc v /\ ~ owned_ref v.

Definition RecSpecB (rec : rec_t) (f : nat) : Prop :=
  RecSpec rec f /\
  forall s v, Inv s -> Inv2 s -> vsrc2 v -> (U s < f)%nat ->
    forall s' v', rec s v = Ok (s', v') ->
      Inv2 s' /\ Ext2 s s' /\ vrel (sc s') v v' /\ NewPresent s s'.

Record Loop2 (s s' : st) : Prop := mkLoop2 {
  l_inv : Inv s'; l_inv2 : Inv2 s'; l_ext : Ext s s'; l_ext2 : Ext2 s s'; l_new : NewPresent s s' }.

Lemma newpresent_none : forall s s', Inv2 s' -> hlen (sh s') <= hlen (sh s) -> NewPresent s s'.
Proof. intros s s' J L a b I H. destruct (j_scr _ J a b I). lia. Qed.

Lemma loop2_refl : forall s, Inv s -> Inv2 s -> Loop2 s s.
Proof.
  intros s IV J. constructor; auto using ext_refl, ext2_refl. apply newpresent_none; [assumption | lia].
Qed.

Lemma loop2_trans : forall a b c, Loop2 a b -> Loop2 b c -> Loop2 a c.
Proof.
  intros a b c [I1 J1 E1 F1 N1] [I2 J2 E2 F2 N2]. constructor; auto.
  - exact (ext_trans _ _ _ E1 E2).
  - exact (ext2_trans a b c E1 F1 F2).
  - exact (newpresent_trans a b c J1 E1 F2 N1 N2).
Qed.

(* a step that records no new pair *)
Lemma loop2_step : forall s s', Inv s' -> Inv2 s' -> Ext s s' -> Ext2 s s' -> sc s' = sc s -> Inv2 s -> Loop2 s s'.
Proof.
  intros s s' IV J E F SC J0. constructor; auto.
  intros a b I H. rewrite SC in I. destruct (j_scr _ J0 a b I). lia.
Qed.

Lemma loop2_rec : forall rec f s v s1 v', RecSpecB rec f -> Inv s -> Inv2 s -> vsrc2 v -> (U s < f)%nat ->
  rec s v = Ok (s1, v') -> Loop2 s s1 /\ res_ok (hlen (sh s1)) v v' /\ vrel (sc s1) v v'.
Proof.
  intros rec f s v s1 v' [RS RB] IV J V Uf E.
  destruct (RS s v IV (proj1 V) Uf) as [_ OK]. destruct (OK s1 v' E) as [I1 [E1 R1]].
  destruct (RB s v IV J V Uf s1 v' E) as [J1 [F1 [V1 N1]]].
  split; [constructor; assumption | split; assumption].
Qed.

Lemma loop2_memo_val : forall s v v', Inv s -> Inv2 s -> vsrc v -> res_ok (hlen (sh s)) v v' -> vrel (sc s) v v' ->
  Loop2 s (memo_val s v v').
Proof.
  intros s v v' IV J V RO VR.
  assert (IV' : Inv (memo_val s v v')) by (apply inv_memo_val; assumption).
  assert (SC : sc (memo_val s v v') = sc s) by (destruct v as [p|?]; destruct v'; try reflexivity; destruct p; reflexivity).
  apply loop2_step; auto.
  - destruct v as [p|a]; destruct v' as [q|b]; simpl; auto; try (destruct p; auto using inv2_set_none).
    apply inv2_memo_set; [assumption|]. intros Hb. simpl in VR. destruct VR as [VR|[VR1 VR2]]; [left; assumption | lia].
  - apply ext_memo_val.
  - destruct v as [p|a]; destruct v' as [q|b]; simpl; auto using ext2_refl, ext2_memo_set;
      destruct p; auto using ext2_refl, ext2_set_none.
Qed.

(* source entries are proper source values, none of them an owned annotation set *)
Lemma old_entry_vsrc2 : forall o ob k v, hget h0 o = Some ob -> In (k, v) (obody ob) ->
  ~ (is_annk (okind ob) = true /\ k = NM_ANN) -> vsrc2 k /\ vsrc2 v.
Proof.
  intros o ob k v G I N. destruct (Hclosed _ _ _ _ G I). destruct (H2noalias _ _ _ _ G I N).
  split; split; assumption.
Qed.

(* a write into the recorded copy y of x, derived from an entry of x *)
Lemma justified_by : forall s x y ob k v k' v', Inv2 s -> In (x, y) (sc s) -> hget h0 x = Some ob ->
  In (k, v) (obody ob) -> vrel (sc s) k k' -> vrel (sc s) v v' -> justified s y k' v'.
Proof.
  intros s x y ob k v k' v' J I G IN V1 V2 a oa Ia Ga.
  assert (a = x) by (eapply j_uniq; eassumption). subst a. rewrite G in Ga. inversion Ga; subst oa.
  right. exists k, v. auto.
Qed.

Lemma justified_rebuilt : forall s x y ob k' v', Inv2 s -> In (x, y) (sc s) -> hget h0 x = Some ob ->
  rebuilt (okind ob) k' -> justified s y k' v'.
Proof.
  intros s x y ob k' v' J I G RB a oa Ia Ga.
  assert (a = x) by (eapply j_uniq; eassumption). subst a. rewrite G in Ga. inversion Ga; subst oa. left. assumption.
Qed.

Lemma key_persists : forall s s' y k v, Ext2 s s' -> In (k, v) (body_of s y) -> exists v', In (k, v') (body_of s' y).
Proof.
  intros s s' y k v [_ [_ E]] I. unfold body_of in *. destruct (hget (sh s) y) as [ob|] eqn:G; [|contradiction].
  destruct (E y ob k v G I) as [ob' [v' [G' I']]]. rewrite G'. eauto.
Qed.

Lemma put_adds_key : forall s y k v, (exists ob, hget (sh s) y = Some ob) -> In (k, v) (body_of (put s y k v) y).
Proof.
  intros s y k v [ob G]. rewrite (body_of_put_same _ _ _ _ _ G). apply in_bset_new.
Qed.


(* ---- loops (second pass) -------------------------------------------------------------------------- *)

Lemma kind_at_exists : forall h o kd, kind_at h o = Some kd -> exists ob, hget h o = Some ob.
Proof. unfold kind_at. intros h o kd H. destruct (hget h o); [eauto | discriminate]. Qed.

Lemma copy_append_one : forall rec s y i a,
  copy_append rec s y i [a] = (do (s1, a') <- rec s a ;; Ok (put s1 y (pidx i) a')).
Proof. intros. simpl. destruct (rec s a) as [[s1 a']| |]; reflexivity. Qed.

Lemma copy_append2 : forall xs rec f s y i kd x ob,
  RecSpecB rec f -> Inv s -> Inv2 s -> (U s < f)%nat -> n0 <= y -> kind_at (sh s) y = Some kd -> free_kind kd ->
  Forall vsrc2 xs -> In (x, y) (sc s) -> hget h0 x = Some ob ->
  (forall j a, nth_error xs j = Some a -> In (pidx (i + Z.of_nat j), a) (obody ob)) ->
  forall s', copy_append rec s y i xs = Ok s' ->
    Loop2 s s' /\ (forall j a, nth_error xs j = Some a -> exists v', In (pidx (i + Z.of_nat j), v') (body_of s' y)).
Proof.
  induction xs as [|a r IH]; intros rec f s y i kd x ob RB IV J Uf Hy K FK Fx Ixy G HS s' H.
  - simpl in H. inversion H; subst. split; [apply loop2_refl; assumption|]. intros j a0 N. destruct j; discriminate.
  - inversion Fx as [|? ? Va Vr]; subst.
    assert (ONE := copy_append_spec h0 seeds [a] rec f s y i kd (proj1 RB) IV Uf Hy K FK
                     (Forall_cons _ (proj1 Va) (Forall_nil _))).
    rewrite copy_append_one in ONE. simpl in H.
    destruct (rec s a) as [[s1 a']| |] eqn:E; simpl in H, ONE; try discriminate.
    destruct (loop2_rec rec f s a s1 a' RB IV J Va Uf E) as [L1 [R1 V1]].
    destruct ONE as [_ ONE]. destruct (ONE _ eq_refl) as [I2 E2].
    set (s2 := put s1 y (pidx i) a') in *.
    assert (K1 : kind_at (sh s1) y = Some kd) by (eapply kind_ext; [exact (l_ext _ _ L1) | exact K]).
    assert (Ixy1 : In (x, y) (sc s1)) by (apply (proj1 (l_ext2 _ _ L1)); assumption).
    assert (J2 : Inv2 s2).
    { apply inv2_put; [exact (l_inv2 _ _ L1) | |].
      - eapply justified_by with (k := pidx i) (v := a); [exact (l_inv2 _ _ L1) | exact Ixy1 | exact G | | reflexivity | exact V1].
        specialize (HS O a eq_refl). simpl in HS. rewrite Z.add_0_r in HS. exact HS.
      - destruct FK as [F1 F2]. eapply priv_side_kind; [exact K1 | rewrite F1; discriminate | exact F2]. }
    assert (L12 : Loop2 s1 s2).
    { apply loop2_step; [exact I2 | exact J2 | apply ext_put | apply ext2_put | apply put_sc | exact (l_inv2 _ _ L1)]. }
    assert (L02 : Loop2 s s2) by (eapply loop2_trans; eassumption).
    destruct (IH rec f s2 y (i + 1) kd x ob RB I2 J2) with (s' := s') as [L2 KP]; auto.
    + eapply U_lt_ext; [exact (l_ext _ _ L02) | exact Uf].
    + unfold s2. rewrite put_kind. exact K1.
    + unfold s2. rewrite put_sc. exact Ixy1.
    + intros j a0 N. specialize (HS (S j) a0 N). replace (i + 1 + Z.of_nat j) with (i + Z.of_nat (S j)) by lia. exact HS.
    + split; [eapply loop2_trans; eassumption|].
      intros j a0 N. destruct j as [|j].
      * simpl in N. inversion N; subst a0. simpl. rewrite Z.add_0_r.
        destruct (kind_at_exists _ _ _ K1) as [oy Gy].
        destruct (key_persists s2 s' y (pidx i) a' (l_ext2 _ _ L2)) as [v' I']; [apply put_adds_key; eauto|]. eauto.
      * simpl in N. destruct (KP j a0 N) as [v' I']. exists v'.
        replace (i + Z.of_nat (S j)) with (i + 1 + Z.of_nat j) by lia. exact I'.
Qed.

Lemma copy_entries_one : forall rec ck s y k v,
  copy_entries rec ck s y [(k, v)] =
  (do (s1, k') <- (if ck then rec s k else match k with P _ => Ok (s, k) | R _ => Err AttrErr end) ;;
   do (s2, v') <- rec s1 v ;; Ok (put s2 y k' v')).
Proof.
  intros. simpl. destruct (if ck then rec s k else match k with P _ => Ok (s, k) | R _ => Err AttrErr end) as [[s1 k']| |];
    simpl; [|reflexivity|reflexivity]. destruct (rec s1 v) as [[s2 v']| |]; reflexivity.
Qed.

Lemma copy_entries2 : forall es rec f ck s y kd x ob,
  RecSpecB rec f -> Inv s -> Inv2 s -> (U s < f)%nat -> n0 <= y -> kind_at (sh s) y = Some kd -> free_kind kd ->
  Forall (fun e => vsrc2 (fst e) /\ vsrc2 (snd e)) es -> In (x, y) (sc s) -> hget h0 x = Some ob ->
  (forall e, In e es -> In e (obody ob)) ->
  forall s', copy_entries rec ck s y es = Ok s' ->
    Loop2 s s' /\ (forall k v, In (k, v) es -> exists k' v', In (k', v') (body_of s' y) /\ vrel (sc s') k k').
Proof.
  induction es as [|[k v] r IH]; intros rec f ck s y kd x ob RB IV J Uf Hy K FK Fx Ixy G HS s' H.
  - simpl in H. inversion H; subst. split; [apply loop2_refl; assumption|]. intros k v [].
  - inversion Fx as [|? ? [Vk Vv] Vr]; subst. simpl in Vk, Vv.
    assert (FE : Forall (fun e : val * val => vsrc (fst e) /\ vsrc (snd e)) [(k, v)]).
    { constructor; [split; [exact (proj1 Vk) | exact (proj1 Vv)] | constructor]. }
    assert (ONE := copy_entries_spec h0 seeds [(k, v)] rec f ck s y kd (proj1 RB) IV Uf Hy K FK FE).
    rewrite copy_entries_one in ONE.
    change (copy_entries rec ck s y ((k, v) :: r)) with
      (do (s1, k') <- (if ck then rec s k else match k with P _ => Ok (s, k) | R _ => Err AttrErr end) ;;
       do (s2, v') <- rec s1 v ;; copy_entries rec ck (put s2 y k' v') y r) in H.
    (* the key *)
    assert (KEY : exists s1 k', (if ck then rec s k else match k with P _ => Ok (s, k) | R _ => Err AttrErr end) = Ok (s1, k')
                  /\ Loop2 s s1 /\ vrel (sc s1) k k').
    { destruct ck.
      - destruct (rec s k) as [[s1 k']| |] eqn:E; simpl in H; try discriminate.
        destruct (loop2_rec rec f s k s1 k' RB IV J Vk Uf E) as [L1 [_ V1]]. eauto.
      - destruct k as [p|o]; simpl in H; [|discriminate]. exists s, (P p). split; [reflexivity|].
        split; [apply loop2_refl; assumption | reflexivity]. }
    destruct KEY as [s1 [k' [EK [L1 V1]]]]. rewrite EK in H, ONE. simpl in H, ONE.
    destruct (rec s1 v) as [[s2 v']| |] eqn:E2; simpl in H, ONE; try discriminate.
    destruct (loop2_rec rec f s1 v s2 v' RB (l_inv _ _ L1) (l_inv2 _ _ L1) Vv
                (U_lt_ext h0 _ _ _ (l_ext _ _ L1) Uf) E2) as [L2 [_ V2]].
    destruct ONE as [_ ONE]. destruct (ONE _ eq_refl) as [I3 E3].
    set (s3 := put s2 y k' v') in *.
    assert (L02 : Loop2 s s2) by (eapply loop2_trans; eassumption).
    assert (K2 : kind_at (sh s2) y = Some kd) by (eapply kind_ext; [exact (l_ext _ _ L02) | exact K]).
    assert (Ixy2 : In (x, y) (sc s2)) by (apply (proj1 (l_ext2 _ _ L02)); assumption).
    assert (J3 : Inv2 s3).
    { apply inv2_put; [exact (l_inv2 _ _ L2) | |].
      - eapply justified_by with (k := k) (v := v); [exact (l_inv2 _ _ L2) | exact Ixy2 | exact G | | | exact V2].
        + apply HS. left. reflexivity.
        + eapply vrel_mono; [exact (proj1 (l_ext2 _ _ L2)) | exact V1].
      - destruct FK as [F1 F2]. eapply priv_side_kind; [exact K2 | rewrite F1; discriminate | exact F2]. }
    assert (L23 : Loop2 s2 s3).
    { apply loop2_step; [exact I3 | exact J3 | apply ext_put | apply ext2_put | apply put_sc | exact (l_inv2 _ _ L2)]. }
    assert (L03 : Loop2 s s3) by (eapply loop2_trans; eassumption).
    destruct (IH rec f ck s3 y kd x ob RB I3 J3) with (s' := s') as [L3 KP]; auto.
    + eapply U_lt_ext; [exact (l_ext _ _ L03) | exact Uf].
    + unfold s3. rewrite put_kind. exact K2.
    + unfold s3. rewrite put_sc. exact Ixy2.
    + intros e Ie. apply HS. right. assumption.
    + split; [eapply loop2_trans; eassumption|].
      intros k0 v0 [Ie|Ie].
      * inversion Ie; subst k0 v0. destruct (kind_at_exists _ _ _ K2) as [oy Gy].
        destruct (key_persists s3 s' y k' v' (l_ext2 _ _ L3)) as [v1 I1]; [apply put_adds_key; eauto|].
        exists k', v1. split; [exact I1|].
        eapply vrel_mono; [|exact V1]. intros p Ip. apply (proj1 (l_ext2 _ _ L3)). unfold s3. rewrite put_sc.
        apply (proj1 (l_ext2 _ _ L2)). exact Ip.
      * apply (KP k0 v0 Ie).
Qed.


Lemma plain_fields_one : forall rec skip s y k v,
  plain_fields rec skip s y [(k, v)] =
  if existsb (val_eqb k) skip then Ok s else (do (s1, v') <- rec s v ;; Ok (put s1 y k v')).
Proof.
  intros. simpl. destruct (existsb (val_eqb k) skip); [reflexivity|].
  destruct (rec s v) as [[s1 v']| |]; reflexivity.
Qed.

Lemma plain_fields2 : forall es rec f skip s y kd x ob,
  RecSpecB rec f -> Inv s -> Inv2 s -> (U s < f)%nat -> n0 <= y -> kind_at (sh s) y = Some kd ->
  kd <> KAnnSet -> (is_annk kd = true -> In NM_ANN skip) ->
  Forall (fun e => (exists p, fst e = P p) /\ vsrc (snd e)) es ->
  (forall k v, In (k, v) es -> existsb (val_eqb k) skip = false -> vsrc2 v) ->
  In (x, y) (sc s) -> hget h0 x = Some ob -> (forall e, In e es -> In e (obody ob)) ->
  forall s', plain_fields rec skip s y es = Ok s' ->
    Loop2 s s' /\ (forall k v, In (k, v) es -> existsb (val_eqb k) skip = false -> exists v', In (k, v') (body_of s' y)).
Proof.
  induction es as [|[k v] r IH]; intros rec f skip s y kd x ob RB IV J Uf Hy K NA SK Fx V2 Ixy G HS s' H.
  - simpl in H. inversion H; subst. split; [apply loop2_refl; assumption|]. intros k v [].
  - inversion Fx as [|? ? [[p Vk] Vv] Vr]; subst. simpl in Vk, Vv. subst k.
    assert (FE : Forall (fun e : val * val => (exists p, fst e = P p) /\ vsrc (snd e)) [(P p, v)]).
    { constructor; [split; [eexists; reflexivity | exact Vv] | constructor]. }
    assert (ONE := plain_fields_spec h0 seeds [(P p, v)] rec f skip s y kd (proj1 RB) IV Uf Hy K NA SK FE).
    rewrite plain_fields_one in ONE.
    change (plain_fields rec skip s y ((P p, v) :: r)) with
      (if existsb (val_eqb (P p)) skip then plain_fields rec skip s y r
       else do (s1, v') <- rec s v ;; plain_fields rec skip (put s1 y (P p) v') y r) in H.
    destruct (existsb (val_eqb (P p)) skip) eqn:EX.
    + destruct (IH rec f skip s y kd x ob RB IV J Uf Hy K NA SK Vr) with (s' := s') as [L KP]; auto.
      * intros k0 v0 I0. apply V2. right. assumption.
      * intros e Ie. apply HS. right. assumption.
      * split; [exact L|]. intros k0 v0 [Ie|Ie] NS; [inversion Ie; subst; congruence | eapply KP; eassumption].
    + assert (Vv2 : vsrc2 v) by (apply (V2 (P p) v); [left; reflexivity | exact EX]).
      destruct (rec s v) as [[s1 v']| |] eqn:E; simpl in H, ONE; try discriminate.
      destruct (loop2_rec rec f s v s1 v' RB IV J Vv2 Uf E) as [L1 [R1 V1]].
      destruct ONE as [_ ONE]. destruct (ONE _ eq_refl) as [I2 E2].
      set (s2 := put s1 y (P p) v') in *.
      assert (K1 : kind_at (sh s1) y = Some kd) by (eapply kind_ext; [exact (l_ext _ _ L1) | exact K]).
      assert (Ixy1 : In (x, y) (sc s1)) by (apply (proj1 (l_ext2 _ _ L1)); assumption).
      assert (J2 : Inv2 s2).
      { apply inv2_put; [exact (l_inv2 _ _ L1) | |].
        - eapply justified_by with (k := P p) (v := v); [exact (l_inv2 _ _ L1) | exact Ixy1 | exact G | | reflexivity | exact V1].
          apply HS. left. reflexivity.
        - eapply priv_side_kind; [exact K1 | | exact NA].
          intros AK C. apply SK in AK. rewrite <- C in AK.
          assert (X : existsb (val_eqb (P p)) skip = true).
          { apply existsb_exists. exists (P p). split; [assumption | apply val_eqb_refl]. }
          congruence. }
      assert (L12 : Loop2 s1 s2).
      { apply loop2_step; [exact I2 | exact J2 | apply ext_put | apply ext2_put | apply put_sc | exact (l_inv2 _ _ L1)]. }
      assert (L02 : Loop2 s s2) by (eapply loop2_trans; eassumption).
      destruct (IH rec f skip s2 y kd x ob RB I2 J2) with (s' := s') as [L2 KP]; auto.
      * eapply U_lt_ext; [exact (l_ext _ _ L02) | exact Uf].
      * unfold s2. rewrite put_kind. exact K1.
      * intros k0 v0 I0. apply V2. right. assumption.
      * unfold s2. rewrite put_sc. exact Ixy1.
      * intros e Ie. apply HS. right. assumption.
      * split; [eapply loop2_trans; eassumption|].
        intros k0 v0 [Ie|Ie] NS.
        -- inversion Ie; subst k0 v0. destruct (kind_at_exists _ _ _ K1) as [oy Gy].
           apply (key_persists s2 s' y (P p) v' (l_ext2 _ _ L2)). apply put_adds_key. eauto.
        -- eapply KP; eassumption.
Qed.

Lemma annotable_fields_one : forall rec s y k v,
  annotable_fields rec s y [(k, v)] =
  if val_eqb k NM_ANN then Ok s
  else match bget (body_of s y) k with
       | Some _ => Ok s
       | None => do (s1, v') <- rec s v ;; Ok (memo_val (put s1 y k v') v v')
       end.
Proof.
  intros. simpl. destruct (val_eqb k NM_ANN); [reflexivity|].
  destruct (bget (body_of s y) k); [reflexivity|]. destruct (rec s v) as [[s1 v']| |]; reflexivity.
Qed.

Lemma annotable_fields2 : forall es rec f s y kd x ob,
  RecSpecB rec f -> Inv s -> Inv2 s -> (U s < f)%nat -> n0 <= y -> kind_at (sh s) y = Some kd -> kd <> KAnnSet ->
  Forall (fun e => (exists p, fst e = P p) /\ vsrc (snd e)) es ->
  (forall k v, In (k, v) es -> k <> NM_ANN -> vsrc2 v) ->
  In (x, y) (sc s) -> hget h0 x = Some ob -> (forall e, In e es -> In e (obody ob)) ->
  forall s', annotable_fields rec s y es = Ok s' ->
    Loop2 s s' /\ (forall k v, In (k, v) es -> k <> NM_ANN -> exists v', In (k, v') (body_of s' y)).
Proof.
  induction es as [|[k v] r IH]; intros rec f s y kd x ob RB IV J Uf Hy K NA Fx V2 Ixy G HS s' H.
  - simpl in H. inversion H; subst. split; [apply loop2_refl; assumption|]. intros k v [].
  - inversion Fx as [|? ? [[p Vk] Vv] Vr]; subst. simpl in Vk, Vv. subst k.
    assert (FE : Forall (fun e : val * val => (exists p, fst e = P p) /\ vsrc (snd e)) [(P p, v)]).
    { constructor; [split; [eexists; reflexivity | exact Vv] | constructor]. }
    assert (ONE := annotable_fields_spec h0 seeds [(P p, v)] rec f s y kd (proj1 RB) IV Uf Hy K NA FE).
    rewrite annotable_fields_one in ONE.
    change (annotable_fields rec s y ((P p, v) :: r)) with
      (if val_eqb (P p) NM_ANN then annotable_fields rec s y r
       else match bget (body_of s y) (P p) with
            | Some _ => annotable_fields rec s y r
            | None => do (s1, v') <- rec s v ;; annotable_fields rec (memo_val (put s1 y (P p) v') v v') y r
            end) in H.
    assert (SKIP : forall (PRES : P p = NM_ANN \/ exists v0, In (P p, v0) (body_of s y)),
              annotable_fields rec s y r = Ok s' ->
              Loop2 s s' /\ (forall k v1, In (k, v1) ((P p, v) :: r) -> k <> NM_ANN -> exists v', In (k, v') (body_of s' y))).
    { intros PRES H'. destruct (IH rec f s y kd x ob RB IV J Uf Hy K NA Vr) with (s' := s') as [L KP]; auto.
      - intros k0 v0 I0. apply V2. right. assumption.
      - intros e Ie. apply HS. right. assumption.
      - split; [exact L|]. intros k0 v1 [Ie|Ie] NE; [|eapply KP; eassumption].
        inversion Ie; subst k0 v1. destruct PRES as [C|[v0 I0]]; [contradiction|].
        eapply key_persists; [exact (l_ext2 _ _ L) | exact I0]. }
    destruct (val_eqb (P p) NM_ANN) eqn:EA.
    { apply SKIP; [left; apply val_eqb_eq; exact EA | exact H]. }
    destruct (bget (body_of s y) (P p)) as [v0|] eqn:BG.
    { apply SKIP; [right; exists v0; apply bget_In; exact BG | exact H]. }
    apply val_eqb_neq in EA.
    assert (Vv2 : vsrc2 v) by (apply (V2 (P p) v); [left; reflexivity | exact EA]).
    destruct (rec s v) as [[s1 v']| |] eqn:E; simpl in H, ONE; try discriminate.
    destruct (loop2_rec rec f s v s1 v' RB IV J Vv2 Uf E) as [L1 [R1 V1]].
    destruct ONE as [_ ONE]. destruct (ONE _ eq_refl) as [I3 E3].
    set (s2 := put s1 y (P p) v') in *.
    set (s3 := memo_val s2 v v') in *.
    assert (K1 : kind_at (sh s1) y = Some kd) by (eapply kind_ext; [exact (l_ext _ _ L1) | exact K]).
    assert (Ixy1 : In (x, y) (sc s1)) by (apply (proj1 (l_ext2 _ _ L1)); assumption).
    assert (I2 : Inv s2).
    { apply inv_put; [exact (l_inv _ _ L1) | exact Hy | exact Logic.I | eapply res_ok_vok; exact R1 |].
      eapply put_side_kind; [exact K1 | intros _ C; contradiction | exact NA]. }
    assert (J2 : Inv2 s2).
    { apply inv2_put; [exact (l_inv2 _ _ L1) | |].
      - eapply justified_by with (k := P p) (v := v); [exact (l_inv2 _ _ L1) | exact Ixy1 | exact G | | reflexivity | exact V1].
        apply HS. left. reflexivity.
      - eapply priv_side_kind; [exact K1 | intros _ C; contradiction | exact NA]. }
    assert (L12 : Loop2 s1 s2).
    { apply loop2_step; [exact I2 | exact J2 | apply ext_put | apply ext2_put | apply put_sc | exact (l_inv2 _ _ L1)]. }
    assert (L23 : Loop2 s2 s3).
    { apply loop2_memo_val; [exact I2 | exact J2 | exact Vv | unfold s2; rewrite put_hlen; exact R1 |].
      unfold s2. rewrite put_sc. exact V1. }
    assert (L03 : Loop2 s s3) by (eapply loop2_trans; [exact L1|]; eapply loop2_trans; eassumption).
    destruct (IH rec f s3 y kd x ob RB (l_inv _ _ L23) (l_inv2 _ _ L23)) with (s' := s') as [L3 KP]; auto.
    + eapply U_lt_ext; [exact (l_ext _ _ L03) | exact Uf].
    + eapply kind_ext; [exact (l_ext _ _ L23)|]. unfold s2. rewrite put_kind. exact K1.
    + intros k0 v0 I0. apply V2. right. assumption.
    + apply (proj1 (l_ext2 _ _ L23)). unfold s2. rewrite put_sc. exact Ixy1.
    + intros e Ie. apply HS. right. assumption.
    + split; [eapply loop2_trans; eassumption|].
      intros k0 v0 [Ie|Ie] NE.
      * inversion Ie; subst k0 v0. destruct (kind_at_exists _ _ _ K1) as [oy Gy].
        destruct (key_persists s2 s3 y (P p) v' (l_ext2 _ _ L23)) as [v1 I1]; [apply put_adds_key; eauto|].
        eapply key_persists; [exact (l_ext2 _ _ L3) | exact I1].
      * eapply KP; eassumption.
Qed.


(* ---- annotation sets (second pass) ------------------------------------------------------------- *)

Lemma not_in_range_new : forall s b, Inv2 s -> hlen (sh s) <= b -> ~ in_range (sc s) b.
Proof. intros s b J H [a I]. destruct (j_scr _ J a b I). lia. Qed.

Lemma in_range_mono_inv : forall s s' b, sc s' = sc s -> ~ in_range (sc s) b -> ~ in_range (sc s') b.
Proof. intros s s' b E N. rewrite E. exact N. Qed.

Lemma oset_add2 : forall s sy a s', Inv s -> Inv2 s -> n0 <= sy -> kind_at (sh s) sy = Some KAnnSet ->
  vok h0 seeds (hlen (sh s)) a -> oset_add s sy a = Ok s' -> Loop2 s s'.
Proof.
  intros s sy a s' IV J Hy K Va H.
  destruct (oset_add_spec h0 seeds s sy a s' IV Hy K Va H) as [I' E'].
  unfold oset_add in H. destruct (kind_at_hget _ _ _ K) as [ob [G KO]].
  destruct (i_ann _ _ _ IV sy ob Hy G) as [_ A2]. destruct (A2 KO) as [AL AS].
  destruct (j_priv _ J sy ob Hy G) as [_ P2]. specialize (P2 KO).
  unfold body_of in H at 1 2. rewrite G in H.
  destruct (bget (obody ob) NM_ISET) as [[?|zy]|] eqn:BZ; try discriminate.
  destruct (bget (obody ob) NM_ILIST) as [[?|ly]|] eqn:BL; try discriminate.
  destruct (AS _ eq_refl zy eq_refl) as [Fz Kz]. destruct (AL _ eq_refl ly eq_refl) as [Fl Kl].
  assert (Nz : ~ in_range (sc s) zy) by (eapply (P2 NM_ISET zy); [right; reflexivity | exact BZ]).
  assert (Nl : ~ in_range (sc s) ly) by (eapply (P2 NM_ILIST ly); [left; reflexivity | exact BL]).
  destruct (bget (body_of s zy) a).
  - inversion H; subst. apply loop2_refl; assumption.
  - inversion H; subst. clear H.
    set (s1 := put s zy a PNone) in *.
    assert (J1 : Inv2 s1).
    { apply inv2_put; [exact J | apply justified_private; exact Nz |].
      eapply priv_side_kind; [exact Kz | discriminate | discriminate]. }
    apply loop2_step; [exact I' | | exact E' | | | exact J].
    + apply inv2_put; [exact J1 | apply justified_private; unfold s1; rewrite put_sc; exact Nl |].
      eapply priv_side_kind; [unfold s1; rewrite put_kind; exact Kl | discriminate | discriminate].
    + eapply ext2_trans; [apply ext_put | apply ext2_put | apply ext2_put].
    + rewrite put_sc. unfold s1. apply put_sc.
Qed.

Lemma new_annset2 : forall s cls tg, Inv s -> Inv2 s -> vok h0 seeds (hlen (sh s)) tg ->
  Loop2 s (fst (new_annset s cls tg)) /\ sc (fst (new_annset s cls tg)) = sc s.
Proof.
  intros s cls tg IV J Vt.
  destruct (new_annset_spec h0 seeds s cls tg IV Vt) as [I' [E' [_ K']]].
  assert (SC : sc (fst (new_annset s cls tg)) = sc s).
  { rewrite new_annset_eq. cbn [fst]. rewrite !put_sc. reflexivity. }
  split; [|exact SC].
  apply loop2_step; [exact I' | | exact E' | | exact SC | exact J].
  - rewrite new_annset_eq. cbn [fst].
    set (s1 := fst (alloc s (mkObj cls KAnnSet []))).
    set (s2 := fst (alloc s1 (mkObj CLS_LIST KList []))).
    set (s3 := fst (alloc s2 (mkObj CLS_SET KSet []))).
    assert (I1 : Inv s1) by (apply inv_alloc_empty; assumption).
    assert (I2 : Inv s2) by (apply inv_alloc_empty; assumption).
    assert (VAC : forall t c kd, Inv t -> Inv2 t -> Inv2 (fst (alloc t (mkObj c kd [])))).
    { intros t c kd It Jt. apply inv2_alloc; auto; simpl; intros; discriminate. }
    assert (J1 : Inv2 s1) by (apply VAC; assumption).
    assert (J2 : Inv2 s2) by (apply VAC; assumption).
    assert (J3 : Inv2 s3) by (apply VAC; assumption).
    assert (L1 : hlen (sh s1) = hlen (sh s) + 1) by (unfold s1; simpl; apply hlen_app1).
    assert (L2 : hlen (sh s2) = hlen (sh s) + 2) by (unfold s2, s1; simpl; rewrite !hlen_app1; lia).
    assert (SC3 : sc s3 = sc s) by reflexivity.
    assert (NR : forall b, hlen (sh s) <= b -> ~ in_range (sc s3) b).
    { intros b Hb. rewrite SC3. apply not_in_range_new; assumption. }
    assert (P1 : Inv2 (put s3 (hlen (sh s)) NM_ILIST (R (hlen (sh s1))))).
    { apply inv2_put; [exact J3 | apply justified_private; apply NR; lia |].
      intros ob G. split; [intros _ C; discriminate C|]. intros _ _ l E.
      assert (EQ : l = hlen (sh s1)) by (inversion E; reflexivity). subst l. apply NR. lia. }
    assert (P2 : Inv2 (put (put s3 (hlen (sh s)) NM_ILIST (R (hlen (sh s1)))) (hlen (sh s)) NM_ISET (R (hlen (sh s2))))).
    { apply inv2_put; [exact P1 | apply justified_private; rewrite put_sc; apply NR; lia |].
      intros ob G. split; [intros _ C; discriminate C|]. intros _ _ l E.
      assert (EQ : l = hlen (sh s2)) by (inversion E; reflexivity). subst l. rewrite put_sc. apply NR. lia. }
    apply inv2_put; [exact P2 | apply justified_private; rewrite !put_sc; apply NR; lia |].
    apply priv_side_key; discriminate.
  - rewrite new_annset_eq. cbn [fst].
    eapply ext2_trans; [apply ext_alloc | apply ext2_alloc |].
    eapply ext2_trans; [apply ext_alloc | apply ext2_alloc |].
    eapply ext2_trans; [apply ext_alloc | apply ext2_alloc |].
    eapply ext2_trans; [apply ext_put | apply ext2_put |].
    eapply ext2_trans; [apply ext_put | apply ext2_put | apply ext2_put].
Qed.

Lemma annotations_add2 : forall s dst a2 s' kd src sob, Inv s -> Inv2 s -> n0 <= dst ->
  kind_at (sh s) dst = Some kd -> is_annk kd = true -> vok h0 seeds (hlen (sh s)) a2 ->
  In (src, dst) (sc s) -> hget h0 src = Some sob -> is_annk (okind sob) = true ->
  annotations_add s dst a2 = Ok s' -> Loop2 s s'.
Proof.
  intros s dst a2 s' kd src sob IV J Hd K AK Va Isd Gs AKs H. unfold annotations_add in H.
  destruct (kind_at_hget _ _ _ K) as [ob [G KO]].
  unfold body_of in H at 1. rewrite G in H.
  destruct (bget (obody ob) NM_ANN) as [[?|sy]|] eqn:B; try discriminate.
  - destruct (i_ann _ _ _ IV dst ob Hd G) as [A1 _]. rewrite KO in A1.
    destruct (A1 AK _ B sy eq_refl) as [Fy Ky]. eapply oset_add2; eassumption.
  - destruct (new_annset2 s CLS_ANNSET (R dst) IV J) as [L1 SC1].
    { left. apply hget_Some_range in G. lia. }
    destruct (new_annset_spec h0 seeds s CLS_ANNSET (R dst) IV) as [_ [_ [Y K1]]].
    { left. apply hget_Some_range in G. lia. }
    destruct (new_annset s CLS_ANNSET (R dst)) as [s1 sy] eqn:NA. cbn [fst snd] in *. subst sy.
    assert (N := i_len _ _ _ IV).
    set (s2 := put s1 dst NM_ANN (R (hlen (sh s)))) in *.
    assert (Ks1 : kind_at (sh s1) dst = Some kd) by (eapply kind_ext; [exact (l_ext _ _ L1) | exact K]).
    assert (I2 : Inv s2).
    { apply inv_put; [exact (l_inv _ _ L1) | exact Hd | exact Logic.I | |].
      - left. apply kind_at_hget in K1. destruct K1 as [? [K1 _]]. apply hget_Some_range in K1. lia.
      - intros ob' G'. split.
        + intros _ _ o E. inversion E; subst o. split; [lia | assumption].
        + intros C. exfalso. unfold kind_at in Ks1. rewrite G' in Ks1.
          assert (KE : kd = KAnnSet) by congruence. rewrite KE in AK. discriminate AK. }
    assert (J2 : Inv2 s2).
    { apply inv2_put; [exact (l_inv2 _ _ L1) | |].
      - eapply justified_rebuilt; [exact (l_inv2 _ _ L1) | rewrite SC1; exact Isd | exact Gs |].
        left. split; [exact AKs | reflexivity].
      - intros ob' G'. split.
        + intros _ _ sy E. inversion E; subst sy. rewrite SC1. apply not_in_range_new; [exact J | lia].
        + intros C. exfalso. unfold kind_at in Ks1. rewrite G' in Ks1.
          assert (KE : kd = KAnnSet) by congruence. rewrite KE in AK. discriminate AK. }
    assert (L12 : Loop2 s1 s2).
    { apply loop2_step; [exact I2 | exact J2 | apply ext_put | apply ext2_put | apply put_sc | exact (l_inv2 _ _ L1)]. }
    assert (L23 : Loop2 s2 s').
    { eapply oset_add2 with (sy := hlen (sh s)) (a := a2); [exact I2 | exact J2 | lia | | | exact H].
      - unfold s2. rewrite put_kind. exact K1.
      - unfold s2. rewrite put_hlen. eapply vok_ext; [exact (l_ext _ _ L1) | exact Va]. }
    eapply loop2_trans; [exact L1|]. eapply loop2_trans; eassumption.
Qed.


(* ---- re-targeting (second pass) ------------------------------------------------------------------ *)

Lemma fresh_refs_lt : forall s y ob k v b, Inv s -> n0 <= y -> hget (sh s) y = Some ob -> In (k, v) (obody ob) ->
  (k = R b \/ v = R b) -> b < hlen (sh s).
Proof.
  intros s y ob k v b IV Hy G I E. destruct (i_fresh _ _ _ IV y ob k v Hy G I) as [Vk Vv].
  assert (N := i_len _ _ _ IV).
  destruct E as [E|E]; subst; simpl in *.
  - destruct Vk as [X|[[_ X] _]]; lia.
  - destruct Vv as [X|[[_ X] _]]; lia.
Qed.

Lemma values_two : forall (b : list (val * val)) x y r, values b = x :: y :: r ->
  exists k0 k1 b', b = (k0, x) :: (k1, y) :: b'.
Proof.
  intros b x y r H. destruct b as [|[k0 v0] [|[k1 v1] b']]; simpl in H; try discriminate.
  inversion H; subst. eauto.
Qed.

Lemma ext2_alloc_note : forall s x a, Ext2 s (note (fst (alloc s x)) a (hlen (sh s))).
Proof.
  intros s x a. split; [|split]; simpl.
  - intros p I. right. assumption.
  - intros a0 b [E|I]; [inversion E; subst; right; lia | left; assumption].
  - intros o ob k v G I. exists ob, v. split; [|assumption]. rewrite hget_app_old; [assumption|].
    apply hget_Some_range in G. lia.
Qed.

Lemma retarget2 : forall s dst src a1 a2 s' sob, Inv s -> Inv2 s -> n0 <= dst < hlen (sh s) -> 0 <= src < n0 ->
  item_ok h0 seeds src a1 -> res_ok (hlen (sh s)) a1 a2 -> vrel (sc s) a1 a2 ->
  In (src, dst) (sc s) -> hget h0 src = Some sob -> (forall a, a1 = R a -> In (R a) (ann_items h0 sob)) ->
  retarget s dst src a1 a2 = Ok s' -> Loop2 s s'.
Proof.
  intros s dst src a1 a2 s' sob IV J Hd Hs IO RO VR Isd Gs ITEM H.
  destruct (retarget_spec h0 seeds Hclosed s dst src a1 a2 s' IV Hd Hs IO RO H) as [I' E'].
  destruct IO as [V1 IO]. unfold retarget in H.
  destruct a2 as [?|a2o]; [discriminate|].
  destruct (bget (body_of s a2o) NM_ISATTR) as [isattr|]; [|discriminate].
  destruct (val_eqb isattr PTrue); [|inversion H; subst; apply loop2_refl; assumption].
  destruct a1 as [?|a1o]; [discriminate|]. simpl in V1.
  destruct (IO a1o eq_refl) as [NS NM]. specialize (ITEM a1o eq_refl).
  rewrite (body_of_old h0 seeds s a1o IV) in H by lia.
  destruct (hget h0 a1o) as [ao|] eqn:GA; [|discriminate].
  destruct (bget (obody ao) NM_VALUE) as [[?|t]|] eqn:BV; try discriminate.
  assert (Vt : 0 <= t < n0).
  { destruct (Hclosed _ _ _ _ GA (bget_In _ _ _ BV)) as [_ X]. exact X. }
  unfold kind_of in H. rewrite (i_old _ _ _ IV t) in H by lia.
  rewrite (body_of_old h0 seeds s t IV) in H by lia.
  destruct (hget h0 t) as [tob|] eqn:GT; [|discriminate].
  assert (KK : (okind tob = KTuple \/ okind tob = KList) ->
     match values (obody tob) with
     | [] => Err IndexErr
     | owner :: rest =>
       if val_eqb owner (R src) then
         match rest with
         | [] => Err IndexErr
         | name :: _ =>
           let '(sa, tn) := alloc s (mkObj CLS_TUPLE KTuple [(pidx 0, R dst); (pidx 1, name)]) in
           Ok (put (note sa t tn) a2o NM_VALUE (R tn))
         end
       else Ok s
     end = Ok s' -> Loop2 s s').
  { intros KT HH. destruct (values (obody tob)) as [|owner rest] eqn:VS; [discriminate|].
    destruct (val_eqb owner (R src)) eqn:EO; [|inversion HH; subst; apply loop2_refl; assumption].
    apply val_eqb_eq in EO. destruct rest as [|name rest']; [discriminate|].
    destruct (NM ao t tob owner name rest' eq_refl BV GT KT VS EO) as [p Np]. subst name owner.
    destruct (H2bound src sob a1o ao t tob (R src) (P p :: rest') Gs ITEM GA BV GT KT VS eq_refl) as [KT2 [CT LN]].
    destruct (values_two _ _ _ _ VS) as [k0 [k1 [b' EB]]].
    assert (b' = []) by (rewrite EB in LN; simpl in LN; destruct b'; [reflexivity | discriminate]). subst b'.
    assert (KT' : okind tob = KList \/ okind tob = KTuple) by tauto.
    assert (K0 : k0 = pidx 0).
    { apply (H2listkeys t tob O (k0, R src) GT KT'). rewrite EB. reflexivity. }
    assert (K1 : k1 = pidx 1).
    { apply (H2listkeys t tob 1%nat (k1, P p) GT KT'). rewrite EB. reflexivity. }
    subst k0 k1.
    cbn [alloc] in HH. inversion HH; subst s'. clear HH.
    set (tb := mkObj CLS_TUPLE KTuple [(pidx 0, R dst); (pidx 1, P p)]) in *.
    set (sa := fst (alloc s tb)) in *.
    set (tn := hlen (sh s)) in *.
    assert (N := i_len _ _ _ IV).
    assert (Ia : Inv sa).
    { apply inv_alloc; [exact IV| | |].
      - intros k v IN. simpl in IN. destruct IN as [IN|[IN|[]]]; inversion IN; subst; split; try exact Logic.I.
        left. lia.
      - intros C. discriminate C.
      - intros C. discriminate C. }
    assert (Ja : Inv2 sa) by (apply inv2_alloc; auto; simpl; intros; discriminate).
    assert (La : hlen (sh sa) = hlen (sh s) + 1) by (unfold sa; simpl; apply hlen_app1).
    assert (F2 : n0 <= a2o < hlen (sh s)).
    { simpl in RO. destruct RO as [RO|[SH EQ]]; [lia|]. inversion EQ; subst. contradiction. }
    assert (I12 : In (a1o, a2o) (sc s)).
    { simpl in VR. destruct VR as [VR|[VR _]]; [exact VR | lia]. }
    assert (Gtn : hget (sh sa) tn = Some tb) by (unfold sa, tn; simpl; apply hget_app_new).
    set (sn := note sa t tn) in *.
    assert (Jn : Inv2 sn).
    { apply inv2_note; [exact Ia | exact Ja | exact Vt | unfold tn; lia | | |].
      - apply (not_in_range_new s tn J). unfold tn. lia.
      - exists tob, tb. split; [exact GT|]. split; [exact Gtn|]. split; [rewrite CT; reflexivity|].
        split; [rewrite KT2; reflexivity|]. intros k' v' IN. right. simpl in IN.
        destruct IN as [IN|[IN|[]]]; inversion IN; subst k' v'.
        + exists (pidx 0), (R src). split; [rewrite EB; left; reflexivity|]. split; [reflexivity|].
          left. right. exact Isd.
        + exists (pidx 1), (P p). split; [rewrite EB; right; left; reflexivity|]. split; reflexivity.
      - intros y ob Hy G.
        assert (NE : forall k, bget (obody ob) k <> Some (R tn) \/ y = tn).
        { intros k. destruct (Z.eq_dec y tn) as [E|E]; [right; exact E|]. left. intros B.
          assert (R0 := hget_Some_range _ _ _ G). rewrite La in R0.
          assert (G0 : hget (sh s) y = Some ob).
          { unfold sa in G. simpl in G. rewrite hget_app_old in G by (unfold tn in E; lia). exact G. }
          assert (X := fresh_refs_lt s y ob k (R tn) tn IV Hy G0 (bget_In _ _ _ B) (or_intror eq_refl)).
          unfold tn in X. lia. }
        split.
        + intros AK B. destruct (NE NM_ANN) as [X|X]; [contradiction|]. subst y. rewrite Gtn in G.
          inversion G; subst ob. discriminate AK.
        + intros KS. destruct (NE NM_ILIST) as [X|X]; [|subst y; rewrite Gtn in G; inversion G; subst ob; discriminate KS].
          destruct (NE NM_ISET) as [X'|X']; [split; assumption|].
          subst y. rewrite Gtn in G. inversion G; subst ob. discriminate KS. }
    assert (J' : Inv2 (put sn a2o NM_VALUE (R tn))).
    { apply inv2_put; [exact Jn | | apply priv_side_key; discriminate].
      eapply justified_by with (x := a1o) (k := NM_VALUE) (v := R t);
        [exact Jn | right; exact I12 | exact GA | apply bget_In; exact BV | reflexivity | left; left; reflexivity]. }
    constructor; [exact I' | exact J' | exact E' | |].
    - eapply ext2_trans with (b := sn); [|apply ext2_alloc_note | apply ext2_put].
      eapply ext_trans; [apply ext_alloc | apply ext_note].
    - intros a b IN Hb. rewrite put_sc in IN. simpl in IN. destruct IN as [IN|IN].
      + inversion IN; subst a b. intros oa ob Ga Gb k v Ik. right.
        rewrite GT in Ga. inversion Ga; subst oa. rewrite put_get_other in Gb by (unfold tn; lia).
        change (hget (sh sa) tn = Some ob) in Gb. rewrite Gtn in Gb. inversion Gb; subst ob.
        rewrite EB in Ik. simpl in Ik. destruct Ik as [Ik|[Ik|[]]]; inversion Ik; subst k v.
        * exists (pidx 0), (R dst). split; [left; reflexivity | reflexivity].
        * exists (pidx 1), (P p). split; [right; left; reflexivity | reflexivity].
      + destruct (j_scr _ J a b IN). lia. }
  destruct (okind tob) eqn:KT; try discriminate; (apply KK; [auto | exact H]).
Qed.


Lemma copy_annotation_items_one : forall rec s dst src a1,
  copy_annotation_items rec s dst src [a1] =
  (do (s1, a2) <- rec s a1 ;; do s3 <- retarget (memo_val s1 a1 a2) dst src a1 a2 ;; annotations_add s3 dst a2).
Proof.
  intros. simpl. destruct (rec s a1) as [[s1 a2]| |]; simpl; [|reflexivity|reflexivity].
  destruct (retarget (memo_val s1 a1 a2) dst src a1 a2) as [s3| |]; simpl; [|reflexivity|reflexivity].
  destruct (annotations_add s3 dst a2); reflexivity.
Qed.

Lemma memo_val_hlen : forall s v v', hlen (sh (memo_val s v v')) = hlen (sh s).
Proof. intros s [p|?] [?|?]; simpl; try reflexivity; destruct p; reflexivity. Qed.

Lemma copy_annotation_items2 : forall items rec f s dst src kd sob,
  RecSpecB rec f -> Inv s -> Inv2 s -> (U s < f)%nat -> n0 <= dst < hlen (sh s) ->
  kind_at (sh s) dst = Some kd -> is_annk kd = true -> 0 <= src < n0 ->
  Forall (item_ok h0 seeds src) items -> Forall vsrc2 items ->
  In (src, dst) (sc s) -> hget h0 src = Some sob -> is_annk (okind sob) = true ->
  (forall a, In (R a) items -> In (R a) (ann_items h0 sob)) ->
  forall s', copy_annotation_items rec s dst src items = Ok s' -> Loop2 s s'.
Proof.
  induction items as [|a1 r IH]; intros rec f s dst src kd sob RB IV J Uf Hd K AK Hs Fx F2 Isd Gs AKs ITEMS s' H.
  - simpl in H. inversion H; subst. apply loop2_refl; assumption.
  - inversion Fx as [|? ? IO Fr]; subst. inversion F2 as [|? ? V2 F2r]; subst.
    simpl in H. destruct (rec s a1) as [[s1 a2]| |] eqn:E; simpl in H; try discriminate.
    destruct (loop2_rec rec f s a1 s1 a2 RB IV J V2 Uf E) as [L1 [R1 VR1]].
    set (s2 := memo_val s1 a1 a2) in *.
    assert (L12 : Loop2 s1 s2).
    { apply loop2_memo_val; [exact (l_inv _ _ L1) | exact (l_inv2 _ _ L1) | exact (proj1 V2) | exact R1 | exact VR1]. }
    assert (L02 : Loop2 s s2) by (eapply loop2_trans; eassumption).
    assert (HL2 : hlen (sh s2) = hlen (sh s1)) by apply memo_val_hlen.
    destruct (retarget s2 dst src a1 a2) as [s3| |] eqn:RT; simpl in H; try discriminate.
    assert (Hd2 : n0 <= dst < hlen (sh s2)) by (destruct (l_ext _ _ L02) as [LL _]; lia).
    assert (L23 : Loop2 s2 s3).
    { eapply retarget2 with (a1 := a1) (a2 := a2) (sob := sob); try eassumption.
      - exact (l_inv _ _ L12).
      - exact (l_inv2 _ _ L12).
      - rewrite HL2. exact R1.
      - eapply vrel_mono; [exact (proj1 (l_ext2 _ _ L12)) | exact VR1].
      - apply (proj1 (l_ext2 _ _ L02)). exact Isd.
      - intros a EA. subst a1. apply ITEMS. left. reflexivity. }
    assert (L03 : Loop2 s s3) by (eapply loop2_trans; eassumption).
    destruct (annotations_add s3 dst a2) as [s4| |] eqn:AA; simpl in H; try discriminate.
    assert (L34 : Loop2 s3 s4).
    { eapply annotations_add2 with (src := src) (sob := sob) (kd := kd); try eassumption.
      - exact (l_inv _ _ L23).
      - exact (l_inv2 _ _ L23).
      - lia.
      - eapply kind_ext; [exact (l_ext _ _ L03) | exact K].
      - eapply vok_ext; [exact (l_ext _ _ L23)|]. rewrite HL2. eapply res_ok_vok. exact R1.
      - apply (proj1 (l_ext2 _ _ L03)). exact Isd. }
    assert (L04 : Loop2 s s4) by (eapply loop2_trans; eassumption).
    eapply loop2_trans; [exact L04|].
    eapply IH with (kd := kd) (sob := sob); try eassumption.
    + exact (l_inv _ _ L34).
    + exact (l_inv2 _ _ L34).
    + eapply U_lt_ext; [exact (l_ext _ _ L04) | exact Uf].
    + destruct (l_ext _ _ L04) as [LL _]. lia.
    + eapply kind_ext; [exact (l_ext _ _ L04) | exact K].
    + apply (proj1 (l_ext2 _ _ L04)). exact Isd.
    + intros a Ia. apply ITEMS. right. exact Ia.
Qed.

Lemma dcaf2 : forall rec f s dst src kd sob,
  RecSpecB rec f -> Inv s -> Inv2 s -> (U s < f)%nat -> n0 <= dst < hlen (sh s) ->
  kind_at (sh s) dst = Some kd -> is_annk kd = true -> 0 <= src < n0 ->
  In (src, dst) (sc s) -> hget h0 src = Some sob -> is_annk (okind sob) = true ->
  forall s', deep_copy_annotations_from rec s dst src = Ok s' -> Loop2 s s'.
Proof.
  intros rec f s dst src kd sob RB IV J Uf Hd K AK Hs Isd Gs AKs s' H.
  unfold deep_copy_annotations_from in H.
  rewrite (body_of_old h0 seeds s src IV) in H by lia. rewrite Gs in H.
  destruct (bget (obody sob) NM_ANN) as [[?|sx]|] eqn:BA; try discriminate;
    [|inversion H; subst; apply loop2_refl; assumption].
  assert (Vx : 0 <= sx < n0).
  { destruct (Hclosed _ _ _ _ Gs (bget_In _ _ _ BA)) as [_ X]. exact X. }
  destruct (hget (sh s) dst) as [d|]; [|discriminate].
  destruct (hget (sh s) src) as [o|]; [|discriminate].
  destruct (negb (ocls d =? ocls o)); [discriminate|].
  rewrite (body_of_old h0 seeds s sx IV) in H by lia.
  destruct (hget h0 sx) as [sxo|] eqn:GX; [|discriminate].
  destruct (bget (obody sxo) NM_ILIST) as [[?|lx]|] eqn:BL; try discriminate.
  assert (Vl : 0 <= lx < n0).
  { destruct (Hclosed _ _ _ _ GX (bget_In _ _ _ BL)) as [_ X]. exact X. }
  rewrite (body_of_old h0 seeds s lx IV) in H by lia.
  set (items := values (match hget h0 lx with Some x => obody x | None => [] end)) in *.
  assert (FI : Forall (item_ok h0 seeds src) items /\ Forall vsrc2 items /\
               (forall a, In (R a) items -> In (R a) (ann_items h0 sob))).
  { unfold items. destruct (hget h0 lx) as [l|] eqn:GL; [|repeat split; try constructor; intros a []].
    assert (AI : ann_items h0 sob = values (obody l)).
    { unfold ann_items. rewrite BA, GX, BL, GL. reflexivity. }
    split; [|split].
    - apply Forall_forall. intros a1 IN. split.
      + assert (F := old_values_vsrc h0 Hclosed _ _ GL). rewrite Forall_forall in F. apply F. assumption.
      + intros a EA. subst a1. rewrite <- AI in IN. split.
        * exact (Hitems src sob a Gs IN).
        * intros ao t tob owner name rest G1 G2 G3 G4 G5 G6.
          exact (Hnames src sob a ao t tob owner name rest Gs IN G1 G2 G3 G4 G5 G6).
    - apply Forall_forall. intros a1 IN. apply In_values in IN. destruct IN as [k IN].
      destruct (old_entry_vsrc2 lx l k a1 GL IN) as [_ X]; [|exact X].
      intros [AKl _]. rewrite (H2ilist src sob sx sxo lx l Gs AKs BA GX BL GL) in AKl. discriminate AKl.
    - intros a IN. rewrite AI. exact IN. }
  destruct FI as [FI1 [FI2 FI3]].
  destruct (copy_annotation_items rec s dst src items) as [s1| |] eqn:CI; simpl in H; try discriminate.
  assert (L1 : Loop2 s s1).
  { exact (copy_annotation_items2 items rec f s dst src kd sob RB IV J Uf Hd K AK Hs FI1 FI2 Isd Gs AKs FI3 s1 CI). }
  assert (K1 : kind_at (sh s1) dst = Some kd) by (eapply kind_ext; [exact (l_ext _ _ L1) | exact K]).
  destruct (kind_at_hget _ _ _ K1) as [ob1 [G1 KO1]].
  unfold body_of in H at 1. rewrite G1 in H.
  destruct (bget (obody ob1) NM_ANN) as [[?|sy]|] eqn:B1.
  - simpl in H. inversion H; subst. exact L1.
  - inversion H; subst s'. clear H.
    destruct (i_ann _ _ _ (l_inv _ _ L1) dst ob1 (proj1 Hd) G1) as [A1 _]. rewrite KO1 in A1.
    destruct (A1 AK _ B1 sy eq_refl) as [Fy Ky].
    destruct (kind_at_hget _ _ _ Ky) as [? [Gy _]]. apply hget_Some_range in Gy.
    eapply loop2_trans; [exact L1|].
    apply loop2_step; [| | apply ext_memo_set | apply ext2_memo_set | reflexivity | exact (l_inv2 _ _ L1)].
    + apply inv_memo_set; [exact (l_inv _ _ L1) | lia | left; lia | intro; lia].
    + apply inv2_memo_set; [exact (l_inv2 _ _ L1)|]. intros _. right. exists src, sob. auto.
  - inversion H; subst. exact L1.
Qed.


(* ---- AnnotationSet.__deepcopy__ items (second pass) ---------------------------------------------- *)

Lemma annset_items2 : forall items rec f s o,
  RecSpecB rec f -> Inv s -> Inv2 s -> (U s < f)%nat -> n0 <= o -> kind_at (sh s) o = Some KAnnSet ->
  Forall vsrc2 items -> forall s', annset_items rec s o items = Ok s' -> Loop2 s s'.
Proof.
  induction items as [|a r IH]; intros rec f s o RB IV J Uf Ho K Fx s' H.
  - simpl in H. inversion H; subst. apply loop2_refl; assumption.
  - inversion Fx as [|? ? Va Vr]; subst. simpl in H.
    destruct (rec s a) as [[sa a']| |] eqn:E; simpl in H; try discriminate.
    destruct (loop2_rec rec f s a sa a' RB IV J Va Uf E) as [L1 [R1 VR1]].
    set (s2 := memo_val sa a a') in *.
    assert (L12 : Loop2 sa s2).
    { apply loop2_memo_val; [exact (l_inv _ _ L1) | exact (l_inv2 _ _ L1) | exact (proj1 Va) | exact R1 | exact VR1]. }
    assert (L02 : Loop2 s s2) by (eapply loop2_trans; eassumption).
    destruct (oset_add s2 o a') as [sb| |] eqn:OA; simpl in H; try discriminate.
    assert (L23 : Loop2 s2 sb).
    { eapply oset_add2 with (sy := o) (a := a'); [exact (l_inv _ _ L12) | exact (l_inv2 _ _ L12) | exact Ho | | | exact OA].
      - eapply kind_ext; [exact (l_ext _ _ L02) | exact K].
      - unfold s2. rewrite memo_val_hlen. eapply res_ok_vok. exact R1. }
    assert (L03 : Loop2 s sb) by (eapply loop2_trans; eassumption).
    eapply loop2_trans; [exact L03|].
    eapply IH; try eassumption.
    + exact (l_inv _ _ L23).
    + exact (l_inv2 _ _ L23).
    + eapply U_lt_ext; [exact (l_ext _ _ L03) | exact Uf].
    + eapply kind_ext; [exact (l_ext _ _ L03) | exact K].
Qed.

(* ---- allocation of a copy (second pass) ------------------------------------------------------------ *)

Lemma note_memo_comm : forall s a b, note (memo_set s a b) a b = memo_set (note s a b) a b.
Proof. reflexivity. Qed.

Lemma inv2_new_pair : forall s x ob0, Inv s -> Inv2 s -> 0 <= x < n0 -> hget h0 x = Some ob0 ->
  ocls ob0 = ocls ob0 ->
  forall nb, (forall k v, In (k, v) (obody nb) ->
                exists k0 v0, In (k0, v0) (obody ob0) /\ vrel ((x, hlen (sh s)) :: sc s) k0 k /\ vrel ((x, hlen (sh s)) :: sc s) v0 v) ->
  ocls nb = ocls ob0 -> okind nb = okind ob0 ->
  (is_annk (okind nb) = true -> bget (obody nb) NM_ANN = None) ->
  (okind nb = KAnnSet -> bget (obody nb) NM_ILIST = None /\ bget (obody nb) NM_ISET = None) ->
  Inv (fst (alloc s nb)) ->
  Inv2 (note (memo_set (fst (alloc s nb)) x (hlen (sh s))) x (hlen (sh s))).
Proof.
  intros s x ob0 IV J Hx G _ nb HB CL KD NA NS Ia. rewrite note_memo_comm.
  set (sa := fst (alloc s nb)). set (y := hlen (sh s)).
  assert (N := i_len _ _ _ IV).
  assert (Ja : Inv2 sa).
  { apply inv2_alloc; [exact IV | exact J | |].
    - intros AK sy B. rewrite (NA AK) in B. discriminate.
    - intros KS k l [E|E] B; subst k; destruct (NS KS) as [N1 N2]; congruence. }
  assert (La : hlen (sh sa) = hlen (sh s) + 1) by (unfold sa; simpl; apply hlen_app1).
  assert (Gy : hget (sh sa) y = Some nb) by (unfold sa, y; simpl; apply hget_app_new).
  apply inv2_memo_set; [|intros _; left; left; reflexivity].
  apply inv2_note; [exact Ia | exact Ja | exact Hx | unfold y; lia | | |].
  - apply (not_in_range_new s y J). unfold y. lia.
  - exists ob0, nb. split; [exact G|]. split; [exact Gy|]. split; [symmetry; exact CL|]. split; [symmetry; exact KD|].
    intros k' v' IN. right. destruct (HB k' v' IN) as [k0 [v0 [I0 [V1 V2]]]]. exists k0, v0. auto.
  - intros o ob Ho Go.
    assert (NE : forall k, bget (obody ob) k <> Some (R y) \/ o = y).
    { intros k. destruct (Z.eq_dec o y) as [E|E]; [right; exact E|]. left. intros B.
      assert (R0 := hget_Some_range _ _ _ Go). rewrite La in R0.
      assert (G0 : hget (sh s) o = Some ob).
      { unfold sa in Go. simpl in Go. rewrite hget_app_old in Go by (unfold y in E; lia). exact Go. }
      assert (X := fresh_refs_lt s o ob k (R y) y IV Ho G0 (bget_In _ _ _ B) (or_intror eq_refl)).
      unfold y in X. lia. }
    split.
    + intros AK B. destruct (NE NM_ANN) as [X|X]; [contradiction|]. subst o. rewrite Gy in Go.
      inversion Go; subst ob. rewrite (NA AK) in B. discriminate.
    + intros KS. split; intros B.
      * destruct (NE NM_ILIST) as [X|X]; [contradiction|]. subst o. rewrite Gy in Go. inversion Go; subst ob.
        destruct (NS KS) as [N1 _]. congruence.
      * destruct (NE NM_ISET) as [X|X]; [contradiction|]. subst o. rewrite Gy in Go. inversion Go; subst ob.
        destruct (NS KS) as [_ N2]. congruence.
Qed.

Lemma ext2_new_pair : forall s nb x, Ext2 s (note (memo_set (fst (alloc s nb)) x (hlen (sh s))) x (hlen (sh s))).
Proof.
  intros s nb x. split; [|split]; simpl.
  - intros p I. right. assumption.
  - intros a b [E|I]; [inversion E; subst; right; lia | left; assumption].
  - intros o ob k v G I. exists ob, v. split; [|assumption]. rewrite hget_app_old; [assumption|].
    apply hget_Some_range in G. lia.
Qed.

Lemma new_copy2 : forall s x ob, Inv s -> Inv2 s -> 0 <= x < n0 -> hget h0 x = Some ob -> alookup x (sm s) = None ->
  Inv2 (fst (new_copy s x ob)) /\ Ext2 s (fst (new_copy s x ob)) /\ In (x, hlen (sh s)) (sc (fst (new_copy s x ob))).
Proof.
  intros s x ob IV J Hx G ML. rewrite new_copy_eq. cbn [fst]. split; [|split].
  - apply (inv2_new_pair s x ob IV J Hx G eq_refl (mkObj (ocls ob) (okind ob) [])); simpl; auto.
    + intros k v [].
    + apply inv_alloc_empty. exact IV.
  - apply ext2_new_pair.
  - left. reflexivity.
Qed.

Lemma present_from_keys : forall s x y ob, hget h0 x = Some ob ->
  (forall k v, In (k, v) (obody ob) ->
     not_carried (okind ob) k \/ exists k' v', In (k', v') (body_of s y) /\ vrel (sc s) k k') ->
  Present (sc s) (sh s) x y.
Proof.
  intros s x y ob G H oa oy Ga Gy k v I. rewrite G in Ga. inversion Ga; subst oa.
  unfold body_of in H. rewrite Gy in H. apply (H k v I).
Qed.

(* the pairs recorded since state s: the frame's own pairs (second component below hlen of sa) + the rest *)
Lemma newpresent_frame : forall s sa s2, Ext2 s sa -> hlen (sh s) <= hlen (sh sa) -> NewPresent sa s2 ->
  (forall a b, In (a, b) (sc s2) -> hlen (sh s) <= b < hlen (sh sa) -> Present (sc s2) (sh s2) a b) ->
  NewPresent s s2.
Proof.
  intros s sa s2 E L N P a b I Hb. destruct (Z_lt_dec b (hlen (sh sa))) as [Lt|Ge].
  - apply P; [assumption | lia].
  - apply N; [assumption | lia].
Qed.


(* ---- one level of copy.deepcopy (second pass) -------------------------------------------------- *)

Lemma ext2_trans' : forall a b c, hlen (sh a) <= hlen (sh b) -> Ext2 a b -> Ext2 b c -> Ext2 a c.
Proof.
  intros a b c L [A1 [A2 A3]] [B1 [B2 B3]]. split; [|split].
  - auto.
  - intros x y I. destruct (B2 x y I) as [J|J]; [apply A2; assumption | right; lia].
  - intros o ob k v G I. destruct (A3 o ob k v G I) as [ob1 [v1 [G1 I1]]]. eapply B3; eassumption.
Qed.

Definition KeysOK (s : st) (ob : obj) (y : Z) : Prop :=
  forall k v, In (k, v) (obody ob) ->
    not_carried (okind ob) k \/ exists k' v', In (k', v') (body_of s y) /\ vrel (sc s) k k'.

Lemma keysok_ext : forall s s' ob y, Ext2 s s' -> KeysOK s ob y -> KeysOK s' ob y.
Proof.
  intros s s' ob y E K k v I. destruct (K k v I) as [N|[k' [v' [I' V']]]]; [left; exact N|]. right.
  destruct (key_persists s s' y k' v' E I') as [v1 I1]. exists k', v1. split; [exact I1|].
  eapply vrel_mono; [exact (proj1 E) | exact V'].
Qed.

Lemma frame_finish : forall s s1 s2 x ob, Inv2 s -> Ext2 s s1 -> hlen (sh s1) = hlen (sh s) + 1 -> Loop2 s1 s2 ->
  In (x, hlen (sh s)) (sc s1) -> hget h0 x = Some ob -> 0 <= x < n0 -> KeysOK s2 ob (hlen (sh s)) ->
  Inv2 s2 /\ Ext2 s s2 /\ vrel (sc s2) (R x) (R (hlen (sh s))) /\ NewPresent s s2.
Proof.
  intros s s1 s2 x ob J F1 L1 L2 IN G Hx KO.
  assert (IN2 : In (x, hlen (sh s)) (sc s2)) by (apply (proj1 (l_ext2 _ _ L2)); exact IN).
  split; [exact (l_inv2 _ _ L2)|]. split; [|split].
  - eapply ext2_trans'; [|exact F1 | exact (l_ext2 _ _ L2)]. lia.
  - left. exact IN2.
  - eapply newpresent_frame with (sa := s1); [exact F1 | lia | exact (l_new _ _ L2) |].
    intros a b I Hb. assert (b = hlen (sh s)) by lia. subst b.
    assert (a = x) by (eapply (j_uniq _ (l_inv2 _ _ L2)); eassumption). subst a.
    eapply present_from_keys; eassumption.
Qed.

Lemma In_nth_error_values : forall (b : list (val * val)) n v, nth_error (values b) n = Some v ->
  exists k, nth_error b n = Some (k, v).
Proof.
  induction b as [|[k0 v0] r IH]; intros [|n] v H; simpl in *; try discriminate.
  - inversion H; subst. eauto.
  - apply IH. exact H.
Qed.

Lemma list_source_entries : forall o ob, hget h0 o = Some ob -> (okind ob = KList \/ okind ob = KTuple) ->
  forall j a, nth_error (values (obody ob)) j = Some a -> In (pidx (0 + Z.of_nat j), a) (obody ob).
Proof.
  intros o ob G K j a N. destruct (In_nth_error_values _ _ _ N) as [k N'].
  assert (E := H2listkeys o ob j (k, a) G K N'). simpl in E. subst k. simpl.
  eapply nth_error_In. exact N'.
Qed.

Lemma list_keysok : forall s o ob y, hget h0 o = Some ob -> (okind ob = KList \/ okind ob = KTuple) ->
  (forall j a, nth_error (values (obody ob)) j = Some a -> exists v', In (pidx (0 + Z.of_nat j), v') (body_of s y)) ->
  KeysOK s ob y.
Proof.
  intros s o ob y G K H k v I. right. destruct (In_nth_error _ _ I) as [n N].
  assert (E := H2listkeys o ob n (k, v) G K N). simpl in E. subst k.
  assert (NV : nth_error (values (obody ob)) n = Some v).
  { unfold values. rewrite nth_error_map. rewrite N. reflexivity. }
  destruct (H n v NV) as [v' I']. exists (pidx (Z.of_nat n)), v'. split; [exact I' | reflexivity].
Qed.

Lemma old_values_vsrc2 : forall o ob, hget h0 o = Some ob -> is_annk (okind ob) = false ->
  Forall vsrc2 (values (obody ob)).
Proof.
  intros o ob G K. apply Forall_forall. intros v I. apply In_values in I. destruct I as [k I].
  destruct (old_entry_vsrc2 o ob k v G I) as [_ X]; [|exact X]. intros [A _]. congruence.
Qed.

Lemma old_entries_vsrc2 : forall o ob, hget h0 o = Some ob -> is_annk (okind ob) = false ->
  Forall (fun e => vsrc2 (fst e) /\ vsrc2 (snd e)) (obody ob).
Proof.
  intros o ob G K. apply Forall_forall. intros [k v] I. simpl.
  apply (old_entry_vsrc2 o ob k v G I). intros [A _]. congruence.
Qed.


Lemma new_annset_shape : forall s cls tg,
  let sa := fst (new_annset s cls tg) in let y := hlen (sh s) in
  hget (sh sa) y = Some (mkObj cls KAnnSet [(NM_ILIST, R (y + 1)); (NM_ISET, R (y + 2)); (NM_TARGET, tg)])
  /\ hget (sh sa) (y + 1) = Some (mkObj CLS_LIST KList [])
  /\ hget (sh sa) (y + 2) = Some (mkObj CLS_SET KSet [])
  /\ hlen (sh sa) = y + 3
  /\ (forall o, o < y -> hget (sh sa) o = hget (sh s) o).
Proof.
  intros s cls tg. cbv zeta. rewrite new_annset_eq. cbn [fst].
  set (s1 := fst (alloc s (mkObj cls KAnnSet []))).
  set (s2 := fst (alloc s1 (mkObj CLS_LIST KList []))).
  set (s3 := fst (alloc s2 (mkObj CLS_SET KSet []))).
  assert (P0 := hlen_nonneg (sh s)).
  assert (L1 : hlen (sh s1) = hlen (sh s) + 1) by (unfold s1; simpl; apply hlen_app1).
  assert (L2 : hlen (sh s2) = hlen (sh s) + 2) by (unfold s2, s1; simpl; rewrite !hlen_app1; lia).
  assert (L3 : hlen (sh s3) = hlen (sh s) + 3) by (unfold s3, s2, s1; simpl; rewrite !hlen_app1; lia).
  assert (G1 : hget (sh s1) (hlen (sh s)) = Some (mkObj cls KAnnSet [])) by (unfold s1; simpl; apply hget_app_new).
  assert (G2 : hget (sh s2) (hlen (sh s1)) = Some (mkObj CLS_LIST KList [])) by (unfold s2; simpl; apply hget_app_new).
  assert (G3 : hget (sh s3) (hlen (sh s2)) = Some (mkObj CLS_SET KSet [])) by (unfold s3; simpl; apply hget_app_new).
  assert (Q1 : sh s1 = sh s ++ [mkObj cls KAnnSet []]) by reflexivity.
  assert (Q2 : sh s2 = sh s1 ++ [mkObj CLS_LIST KList []]) by reflexivity.
  assert (Q3 : sh s3 = sh s2 ++ [mkObj CLS_SET KSet []]) by reflexivity.
  assert (G13 : hget (sh s3) (hlen (sh s)) = Some (mkObj cls KAnnSet [])).
  { rewrite Q3. rewrite hget_app_old by lia. rewrite Q2. rewrite hget_app_old by lia. exact G1. }
  assert (G23 : hget (sh s3) (hlen (sh s1)) = Some (mkObj CLS_LIST KList [])).
  { rewrite Q3. rewrite hget_app_old by lia. exact G2. }
  rewrite L1, L2 in *.
  split; [|split; [|split; [|split]]].
  - erewrite put_get_same; [|erewrite put_get_same; [|erewrite put_get_same; [|exact G13]]; reflexivity]; reflexivity.
  - rewrite !put_get_other by lia. exact G23.
  - rewrite !put_get_other by lia. exact G3.
  - rewrite !put_hlen. exact L3.
  - intros o Lt. rewrite !put_get_other by lia. rewrite Q3. rewrite hget_app_old by lia.
    rewrite Q2. rewrite hget_app_old by lia. rewrite Q1. apply hget_app_old. lia.
Qed.

Lemma put_note_memo_comm : forall s y k v a b,
  note (memo_set (put s y k v) a b) a b = put (memo_set (note s a b) a b) y k v.
Proof. intros. unfold put, note, memo_set. simpl. destruct (hget (sh s) y); reflexivity. Qed.

Lemma keysok_list_ext : forall s s' (ob : obj) y, Ext2 s s' ->
  (forall j a, nth_error (values (obody ob)) j = Some a -> exists v', In (pidx (0 + Z.of_nat j), v') (body_of s y)) ->
  (forall j a, nth_error (values (obody ob)) j = Some a -> exists v', In (pidx (0 + Z.of_nat j), v') (body_of s' y)).
Proof.
  intros s s' ob y E H j a N. destruct (H j a N) as [v' I']. eapply key_persists; eassumption.
Qed.

Lemma dc_step2 : forall rec f, RecSpecB rec f -> RecSpecB (dc_step rec) (S f).
Proof.
  intros rec f RB. split; [apply (dc_step_spec h0 seeds Hclosed Hitems Hnames Hkeys); exact (proj1 RB)|].
  intros s v IV J [Vs NO] Uf s' v' H. unfold dc_step in H. destruct v as [p|x].
  { inversion H; subst. split; [exact J|]. split; [apply ext2_refl|]. split; [reflexivity|].
    apply newpresent_none; [exact J | lia]. }
  simpl in Vs. simpl in NO. destruct (alookup x (sm s)) as [y|] eqn:ML.
  { inversion H; subst. split; [exact J|]. split; [apply ext2_refl|]. split; [|apply newpresent_none; [exact J | lia]].
    destruct (i_memo _ _ _ IV x y ML) as [_ [V EQ]]. simpl.
    destruct (Z_lt_dec y n0) as [Lt|Ge].
    - right. rewrite (EQ Lt). split; [reflexivity | exact Vs].
    - destruct (j_msc _ J x y ML ltac:(lia)) as [I|O]; [left; exact I | contradiction]. }
  rewrite (i_old _ _ _ IV x) in H by lia. destruct (hget_in_range h0 x Vs) as [ob G]. rewrite G in H.
  destruct (new_copy_spec h0 seeds s x ob IV Vs ML) as [I1 [E1 [Y1 [K1 [U1 L1]]]]].
  destruct (new_copy2 s x ob IV J Vs G ML) as [J1 [F1 IN1]].
  assert (N := i_len _ _ _ IV).
  assert (Uf1 : (U (fst (new_copy s x ob)) < f)%nat) by lia.
  destruct (okind ob) eqn:KO.
  - (* KAtomic *)
    inversion H; subst. split; [exact J|]. split; [apply ext2_refl|]. split; [|apply newpresent_none; [exact J | lia]].
    right. split; [reflexivity | exact Vs].
  - (* KList *)
    destruct (new_copy s x ob) as [s1 y] eqn:NC. cbn [fst snd] in *. subst y.
    destruct (copy_append rec s1 (hlen (sh s)) 0 (values (obody ob))) as [s2| |] eqn:LP; simpl in H; try discriminate.
    inversion H; subst s' v'. clear H.
    destruct (copy_append2 (values (obody ob)) rec f s1 (hlen (sh s)) 0 KList x ob RB I1 J1 Uf1) with (s' := s2) as [L2 KP]; auto.
    + split; [reflexivity | discriminate].
    + apply (old_values_vsrc2 x ob G). rewrite KO. reflexivity.
    + apply (list_source_entries x ob G). left. exact KO.
    + eapply frame_finish; try eassumption. eapply list_keysok; [exact G | left; exact KO | exact KP].
  - (* KDict *)
    destruct (new_copy s x ob) as [s1 y] eqn:NC. cbn [fst snd] in *. subst y.
    destruct (copy_entries rec true s1 (hlen (sh s)) (obody ob)) as [s2| |] eqn:LP; simpl in H; try discriminate.
    inversion H; subst s' v'. clear H.
    destruct (copy_entries2 (obody ob) rec f true s1 (hlen (sh s)) KDict x ob RB I1 J1 Uf1) with (s' := s2) as [L2 KP]; auto.
    + split; [reflexivity | discriminate].
    + apply (old_entries_vsrc2 x ob G). rewrite KO. reflexivity.
    + eapply frame_finish; try eassumption. intros k v I. right. apply (KP k v I).
  - (* KSet *)
    destruct (forallb (fun e => is_prim (fst e) && is_prim (snd e)) (obody ob)) eqn:FA; [|discriminate].
    cbn [alloc] in H. inversion H; subst s' v'. clear H.
    assert (PR : forall k v, In (k, v) (obody ob) -> (exists p, k = P p) /\ (exists q, v = P q)).
    { intros k v IN. rewrite forallb_forall in FA. apply FA in IN. simpl in IN.
      apply andb_true_iff in IN. destruct IN as [A B]. destruct k; [|discriminate]. destruct v; [|discriminate]. eauto. }
    assert (Ia : Inv (fst (alloc s ob))).
    { apply inv_alloc; [exact IV| | |].
      - intros k v IN. destruct (PR k v IN) as [[p Ep] [q Eq]]. subst. split; exact Logic.I.
      - rewrite KO. intros C. discriminate C.
      - rewrite KO. intros C. discriminate C. }
    assert (J' : Inv2 (note (memo_set (fst (alloc s ob)) x (hlen (sh s))) x (hlen (sh s)))).
    { apply (inv2_new_pair s x ob IV J Vs G eq_refl ob); auto.
      - intros k v IN. exists k, v. destruct (PR k v IN) as [[p Ep] [q Eq]]. subst. repeat split; auto.
      - rewrite KO. intros C. discriminate C.
      - rewrite KO. intros C. discriminate C. }
    split; [exact J'|]. split; [apply ext2_new_pair|]. split; [left; left; reflexivity|].
    intros a b IN Hb. simpl in IN. destruct IN as [IN|IN]; [|destruct (j_scr _ J a b IN); lia].
    inversion IN; subst a b. intros oa oy Ga Gy k v Ik. right.
    rewrite G in Ga. inversion Ga; subst oa. simpl in Gy. rewrite hget_app_new in Gy. inversion Gy; subst oy.
    exists k, v. split; [exact Ik|]. destruct (PR k v Ik) as [[p Ep] _]. subst. reflexivity.
  - (* KTuple *)
    destruct (new_copy s x ob) as [s1 y] eqn:NC. cbn [fst snd] in *. subst y.
    destruct (copy_append rec s1 (hlen (sh s)) 0 (values (obody ob))) as [s2| |] eqn:LP; simpl in H; try discriminate.
    inversion H; subst s' v'. clear H.
    destruct (copy_append2 (values (obody ob)) rec f s1 (hlen (sh s)) 0 KTuple x ob RB I1 J1 Uf1) with (s' := s2) as [L2 KP]; auto.
    + split; [reflexivity | discriminate].
    + apply (old_values_vsrc2 x ob G). rewrite KO. reflexivity.
    + apply (list_source_entries x ob G). right. exact KO.
    + eapply frame_finish; try eassumption. eapply list_keysok; [exact G | right; exact KO | exact KP].
  - (* KPlain *)
    destruct (new_copy s x ob) as [s1 y] eqn:NC. cbn [fst snd] in *. subst y.
    destruct (plain_fields rec [] s1 (hlen (sh s)) (obody ob)) as [s2| |] eqn:LP; simpl in H; try discriminate.
    inversion H; subst s' v'. clear H.
    destruct (plain_fields2 (obody ob) rec f [] s1 (hlen (sh s)) KPlain x ob RB I1 J1 Uf1) with (s' := s2) as [L2 KP]; auto.
    + discriminate.
    + intros C. discriminate C.
    + eapply old_fields; [exact Hclosed | exact Hkeys | exact G | tauto].
    + intros k v IN _. destruct (old_entry_vsrc2 x ob k v G IN) as [_ X]; [|exact X]. rewrite KO. intros [C _]. discriminate C.
    + eapply frame_finish; try eassumption. intros k v I. right.
      destruct (KP k v I eq_refl) as [v' I']. exists k, v'. split; [exact I'|].
      destruct (Hkeys x ob k v G ltac:(tauto) I) as [p Ep]. subst. reflexivity.
  - (* KAnnotable *)
    destruct (new_copy s x ob) as [s1 y] eqn:NC. cbn [fst snd] in *. subst y.
    destruct (annotable_fields rec s1 (hlen (sh s)) (obody ob)) as [s2| |] eqn:LP; simpl in H; try discriminate.
    destruct (deep_copy_annotations_from rec s2 (hlen (sh s)) x) as [s3| |] eqn:DC; simpl in H; try discriminate.
    inversion H; subst s' v'. clear H.
    destruct (annotable_fields2 (obody ob) rec f s1 (hlen (sh s)) KAnnotable x ob RB I1 J1 Uf1) with (s' := s2) as [L2 KP]; auto.
    + discriminate.
    + eapply old_fields; [exact Hclosed | exact Hkeys | exact G | tauto].
    + intros k v IN NE. destruct (old_entry_vsrc2 x ob k v G IN) as [_ X]; [|exact X]. intros [_ C]. contradiction.
    + assert (L23 : Loop2 s2 s3).
      { eapply dcaf2 with (kd := KAnnotable) (sob := ob); try eassumption.
        - exact (l_inv _ _ L2).
        - exact (l_inv2 _ _ L2).
        - eapply U_lt_ext; [exact (l_ext _ _ L2) | exact Uf1].
        - destruct (l_ext _ _ L2) as [LL _]. lia.
        - eapply kind_ext; [exact (l_ext _ _ L2) | exact K1].
        - reflexivity.
        - apply (proj1 (l_ext2 _ _ L2)). exact IN1.
        - rewrite KO. reflexivity. }
      eapply frame_finish with (s1 := s1); try eassumption; [eapply loop2_trans; eassumption|].
      apply keysok_ext with (s := s2); [exact (l_ext2 _ _ L23)|].
      intros k v I. destruct (val_eqb k NM_ANN) eqn:EA.
      * left. left. rewrite KO. split; [reflexivity | apply val_eqb_eq; exact EA].
      * right. apply val_eqb_neq in EA. destruct (KP k v I EA) as [v' I']. exists k, v'. split; [exact I'|].
        destruct (Hkeys x ob k v G ltac:(tauto) I) as [p Ep]. subst. reflexivity.
  - (* KAnnSet *)
    destruct (bget (obody ob) NM_TARGET) as [tg|] eqn:BT; [|discriminate].
    assert (TGS : ~ (is_annk (okind ob) = true /\ NM_TARGET = NM_ANN)) by (intros [_ C]; discriminate C).
    destruct (old_entry_vsrc2 x ob NM_TARGET tg G (bget_In _ _ _ BT) TGS) as [_ [Vtg NOtg]].
    destruct (match tg with
              | R t => match alookup t (sm s) with Some t' => Ok (R t') | None => Err KeyErr end
              | P 0 => if snone s then Ok PNone else Err KeyErr
              | P _ => Err KeyErr end) as [tg'| |] eqn:ET; cbn [bind] in H; try discriminate.
    assert (TG : vok h0 seeds (hlen (sh s)) tg' /\ vrel (sc s) tg tg').
    { destruct tg as [q|t].
      - destruct q; try discriminate. destruct (snone s); [|discriminate]. inversion ET. split; [exact Logic.I | reflexivity].
      - destruct (alookup t (sm s)) as [t'|] eqn:MT; [|discriminate]. inversion ET; subst.
        destruct (i_memo _ _ _ IV t t' MT) as [_ [V EQ]]. split; [exact V|]. simpl. simpl in Vtg, NOtg.
        destruct (Z_lt_dec t' n0) as [Lt|Ge].
        + right. rewrite (EQ Lt). split; [reflexivity | exact Vtg].
        + destruct (j_msc _ J t t' MT ltac:(lia)) as [I|O]; [left; exact I | contradiction]. }
    destruct TG as [Vt VRt].
    destruct (new_annset_spec h0 seeds s (ocls ob) tg' IV Vt) as [Ia [Ea [Ya Ka]]].
    destruct (new_annset2 s (ocls ob) tg' IV J Vt) as [La SCa].
    destruct (new_annset_shape s (ocls ob) tg') as [SH0 [SH1 [SH2 [SHL SHO]]]].
    destruct (new_annset s (ocls ob) tg') as [sa o] eqn:NA. cbn [fst snd] in *. subst o.
    set (y := hlen (sh s)) in *.
    set (s2 := note (memo_set sa x y) x y) in *.
    assert (I2 : Inv s2).
    { apply inv_note. apply inv_memo_set; [exact Ia | exact Vs | left; unfold y; lia | intro; unfold y in *; lia]. }
    assert (J2 : Inv2 s2).
    { unfold s2. rewrite note_memo_comm. apply inv2_memo_set; [|intros _; left; left; reflexivity].
      apply inv2_note; [exact Ia | exact (l_inv2 _ _ La) | exact Vs | unfold y; lia | | |].
      - rewrite SCa. apply not_in_range_new; [exact J | unfold y; lia].
      - exists ob. eexists. split; [exact G|]. split; [exact SH0|]. split; [reflexivity|].
        split; [rewrite KO; reflexivity|]. intros k0 v0 IN. simpl in IN.
        destruct IN as [IN|[IN|[IN|[]]]]; inversion IN; subst k0 v0.
        + left. right. rewrite KO. split; [reflexivity | left; reflexivity].
        + left. right. rewrite KO. split; [reflexivity | right; reflexivity].
        + right. exists NM_TARGET, tg. split; [apply bget_In; exact BT|]. split; [reflexivity|].
          eapply vrel_mono; [|exact VRt]. intros p Ip. right. rewrite SCa. exact Ip.
      - intros o ob' Ho Go.
        assert (NE : forall k, bget (obody ob') k <> Some (R y)).
        { intros k B. destruct (Z_lt_dec o y) as [Lt|Ge].
          - rewrite (SHO o Lt) in Go.
            assert (X := fresh_refs_lt s o ob' k (R y) y IV Ho Go (bget_In _ _ _ B) (or_intror eq_refl)).
            unfold y in X. lia.
          - assert (R0 := hget_Some_range _ _ _ Go). rewrite SHL in R0.
            assert (CASES : o = y \/ o = y + 1 \/ o = y + 2) by lia.
            destruct CASES as [E|[E|E]]; subst o.
            + rewrite SH0 in Go. inversion Go; subst ob'. apply bget_In in B. simpl in B.
              destruct B as [B|[B|[B|[]]]]; inversion B; try lia.
              subst tg'. simpl in Vt. destruct Vt as [Vt|[[_ Vt] _]]; unfold y in *; lia.
            + rewrite SH1 in Go. inversion Go; subst ob'. discriminate B.
            + rewrite SH2 in Go. inversion Go; subst ob'. discriminate B. }
        split; [intros _; apply NE|]. intros _. split; apply NE. }
    assert (Ea2 : Ext sa s2) by (eapply ext_trans; [apply ext_memo_set | apply ext_note]).
    assert (F2 : Ext2 s s2).
    { destruct (l_ext2 _ _ La) as [A1 [A2 A3]]. split; [|split].
      - intros p Ip. right. simpl. rewrite SCa. exact Ip.
      - intros a b [E|I]; [inversion E; subst; right; unfold y; lia|]. simpl in I. rewrite SCa in I. left. exact I.
      - intros o0 ob0 k v G0 I0. exact (A3 o0 ob0 k v G0 I0). }
    destruct (bget (obody ob) NM_ILIST) as [[?|lx]|] eqn:BL; try discriminate.
    assert (Vl : 0 <= lx < n0).
    { destruct (Hclosed _ _ _ _ G (bget_In _ _ _ BL)) as [_ X]. exact X. }
    destruct (annset_items rec s2 y (values (body_of s2 lx))) as [s5| |] eqn:AI; simpl in H; try discriminate.
    inversion H; subst s' v'. clear H.
    assert (U2 : (U s2 < f)%nat).
    { assert (X : (U s2 < U s)%nat); [|lia].
      eapply (U_after_memo h0); [eapply ext_trans; [exact Ea | exact Ea2] | exact Vs | exact ML |].
      simpl. rewrite Z.eqb_refl. reflexivity. }
    assert (L25 : Loop2 s2 s5).
    { eapply annset_items2 with (o := y); [exact RB | exact I2 | exact J2 | exact U2 | unfold y; lia | | | exact AI].
      - eapply kind_ext; [exact Ea2 | exact Ka].
      - rewrite (body_of_old h0 seeds s2 lx I2) by lia. destruct (hget h0 lx) as [l|] eqn:GL; [|constructor].
        apply Forall_forall. intros v0 I0. apply In_values in I0. destruct I0 as [k0 I0].
        destruct (old_entry_vsrc2 lx l k0 v0 GL I0) as [_ X]; [|exact X].
        intros [AKl C]. rewrite (H2ilist2 x ob lx l G KO BL GL) in AKl. discriminate AKl. }
    split; [exact (l_inv2 _ _ L25)|]. split; [|split].
    + eapply ext2_trans'; [|exact F2 | exact (l_ext2 _ _ L25)].
      destruct (l_ext _ _ La). destruct Ea2. lia.
    + left. apply (proj1 (l_ext2 _ _ L25)). left. reflexivity.
    + eapply newpresent_frame with (sa := s2); [exact F2 | destruct (l_ext _ _ La); destruct Ea2; lia | exact (l_new _ _ L25) |].
      intros a b I Hb.
      assert (HL2 : hlen (sh s2) = y + 3) by exact SHL.
      assert (Ix5 : In (x, y) (sc s5)) by (apply (proj1 (l_ext2 _ _ L25)); left; reflexivity).
      destruct (Z.eq_dec b y) as [E|E].
      * subst b. assert (a = x) by (eapply (j_uniq _ (l_inv2 _ _ L25)); eassumption). subst a.
        eapply present_from_keys; [exact G|]. intros k v Ik.
        destruct (val_eqb k NM_TARGET) eqn:ET2.
        -- right. apply val_eqb_eq in ET2. subst k.
           assert (I0 : In (NM_TARGET, tg') (body_of s2 y)).
           { unfold body_of. change (sh s2) with (sh sa). rewrite SH0. simpl. right. right. left. reflexivity. }
           destruct (key_persists s2 s5 y NM_TARGET tg' (l_ext2 _ _ L25) I0) as [v1 IK1].
           exists NM_TARGET, v1. split; [exact IK1 | reflexivity].
        -- left. right. rewrite KO. split; [reflexivity | apply val_eqb_neq; exact ET2].
      * (* the two containers are not recorded *)
        exfalso. destruct ((proj1 (proj2 (l_ext2 _ _ L25))) a b I) as [I2'|Hge]; [|lia].
        simpl in I2'. destruct I2' as [E2|I2']; [inversion E2; subst; contradiction|].
        rewrite SCa in I2'. destruct (j_scr _ J a b I2'). unfold y in *. lia.
  - (* KTaxon *)
    destruct (new_copy s x ob) as [s1 y] eqn:NC. cbn [fst snd] in *. subst y.
    destruct (plain_fields rec [NM_ANN] s1 (hlen (sh s)) (obody ob)) as [s2| |] eqn:LP; simpl in H; try discriminate.
    destruct (deep_copy_annotations_from rec s2 (hlen (sh s)) x) as [s3| |] eqn:DC; simpl in H; try discriminate.
    inversion H; subst s' v'. clear H.
    destruct (plain_fields2 (obody ob) rec f [NM_ANN] s1 (hlen (sh s)) KTaxon x ob RB I1 J1 Uf1) with (s' := s2) as [L2 KP]; auto.
    + discriminate.
    + intros _. left. reflexivity.
    + eapply old_fields; [exact Hclosed | exact Hkeys | exact G | tauto].
    + intros k v IN NS. destruct (old_entry_vsrc2 x ob k v G IN) as [_ X]; [|exact X].
      intros [_ C]. subst k. simpl in NS. discriminate NS.
    + assert (L23 : Loop2 s2 s3).
      { eapply dcaf2 with (kd := KTaxon) (sob := ob); try eassumption.
        - exact (l_inv _ _ L2).
        - exact (l_inv2 _ _ L2).
        - eapply U_lt_ext; [exact (l_ext _ _ L2) | exact Uf1].
        - destruct (l_ext _ _ L2) as [LL _]. lia.
        - eapply kind_ext; [exact (l_ext _ _ L2) | exact K1].
        - reflexivity.
        - apply (proj1 (l_ext2 _ _ L2)). exact IN1.
        - rewrite KO. reflexivity. }
      eapply frame_finish with (s1 := s1); try eassumption; [eapply loop2_trans; eassumption|].
      apply keysok_ext with (s := s2); [exact (l_ext2 _ _ L23)|].
      intros k v I. destruct (val_eqb k NM_ANN) eqn:EA.
      * left. left. rewrite KO. split; [reflexivity | apply val_eqb_eq; exact EA].
      * right. destruct (KP k v I) as [v1 IK1]; [simpl; rewrite EA; reflexivity|]. exists k, v1. split; [exact IK1|].
        destruct (Hkeys x ob k v G ltac:(tauto) I) as [p Ep]. subst. reflexivity.
  - (* KNamespace *)
    destruct (new_copy s x ob) as [s1 y] eqn:NC. cbn [fst snd] in *. subst y.
    destruct (bget (obody ob) NM_TAXA) as [[?|lt]|] eqn:BT; try discriminate.
    assert (Vl : 0 <= lt < n0).
    { destruct (Hclosed _ _ _ _ G (bget_In _ _ _ BT)) as [_ X]. exact X. }
    destruct (H2taxa x ob lt G KO BT) as [lo [GL [KL CL]]].
    cbn [alloc] in H.
    set (y := hlen (sh s)) in *.
    set (s2 := fst (alloc s1 (mkObj CLS_LIST KList []))) in *.
    change (mkSt (sh s1 ++ [mkObj CLS_LIST KList []]) (sm s1) (snone s1) (sc s1)) with s2 in H.
    set (l := hlen (sh s1)) in *.
    rewrite put_note_memo_comm in H.
    set (sn := memo_set (note s2 lt l) lt l) in *.
    set (s3 := put sn y NM_TAXA (R l)) in *.
    assert (I2 : Inv s2) by (apply inv_alloc_empty; exact I1).
    assert (J2 : Inv2 s2) by (apply inv2_alloc; auto; simpl; intros; discriminate).
    assert (L2 : hlen (sh s2) = hlen (sh s1) + 1) by (unfold s2; simpl; apply hlen_app1).
    assert (K2 : kind_at (sh s2) l = Some KList) by apply (kind_alloc_new s1).
    assert (Gl : hget (sh s2) l = Some (mkObj CLS_LIST KList [])) by (unfold s2, l; simpl; apply hget_app_new).
    assert (Ky2 : kind_at (sh s2) y = Some KNamespace) by (eapply kind_ext; [apply ext_alloc | exact K1]).
    assert (In' : Inv sn).
    { apply inv_memo_set; [apply inv_note; exact I2 | exact Vl | left; change (n0 <= l < hlen (sh s2)); unfold l; lia
                          | unfold l; intro; lia]. }
    assert (Jn : Inv2 sn).
    { apply inv2_memo_set; [|intros _; left; left; reflexivity].
      apply inv2_note; [exact I2 | exact J2 | exact Vl | unfold l; lia | | |].
      - apply (not_in_range_new s1 l J1). unfold l. lia.
      - exists lo. eexists. split; [exact GL|]. split; [exact Gl|]. split; [rewrite CL; reflexivity|].
        split; [rewrite KL; reflexivity|]. intros k0 v0 [].
      - intros o ob' Ho Go.
        assert (NE : forall k, bget (obody ob') k <> Some (R l)).
        { intros k B. destruct (Z.eq_dec o l) as [E|E].
          - subst o. rewrite Gl in Go. inversion Go; subst ob'. discriminate B.
          - assert (R0 := hget_Some_range _ _ _ Go). rewrite L2 in R0.
            assert (G0 : hget (sh s1) o = Some ob').
            { unfold s2 in Go. simpl in Go. rewrite hget_app_old in Go by (unfold l in E; lia). exact Go. }
            assert (X := fresh_refs_lt s1 o ob' k (R l) l I1 Ho G0 (bget_In _ _ _ B) (or_intror eq_refl)).
            unfold l in X. lia. }
        split; [intros _; apply NE|]. intros _. split; apply NE. }
    assert (Kyn : kind_at (sh sn) y = Some KNamespace) by exact Ky2.
    assert (Ixn : In (x, y) (sc sn)) by (right; exact IN1).
    assert (I3 : Inv s3).
    { apply inv_put; [exact In' | unfold y; lia | exact Logic.I | left; change (n0 <= l < hlen (sh s2)); unfold l; lia |].
      eapply put_side_kind; [exact Kyn | intros _; discriminate | discriminate]. }
    assert (J3 : Inv2 s3).
    { apply inv2_put; [exact Jn | |].
      - eapply justified_by with (x := x) (k := NM_TAXA) (v := R lt);
          [exact Jn | exact Ixn | exact G | apply bget_In; exact BT | reflexivity | left; left; reflexivity].
      - eapply priv_side_kind; [exact Kyn | intros _; discriminate | discriminate]. }
    assert (E13 : Ext s1 s3).
    { eapply ext_trans; [apply ext_alloc|]. eapply ext_trans; [apply ext_note|].
      eapply ext_trans; [apply ext_memo_set | apply ext_put]. }
    assert (F13 : Ext2 s1 s3).
    { eapply ext2_trans' with (b := sn); [| |apply ext2_put].
      - change (hlen (sh s1) <= hlen (sh s2)). lia.
      - eapply ext2_trans' with (b := note s2 lt l); [change (hlen (sh s1) <= hlen (sh s2)); lia
                                                     | apply ext2_alloc_note | apply ext2_memo_set]. }
    assert (HL3 : hlen (sh s3) = hlen (sh s) + 2).
    { unfold s3. rewrite put_hlen. change (hlen (sh s2) = hlen (sh s) + 2). lia. }
    assert (U3 : (U s3 < f)%nat) by (eapply U_lt_ext; [exact E13 | exact Uf1]).
    assert (Ix3 : In (x, y) (sc s3)) by (unfold s3; rewrite put_sc; exact Ixn).
    assert (Il3 : In (lt, l) (sc s3)) by (unfold s3; rewrite put_sc; left; reflexivity).
    assert (TAXAKEY : In (NM_TAXA, R l) (body_of s3 y)).
    { destruct (kind_at_exists _ _ _ Kyn) as [oy Gy]. apply put_adds_key. eauto. }
    destruct (copy_append rec s3 l 0 (values (body_of s3 lt))) as [s4| |] eqn:LP; simpl in H; try discriminate.
    destruct (plain_fields rec [NM_ANN; NM_TAXA] s4 y (obody ob)) as [s5| |] eqn:LF; simpl in H; try discriminate.
    destruct (deep_copy_annotations_from rec s5 y x) as [s6| |] eqn:DC; simpl in H; try discriminate.
    inversion H; subst s' v'. clear H.
    rewrite (body_of_old h0 seeds s3 lt I3) in LP by lia. rewrite GL in LP.
    destruct (copy_append2 (values (obody lo)) rec f s3 l 0 KList lt lo RB I3 J3 U3) with (s' := s4) as [L34 KPl]; auto.
    { unfold l. lia. }
    { unfold s3. rewrite put_kind. exact K2. }
    { split; [reflexivity | discriminate]. }
    { apply (old_values_vsrc2 lt lo GL). rewrite KL. reflexivity. }
    { apply (list_source_entries lt lo GL). left. exact KL. }
    assert (Ky4 : kind_at (sh s4) y = Some KNamespace).
    { eapply kind_ext; [exact (l_ext _ _ L34)|]. unfold s3. rewrite put_kind. exact Kyn. }
    assert (U4 : (U s4 < f)%nat) by (eapply U_lt_ext; [exact (l_ext _ _ L34) | exact U3]).
    assert (Hy4 : n0 <= y) by (unfold y; lia).
    assert (NA4 : KNamespace <> KAnnSet) by discriminate.
    assert (SK4 : is_annk KNamespace = true -> In NM_ANN [NM_ANN; NM_TAXA]) by (intros _; left; reflexivity).
    assert (Fx4 : Forall (fun e : val * val => (exists p, fst e = P p) /\ vsrc (snd e)) (obody ob)).
    { eapply old_fields; [exact Hclosed | exact Hkeys | exact G | tauto]. }
    assert (V24 : forall k v, In (k, v) (obody ob) -> existsb (val_eqb k) [NM_ANN; NM_TAXA] = false -> vsrc2 v).
    { intros k v IN NS. destruct (old_entry_vsrc2 x ob k v G IN) as [_ X]; [|exact X].
      intros [_ C]. subst k. simpl in NS. discriminate NS. }
    assert (Ix4 : In (x, y) (sc s4)) by (apply (proj1 (l_ext2 _ _ L34)); exact Ix3).
    destruct (plain_fields2 (obody ob) rec f [NM_ANN; NM_TAXA] s4 y KNamespace x ob RB (l_inv _ _ L34) (l_inv2 _ _ L34)
                U4 Hy4 Ky4 NA4 SK4 Fx4 V24 Ix4 G (fun e I => I) s5 LF) as [L45 KPy].
    assert (L35 : Loop2 s3 s5) by (eapply loop2_trans; eassumption).
    assert (L56 : Loop2 s5 s6).
    { assert (U5 : (U s5 < f)%nat) by (eapply U_lt_ext; [exact (l_ext _ _ L35) | exact U3]).
      assert (Hd5 : n0 <= y < hlen (sh s5)) by (destruct (l_ext _ _ L35) as [LL _]; unfold y; lia).
      assert (Ky5 : kind_at (sh s5) y = Some KNamespace) by (eapply kind_ext; [exact (l_ext _ _ L45) | exact Ky4]).
      assert (Ix5 : In (x, y) (sc s5)) by (apply (proj1 (l_ext2 _ _ L35)); exact Ix3).
      assert (AK5 : is_annk (okind ob) = true) by (rewrite KO; reflexivity).
      exact (dcaf2 rec f s5 y x KNamespace ob RB (l_inv _ _ L45) (l_inv2 _ _ L45) U5 Hd5 Ky5 eq_refl Vs Ix5 G AK5 s6 DC). }
    assert (L36 : Loop2 s3 s6) by (eapply loop2_trans; eassumption).
    assert (F03 : Ext2 s s3) by (eapply ext2_trans'; [|exact F1 | exact F13]; lia).
    split; [exact (l_inv2 _ _ L36)|]. split; [|split].
    + eapply ext2_trans'; [|exact F03 | exact (l_ext2 _ _ L36)]. lia.
    + left. apply (proj1 (l_ext2 _ _ L36)). exact Ix3.
    + eapply newpresent_frame with (sa := s3); [exact F03 | lia | exact (l_new _ _ L36) |].
      intros a b I Hb.
      assert (Ix6 : In (x, y) (sc s6)) by (apply (proj1 (l_ext2 _ _ L36)); exact Ix3).
      assert (Il6 : In (lt, l) (sc s6)) by (apply (proj1 (l_ext2 _ _ L36)); exact Il3).
      assert (CASES : b = y \/ b = l) by (unfold y, l; lia).
      destruct CASES as [E|E]; subst b.
      * assert (a = x) by (eapply (j_uniq _ (l_inv2 _ _ L36)); eassumption). subst a.
        eapply present_from_keys; [exact G|]. intros k v Ik.
        destruct (val_eqb k NM_ANN) eqn:EA.
        { left. left. rewrite KO. split; [reflexivity | apply val_eqb_eq; exact EA]. }
        right. destruct (val_eqb k NM_TAXA) eqn:ETX.
        -- apply val_eqb_eq in ETX. subst k.
           destruct (key_persists s3 s6 y NM_TAXA (R l) (l_ext2 _ _ L36) TAXAKEY) as [v1 IK1].
           exists NM_TAXA, v1. split; [exact IK1 | reflexivity].
        -- destruct (KPy k v Ik) as [v1 IK1]; [simpl; rewrite EA, ETX; reflexivity|].
           destruct (key_persists s5 s6 y k v1 (l_ext2 _ _ L56) IK1) as [v2 IK2].
           exists k, v2. split; [exact IK2|].
           destruct (Hkeys x ob k v G ltac:(tauto) Ik) as [p Ep]. subst. reflexivity.
      * assert (a = lt) by (eapply (j_uniq _ (l_inv2 _ _ L36)); eassumption). subst a.
        eapply present_from_keys; [exact GL|]. eapply list_keysok; [exact GL | left; exact KL |].
        eapply keysok_list_ext with (s := s4); [|exact KPl].
        eapply ext2_trans'; [|exact (l_ext2 _ _ L45) | exact (l_ext2 _ _ L56)].
        destruct (l_ext _ _ L45). assumption.
  - (* KCDict *)
    destruct (new_copy s x ob) as [s1 y] eqn:NC. cbn [fst snd] in *. subst y.
    destruct (copy_entries rec false s1 (hlen (sh s)) (obody ob)) as [s2| |] eqn:LP; simpl in H; try discriminate.
    inversion H; subst s' v'. clear H.
    destruct (copy_entries2 (obody ob) rec f false s1 (hlen (sh s)) KCDict x ob RB I1 J1 Uf1) with (s' := s2) as [L2 KP]; auto.
    + split; [reflexivity | discriminate].
    + apply (old_entries_vsrc2 x ob G). rewrite KO. reflexivity.
    + eapply frame_finish; try eassumption. intros k v I. right. apply (KP k v I).
Qed.


Theorem dc_specB : forall f, RecSpecB (dc f) f.
Proof.
  induction f as [|f IH].
  - split; [apply (dc_spec h0 seeds Hclosed Hitems Hnames Hkeys)|]. intros s v _ _ _ H. lia.
  - simpl. apply dc_step2. exact IH.
Qed.

(* ---- the relation recorded by a whole run ------------------------------------------------------ *)

Hypothesis H2nodup : forall o ob, hget h0 o = Some ob -> NoDup (map fst (obody ob)).

Lemma vrel_inj : forall s k k0 k', Inv2 s -> vrel (sc s) k k' -> vrel (sc s) k0 k' -> k = k0.
Proof.
  intros s [p|a] [q|b] [r|c] J V1 V2; simpl in *; try contradiction; try congruence.
  destruct V1 as [V1|[E1 R1]]; destruct V2 as [V2|[E2 R2]].
  - f_equal. eapply j_uniq; eassumption.
  - subst. destruct (j_scr _ J a c V1). lia.
  - subst. destruct (j_scr _ J b c V2). lia.
  - congruence.
Qed.

Lemma nodup_fst_inj : forall (b : list (val * val)) k v v', NoDup (map fst b) -> In (k, v) b -> In (k, v') b -> v = v'.
Proof.
  induction b as [|[k0 v0] r IH]; simpl; intros k v v' ND I1 I2; [contradiction|].
  inversion ND as [|? ? NI ND']; subst.
  destruct I1 as [I1|I1]; destruct I2 as [I2|I2].
  - congruence.
  - inversion I1; subst. exfalso. apply NI. apply in_map_iff. exists (k, v'). auto.
  - inversion I2; subst. exfalso. apply NI. apply in_map_iff. exists (k, v). auto.
  - eapply IH; eassumption.
Qed.

Definition PairOK (c : list (Z * Z)) (h' : heap) (a b : Z) : Prop :=
  0 <= a < n0 /\ n0 <= b < hlen h' /\
  exists oa ob, hget h0 a = Some oa /\ hget h' b = Some ob /\ ocls oa = ocls ob /\ okind oa = okind ob
    /\ (forall k' v', In (k', v') (obody ob) ->
          rebuilt (okind oa) k' \/ exists k v, In (k, v) (obody oa) /\ vrel c k k' /\ vrel c v v')
    /\ (forall k v, In (k, v) (obody oa) ->
          not_carried (okind oa) k \/ exists k' v', In (k', v') (obody ob) /\ vrel c k k' /\ vrel c v v').

Lemma pair_ok : forall s a b, Inv2 s -> In (a, b) (sc s) -> Present (sc s) (sh s) a b -> PairOK (sc s) (sh s) a b.
Proof.
  intros s a b J I PR. destruct (j_scr _ J a b I) as [Ra Rb].
  destruct (j_sound _ J a b I) as [oa [ob [Ga [Gb [C [K S]]]]]].
  split; [exact Ra|]. split; [exact Rb|]. exists oa, ob. repeat split; auto.
  intros k v Ik. destruct (PR oa ob Ga Gb k v Ik) as [NC|[k' [v' [I' V']]]]; [left; exact NC|].
  destruct (S k' v' I') as [RB|[k0 [v0 [I0 [Vk Vv]]]]].
  - left. destruct RB as [[AK E]|[KS E]].
    + subst k'. apply vrel_prim_inv2 in V'. subst k. left. split; [assumption | reflexivity].
    + right. split; [exact KS|]. destruct E as [E|E]; subst k'; apply vrel_prim_inv2 in V'; subst k; discriminate.
  - right. exists k', v'. split; [exact I'|]. split; [exact V'|].
    assert (k = k0) by (eapply vrel_inj; eassumption). subst k0.
    assert (v0 = v) by (eapply nodup_fst_inj; [apply (H2nodup a oa Ga) | exact I0 | exact Ik]). subst v0. exact Vv.
Qed.

Lemma init_inv2 : forall nf, (forall x, In x seeds -> 0 <= x < n0) -> Inv2 (init_st nf h0 seeds).
Proof.
  intros nf Hs. constructor; simpl.
  - intros a b [].
  - intros a a' b [].
  - intros a b E Hb. apply alookup_seed in E. destruct E as [E I]. subst b. specialize (Hs a I). lia.
  - intros a b [].
  - intros y ob Hy G. apply hget_Some_range in G. lia.
Qed.

Theorem run_bisim : forall nf fuel root s' y, (forall x, In x seeds -> 0 <= x < n0) -> Inv (init_st nf h0 seeds) ->
  0 <= root < n0 -> ~ owned root -> (length h0 < fuel)%nat -> (U (init_st nf h0 seeds) <= length h0)%nat ->
  run_seeded nf fuel h0 seeds root = Ok (s', R y) ->
  vrel (sc s') (R root) (R y)
  /\ (forall a b, In (a, b) (sc s') -> PairOK (sc s') (sh s') a b)
  /\ (forall a a' b, In (a, b) (sc s') -> In (a', b) (sc s') -> a = a').
Proof.
  intros nf fuel root s' y Hs IV0 Hr NO Hf HU E. unfold run_seeded in E.
  destruct (dc_specB fuel) as [_ RB].
  destruct (RB (init_st nf h0 seeds) (R root) IV0 (init_inv2 nf Hs)) with (s' := s') (v' := R y) as [J [F [V NP]]].
  - split; [exact Hr | exact NO].
  - lia.
  - exact E.
  - split; [exact V|]. split; [|exact (j_uniq _ J)].
    intros a b I. apply pair_ok; [exact J | exact I|]. apply NP; [exact I|].
    destruct (j_scr _ J a b I) as [_ Rb]. simpl. lia.
Qed.

End Iso.
