(* C07 proofs, part 4: the other building blocks: suppress_unifurcations, collapse_basal_bifurcation,
   putting a node on an edge, stable sorts / scripted shuffles of child lists, to_front *)
From Coq Require Import ZArith List Bool Lia Permutation.
From DV Require Import Model.PyPrims Model.Tree Model.C07Model Model.C07Spec
     Proofs.C07Base Proofs.C07Equiv Proofs.C07Rot.
Import ListNotations.
Open Scope Z_scope.

Lemma len0_addlen_supp c p : len0 (addlen_supp c p) = len0 c + len0 p.
Proof. destruct c, p; simpl; lia. Qed.

Lemma clades_head t : exists rest, clades t = leaf_taxa t :: rest.
Proof. destruct t as [i x l e ks]. eexists. apply clades_node. Qed.

(* a subtree whose length is rewritten to one of the same value *)
Lemma set_len_equivT e t : len0 e = len0 (t_len t) -> equivT t (set_len e t).
Proof.
  intros H. constructor.
  - rewrite set_len_leaf_taxa. apply Permutation_refl.
  - intro a. rewrite set_len_downT. unfold downT. rewrite H. reflexivity.
  - intros a b. rewrite set_len_dist. reflexivity.
  - rewrite set_len_total. lia.
  - rewrite set_len_clades. apply cl_eqv_refl.
Qed.

(* a node with a single child c = the child carrying both lengths *)
Lemma unif_equivT i x l e c : equivT (T i x l e [c]) (set_len (addlen_supp (t_len c) e) c).
Proof.
  assert (Hn : [c] <> []) by discriminate.
  constructor.
  - rewrite leaf_taxa_node by assumption. cbn [flat_map]. rewrite app_nil_r, set_len_leaf_taxa. apply Permutation_refl.
  - intro a. rewrite downT_node by assumption. rewrite downF_cons, downF_nil, set_len_downT, len0_addlen_supp.
    unfold downT. destruct (down a c); cbn [oadd option_map]; [f_equal; lia | reflexivity].
  - intros a b. rewrite dist_node by assumption. rewrite distF_cons, distF_nil, !downF_nil, set_len_dist.
    destruct (downT a c) eqn:Ea, (downT b c) eqn:Eb; cbn [oadd option_map]; try reflexivity; symmetry.
    + apply dist_none_r. apply downT_none_down. assumption.
    + apply dist_none_l. apply downT_none_down. assumption.
    + apply dist_none_l. apply downT_none_down. assumption.
  - rewrite total_node, set_len_total, len0_addlen_supp. cbn [map]. rewrite zsum_cons. change (zsum []) with 0. lia.
  - rewrite clades_node, set_len_clades. rewrite leaf_taxa_node by assumption. cbn [flat_map]. rewrite !app_nil_r.
    destruct (clades_head c) as [rest Hc]. rewrite Hc. split; apply cl_sub_incl; intros C HC.
    + destruct HC as [HC|HC]; [left; assumption | assumption].
    + right. assumption.
Qed.

Lemma forall_forall2_map {A B} (R : A -> B -> Prop) (f : A -> B) l :
  Forall (fun k => R k (f k)) l -> Forall2 R l (map f l).
Proof. induction 1; simpl; constructor; auto. Qed.

(* Tree.suppress_unifurcations *)
Lemma suppress_equivT : forall t, equivT t (suppress t).
Proof.
  induction t as [i x l e ks IH] using tree_ind'.
  destruct ks as [|k1 [|k2 r]].
  - apply equivT_refl.
  - inversion IH; subst. change (suppress (T i x l e [k1])) with (set_len (addlen_supp (t_len (suppress k1)) e) (suppress k1)).
    eapply equivT_trans; [|apply unif_equivT with (i := i) (x := x) (l := l)].
    apply equivT_node; [discriminate|]. constructor; [assumption | constructor].
  - change (suppress (T i x l e (k1 :: k2 :: r))) with (T i x l e (map suppress (k1 :: k2 :: r))).
    apply equivT_node; [discriminate|]. apply forall_forall2_map. assumption.
Qed.

Lemma suppress_equivU t : equivU t (suppress t).
Proof. apply equivT_U, suppress_equivT. Qed.

Lemma suppress_leaf_taxa t : leaf_taxa (suppress t) = leaf_taxa t.
Proof.
  induction t as [i x l e ks IH] using tree_ind'.
  destruct ks as [|k1 [|k2 r]].
  - reflexivity.
  - inversion IH; subst. change (suppress (T i x l e [k1])) with (set_len (addlen_supp (t_len (suppress k1)) e) (suppress k1)).
    rewrite set_len_leaf_taxa, H1. rewrite leaf_taxa_node by discriminate. cbn [flat_map]. rewrite app_nil_r. reflexivity.
  - change (suppress (T i x l e (k1 :: k2 :: r))) with (T i x l e (map suppress (k1 :: k2 :: r))).
    rewrite !leaf_taxa_node by discriminate. rewrite flat_map_concat_map, map_map, <- flat_map_concat_map.
    clear -IH. induction IH as [|k0 r0 Hk _ IHr]; [reflexivity|]. cbn [flat_map]. rewrite Hk, IHr. reflexivity.
Qed.

(* ---------- node_map_perm: children replaced by equivalent ones, then permuted ---------- *)
Lemma node_map_perm i x l e i' x' l' ks ks1 ks2 :
  ks <> [] -> Forall2 equivT ks ks1 -> Permutation ks1 ks2 -> NoDup (ltF ks) ->
  equivT (T i x l e ks) (T i' x' l' e ks2).
Proof.
  intros Hn HF HP ND.
  eapply equivT_trans; [apply (equivT_node i x l e i x l ks ks1); assumption|].
  apply equivT_perm; try assumption.
  - eapply forall2_nonnil; eauto.
  - eapply Permutation_NoDup; [apply forall2_ltF; eassumption | assumption].
Qed.

(* ---------- Tree.collapse_basal_bifurcation ---------- *)
Lemma addlen_try_supp keep del : addlen_try keep del = addlen_supp keep del.
Proof. destruct keep, del; reflexivity. Qed.

(* keep the first child, dissolve the second *)
Lemma collapse_second i x l e c0 i1 x1 l1 e1 K1 :
  K1 <> [] ->
  NoDup (leaf_taxa (T i x l e [c0; T i1 x1 l1 e1 K1])) ->
  equivU (T i x l e [c0; T i1 x1 l1 e1 K1])
         (T i x l e (set_len (addlen_try (t_len c0) e1) c0 :: K1)).
Proof.
  intros HK ND. rewrite addlen_try_supp.
  assert (S1 := rot_step i x l e [c0] i1 x1 l1 e1 K1 [] HK ltac:(discriminate) ND).
  cbn [app] in S1. eapply equivU_trans; [exact S1|].
  apply equivT_U.
  assert (ND1 := equivU_nodup _ _ S1 ND).
  rewrite leaf_taxa_node in ND1 by (destruct K1; discriminate).
  apply node_map_perm with (ks1 := K1 ++ [set_len (addlen_supp (t_len c0) e1) c0]).
  - destruct K1; discriminate.
  - apply Forall2_app; [apply forall2_refl; apply equivT_refl|]. constructor; [apply unif_equivT | constructor].
  - apply Permutation_sym. apply Permutation_cons_append.
  - assumption.
Qed.

Lemma collapse_basal_two i x l e c0 c1 :
  collapse_basal (T i x l e [c0; c1]) =
    if (2 <=? length (t_kids c1))%nat
    then (T i x l e (set_len (addlen_try (t_len c0) (t_len c1)) c0 :: t_kids c1), true)
    else if (2 <=? length (t_kids c0))%nat
    then (T i x l e (t_kids c0 ++ [set_len (addlen_try (t_len c1) (t_len c0)) c1]), true)
    else (T i x l e [c0; c1], false).
Proof. reflexivity. Qed.

Lemma collapse_basal_equivU t t' did :
  collapse_basal t = (t', did) -> NoDup (leaf_taxa t) -> equivU t t'.
Proof.
  destruct t as [i x l e ks]. destruct ks as [|c0 [|c1 [|c2 r]]]; intros H ND;
    try (simpl in H; inversion H; subst; apply equivU_refl).
  rewrite collapse_basal_two in H.
  destruct (2 <=? length (t_kids c1))%nat eqn:E1.
  - inversion H; subst. destruct c1 as [i1 x1 l1 e1 K1]. cbn [t_kids t_len] in *.
    apply collapse_second; try assumption. apply Nat.leb_le in E1. destruct K1; [cbn in E1; lia | discriminate].
  - destruct (2 <=? length (t_kids c0))%nat eqn:E0.
    + inversion H; subst. destruct c0 as [i0 x0 l0 e0 K0]. cbn [t_kids t_len] in *.
      assert (HK : K0 <> []) by (apply Nat.leb_le in E0; destruct K0; [cbn in E0; lia | discriminate]).
      assert (P1 : equivT (T i x l e [T i0 x0 l0 e0 K0; c1]) (T i x l e [c1; T i0 x0 l0 e0 K0])).
      { apply equivT_perm; [discriminate | apply perm_swap |]. rewrite leaf_taxa_node in ND by discriminate. assumption. }
      eapply equivU_trans; [apply equivT_U; exact P1|].
      assert (ND1 : NoDup (leaf_taxa (T i x l e [c1; T i0 x0 l0 e0 K0]))) by (eapply equivU_nodup; [apply equivT_U; exact P1 | assumption]).
      eapply equivU_trans; [apply collapse_second; assumption|].
      apply equivT_U. apply equivT_perm.
      * discriminate.
      * apply Permutation_cons_append.
      * assert (S := collapse_second i x l e c1 i0 x0 l0 e0 K0 HK ND1).
        apply (equivU_nodup _ _ S) in ND1. rewrite leaf_taxa_node in ND1 by discriminate. assumption.
    + inversion H; subst. apply equivU_refl.
Qed.

Lemma collapse_basal_leaf_nodup t t' did :
  collapse_basal t = (t', did) -> NoDup (leaf_taxa t) -> NoDup (leaf_taxa t').
Proof. intros. eapply equivU_nodup; [eapply collapse_basal_equivU; eauto | assumption]. Qed.

(* ---------- a new node on the edge above h ---------- *)
Lemma find_node_eq n t :
  find_node n t = if t_id t =? n then Some t else first_some (find_node n) (t_kids t).
Proof. destruct t; reflexivity. Qed.

Lemma split_none_iff h fresh l1 l2 : forall t,
  split_edge h fresh l1 l2 t = None <-> first_some (find_node h) (t_kids t) = None.
Proof.
  induction t as [i x l e ks IH] using tree_ind'. cbn [t_kids]. simpl.
  rewrite Forall_forall in IH.
  match goal with |- option_map _ ?F = None <-> _ => assert (HF : F = None <-> first_some (find_node h) ks = None) end.
  { apply first_ctx_none_iff. intros k Hk pre post. rewrite find_node_eq.
    destruct (t_id k =? h); [split; discriminate|].
    specialize (IH _ Hk). rewrite <- IH.
    destruct (split_edge h fresh l1 l2 k); simpl; split; intros; congruence. }
  rewrite <- HF. match goal with |- option_map _ ?F = None <-> _ => destruct F end; simpl; split; intros; congruence.
Qed.

Lemma nodup_ltF_elem A k B : NoDup (ltF (A ++ k :: B)) -> NoDup (leaf_taxa k).
Proof. rewrite flat_map_app. cbn [flat_map]. intros H. apply nodup_app_r in H. apply nodup_app_l in H. assumption. Qed.

Lemma split_edge_equivT h fresh l1 l2 : forall t t',
  split_edge h fresh l1 l2 t = Some t' ->
  (forall H, first_some (find_node h) (t_kids t) = Some H -> len0 l1 + len0 l2 = len0 (t_len H)) ->
  NoDup (leaf_taxa t) ->
  equivT t t'.
Proof.
  induction t as [i x l e ks IH] using tree_ind'. intros t' Hs Hlen ND. cbn [t_kids] in Hlen. simpl in Hs.
  rewrite Forall_forall in IH.
  match type of Hs with option_map _ ?F = Some _ => destruct F as [ks2|] eqn:EF; [|discriminate] end.
  cbn [option_map] in Hs. inversion Hs; subst t'. clear Hs.
  assert (AG : forall k, In k ks -> forall pre post,
     (if t_id k =? h then Some (pre ++ post ++ [T fresh None None l1 [set_len l2 k]])
      else option_map (fun k' => pre ++ k' :: post) (split_edge h fresh l1 l2 k)) = None <-> find_node h k = None).
  { intros k Hk pre post. rewrite find_node_eq.
    destruct (t_id k =? h); [split; discriminate|].
    rewrite <- (split_none_iff h fresh l1 l2 k).
    destruct (split_edge h fresh l1 l2 k); simpl; split; intros; congruence. }
  destruct (first_ctx_agree _ (find_node h) ks AG _ _ EF) as [A [k [B [Hks [Hf Hg]]]]].
  cbn [app] in Hf.
  assert (Hn : ks <> []) by (rewrite Hks; destruct A; discriminate).
  rewrite leaf_taxa_node in ND by assumption.
  destruct (t_id k =? h) eqn:Eh.
  - inversion Hf; subst ks2. clear Hf.
    assert (HL : len0 l1 + len0 l2 = len0 (t_len k)).
    { apply Hlen. rewrite Hg, find_node_eq, Eh. reflexivity. }
    apply node_map_perm with (ks1 := A ++ T fresh None None l1 [set_len l2 k] :: B); try assumption.
    + rewrite Hks. apply Forall2_app; [apply forall2_refl; apply equivT_refl|].
      constructor; [|apply forall2_refl; apply equivT_refl].
      apply equivT_sym. eapply equivT_trans; [apply unif_equivT|].
      rewrite set_len_len. apply equivT_sym.
      assert (E : set_len (addlen_supp l2 l1) (set_len l2 k) = set_len (addlen_supp l2 l1) k) by (destruct k; reflexivity).
      rewrite E. apply set_len_equivT. rewrite len0_addlen_supp. lia.
    + rewrite app_assoc. eapply Permutation_trans; [apply Permutation_sym, Permutation_middle|].
      apply Permutation_cons_append.
  - destruct (split_edge h fresh l1 l2 k) as [k'|] eqn:Ek; [|discriminate]. cbn [option_map] in Hf.
    inversion Hf; subst ks2. clear Hf.
    assert (Hkin : In k ks) by (rewrite Hks; apply in_or_app; right; left; reflexivity).
    assert (Ek' : equivT k k').
    { apply (IH k Hkin k' Ek).
      - intros H HH. apply Hlen. rewrite Hg, find_node_eq, Eh. exact HH.
      - rewrite Hks in ND. eapply nodup_ltF_elem; eauto. }
    rewrite Hks. apply equivT_node; [destruct A; discriminate|].
    apply Forall2_app; [apply forall2_refl; apply equivT_refl|].
    constructor; [assumption | apply forall2_refl; apply equivT_refl].
Qed.

(* ---------- stable sorts ---------- *)
Lemma insert_by_perm key asc x l : Permutation (insert_by key asc x l) (x :: l).
Proof.
  induction l as [|y r IH]; [apply Permutation_refl|]. simpl.
  destruct (if asc then key x <=? key y else key y <=? key x); [apply Permutation_refl|].
  eapply Permutation_trans; [apply perm_skip; exact IH | apply perm_swap].
Qed.

Lemma sort_by_perm key asc l : Permutation (sort_by key asc l) l.
Proof.
  induction l as [|x r IH]; [apply Permutation_refl|]. unfold sort_by in *. cbn [fold_right].
  eapply Permutation_trans; [apply insert_by_perm | apply perm_skip; exact IH].
Qed.

Lemma nodup_forall_kids ks : NoDup (ltF ks) -> Forall (fun k => NoDup (leaf_taxa k)) ks.
Proof.
  induction ks as [|k r IH]; [constructor|]. cbn [flat_map]. intros H.
  constructor; [eapply nodup_app_l; eauto | apply IH; eapply nodup_app_r; eauto].
Qed.

Lemma nodup_kids i x l e ks : ks <> [] -> NoDup (leaf_taxa (T i x l e ks)) -> Forall (fun k => NoDup (leaf_taxa k)) ks.
Proof. intros Hn. rewrite leaf_taxa_node by assumption. apply nodup_forall_kids. Qed.

Lemma forall2_from_forall {A B} (P : A -> Prop) (R : A -> B -> Prop) (f : A -> B) l :
  Forall (fun k => P k -> R k (f k)) l -> Forall P l -> Forall2 R l (map f l).
Proof.
  induction 1 as [|k r Hk _ IH]; intros HP; [constructor|]. inversion HP; subst. simpl. constructor; auto.
Qed.

Lemma sorted_node_equivT (f : tree -> tree) key asc i x l e ks :
  Forall (fun k => NoDup (leaf_taxa k) -> equivT k (f k)) ks ->
  NoDup (leaf_taxa (T i x l e ks)) ->
  equivT (T i x l e ks) (T i x l e (sort_by key asc (map f ks))).
Proof.
  intros IH ND. destruct ks as [|k r]; [apply equivT_refl|].
  assert (Hn : k :: r <> []) by discriminate.
  apply node_map_perm with (ks1 := map f (k :: r)); try assumption.
  - eapply forall2_from_forall; [exact IH | eapply nodup_kids; eauto].
  - apply Permutation_sym, sort_by_perm.
Qed.

Lemma ladderize_equivT asc : forall t, NoDup (leaf_taxa t) -> equivT t (ladderize asc t).
Proof.
  induction t as [i x l e ks IH] using tree_ind'. intros ND.
  change (ladderize asc (T i x l e ks)) with (T i x l e (sort_by desc_count asc (map (ladderize asc) ks))).
  apply sorted_node_equivT; assumption.
Qed.

Lemma reorder_equivT asc rk : forall t, NoDup (leaf_taxa t) -> equivT t (reorder asc rk t).
Proof.
  induction t as [i x l e ks IH] using tree_ind'. intros ND.
  change (reorder asc rk (T i x l e ks)) with (T i x l e (sort_by (rank_of rk) asc (map (reorder asc rk) ks))).
  apply sorted_node_equivT; assumption.
Qed.

(* ---------- scripted shuffles ---------- *)
Lemma pick_perm ks : forall sg sg' l, Permutation sg sg' -> pick sg ks = Some l ->
  exists l', pick sg' ks = Some l' /\ Permutation l l'.
Proof.
  intros sg sg' l HP. revert l. induction HP as [|j sg sg' HP IH|j1 j2 sg|sg1 sg2 sg3 H1 IH1 H2 IH2]; intros l Hl.
  - exists l. split; [assumption | apply Permutation_refl].
  - simpl in *. destruct (nth_error ks j) as [k|]; [|discriminate].
    destruct (pick sg ks) as [r|] eqn:E; [|discriminate]. inversion Hl; subst.
    destruct (IH r eq_refl) as [r' [Hr' Hp]]. rewrite Hr'. exists (k :: r'). split; [reflexivity | apply perm_skip; assumption].
  - simpl in *. destruct (nth_error ks j2) as [k2|]; [|discriminate].
    destruct (nth_error ks j1) as [k1|]; [|discriminate].
    destruct (pick sg ks) as [r|]; [|discriminate]. inversion Hl; subst.
    exists (k1 :: k2 :: r). split; [reflexivity | apply perm_swap].
  - destruct (IH1 l Hl) as [l2 [E2 P2]]. destruct (IH2 l2 E2) as [l3 [E3 P3]].
    exists l3. split; [assumption | eapply Permutation_trans; eauto].
Qed.

Lemma pick_shift sg a ks : pick (map S sg) (a :: ks) = pick sg ks.
Proof. induction sg as [|j r IH]; [reflexivity|]. simpl. rewrite IH. reflexivity. Qed.

Lemma pick_seq ks : pick (seq 0 (length ks)) ks = Some ks.
Proof.
  induction ks as [|a ks IH]; [reflexivity|]. cbn [length]. rewrite <- cons_seq, <- seq_shift.
  cbn [pick nth_error]. rewrite pick_shift, IH. reflexivity.
Qed.

Lemma is_perm_perm sg n : is_perm sg n = true -> Permutation (seq 0 n) sg.
Proof.
  unfold is_perm. intros H. apply andb_true_iff in H. destruct H as [H1 H2].
  apply Nat.eqb_eq in H1. apply NoDup_Permutation_bis.
  - apply seq_NoDup.
  - rewrite seq_length. lia.
  - intros j Hj. rewrite forallb_forall in H2. specialize (H2 j Hj).
    apply existsb_exists in H2. destruct H2 as [j' [Hj' E]]. apply Nat.eqb_eq in E. subst. assumption.
Qed.

Lemma apply_perm_perm sg ks ks' : apply_perm sg ks = Some ks' -> Permutation ks ks'.
Proof.
  unfold apply_perm. destruct (is_perm sg (length ks)) eqn:E; [|discriminate]. intros H.
  apply is_perm_perm in E.
  destruct (pick_perm ks _ _ _ (Permutation_sym E) H) as [l' [Hl' P]].
  rewrite pick_seq in Hl'. inversion Hl'; subst. apply Permutation_sym. assumption.
Qed.

Lemma all_some_map {A B} (f : A -> option B) l l' :
  all_some (map f l) = Some l' -> Forall2 (fun a b => f a = Some b) l l'.
Proof.
  revert l'. induction l as [|a l IH]; intros l'; simpl.
  - intros H; inversion H; constructor.
  - destruct (f a) eqn:E; [|discriminate]. destruct (all_some (map f l)) eqn:E2; [|discriminate].
    intros H; inversion H; subst. constructor; [assumption | apply IH; reflexivity].
Qed.

Lemma rotate_equivT sc : forall t t', rotate sc t = Some t' -> NoDup (leaf_taxa t) -> equivT t t'.
Proof.
  induction t as [i x l e ks IH] using tree_ind'. intros t' H ND.
  destruct ks as [|k r].
  - simpl in H. inversion H; subst. apply equivT_refl.
  - assert (Hn : k :: r <> []) by discriminate.
    change (rotate sc (T i x l e (k :: r))) with
      (match all_some (map (rotate sc) (k :: r)), alookup i sc with
       | Some ks', Some sg => option_map (T i x l e) (apply_perm sg ks')
       | _, _ => None end) in H.
    destruct (all_some (map (rotate sc) (k :: r))) as [ks1|] eqn:E1; [|discriminate].
    destruct (alookup i sc) as [sg|]; [|discriminate].
    destruct (apply_perm sg ks1) as [ks2|] eqn:E2; [|discriminate].
    cbn [option_map] in H. inversion H; subst t'.
    apply all_some_map in E1. apply apply_perm_perm in E2.
    apply node_map_perm with (ks1 := ks1); try assumption.
    + assert (NK := nodup_kids _ _ _ _ _ Hn ND).
      clear -IH E1 NK. revert IH NK. induction E1 as [|a b la lb Hab _ IHl]; intros IH NK; [constructor|].
      inversion IH; subst. inversion NK; subst. constructor; auto.
Qed.

(* ---------- to_front ---------- *)
Lemma to_front_spec og ks ks' :
  to_front og ks = Some ks' ->
  Permutation ks ks' /\ exists k r, ks' = k :: r /\ t_id k = og.
Proof.
  unfold to_front. intros H. apply first_ctx_some in H. destruct H as [X [k [Y [Hks Hf]]]].
  cbn [app] in Hf. destruct (t_id k =? og) eqn:E; [|discriminate]. inversion Hf; subst.
  split; [apply Permutation_sym, Permutation_middle|]. exists k, (X ++ Y). split; [reflexivity | apply Z.eqb_eq; assumption].
Qed.
