(* C13: the NEXUS reader's outer block loop and the NEXUS iterator's own copy agree. *)
From Coq Require Import ZArith List Bool Lia.
From DV Require Import Model.PyPrims Model.C13Model Proofs.C13Lists Proofs.C13Lockstep Proofs.C13Suffix.
Import ListNotations.

Lemma str_eqb_eq : forall a b, str_eqb a b = true <-> a = b.
Proof. intros. unfold str_eqb. apply list_eqb_eq. intros x y. apply Z.eqb_eq. Qed.

Lemma otok_is_inj : forall t a b, otok_is t a = true -> otok_is t b = true -> a = b.
Proof.
  intros [t|] a b H1 H2; simpl in *; try discriminate.
  apply str_eqb_eq in H1. apply str_eqb_eq in H2. congruence.
Qed.

Lemma otok_is_other : forall t a b, a <> b -> otok_is t a = true -> otok_is t b = false.
Proof.
  intros t a b Hne H. destruct (otok_is t b) eqn:E; [|reflexivity].
  exfalso. apply Hne. eapply otok_is_inj; eassumption.
Qed.

Section Blocks.
Variable T : Type.
Variables lower upper : str -> str.
Variable parse_tree : mapper -> tz -> res (option T * mapper * tz).
Variable set_label : T -> option str -> T.
Variable add_comments : T -> list str -> T.
Variable vl : bool.
Variable vs : bool.
Variable c : nscfg.
Variable tlf : tl_factory.
Variable et : bool.

Hypothesis parse_tree_suf : forall m z ot m' z',
  parse_tree m z = Ok (ot, m', z') -> suf (z_toks z') (z_toks z).
Hypothesis upper_idem : forall s, upper (upper s) = upper s.

Notation YTS := (y_trees_loop T lower upper parse_tree set_label add_comments vl c).
Notation RTS := (r_trees_loop T lower upper parse_tree set_label add_comments vl c tlf).
Notation YTB := (y_trees_block T lower upper parse_tree set_label add_comments vl c et).
Notation RTB := (r_parse_trees_block T lower upper parse_tree set_label add_comments vl c tlf et).
Notation YBL := (y_blocks_loop T lower upper parse_tree set_label add_comments vl c et).
Notation RBL := (r_blocks_loop T lower upper parse_tree set_label add_comments vl c tlf et vs).
Notation YST := (y_items_from_stream T lower upper parse_tree set_label add_comments vl c et).
Notation RST := (r_parse_nexus_stream T lower upper parse_tree set_label add_comments vl c tlf et vs).
Notation trel := (trees_rel T tlf).

Lemma ybind_ok_inv : forall X Y (a : yres T X) (f : X -> yres T Y) out y,
  ybind T a f = (out, Ok y) ->
  exists o1 x o2, a = (o1, Ok x) /\ f x = (o2, Ok y) /\ out = o1 ++ o2.
Proof.
  intros X Y [o1 [x|e|]] f out y H; simpl in H; try (inversion H; fail).
  destruct (f x) as [o2 r] eqn:E. inversion H; subst. exists o1, x, o2. auto.
Qed.

Lemma ylift_ok_inv : forall X (r : res X) o x, ylift T r = (o, Ok x) -> r = Ok x /\ o = [].
Proof. intros X r o x H. unfold ylift in H. inversion H; subst. auto. Qed.

(* the iterator's block loops only move forward *)
Lemma y_trees_loop_suf : forall fuel k g l out k' g',
  YTS fuel k g l = (out, Ok (k', g')) -> ksuf k' k.
Proof.
  unfold ksuf.
  induction fuel as [|f IH]; intros k g l out k' g' H; [inversion H|].
  cbn [y_trees_loop] in H.
  destruct (loop_guard (k_z k) (l_token l)); [|inversion H; subst; apply suf_refl].
  rewrite ybind_ylift in H.
  destruct (zstep k (next_token_ucase upper)) as [k1|e|] eqn:E1; try (inversion H; fail).
  apply zstep_suf in E1; [|apply next_token_ucase_suf]. unfold ksuf in E1.
  destruct (otok_is (z_cur (k_z k1)) K_LINK).
  { rewrite ybind_ylift in H.
    destruct (parse_link upper vl (S f) (k_z k1)) as [[lt z2]|e|] eqn:E2; try (inversion H; fail).
    apply IH in H. apply parse_link_suf in E2. suf_chain. }
  destruct (otok_is (z_cur (k_z k1)) K_TITLE).
  { rewrite ybind_ylift in H.
    destruct (parse_title upper (k_z k1)) as [[bt z2]|e|] eqn:E2; try (inversion H; fail).
    apply IH in H. apply parse_title_suf in E2. suf_chain. }
  destruct (otok_is (z_cur (k_z k1)) K_TRANSLATE).
  { rewrite ybind_ylift in H.
    destruct (loc_get_ns upper c k1 g l) as [[[ns k2] g2]|e|] eqn:E2; try (inversion H; fail).
    rewrite ybind_ylift in H.
    destruct (parse_translate lower (S f) k2 ns) as [[m k3]|e|] eqn:E3; try (inversion H; fail).
    apply IH in H. apply parse_translate_suf in E3. unfold ksuf in E3.
    apply loc_get_ns_z in E2. rewrite E2 in E3. suf_chain. }
  destruct (otok_is (z_cur (k_z k1)) K_TREE).
  { rewrite ybind_ylift in H.
    destruct (loc_get_ns upper c k1 g l) as [[[ns k2] g2]|e|] eqn:E2; try (inversion H; fail).
    destruct (pull_comments (k_z k2)) as [pre z3] eqn:EP.
    apply ybind_ok_inv in H. destruct H as [o1 [[[k6 m1] tk] [o2 [H1 [H2 _]]]]].
    apply (y_tree_loop_suf T upper parse_tree set_label add_comments parse_tree_suf) in H1. unfold ksuf in H1.
    apply IH in H2. unfold pull_comments in EP. inversion EP; subst. simpl in H1.
    apply loc_get_ns_z in E2. rewrite E2 in H1. suf_chain. }
  destruct (otok_is (z_cur (k_z k1)) K_BEGIN); [inversion H|].
  apply IH in H. suf_chain.
Qed.

Lemma y_trees_block_suf : forall fuel k g out k' g',
  YTB fuel k g = (out, Ok (k', g')) -> ksuf k' k.
Proof.
  unfold ksuf. intros fuel k g out k' g' H. unfold y_trees_block in H.
  destruct (negb (tok_is (cast_ucase upper (k_z k)) K_TREES)); [inversion H|].
  destruct et.
  - apply ylift_ok_inv in H. destruct H as [H _].
    destruct (zstep (set_z k (cast_ucase upper (k_z k))) _) as [k1|e|] eqn:E; cbn [bind] in H; try discriminate.
    inversion H; subst. apply zstep_suf in E; [|apply consume_suf]. unfold ksuf in E. simpl in E.
    rewrite cast_toks in E. assumption.
  - rewrite ybind_ylift in H.
    destruct (zstep (set_z k (cast_ucase upper (k_z k))) (skip_to_semicolon (S fuel - 1))) as [k1|e|] eqn:E.
    2,3: (replace (S fuel - 1)%nat with fuel in E by lia; rewrite E in H; inversion H).
    replace (S fuel - 1)%nat with fuel in E by lia. rewrite E in H.
    apply ybind_ok_inv in H. destruct H as [o1 [[k2 g2] [o2 [H1 [H2 _]]]]].
    apply y_trees_loop_suf in H1. apply ylift_ok_inv in H2. destruct H2 as [H2 _].
    destruct (zstep k2 (skip_to_semicolon fuel)) as [k3|e|] eqn:E3; cbn [bind] in H2; try discriminate.
    inversion H2; subst.
    apply zstep_suf in E; [|apply skip_to_semicolon_suf].
    apply zstep_suf in E3; [|apply skip_to_semicolon_suf].
    unfold ksuf in *. simpl in E. rewrite cast_toks in E. suf_chain.
Qed.

(* one TREES block *)
Lemma trees_block_agree : forall fuel k g tls reg,
  wf T tlf tls reg None ->
  trel tls (fst (YTB fuel k g)) (snd (YTB fuel k g)) (RTB fuel (mkRs k g tls reg)).
Proof.
  intros fuel k g tls reg W. unfold y_trees_block, r_parse_trees_block. cbn [r_k r_g r_tls r_tlreg].
  destruct (negb (tok_is (cast_ucase upper (k_z k)) K_TREES)); [simpl; reflexivity|].
  destruct et.
  - destruct (zstep (set_z k (cast_ucase upper (k_z k))) _) as [k1|e|]; simpl; try reflexivity.
    exists tls, reg, None. repeat split; auto. rewrite app_nil_r. reflexivity.
  - rewrite ybind_ylift.
    destruct (zstep (set_z k (cast_ucase upper (k_z k))) (skip_to_semicolon fuel)) as [k1|e|]; cbn [bind]; try (simpl; reflexivity).
    pose proof (trees_loop_agree T lower upper parse_tree set_label add_comments vl c tlf fuel k1 g tls reg
                  (mkLoc (z_cur (cast_ucase upper (k_z k))) None None None None) None W) as HL.
    destruct (YTS fuel k1 g (mkLoc (z_cur (cast_ucase upper (k_z k))) None None None None)) as [out r].
    simpl fst in HL. simpl snd in HL. unfold ybind.
    destruct r as [[k2 g2]|e|]; simpl in HL.
    + destruct HL as [tls' [reg' [tb' [E [W' F]]]]]. rewrite E. cbn [bind r_k r_g r_tls r_tlreg].
      unfold ylift.
      destruct (zstep k2 (skip_to_semicolon fuel)) as [k3|e|]; simpl; try reflexivity.
      exists tls', reg', tb'. repeat split; auto. rewrite app_nil_r. assumption.
    + rewrite HL. reflexivity.
    + rewrite HL. reflexivity.
Qed.

(* no token of the document upper-cases to SETS / ASSUMPTIONS / CODONS *)
Definition NoSets (l : list token) : Prop :=
  Forall (fun t => is_sets_kw (Some (upper (t_text t))) = false) l.

Lemma NoSets_suf : forall a b, suf a b -> NoSets b -> NoSets a.
Proof. intros a b. apply suf_Forall. Qed.

(* either the reader skips such blocks like the iterator does (repaired form), or the document has none *)
Definition SetsOk (l : list token) : Prop := vs = true \/ NoSets l.
Lemma SetsOk_suf : forall a b, suf a b -> SetsOk b -> SetsOk a.
Proof. intros a b S [H|H]; [left; assumption | right; eapply NoSets_suf; eassumption]. Qed.

(* the current token after next_token_ucase is an upper-cased token of the document, or None *)
Lemma next_token_ucase_cur : forall z z',
  next_token_ucase upper z = Ok z' -> NoSets (z_toks z) ->
  is_sets_kw (z_cur z') = false /\ (z_cur z' = None \/ exists x, z_cur z' = Some (upper x)).
Proof.
  intros z z' H N. unfold next_token_ucase, fetch in H.
  destruct (z_toks z) as [|t r] eqn:E.
  - destruct (z_end z); cbn [bind] in H; [|discriminate]. inversion H; subst. simpl. auto.
  - cbn [bind] in H. inversion H; subst. simpl. inversion N; subst. split; [assumption|].
    right. exists (t_text t). reflexivity.
Qed.

Lemma block_head_props : forall fuel k k4,
  block_head upper fuel k = Ok k4 -> NoSets (z_toks (k_z k)) ->
  ksuf k4 k /\ is_sets_kw (z_cur (k_z k4)) = false
  /\ (z_cur (k_z k4) = None \/ exists x, z_cur (k_z k4) = Some (upper x)).
Proof.
  intros fuel k k4 H N. unfold block_head in H.
  destruct (zstep k (next_token_ucase upper)) as [k1|e|] eqn:E1; cbn [bind] in H; try discriminate.
  destruct (zstep k1 (scan_begin upper fuel)) as [k2|e|] eqn:E2; cbn [bind] in H; try discriminate.
  apply zstep_suf in E1; [|apply next_token_ucase_suf].
  apply zstep_suf in E2; [|apply scan_begin_suf].
  unfold zstep in H.
  destruct (next_token_ucase upper (k_z (set_z k2 (clear_comments (k_z k2))))) as [z4|e|] eqn:E4; cbn [bind] in H; try discriminate.
  inversion H; subst. cbn [k_z set_z] in *.
  assert (S2 : suf (z_toks (clear_comments (k_z k2))) (z_toks (k_z k))).
  { unfold ksuf in *. simpl. suf_chain. }
  pose proof (next_token_ucase_cur _ _ E4 (NoSets_suf _ _ S2 N)) as [A B].
  split; [|split; assumption].
  unfold ksuf. apply next_token_ucase_suf in E4. simpl in *. suf_chain.
Qed.

Lemma next_token_ucase_up : forall z z',
  next_token_ucase upper z = Ok z' -> (z_cur z' = None \/ exists x, z_cur z' = Some (upper x)).
Proof.
  intros z z' H. unfold next_token_ucase, fetch in H.
  destruct (z_toks z) as [|t r] eqn:E.
  - destruct (z_end z); cbn [bind] in H; [|discriminate]. inversion H; subst. simpl. auto.
  - cbn [bind] in H. inversion H; subst. simpl. right. exists (t_text t). reflexivity.
Qed.

Lemma block_head_up : forall fuel k k4,
  block_head upper fuel k = Ok k4 ->
  ksuf k4 k /\ (z_cur (k_z k4) = None \/ exists x, z_cur (k_z k4) = Some (upper x)).
Proof.
  intros fuel k k4 H. unfold block_head in H.
  destruct (zstep k (next_token_ucase upper)) as [k1|e|] eqn:E1; cbn [bind] in H; try discriminate.
  destruct (zstep k1 (scan_begin upper fuel)) as [k2|e|] eqn:E2; cbn [bind] in H; try discriminate.
  apply zstep_suf in E1; [|apply next_token_ucase_suf].
  apply zstep_suf in E2; [|apply scan_begin_suf].
  unfold zstep in H.
  destruct (next_token_ucase upper (k_z (set_z k2 (clear_comments (k_z k2))))) as [z4|e|] eqn:E4; cbn [bind] in H; try discriminate.
  inversion H; subst. cbn [k_z set_z] in *. split; [|eapply next_token_ucase_up; eassumption].
  unfold ksuf in *. apply next_token_ucase_suf in E4. simpl in *. suf_chain.
Qed.

Lemma cast_ucase_upper : forall z, (z_cur z = None \/ exists x, z_cur z = Some (upper x)) -> cast_ucase upper z = z.
Proof.
  intros z H. destruct z as [cur qd eof com toks e]. unfold cast_ucase, cur_falsy, set_cur, cur_text. simpl in *.
  destruct H as [H|[x H]]; subst; [reflexivity|].
  destruct (is_nil (upper x)); [reflexivity|]. rewrite upper_idem. reflexivity.
Qed.

Ltac kw_ne := let H := fresh in intro H; vm_compute in H; discriminate H.

Lemma blocks_loop_agree : forall fuel k g tls reg,
  wf T tlf tls reg None -> SetsOk (z_toks (k_z k)) ->
  trel tls (fst (YBL fuel k g)) (snd (YBL fuel k g)) (RBL fuel (mkRs k g tls reg)).
Proof.
  induction fuel as [|f IH]; intros k g tls reg W N; [simpl; reflexivity|].
  cbn [r_blocks_loop y_blocks_loop r_k r_g r_tls r_tlreg].
  destruct (negb (z_eof (k_z k))).
  2:{ simpl. exists tls, reg, None. repeat split; auto. rewrite app_nil_r. reflexivity. }
  rewrite ybind_ylift.
  destruct (block_head upper (S f) k) as [k4|e|] eqn:EH; cbn [bind]; try (simpl; reflexivity).
  destruct (block_head_up _ _ _ EH) as [S4 UP].
  assert (N4 : SetsOk (z_toks (k_z k4))) by (eapply SetsOk_suf; eassumption).
  set (token := z_cur (k_z k4)) in *.
  destruct (otok_is token K_TAXA) eqn:ETAXA.
  { rewrite ybind_ylift.
    destruct (parse_taxa_block lower upper c (S f) k4 g) as [[k5 g5]|e|] eqn:E5; cbn [bind]; try (simpl; reflexivity).
    apply IH; [assumption|].
    apply parse_taxa_block_suf in E5. eapply SetsOk_suf; eassumption. }
  destruct (otok_is token K_CHARACTERS || otok_is token K_DATA) eqn:ECH.
  { (* the reader's exclude_chars branch = the iterator's unknown-block branch *)
    assert (ETR : otok_is token K_TREES = false).
    { apply orb_true_iff in ECH. destruct ECH as [X|X];
        [apply (otok_is_other token K_CHARACTERS K_TREES) | apply (otok_is_other token K_DATA K_TREES)]; auto; kw_ne. }
    assert (EBG : otok_is token K_BEGIN = false).
    { apply orb_true_iff in ECH. destruct ECH as [X|X];
        [apply (otok_is_other token K_CHARACTERS K_BEGIN) | apply (otok_is_other token K_DATA K_BEGIN)]; auto; kw_ne. }
    rewrite ETR, EBG. rewrite cast_ucase_upper by assumption.
    assert (ET2 : tok_is (k_z k4) K_CHARACTERS || tok_is (k_z k4) K_DATA = true).
    { unfold tok_is. unfold token, otok_is in ECH. exact ECH. }
    rewrite ET2. cbn [negb]. rewrite ybind_ylift.
    replace (set_z k4 (k_z k4)) with k4 by (destruct k4; reflexivity).
    fold token.
    destruct (zstep k4 (consume_to_end_of_block upper (S f) token)) as [k5|e|] eqn:E5; cbn [bind]; try (simpl; reflexivity).
    apply IH; [assumption|].
    apply zstep_suf in E5; [|apply consume_suf]. eapply SetsOk_suf; eassumption. }
  destruct (otok_is token K_TREES) eqn:ETR.
  { pose proof (trees_block_agree (S f) k4 g tls reg W) as HB.
    destruct (YTB (S f) k4 g) as [out1 r1] eqn:EY. simpl fst in HB. simpl snd in HB. unfold ybind.
    destruct r1 as [[k5 g5]|e|]; simpl in HB.
    - destruct HB as [tls' [reg' [tb' [E [W' F]]]]]. rewrite E. cbn [bind].
      apply y_trees_block_suf in EY.
      assert (N5 : SetsOk (z_toks (k_z k5))) by (eapply SetsOk_suf; eassumption).
      specialize (IH k5 g5 tls' reg' (wf_forget T tlf _ _ _ W') N5).
      destruct (YBL f k5 g5) as [out2 r2]. simpl fst in *. simpl snd in *.
      eapply trees_rel_app; eassumption.
    - rewrite HB. reflexivity.
    - rewrite HB. reflexivity. }
  destruct (is_sets_kw token) eqn:ES.
  { (* a SETS / ASSUMPTIONS / CODONS block *)
    assert (EBG : otok_is token K_BEGIN = false).
    { unfold is_sets_kw in ES. apply orb_true_iff in ES. destruct ES as [ES|ES]; [apply orb_true_iff in ES; destruct ES as [ES|ES]|];
        [apply (otok_is_other token K_SETS K_BEGIN) | apply (otok_is_other token K_ASSUMPTIONS K_BEGIN)
         | apply (otok_is_other token K_CODONS K_BEGIN)]; auto; kw_ne. }
    destruct N as [VS|NS].
    - (* repaired form: both skip it *)
      rewrite EBG. rewrite VS at 1. cbv iota. rewrite ybind_ylift.
      destruct (zstep k4 (consume_to_end_of_block upper (S f) token)) as [k5|e|] eqn:E5; cbn [bind]; try (simpl; reflexivity).
      apply IH; [assumption|].
      apply zstep_suf in E5; [|apply consume_suf]. eapply SetsOk_suf; eassumption.
    - (* form as found: the document has no such block *)
      exfalso. destruct (block_head_props _ _ _ EH NS) as [_ [X _]]. fold token in X. congruence. }
  destruct (otok_is token K_BEGIN); [simpl; reflexivity|].
  rewrite ybind_ylift.
  destruct (zstep k4 (consume_to_end_of_block upper (S f) token)) as [k5|e|] eqn:E5; cbn [bind]; try (simpl; reflexivity).
  apply IH; [assumption|].
  apply zstep_suf in E5; [|apply consume_suf]. eapply SetsOk_suf; eassumption.
Qed.

Lemma stream_agree : forall fuel k g tls reg,
  wf T tlf tls reg None -> SetsOk (z_toks (k_z k)) ->
  trel tls (fst (YST fuel k g)) (snd (YST fuel k g)) (RST fuel (mkRs k g tls reg)).
Proof.
  intros fuel k g tls reg W N. unfold y_items_from_stream, r_parse_nexus_stream. cbn [r_k r_g r_tls r_tlreg].
  rewrite ybind_ylift.
  destruct (zstep k require_next_token) as [k1|e|] eqn:E1; cbn [bind]; try (simpl; reflexivity).
  destruct (z_cur (k_z k1)) as [t|]; [|simpl; reflexivity].
  destruct (negb (str_eqb (upper t) K_NEXUS)); [simpl; reflexivity|].
  apply blocks_loop_agree; [assumption|].
  apply zstep_suf in E1; [|apply require_next_token_suf]. eapply SetsOk_suf; eassumption.
Qed.

End Blocks.
