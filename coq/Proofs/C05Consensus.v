(* C05: consensus split selection: greedy specification, majority rule *)
From Coq Require Import ZArith QArith Qabs Qreduction List Bool Lia Lqa Permutation Sorted Setoid Morphisms.
From DV Require Import Model.PyPrims Gen.BitFns Gen.Consts Model.C05Model Model.C05Spec Proofs.C05Lists Proofs.C05Freq.
Import ListNotations.
Open Scope Z_scope.

(* ---------------------------------------------------------------- compatibility is symmetric *)

Ltac bits3 f a b :=
  apply Z.bits_inj'; intros n Hn;
  repeat (rewrite Z.land_spec || rewrite Z.lxor_spec);
  destruct (Z.testbit f n), (Z.testbit a n), (Z.testbit b n); reflexivity.

Lemma bit_id1 f a b :
  Z.land (Z.lxor f (Z.land f a)) (Z.land f b) = Z.land (Z.land f b) (Z.lxor (Z.land f b) (Z.land f a)).
Proof. bits3 f a b. Qed.

Lemma bit_id2 f a b :
  Z.land (Z.lxor f (Z.land f a)) (Z.lxor (Z.land f a) (Z.land f b))
  = Z.land (Z.land f b) (Z.lxor (Z.land f b) (Z.land f a)).
Proof. bits3 f a b. Qed.

Lemma compat_sym all a b : all <> 0 -> compat all a b = compat all b a.
Proof.
  intro NZ. unfold compat, py_is_compatible_bitmasks.
  apply Z.eqb_neq in NZ. rewrite NZ. cbv beta iota zeta. simpl negb. cbv beta iota zeta.
  rewrite (bit_id1 all a b), (bit_id2 all a b), (bit_id1 all b a), (bit_id2 all b a).
  rewrite (Z.land_comm (Z.land all b) (Z.land all a)).
  destruct (0 =? Z.land (Z.land all a) (Z.land all b));
    destruct (0 =? Z.land (Z.land all a) (Z.lxor (Z.land all a) (Z.land all b)));
    destruct (0 =? Z.land (Z.land all b) (Z.lxor (Z.land all b) (Z.land all a))); reflexivity.
Qed.

(* ---------------------------------------------------------------- the (freq, mask) order *)

Definition pair_ge (a b : Q * Z) : Prop :=
  (fst b < fst a)%Q \/ ((fst a == fst b)%Q /\ snd b <= snd a).

Lemma pair_geb_iff a b : pair_geb a b = true <-> pair_ge a b.
Proof.
  unfold pair_geb, pair_ge. rewrite orb_true_iff, andb_true_iff, qlt_bool_iff, Qeq_bool_iff, Z.leb_le.
  tauto.
Qed.

Lemma pair_geb_total a b : pair_geb a b = true \/ pair_geb b a = true.
Proof.
  rewrite !pair_geb_iff. unfold pair_ge. destruct a as [fa sa], b as [fb sb]. simpl.
  destruct (Qlt_le_dec fb fa) as [L|L]; [now left; left|].
  destruct (Qlt_le_dec fa fb) as [L2|L2]; [now right; left|].
  assert (E : (fa == fb)%Q) by lra.
  destruct (Z.le_ge_cases sb sa); [left | right]; right; split; try assumption; try lra.
Qed.

Lemma pair_geb_trans a b c : pair_geb a b = true -> pair_geb b c = true -> pair_geb a c = true.
Proof.
  rewrite !pair_geb_iff. unfold pair_ge. destruct a as [fa sa], b as [fb sb], c as [fc sc]. simpl.
  intros [L1 | [E1 Z1]] [L2 | [E2 Z2]].
  - left. lra.
  - left. lra.
  - left. lra.
  - right. split; [lra | lia].
Qed.

Lemma candidates_in mf tbl f s :
  In (f, s) (candidates mf tbl) <-> In (s, f) tbl /\ passes mf f = true.
Proof.
  unfold candidates, consensus_order, consensus_sort_descending.
  rewrite sort_by_in, in_map_iff. split.
  - intros [[s' f'] [E I]]. simpl in E. inversion E. subst. apply filter_In in I. simpl in I. exact I.
  - intros [I P]. exists (s, f). split; [reflexivity|]. apply filter_In. simpl. tauto.
Qed.

Lemma candidates_sorted mf tbl :
  StronglySorted (fun x y => pair_geb x y = true) (candidates mf tbl).
Proof.
  unfold candidates, consensus_order, consensus_sort_descending.
  apply sort_by_strongly_sorted; [apply pair_geb_total | apply pair_geb_trans].
Qed.

(* earlier in the candidate list = at least as large in the (freq, mask) order *)
Lemma sorted_prefix_ge {A} (R : A -> A -> Prop) pre x post y :
  StronglySorted R (pre ++ x :: post) -> In y pre -> R y x.
Proof.
  induction pre as [|z pre IH]; simpl; intros S I; [tauto|].
  inversion S as [|? ? S' F]. subst. destruct I as [I|I].
  - subst. rewrite Forall_forall in F. apply F. apply in_or_app. right. now left.
  - now apply IH.
Qed.

(* ---------------------------------------------------------------- greedy insertion *)

Lemma greedy_app all l1 : forall acc l2, greedy all acc (l1 ++ l2) = greedy all (greedy all acc l1) l2.
Proof.
  induction l1 as [|c r IH]; intros acc l2; simpl; [reflexivity|].
  destruct (is_single c || zmem c acc); [apply IH|].
  destruct (forallb (compat all c) acc); apply IH.
Qed.

Lemma greedy_incl all cs : forall acc a, In a acc -> In a (greedy all acc cs).
Proof.
  induction cs as [|c r IH]; intros acc a I; simpl; [assumption|].
  destruct (is_single c || zmem c acc); [now apply IH|].
  destruct (forallb (compat all c) acc); apply IH; [apply in_or_app; now left | assumption].
Qed.

Lemma greedy_sub all cs : forall acc c, In c (greedy all acc cs) ->
  In c acc \/ (In c cs /\ is_single c = false).
Proof.
  induction cs as [|x r IH]; intros acc c I; simpl in *; [now left|].
  destruct (is_single x || zmem x acc) eqn:E.
  - destruct (IH _ _ I) as [H | [H1 H2]]; [now left | right; split; [now right | assumption]].
  - apply orb_false_iff in E. destruct E as [E1 E2].
    destruct (forallb (compat all x) acc).
    + destruct (IH _ _ I) as [H | [H1 H2]].
      * apply in_app_or in H. destruct H as [H | [H | []]]; [now left|]. subst.
        right. split; [now left | assumption].
      * right. split; [now right | assumption].
    + destruct (IH _ _ I) as [H | [H1 H2]]; [now left | right; split; [now right | assumption]].
Qed.

Lemma fop_snoc {A} (R : A -> A -> Prop) l c :
  ForallOrdPairs R l -> (forall a, In a l -> R a c) -> ForallOrdPairs R (l ++ [c]).
Proof.
  induction 1 as [|a l F H IH]; intro K; simpl.
  - constructor; constructor.
  - constructor.
    + apply Forall_app. split; [assumption|]. constructor; [apply K; now left | constructor].
    + apply IH. intros a' I. apply K. now right.
Qed.

Lemma greedy_pairwise all cs : forall acc,
  ForallOrdPairs (fun a b => compat all b a = true) acc ->
  ForallOrdPairs (fun a b => compat all b a = true) (greedy all acc cs).
Proof.
  induction cs as [|c r IH]; intros acc F; simpl; [assumption|].
  destruct (is_single c || zmem c acc); [now apply IH|].
  destruct (forallb (compat all c) acc) eqn:E; [|now apply IH].
  apply IH. apply fop_snoc; [assumption|]. intros a I.
  rewrite forallb_forall in E. now apply E.
Qed.

Lemma nodup_snoc {A} (l : list A) x : NoDup l -> ~ In x l -> NoDup (l ++ [x]).
Proof.
  intros ND NI. apply NoDup_rev in ND. rewrite <- (rev_involutive (l ++ [x])).
  apply NoDup_rev. rewrite rev_app_distr. simpl. constructor; [|assumption].
  intro I. apply NI. now apply in_rev.
Qed.

Lemma greedy_nodup all cs : forall acc, NoDup acc -> NoDup (greedy all acc cs).
Proof.
  induction cs as [|c r IH]; intros acc ND; simpl; [assumption|].
  destruct (is_single c || zmem c acc) eqn:E; [now apply IH|].
  apply orb_false_iff in E. destruct E as [_ E]. apply zmem_false in E.
  destruct (forallb (compat all c) acc); [|now apply IH].
  apply IH. now apply nodup_snoc.
Qed.

Lemma forallb_false_ex {A} (f : A -> bool) l : forallb f l = false -> exists x, In x l /\ f x = false.
Proof.
  induction l as [|x r IH]; simpl; [discriminate|].
  destruct (f x) eqn:E; simpl.
  - intro H. destruct (IH H) as [y [I F]]. exists y. split; [now right | assumption].
  - intros _. exists x. split; [now left | assumption].
Qed.

(* maximality with the order clause: a candidate that is not accepted is a leaf mask, or
   conflicts with a split accepted BEFORE it was tried *)
Lemma greedy_maximal all acc pre c post :
  In c (greedy all acc (pre ++ c :: post)) \/ is_single c = true \/
  exists a, In a (greedy all acc pre) /\ compat all c a = false.
Proof.
  rewrite greedy_app. set (acc' := greedy all acc pre). simpl.
  destruct (is_single c) eqn:S; [now right; left|]. simpl.
  destruct (zmem c acc') eqn:M.
  - left. apply greedy_incl. now apply zmem_in.
  - destruct (forallb (compat all c) acc') eqn:F.
    + left. apply greedy_incl. apply in_or_app. right. now left.
    + right. right. apply forallb_false_ex in F. exact F.
Qed.

(* if everything is pairwise compatible, everything (that is not a leaf mask) is accepted *)
Lemma greedy_all_accepted all cs : forall acc,
  (forall a c, In a acc -> In c cs -> compat all c a = true) ->
  (forall c1 c2, In c1 cs -> In c2 cs -> compat all c1 c2 = true) ->
  forall c, In c cs -> is_single c = false -> In c (greedy all acc cs).
Proof.
  induction cs as [|x r IH]; intros acc H1 H2 c I S; simpl in *; [tauto|].
  assert (H2r : forall c1 c2, In c1 r -> In c2 r -> compat all c1 c2 = true)
    by (intros; apply H2; now right).
  destruct (is_single x || zmem x acc) eqn:E.
  - destruct I as [I|I].
    + subst. rewrite S in E. simpl in E. apply greedy_incl. now apply zmem_in.
    + apply IH; try assumption. intros a c' Ia Ic. apply H1; [assumption | now right].
  - assert (F : forallb (compat all x) acc = true).
    { apply forallb_forall. intros a Ia. apply H1; [assumption | now left]. }
    rewrite F. destruct I as [I|I].
    + subst. apply greedy_incl. apply in_or_app. right. now left.
    + apply IH; try assumption. intros a c' Ia Ic. apply in_app_or in Ia. destruct Ia as [Ia | [Ia | []]].
      * apply H1; [assumption | now right].
      * subst. apply H2; [now right | now left].
Qed.

Lemma fsb_prepare_in all rooted ss c :
  In c (fsb_prepare all rooted ss) <->
  exists s, In s ss /\ fsb_nontrivial all (Z.land s all) = true /\ c = fsb_denorm all rooted s.
Proof.
  unfold fsb_prepare. rewrite in_flat_map. split.
  - intros [s [I H]]. destruct (fsb_nontrivial all (Z.land s all)) eqn:E; [|destruct H].
    destruct H as [H | []]. exists s. repeat split; [assumption | assumption | now symmetry].
  - intros [s [I [N E]]]. exists s. split; [assumption|]. rewrite N. left. now symmetry.
Qed.

Lemma fsb_prepare_app all rooted a b :
  fsb_prepare all rooted (a ++ b) = fsb_prepare all rooted a ++ fsb_prepare all rooted b.
Proof. unfold fsb_prepare. apply flat_map_app. Qed.

(* ---------------------------------------------------------------- consensus, unfolded *)

Lemma consensus_unfold d all bits mf rarg :
  consensus d all bits mf rarg =
  (fst (get_freqs d),
   (candidates mf (snd (get_freqs d)),
    greedy all [] (fsb_prepare all (truthy (resolve_rooting d rarg))
                               (map snd (candidates mf (snd (get_freqs d))))),
    fsb_tree all bits (truthy (resolve_rooting d rarg)) (map snd (candidates mf (snd (get_freqs d)))),
    resolve_rooting d rarg)).
Proof. unfold consensus. destruct (get_freqs d). reflexivity. Qed.

Lemma passes_ge th f : almost_one th = false -> (passes (Some th) f = true <-> (th <= f)%Q).
Proof.
  intro A. unfold passes, threshold_test_is_ge. rewrite A. simpl. rewrite orb_false_r.
  apply Qle_bool_iff.
Qed.

Lemma passes_cases th f :
  passes (Some th) f = true <-> ((th <= f)%Q \/ (almost_one th = true /\ almost_one f = true)).
Proof.
  unfold passes, threshold_test_is_ge. rewrite orb_true_iff, andb_true_iff, Qle_bool_iff. tauto.
Qed.

Theorem greedy_consensus_spec_l d all bits th rarg d' cands acc tr r :
  all <> 0 ->
  consensus d all bits (Some th) rarg = (d', (cands, acc, tr, r)) ->
  (forall f s, In (f, s) cands <-> In (s, f) (snd (get_freqs d)) /\ passes (Some th) f = true) /\
  StronglySorted (fun x y => pair_geb x y = true) cands /\
  (forall c, In c acc -> exists f s, In (f, s) cands /\ fsb_nontrivial all (Z.land s all) = true
                                     /\ c = fsb_denorm all (truthy r) s) /\
  NoDup acc /\
  (forall a b, In a acc -> In b acc -> a <> b -> compat all a b = true) /\
  (forall pre f s post, cands = pre ++ (f, s) :: post ->
     fsb_nontrivial all (Z.land s all) = true ->
     let c := fsb_denorm all (truthy r) s in
     In c acc \/ is_single c = true \/
     exists f' s', In (f', s') pre /\ pair_geb (f', s') (f, s) = true /\
                   In (fsb_denorm all (truthy r) s') acc /\
                   compat all c (fsb_denorm all (truthy r) s') = false).
Proof.
  intros NZ E. rewrite consensus_unfold in E. inversion E. subst d' cands acc tr r. clear E.
  set (tbl := snd (get_freqs d)). set (rt := truthy (resolve_rooting d rarg)).
  set (cands := candidates (Some th) tbl).
  split; [intros; apply candidates_in|].
  split; [apply candidates_sorted|].
  split.
  { intros c I. apply greedy_sub in I. destruct I as [[] | [I _]].
    apply fsb_prepare_in in I. destruct I as [s [I [N Ec]]].
    apply in_map_iff in I. destruct I as [[f s'] [Es I]]. simpl in Es. subst s'.
    exists f, s. repeat split; assumption. }
  split; [apply greedy_nodup; constructor|].
  split.
  { intros a b Ia Ib N.
    pose proof (greedy_pairwise all (fsb_prepare all rt (map snd cands)) [] (FOP_nil _)) as F.
    destruct (ForallOrdPairs_In F a b Ia Ib) as [X | [X | X]].
    - contradiction.
    - rewrite compat_sym by assumption. exact X.
    - exact X. }
  intros pre f s post Ec N c.
  fold cands in Ec. rewrite Ec, map_app, fsb_prepare_app. simpl map.
  change ((s :: map snd post)) with ([s] ++ map snd post). rewrite fsb_prepare_app.
  assert (P1 : fsb_prepare all rt [s] = [c]).
  { unfold fsb_prepare. simpl. rewrite N. reflexivity. }
  rewrite P1. simpl app.
  destruct (greedy_maximal all [] (fsb_prepare all rt (map snd pre)) c (fsb_prepare all rt (map snd post)))
    as [H | [H | [a [Ia Ca]]]]; [now left | now right; left | right; right].
  pose proof Ia as Ia'. apply greedy_sub in Ia'. destruct Ia' as [[] | [Ia' _]].
  apply fsb_prepare_in in Ia'. destruct Ia' as [s' [Is' [_ Ea]]].
  apply in_map_iff in Is'. destruct Is' as [[f' s''] [Es Ip]]. simpl in Es. subst s''.
  exists f', s'. split; [assumption|]. split.
  - pose proof (candidates_sorted (Some th) tbl) as S. fold cands in S. rewrite Ec in S.
    apply (sorted_prefix_ge _ _ _ _ _ S Ip).
  - subst a. split; [|assumption].
    rewrite greedy_app. now apply greedy_incl.
Qed.

(* ---------------------------------------------------------------- majority *)

Lemma weight_containing_cons c s t r :
  weight_containing c s (t :: r) =
  if contains_split s t then (weight_to_use c t + weight_containing c s r)%Q else weight_containing c s r.
Proof. unfold weight_containing. simpl. destruct (contains_split s t); reflexivity. Qed.

Lemma two_majorities_share c ts s1 s2 :
  (forall t, In t ts -> (0 <= weight_to_use c t)%Q) ->
  (total_weight c ts < weight_containing c s1 ts + weight_containing c s2 ts)%Q ->
  exists t, In t ts /\ contains_split s1 t = true /\ contains_split s2 t = true.
Proof.
  induction ts as [|t r IH]; intros W L.
  - unfold total_weight, weight_containing in L. simpl in L. lra.
  - destruct (contains_split s1 t) eqn:C1; destruct (contains_split s2 t) eqn:C2;
      try (exists t; repeat split; [now left | assumption | assumption]);
      (assert (W0 : (0 <= weight_to_use c t)%Q) by (apply W; now left);
       assert (L' : (total_weight c r < weight_containing c s1 r + weight_containing c s2 r)%Q)
         by (rewrite !weight_containing_cons, C1, C2 in L; unfold total_weight in *; simpl in L; lra);
       destruct (IH (fun t' I => W t' (or_intror I)) L') as [t' [I [A B]]];
       exists t'; repeat split; [now right | assumption | assumption]).
Qed.

Lemma weight_containing_pos_ex c s ts :
  (0 < weight_containing c s ts)%Q -> exists t, In t ts /\ In s (splits_of t).
Proof.
  induction ts as [|t r IH]; intro P.
  - unfold weight_containing in P. simpl in P. lra.
  - rewrite weight_containing_cons in P. destruct (contains_split s t) eqn:C.
    + exists t. split; [now left | now apply zmem_in].
    + destruct (IH P) as [t' [I J]]. exists t'. split; [now right | assumption].
Qed.

Lemma weight_containing_nonneg c s ts :
  (forall t, In t ts -> (0 <= weight_to_use c t)%Q) -> (0 <= weight_containing c s ts)%Q.
Proof.
  intro W. unfold weight_containing. apply qsum_nonneg. intros x I.
  apply in_map_iff in I. destruct I as [t [E I]]. subst. apply W. apply filter_In in I. tauto.
Qed.

Lemma exact_freq_pos_total c ts s : (0 < total_weight c ts)%Q ->
  (exact_freq c ts s == weight_containing c s ts / total_weight c ts)%Q.
Proof.
  intro P. unfold exact_freq. destruct (Qeq_bool (total_weight c ts) 0) eqn:E; [|reflexivity].
  apply Qeq_bool_iff in E. lra.
Qed.

Lemma div_gt_half a b : (0 < b)%Q -> ((1#2) < a / b)%Q -> (b * (1#2) < a)%Q.
Proof.
  intros P L. apply (Qmult_lt_compat_r _ _ b) in L; [|assumption].
  assert (E : (a / b * b == a)%Q) by (field; lra). rewrite E in L. lra.
Qed.

Lemma div_ge a b th : (0 < b)%Q -> (th <= a / b)%Q -> (th * b <= a)%Q.
Proof.
  intros P L. apply (Qmult_le_compat_r _ _ b) in L; [|lra].
  assert (E : (a / b * b == a)%Q) by (field; lra). rewrite E in L. exact L.
Qed.

(* two splits of weighted frequency > 1/2 occur together in some tree *)
Theorem majority_share_l c ts s1 s2 :
  (forall t, In t ts -> (0 <= weight_to_use c t)%Q) ->
  (0 < total_weight c ts)%Q ->
  ((1#2) < exact_freq c ts s1)%Q -> ((1#2) < exact_freq c ts s2)%Q ->
  exists t, In t ts /\ In s1 (splits_of t) /\ In s2 (splits_of t).
Proof.
  intros W P F1 F2. rewrite exact_freq_pos_total in F1, F2 by assumption.
  apply div_gt_half in F1; [|assumption]. apply div_gt_half in F2; [|assumption].
  destruct (two_majorities_share c ts s1 s2 W) as [t [I [A B]]]; [lra|].
  exists t. repeat split; [assumption | now apply zmem_in | now apply zmem_in].
Qed.

Lemma tree_compatible_pair all rooted t s1 s2 :
  tree_compatible all rooted t = true -> In s1 (splits_of t) -> In s2 (splits_of t) ->
  compat all (fsb_denorm all rooted s1) (fsb_denorm all rooted s2) = true.
Proof.
  unfold tree_compatible, splits_of. intros H I1 I2.
  rewrite forallb_forall in H.
  assert (J1 : In (fsb_denorm all rooted s1) (map (fun r => fsb_denorm all rooted (r_split r)) (t_recs t))).
  { apply in_map_iff in I1. destruct I1 as [r [E I]]. apply in_map_iff. exists r. split; [now rewrite E | assumption]. }
  assert (J2 : In (fsb_denorm all rooted s2) (map (fun r => fsb_denorm all rooted (r_split r)) (t_recs t))).
  { apply in_map_iff in I2. destruct I2 as [r [E I]]. apply in_map_iff. exists r. split; [now rewrite E | assumption]. }
  specialize (H _ J1). rewrite forallb_forall in H. now apply H.
Qed.

Theorem majority_compatible_l c ts all rooted s1 s2 :
  (forall t, In t ts -> (0 <= weight_to_use c t)%Q) ->
  (0 < total_weight c ts)%Q ->
  (forall t, In t ts -> tree_compatible all rooted t = true) ->
  ((1#2) < exact_freq c ts s1)%Q -> ((1#2) < exact_freq c ts s2)%Q ->
  compat all (fsb_denorm all rooted s1) (fsb_denorm all rooted s2) = true.
Proof.
  intros W P TC F1 F2. destruct (majority_share_l c ts s1 s2 W P F1 F2) as [t [I [A B]]].
  eapply tree_compatible_pair; [apply TC; exact I | assumption | assumption].
Qed.

Lemma keys_freq_table d : keys (freq_table d) = keys (counts d).
Proof. unfold freq_table. destruct (total d =? 0); unfold keys; rewrite map_map; reflexivity. Qed.

Lemma counted_freqs_none c ts : freqs (count_trees c sd_empty ts) = None.
Proof.
  assert (X : forall ts' d0, freqs d0 = None -> freqs (count_trees c d0 ts') = None).
  { induction ts' as [|t r IH]; intros d0 E; simpl; [assumption|].
    unfold count_trees in *. simpl. apply IH.
    destruct (count_tree_fields c d0 t) as [_ [_ [_ [F4 _]]]]. now rewrite F4. }
  now apply X.
Qed.

Lemma counted_get_freqs c ts :
  snd (get_freqs (count_trees c sd_empty ts)) = freq_table (count_trees c sd_empty ts).
Proof. unfold get_freqs. rewrite counted_freqs_none. reflexivity. Qed.

(* the table after counting: entry for s iff some tree has s; its value is the exact frequency *)
Lemma counted_table c ts s f :
  (forall t, In t ts -> NoDup (splits_of t)) ->
  In (s, f) (snd (get_freqs (count_trees c sd_empty ts))) ->
  (f == exact_freq c ts s)%Q /\ exists t, In t ts /\ In s (splits_of t).
Proof.
  intros ND I. pose proof (rep_counted c ts) as R.
  rewrite counted_get_freqs in I.
  assert (G : aget s (freq_table (count_trees c sd_empty ts)) = Some f).
  { apply in_aget_nodup; [rewrite keys_freq_table; apply (rep_nodup _ _ _ R) | assumption]. }
  split.
  - rewrite <- exact_freq_m_nodup by assumption.
    rewrite <- (freq_table_val c _ ts s R). unfold aget_d. rewrite G. reflexivity.
  - apply (rep_keys _ _ _ R). rewrite <- keys_freq_table. unfold keys.
    apply in_map_iff. exists (s, f). split; [reflexivity | assumption].
Qed.

Lemma counted_table_has c ts s :
  (forall t, In t ts -> NoDup (splits_of t)) ->
  (exists t, In t ts /\ In s (splits_of t)) ->
  exists f, In (s, f) (snd (get_freqs (count_trees c sd_empty ts))) /\ (f == exact_freq c ts s)%Q.
Proof.
  intros ND X. pose proof (rep_counted c ts) as R.
  apply (rep_keys _ _ _ R) in X. rewrite <- keys_freq_table in X.
  destruct (aget s (freq_table (count_trees c sd_empty ts))) as [f|] eqn:G.
  - exists f. split.
    + rewrite counted_get_freqs. now apply aget_some_in.
    + rewrite <- exact_freq_m_nodup by assumption.
      rewrite <- (freq_table_val c _ ts s R). unfold aget_d. rewrite G. reflexivity.
  - apply aget_none_iff in G. contradiction.
Qed.

Theorem majority_consensus_exact_l c ts all bits th rarg d' cands acc tr r :
  all <> 0 ->
  (forall t, In t ts -> NoDup (splits_of t)) ->
  (forall t, In t ts -> (0 <= weight_to_use c t)%Q) ->
  (0 < total_weight c ts)%Q ->
  ((1#2) < th)%Q -> almost_one th = false ->
  consensus (count_trees c sd_empty ts) all bits (Some th) rarg = (d', (cands, acc, tr, r)) ->
  (forall t, In t ts -> tree_compatible all (truthy r) t = true) ->
  forall m, In m acc <->
            exists s, m = fsb_denorm all (truthy r) s /\ fsb_nontrivial all (Z.land s all) = true
                      /\ is_single m = false /\ (th <= exact_freq c ts s)%Q.
Proof.
  intros NZ ND W P TH AO E TC m.
  rewrite consensus_unfold in E. inversion E. subst d' cands acc tr r. clear E.
  set (d := count_trees c sd_empty ts) in *.
  set (rt := truthy (resolve_rooting d rarg)) in *.
  set (cands := candidates (Some th) (snd (get_freqs d))).
  split.
  - intro I. apply greedy_sub in I. destruct I as [[] | [I S]].
    apply fsb_prepare_in in I. destruct I as [s [I [N Em]]].
    apply in_map_iff in I. destruct I as [[f s'] [Es I]]. simpl in Es. subst s'.
    apply candidates_in in I. destruct I as [I Pf].
    destruct (counted_table c ts s f ND I) as [Ef _].
    exists s. repeat split; try assumption.
    apply passes_ge in Pf; [|assumption]. rewrite <- Ef. exact Pf.
  - intros [s [Em [N [S F]]]].
    assert (Key : forall s0, (th <= exact_freq c ts s0)%Q ->
                             exists f, In (f, s0) cands /\ (f == exact_freq c ts s0)%Q).
    { intros s0 F0.
      assert (X : exists t, In t ts /\ In s0 (splits_of t)).
      { apply (weight_containing_pos_ex c). rewrite exact_freq_pos_total in F0 by assumption.
        apply div_ge in F0; [|assumption].
        assert (0 < th * total_weight c ts)%Q by (apply Qmult_lt_0_compat; lra). lra. }
      destruct (counted_table_has c ts s0 ND X) as [f [I Ef]].
      exists f. split; [|assumption]. apply candidates_in. split; [assumption|].
      apply passes_ge; [assumption|]. rewrite Ef. exact F0. }
    destruct (Key s F) as [f [I Ef]].
    apply greedy_all_accepted; try assumption.
    + intros a c0 [].
    + intros c1 c2 I1 I2.
      apply fsb_prepare_in in I1. destruct I1 as [s1 [I1 [_ E1]]].
      apply fsb_prepare_in in I2. destruct I2 as [s2 [I2 [_ E2]]].
      apply in_map_iff in I1. destruct I1 as [[f1 s1'] [Es1 I1]]. simpl in Es1. subst s1'.
      apply in_map_iff in I2. destruct I2 as [[f2 s2'] [Es2 I2]]. simpl in Es2. subst s2'.
      apply candidates_in in I1. destruct I1 as [I1 P1].
      apply candidates_in in I2. destruct I2 as [I2 P2].
      destruct (counted_table c ts s1 f1 ND I1) as [Ef1 _].
      destruct (counted_table c ts s2 f2 ND I2) as [Ef2 _].
      apply passes_ge in P1; [|assumption]. apply passes_ge in P2; [|assumption].
      subst c1 c2. apply (majority_compatible_l c ts all rt s1 s2 W P TC).
      * rewrite <- Ef1. lra.
      * rewrite <- Ef2. lra.
    + apply fsb_prepare_in. exists s. repeat split; try assumption.
      apply in_map_iff. exists (f, s). split; [reflexivity | assumption].
Qed.
