(* C13 (wave 3, translator tie): the two block loops of NexusReader as compiled from the current
   source (Gen/Routes.v: g_parse_trees_block, g_parse_nexus_stream) are the model's r_parse_trees_block
   and r_parse_nexus_stream (with both reader variant flags at their current value, true). *)
From Coq Require Import ZArith List Bool Lia.
From Coq Require String. Import String.StringSyntax.
From DV Require Import Model.PyPrims Model.C13Model Model.C13GenPrims Gen.Routes Proofs.C13GenStmts
  Proofs.C13GenObjects Proofs.C13GenWf Proofs.C13GenTaxa.
Import ListNotations.

Section S.
Variable T : Type.
Variables lower upper : str -> str.
Variable parse_tree : mapper -> tz -> res (option T * mapper * tz).
Variable set_label : T -> option str -> T.
Variable add_comments : T -> list str -> T.
Variable c : nscfg.
Variable tlf : tl_factory.
Variable et : bool.

Local Arguments fetch : simpl never.
Local Arguments next_token : simpl never.
Local Arguments require_next_token : simpl never.
Local Arguments next_token_ucase : simpl never.
Local Arguments require_next_token_ucase : simpl never.
Local Arguments skip_to_semicolon : simpl never.
Local Arguments cast_ucase : simpl never.
Local Arguments str_eqb : simpl never.
Local Arguments s2z : simpl never.

Notation gst := (gst T).
Notation PTS := (parse_tree_stmt T parse_tree set_label add_comments).
Notation GTS := (g_parse_tree_statement T lower parse_tree set_label add_comments).

Ltac sim := unfold st_z, st_set_z, st_set_k, st_set_kg; cbn [bind r_k r_g r_tls r_tlreg k_z fst snd].

Lemma o_truthy_falsy : forall z, negb (o_truthy (z_cur z)) = cur_falsy z.
Proof. intros z. unfold o_truthy, cur_falsy. rewrite negb_involutive. reflexivity. Qed.

(* ---- the `while True:` over consecutive TREE statements ---- *)
Lemma g_tree_loop_eq : forall g reg ns tb fuel k tls token m,
  g_parse_trees_block_loop2 T lower upper parse_tree set_label add_comments fuel (Some tb)
      (mkRs k g tls reg) token (Some (ns, m))
  = (do r <- r_tree_loop T upper parse_tree set_label add_comments fuel k tls ns tb m ;;
     let '(k', tls', m', tk) := r in
     Ok (mkRs k' g tls' reg, match tk with Some t => t | None => token end, Some (ns, m'))).
Proof.
  intros g reg ns tb; induction fuel as [|f IH]; intros k tls token m; [reflexivity|].
  cbn [g_parse_trees_block_loop2 r_tree_loop].
  rewrite g_parse_tree_statement_eq. sim.
  destruct (PTS m (k_z k)) as [[[t m1] z1]| |]; sim; try reflexivity.
  unfold ifc_accession. sim.
  unfold tk_is_eof, tk_current_token. sim.
  change (k_z (after_tree k ns m1 z1)) with z1.
  rewrite o_truthy_falsy.
  destruct (z_eof z1 || cur_falsy z1); [reflexivity|].
  unfold tk_cast_ucase. sim.
  change (k_z (after_tree k ns m1 z1)) with z1.
  change (o_eq (z_cur (cast_ucase upper z1)) (s2z "TREE")) with (tok_is (cast_ucase upper z1) K_TREE).
  destruct (negb (tok_is (cast_ucase upper z1) K_TREE)); [reflexivity|].
  apply IH.
Qed.

(* the mapper object carries the namespace it manages; in the trees block that is the local
   taxon_namespace *)
Definition map_ok (nsO : option nat) (mapO : option gmap) : Prop :=
  match mapO with Some (i, _) => nsO = Some i | None => True end.

Lemma guard_eq : forall z (token : option str),
  (negb (z_eof z) && negb (o_is_none token) && negb (o_eq token (s2z "END")) && negb (o_eq token (s2z "ENDBLOCK")))
  = loop_guard z token.
Proof.
  intros z token. unfold loop_guard, is_end. rewrite o_is_none_match, negb_orb.
  change (o_eq token (s2z "END")) with (otok_is token K_END).
  change (o_eq token (s2z "ENDBLOCK")) with (otok_is token K_ENDBLOCK).
  rewrite andb_assoc. reflexivity.
Qed.

(* `if taxon_namespace is None: taxon_namespace = self._get_taxon_namespace(link_title)` *)
Lemma get_ns_eq : forall fuel k g tls reg link nsO (X : Type) (K : gst * option nat -> res X) token mo title,
  (do r <- (if on_is_none nsO
            then do r5 <- g_get_taxon_namespace T upper c fuel (mkRs k g tls reg) link ;;
                 let '(ns, s) := r5 in Ok (s, ns)
            else Ok (mkRs k g tls reg, nsO)) ;; K r)
  = (do r <- loc_get_ns upper c k g (mkLoc token link nsO mo title) ;;
     let '(ns, k2, g2) := r in K (mkRs k2 g2 tls reg, Some ns)).
Proof.
  intros. unfold loc_get_ns. cbn [l_ns l_link].
  destruct nsO as [i|]; cbn [on_is_none]; [reflexivity|].
  rewrite g_get_taxon_namespace_eq. unfold ifc_get_taxon_namespace. sim.
  destruct (get_tns upper c k g link) as [[[i k2] g2]| |]; reflexivity.
Qed.

Notation wfr := (wfr T c).
Notation wfs := (wfs c).

Lemma g_trees_loop_eq : forall fuel (s : gst) token link nsO mapO tbO title,
  map_ok nsO mapO -> wfr s -> nsok (r_k s) nsO ->
  (do r <- g_parse_trees_block_loop1 T lower upper parse_tree set_label add_comments c tlf fuel s
             token link nsO mapO tbO title ;;
   Ok (fst (fst (fst (fst (fst (fst r)))))))
  = r_trees_loop T lower upper parse_tree set_label add_comments true c tlf fuel s
      (mkLoc token link nsO (option_map snd mapO) title) tbO.
Proof.
  induction fuel as [|f IH]; intros s token link nsO mapO tbO title MO WF NO; [reflexivity|].
  destruct s as [k g tls reg]. unfold C13GenWf.wfr in WF. cbn [r_k r_g] in WF, NO.
  cbn [g_parse_trees_block_loop1 r_trees_loop].
  unfold tk_is_eof. sim. rewrite guard_eq. cbn [l_token].
  destruct (loop_guard (k_z k) token); [|reflexivity].
  unfold tk_next_token_ucase, tk_lift, zstep. sim.
  destruct (next_token_ucase upper (k_z k)) as [z1| |]; sim; try reflexivity.
  assert (W1 : wfs (set_z k z1) g) by (apply (wfs_mono c k g); [exact WF | apply Nat.le_refl | reflexivity]).
  assert (N1 : nsok (set_z k z1) nsO) by exact NO.
  assert (WZ : forall kk gg z, wfs kk gg -> wfs (set_z kk z) gg)
    by (intros kk gg z0 Hw; apply (wfs_mono c kk gg); [exact Hw | apply Nat.le_refl | reflexivity]).
  change (k_z (set_z k z1)) with z1.
  change (o_eq (z_cur z1) (s2z "LINK")) with (otok_is (z_cur z1) K_LINK).
  change (o_eq (z_cur z1) (s2z "TITLE")) with (otok_is (z_cur z1) K_TITLE).
  change (o_eq (z_cur z1) (s2z "TRANSLATE")) with (otok_is (z_cur z1) K_TRANSLATE).
  change (o_eq (z_cur z1) (s2z "TREE")) with (otok_is (z_cur z1) K_TREE).
  change (o_eq (z_cur z1) (s2z "BEGIN")) with (otok_is (z_cur z1) K_BEGIN).
  destruct (otok_is (z_cur z1) K_LINK).
  { pose proof (g_parse_link_statement_eq T upper (S f) (mkRs (set_z k z1) g tls reg)) as L. revert L. sim.
    change (k_z (set_z k z1)) with z1.
    destruct (g_parse_link_statement T upper (S f) (mkRs (set_z k z1) g tls reg)) as [[l2 s']| |];
      destruct (parse_link upper true (S f) z1) as [[lt z2]| |]; sim; intros L; try discriminate L;
      try (injection L as ->; reflexivity); try reflexivity.
    injection L as -> ->. cbn [l_ns l_map l_title]. apply IH; [exact MO | apply WZ; exact W1 | exact N1]. }
  destruct (otok_is (z_cur z1) K_TITLE).
  { rewrite g_parse_title_statement_eq. sim. change (k_z (set_z k z1)) with z1.
    destruct (parse_title upper z1) as [[bt z2]| |]; sim; try reflexivity.
    cbn [l_ns l_map l_title l_link]. apply IH; [exact MO | apply WZ; exact W1 | exact N1]. }
  destruct (otok_is (z_cur z1) K_TRANSLATE).
  { match goal with |- (do r23 <- (do r22 <- (do r21 <- (do r7 <- ?G ;; @?K1 r7) ;; @?K2 r21) ;; @?K3 r22) ;; @?K4 r23) = _ =>
      transitivity (do r7 <- G ;; do r23 <- (do r22 <- (do r21 <- K1 r7 ;; K2 r21) ;; K3 r22) ;; K4 r23);
      [destruct G; reflexivity|] end.
    rewrite (get_ns_eq (S f) (set_z k z1) g tls reg link nsO _ _ token (option_map snd mapO) title).
    destruct (loc_get_ns upper c (set_z k z1) g (mkLoc token link nsO (option_map snd mapO) title))
      as [[[ns k2] g2]| |] eqn:GN; sim; try reflexivity.
    destruct (loc_get_ns_wf upper c (set_z k z1) g (mkLoc token link nsO (option_map snd mapO) title) ns k2 g2 W1 N1 GN) as [W2 [V2 _]].
    rewrite (g_parse_translate_eq_at T lower k2 g2 tls reg ns V2 (S f)).
    unfold ifc_parse_translate. sim. cbn [on_get].
    destruct (parse_translate lower (S f) k2 ns) as [[m k3]| |] eqn:PT; sim; try reflexivity.
    apply parse_translate_len in PT.
    cbn [l_link l_title]. apply (IH (mkRs k3 g2 tls reg) (Some []) link (Some ns) (Some (ns, m)) tbO title).
    - reflexivity.
    - apply (wfs_mono c k2 g2); [exact W2 | cbn [r_k]; rewrite PT; apply Nat.le_refl | reflexivity].
    - apply nsok_some. cbn [r_k]. rewrite PT. exact V2. }
  destruct (otok_is (z_cur z1) K_TREE).
  { match goal with |- (do r23 <- (do r22 <- (do r21 <- (do r20 <- (do r18 <- ?G ;; @?K1 r18) ;; @?K0 r20) ;; @?K2 r21) ;; @?K3 r22) ;; @?K4 r23) = _ =>
      transitivity (do r18 <- G ;; do r23 <- (do r22 <- (do r21 <- (do r20 <- K1 r18 ;; K0 r20) ;; K2 r21) ;; K3 r22) ;; K4 r23);
      [destruct G; reflexivity|] end.
    rewrite (get_ns_eq (S f) (set_z k z1) g tls reg link nsO _ _ token (option_map snd mapO) title).
    destruct (loc_get_ns upper c (set_z k z1) g (mkLoc token link nsO (option_map snd mapO) title))
      as [[[ns k2] g2]| |] eqn:GN; sim; try reflexivity.
    destruct (loc_get_ns_wf upper c (set_z k z1) g (mkLoc token link nsO (option_map snd mapO) title) ns k2 g2 W1 N1 GN) as [W2 [V2 _]].
    cbn [l_map l_title l_link].
    (* the mapper *)
    assert (MM : exists m, (mapO = None \/ mapO = Some (ns, m)) /\
       (match option_map snd mapO with Some m => m | None => new_mapper lower (ns_taxa_at k2 ns) true end) = m).
    { destruct mapO as [[i m]|]; cbn [option_map snd].
      - exists m. split; [right|reflexivity]. cbn in MO. subst nsO. unfold loc_get_ns in GN. cbn in GN.
        injection GN as <- _ _. reflexivity.
      - eexists. split; [left; reflexivity | reflexivity]. }
    destruct MM as [m [M0 M1]]. rewrite M1.
    assert (TAIL : forall tbO',
      tbO' = tbO ->
      (do r20__ <-
        (do r16 <- Ok (mkRs k2 g2 tls reg, Some (ns, m)) ;; let '(s, v_taxon_symbol_mapper) := r16 in
         do r15 <- tk_pull_comments T s ;; let '(v_pre_tree_comments, s0) := r15 in
         do r14 <- (if on_is_none tbO'
                    then do r10 <- g_new_tree_list T tlf (S f) s0 (Some ns) title ;;
                         let '(v_trees_block, s1) := r10 in Ok (s1, v_trees_block)
                    else Ok (s0, tbO')) ;; let '(s1, v_trees_block) := r14 in
         do r13 <- g_parse_trees_block_loop2 T lower upper parse_tree set_label add_comments (S f) v_trees_block
                     (ifc_comments_for_treelist T s1 v_trees_block v_pre_tree_comments) (z_cur z1) v_taxon_symbol_mapper ;;
         let '(s2, v_token, v_taxon_symbol_mapper0) := r13 in
         Ok (s2, v_token, Some ns, v_taxon_symbol_mapper0, v_trees_block)) ;;
       do r <-
        (do r23 <-
          (do r22 <-
            (do r21 <-
              (let '(s, v_token, v_taxon_namespace, v_taxon_symbol_mapper, v_trees_block) := r20__ in
               Ok (s, v_token, v_taxon_namespace, v_taxon_symbol_mapper, v_trees_block)) ;;
             let '(s, v_token, v_taxon_namespace, v_taxon_symbol_mapper, v_trees_block) := r21 in
             Ok (s, v_token, v_taxon_namespace, v_taxon_symbol_mapper, v_trees_block, title)) ;;
           let '(s, v_token, v_taxon_namespace, v_taxon_symbol_mapper, v_trees_block, v_block_title) := r22 in
           Ok (s, v_token, link, v_taxon_namespace, v_taxon_symbol_mapper, v_trees_block, v_block_title)) ;;
         let '(s, v_token, v_link_title, v_taxon_namespace, v_taxon_symbol_mapper, v_trees_block, v_block_title) := r23 in
         g_parse_trees_block_loop1 T lower upper parse_tree set_label add_comments c tlf f s v_token v_link_title
           v_taxon_namespace v_taxon_symbol_mapper v_trees_block v_block_title) ;;
       Ok (fst (fst (fst (fst (fst (fst r)))))))
      = (let '(pre, z3) := pull_comments (k_z k2) in
         let '(i, tls4, reg4) := match tbO with Some i => (i, tls, reg) | None => new_tree_list T tlf tls reg title end in
         do r3 <- r_tree_loop T upper parse_tree set_label add_comments (S f) (set_z k2 z3)
                    (if is_nil pre then tls4 else tl_add_comments T tls4 i pre) ns i m ;;
         let '(k6, tls6, m1, tk) := r3 in
         r_trees_loop T lower upper parse_tree set_label add_comments true c tlf f (mkRs k6 g2 tls6 reg4)
           (mkLoc (match tk with Some t => t | None => z_cur z1 end) link (Some ns) (Some m1) title) (Some i))).
    { intros tbO' ->. sim. unfold tk_pull_comments, pull_comments. sim.
      destruct tbO as [i|]; cbn [on_is_none]; sim.
      - unfold ifc_comments_for_treelist. sim.
        destruct (is_nil (z_com (k_z k2))); sim;
          rewrite g_tree_loop_eq;
          match goal with |- context [r_tree_loop T upper parse_tree set_label add_comments (S f) ?kk ?tt ns i m] =>
            destruct (r_tree_loop T upper parse_tree set_label add_comments (S f) kk tt ns i m) as [[[[k6 tls6] m1] tk]| |] eqn:RT end;
          sim; try reflexivity; apply r_tree_loop_len in RT; rewrite set_z_len in RT;
          apply (IH (mkRs k6 g2 tls6 reg) _ link (Some ns) (Some (ns, m1)) (Some i) title);
          first [ reflexivity | apply nsok_some; cbn [r_k]; rewrite RT; exact V2
                | apply (wfs_mono c k2 g2); [exact W2 | cbn [r_k]; rewrite RT; apply Nat.le_refl | reflexivity] ].
      - rewrite g_new_tree_list_eq. unfold ifc_new_tree_list. sim.
        destruct (new_tree_list T tlf tls reg title) as [[i tls4] reg4]. sim.
        unfold ifc_comments_for_treelist. sim.
        destruct (is_nil (z_com (k_z k2))); sim;
          rewrite g_tree_loop_eq;
          match goal with |- context [r_tree_loop T upper parse_tree set_label add_comments (S f) ?kk ?tt ns i m] =>
            destruct (r_tree_loop T upper parse_tree set_label add_comments (S f) kk tt ns i m) as [[[[k6 tls6] m1] tk]| |] eqn:RT end;
          sim; try reflexivity; apply r_tree_loop_len in RT; rewrite set_z_len in RT;
          apply (IH (mkRs k6 g2 tls6 reg4) _ link (Some ns) (Some (ns, m1)) (Some i) title);
          first [ reflexivity | apply nsok_some; cbn [r_k]; rewrite RT; exact V2
                | apply (wfs_mono c k2 g2); [exact W2 | cbn [r_k]; rewrite RT; apply Nat.le_refl | reflexivity] ]. }
    destruct M0 as [-> | ->]; cbn [om_is_none]; [rewrite g_get_taxon_symbol_mapper_eq; unfold ifc_get_taxon_symbol_mapper; sim; cbn [on_get]; cbn [option_map] in M1; rewrite M1|];
      exact (TAIL tbO eq_refl). }
  destruct (otok_is (z_cur z1) K_BEGIN); sim; [reflexivity|].
  apply IH; [exact MO | exact W1 | exact N1].
Qed.

Notation RTB := (r_parse_trees_block T lower upper parse_tree set_label add_comments true c tlf et).
Notation GCON := (g_consume_to_end_of_block T upper).

(* uses of _consume_to_end_of_block whose returned token is dropped or overwritten *)
Lemma consume_then : forall (X : Type) fuel (s : gst) tok (K : option str * gst -> res X) (K' : gst -> res X),
  (forall t s', K (t, s') = K' s') ->
  (do r <- GCON fuel s tok ;; K r)
  = (do z' <- consume_to_end_of_block upper fuel tok (st_z T s) ;; K' (st_set_z T s z')).
Proof.
  intros X fuel s tok K K' HK. pose proof (g_consume_to_end_of_block_eq T upper fuel s tok) as L.
  destruct (GCON fuel s tok) as [[t s']| |]; destruct (consume_to_end_of_block upper fuel tok (st_z T s)) as [z'| |];
    cbn [bind fst snd] in *; try discriminate L; try reflexivity.
  - injection L as ->. apply HK.
  - injection L as ->. reflexivity.
Qed.

(* ---- _parse_trees_block ---- *)
Theorem g_parse_trees_block_eq : forall fuel (s : gst),
  wfr s ->
  g_parse_trees_block T lower upper parse_tree set_label add_comments c tlf et fuel s
  = (do s' <- RTB fuel s ;; Ok (tt, s')).
Proof.
  intros fuel [k g tls reg] WF. unfold C13GenWf.wfr in WF. cbn [r_k r_g] in WF. unfold g_parse_trees_block, r_parse_trees_block, tk_cast_ucase. sim.
  set (z0 := cast_ucase upper (k_z k)).
  change (o_eq (z_cur z0) (s2z "TREES")) with (tok_is z0 K_TREES).
  destruct (negb (tok_is z0 K_TREES)); sim; [reflexivity|].
  destruct et.
  { unfold tk_current_token. sim. change (k_z (set_z k z0)) with z0.
    rewrite (consume_then _ fuel (mkRs (set_z k z0) g tls reg) (z_cur z0) _ (fun s' => Ok (tt, s'))); [|reflexivity].
    unfold zstep. sim. change (k_z (set_z k z0)) with z0.
    destruct (consume_to_end_of_block upper fuel (z_cur z0) z0); reflexivity. }
  unfold tk_skip_to_semicolon, zstep. sim. change (k_z (set_z k z0)) with z0.
  destruct (skip_to_semicolon fuel z0) as [z1| |]; sim; try reflexivity.
  assert (W1 : wfr (mkRs (set_z (set_z k z0) z1) g tls reg))
    by (unfold C13GenWf.wfr; cbn [r_k r_g]; apply (wfs_mono c k g); [exact WF | apply Nat.le_refl | reflexivity]).
  pose proof (g_trees_loop_eq fuel (mkRs (set_z (set_z k z0) z1) g tls reg) (z_cur z0) None None None None None I W1
                (nsok_none _)) as L.
  cbn [option_map] in L.
  rewrite <- L. clear L.
  destruct (g_parse_trees_block_loop1 T lower upper parse_tree set_label add_comments c tlf fuel
              (mkRs (set_z (set_z k z0) z1) g tls reg) (z_cur z0) None None None None None) as [[[[[[[s2 a] b] d] e] h] i]| |];
    sim; try reflexivity.
  destruct (skip_to_semicolon fuel (k_z (r_k s2))); reflexivity.
Qed.

(* ---- _parse_nexus_stream ---- *)
Lemma g_scan_eq : forall (s : gst) fuel z,
  g_parse_nexus_stream_loop2 T upper fuel (st_set_z T s z) (z_cur z)
  = (do z' <- scan_begin upper fuel z ;; Ok (st_set_z T s z', z_cur z')).
Proof.
  intros s; induction fuel as [|f IH]; intros z; [reflexivity|].
  cbn [g_parse_nexus_stream_loop2 scan_begin].
  change (o_is_none (z_cur z)) with (cur_none z).
  change (o_eq (z_cur z) (s2z "BEGIN")) with (tok_is z K_BEGIN).
  change (tk_is_eof T (st_set_z T s z)) with (z_eof z).
  destruct (negb (cur_none z) && negb (tok_is z K_BEGIN) && negb (z_eof z)); [|reflexivity].
  unfold tk_next_token_ucase, tk_lift. change (st_z T (st_set_z T s z)) with z.
  destruct (next_token_ucase upper z) as [z1| |]; cbn [bind]; try reflexivity.
  apply IH.
Qed.

Notation RBL := (r_blocks_loop T lower upper parse_tree set_label add_comments true c tlf et true).

Lemma g_blocks_loop_eq : forall fuel (s : gst) tok,
  wfr s ->
  (do r <- g_parse_nexus_stream_loop1 T lower upper parse_tree set_label add_comments c tlf et fuel s tok ;; Ok (fst r))
  = RBL fuel s.
Proof.
  induction fuel as [|f IH]; intros [k g tls reg] tok WF; [reflexivity|].
  unfold C13GenWf.wfr in WF. cbn [r_k r_g] in WF.
  cbn [g_parse_nexus_stream_loop1 r_blocks_loop]. unfold tk_is_eof. sim.
  destruct (negb (z_eof (k_z k))); [|reflexivity].
  unfold block_head, zstep, tk_next_token_ucase, tk_lift. sim.
  destruct (next_token_ucase upper (k_z k)) as [z1| |]; sim; try reflexivity.
  change (mkRs (set_z k z1) g tls reg) with (st_set_z T (mkRs k g tls reg) z1).
  rewrite g_scan_eq. change (k_z (set_z k z1)) with z1.
  destruct (scan_begin upper (S f) z1) as [z2| |]; sim; try reflexivity.
  unfold tk_process_and_clear. sim.
  change (k_z (set_z k z2)) with z2. change (k_z (set_z (set_z k z1) z2)) with z2.
  change (k_z (set_z (set_z (set_z k z1) z2) (clear_comments z2))) with (clear_comments z2).
  change (k_z (set_z (set_z k z2) (clear_comments z2))) with (clear_comments z2).
  destruct (next_token_ucase upper (clear_comments z2)) as [z4| |]; sim; try reflexivity.
  set (k4 := set_z (set_z (set_z (set_z k z1) z2) (clear_comments z2)) z4).
  change (set_z (set_z (set_z k z2) (clear_comments z2)) z4) with k4.
  change (k_z k4) with z4.
  assert (W4 : wfs k4 g) by (apply (wfs_mono c k g); [exact WF | apply Nat.le_refl | reflexivity]).
  assert (W4r : wfr (mkRs k4 g tls reg)) by exact W4.
  assert (WK : forall z, wfr (mkRs (set_z k4 z) g tls reg))
    by (intros z0; unfold C13GenWf.wfr; cbn [r_k r_g]; apply (wfs_mono c k4 g); [exact W4 | apply Nat.le_refl | reflexivity]).
  change (o_eq (z_cur z4) (s2z "TAXA")) with (otok_is (z_cur z4) K_TAXA).
  change (o_eq (z_cur z4) (s2z "CHARACTERS")) with (otok_is (z_cur z4) K_CHARACTERS).
  change (o_eq (z_cur z4) (s2z "DATA")) with (otok_is (z_cur z4) K_DATA).
  change (o_eq (z_cur z4) (s2z "TREES")) with (otok_is (z_cur z4) K_TREES).
  change (o_eq (z_cur z4) (s2z "BEGIN")) with (otok_is (z_cur z4) K_BEGIN).
  change (o_eq (z_cur z4) (s2z "SETS") || o_eq (z_cur z4) (s2z "ASSUMPTIONS") || o_eq (z_cur z4) (s2z "CODONS"))
    with (is_sets_kw (z_cur z4)).
  destruct (otok_is (z_cur z4) K_TAXA).
  { rewrite g_parse_taxa_block_eq by exact W4r. unfold ifc_parse_taxa_block. sim.
    destruct (parse_taxa_block lower upper c (S f) k4 g) as [[k5 g5]| |] eqn:PB; sim; try reflexivity. apply IH.
    exact (parse_taxa_block_wf lower upper c _ _ _ _ _ W4 PB). }
  destruct (otok_is (z_cur z4) K_CHARACTERS || otok_is (z_cur z4) K_DATA).
  { rewrite g_parse_characters_data_block_eq. sim. change (k_z k4) with z4.
    destruct (negb (tok_is (cast_ucase upper z4) K_CHARACTERS || tok_is (cast_ucase upper z4) K_DATA)); [reflexivity|].
    unfold zstep. sim. change (k_z (set_z k4 (cast_ucase upper z4))) with (cast_ucase upper z4).
    destruct (consume_to_end_of_block upper (S f) (z_cur (cast_ucase upper z4)) (cast_ucase upper z4)) as [z5| |];
      sim; try reflexivity. apply IH. apply (WK z5). }
  destruct (otok_is (z_cur z4) K_TREES).
  { rewrite g_parse_trees_block_eq by exact W4r.
    destruct (RTB (S f) (mkRs k4 g tls reg)) as [s5| |] eqn:TB; sim; try reflexivity. apply IH.
    exact (r_trees_block_wf T lower upper parse_tree set_label add_comments true c tlf et _ _ _ W4r TB). }
  destruct (is_sets_kw (z_cur z4)).
  { rewrite !bind_assoc.
    rewrite (consume_then _ (S f) (mkRs k4 g tls reg) (z_cur z4) _
               (fun s' => do r <- g_parse_nexus_stream_loop1 T lower upper parse_tree set_label add_comments c tlf et f s' (z_cur z4) ;; Ok (fst r)));
      [|intros t s'; reflexivity].
    unfold zstep. sim. change (k_z k4) with z4.
    destruct (consume_to_end_of_block upper (S f) (z_cur z4) z4) as [z5| |]; sim; try reflexivity. apply IH. apply (WK z5). }
  destruct (otok_is (z_cur z4) K_BEGIN); sim; [reflexivity|].
  rewrite !bind_assoc.
  pose proof (g_consume_to_end_of_block_eq T upper (S f) (mkRs k4 g tls reg) (z_cur z4)) as L. revert L.
  unfold zstep. sim. change (k_z k4) with z4.
  destruct (GCON (S f) (mkRs k4 g tls reg) (z_cur z4)) as [[t s']| |];
    destruct (consume_to_end_of_block upper (S f) (z_cur z4) z4) as [z5| |]; sim; intros L;
    try discriminate L; try (injection L as ->; reflexivity); try reflexivity.
  injection L as ->. apply IH. apply (WK z5).
Qed.

Theorem g_parse_nexus_stream_eq : forall fuel (s : gst),
  wfr s ->
  g_parse_nexus_stream T lower upper parse_tree set_label add_comments c tlf et fuel s tt
  = (do s' <- r_parse_nexus_stream T lower upper parse_tree set_label add_comments true c tlf et true fuel s ;;
     Ok (tt, s')).
Proof.
  intros fuel [k g tls reg] WF. unfold C13GenWf.wfr in WF. cbn [r_k r_g] in WF.
  unfold g_parse_nexus_stream, r_parse_nexus_stream, ifc_open_stream, tk_require_next_token, tk_lift, zstep.
  sim.
  destruct (require_next_token (k_z k)) as [z1| |] eqn:R; sim; try reflexivity.
  change (k_z (set_z k z1)) with z1. rewrite (require_some _ _ R). cbn [o_upper o_eq otok_is].
  change (s2z "#NEXUS") with K_NEXUS.
  destruct (negb (str_eqb (upper (cur_text z1)) K_NEXUS)); sim; [reflexivity|].
  rewrite <- (g_blocks_loop_eq fuel (mkRs (set_z k z1) g tls reg) (Some (cur_text z1)))
    by (unfold C13GenWf.wfr; cbn [r_k r_g]; apply (wfs_mono c k g); [exact WF | apply Nat.le_refl | reflexivity]).
  destruct (g_parse_nexus_stream_loop1 T lower upper parse_tree set_label add_comments c tlf et fuel
              (mkRs (set_z k z1) g tls reg) (Some (cur_text z1))) as [[s' t']| |]; reflexivity.
Qed.

End S.
