(* C03 proofs: Tree.collapse_unweighted_edges keeps well-formedness and refines spec_cu. *)
From Coq Require Import ZArith List Bool Lia Permutation.
From DV Require Import Model.PyPrims Model.Tree Model.Heap Model.HeapOps Model.C03Spec
  Proofs.C03Base Proofs.C03Abs Proofs.C03Local Proofs.C03Prims
  Proofs.C03Collapse Proofs.C03Suppress Proofs.C03Ops.
Import ListNotations. Open Scope Z_scope.

(* ---------- the structural specification ---------- *)

(* the test of the loop body, read off the rose tree *)
Definition cu_hit (thr : Z) (t : tree) : bool :=
  (match t_len t with None => true | Some l => l <=? thr end) &&
  (match t_kids t with [] => false | _ => true end).

(* result of processing a NON-root subtree: the list of trees that take its place *)
Fixpoint spec_cu_sub (thr : Z) (t : tree) : list tree :=
  match t with
  | T i x l e ks =>
    let ks' := flat_map (spec_cu_sub thr) ks in
    if (match e with None => true | Some le => le <=? thr end) &&
       (match ks' with [] => false | _ => true end)
    then ks' else [T i x l e ks']
  end.

Definition spec_cu (thr : Z) (t : tree) : tree :=
  match t with T i x l e ks => T i x l e (flat_map (spec_cu_sub thr) ks) end.

Lemma spec_cu_sub_eq thr i x l e ks :
  spec_cu_sub thr (T i x l e ks) =
  if cu_hit thr (T i x l e (flat_map (spec_cu_sub thr) ks))
  then flat_map (spec_cu_sub thr) ks
  else [T i x l e (flat_map (spec_cu_sub thr) ks)].
Proof. reflexivity. Qed.

(* sanity checks of the specification against the executable model *)
Module CuCheck.
  Definition L i e := T i (Some i) None e [].
  Definition N i e ks := T i None None e ks.
  Definition t1 :=
    N 0 None [N 1 (Some 0) [L 2 (Some 5); N 3 None [L 4 (Some 1); L 5 None]]; L 6 (Some 0);
              N 7 (Some 3) [N 8 (Some 2) [L 9 (Some 2)]; L 10 (Some 9)]].
  Definition t2 :=
    N 0 (Some 0) [N 1 (Some 9) [N 2 (Some 0) [N 3 None [L 4 None]]];
                  N 5 None [N 6 (Some 1) [L 7 (Some 1); L 8 (Some 7)]]].
  Definition chk thr t :=
    match collapse_unweighted_edges thr false (of_tree t None) with
    | HOk h' => match abs h' with Some r => tree_eqb r (spec_cu thr t) | None => false end
    | _ => false
    end.
  Lemma chk_t1 : map (fun thr => chk thr t1) [-1; 0; 2; 3; 100] = [true; true; true; true; true].
  Proof. vm_compute. reflexivity. Qed.
  Lemma chk_t2 : map (fun thr => chk thr t2) [-1; 0; 1; 2; 100] = [true; true; true; true; true].
  Proof. vm_compute. reflexivity. Qed.
End CuCheck.

(* ---------- the loop body ---------- *)

Definition cu_step (thr : Z) : Z -> heap -> hres :=
  fun nd h =>
    if (match elen h nd with None => true | Some l => l <=? thr end) && is_internal h nd
    then edge_collapse nd false h else HOk h.

Lemma collapse_unweighted_edges_eq thr ub h :
  collapse_unweighted_edges thr ub h =
  hbind (with_sub h (seed h) (fun t => hfold (cu_step thr) (post_ids t) h)) (ub_tail ub).
Proof. reflexivity. Qed.

(* the step at a non-root node whose children are final *)
Lemma cu_self_step thr h c i x l e lft rgt j xj lj ej ks' :
  Wr h (plug (CNode c i x l e lft rgt) (T j xj lj ej ks')) ->
  exists h', cu_step thr j h = HOk h' /\
    Wr h' (plug c (T i x l e (lft ++
             (if cu_hit thr (T j xj lj ej ks') then ks' else [T j xj lj ej ks']) ++ rgt))) /\
    pres h h' /\ grows h h'.
Proof.
  intro W. destruct (wr_focus _ _ _ _ _ _ _ W) as [_ [Gj _]].
  assert (Kj : kids h j = map t_id ks') by (unfold kids; rewrite Gj; reflexivity).
  assert (Ej : elen h j = ej) by (unfold elen; rewrite Gj; reflexivity).
  assert (Ij : is_internal h j = match ks' with [] => false | _ => true end).
  { unfold is_internal. rewrite Kj. destruct ks'; reflexivity. }
  unfold cu_step. rewrite Ej, Ij. unfold cu_hit. simpl t_len. simpl t_kids.
  destruct ((match ej with None => true | Some l0 => l0 <=? thr end) &&
            (match ks' with [] => false | _ => true end)) eqn:C.
  - assert (Hne : ks' <> []).
    { apply andb_true_iff in C. destruct C as [_ C]. destruct ks'; [discriminate C|discriminate]. }
    simpl plug in W.
    destruct (edge_collapse_wf h c i x l e lft j xj lj ej ks' rgt false Hne W) as [h' [E [W' [P G]]]].
    rewrite map_bump_none in W'.
    exists h'. split; [exact E|split; [exact W'|split; [exact P|exact G]]].
  - exists h. split; [reflexivity|split; [exact W|split; [apply pres_refl|apply grows_refl]]].
Qed.

(* ---------- the postorder loop ---------- *)

Definition cu_P (thr : Z) (s : tree) : Prop :=
  forall h c i x l e lft rgt,
  Wr h (plug (CNode c i x l e lft rgt) s) ->
  exists h', hfold (cu_step thr) (post_ids s) h = HOk h' /\
    Wr h' (plug c (T i x l e (lft ++ spec_cu_sub thr s ++ rgt))) /\ pres h h' /\ grows h h'.

(* the children of the focused node j, left to right; dn = what the processed ones became *)
Lemma cu_kids_loop thr c j xj lj ej : forall todo, Forall (cu_P thr) todo -> forall dn h,
  Wr h (plug c (T j xj lj ej (dn ++ todo))) ->
  exists h', hfold (cu_step thr) (flat_map post_ids todo) h = HOk h' /\
    Wr h' (plug c (T j xj lj ej (dn ++ flat_map (spec_cu_sub thr) todo))) /\
    pres h h' /\ grows h h'.
Proof.
  induction 1 as [|k r Pk Pr IH]; intros dn h W.
  - exists h. simpl. split; [reflexivity|split; [exact W|split; [apply pres_refl|apply grows_refl]]].
  - simpl flat_map. rewrite hfold_app.
    destruct (Pk h c j xj lj ej dn r W) as [h1 [E1 [W1 [P1 G1]]]].
    rewrite E1. cbn [hbind].
    assert (W1' : Wr h1 (plug c (T j xj lj ej ((dn ++ spec_cu_sub thr k) ++ r)))).
    { rewrite <- app_assoc. exact W1. }
    destruct (IH (dn ++ spec_cu_sub thr k) h1 W1') as [h2 [E2 [W2 [P2 G2]]]].
    exists h2. split; [exact E2|split; [|split]].
    + rewrite <- app_assoc in W2. exact W2.
    + eapply pres_trans; eauto.
    + eapply grows_trans; eauto.
Qed.

Lemma cu_fold_sub_P thr : forall s, cu_P thr s.
Proof.
  induction s as [j xj lj ej ks IH] using tree_ind'. intros h c i x l e lft rgt W.
  rewrite post_ids_eq, hfold_app.
  destruct (cu_kids_loop thr (CNode c i x l e lft rgt) j xj lj ej ks IH [] h W) as [h1 [E1 [W1 [P1 G1]]]].
  rewrite E1. cbn [hbind].
  set (ks' := flat_map (spec_cu_sub thr) ks) in *.
  assert (W1' : Wr h1 (plug (CNode c i x l e lft rgt) (T j xj lj ej ks'))) by exact W1.
  destruct (cu_self_step thr h1 c i x l e lft rgt j xj lj ej ks' W1') as [h2 [E2 [W2 [P2 G2]]]].
  exists h2. split; [|split; [|split]].
  - simpl. rewrite E2. reflexivity.
  - rewrite spec_cu_sub_eq. exact W2.
  - eapply pres_trans; eauto.
  - eapply grows_trans; eauto.
Qed.

(* 1. the loop over a non-root subtree *)
Lemma cu_fold_sub thr : forall s h c i x l e lft rgt,
  Wr h (plug (CNode c i x l e lft rgt) s) ->
  exists h',
    hfold (fun nd h =>
             if (match elen h nd with None => true | Some l => l <=? thr end) && is_internal h nd
             then edge_collapse nd false h else HOk h)
          (post_ids s) h = HOk h' /\
    Wr h' (plug c (T i x l e (lft ++ spec_cu_sub thr s ++ rgt))) /\ pres h h' /\ grows h h'.
Proof. exact (cu_fold_sub_P thr). Qed.

(* ---------- the whole operation ---------- *)

(* the loop part: everything but the update_bipartitions tail *)
Lemma cu_loop_wf thr h t :
  WFt h t ->
  exists h', with_sub h (seed h) (fun t => hfold (cu_step thr) (post_ids t) h) = HOk h' /\
    WFt h' (spec_cu thr t) /\ pres h h' /\ grows h h'.
Proof.
  intro WF0. rewrite (with_sub_seed h t _ WF0). destruct WF0 as [W Sd].
  destruct t as [i x l e ks]. simpl in Sd.
  rewrite post_ids_eq, hfold_app.
  assert (FP : Forall (cu_P thr) ks) by (apply Forall_forall; intros k _; apply cu_fold_sub_P).
  destruct (cu_kids_loop thr CTop i x l e ks FP [] h W) as [h1 [E1 [W1 [P1 G1]]]].
  rewrite E1. cbn [hbind].
  assert (W1' : Wr h1 (T i x l e (flat_map (spec_cu_sub thr) ks))) by exact W1.
  assert (Par : parent h1 i = None).
  { destruct W1' as [R _]. apply (rep_parent h1 None _ R). }
  exists h1. split; [|split; [|split; [exact P1|exact G1]]].
  - simpl hfold. unfold cu_step. rewrite (edge_collapse_root h1 i false Par).
    destruct (_ && _); reflexivity.
  - split; [exact W1'|]. destruct P1 as [_ [_ Ps]]. simpl. congruence.
Qed.

(* 2. the operation keeps the heap a well-formed tree and refines spec_cu *)
Theorem collapse_unweighted_wf thr ub h t :
  WFt h t ->
  exists h', collapse_unweighted_edges thr ub h = HOk h' /\
    WFt h' ((if ub then spec_encode true true (not_rooted h) else (fun t => t)) (spec_cu thr t)) /\
    next h' = next h /\ rooted_ok h h'.
Proof.
  intro WF0. rewrite collapse_unweighted_edges_eq.
  destruct (cu_loop_wf thr h t WF0) as [h1 [E1 [W1 [[Pn [Pr Ps]] _]]]].
  rewrite E1. cbn [hbind]. unfold ub_tail. destruct ub.
  - destruct (encode_structural_wf true true h1 _ W1) as [h2 [E2 [W2 [N2 R2]]]].
    exists h2. split; [exact E2|]. unfold not_rooted in *. rewrite Pr in W2.
    split; [exact W2|split; [congruence|]]. unfold rooted_ok in *. rewrite Pr in R2. exact R2.
  - exists h1. split; [reflexivity|split; [exact W1|split; [exact Pn|left; exact Pr]]].
Qed.

(* ---------- tree-level facts about spec_cu ---------- *)

Lemma flat_leaf_taxa_cu_kids thr ks :
  Forall (fun s => flat_map leaf_taxa (spec_cu_sub thr s) = leaf_taxa s) ks ->
  flat_map leaf_taxa (flat_map (spec_cu_sub thr) ks) = flat_map leaf_taxa ks.
Proof.
  induction 1 as [|k r Hk Hr IH]; simpl; [reflexivity|].
  rewrite flat_map_app, Hk, IH. reflexivity.
Qed.

(* a non-empty child list stays non-empty *)
Lemma spec_cu_sub_nonnil thr s : spec_cu_sub thr s <> [].
Proof.
  induction s as [i x l e ks IH] using tree_ind'. rewrite spec_cu_sub_eq. unfold cu_hit.
  simpl t_len. simpl t_kids.
  destruct (flat_map (spec_cu_sub thr) ks) as [|a b] eqn:E.
  - rewrite andb_false_r. discriminate.
  - destruct (_ && _); discriminate.
Qed.

Lemma flat_cu_kids_nonnil thr ks : ks <> [] -> flat_map (spec_cu_sub thr) ks <> [].
Proof.
  destruct ks as [|k r]; [congruence|]. intros _ E. simpl in E.
  apply app_eq_nil in E. destruct E as [E _]. exact (spec_cu_sub_nonnil thr k E).
Qed.

Lemma leaf_taxa_spec_cu_sub thr s : flat_map leaf_taxa (spec_cu_sub thr s) = leaf_taxa s.
Proof.
  induction s as [i x l e ks IH] using tree_ind'.
  pose proof (flat_leaf_taxa_cu_kids thr ks IH) as FM.
  rewrite spec_cu_sub_eq. unfold cu_hit. simpl t_len. simpl t_kids.
  destruct ks as [|k r].
  - simpl. rewrite andb_false_r. reflexivity.
  - assert (Hne : flat_map (spec_cu_sub thr) (k :: r) <> []) by (apply flat_cu_kids_nonnil; discriminate).
    set (ks' := flat_map (spec_cu_sub thr) (k :: r)) in *.
    destruct (_ && _).
    + rewrite FM. reflexivity.
    + change (flat_map leaf_taxa [T i x l e ks']) with (leaf_taxa (T i x l e ks') ++ []).
      rewrite app_nil_r, (C03Collapse.leaf_taxa_node i x l e ks' Hne), FM. reflexivity.
Qed.

(* 3. the leaf taxa (in order) are unchanged *)
Lemma leaf_taxa_spec_cu thr t : leaf_taxa (spec_cu thr t) = leaf_taxa t.
Proof.
  destruct t as [i x l e ks]. unfold spec_cu.
  assert (FM : flat_map leaf_taxa (flat_map (spec_cu_sub thr) ks) = flat_map leaf_taxa ks).
  { apply flat_leaf_taxa_cu_kids. apply Forall_forall. intros s _. apply leaf_taxa_spec_cu_sub. }
  destruct ks as [|k r]; [reflexivity|].
  rewrite C03Collapse.leaf_taxa_node by (apply flat_cu_kids_nonnil; discriminate).
  rewrite FM. reflexivity.
Qed.
