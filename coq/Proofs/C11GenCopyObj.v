(* C11, wave 7: the generated object-level code of CharacterMatrix.__copy__ (coq/Gen/ContainersCopyObj.v, re-derived
   from the source on every run) equals the object-level model's OCopy step: a NEW dict object is allocated and
   filled with the entries of the source's dict.  With `other._taxon_sequence_map = self._taxon_sequence_map` the
   generated code is o_rebind_dict and this proof fails. *)
From Coq Require Import List Bool Arith ZArith Lia.
From DV Require Import Model.PyPrims Model.C11Model Model.C11W7Model Model.C11ObjModel Model.C11ObjPrims
  Gen.ContainersCopyObj Proofs.C11Base Proofs.C11W7Obj.
Import ListNotations.
Open Scope nat_scope.

Lemma upd_app_last : forall A (l : list A) a b, upd (l ++ [a]) (length l) b = l ++ [b].
Proof. induction l as [|x r IH]; intros a b; cbn; [reflexivity|]. rewrite IH. reflexivity. Qed.

Lemma nth_app_last : forall A (l : list A) a d, nth (length l) (l ++ [a]) d = a.
Proof. intros. rewrite app_nth2 by lia. rewrite Nat.sub_diag. reflexivity. Qed.

Lemma add_uniq_fresh : forall k l, ~ In k l -> add_uniq k l = l ++ [k].
Proof.
  intros k l H. unfold add_uniq. destruct (memb k l) eqn:M; [apply memb_In in M; contradiction | reflexivity].
Qed.

Lemma o_dict_of_last : forall st mats X ds, o_dict_of (mkO st (mats ++ [X]) ds) (length mats) = om_dict X.
Proof. intros. unfold o_dict_of. cbn [o_mats]. rewrite nth_app_last. reflexivity. Qed.

(* the loop: the keys are appended, one by one, to the dict of the new matrix (index = length mats) *)
Lemma fill_loop : forall st mats X dicts ks acc,
  om_dict X = length dicts -> NoDup (acc ++ ks) ->
  for_each_key ks (fun s k => o_dict_set s (o_dict_of s (length mats)) k) (mkO st (mats ++ [X]) (dicts ++ [acc]))
  = mkO st (mats ++ [X]) (dicts ++ [acc ++ ks]).
Proof.
  intros st mats X dicts ks. induction ks as [|k r IH]; intros acc EX N; unfold for_each_key in *; cbn [fold_left].
  - rewrite app_nil_r. reflexivity.
  - unfold o_dict_set at 2. cbn [o_st o_mats o_dicts]. rewrite o_dict_of_last, EX, nth_app_last, upd_app_last.
    rewrite add_uniq_fresh.
    + etransitivity; [apply (IH (acc ++ [k]) EX); rewrite <- app_assoc; exact N|]. rewrite <- app_assoc. reflexivity.
    + intro K. apply NoDup_remove_2 in N. apply N. apply in_or_app. left. exact K.
Qed.

Theorem gen_copy_obj_l : forall (lower : lbl -> lbl) os m,
  m < length (o_mats os) -> om_dict (nth m (o_mats os) domat) < length (o_dicts os) ->
  NoDup (nth (om_dict (nth m (o_mats os) domat)) (o_dicts os) []) ->
  py_CharacterMatrix___copy__ os m = (o_step lower os (OCopy m), length (o_mats os)).
Proof.
  intros lower os m L Ld N. unfold py_CharacterMatrix___copy__, o_new_matrix. cbn [o_step].
  apply Nat.ltb_lt in L. rewrite L. apply Nat.ltb_lt in L.
  unfold o_ns_of, o_dict_of, o_dict_keys. cbn [o_st o_mats o_dicts].
  rewrite (app_nth1 (o_mats os)) by exact L. rewrite (app_nth1 (o_dicts os)) by exact Ld.
  rewrite (fill_loop (o_st os) (o_mats os) _ (o_dicts os) _ []); [reflexivity | reflexivity | exact N].
Qed.

(* the hypotheses hold in the state ns0 = {A, B}, matrix 0 over ns0 with rows A, B; the copy owns a second dict *)
Lemma gen_copy_obj_example_l :
  let os := o_run al_lower o_init al_prefix in
  0 < length (o_mats os) /\ om_dict (nth 0 (o_mats os) domat) < length (o_dicts os)
  /\ NoDup (nth (om_dict (nth 0 (o_mats os) domat)) (o_dicts os) [])
  /\ o_dicts (fst (py_CharacterMatrix___copy__ os 0)) = [[0; 1]; [0; 1]]
  /\ map om_dict (o_mats (fst (py_CharacterMatrix___copy__ os 0))) = [0; 1].
Proof.
  vm_compute. split; [lia|]. split; [lia|]. split; [|split; reflexivity].
  constructor; [intros [H|[]]; discriminate|]. constructor; [intros []|constructor].
Qed.
