(* C03, wave 8: the error path of the GENERATED Node.remove_child (Gen/Mutators.v, compiled statement by
   statement from _node.py): on a node that is not a child of the receiver it raises ValueError and the
   state it leaves is the heap it was called on. *)
From Coq Require Import ZArith List Bool.
From DV Require Import Model.PyPrims Model.Tree Model.Heap Model.HeapOps Model.C15Prims Model.MutPrims Gen.Mutators
     Model.C03GenInst Proofs.C03GenPrims Proofs.C03GenHeq Proofs.C03GenRemove Proofs.C03ErrFrame.
Import ListNotations.
Open Scope Z_scope.

Lemma gen_remove_child_refused (fuel : nat) (p c : Z) (h : heap) :
  memz c (kids h p) = false ->
  Node_remove_child__suppress_unifurcations_False HG p c h = MErr ValueErr h /\
  Node_remove_child HG fuel p c false h = MErr ValueErr h.
Proof.
  intros M. rewrite (gen_remove_plain_lift p c h), (gen_remove_child_false fuel p c h).
  assert (R : remove_child_plain p c h = HErr ValueErr h) by (unfold remove_child_plain; rewrite M; reflexivity).
  unfold remove_child. rewrite R. split; reflexivity.
Qed.

Lemma gen_remove_child_su_refused (fuel : nat) (p c : Z) (su : bool) (h : heap) :
  memz p (kids h p) = false -> (forall x, (length (kids h x) < fuel)%nat) ->
  memz c (kids h p) = false ->
  exists a, Node_remove_child HG fuel p c su h = MErr ValueErr a /\ heq a h.
Proof.
  intros Hp Hf M. pose proof (gen_remove_child fuel p c su h Hp Hf) as S.
  assert (R : remove_child p c su h = HErr ValueErr h).
  { unfold remove_child, remove_child_plain. rewrite M. reflexivity. }
  rewrite R in S. unfold mres_sim in S.
  destruct (Node_remove_child HG fuel p c su h) as [v a|e a|]; try contradiction.
  destruct S as [-> Ha]. exists a. split; [reflexivity|exact Ha].
Qed.
