(* C12, ninth wave: result_heap_wf4 / result_heap_root_ok for the two modelled routes (copy.deepcopy and the
   taxon-namespace-scoped copy), stated on `run`. *)
From Coq Require Import ZArith List Bool Lia.
From DV Require Import Model.PyPrims Model.C12Model Model.C12Spec2 Model.C12Spec3 Proofs.C12W9Wf4 Proofs.C12W9Cor.
Import ListNotations.
Open Scope Z_scope.

Theorem route_result_heap_wf4_l : forall nf h root r fuel s' y,
  (r = RDeep \/ exists ns, r = RScoped ns) ->
  wf_heap h (route_seeds h r) = true -> wf_heap2 h = true -> wf_heap3 h = true -> wf_heap4 h = true ->
  memz root (owned_list h) = false -> root_ok4 h root = true -> 0 <= root < hlen h -> (length h < fuel)%nat ->
  run nf fuel h root r = Ok (s', R y) ->
  wf_heap4 (sh s') = true /\ root_ok4 (sh s') y = true /\ memz y (owned_list (sh s')) = false
  /\ 0 <= y < hlen (sh s').
Proof.
  intros nf h root r fuel s' y RT WF WF2 WF3 WF4 NO R4 Hr Hf E.
  assert (E' : run_seeded nf fuel h (route_seeds h r) root = Ok (s', R y)).
  { destruct RT as [RT|[ns RT]]; subst r; exact E. }
  split.
  - exact (result_heap_wf4_l nf h _ root fuel s' y WF WF2 WF3 WF4 NO Hr Hf E').
  - exact (result_root_ok4_l nf h _ root fuel s' y WF WF2 WF3 WF4 NO R4 Hr Hf E').
Qed.
