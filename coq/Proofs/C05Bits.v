(* C05: masks as sets: Z.land / Z.lor algebra, OR of a list, powers of two *)
From Coq Require Import ZArith List Bool Lia.
From DV Require Import Model.PyPrims Gen.BitFns Model.C05Model.
Import ListNotations.
Open Scope Z_scope.

Definition sub (a b : Z) : Prop := Z.land a b = a.
Definition disj (a b : Z) : Prop := Z.land a b = 0.
Definition nd (a b : Z) : Prop := disj a b \/ sub a b \/ sub b a.

Ltac zbits :=
  unfold sub, disj in *;
  apply Z.bits_inj'; let n := fresh "n" in let Hn := fresh "Hn" in intros n Hn;
  repeat match goal with
         | H : @eq Z _ _ |- _ => apply (f_equal (fun z => Z.testbit z n)) in H; cbv beta in H
         end;
  repeat (rewrite ?Z.land_spec, ?Z.lor_spec, ?Z.lxor_spec, ?Z.bits_0 in * );
  repeat match goal with H : @eq bool _ _ |- _ => revert H end;
  repeat match goal with |- context [Z.testbit ?v n] => destruct (Z.testbit v n) end;
  simpl; intros; try reflexivity; try congruence.

Lemma contains_sub m s : contains m s = true <-> sub s m.
Proof. unfold contains, sub. apply Z.eqb_eq. Qed.

Lemma sub_refl a : sub a a.
Proof. unfold sub. apply Z.land_diag. Qed.

Lemma sub_trans a b c : sub a b -> sub b c -> sub a c.
Proof. intros H1 H2. zbits. Qed.

Lemma sub_antisym a b : sub a b -> sub b a -> a = b.
Proof. intros H1 H2. zbits. Qed.

Lemma disj_sym a b : disj a b -> disj b a.
Proof. intro H. zbits. Qed.

Lemma disj_sub a b c : disj a b -> sub c a -> disj c b.
Proof. intros H1 H2. zbits. Qed.

Lemma disj_sub_r a b c : disj a b -> sub c b -> disj a c.
Proof. intros H1 H2. zbits. Qed.

Lemma sub_disj_zero a b : sub a b -> disj a b -> a = 0.
Proof. intros H1 H2. zbits. Qed.

Lemma sub_lor_l a b : sub a (Z.lor a b).
Proof. zbits. Qed.
Lemma sub_lor_r a b : sub b (Z.lor a b).
Proof. zbits. Qed.
Lemma lor_sub a b s : sub a s -> sub b s -> sub (Z.lor a b) s.
Proof. intros H1 H2. zbits. Qed.
Lemma lor_disj a b s : disj a s -> disj b s -> disj (Z.lor a b) s.
Proof. intros H1 H2. zbits. Qed.
Lemma sub_lor_disj s a b : sub s (Z.lor a b) -> disj a s -> sub s b.
Proof. intros H1 H2. zbits. Qed.
Lemma sub_zero a : sub a 0 -> a = 0.
Proof. intro H. zbits. Qed.

Lemma nd_sym a b : nd a b -> nd b a.
Proof. intros [H | [H | H]]; [left; now apply disj_sym | right; now right | right; now left]. Qed.

(* ---- OR of a list *)
Definition orl (l : list Z) : Z := fold_left Z.lor l 0.

Lemma orl_fold l : forall a, fold_left Z.lor l a = Z.lor a (orl l).
Proof.
  unfold orl. induction l as [|x r IH]; intro a; simpl.
  - now rewrite Z.lor_0_r.
  - rewrite IH, (IH x). now rewrite Z.lor_assoc.
Qed.

Lemma orl_cons x l : orl (x :: l) = Z.lor x (orl l).
Proof. unfold orl at 1. simpl. apply orl_fold. Qed.

Lemma orl_app a b : orl (a ++ b) = Z.lor (orl a) (orl b).
Proof.
  induction a as [|x r IH]; simpl.
  - reflexivity.
  - rewrite !orl_cons, IH. now rewrite Z.lor_assoc.
Qed.

Lemma sub_orl_in x l : In x l -> sub x (orl l).
Proof.
  induction l as [|y r IH]; intros []; rewrite orl_cons.
  - subst. apply sub_lor_l.
  - eapply sub_trans; [now apply IH | apply sub_lor_r].
Qed.

Lemma orl_sub l s : (forall x, In x l -> sub x s) -> sub (orl l) s.
Proof.
  induction l as [|y r IH]; intro H.
  - reflexivity.
  - rewrite orl_cons. apply lor_sub; [apply H; now left | apply IH; intros; apply H; now right].
Qed.

Lemma orl_disj l s : (forall x, In x l -> disj x s) -> disj (orl l) s.
Proof.
  induction l as [|y r IH]; intro H.
  - reflexivity.
  - rewrite orl_cons. apply lor_disj; [apply H; now left | apply IH; intros; apply H; now right].
Qed.

Lemma orl_partition {A} (f : A -> Z) (p : A -> bool) l :
  orl (map f l) = Z.lor (orl (map f (filter p l))) (orl (map f (filter (fun x => negb (p x)) l))).
Proof.
  induction l as [|x r IH]; simpl.
  - reflexivity.
  - destruct (p x); simpl; rewrite !orl_cons, IH.
    + now rewrite Z.lor_assoc.
    + rewrite !Z.lor_assoc. f_equal. apply Z.lor_comm.
Qed.

Lemma orl_testbit l j : Z.testbit (orl l) j = true -> exists x, In x l /\ Z.testbit x j = true.
Proof.
  induction l as [|y r IH]; intro H.
  - unfold orl in H. simpl in H. rewrite Z.bits_0 in H. discriminate.
  - rewrite orl_cons, Z.lor_spec in H. apply orb_true_iff in H. destruct H as [H|H].
    + exists y. split; [now left | assumption].
    + destruct (IH H) as [x [I T]]. exists x. split; [now right | assumption].
Qed.

Lemma orl_nonneg l : (forall x, In x l -> 0 <= x) -> 0 <= orl l.
Proof.
  induction l as [|y r IH]; intro H.
  - unfold orl. simpl. lia.
  - rewrite orl_cons. apply Z.lor_nonneg. split; [apply H; now left | apply IH; intros; apply H; now right].
Qed.

(* ---- pairwise disjoint *)
Fixpoint pdisj (l : list Z) : Prop :=
  match l with [] => True | x :: r => (forall y, In y r -> disj x y) /\ pdisj r end.

Lemma pdisj_in l : pdisj l -> forall l1 x l2, l = l1 ++ x :: l2 -> forall y, In y (l1 ++ l2) -> disj x y.
Proof.
  induction l as [|z r IH]; intros P l1 x l2 E y I.
  - destruct l1; discriminate.
  - destruct P as [P1 P2]. destruct l1 as [|w l1]; simpl in E; inversion E; subst.
    + now apply P1.
    + simpl in I. destruct I as [I|I].
      * subst. apply disj_sym. apply P1. apply in_or_app. right. now left.
      * eapply IH; [exact P2 | reflexivity | exact I].
Qed.

Lemma pdisj_map_filter {A} (f : A -> Z) (p : A -> bool) l : pdisj (map f l) -> pdisj (map f (filter p l)).
Proof.
  induction l as [|x r IH]; simpl; intro P; [exact I|].
  destruct P as [P1 P2]. destruct (p x); simpl; [|now apply IH].
  split; [|now apply IH]. intros y Iy. apply P1. apply in_map_iff in Iy. destruct Iy as [z [E Iz]].
  apply filter_In in Iz. apply in_map_iff. exists z. tauto.
Qed.

Lemma pdisj_snoc l s : pdisj l -> (forall x, In x l -> disj x s) -> pdisj (l ++ [s]).
Proof.
  induction l as [|x r IH]; simpl; intros P H.
  - split; [intros y [] | exact I].
  - destruct P as [P1 P2]. split.
    + intros y Iy. apply in_app_or in Iy. destruct Iy as [Iy | [Iy | []]]; [now apply P1 | subst; apply H; now left].
    + apply IH; [assumption | intros; apply H; now right].
Qed.

(* ---- powers of two *)
Definition atom (b : Z) : Prop := b <> 0 /\ forall s, Z.land b s = 0 \/ Z.land b s = b.

Lemma pow2_land i s : 0 <= i -> Z.land (2 ^ i) s = if Z.testbit s i then 2 ^ i else 0.
Proof.
  intro Hi. apply Z.bits_inj'. intros n Hn. rewrite Z.land_spec, Z.pow2_bits_eqb by assumption.
  destruct (Z.eqb_spec i n) as [E|E].
  - subst. destruct (Z.testbit s n); [now rewrite Z.pow2_bits_eqb, Z.eqb_refl | now rewrite Z.bits_0].
  - simpl. destruct (Z.testbit s i); [|now rewrite Z.bits_0].
    rewrite Z.pow2_bits_eqb by assumption. symmetry. now apply Z.eqb_neq.
Qed.

Lemma pow2_atom i : 0 <= i -> atom (2 ^ i).
Proof.
  intro Hi. split.
  - pose proof (Z.pow_pos_nonneg 2 i). lia.
  - intro s. rewrite pow2_land by assumption. destruct (Z.testbit s i); tauto.
Qed.

Lemma pow2_single i : 0 <= i -> is_single (2 ^ i) = true.
Proof.
  intro Hi. unfold is_single. apply Z.eqb_eq. rewrite Z.land_comm, pow2_land by assumption.
  replace (2 ^ i - 1) with (Z.pred (2 ^ i)) by lia. rewrite <- Z.ones_equiv.
  rewrite Z.ones_spec_high by lia. reflexivity.
Qed.

Lemma single_pow2 c : 0 < c -> is_single c = true -> exists j, 0 <= j /\ c = 2 ^ j.
Proof.
  intros P S. unfold is_single in S. apply Z.eqb_eq in S.
  set (j := Z.log2 c). assert (Hj : 0 <= j) by apply Z.log2_nonneg.
  destruct (Z.log2_spec c P) as [L U]. fold j in L, U.
  exists j. split; [assumption|].
  destruct (Z.eq_dec c (2 ^ j)) as [E|E]; [assumption|]. exfalso.
  assert (L2 : Z.log2 (c - 1) = j).
  { apply Z.log2_unique; [assumption|]. replace (Z.succ j) with (j + 1) in U by lia. lia. }
  assert (T1 : Z.testbit (c - 1) j = true) by (rewrite <- L2; apply Z.bit_log2; lia).
  assert (T2 : Z.testbit c j = true) by (apply Z.bit_log2; assumption).
  assert (T : Z.testbit (Z.land (c - 1) c) j = true) by (rewrite Z.land_spec, T1, T2; reflexivity).
  rewrite S, Z.bits_0 in T. discriminate.
Qed.

Lemma pow2_disj i j : 0 <= i -> 0 <= j -> i <> j -> disj (2 ^ i) (2 ^ j).
Proof.
  intros Hi Hj N. unfold disj. rewrite pow2_land by assumption. rewrite Z.pow2_bits_eqb by assumption.
  destruct (Z.eqb_spec j i); [congruence | reflexivity].
Qed.
