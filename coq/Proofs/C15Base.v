(* C15: basic lemmas - Python list primitives, generator results, the fuelled runner,
   induction over located nodes, unfolding equations of the structural specifications. *)
From Coq Require Import ZArith List Bool Arith Lia Permutation.
From DV Require Import Model.PyPrims Model.Tree Model.C15Prims Model.C15Model.
Import ListNotations.
Open Scope nat_scope.

(* ---------- Python lists ---------- *)
Lemma py_pop_last_snoc {A} (l : list A) x : py_pop_last (l ++ [x]) = Some (x, l).
Proof. unfold py_pop_last. rewrite rev_app_distr. simpl. rewrite rev_involutive. reflexivity. Qed.

Lemma py_pop_last_nil {A} : @py_pop_last A [] = None.
Proof. reflexivity. Qed.

Lemma py_is_empty_snoc {A} (l : list A) x : py_is_empty (l ++ [x]) = false.
Proof. destruct l; reflexivity. Qed.

Lemma py_is_empty_map {A B} (f : A -> B) l : py_is_empty (map f l) = py_is_empty l.
Proof. destruct l; reflexivity. Qed.

Lemma py_len_pos_cons {A} (x : A) l : Z.gtb (py_len (x :: l)) 0%Z = true.
Proof. unfold py_len. apply Z.gtb_lt. simpl length. lia. Qed.

Lemma py_len_nil {A} : Z.gtb (py_len (@nil A)) 0%Z = false.
Proof. reflexivity. Qed.

Lemma py_len_eq0 {A} (l : list A) : Z.eqb (py_len l) 0%Z = py_is_empty l.
Proof. destruct l; [reflexivity|]. unfold py_len. apply Z.eqb_neq. simpl length. lia. Qed.

Lemma py_index_last {A} (l : list A) x : py_index (l ++ [x]) (-1)%Z = Some x.
Proof.
  unfold py_index, py_len. replace (Z.ltb (-1) 0)%Z with true by reflexivity. cbv iota.
  rewrite app_length. simpl length.
  replace (Z.of_nat (length l + 1) + -1)%Z with (Z.of_nat (length l)) by lia.
  destruct (Z.ltb_spec (Z.of_nat (length l)) 0%Z); [lia|].
  rewrite Nat2Z.id. rewrite nth_error_app2 by lia. rewrite Nat.sub_diag. reflexivity.
Qed.

Lemma py_index_nil {A} i : @py_index A [] i = None.
Proof.
  unfold py_index, py_len. simpl length. destruct (Z.ltb_spec i 0%Z).
  - destruct (Z.ltb_spec (Z.of_nat 0 + i)%Z 0%Z); [reflexivity|lia].
  - destruct (Z.to_nat i); reflexivity.
Qed.

(* ---------- list helpers ---------- *)
Lemma filter_flat_map {A B} (f : B -> bool) (g : A -> list B) l :
  filter f (flat_map g l) = flat_map (fun x => filter f (g x)) l.
Proof. induction l as [|x r IH]; simpl; [reflexivity|]. rewrite filter_app, IH. reflexivity. Qed.

Lemma flat_map_if_filter {A} (f : A -> bool) l :
  flat_map (fun x => if f x then [x] else []) l = filter f l.
Proof. induction l as [|x r IH]; simpl; [reflexivity|]. rewrite IH. destruct (f x); reflexivity. Qed.

Lemma flat_map_singleton {A} (l : list A) : flat_map (fun x => [x]) l = l.
Proof. induction l as [|x r IH]; simpl; [reflexivity|]. rewrite IH. reflexivity. Qed.

Lemma flat_map_single_map {A B} (g : A -> B) (l : list A) : flat_map (fun x => [g x]) l = map g l.
Proof. induction l as [|x r IH]; simpl; [reflexivity|]. rewrite IH. reflexivity. Qed.

Lemma flat_map_ext_Forall {A B} (g h : A -> list B) l :
  Forall (fun x => g x = h x) l -> flat_map g l = flat_map h l.
Proof. induction 1 as [|x r Hx _ IH]; simpl; [reflexivity|]. rewrite Hx, IH. reflexivity. Qed.

Lemma filter_filter {A} (f g : A -> bool) l : filter f (filter g l) = filter (fun x => g x && f x) l.
Proof.
  induction l as [|x r IH]; simpl; [reflexivity|].
  destruct (g x); simpl; [destruct (f x)|]; rewrite ?IH; reflexivity.
Qed.

Lemma filter_true {A} (l : list A) : filter (fun _ => true) l = l.
Proof. induction l as [|x r IH]; simpl; [reflexivity|]. rewrite IH. reflexivity. Qed.

Lemma filter_map_comm {A B} (g : A -> B) (f : B -> bool) l :
  filter f (map g l) = map g (filter (fun x => f (g x)) l).
Proof. induction l as [|x r IH]; simpl; [reflexivity|]. destruct (f (g x)); simpl; rewrite IH; reflexivity. Qed.

(* ---------- generator results ---------- *)
Lemma gprepend_nil {O} (g : gres O) : gprepend [] g = g.
Proof. destruct g; reflexivity. Qed.

Lemma gprepend_app {O} (a b : list O) g : gprepend a (gprepend b g) = gprepend (a ++ b) g.
Proof. destruct g; simpl; rewrite ?app_assoc; reflexivity. Qed.

Lemma gprepend_done {O} (a b : list O) : gprepend a (GDone b) = GDone (a ++ b).
Proof. reflexivity. Qed.

(* ---------- the runner ---------- *)
Section Run.
  Context {St O : Type} (step : St -> sres St O).

  Lemma run_S fuel s :
    run step (S fuel) s =
    match step s with
    | SStop out => GDone out
    | SNext s' out => gprepend out (run step fuel s')
    | SRaise out e => GRaise out e
    end.
  Proof. reflexivity. Qed.

  Lemma run_next fuel s s' out : step s = SNext s' out -> run step (S fuel) s = gprepend out (run step fuel s').
  Proof. intro H. rewrite run_S, H. reflexivity. Qed.

  Lemma run_stop fuel s out : step s = SStop out -> run step (S fuel) s = GDone out.
  Proof. intro H. rewrite run_S, H. reflexivity. Qed.

  (* a stack machine whose element x costs `cost x` steps and then leaves the rest of the stack
     untouched processes a pushed (reversed) list left to right *)
  Context {E X : Type} (mk : list E -> St) (inj : X -> E) (cost : X -> nat) (outp : X -> list O).

  Lemma run_stack_list ks :
    Forall (fun x => forall fuel stack,
                run step (cost x + fuel) (mk (stack ++ [inj x]))
                = gprepend (outp x) (run step fuel (mk stack))) ks ->
    forall fuel stack,
      run step (fold_right (fun x a => cost x + a) 0 ks + fuel) (mk (stack ++ rev (map inj ks)))
      = gprepend (flat_map outp ks) (run step fuel (mk stack)).
  Proof.
    induction 1 as [|x r Hx _ IH]; intros fuel stack.
    - simpl. rewrite app_nil_r, gprepend_nil. reflexivity.
    - simpl map. simpl rev. simpl fold_right. simpl flat_map.
      rewrite app_assoc, <- Nat.add_assoc, Hx, IH, gprepend_app. reflexivity.
  Qed.
End Run.

(* ---------- located nodes ---------- *)
Definition lsize (n : lnode) : nat := size (here n).
Definition fsize (q : list lnode) : nat := fold_right (fun k a => lsize k + a) 0 q.

Lemma l_kids_from_here j t up ks : map here (l_kids_from j t up ks) = ks.
Proof. revert j. induction ks as [|k r IH]; intro j; simpl; [reflexivity|]. rewrite IH. reflexivity. Qed.

Lemma l_kids_here n : map here (l_kids n) = t_kids (here n).
Proof. apply l_kids_from_here. Qed.

Lemma fsize_sizes q : fsize q = sizes (map here q).
Proof. induction q as [|k r IH]; simpl; [reflexivity|]. unfold sizes in *. simpl. rewrite <- IH. reflexivity. Qed.

Lemma lsize_unfold n : lsize n = S (fsize (l_kids n)).
Proof. rewrite fsize_sizes, l_kids_here. unfold lsize. destruct (here n). reflexivity. Qed.

Lemma lsize_pos n : 0 < lsize n.
Proof. apply size_pos. Qed.

Lemma fsize_app a b : fsize (a ++ b) = fsize a + fsize b.
Proof. induction a as [|k r IH]; simpl; [reflexivity|]. rewrite IH. lia. Qed.

Lemma fsize_flat_map_kids q : fsize q = length q + fsize (flat_map l_kids q).
Proof.
  induction q as [|k r IH]; simpl; [reflexivity|].
  rewrite fsize_app, lsize_unfold, IH. lia.
Qed.

Lemma lnode_ind (P : lnode -> Prop) : (forall n, Forall P (l_kids n) -> P n) -> forall n, P n.
Proof.
  intros H [t up]. revert up.
  induction t as [i x l e ks IH] using tree_ind'. intro up.
  apply H. unfold l_kids. simpl fst. simpl snd. simpl t_kids.
  generalize (T i x l e ks). generalize 0.
  induction IH as [|k r Hk _ IHr]; intros j t0; simpl; constructor; auto.
Qed.

(* children of a located node: index, parent, depth *)
Lemma l_kids_from_parent j t up ks :
  Forall (fun k => l_parent k = Some (t, up) /\ l_depth k = S (length up)) (l_kids_from j t up ks).
Proof. revert j. induction ks as [|k r IH]; intro j; simpl; constructor; auto. Qed.

Lemma l_kids_parent n : Forall (fun k => l_parent k = Some n /\ l_depth k = S (l_depth n)) (l_kids n).
Proof. destruct n as [t up]. apply l_kids_from_parent. Qed.

Lemma l_kids_empty n : py_is_empty (l_kids n) = is_leaf (here n).
Proof. rewrite <- (py_is_empty_map here), l_kids_here. reflexivity. Qed.

(* ---------- unfolding equations of the specifications ---------- *)
Lemma lfold_go_map {A} (f : lnode -> list A -> A) t0 up ks j :
  (fix go (ks : list tree) (j : nat) : list A :=
     match ks with
     | [] => []
     | k :: r => lfold f k ((t0, j) :: up) :: go r (S j)
     end) ks j
  = map (lfoldn f) (l_kids_from j t0 up ks).
Proof. revert j. induction ks as [|k r IH]; intro j; simpl; [reflexivity|]. rewrite IH. reflexivity. Qed.

Lemma lfoldn_unfold {A} (f : lnode -> list A -> A) n : lfoldn f n = f n (map (lfoldn f) (l_kids n)).
Proof.
  destruct n as [t up]. destruct t as [i x l e ks]. unfold lfoldn, l_kids. simpl.
  f_equal. apply lfold_go_map.
Qed.

Lemma lpre_unfold n : lpre n = n :: flat_map lpre (l_kids n).
Proof. unfold lpre. rewrite lfoldn_unfold. rewrite <- flat_map_concat_map. reflexivity. Qed.

Lemma lpost_unfold n : lpost n = flat_map lpost (l_kids n) ++ [n].
Proof. unfold lpost. rewrite lfoldn_unfold. rewrite <- flat_map_concat_map. reflexivity. Qed.

Lemma lleaves_unfold n : lleaves n = if l_is_leaf n then [n] else flat_map lleaves (l_kids n).
Proof.
  unfold lleaves, l_is_leaf. rewrite lfoldn_unfold.
  destruct (l_kids n) as [|k r]; [reflexivity|].
  change (py_is_empty (k :: r)) with false. cbv iota.
  rewrite <- flat_map_concat_map. reflexivity.
Qed.

Lemma lbrackets_unfold n :
  lbrackets n = if l_is_leaf n then [Leaf n]
                else Before n :: flat_map lbrackets (l_kids n) ++ [After n].
Proof.
  unfold lbrackets, l_is_leaf. rewrite lfoldn_unfold.
  destruct (l_kids n) as [|k r]; [reflexivity|].
  change (py_is_empty (k :: r)) with false. cbv iota.
  rewrite <- flat_map_concat_map. reflexivity.
Qed.

Lemma linorder_unfold f n :
  linorder f n =
  match l_kids n with
  | [] => GDone (if f n then [n] else [])
  | [a; b] => gseq (linorder f a) (gprepend (if f n then [n] else []) (linorder f b))
  | _ => GRaise [] TypeErr
  end.
Proof.
  unfold linorder. rewrite lfoldn_unfold.
  destruct (l_kids n) as [|a [|b [|c r]]]; reflexivity.
Qed.

Lemma linorder_list_unfold n :
  linorder_list n =
  match l_kids n with
  | [a; b] => linorder_list a ++ n :: linorder_list b
  | _ => [n]
  end.
Proof.
  unfold linorder_list. rewrite lfoldn_unfold.
  destruct (l_kids n) as [|a [|b [|c r]]]; reflexivity.
Qed.

(* the located specifications project to the plain ones of Model/Tree.v *)
Lemma flat_map_map_here (g : lnode -> list lnode) (h : tree -> list tree) q :
  Forall (fun k => map here (g k) = h (here k)) q ->
  map here (flat_map g q) = flat_map h (map here q).
Proof. induction 1 as [|k r Hk _ IH]; simpl; [reflexivity|]. rewrite map_app, Hk, IH. reflexivity. Qed.

Lemma lpre_here n : map here (lpre n) = preorder (here n).
Proof.
  induction n as [n IH] using lnode_ind. rewrite lpre_unfold. simpl map.
  rewrite (flat_map_map_here _ preorder _ IH), l_kids_here.
  destruct n as [[i x l e ks] up]. reflexivity.
Qed.

Lemma lpost_here n : map here (lpost n) = postorder (here n).
Proof.
  induction n as [n IH] using lnode_ind. rewrite lpost_unfold, map_app.
  rewrite (flat_map_map_here _ postorder _ IH), l_kids_here.
  destruct n as [[i x l e ks] up]. reflexivity.
Qed.

Lemma lleaves_here n : map here (lleaves n) = leaves (here n).
Proof.
  induction n as [n IH] using lnode_ind. rewrite lleaves_unfold. unfold l_is_leaf.
  rewrite l_kids_empty.
  pose proof (flat_map_map_here _ leaves _ IH) as E. rewrite l_kids_here in E.
  destruct n as [[i x l e ks] up]. unfold is_leaf. simpl here in *. simpl t_kids in *.
  destruct ks as [|k r]; [reflexivity|]. exact E.
Qed.
