(* C01, second wave: what Tree.from_split_bitmasks rebuilds from an encoding, for rooted and unrooted
   encodings and for namespaces that are larger than the tree's leaf set. *)
From Coq Require Import ZArith List Bool Lia ZifyBool Permutation.
From DV Require Import Model.PyPrims Model.Tree Gen.BitFns Model.C01Model
  Proofs.C01Bits Proofs.C01Enc Proofs.C01Bip Proofs.C01Topo Proofs.C01From Proofs.C01Unrooted Proofs.C01More.
Import ListNotations.
Open Scope Z_scope.

Lemma land1_zero m : Z.land 1 m = 0 <-> Z.testbit m 0 = false.
Proof.
  rewrite eq0_bits. split.
  - intro H. specialize (H 0 ltac:(lia)). rewrite Z.land_spec in H. change (Z.testbit 1 0) with true in H. exact H.
  - intros H i Hi. rewrite Z.land_spec. destruct (Z.eq_dec i 0) as [-> | N]; [rewrite H; reflexivity|].
    change 1 with (2 ^ 0). rewrite Z.pow2_bits_eqb by lia. destruct (Z.eqb_spec 0 i); [lia | reflexivity].
Qed.

Section Recon.
  Variable acc : Z -> Z.
  Hypothesis Hnn : forall x, 0 <= acc x.
  Hypothesis Hinj : forall x y, acc x = acc y -> x = y.
  Variable ns : list (Z * Z).
  Hypothesis Hns : ns_ok acc ns.
  Hypothesis Hlen : (2 <= length ns)%nat.
  Variable count : Z.
  Hypothesis Hcount : forall p, In p ns -> snd p < count.

  Let R := m_mask (star_m ns).
  Let all := all_taxa_bitmask count.

  Lemma R_in_all : msubset R all.
  Proof.
    intros i Hi H. apply (root_bits acc Hnn ns Hns) in H. destruct H as (p & Hp & ->). unfold mem, all, all_taxa_bitmask.
    rewrite Z.shiftl_1_l. specialize (Hcount p Hp). pose proof (snd_nonneg acc Hnn ns Hns p Hp).
    replace (2 ^ count - 1) with (Z.ones count) by (rewrite Z.ones_equiv; lia).
    apply Z.ones_spec_low. lia.
  Qed.

  Lemma R_is_mask : R = mask_of acc (map (fun p => Some (fst p)) ns).
  Proof.
    unfold R, star_m. cbn [m_mask]. destruct Hns as [_ FA]. rewrite Forall_forall in FA. clear - FA Hnn.
    induction ns as [|p r IH]; [reflexivity|]. cbn [map mask_of fold_right leaf_mask].
    fold (mask_of acc (map (fun p => Some (fst p)) r)). rewrite <- IH by (intros q Hq; apply FA; right; exact Hq).
    rewrite taxon_bitmask_pow2 by apply Hnn. destruct (FA p (or_introl eq_refl)) as [_ ->]. reflexivity.
  Qed.

  (* the clades of the rebuilt tree, for any list of splits that lie inside the namespace's bits, are
     pairwise disjoint-or-nested and (when not rooted) do not contain bit 0 *)
  Lemma from_splits_clades rooted l :
    (forall y, In y l -> msubset y R) ->
    (is_true rooted = false -> forall y, In y l -> Z.testbit y 0 = false) ->
    (forall a b, In a l -> In b l -> laminar a b) ->
    forall y, In y (mclades (from_splits ns count rooted l)) <->
              (In y (mclades (star_m ns)) \/ (In y l /\ y <> all /\ Z.land (y - 1) y <> 0)).
  Proof.
    intros Sub B0 Lam.
    rewrite (from_splits_star acc ns Hns Hlen). fold all. set (L := splits_to_add rooted all l). set (t0 := star_m ns).
    assert (NZ : Forall (fun s => s <> 0) L) by apply splits_to_add_nonzero.
    pose proof (star_m_wf acc Hnn Hinj ns Hns Hlen) as W0. fold t0 in W0.
    rewrite (fold_add_filter L t0 W0 NZ). fold R.
    assert (CS : forall y, In y l -> Z.land y all = y).
    { intros y Hy. apply msubset_land. apply (msubset_trans _ R); [apply Sub; exact Hy | exact R_in_all]. }
    assert (InL : forall y, In y L <-> (In y l /\ y <> all /\ Z.land (y - 1) y <> 0)).
    { intro y. unfold L, splits_to_add. rewrite in_flat_map. split.
      - intros (s & Hs & Hy). cbv zeta in Hy. rewrite (CS s Hs) in Hy.
        destruct (negb (s =? all) && negb (Z.land (s - 1) s =? 0)) eqn:E; [| destruct Hy].
        apply andb_true_iff in E. destruct E as [E1 E2]. apply negb_true_iff in E1, E2. apply Z.eqb_neq in E1, E2.
        destruct (is_true rooted) eqn:HR; [destruct Hy as [<- | []]; tauto|].
        assert (Z.land 1 s = 0) by (apply land1_zero; apply (B0 eq_refl s Hs)).
        rewrite H in Hy. cbn in Hy. destruct Hy as [<- | []]. tauto.
      - intros (Hy & N1 & N2). exists y. split; [exact Hy|]. cbv zeta. rewrite (CS y Hy).
        apply Z.eqb_neq in N1, N2. rewrite N1, N2. cbn [negb andb].
        destruct (is_true rooted) eqn:HR; [left; reflexivity|].
        assert (Z.land 1 y = 0) by (apply land1_zero; apply (B0 eq_refl y Hy)). rewrite H. cbn. left. reflexivity. }
    assert (SubR : forall y, In y l -> sub_b R y = true).
    { intros y Hy. unfold sub_b. apply Z.eqb_eq. apply msubset_land. apply Sub. exact Hy. }
    intro y. rewrite fold_add_clades.
    - split.
      + intros [H | [H _]]; [left; exact H | right]. apply filter_In in H. apply InL. tauto.
      + intros [H | H]; [left; exact H | right]. split; [apply filter_In; split; [apply InL; exact H | apply SubR; tauto]|].
        fold R. apply Sub. tauto.
    - exact W0.
    - apply Forall_forall. intros s Hs. apply filter_In in Hs. rewrite Forall_forall in NZ. apply NZ. tauto.
    - intros s z Hs Hz. apply filter_In in Hs. apply (star_lam acc Hnn ns Hns); tauto.
    - apply FOP_of_all. intros a b Ha Hb. apply filter_In in Ha, Hb. destruct Ha as [Ha _], Hb as [Hb _].
      apply InL in Ha, Hb. apply Lam; tauto.
  Qed.

  (* the rebuilt working tree as a rose tree *)
  Lemma rebuilt_tree rooted l :
    let r := from_splits ns count rooted l in
    clades acc (to_tree r) = mclades r /\ leaves_ok (to_tree r) = true /\ cmask acc (to_tree r) = R /\
    Permutation (leaf_taxa (to_tree r)) (map (fun p => Some (fst p)) ns).
  Proof.
    intro r. unfold r. rewrite (from_splits_star acc ns Hns Hlen).
    set (L := splits_to_add rooted (all_taxa_bitmask count) l).
    assert (NZ : Forall (fun s => s <> 0) L) by apply splits_to_add_nonzero.
    destruct (built_facts acc Hnn Hinj ns Hns Hlen L NZ) as (W & LO & LK & PT).
    split; [apply (built_clades acc Hnn Hinj ns Hns Hlen L NZ)|]. split; [exact LK|]. split; [| exact PT].
    rewrite (cmask_to_tree acc Hnn _ W LO).
    destruct (fold_add_facts L (star_m ns) (star_m_wf acc Hnn Hinj ns Hns Hlen) NZ) as (_ & M & _). exact M.
  Qed.

  (* ---------------------------------------------------------------------------------------- *)
  (* the tree and the members of the namespace that are not on it                              *)

  Variable t : tree.
  Variable extras : list Z.
  Hypothesis LK : leaves_ok t = true.
  Hypothesis PT : Permutation (leaf_taxa t ++ map Some extras) (map (fun p => Some (fst p)) ns).

  Let S := cmask acc t.
  Definition extra_leaf (x : Z) : tree := T 0 (Some x) None None [].
  (* what from_split_bitmasks builds from a rooted encoding: the tree as one clade next to the extra
     members (for no extra member: the tree below a unifurcation, i.e. the tree) *)
  Definition t_ext : tree := T 0 None None None (t :: map extra_leaf extras).

  Lemma t_ext_taxa : leaf_taxa t_ext = leaf_taxa t ++ map Some extras.
  Proof.
    assert (G : forall xs : list Z, flat_map leaf_taxa (map extra_leaf xs) = map Some xs).
    { induction xs as [|x r IH]; [reflexivity|]. cbn [map flat_map extra_leaf leaf_taxa app]. rewrite IH. reflexivity. }
    unfold t_ext. rewrite leaf_taxa_node. cbn [flat_map]. rewrite G. reflexivity.
  Qed.

  Lemma ns_taxa_NoDup : NoDup (map (fun p : Z * Z => Some (fst p)) ns).
  Proof.
    destruct Hns as [ND _]. rewrite <- (map_map fst Some). apply FinFun.Injective_map_NoDup; [| exact ND].
    intros a b E. inversion E. reflexivity.
  Qed.

  Lemma t_ext_ok : leaves_ok t_ext = true.
  Proof.
    apply (leaves_ok_of_perm t_ext (map (fun p => Some (fst p)) ns)); [rewrite t_ext_taxa; exact PT | | exact ns_taxa_NoDup].
    apply forallb_forall. intros x Hx. apply in_map_iff in Hx. destruct Hx as (p & <- & _). reflexivity.
  Qed.

  Lemma t_ext_mask : cmask acc t_ext = R.
  Proof. unfold cmask. rewrite t_ext_taxa, R_is_mask. apply mask_of_perm. exact PT. Qed.

  Lemma S_in_R : msubset S R.
  Proof. rewrite <- t_ext_mask. unfold S, t_ext. apply child_subset. left. reflexivity. Qed.

  Lemma extra_bit_outside x : In x extras -> Z.testbit S (acc x) = false.
  Proof.
    intro Hx. destruct (Z.testbit S (acc x)) eqn:E; [exfalso | reflexivity].
    apply (mask_of_testbit acc (leaf_taxa t) (acc x) (fun z _ => Hnn z) (Hnn x)) in E. destruct E as (y & Hy & Ey).
    apply Hinj in Ey. subst y.
    assert (ND : NoDup (leaf_taxa t ++ map Some extras)) by (apply (Permutation_NoDup (Permutation_sym PT)); exact ns_taxa_NoDup).
    apply (NoDup_app_disjoint _ _ (Some x) ND Hy). apply in_map. exact Hx.
  Qed.

  Lemma star_clade_in_ext y : In y (mclades (star_m ns)) -> In y (clades acc t_ext).
  Proof.
    intro H. apply (star_m_clades ns) in H. destruct H as [(p & Hp & ->) | ->].
    - destruct Hns as [_ FA]. rewrite Forall_forall in FA. destruct (FA p Hp) as [_ ->].
      apply leaf_clade; [exact Hnn|]. rewrite t_ext_taxa. apply (Permutation_in _ (Permutation_sym PT)).
      apply in_map_iff. exists p. split; [reflexivity | exact Hp].
    - fold R. rewrite <- t_ext_mask. apply cmask_in_clades.
  Qed.

  Lemma trivial_clade_in_star y : msubset y R -> y <> 0 -> (y = all \/ Z.land (y - 1) y = 0) -> In y (mclades (star_m ns)).
  Proof.
    intros Sub N0 [Ea | E1].
    - apply (star_m_clades ns). right. fold R. apply msubset_antisym; [exact Sub | rewrite Ea; exact R_in_all].
    - apply clear_lowest_eq0, at_most_one_cases in E1. destruct E1 as [E0 | (k & Hk & ->)]; [contradiction|].
      apply (star_m_clades ns). left. assert (H : mem R k) by (apply (Sub k Hk); unfold mem; apply Z.pow2_bits_true; exact Hk).
      apply (root_bits acc Hnn ns Hns) in H. destruct H as (p & Hp & ->). exists p. split; [exact Hp | reflexivity].
  Qed.

  Lemma trivial_dec y : (y = all \/ Z.land (y - 1) y = 0) \/ (y <> all /\ Z.land (y - 1) y <> 0).
  Proof. destruct (Z.eq_dec y all), (Z.eq_dec (Z.land (y - 1) y) 0); tauto. Qed.

  (* (2) rooted encoding, namespace possibly larger than the leaf set *)
  Lemma from_splits_rebuilds_rooted_ext_l rooted l :
    is_true rooted = true -> Permutation l (enc_splits (encode acc rooted t)) ->
    canon acc (to_tree (from_splits ns count rooted l)) = canon acc t_ext.
  Proof.
    intros HR PL. destruct (rebuilt_tree rooted l) as (CL & LKr & _ & _).
    apply (clades_iff_canon acc Hnn Hinj _ _ LKr t_ext_ok). rewrite CL.
    destruct (leaves_ok_parts t LK) as [_ ND].
    assert (InT : forall y, In y l <-> In y (clades acc t)).
    { intro y. rewrite <- (rooted_splits_are_clades acc rooted t HR y). split; intro H.
      - apply (Permutation_in _ PL H).
      - apply (Permutation_in _ (Permutation_sym PL) H). }
    intro y. rewrite from_splits_clades.
    - split.
      + intros [H | (H & _)]; [apply star_clade_in_ext; exact H|].
        apply InT in H. unfold t_ext. apply (child_clades_incl acc 0 None None None _ t y); [left; reflexivity | exact H].
      + intro Hy.
        assert (YS : msubset y R) by (rewrite <- t_ext_mask; apply clades_sub; exact Hy).
        assert (Y0 : y <> 0) by (intro E; subst y; apply (clades_no_zero acc Hnn Hinj t_ext t_ext_ok Hy)).
        destruct (trivial_dec y) as [Tr | NT]; [left; apply trivial_clade_in_star; assumption|].
        unfold t_ext in Hy. apply (in_clades_node acc) in Hy. destruct Hy as [(k & [<- | Hk] & Hy) | ->].
        * right. split; [apply InT; exact Hy | exact NT].
        * exfalso. apply in_map_iff in Hk. destruct Hk as (x & <- & _). unfold extra_leaf in Hy.
          rewrite clades_node in Hy. cbn [flat_map app] in Hy. destruct Hy as [<- | []].
          destruct NT as [_ NT]. apply NT. apply clear_lowest_eq0, at_most_one_cases. right.
          exists (acc x). split; [apply Hnn|]. rewrite (cmask_leaf acc). cbn [leaf_mask]. apply taxon_bitmask_pow2. apply Hnn.
        * left. apply (star_m_clades ns). right. fold t_ext. rewrite t_ext_mask. reflexivity.
    - intros z Hz. apply InT in Hz. apply (msubset_trans _ S); [apply clades_sub; exact Hz | exact S_in_R].
    - intro F. rewrite HR in F. discriminate.
    - intros a b Ha Hb. apply InT in Ha, Hb. apply (clades_laminar acc t Hnn Hinj ND); assumption.
  Qed.

  (* extra members are leaves attached to the root: their bit occurs in no clade but their own and
     the root's *)
  Lemma extras_at_root_gen rooted l :
    (forall y, In y l -> msubset y S) ->
    (is_true rooted = false -> forall y, In y l -> Z.testbit y 0 = false) ->
    (forall a b, In a l -> In b l -> laminar a b) ->
    forall x m, In x extras -> In m (clades acc (to_tree (from_splits ns count rooted l))) ->
      Z.testbit m (acc x) = true -> m = 2 ^ acc x \/ m = R.
  Proof.
    intros Sub B0 Lam x m Hx Hm Hb. destruct (rebuilt_tree rooted l) as (CL & _). rewrite CL in Hm.
    apply from_splits_clades in Hm; [| intros y Hy; apply (msubset_trans _ S); [apply Sub; exact Hy | exact S_in_R] | exact B0 | exact Lam].
    destruct Hm as [Hm | (Hm & _)].
    - apply (star_m_clades ns) in Hm. destruct Hm as [(p & Hp & ->) | ->]; [left | right; reflexivity].
      rewrite Z.pow2_bits_eqb in Hb by (apply (snd_nonneg acc Hnn ns Hns p Hp)). apply Z.eqb_eq in Hb. rewrite Hb. reflexivity.
    - exfalso. specialize (Sub m Hm (acc x) (Hnn x) Hb). unfold mem in Sub. rewrite (extra_bit_outside x Hx) in Sub. discriminate.
  Qed.

  Lemma uset_in_S y : In y (uset acc t) -> msubset y S.
  Proof. intro H. apply (uset_elem acc Hnn Hinj t y LK H). Qed.

  Lemma uset_bit0 y : In y (uset acc t) -> Z.testbit y 0 = false.
  Proof.
    intro H. destruct (uset_elem acc Hnn Hinj t y LK H) as (YS & YL & _).
    destruct (Z.testbit y 0) eqn:E; [exfalso | reflexivity].
    pose proof (leaves_ok_nonzero acc Hnn Hinj t LK) as SN.
    destruct (low_of_lowest acc t SN) as (L0 & _ & Lmin).
    assert (S0 : Z.testbit S 0 = true) by (apply (YS 0); [lia | exact E]).
    destruct (Z.eq_dec (low_of acc t) 0) as [E0 | N0]; [rewrite E0 in YL; congruence|].
    unfold S in S0. rewrite (Lmin 0) in S0 by lia. discriminate.
  Qed.

  (* (1)+(2), unrooted encoding: restricted to the tree's own taxa, the rebuilt tree has exactly the
     tree's unrooted splits *)
  Lemma from_splits_unrooted_restriction_l rooted l :
    is_true rooted = false -> Permutation l (enc_splits (encode acc rooted t)) ->
    set_eq (map (fun m => norm S (Z.land m S)) (clades acc (to_tree (from_splits ns count rooted l))))
           (uset acc t).
  Proof.
    intros HR PL. destruct (rebuilt_tree rooted l) as (CL & _). rewrite CL.
    pose proof (leaves_ok_nonzero acc Hnn Hinj t LK) as SN. fold S in SN.
    pose proof (low_of_lowest acc t SN) as Hl. fold S in Hl. pose proof Hl as (L0 & L1 & _).
    assert (InU : forall y, In y l <-> In y (uset acc t)).
    { intro y. rewrite <- (unrooted_splits_are_uset acc rooted t Hnn Hinj HR LK y). split; intro H.
      - apply (Permutation_in _ PL H).
      - apply (Permutation_in _ (Permutation_sym PL) H). }
    assert (CLr : forall y, In y (mclades (from_splits ns count rooted l)) <->
                            (In y (mclades (star_m ns)) \/ (In y l /\ y <> all /\ Z.land (y - 1) y <> 0))).
    { apply from_splits_clades.
      - intros y Hy. apply InU in Hy. apply (msubset_trans _ S); [apply uset_in_S; exact Hy | exact S_in_R].
      - intros _ y Hy. apply uset_bit0. apply InU. exact Hy.
      - intros a b Ha Hb. apply InU in Ha, Hb. apply (uset_laminar acc Hnn Hinj t a b LK Ha Hb). }
    assert (Z0 : In 0 (uset acc t)).
    { unfold uset. apply in_map_iff. exists S. split; [apply norm_full; exact SN | apply cmask_in_clades]. }
    assert (N00 : norm S 0 = 0).
    { rewrite (norm_value S _ 0 Hl). rewrite Z.bits_0. apply Z.land_0_l. }
    assert (SELF : forall y, In y (uset acc t) -> norm S (Z.land y S) = y).
    { intros y Hy. destruct (uset_elem acc Hnn Hinj t y LK Hy) as (YS & _ & YN).
      replace (Z.land y S) with y by (symmetry; apply msubset_land; exact YS). exact YN. }
    intro z. rewrite in_map_iff. split.
    - intros (y & <- & Hy). apply CLr in Hy. destruct Hy as [Hy | (Hy & _)].
      + apply (star_m_clades ns) in Hy. destruct Hy as [(p & Hp & ->) | ->].
        * destruct Hns as [_ FA]. rewrite Forall_forall in FA. destruct (FA p Hp) as [_ EP]. rewrite EP.
          assert (IN : In (Some (fst p)) (leaf_taxa t ++ map Some extras)).
          { apply (Permutation_in _ (Permutation_sym PT)). apply in_map_iff. exists p. split; [reflexivity | exact Hp]. }
          apply in_app_or in IN. destruct IN as [IN | IN].
          -- pose proof (leaf_clade acc t (fst p) Hnn IN) as C.
             replace (Z.land (2 ^ acc (fst p)) S) with (2 ^ acc (fst p))
               by (symmetry; apply msubset_land; apply clades_sub; exact C).
             unfold uset. apply in_map. exact C.
          -- apply in_map_iff in IN. destruct IN as (x & Ex & Hx). inversion Ex; subst x.
             replace (Z.land (2 ^ acc (fst p)) S) with 0; [rewrite N00; exact Z0|].
             symmetry. apply eq0_bits. intros i Hi. rewrite Z.land_spec, Z.pow2_bits_eqb by apply Hnn.
             destruct (Z.eqb_spec (acc (fst p)) i) as [<- | _]; [| reflexivity]. rewrite (extra_bit_outside _ Hx). reflexivity.
        * fold R. replace (Z.land R S) with S; [rewrite (norm_full S SN); exact Z0|].
          symmetry. rewrite Z.land_comm. apply msubset_land. exact S_in_R.
      + apply InU in Hy. rewrite (SELF y Hy). exact Hy.
    - intro Hz. destruct (uset_elem acc Hnn Hinj t z LK Hz) as (ZS & ZL & ZN). fold S in ZS, ZN.
      destruct (trivial_dec z) as [Tr | NT].
      + destruct (Z.eq_dec z 0) as [-> | N0].
        * exists R. split.
          -- replace (Z.land R S) with S by (symmetry; rewrite Z.land_comm; apply msubset_land; exact S_in_R).
             apply norm_full. exact SN.
          -- apply CLr. left. apply (star_m_clades ns). right. reflexivity.
        * exists z. split; [apply SELF; exact Hz|]. apply CLr. left.
          apply trivial_clade_in_star; [apply (msubset_trans _ S _ ZS S_in_R) | exact N0 | exact Tr].
      + exists z. split; [apply SELF; exact Hz|]. apply CLr. right. split; [apply InU; exact Hz | exact NT].
  Qed.

  Lemma extras_at_root_unrooted_l rooted l x m :
    is_true rooted = false -> Permutation l (enc_splits (encode acc rooted t)) ->
    In x extras -> In m (clades acc (to_tree (from_splits ns count rooted l))) ->
    Z.testbit m (acc x) = true -> m = 2 ^ acc x \/ m = R.
  Proof.
    intros HR PL. 
    assert (InU : forall y, In y l -> In y (uset acc t)).
    { intros y H. apply (unrooted_splits_are_uset acc rooted t Hnn Hinj HR LK y). apply (Permutation_in _ PL H). }
    apply extras_at_root_gen.
    - intros y Hy. apply uset_in_S. apply InU. exact Hy.
    - intros _ y Hy. apply uset_bit0. apply InU. exact Hy.
    - intros a b Ha Hb. apply (uset_laminar acc Hnn Hinj t a b LK (InU a Ha) (InU b Hb)).
  Qed.

  Lemma extras_at_root_rooted_l rooted l x m :
    is_true rooted = true -> Permutation l (enc_splits (encode acc rooted t)) ->
    In x extras -> In m (clades acc (to_tree (from_splits ns count rooted l))) ->
    Z.testbit m (acc x) = true -> m = 2 ^ acc x \/ m = R.
  Proof.
    intros HR PL. destruct (leaves_ok_parts t LK) as [_ ND].
    assert (InT : forall y, In y l -> In y (clades acc t)).
    { intros y H. apply (rooted_splits_are_clades acc rooted t HR y). apply (Permutation_in _ PL H). }
    apply extras_at_root_gen.
    - intros y Hy. apply clades_sub. apply InT. exact Hy.
    - intro F. rewrite HR in F. discriminate.
    - intros a b Ha Hb. apply (clades_laminar acc t Hnn Hinj ND); apply InT; assumption.
  Qed.

  (* restriction of the tree rebuilt from a rooted encoding to the tree's own taxa: the tree's clades *)
  Lemma from_splits_rooted_restriction_l rooted l :
    is_true rooted = true -> Permutation l (enc_splits (encode acc rooted t)) ->
    forall y, y <> 0 ->
      (In y (map (fun m => Z.land m S) (clades acc (to_tree (from_splits ns count rooted l)))) <-> In y (clades acc t)).
  Proof.
    intros HR PL y Y0.
    pose proof (from_splits_rebuilds_rooted_ext_l rooted l HR PL) as CE.
    destruct (rebuilt_tree rooted l) as (_ & LKr & _ & _).
    pose proof (proj2 (clades_iff_canon acc Hnn Hinj _ _ LKr t_ext_ok) CE) as SE.
    rewrite in_map_iff. split.
    - intros (m & <- & Hm). apply SE in Hm. unfold t_ext in Hm. apply (in_clades_node acc) in Hm.
      destruct Hm as [(k & [<- | Hk] & Hm) | ->].
      + replace (Z.land m S) with m by (symmetry; apply msubset_land; apply clades_sub; exact Hm). exact Hm.
      + exfalso. apply Y0. apply in_map_iff in Hk. destruct Hk as (x & <- & Hx). unfold extra_leaf in Hm.
        rewrite clades_node in Hm. cbn [flat_map app] in Hm. destruct Hm as [<- | []].
        rewrite (cmask_leaf acc). cbn [leaf_mask]. rewrite taxon_bitmask_pow2 by apply Hnn.
        apply eq0_bits. intros i Hi. rewrite Z.land_spec, Z.pow2_bits_eqb by apply Hnn.
        destruct (Z.eqb_spec (acc x) i) as [<- | _]; [| reflexivity]. rewrite (extra_bit_outside _ Hx). reflexivity.
      + fold t_ext. rewrite t_ext_mask. replace (Z.land R S) with S by (symmetry; rewrite Z.land_comm; apply msubset_land; exact S_in_R).
        apply cmask_in_clades.
    - intro Hy. exists y. split; [apply msubset_land; apply clades_sub; exact Hy|].
      apply SE. unfold t_ext. apply (child_clades_incl acc 0 None None None _ t y); [left; reflexivity | exact Hy].
  Qed.
End Recon.

(* (1) unrooted encoding, the namespace's members are exactly the tree's leaf taxa: the rebuilt tree
   has the tree's unrooted topology *)
Lemma from_splits_rebuilds_unrooted_l acc :
  (forall x, 0 <= acc x) -> (forall x y, acc x = acc y -> x = y) ->
  forall ns, ns_ok acc ns -> (2 <= length ns)%nat ->
  forall count, (forall p, In p ns -> snd p < count) ->
  forall t rooted l, leaves_ok t = true ->
  Permutation (leaf_taxa t) (map (fun p => Some (fst p)) ns) ->
  is_true rooted = false -> Permutation l (enc_splits (encode acc rooted t)) ->
  ucanon acc (suppress (to_tree (from_splits ns count rooted l))) = ucanon acc (suppress t).
Proof.
  intros Hnn Hinj ns Hns Hlen count Hcount t rooted l LK PT HR PL.
  assert (PT' : Permutation (leaf_taxa t ++ map Some []) (map (fun p => Some (fst p)) ns)) by (cbn [map]; rewrite app_nil_r; exact PT).
  destruct (rebuilt_tree acc Hnn Hinj ns Hns Hlen count rooted l) as (CL & LKr & CMr & _).
  assert (SR : cmask acc t = m_mask (star_m ns)).
  { rewrite <- (t_ext_mask acc Hnn ns Hns t [] PT'). unfold t_ext. cbn [map]. symmetry. apply cmask_single. }
  apply (usplits_iff_ucanon_full acc Hnn Hinj _ t LKr LK); [rewrite CMr; symmetry; exact SR|].
  pose proof (from_splits_unrooted_restriction_l acc Hnn Hinj ns Hns Hlen count Hcount t [] LK PT' rooted l HR PL) as RS.
  intro z. rewrite <- (RS z). unfold uset. rewrite CMr, <- SR. rewrite !in_map_iff.
  split; intros (m & <- & Hm); exists m; (split; [| exact Hm]).
  - f_equal. apply msubset_land. rewrite SR, <- CMr. apply clades_sub. exact Hm.
  - f_equal. symmetry. apply msubset_land. rewrite SR, <- CMr. apply clades_sub. exact Hm.
Qed.
