(* C16 - object-level model (Model/C16ObjModel.v): frame and refinement proofs.
   frame      : no statement of fitch_down_pass / fitch_up_pass / parsimony_score changes the contents of a
                list object that exists before the call (the heap only grows), whatever is aliased with what
   refinement : the value-level model of Model/C16Model.v is the abstraction (view) of the object-level one *)
From Coq Require Import ZArith List Bool Lia.
From DV Require Import Model.PyPrims Model.Tree Model.C16Model Model.C16ObjModel.
Import ListNotations.
Open Scope Z_scope.

Arguments alloc : simpl never.

Lemma lookup_In {A} k (l : list (Z * A)) v : lookup k l = Some v -> In (k, v) l.
Proof.
  induction l as [|[k' v'] r IH]; simpl; [discriminate|].
  destruct (Z.eqb_spec k k') as [->|N]; intro E.
  - injection E as <-. left; reflexivity.
  - right; auto.
Qed.

(* every allocated id is below the allocation counter *)
Definition wfh (h : heap) : Prop := forall o v, In (o, v) (h_objs h) -> o < h_next h.
(* h' extends h: every list object of h exists in h' with the same contents *)
Definition hext (h h' : heap) : Prop := forall o v, deref h o = Some v -> deref h' o = Some v.
(* every object referred to exists *)
Definition closed (h : heap) (l : list (Z * oid)) : Prop := Forall (fun ko => deref h (snd ko) <> None) l.

Lemma hext_refl h : hext h h. Proof. intros o v E; exact E. Qed.
Lemma hext_trans a b c : hext a b -> hext b c -> hext a c.
Proof. intros H1 H2 o v E. apply H2, H1, E. Qed.

Lemma alloc_spec h v : wfh h ->
  wfh (fst (alloc h v)) /\ hext h (fst (alloc h v)) /\ deref (fst (alloc h v)) (snd (alloc h v)) = Some v /\
  snd (alloc h v) = h_next h.
Proof.
  intro W. unfold alloc; simpl. repeat split.
  - intros o v0 [E|I]; simpl in *.
    + injection E as <- _. lia.
    + specialize (W _ _ I). lia.
  - intros o v0 E. unfold deref in *; simpl.
    destruct (Z.eqb_spec o (h_next h)) as [->|N]; [|exact E].
    apply lookup_In, W in E. lia.
  - unfold deref; simpl. rewrite Z.eqb_refl. reflexivity.
Qed.

Lemma derefd_ext h h' o : hext h h' -> deref h o <> None -> derefd h' o = derefd h o.
Proof.
  intros X L. unfold derefd. destruct (deref h o) as [v|] eqn:E; [|contradiction].
  rewrite (X _ _ E). reflexivity.
Qed.

Lemma live_ext h h' o : hext h h' -> deref h o <> None -> deref h' o <> None.
Proof. intros X L. destruct (deref h o) as [v|] eqn:E; [|contradiction]. rewrite (X _ _ E). discriminate. Qed.

Lemma closed_ext h h' l : hext h h' -> closed h l -> closed h' l.
Proof. intros X C. eapply Forall_impl; [|exact C]. intros ko L. eapply live_ext; eauto. Qed.

Lemma view_ext h h' a : hext h h' -> closed h a -> view h' a = view h a.
Proof.
  intros X C. induction C as [|ko r L _ IH]; simpl; [reflexivity|].
  rewrite IH, (derefd_ext _ _ _ X L). reflexivity.
Qed.

Lemma lookup_view h a k : lookup k (view h a) = option_map (derefd h) (lookup k a).
Proof.
  induction a as [|[k' o] r IH]; simpl; [reflexivity|].
  destruct (Z.eqb k k'); [reflexivity|exact IH].
Qed.

Lemma closed_lookup h a k o : closed h a -> lookup k a = Some o -> deref h o <> None.
Proof.
  intros C E. apply lookup_In in E. unfold closed in C. rewrite Forall_forall in C. exact (C _ E).
Qed.

Lemma map_get_mview h mm x : map_get (mview h mm) x = option_map (derefd h) (omap_get mm x).
Proof. destruct x as [x|]; simpl; [apply lookup_view|reflexivity]. Qed.

Lemma closed_omap_get h mm x o : closed h mm -> omap_get mm x = Some o -> deref h o <> None.
Proof. destruct x as [x|]; simpl; [apply closed_lookup|discriminate]. Qed.

Definition mclosed (h : heap) (m : option omap) : Prop :=
  match m with None => True | Some mm => closed h mm end.

Lemma mclosed_ext h h' m : hext h h' -> mclosed h m -> mclosed h' m.
Proof. destruct m; simpl; [apply closed_ext|auto]. Qed.

Lemma omview_ext h h' m : hext h h' -> mclosed h m -> omview h' m = omview h m.
Proof. destruct m as [mm|]; simpl; intros X C; [|reflexivity]. f_equal. apply (view_ext _ _ _ X C). Qed.

(* ---------- abstraction ---------- *)
Definition absp (p : opst) : pst := mkP (view (op_heap p) (op_store p)) (op_score p) (op_sbc p).
Definition abso (o : ooutcome) : outcome :=
  match o with ODone p => Done (absp p) | OFail p e => Fail (absp p) e end.
Definition ostate (o : ooutcome) : opst := match o with ODone p => p | OFail p _ => p end.

Definition inv (m : option omap) (p : opst) : Prop :=
  wfh (op_heap p) /\ closed (op_heap p) (op_store p) /\ mclosed (op_heap p) m.
Definition post (m : option omap) (p : opst) (o : ooutcome) : Prop :=
  inv m (ostate o) /\ hext (op_heap p) (op_heap (ostate o)).

Definition ares (h : heap) (r : res oid) : res ssl :=
  match r with Ok o => Ok (derefd h o) | Err e => Err e | OutOfFuel => OutOfFuel end.

Lemma oget_ss_sim h m a nd :
  get_ss (omview h m) (view h a) nd = (view h (fst (oget_ss m a nd)), ares h (snd (oget_ss m a nd))).
Proof.
  unfold get_ss, oget_ss. rewrite lookup_view.
  destruct (lookup (t_id nd) a) as [o|]; simpl; [reflexivity|].
  destruct m as [mm|]; simpl; [|reflexivity].
  rewrite map_get_mview. destruct (omap_get mm (t_taxon nd)) as [o|]; reflexivity.
Qed.

Lemma oget_ss_closed h m a nd : closed h a -> mclosed h m ->
  closed h (fst (oget_ss m a nd)) /\ (forall o, snd (oget_ss m a nd) = Ok o -> deref h o <> None).
Proof.
  intros C M. unfold oget_ss.
  destruct (lookup (t_id nd) a) as [o|] eqn:E; simpl.
  - split; [exact C|]. intros o' E'. injection E' as <-. eapply closed_lookup; eauto.
  - destruct m as [mm|]; simpl; [|split; [exact C|discriminate]].
    destruct (omap_get mm (t_taxon nd)) as [o|] eqn:G; simpl; [|split; [exact C|discriminate]].
    assert (L : deref h o <> None) by (eapply closed_omap_get; eauto).
    split; [constructor; [exact L|exact C]|]. intros o' E'. injection E' as <-. exact L.
Qed.

Lemma okids_sim m w nd : forall remaining left_ssl right_c p, inv m p ->
  abso (okids_loop m w nd left_ssl right_c remaining p) =
  kids_loop (omview (op_heap p) m) w nd left_ssl right_c remaining (absp p) /\
  post m p (okids_loop m w nd left_ssl right_c remaining p).
Proof.
  induction remaining as [|c rest IH]; intros left_ssl right_c p (W & C & M).
  - simpl. rewrite oget_ss_sim.
    destruct (oget_ss_closed _ _ _ right_c C M) as (C' & L).
    destruct (oget_ss m (op_store p) right_c) as [a' [ro|e|]]; simpl in *.
    + destruct (char_loop w 0 left_ssl (derefd (op_heap p) ro) [] (op_score p) (op_sbc p)) as [[[result sc] sb] [e|]].
      * split; [reflexivity|]. split; [repeat split; assumption|apply hext_refl].
      * destruct (alloc_spec (op_heap p) result W) as (W' & X & D & _).
        unfold alloc in *. cbn [fst snd] in *.
        set (h' := {| h_next := h_next (op_heap p) + 1; h_objs := (h_next (op_heap p), result) :: h_objs (op_heap p) |}) in *.
        assert (DD : derefd h' (h_next (op_heap p)) = result) by (unfold derefd; rewrite D; reflexivity).
        split.
        -- unfold abso, absp, st_set. cbn [view map fst snd op_heap op_store op_score op_sbc].
           rewrite DD. change (map (fun ko : Z * oid => (fst ko, derefd h' (snd ko))) a') with (view h' a').
           rewrite (view_ext _ _ _ X C'). reflexivity.
        -- split; [|exact X]. repeat split; simpl.
           ++ exact W'.
           ++ constructor; [simpl; rewrite D; discriminate|eapply closed_ext; eauto].
           ++ eapply mclosed_ext; eauto.
    + split; [reflexivity|]. split; [repeat split; assumption|apply hext_refl].
    + split; [reflexivity|]. split; [repeat split; assumption|apply hext_refl].
  - simpl. rewrite oget_ss_sim.
    destruct (oget_ss_closed _ _ _ right_c C M) as (C' & L).
    destruct (oget_ss m (op_store p) right_c) as [a' [ro|e|]]; simpl in *.
    + destruct (char_loop w 0 left_ssl (derefd (op_heap p) ro) [] (op_score p) (op_sbc p)) as [[[result sc] sb] [e|]].
      * split; [reflexivity|]. split; [repeat split; assumption|apply hext_refl].
      * apply (IH result c (mkOP (op_heap p) a' sc sb)). repeat split; assumption.
    + split; [reflexivity|]. split; [repeat split; assumption|apply hext_refl].
    + split; [reflexivity|]. split; [repeat split; assumption|apply hext_refl].
Qed.

Lemma onode_sim m w p nd : inv m p ->
  abso (onode_step m w p nd) = node_step (omview (op_heap p) m) w (absp p) nd /\
  post m p (onode_step m w p nd).
Proof.
  intros (W & C & M). unfold onode_step, node_step.
  destruct (t_kids nd) as [|left_c [|right_c remaining]].
  - destruct m as [mm|]; simpl.
    + rewrite map_get_mview. destruct (omap_get mm (t_taxon nd)) as [o|] eqn:G; simpl.
      * split; [reflexivity|]. split; [|apply hext_refl]. repeat split; simpl; try assumption.
        constructor; [simpl; eapply closed_omap_get; eauto|exact C].
      * split; [reflexivity|]. split; [repeat split; assumption|apply hext_refl].
    + change (@None matrix) with (omview (op_heap p) None). rewrite oget_ss_sim.
      destruct (oget_ss_closed (op_heap p) None (op_store p) nd C I) as (C' & _).
      destruct (oget_ss None (op_store p) nd) as [a' [ro|e|]]; simpl in *;
        (split; [reflexivity|]; split; [repeat split; assumption|apply hext_refl]).
  - split; [reflexivity|]. split; [repeat split; assumption|apply hext_refl].
  - unfold absp at 1; cbn [p_store p_score p_sbc]. rewrite oget_ss_sim.
    destruct (oget_ss_closed _ _ _ left_c C M) as (C' & L).
    destruct (oget_ss m (op_store p) left_c) as [a' [lo|e|]]; simpl in *.
    + apply (okids_sim m w nd remaining (derefd (op_heap p) lo) right_c (mkOP (op_heap p) a' (op_score p) (op_sbc p))).
      repeat split; assumption.
    + split; [reflexivity|]. split; [repeat split; assumption|apply hext_refl].
    + split; [reflexivity|]. split; [repeat split; assumption|apply hext_refl].
Qed.

Lemma orun_sim m w : forall nodes p, inv m p ->
  abso (orun_nodes m w nodes p) = run_nodes (omview (op_heap p) m) w nodes (absp p) /\
  post m p (orun_nodes m w nodes p).
Proof.
  induction nodes as [|nd rest IH]; intros p I.
  - simpl. split; [reflexivity|]. split; [exact I|apply hext_refl].
  - simpl. destruct (onode_sim m w p nd I) as (E & (I' & X)).
    rewrite <- E. destruct (onode_step m w p nd) as [p'|p' e]; simpl in *.
    + destruct (IH p' I') as (E' & (I'' & X')).
      rewrite E'. destruct I as (_ & _ & M). rewrite (omview_ext _ _ _ X M).
      split; [reflexivity|]. split; [exact I''|eapply hext_trans; eauto].
    + split; [reflexivity|]. split; [exact I'|exact X].
Qed.

Lemma length_derefd_row0 h (mm : omap) x o r : mm = (x, o) :: r ->
  match mview h mm with (_, row0) :: _ => length row0 | [] => O end = length (derefd h o).
Proof. intros ->. reflexivity. Qed.

Lemma odown_sim m w sbc h a t : wfh h -> closed h a -> mclosed h m ->
  abso (ofitch_down_pass m w sbc h a t) = fitch_down_pass (omview h m) w sbc (view h a) t /\
  post m (mkOP h a 0 None) (ofitch_down_pass m w sbc h a t).
Proof.
  intros W C M. unfold ofitch_down_pass, fitch_down_pass.
  destruct sbc.
  - destruct m as [[|[x o] r]|]; simpl omview.
    + split; [reflexivity|]. split; [repeat split; assumption|apply hext_refl].
    + simpl mview.
      apply (orun_sim (Some ((x, o) :: r)) w (postorder t) (mkOP h a 0 (Some (repeat 0 (length (derefd h o)))))).
      repeat split; assumption.
    + split; [reflexivity|]. split; [repeat split; assumption|apply hext_refl].
  - apply (orun_sim m w (postorder t) (mkOP h a 0 None)). repeat split; assumption.
Qed.

(* ---------- fitch_up_pass ---------- *)
Lemma oup_get_sim h m a nd : up_get (omview h m) (view h a) nd = oup_get m h a nd.
Proof.
  unfold up_get, oup_get. rewrite lookup_view.
  destruct (lookup (t_id nd) a) as [o|]; simpl; [reflexivity|].
  destruct m as [[|xo r]|]; simpl; try reflexivity.
  change ((fst xo, derefd h (snd xo)) :: mview h r) with (mview h (xo :: r)).
  rewrite map_get_mview. destruct (omap_get (xo :: r) (t_taxon nd)); reflexivity.
Qed.

Lemma oattr_get_sim h a nd : attr_get (view h a) nd = oattr_get h a nd.
Proof. unfold attr_get, oattr_get. rewrite lookup_view. destruct (lookup (t_id nd) a); reflexivity. Qed.

Definition oup_here (m : option omap) (h : heap) (a : astore) (t : tree) (parent : option tree)
  : (heap * astore) * option err :=
  match t_kids t, parent with
  | [], _ => ((h, a), None)
  | _, None => ((h, a), None)
  | [lc; rc], Some p =>
    match oup_get m h a lc with
    | Err er => ((h, a), Some er) | OutOfFuel => ((h, a), Some OtherErr)
    | Ok lss =>
      match oup_get m h a rc with
      | Err er => ((h, a), Some er) | OutOfFuel => ((h, a), Some OtherErr)
      | Ok rss =>
        match oattr_get h a p with
        | Err er => ((h, a), Some er) | OutOfFuel => ((h, a), Some OtherErr)
        | Ok pss =>
          match oattr_get h a t with
          | Err er => ((h, a), Some er) | OutOfFuel => ((h, a), Some OtherErr)
          | Ok css => let (h', o) := alloc h (zip4 pss css lss rss) in ((h', (t_id t, o) :: a), None)
          end
        end
      end
    end
  | _, Some _ => ((h, a), Some AssertErr)
  end.

Definition up_here_v (m : option matrix) (st : store) (t : tree) (parent : option tree) : store * option err :=
  match t_kids t, parent with
  | [], _ => (st, None)
  | _, None => (st, None)
  | [lc; rc], Some p =>
    match up_get m st lc with
    | Err er => (st, Some er) | OutOfFuel => (st, Some OtherErr)
    | Ok lss =>
      match up_get m st rc with
      | Err er => (st, Some er) | OutOfFuel => (st, Some OtherErr)
      | Ok rss =>
        match attr_get st p with
        | Err er => (st, Some er) | OutOfFuel => (st, Some OtherErr)
        | Ok pss =>
          match attr_get st t with
          | Err er => (st, Some er) | OutOfFuel => (st, Some OtherErr)
          | Ok css => (st_set st (t_id t) (zip4 pss css lss rss), None)
          end
        end
      end
    end
  | _, Some _ => (st, Some AssertErr)
  end.

Definition oup_go (m : option omap) (par : option tree) :=
  fix go (l : list tree) (s : heap * astore) : (heap * astore) * option err :=
    match l with
    | [] => (s, None)
    | k :: r =>
      match oup_walk m par k (fst s) (snd s) with
      | (s', Some er) => (s', Some er)
      | (s', None) => go r s'
      end
    end.

Definition up_go_v (m : option matrix) (par : option tree) :=
  fix go (l : list tree) (s : store) : store * option err :=
    match l with
    | [] => (s, None)
    | k :: r =>
      match up_walk m par k s with
      | (s', Some er) => (s', Some er)
      | (s', None) => go r s'
      end
    end.

Lemma oup_walk_unfold m parent i x lb e ks h a :
  oup_walk m parent (T i x lb e ks) h a =
  match oup_here m h a (T i x lb e ks) parent with
  | (ha1, Some er) => (ha1, Some er)
  | (ha1, None) => oup_go m (Some (T i x lb e ks)) ks ha1
  end.
Proof. reflexivity. Qed.

Lemma up_walk_unfold m parent i x lb e ks st :
  up_walk m parent (T i x lb e ks) st =
  match up_here_v m st (T i x lb e ks) parent with
  | (st1, Some er) => (st1, Some er)
  | (st1, None) => up_go_v m (Some (T i x lb e ks)) ks st1
  end.
Proof. reflexivity. Qed.

Definition uinv (m : option omap) (s : heap * astore) : Prop :=
  wfh (fst s) /\ closed (fst s) (snd s) /\ mclosed (fst s) m.
Definition absu (r : (heap * astore) * option err) : store * option err :=
  (view (fst (fst r)) (snd (fst r)), snd r).

Lemma oup_here_sim m h a t parent : uinv m (h, a) ->
  absu (oup_here m h a t parent) = up_here_v (omview h m) (view h a) t parent /\
  uinv m (fst (oup_here m h a t parent)) /\ hext h (fst (fst (oup_here m h a t parent))).
Proof.
  intros (W & C & M); simpl in W, C, M. unfold oup_here, up_here_v.
  assert (Same : forall er, absu ((h, a), er) = (view h a, er) /\ uinv m (fst ((h, a), er)) /\
                            hext h (fst (fst ((h, a), er)))).
  { intro er. split; [reflexivity|]. split; [repeat split; assumption|apply hext_refl]. }
  destruct (t_kids t) as [|lc [|rc [|more rest]]]; destruct parent as [p|]; try apply Same.
  rewrite !oup_get_sim, !oattr_get_sim.
  destruct (oup_get m h a lc) as [lss|er|]; try apply Same.
  destruct (oup_get m h a rc) as [rss|er|]; try apply Same.
  destruct (oattr_get h a p) as [pss|er|]; try apply Same.
  destruct (oattr_get h a t) as [css|er|]; try apply Same.
  destruct (alloc_spec h (zip4 pss css lss rss) W) as (W' & X & D & _).
  unfold alloc in *. cbn [fst snd] in *.
  set (h' := {| h_next := h_next h + 1; h_objs := (h_next h, zip4 pss css lss rss) :: h_objs h |}) in *.
  assert (DD : derefd h' (h_next h) = zip4 pss css lss rss) by (unfold derefd; rewrite D; reflexivity).
  split.
  - unfold absu, st_set. cbn [view map fst snd]. rewrite DD.
    change (map (fun ko : Z * oid => (fst ko, derefd h' (snd ko))) a) with (view h' a).
    rewrite (view_ext _ _ _ X C). reflexivity.
  - split; [|exact X]. repeat split; simpl.
    + exact W'.
    + constructor; [simpl; rewrite D; discriminate|eapply closed_ext; eauto].
    + eapply mclosed_ext; eauto.
Qed.

Lemma oup_walk_sim m : forall t parent h a, uinv m (h, a) ->
  absu (oup_walk m parent t h a) = up_walk (omview h m) parent t (view h a) /\
  uinv m (fst (oup_walk m parent t h a)) /\ hext h (fst (fst (oup_walk m parent t h a))).
Proof.
  induction t as [i x lb e ks IH] using tree_ind'. intros parent h a I.
  rewrite oup_walk_unfold, up_walk_unfold.
  destruct (oup_here_sim m h a (T i x lb e ks) parent I) as (E & I1 & X1).
  rewrite <- E. destruct (oup_here m h a (T i x lb e ks) parent) as [[h1 a1] [er|]]; unfold absu; cbn [fst snd] in *.
  - split; [reflexivity|]. split; assumption.
  - assert (Mx : omview h1 m = omview h m) by (destruct I as (_ & _ & M); apply (omview_ext _ _ _ X1 M)).
    rewrite <- Mx. clear E I. revert h1 a1 I1 X1 Mx.
    generalize (Some (T i x lb e ks)). intro par.
    induction IH as [|k r Hk _ IHr]; intros h1 a1 I1 X1 Mx; simpl.
    + split; [reflexivity|]. split; assumption.
    + destruct (Hk par h1 a1 I1) as (Ek & Ik & Xk).
      rewrite <- Ek. destruct (oup_walk m par k h1 a1) as [[h2 a2] [er|]]; unfold absu; cbn [fst snd] in *.
      * split; [reflexivity|]. split; [exact Ik|eapply hext_trans; eauto].
      * assert (Mk : omview h2 m = omview h1 m) by (destruct I1 as (_ & _ & M); apply (omview_ext _ _ _ Xk M)).
        rewrite <- Mk.
        destruct (IHr h2 a2 Ik (hext_trans _ _ _ X1 Xk)) as (Er & Ir & Xr).
        { rewrite Mk. exact Mx. }
        split; [exact Er|]. split; [exact Ir|exact Xr].
Qed.

Lemma oup_sim m h a t : wfh h -> closed h a -> mclosed h m ->
  absu (ofitch_up_pass m h a t) = fitch_up_pass (omview h m) (view h a) t /\
  uinv m (fst (ofitch_up_pass m h a t)) /\ hext h (fst (fst (ofitch_up_pass m h a t))).
Proof. intros W C M. apply oup_walk_sim. repeat split; assumption. Qed.

(* ---------- taxon_state_sets_map: new row objects ---------- *)
Lemma alloc_map_spec : forall m h, wfh h ->
  wfh (fst (alloc_map h m)) /\ hext h (fst (alloc_map h m)) /\
  closed (fst (alloc_map h m)) (snd (alloc_map h m)) /\ mview (fst (alloc_map h m)) (snd (alloc_map h m)) = m.
Proof.
  induction m as [|[x v] r IH]; intros h W.
  - simpl. repeat split; [exact W|apply hext_refl|constructor].
  - cbn [alloc_map]. destruct (alloc_spec h v W) as (W1 & X1 & D1 & _).
    destruct (alloc h v) as [h1 o]; cbn [fst snd] in *.
    destruct (IH h1 W1) as (W2 & X2 & C2 & V2).
    destruct (alloc_map h1 r) as [h2 om]; cbn [fst snd] in *.
    repeat split.
    + exact W2.
    + eapply hext_trans; eauto.
    + constructor; [simpl; rewrite (X2 _ _ D1); discriminate|exact C2].
    + simpl. rewrite V2. unfold derefd. rewrite (X2 _ _ D1). reflexivity.
Qed.

(* =====================================================================================
   Worlds: several tree objects, several caller-held maps
   ===================================================================================== *)
Definition wf_world (w : world) : Prop :=
  wfh (w_heap w) /\ Forall (closed (w_heap w)) (w_stores w) /\ Forall (closed (w_heap w)) (w_maps w).

(* the value-level reading of a world *)
Definition vstores (w : world) : list store := map (view (w_heap w)) (w_stores w).
Definition vmaps (w : world) : list matrix := map (mview (w_heap w)) (w_maps w).

Definition vheld (ms : list matrix) (k : option nat) : option (option matrix) :=
  match k with
  | None => Some None
  | Some i => match nth_error ms i with Some m => Some (Some m) | None => None end
  end.

Definition vresult (o : outcome) : store * (res Z * option (list Z)) :=
  match o with
  | Done p => (p_store p, (Ok (p_score p), p_sbc p))
  | Fail p e => (p_store p, (Err e, p_sbc p))
  end.

(* the same step in the value-level model of Model/C16Model.v: only the store of tree object ti changes *)
Definition vstep (ts : list tree) (sts : list store) (ms : list matrix) (ti : nat) (ap : hapi)
           (wt : option (list Z)) (sbc : bool) : list store * (res Z * option (list Z)) :=
  match nth_error ts ti, nth_error sts ti with
  | Some t, Some st =>
    match ap with
    | HScore m =>
      let (st', r) := vresult (fitch_down_pass (Some m) wt sbc st t) in (set_nth ti st' sts, r)
    | HDown k =>
      match vheld ms k with
      | None => (sts, (OutOfFuel, None))
      | Some om => let (st', r) := vresult (fitch_down_pass om wt sbc st t) in (set_nth ti st' sts, r)
      end
    | HUp k =>
      match vheld ms k with
      | None => (sts, (OutOfFuel, None))
      | Some om =>
        match fitch_up_pass om st t with
        | (st', None) => (set_nth ti st' sts, (Ok 0, None))
        | (st', Some e) => (set_nth ti st' sts, (Err e, None))
        end
      end
    end
  | _, _ => (sts, (OutOfFuel, None))
  end.

Lemma map_set_nth {A B} (f : A -> B) x : forall l i, map f (set_nth i x l) = set_nth i (f x) (map f l).
Proof. induction l as [|y r IH]; intros [|i]; simpl; try reflexivity. rewrite IH. reflexivity. Qed.

Lemma Forall_set_nth {A} (P : A -> Prop) x : forall l i, P x -> Forall P l -> Forall P (set_nth i x l).
Proof.
  induction l as [|y r IH]; intros [|i] Px F; simpl; try constructor; inversion F; subst; auto.
Qed.

Lemma views_ext h h' (l : list astore) : hext h h' -> Forall (closed h) l -> map (view h') l = map (view h) l.
Proof.
  intros X F. induction F as [|a r C _ IH]; simpl; [reflexivity|]. rewrite IH, (view_ext _ _ _ X C). reflexivity.
Qed.

Lemma Forall_closed_ext h h' (l : list (list (Z * oid))) : hext h h' -> Forall (closed h) l -> Forall (closed h') l.
Proof. intros X F. eapply Forall_impl; [|exact F]. intros a C. eapply closed_ext; eauto. Qed.

Lemma held_sim w k : Forall (closed (w_heap w)) (w_maps w) ->
  match held w k with
  | None => vheld (vmaps w) k = None
  | Some om => vheld (vmaps w) k = Some (omview (w_heap w) om) /\ mclosed (w_heap w) om
  end.
Proof.
  intro F. destruct k as [i|]; simpl; [|split; [reflexivity|exact I]].
  unfold vmaps. rewrite nth_error_map.
  destruct (nth_error (w_maps w) i) as [m|] eqn:E; simpl; [|reflexivity].
  split; [reflexivity|]. rewrite Forall_forall in F. apply F. eapply nth_error_In; eauto.
Qed.

(* the new world after replacing the heap and the store of tree object ti *)
Lemma update_world w ti h' a' :
  wf_world w -> wfh h' -> hext (w_heap w) h' -> closed h' a' ->
  let w' := mkW h' (set_nth ti a' (w_stores w)) (w_maps w) in
  wf_world w' /\ vmaps w' = vmaps w /\ vstores w' = set_nth ti (view h' a') (vstores w).
Proof.
  intros (W & Fs & Fm) W' X C'. cbn zeta. repeat split; simpl.
  - exact W'.
  - apply Forall_set_nth; [exact C'|eapply Forall_closed_ext; eauto].
  - eapply Forall_closed_ext; eauto.
  - unfold vmaps; simpl. apply (views_ext _ _ _ X Fm).
  - unfold vstores; simpl. rewrite map_set_nth. f_equal. apply (views_ext _ _ _ X Fs).
Qed.

Lemma odown_world m w0 wt sbc ti t a (w : world) :
  wf_world w -> nth_error (w_stores w) ti = Some a -> wfh w0 -> hext (w_heap w) w0 -> mclosed w0 m ->
  let o := ofitch_down_pass m wt sbc w0 a t in
  let w' := mkW (op_heap (ostate o)) (set_nth ti (op_store (ostate o)) (w_stores w)) (w_maps w) in
  wf_world w' /\ hext (w_heap w) (w_heap w') /\ vmaps w' = vmaps w /\
  (vstores w', (snd (oresult o), op_sbc (ostate o))) =
  (let (st', r) := vresult (fitch_down_pass (omview w0 m) wt sbc (view (w_heap w) a) t) in
   (set_nth ti st' (vstores w), r)) /\
  fst (oresult o) = ostate o.
Proof.
  intros WW E W0 X0 M0. cbn zeta.
  assert (Ca : closed (w_heap w) a).
  { destruct WW as (_ & Fs & _). rewrite Forall_forall in Fs. apply Fs. eapply nth_error_In; eauto. }
  assert (Ca0 : closed w0 a) by (eapply closed_ext; eauto).
  destruct (odown_sim m wt sbc w0 a t W0 Ca0 M0) as (S & ((W' & C' & _) & X')). simpl in X'.
  rewrite <- (view_ext _ _ _ X0 Ca), <- S.
  destruct (update_world w ti (op_heap (ostate (ofitch_down_pass m wt sbc w0 a t)))
                         (op_store (ostate (ofitch_down_pass m wt sbc w0 a t))) WW W'
                         (hext_trans _ _ _ X0 X') C') as (WW' & Vm & Vs).
  split; [exact WW'|]. split; [exact (hext_trans _ _ _ X0 X')|]. split; [exact Vm|].
  match goal with |- (?V, _) = _ /\ _ =>
    replace V with (set_nth ti (view (op_heap (ostate (ofitch_down_pass m wt sbc w0 a t)))
                                     (op_store (ostate (ofitch_down_pass m wt sbc w0 a t)))) (vstores w))
      by (symmetry; exact Vs) end.
  destruct (ofitch_down_pass m wt sbc w0 a t) as [p|p e]; simpl; split; reflexivity.
Qed.

Theorem hstep_sim ts w ti ap wt sbc : wf_world w ->
  wf_world (fst (hstep_run ts w ti ap wt sbc)) /\
  hext (w_heap w) (w_heap (fst (hstep_run ts w ti ap wt sbc))) /\
  w_maps (fst (hstep_run ts w ti ap wt sbc)) = w_maps w /\
  vmaps (fst (hstep_run ts w ti ap wt sbc)) = vmaps w /\
  (vstores (fst (hstep_run ts w ti ap wt sbc)), snd (hstep_run ts w ti ap wt sbc)) =
  vstep ts (vstores w) (vmaps w) ti ap wt sbc.
Proof.
  intro WW. unfold hstep_run, vstep.
  assert (Keep : wf_world w /\ hext (w_heap w) (w_heap w) /\ w_maps w = w_maps w /\ vmaps w = vmaps w)
    by (repeat split; try apply WW; apply hext_refl).
  destruct (nth_error ts ti) as [t|]; [|simpl; tauto].
  unfold vstores at 2. rewrite nth_error_map.
  destruct (nth_error (w_stores w) ti) as [a|] eqn:E; [|simpl; tauto].
  cbn [option_map].
  destruct ap as [m|k|k].
  - (* parsimony_score: a throw-away map of new row objects *)
    destruct WW as (W & Fs & Fm).
    destruct (alloc_map_spec m (w_heap w) W) as (W1 & X1 & C1 & V1).
    destruct (alloc_map (w_heap w) m) as [h1 om]; cbn [fst snd] in *.
    destruct (odown_world (Some om) h1 wt sbc ti t a w (conj W (conj Fs Fm)) E W1 X1 C1) as (A & B & C & D & F).
    simpl omview in D. rewrite V1 in D.
    destruct (oresult (ofitch_down_pass (Some om) wt sbc h1 a t)) as [p r] eqn:R. simpl in F. subst p.
    cbn [fst snd] in *. split; [exact A|]. split; [exact B|]. split; [reflexivity|]. split; [exact C|exact D].
  - pose proof (held_sim w k (proj2 (proj2 WW))) as H.
    destruct (held w k) as [om|]; [|rewrite H; simpl; tauto].
    destruct H as (H & Mc). rewrite H.
    destruct (odown_world om (w_heap w) wt sbc ti t a w WW E (proj1 WW) (hext_refl _) Mc) as (A & B & C & D & F).
    destruct (oresult (ofitch_down_pass om wt sbc (w_heap w) a t)) as [p r] eqn:R. simpl in F. subst p.
    cbn [fst snd] in *. split; [exact A|]. split; [exact B|]. split; [reflexivity|]. split; [exact C|exact D].
  - pose proof (held_sim w k (proj2 (proj2 WW))) as H.
    destruct (held w k) as [om|]; [|rewrite H; simpl; tauto].
    destruct H as (H & Mc). rewrite H.
    assert (Ca : closed (w_heap w) a).
    { destruct WW as (_ & Fs & _). rewrite Forall_forall in Fs. apply Fs. eapply nth_error_In; eauto. }
    destruct (oup_sim om (w_heap w) a t (proj1 WW) Ca Mc) as (S & (W' & C' & _) & X').
    rewrite <- S.
    destruct (ofitch_up_pass om (w_heap w) a t) as [[h' a'] [e|]]; unfold absu; cbn [fst snd] in *;
      destruct (update_world w ti h' a' WW W' X' C') as (WW' & Vm & Vs);
      (split; [exact WW'|]; split; [exact X'|]; split; [reflexivity|]; split; [exact Vm|]; cbn [fst snd]; apply (f_equal2 pair); [exact Vs|reflexivity]).
Qed.

(* ---------- histories ---------- *)
(* the worlds after every step of a history (the steps as the correspondence run replays them: hrun) *)
Fixpoint hworlds (ts : list tree) (w : world) (steps : list hstep) : list world :=
  match steps with
  | [] => []
  | s :: r => let w' := fst (hstep_run ts w (s_tree s) (s_api s) (s_weights s) (s_sbc s)) in w' :: hworlds ts w' r
  end.

Lemma hrun_worlds ts : forall steps w, map snd (hrun ts w steps) = map (osnap ts) (hworlds ts w steps).
Proof.
  induction steps as [|s r IH]; intro w; simpl; [reflexivity|].
  destruct (hstep_run ts w (s_tree s) (s_api s) (s_weights s) (s_sbc s)) as [w' ro]; simpl. rewrite IH. reflexivity.
Qed.

Lemma hworlds_inv ts : forall steps w, wf_world w ->
  Forall (fun w' => wf_world w' /\ hext (w_heap w) (w_heap w') /\ w_maps w' = w_maps w /\ vmaps w' = vmaps w)
         (hworlds ts w steps).
Proof.
  induction steps as [|s r IH]; intros w WW; simpl; [constructor|].
  destruct (hstep_sim ts w (s_tree s) (s_api s) (s_weights s) (s_sbc s) WW) as (A & B & C & D & _).
  constructor; [split; [exact A|]; split; [exact B|]; split; [exact C|exact D]|].
  eapply Forall_impl; [|apply (IH _ A)].
  intros w' (A' & B' & C' & D'). split; [exact A'|]. split; [eapply hext_trans; eauto|]. split; congruence.
Qed.

Lemma alloc_maps_spec : forall ms h, wfh h ->
  wfh (fst (alloc_maps h ms)) /\ hext h (fst (alloc_maps h ms)) /\
  Forall (closed (fst (alloc_maps h ms))) (snd (alloc_maps h ms)) /\
  map (mview (fst (alloc_maps h ms))) (snd (alloc_maps h ms)) = ms.
Proof.
  induction ms as [|m r IH]; intros h W.
  - simpl. repeat split; [exact W|apply hext_refl|constructor].
  - cbn [alloc_maps]. destruct (alloc_map_spec m h W) as (W1 & X1 & C1 & V1).
    destruct (alloc_map h m) as [h1 om]; cbn [fst snd] in *.
    destruct (IH h1 W1) as (W2 & X2 & C2 & V2).
    destruct (alloc_maps h1 r) as [h2 oms]; cbn [fst snd] in *.
    repeat split.
    + exact W2.
    + eapply hext_trans; eauto.
    + constructor; [eapply closed_ext; eauto|exact C2].
    + simpl. rewrite V2. f_equal. change (mview h2 om) with (view h2 om). rewrite (view_ext _ _ _ X2 C1). exact V1.
Qed.

Lemma world0_wf c : wf_world (world0 c) /\ vmaps (world0 c) = hc_maps c /\
  vstores (world0 c) = map (fun _ => []) (hc_trees c).
Proof.
  unfold world0.
  assert (W0 : wfh (mkHeap 0 [])) by (intros o v []).
  destruct (alloc_maps_spec (hc_maps c) (mkHeap 0 []) W0) as (W & _ & C & V).
  destruct (alloc_maps (mkHeap 0 []) (hc_maps c)) as [h oms]; cbn [fst snd] in *.
  split; [|split].
  - split; [exact W|]. split; [|exact C]. simpl. induction (hc_trees c); simpl; constructor; [constructor|assumption].
  - exact V.
  - unfold vstores; simpl. rewrite map_map. reflexivity.
Qed.

(* whatever the history, every caller-held map keeps its row objects and their contents *)
Lemma held_maps_constant c steps :
  Forall (fun w' => vmaps w' = hc_maps c /\ w_maps w' = w_maps (world0 c) /\ hext (w_heap (world0 c)) (w_heap w'))
         (hworlds (hc_trees c) (world0 c) steps).
Proof.
  destruct (world0_wf c) as (WW & V & _).
  eapply Forall_impl; [|apply (hworlds_inv (hc_trees c) steps _ WW)].
  intros w' (_ & X & M & V'). split; [congruence|]. split; assumption.
Qed.

(* ---------- non-vacuity: a history in which leaf attributes and map rows DO alias ---------- *)
Definition ex_otree : tree := T 0 None None None [T 1 None None None [T 2 (Some 0) None None []; T 3 (Some 1) None None []];
                                                  T 4 (Some 2) None None []].
Definition ex_mapA : matrix := [(0, [1; 1]); (1, [2; 1]); (2, [4; 2])].
Definition ex_mapB : matrix := [(0, [1; 3]); (1, [1; 1]); (2, [1; 4])].
Definition ex_ostep (ti : nat) (k : nat) := mkHStep ti (HDown (Some k)) None true (Ok 0) None (mkHSnap [] []).
Definition ex_ocase : hcase :=
  mkHCase [ex_otree; ex_otree] [ex_mapA; ex_mapB] (mkHSnap [] [])
          [ex_ostep 0 0; ex_ostep 0 1; ex_ostep 0 0; ex_ostep 1 0].

Lemma ex_ocase_facts :
  wf_world (world0 ex_ocase) /\
  map fst (hcase_model ex_ocase) = [(Ok 3, Some [2; 1]); (Ok 1, Some [0; 1]); (Ok 3, Some [2; 1]); (Ok 3, Some [2; 1])] /\
  (* after the last step leaf 2 of BOTH tree objects refers to list object 0 = the row of taxon 0 in map A *)
  (let w := last (hworlds (hc_trees ex_ocase) (world0 ex_ocase) (hc_steps ex_ocase)) (world0 ex_ocase) in
   map (lookup 2) (w_stores w) = [Some 0; Some 0] /\ nth_error (w_maps w) 0 = Some [(0, 0); (1, 1); (2, 2)] /\
   vmaps w = [ex_mapA; ex_mapB]).
Proof.
  split; [exact (proj1 (world0_wf ex_ocase))|]. split; vm_compute; [reflexivity|]. repeat split; reflexivity.
Qed.
