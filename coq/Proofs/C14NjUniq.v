(* C14, sixth wave: neighbor joining returns THE tree of an additive matrix.
   (1) shape of nj_tree's output through all iterations (every leaf carries a taxon, no taxon twice,
       exactly the taxa iterated);
   (2) its split lengths are non-negative, positive on internal splits (from the metric alone:
       Proofs/C14SplitTree.v snonneg_metric);
   (3) hence, by the uniqueness of the weighted split system of a tree metric (tree_metric_unique), the
       output has the same splits with the same lengths as ANY tree realising the matrix -- in particular
       as the binary rose tree the matrix was compiled from. *)
From Coq Require Import ZArith QArith List Bool Lia Lqa.
From DV Require Import Model.PyPrims Model.Tree Model.C14Model Model.C14Spec Model.C14Spec2 Model.C14Spec3
     Proofs.C14Dict Proofs.C14Pdm Proofs.C14Mrca Proofs.C14Ultra Proofs.C14Clu Proofs.C14Proofs Proofs.C14Means Proofs.C14Upgma
     Proofs.C14UpgmaFull Proofs.C14Nj Proofs.C14Tq Proofs.C14Qcrit Proofs.C14FourPoint Proofs.C14NjQ Proofs.C14NjTree
     Proofs.C14Uniq Proofs.C14Split Proofs.C14SplitTree.
Import ListNotations.
Open Scope Z_scope.

(* ---------- the shape of the trees in the pool ---------- *)
Definition shape_ok (order : list Z) (t : qtree) : Prop :=
  qleaves_ok t /\ NoDup (qtaxa t) /\ forall a, qhas a t = true -> In a order.

Definition SH (order : list Z) (pool : list jnode) : Prop := forall u, In u pool -> shape_ok order (j_tree u).

Lemma NoDup_app_intro {A} (l1 l2 : list A) : NoDup l1 -> NoDup l2 -> (forall x, In x l1 -> ~ In x l2) -> NoDup (l1 ++ l2).
Proof.
  induction l1 as [|a l1 IH]; intros N1 N2 D; [exact N2|]. simpl. inversion N1. subst. constructor.
  - intro H. apply in_app_or in H. destruct H as [H|H]; [contradiction | exact (D a (or_introl eq_refl) H)].
  - apply IH; auto. intros x Hx. apply D. right. exact Hx.
Qed.

Lemma qnodes_setlen t l : qnodes (q_setlen t l) = qnodes t.
Proof. destruct t. reflexivity. Qed.

Lemma q_taxon_setlen t l : q_taxon (q_setlen t l) = q_taxon t.
Proof. destruct t. reflexivity. Qed.

Lemma leaves_ok_setlen t l : qleaves_ok t -> qleaves_ok (q_setlen t l).
Proof.
  intros H m Hm Hk. rewrite qnodes_setlen in Hm. destruct Hm as [<-|Hm].
  - rewrite q_taxon_setlen. rewrite q_kids_setlen in Hk. apply (H t (or_introl eq_refl) Hk).
  - apply (H m (or_intror Hm) Hk).
Qed.

Lemma shape_join order i t0 t1 l0 l1 :
  shape_ok order t0 -> shape_ok order t1 -> (forall a, qhas a t0 = true -> qhas a t1 = false) ->
  shape_ok order (QT i None None [q_setlen t0 l0; q_setlen t1 l1]).
Proof.
  intros [L0 [N0 O0]] [L1 [N1 O1]] D. split; [|split].
  - intros m Hm Hk. destruct Hm as [<-|Hm]; [simpl in Hk; discriminate|].
    rewrite qnodes_node in Hm. apply in_knodes in Hm. destruct Hm as [k [[<-|[<-|[]]] Dm]].
    + apply (leaves_ok_setlen t0 l0 L0 m); [|exact Hk]. destruct Dm as [->|Dm]; [left; reflexivity | right; exact Dm].
    + apply (leaves_ok_setlen t1 l1 L1 m); [|exact Hk]. destruct Dm as [->|Dm]; [left; reflexivity | right; exact Dm].
  - simpl. rewrite !qtaxa_setlen, app_nil_r. apply NoDup_app_intro; auto.
    intros x H0 H1. apply qhas_taxa in H0. apply qhas_taxa in H1. rewrite (D x H0) in H1. discriminate.
  - intros a Ha. rewrite qhas_join in Ha. apply orb_true_iff in Ha. destruct Ha; auto.
Qed.

Lemma sh_step Mf order pool next pool' :
  NI Mf order pool -> SH order pool -> (2 <= length pool)%nat -> ~ In next (jids pool) ->
  nj_step pool (Z.of_nat (length pool)) next = Ok pool' -> SH order pool'.
Proof.
  intros I S L2 Nn E.
  destruct (nj_step_sound_l pool (Z.of_nat (length pool)) next (ni_wf Mf order pool I) eq_refl L2 Nn)
    as [j0 [j1 [rest [newn [l0 [l1 [E' [Hab [_ [Ht [_ [_ [Hids [Htrees _]]]]]]]]]]]]]].
  rewrite E in E'. inversion E'. subst pool'. clear E'.
  destruct (ni_wf Mf order pool I) as [N _].
  destruct (pairs_of_In _ _ _ Hab) as [H0 H1]. pose proof (pairs_of_distinct j_id _ _ _ N Hab) as Nd.
  intros u Hu. apply in_app_iff in Hu. destruct Hu as [Hu|[<-|[]]].
  - assert (Hin : In (j_tree u) (map j_tree rest)) by (apply in_map; exact Hu). rewrite Htrees in Hin.
    apply in_map_iff in Hin. destruct Hin as [k [Ek Hk]].
    apply (remove_id_In j_id) in Hk; [|apply remove_id_NoDup; exact N]. destruct Hk as [Hk _].
    apply (remove_id_In j_id) in Hk; [|exact N]. destruct Hk as [Hk _]. rewrite <- Ek. apply S. exact Hk.
  - rewrite Ht. apply shape_join; [apply S; exact H0 | apply S; exact H1|].
    intros a Ha. apply (ni_disj Mf order pool I j0 j1 a H0 H1 Nd Ha).
Qed.

Section Loop.
Variable Mf : Z -> Z -> Q.
Variable order : list Z.
Variable P : list jnode -> Prop.
Hypothesis Pcherry : qcrit_cherry P.
Hypothesis Pclosed : qcrit_closed P.

Lemma nj_loop_shape : forall fuel pool next,
  NI Mf order pool -> SH order pool -> ((3 <= length pool)%nat -> P pool) ->
  (length pool <= fuel)%nat -> (1 <= length pool)%nat ->
  (forall i, In i (jids pool) -> i < next) ->
  exists x, nj_loop fuel pool (Z.of_nat (length pool)) next = Ok (j_tree x) /\ NI Mf order [x] /\ SH order [x].
Proof.
  induction fuel as [|f IH]; intros pool next I S HP Lf L1 Fr; [lia|].
  cbn [nj_loop]. destruct (1 <? Z.of_nat (length pool)) eqn:E1.
  - apply Z.ltb_lt in E1. assert (L2 : (2 <= length pool)%nat) by lia.
    assert (Nn : ~ In next (jids pool)) by (intro H; apply Fr in H; lia).
    destruct (ni_step Mf order pool next I L2 Fr) as [pool' [E [I' [Ln Fr']]]].
    { intros L3 j0 j1 Hab Min. apply (Pcherry pool j0 j1 (HP L3) (ni_wf Mf order pool I) L3 Hab Min). }
    pose proof (sh_step Mf order pool next pool' I S L2 Nn E) as S'.
    rewrite E. cbn [bind].
    replace (Z.of_nat (length pool) - 1) with (Z.of_nat (length pool')) by lia.
    apply IH; auto; try lia.
    intro L3'. apply (Pclosed pool next pool'); auto; try lia; [apply HP; lia | apply (ni_wf Mf order pool I)].
  - apply Z.ltb_ge in E1. destruct pool as [|x [|y pool]]; simpl in *; try lia. exists x. auto.
Qed.
End Loop.

(* nj_tree on a strictly resolved four-point matrix: the output realises the matrix AND is a tree on
   exactly the taxa iterated, each on one leaf, every leaf carrying a taxon *)
Lemma nj_shape_l M order :
  NoDup order -> order <> [] -> mcomplete M order -> msymmetric M order -> mfour_point_strict M order ->
  exists T, nj_tree M order = Ok T /\
    (forall a b, In a order -> In b order -> a <> b -> exists q, qdist T a b = Some q /\ (q == mval M a b)%Q) /\
    qleaves_ok T /\ NoDup (qtaxa T) /\ (forall a, qhas a T = true <-> In a order).
Proof.
  intros N Ne Hc Hs FP. destruct (ids_facts order) as [F [S0 [Nf [Li Fr]]]].
  set (ids := combine (map Z.of_nat (seq 0 (length order))) order) in *.
  assert (Ns : NoDup (map snd ids)) by (rewrite S0; exact N).
  assert (Hc' : mcomplete M (map snd ids)) by (rewrite S0; exact Hc).
  assert (Hs' : msymmetric M (map snd ids)) by (rewrite S0; exact Hs).
  pose proof (nj_init_eval M ids Ns Hc' order eq_refl) as Ei.
  unfold nj_tree. rewrite Ei. cbn [bind].
  assert (I : NI (mval M) (map snd ids) (map (nmk M ids) ids)) by (apply nj_init_NI; assumption).
  rewrite S0 in I.
  assert (S : SH order (map (nmk M ids) ids)).
  { intros u Hu. apply in_map_iff in Hu. destruct Hu as [ia [<- Hia]].
    change (j_tree (nmk M ids ia)) with (QT (fst ia) (Some (snd ia)) None []). split; [|split].
    - intros m [<-|[]] _. simpl. discriminate.
    - simpl. constructor; [intro H; destruct H | constructor].
    - intros a Ha. simpl in Ha. apply Z.eqb_eq in Ha. subst a. rewrite <- S0. apply in_map. exact Hia. }
  assert (Lp : length (map (nmk M ids) ids) = length order) by (rewrite map_length; exact Li).
  rewrite <- Lp.
  destruct (nj_loop_shape (mval M) order four_point_strict fp_cherry fp_closed
              (length (map (nmk M ids) ids)) (map (nmk M ids) ids) (Z.of_nat (length (map (nmk M ids) ids))) I S) as [x [E [Ix Sx]]].
  - intros _. apply (nj_init_FP M order _ N Hc FP Ei).
  - lia.
  - rewrite Lp. destruct order; [congruence | simpl; lia].
  - intros i Hi. unfold jids in Hi. rewrite map_map in Hi. rewrite Lp. apply Fr. exact Hi.
  - exists (j_tree x). split; [exact E|]. split; [apply (ni_final (mval M) order x Ix)|].
    destruct (Sx x (or_introl eq_refl)) as [LO [ND In_]]. split; [exact LO|]. split; [exact ND|].
    intro a. split; [apply In_|]. intro Ha. destruct (ni_cover _ _ _ Ix a Ha) as [u [[<-|[]] Hu]]. exact Hu.
Qed.

(* ---------- signs ---------- *)
Lemma fp3_eq x y z x' y' z' : (x == x')%Q -> (y == y')%Q -> (z == z')%Q -> fp3 x y z -> fp3 x' y' z'.
Proof. unfold fp3. intros E1 E2 E3 H. destruct H as [[A B]|[[A B]|[A B]]]; [left | right; left | right; right]; split; lra. Qed.

(* a tree on the taxa of `order` realising a matrix with non-negative entries, the triangle inequality
   and the strictly resolved four-point condition has non-negative splits, positive internal ones *)
Lemma realising_tree_signs M order T :
  msymmetric M order -> mnonneg M order -> mtriangle M order -> mfour_point_strict M order ->
  qleaves_ok T -> NoDup (qtaxa T) -> (forall a, qhas a T = true <-> In a order) ->
  (forall a b, In a order -> In b order -> a <> b -> exists q, qdist T a b = Some q /\ (q == mval M a b)%Q) ->
  split_nonneg T /\
  forall m, In m (qnodes T) ->
    (exists x x', x <> x' /\ qcl m x = true /\ qcl m x' = true) ->
    (exists y y', y <> y' /\ In y order /\ In y' order /\ qcl m y = false /\ qcl m y' = false) ->
    (0 < split_len T (qcl m))%Q.
Proof.
  intros Hs Pos Tri FP LO ND HO HD.
  destruct (q_kids T) as [|c0 r0] eqn:EK.
  { assert (qnodes T = []) as E0 by (destruct T; simpl in EK; subst; reflexivity).
    split; [intros m Hm | intros m Hm]; rewrite E0 in Hm; destruct Hm. }
  assert (NE : q_kids T <> []) by (rewrite EK; discriminate).
  pose proof (tree_family T LO ND NE) as Fam.
  assert (InO : forall a, In a (qtaxa T) <-> In a order) by (intro a; rewrite <- qhas_taxa; apply HO).
  assert (Val : forall a b, In a (qtaxa T) -> In b (qtaxa T) -> a <> b -> (dsum (qnodes T) a b == mval M a b)%Q).
  { intros a b Ha Hb Nab. destruct (HD a b (proj1 (InO a) Ha) (proj1 (InO b) Hb) Nab) as [q [Eq Vq]].
    destruct (qdist_sum a b T ND) as [q' [Eq' Vq']]; [apply qhas_taxa; exact Ha | apply qhas_taxa; exact Hb|].
    rewrite Eq in Eq'. inversion Eq'. subst q'. rewrite <- Vq', Vq. reflexivity. }
  destruct (snonneg_metric (qtaxa T) (qnodes T) Fam) as [SN PosI].
  - intros a b Ha Hb Nab. rewrite (Val a b Ha Hb Nab). apply Pos; auto; apply InO; assumption.
  - intros a b c Ha Hb Hc Nab Nac Nbc. rewrite (Val a c Ha Hc Nac), (Val a b Ha Hb Nab), (Val b c Hb Hc Nbc).
    apply Tri; auto; apply InO; assumption.
  - intros a b c d Ha Hb Hc Hd Nab Nac Nad Nbc Nbd Ncd.
    apply (fp3_eq (mval M a b + mval M c d) (mval M a c + mval M b d) (mval M a d + mval M b c)).
    + rewrite (Val a b Ha Hb Nab), (Val c d Hc Hd Ncd). reflexivity.
    + rewrite (Val a c Ha Hc Nac), (Val b d Hb Hd Nbd). reflexivity.
    + rewrite (Val a d Ha Hd Nad), (Val b c Hb Hc Nbc). reflexivity.
    + apply FP; auto; apply InO; assumption.
  - split; [exact SN|]. intros m Hm Hx [y [y' [Ny [Hy [Hy' [Yy Yy']]]]]]. apply (PosI m Hm Hx).
    exists y, y'. repeat split; auto; apply InO; assumption.
Qed.

(* ---------- NJ returns the tree of the matrix ---------- *)
Theorem nj_unique_l M order :
  NoDup order -> order <> [] -> mcomplete M order -> msymmetric M order ->
  mfour_point_strict M order -> mtriangle M order -> mnonneg M order ->
  exists T, nj_tree M order = Ok T /\
    (forall a b, In a order -> In b order -> a <> b -> exists q, qdist T a b = Some q /\ (q == mval M a b)%Q) /\
    qleaves_ok T /\ NoDup (qtaxa T) /\ (forall a, qhas a T = true <-> In a order) /\
    split_nonneg T /\
    (forall m, In m (qnodes T) ->
       (exists x x', x <> x' /\ qcl m x = true /\ qcl m x' = true) ->
       (exists y y', y <> y' /\ In y order /\ In y' order /\ qcl m y = false /\ qcl m y' = false) ->
       (0 < split_len T (qcl m))%Q) /\
    forall T', qleaves_ok T' -> NoDup (qtaxa T') -> (forall a, qhas a T' = true <-> In a order) -> split_nonneg T' ->
      (forall a b, In a order -> In b order -> a <> b -> exists q, qdist T' a b = Some q /\ (q == mval M a b)%Q) ->
      forall s, proper_split order s -> (split_len T s == split_len T' s)%Q.
Proof.
  intros N Ne Hc Hs FP Tri Pos.
  destruct (nj_shape_l M order N Ne Hc Hs FP) as [T [ET [HD [LO [ND HO]]]]].
  destruct (realising_tree_signs M order T Hs Pos Tri FP LO ND HO HD) as [SN PI].
  exists T. repeat (split; [assumption|]).
  intros T' LO' ND' HO' SN' HD' s Ps.
  apply (tree_metric_unique T T' LO LO' ND ND'); auto.
  - intro x. destruct (qhas x T) eqn:E1; destruct (qhas x T') eqn:E2; try reflexivity.
    + apply HO in E1. apply HO' in E1. congruence.
    + apply HO' in E2. apply HO in E2. congruence.
  - intros x y Hx Hy Nxy. apply HO in Hx. apply HO in Hy.
    destruct (HD x y Hx Hy Nxy) as [q1 [E1 V1]]. destruct (HD' x y Hx Hy Nxy) as [q2 [E2 V2]].
    exists q1, q2. repeat split; auto. rewrite V1, V2. reflexivity.
  - apply (proper_members order); [|exact Ps]. intro x. rewrite <- qhas_taxa. symmetry. apply HO.
Qed.

(* ================================================================================================ *)
(* the generating rose tree                                                                         *)
(* ================================================================================================ *)
Lemma tq_nodes : forall t m, In m (qnodes (tq t)) -> exists c n, In c (t_kids t) /\ In n (preorder c) /\ m = tq n.
Proof.
  induction t as [i x lb e ks IH] using tree_ind'. intros m Hm. rewrite tq_node, qnodes_node in Hm.
  apply in_knodes in Hm. destruct Hm as [k' [Hk' Dm]]. apply in_map_iff in Hk'. destruct Hk' as [c [<- Hc]].
  exists c. destruct Dm as [->|Dm].
  - exists c. repeat split; auto. apply preorder_self.
  - rewrite Forall_forall in IH. destruct (IH c Hc m Dm) as [c2 [n [Hc2 [Hn Em]]]]. exists n. repeat split; auto.
    destruct c as [j y l f cs]. simpl in Hc2. eapply preorder_kid; eassumption.
Qed.

Lemma leaf_in_leaf_taxa : forall t n, In n (preorder t) -> t_kids n = [] -> In (t_taxon n) (leaf_taxa t).
Proof.
  induction t as [i x lb e ks IH] using tree_ind'. intros n Hn Hk. simpl in Hn. destruct Hn as [<-|Hn].
  - simpl in Hk. subst ks. simpl. left. reflexivity.
  - apply in_flat_map in Hn. destruct Hn as [c [Hc Hn]]. rewrite Forall_forall in IH. pose proof (IH c Hc n Hn Hk) as H.
    destruct ks as [|k r]; [destruct Hc|]. rewrite leaf_taxa_node. apply in_flat_map. exists c. auto.
Qed.

Lemma tq_leaves_ok t : ~ In None (leaf_taxa t) -> qleaves_ok (tq t).
Proof.
  intros H m Hm Hk.
  assert (exists n, In n (preorder t) /\ m = tq n) as [n [Hn ->]].
  { destruct Hm as [<-|Hm]; [exists t; split; [apply preorder_self | reflexivity]|].
    destruct (tq_nodes t m Hm) as [c [n [Hc [Hn Em]]]]. exists n. split; [|exact Em].
    destruct t as [i x lb e ks]. simpl in Hc. eapply preorder_kid; eassumption. }
  rewrite q_kids_tq in Hk. assert (Kn : t_kids n = []) by (destruct (t_kids n); [reflexivity | discriminate]).
  pose proof (leaf_in_leaf_taxa t n Hn Kn) as Hin. destruct n as [j y l f cs]. simpl in *. intro E. subst y. contradiction.
Qed.

Lemma tq_nodes_nonneg t : nonneg_lengths t -> forall m, In m (qnodes (tq t)) -> (0 <= qlen0 m)%Q.
Proof.
  intros Nn m Hm. destruct (tq_nodes t m Hm) as [c [n [Hc [Hn ->]]]]. rewrite qlen0_tq. apply uq_nonneg. apply Nn.
  destruct t as [i x lb e ks]. simpl in Hc. eapply preorder_kid; eassumption.
Qed.

Lemma dsum_nonneg ns a b : (forall m, In m ns -> (0 <= qlen0 m)%Q) -> (0 <= dsum ns a b)%Q.
Proof.
  intro H. unfold dsum. apply qsum_nonneg. intros m Hm. pose proof (H m Hm). destruct (xorb (qcl m a) (qcl m b)); lra.
Qed.

Lemma dsum_triangle ns a b c : (forall m, In m ns -> (0 <= qlen0 m)%Q) -> (dsum ns a c <= dsum ns a b + dsum ns b c)%Q.
Proof.
  intro H. unfold dsum. rewrite <- qsum_plus. apply qsum_le. intros m Hm. pose proof (H m Hm).
  destruct (qcl m a), (qcl m b), (qcl m c); simpl; lra.
Qed.

(* what the matrix compiled from a rose tree with distinct leaf taxa and non-negative lengths is *)
Lemma tree_matrix_facts t p order :
  good_leaves t -> t_kids t <> [] -> nonneg_lengths t -> compile_from_tree t = Ok p ->
  (forall a, In a order -> In (Some a) (leaf_taxa t)) ->
  mcomplete (qtable p true) order /\ msymmetric (qtable p true) order /\
  mnonneg (qtable p true) order /\ mtriangle (qtable p true) order /\
  (forall a b, In a order -> In b order -> a <> b ->
     exists q, qdist (tq t) a b = Some q /\ (q == mval (qtable p true) a b)%Q).
Proof.
  intros G Hk Nn Ec Hin.
  destruct (pdm_exact_p t G Hk) as [p' [E' [Hv _]]]. rewrite Ec in E'. assert (p' = p) by congruence. subst p'.
  assert (Val : forall a b, In a order -> In b order ->
            exists d, dist t a b = Some d /\ mval (qtable p true) a b = uq d).
  { intros a b Ha Hb. destruct (Hv a b (Hin a Ha) (Hin b Hb)) as [r [d [s [_ [Ed [_ [T1 _]]]]]]].
    exists d. split; [exact Ed|]. unfold mval. rewrite qtable_get, T1. reflexivity. }
  assert (ND : NoDup (qtaxa (tq t))) by (rewrite qtaxa_tq; apply taxa_of_NoDup; exact G).
  assert (Has : forall a, In a order -> qhas a (tq t) = true) by (intros a Ha; rewrite qhas_tq; apply has_In; apply Hin; exact Ha).
  assert (Q : forall a b, In a order -> In b order ->
            exists q, qdist (tq t) a b = Some q /\ (q == mval (qtable p true) a b)%Q /\ (q == dsum (qnodes (tq t)) a b)%Q).
  { intros a b Ha Hb. destruct (Val a b Ha Hb) as [d [Ed Vd]]. destruct (qdist_tq t a b d Ed) as [q [Eq Vq]].
    destruct (qdist_sum a b (tq t) ND (Has a Ha) (Has b Hb)) as [q' [Eq' Vq']]. rewrite Eq in Eq'. inversion Eq'. subst q'.
    exists q. repeat split; auto. rewrite Vd. exact Vq. }
  pose proof (tq_nodes_nonneg t Nn) as NN.
  split; [|split; [|split; [|split]]].
  - intros a b Ha Hb _. destruct (Hv a b (Hin a Ha) (Hin b Hb)) as [r [d [s [_ [_ [_ [T1 _]]]]]]].
    rewrite qtable_get, T1. discriminate.
  - intros a b Ha Hb _. unfold mval. rewrite !qtable_get.
    destruct (pdm_sym_p t p G Hk Ec a b) as [S1 _]. rewrite S1. reflexivity.
  - intros a b Ha Hb _. destruct (Q a b Ha Hb) as [q [_ [V1 V2]]]. rewrite <- V1, V2. apply dsum_nonneg. exact NN.
  - intros a b c Ha Hb Hc _ _ _. destruct (Q a c Ha Hc) as [q1 [_ [V1 W1]]]. destruct (Q a b Ha Hb) as [q2 [_ [V2 W2]]].
    destruct (Q b c Hb Hc) as [q3 [_ [V3 W3]]]. rewrite <- V1, <- V2, <- V3, W1, W2, W3. apply dsum_triangle. exact NN.
  - intros a b Ha Hb _. destruct (Q a b Ha Hb) as [q [Eq [V1 _]]]. exists q. auto.
Qed.

(* NJ RETURNS THE GENERATING TREE: same unrooted splits, same lengths *)
Theorem nj_returns_generating_tree_l t p order :
  rbin t -> good_leaves t -> t_kids t <> [] -> positive_internal t -> nonneg_lengths t ->
  compile_from_tree t = Ok p ->
  NoDup order -> (forall a, In a order <-> In (Some a) (leaf_taxa t)) ->
  exists T, nj_tree (qtable p true) order = Ok T /\
    qleaves_ok T /\ NoDup (qtaxa T) /\ (forall a, qhas a T = true <-> In a order) /\
    (forall s, proper_split order s -> (split_len T s == split_len (tq t) s)%Q) /\
    (forall m, In m (qnodes (tq t)) -> q_kids m <> [] -> proper_split order (qcl m) ->
       (0 < split_len (tq t) (qcl m))%Q /\
       exists m', In m' (qnodes T) /\ same_split order (qcl m) (qcl m') = true) /\
    (forall m', In m' (qnodes T) ->
       (exists x x', x <> x' /\ qcl m' x = true /\ qcl m' x' = true) ->
       (exists y y', y <> y' /\ In y order /\ In y' order /\ qcl m' y = false /\ qcl m' y' = false) ->
       (0 < split_len T (qcl m'))%Q /\
       exists m, In m (qnodes (tq t)) /\ same_split order (qcl m') (qcl m) = true).
Proof.
  intros R G Hk P Nn Ec N Hio.
  assert (Hin : forall a, In a order -> In (Some a) (leaf_taxa t)) by (intros a Ha; apply Hio; exact Ha).
  assert (Ne : order <> []).
  { destruct (leaves_inhabited (tq t)) as [a Ha].
    - intros m Hm. apply (tq_leaves_ok t (proj2 G) m Hm).
    - rewrite qhas_tq in Ha. apply has_In in Ha. apply Hio in Ha. intro E. rewrite E in Ha. destruct Ha. }
  destruct (tree_matrix_facts t p order G Hk Nn Ec Hin) as [C [S [Pos [Tri HD']]]].
  pose proof (tree_matrix_four_point_strict t p order R G Hk P Nn Ec Hin) as F.
  destruct (nj_unique_l (qtable p true) order N Ne C S F Tri Pos) as [T [ET [HD [LO [ND [HO [SN [PI U]]]]]]]].
  assert (LO' : qleaves_ok (tq t)) by (apply tq_leaves_ok; exact (proj2 G)).
  assert (ND' : NoDup (qtaxa (tq t))) by (rewrite qtaxa_tq; apply taxa_of_NoDup; exact G).
  assert (HO' : forall a, qhas a (tq t) = true <-> In a order) by (intro a; rewrite qhas_tq, has_In; symmetry; apply Hio).
  pose proof (tq_nodes_nonneg t Nn) as NN.
  assert (SN' : split_nonneg (tq t)) by (apply nodes_nonneg_split_nonneg; exact NN).
  pose proof (U (tq t) LO' ND' HO' SN' HD') as EQ.
  assert (MemT : forall x, In x (qtaxa T) <-> In x order) by (intro x; rewrite <- qhas_taxa; apply HO).
  assert (MemT' : forall x, In x (qtaxa (tq t)) <-> In x order) by (intro x; rewrite <- qhas_taxa; apply HO').
  exists T. split; [exact ET|]. split; [exact LO|]. split; [exact ND|]. split; [exact HO|]. split; [exact EQ|]. split.
  - intros m Hm Hkm Pm.
    assert (Pl : (0 < split_len (tq t) (qcl m))%Q).
    { unfold split_len. apply (qsum_pos _ (qnodes (tq t)) m); [|exact Hm|].
      - intros w Hw. pose proof (NN w Hw). destruct (same_split (qtaxa (tq t)) (qcl m) (qcl w)); lra.
      - rewrite same_split_refl. destruct (tq_nodes t m Hm) as [c [n [Hc [Hn ->]]]]. rewrite qlen0_tq. apply uq_pos.
        apply (P c n Hc Hn). rewrite q_kids_tq in Hkm. intro E. apply Hkm. rewrite E. reflexivity. }
    split; [exact Pl|]. rewrite <- (EQ (qcl m) Pm) in Pl. destruct (split_present T (qcl m) Pl) as [m' [Hm' Sm']].
    exists m'. split; [exact Hm'|]. rewrite <- (same_split_members (qtaxa T) order _ _ MemT). exact Sm'.
  - intros m' Hm' Hx Hy. pose proof (PI m' Hm' Hx Hy) as Pl. split; [exact Pl|].
    assert (Pm : proper_split order (qcl m')).
    { destruct Hx as [x [_ [_ [Hx _]]]]. destruct Hy as [y [_ [_ [Hy [_ [Yy _]]]]]]. split; [exists x | exists y]; split; auto.
      apply HO. eapply qnodes_has; eauto. }
    rewrite (EQ (qcl m') Pm) in Pl. destruct (split_present (tq t) (qcl m') Pl) as [m [Hm Sm]].
    exists m. split; [exact Hm|]. rewrite <- (same_split_members (qtaxa (tq t)) order _ _ MemT'). exact Sm.
Qed.
