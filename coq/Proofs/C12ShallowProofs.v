(* C12, second wave: the shallow routes of Model/C12Shallow.v -- what is fresh and what is shared. *)
From Coq Require Import ZArith List Bool Lia.
From DV Require Import Model.PyPrims Model.C12Model Model.C12Spec2 Model.C12Shallow Proofs.C12Heap Proofs.C12Inv Proofs.C12Copy
  Proofs.C12Wf Proofs.C12Proofs Proofs.C12Iso Proofs.C12Wf2 Proofs.C12IsoTop Proofs.C12Own Proofs.C12AnnDef Proofs.C12Own2
  Proofs.C12Fun Proofs.C12Wf3 Proofs.C12AnnTop.
Import ListNotations.
Open Scope Z_scope.

Section Fields.
Variable h : heap.
Variable seeds : list Z.
Notation n0 := (hlen h).
Notation Inv := (Inv h seeds).
Notation Shared := (Shared h seeds).

Notation FieldOK := (FieldOK h).

Lemma fieldok_base : forall s' y src b1 b2 km, b1 <= b2 -> FieldOK s' y src b2 km -> FieldOK s' y src b1 km.
Proof.
  intros s' y src b1 b2 [k m] L [v [B F]]. exists v. split; [exact B|]. simpl in *.
  destruct m; [exact F | |]; destruct F as [c [co [c' [E [G [Lb X]]]]]]; exists c, co, c'; (split; [exact E|]);
    (split; [exact G|]); (split; [lia | exact X]).
Qed.

Lemma is_container_kinds : forall kd, is_container kd = true -> is_annk kd = false /\ kd <> KAnnSet.
Proof. intros [] H; try discriminate; split; try reflexivity; discriminate. Qed.

Lemma body_of_put_y : forall s y k v, (exists ob, hget (sh s) y = Some ob) -> body_of (put s y k v) y = bset (body_of s y) k v.
Proof. intros s y k v [ob G]. rewrite (body_of_put_same _ _ _ _ _ G). unfold body_of. rewrite G. reflexivity. Qed.

Definition field_shares (src : list (val * val)) (k : val) (m : fmode) : Prop :=
  forall v, bget src k = Some v ->
    match m with
    | FSame => forall c, v = R c -> Shared c
    | FCopy => forall c co, v = R c -> hget h c = Some co ->
                 forall k' v' b, In (k', v') (obody co) -> (k' = R b \/ v' = R b) -> Shared b
    | FEmpty => True
    end.

Lemma shallow_fields_spec : forall tmpl s y kd src s',
  Inv s -> n0 <= y < hlen (sh s) -> kind_at (sh s) y = Some kd -> kd <> KAnnSet ->
  (forall k m, In (k, m) tmpl -> (exists p, k = P p) /\ k <> NM_ANN) -> NoDup (map fst tmpl) ->
  (forall k m, In (k, m) tmpl -> field_shares src k m) ->
  (forall k v, bget src k = Some v -> vsrc h v) ->
  shallow_fields s y src tmpl = Ok s' ->
  Inv s' /\ Ext s s'
  /\ (forall o, o <> y -> o < hlen (sh s) -> hget (sh s') o = hget (sh s) o)
  /\ (forall k, ~ In k (map fst tmpl) -> bget (body_of s' y) k = bget (body_of s y) k)
  /\ Forall (FieldOK s' y src (hlen (sh s))) tmpl
  /\ kind_at (sh s') y = Some kd
  /\ (forall p, In p (sc s) -> In p (sc s')).
Proof.
  induction tmpl as [|[k m] r IH]; intros s y kd src s' IV Hy K NK KEYS ND SH VS H.
  - simpl in H. inversion H; subst. split; [exact IV|]. split; [apply ext_refl|]. split; [auto|]. split; [auto|].
    split; [constructor|]. split; [exact K | auto].
  - simpl in H. destruct (bget src k) as [v|] eqn:B; [|discriminate].
    destruct (KEYS k m (or_introl eq_refl)) as [[p Ek] NA]. subst k.
    assert (KEYS' : forall k m, In (k, m) r -> (exists p, k = P p) /\ k <> NM_ANN) by (intros; eapply KEYS; right; eassumption).
    assert (SH' : forall k m, In (k, m) r -> field_shares src k m) by (intros; eapply SH; right; eassumption).
    simpl in ND. inversion ND as [|? ? NI NDr]; subst.
    assert (GY : exists oy, hget (sh s) y = Some oy) by (destruct (kind_at_hget _ _ _ K) as [oy [G _]]; eauto).
    assert (N := i_len _ _ _ IV).
    assert (FIN : forall s1, Inv s1 -> hlen (sh s) <= hlen (sh s1) -> Ext s s1 -> kind_at (sh s1) y = Some kd ->
              (forall o, o <> y -> o < hlen (sh s) -> hget (sh s1) o = hget (sh s) o) ->
              (forall k0, k0 <> P p -> bget (body_of s1 y) k0 = bget (body_of s y) k0) ->
              FieldOK s1 y src (hlen (sh s)) (P p, m) ->
              (forall q, In q (sc s) -> In q (sc s1)) ->
              shallow_fields s1 y src r = Ok s' ->
              Inv s' /\ Ext s s'
              /\ (forall o, o <> y -> o < hlen (sh s) -> hget (sh s') o = hget (sh s) o)
              /\ (forall k0, ~ In k0 (map fst ((P p, m) :: r)) -> bget (body_of s' y) k0 = bget (body_of s y) k0)
              /\ Forall (FieldOK s' y src (hlen (sh s))) ((P p, m) :: r)
              /\ kind_at (sh s') y = Some kd
              /\ (forall q, In q (sc s) -> In q (sc s'))).
    { intros s1 I1 L1 E1 K1 FR1 KF1 FO1 SC1 H1.
      destruct (IH s1 y kd src s' I1 ltac:(lia) K1 NK KEYS' NDr SH' VS H1) as [I' [E' [FR' [KF' [FO' [K' SC']]]]]].
      split; [exact I'|]. split; [eapply ext_trans; eassumption|]. split; [|split; [|split; [|split]]].
      - intros o No Lo. rewrite (FR' o No ltac:(lia)). apply FR1; assumption.
      - intros k0 NI0. simpl in NI0. rewrite KF' by tauto. apply KF1. intro C. apply NI0. left. auto.
      - constructor.
        + destruct FO1 as [v1 [B1 F1]]. exists v1. split; [exact B1|]. simpl in *.
          destruct m.
          * rewrite (KF' (P p) NI). exact F1.
          * destruct F1 as [c [co [c' [E0 [G0 [Lb [Ny [Bk Gc]]]]]]]]. exists c, co, c'. repeat (split; [assumption|]).
            split; [rewrite (KF' (P p) NI); exact Bk|]. rewrite (FR' c' Ny); [exact Gc|]. apply hget_Some_range in Gc. lia.
          * destruct F1 as [c [co [c' [E0 [G0 [Lb [Ny [Bk Gc]]]]]]]]. exists c, co, c'. repeat (split; [assumption|]).
            split; [rewrite (KF' (P p) NI); exact Bk|]. rewrite (FR' c' Ny); [exact Gc|]. apply hget_Some_range in Gc. lia.
        + eapply Forall_impl; [|exact FO']. intros km F. eapply fieldok_base; [|exact F]. exact L1.
      - exact K'.
      - auto. }
    destruct m.
    + (* FSame *)
      set (s1 := put s y (P p) v) in *.
      assert (Vv : vok h seeds (hlen (sh s)) v).
      { destruct v as [q|c]; [exact Logic.I|]. right. exact (SH (P p) FSame (or_introl eq_refl) (R c) B c eq_refl). }
      assert (I1 : Inv s1) by (apply inv_put; [exact IV | lia | exact Logic.I | exact Vv | eapply put_side_kind; [exact K | intros _; exact NA | exact NK]]).
      apply (FIN s1 I1); auto.
      * unfold s1. rewrite put_hlen. lia.
      * apply ext_put.
      * unfold s1. rewrite put_kind. exact K.
      * intros o No _. unfold s1. apply put_get_other. exact No.
      * intros k0 Nk. unfold s1. rewrite body_of_put_y by exact GY. apply bget_bset_other. exact Nk.
      * exists v. split; [exact B|]. simpl. unfold s1. rewrite body_of_put_y by exact GY. apply bget_bset_same.
      * intros q Iq. unfold s1. rewrite put_sc. exact Iq.
    + (* FCopy *)
      destruct v as [q|c]; [discriminate|].
      assert (Vc : 0 <= c < n0) by exact (VS (P p) (R c) B).
      rewrite (i_old _ _ _ IV c) in H by lia.
      destruct (hget h c) as [co|] eqn:Gc; [|discriminate].
      destruct (is_container (okind co)) eqn:IC; [|discriminate].
      destruct (is_container_kinds _ IC) as [NAK NKS].
      cbn [alloc] in H.
      set (nb := mkObj (ocls co) (okind co) (obody co)) in *.
      set (c' := hlen (sh s)) in *.
      set (s1 := fst (alloc s nb)) in *.
      change (mkSt (sh s ++ [nb]) (sm s) (snone s) (sc s)) with s1 in H.
      set (s2 := put (note s1 c c') y (P p) (R c')) in *.
      assert (I1 : Inv s1).
      { apply inv_alloc; [exact IV | | simpl; rewrite NAK; discriminate | simpl; intro C; contradiction].
        intros k' v' I. simpl in I.
        assert (X := SH (P p) FCopy (or_introl eq_refl) (R c) B c co eq_refl Gc k' v').
        split; [destruct k' as [?|b]; [exact Logic.I | right; apply (X b I); left; reflexivity]
               | destruct v' as [?|b]; [exact Logic.I | right; apply (X b I); right; reflexivity]]. }
      assert (L1 : hlen (sh s1) = hlen (sh s) + 1) by (unfold s1; simpl; apply hlen_app1).
      assert (K1 : kind_at (sh s1) y = Some kd) by (eapply kind_ext; [apply ext_alloc | exact K]).
      assert (I2 : Inv s2).
      { apply inv_put; [apply inv_note; exact I1 | lia | exact Logic.I | left; change (n0 <= c' < hlen (sh s1)); unfold c'; lia | eapply put_side_kind; [exact K1 | intros _; exact NA | exact NK]]. }
      assert (GY1 : exists oy, hget (sh (note s1 c c')) y = Some oy).
      { destruct GY as [oy G]. exists oy. simpl. rewrite hget_app_old by lia. exact G. }
      apply (FIN s2 I2); auto.
      * unfold s2. rewrite put_hlen. simpl. rewrite hlen_app1. lia.
      * eapply ext_trans; [apply ext_alloc|]. eapply ext_trans; [apply ext_note | apply ext_put].
      * unfold s2. rewrite put_kind. exact K1.
      * intros o No Lo. unfold s2. rewrite put_get_other by exact No. simpl. apply hget_app_old. exact Lo.
      * intros k0 Nk. unfold s2. rewrite body_of_put_y by exact GY1. rewrite bget_bset_other by exact Nk.
        unfold body_of. simpl. rewrite hget_app_old by lia. reflexivity.
      * exists (R c). split; [exact B|]. simpl. exists c, co, c'. split; [reflexivity|]. split; [exact Gc|].
        split; [unfold c'; lia|]. split; [unfold c'; lia|]. split.
        -- unfold s2. rewrite body_of_put_y by exact GY1. apply bget_bset_same.
        -- unfold s2. rewrite put_get_other by (unfold c'; lia). simpl. apply hget_app_new.
      * intros q Iq. unfold s2. rewrite put_sc. right. exact Iq.
    + (* FEmpty *)
      destruct v as [q|c]; [discriminate|].
      assert (Vc : 0 <= c < n0) by exact (VS (P p) (R c) B).
      rewrite (i_old _ _ _ IV c) in H by lia.
      destruct (hget h c) as [co|] eqn:Gc; [|discriminate].
      destruct (is_container (okind co)) eqn:IC; [|discriminate].
      destruct (is_container_kinds _ IC) as [NAK NKS].
      cbn [alloc] in H.
      set (nb := mkObj (ocls co) (okind co) []) in *.
      set (c' := hlen (sh s)) in *.
      set (s1 := fst (alloc s nb)) in *.
      change (mkSt (sh s ++ [nb]) (sm s) (snone s) (sc s)) with s1 in H.
      set (s2 := put (note s1 c c') y (P p) (R c')) in *.
      assert (I1 : Inv s1) by (apply inv_alloc_empty; exact IV).
      assert (L1 : hlen (sh s1) = hlen (sh s) + 1) by (unfold s1; simpl; apply hlen_app1).
      assert (K1 : kind_at (sh s1) y = Some kd) by (eapply kind_ext; [apply ext_alloc | exact K]).
      assert (I2 : Inv s2).
      { apply inv_put; [apply inv_note; exact I1 | lia | exact Logic.I | left; change (n0 <= c' < hlen (sh s1)); unfold c'; lia | eapply put_side_kind; [exact K1 | intros _; exact NA | exact NK]]. }
      assert (GY1 : exists oy, hget (sh (note s1 c c')) y = Some oy).
      { destruct GY as [oy G]. exists oy. simpl. rewrite hget_app_old by lia. exact G. }
      apply (FIN s2 I2); auto.
      * unfold s2. rewrite put_hlen. simpl. rewrite hlen_app1. lia.
      * eapply ext_trans; [apply ext_alloc|]. eapply ext_trans; [apply ext_note | apply ext_put].
      * unfold s2. rewrite put_kind. exact K1.
      * intros o No Lo. unfold s2. rewrite put_get_other by exact No. simpl. apply hget_app_old. exact Lo.
      * intros k0 Nk. unfold s2. rewrite body_of_put_y by exact GY1. rewrite bget_bset_other by exact Nk.
        unfold body_of. simpl. rewrite hget_app_old by lia. reflexivity.
      * exists (R c). split; [exact B|]. simpl. exists c, co, c'. split; [reflexivity|]. split; [exact Gc|].
        split; [unfold c'; lia|]. split; [unfold c'; lia|]. split.
        -- unfold s2. rewrite body_of_put_y by exact GY1. apply bget_bset_same.
        -- unfold s2. rewrite put_get_other by (unfold c'; lia). simpl. apply hget_app_new.
      * intros q Iq. unfold s2. rewrite put_sc. right. exact Iq.
Qed.

End Fields.

(* ---- the shallow copy as a whole ------------------------------------------------------------------- *)

Lemma template_ok_spec : forall t, template_ok t = true ->
  NoDup (map fst t) /\ forall k m, In (k, m) t -> (exists p, k = P p) /\ k <> NM_ANN.
Proof.
  intros t H. unfold template_ok in H. apply andb_true_iff in H. destruct H as [A B]. split.
  - apply nodup_keys_spec in A. rewrite map_map in A. simpl in A. exact A.
  - intros k m I. rewrite forallb_forall in B. specialize (B (k, m) I). simpl in B.
    apply andb_true_iff in B. destruct B as [B1 B2]. split.
    + destruct k as [p|?]; [eauto | discriminate].
    + intro C. subst k. rewrite val_eqb_refl in B2. discriminate.
Qed.

Lemma in_shallow_shares : forall h src t k m, In (k, m) t -> NoDup (map fst t) ->
  forall v, bget src k = Some v ->
  match m with
  | FSame => forall c, v = R c -> In c (shallow_shares h src t)
  | FCopy => forall c co, v = R c -> hget h c = Some co -> forall b, In b (body_refs (obody co)) -> In b (shallow_shares h src t)
  | FEmpty => True
  end.
Proof.
  induction t as [|[k0 m0] r IH]; intros k m I ND v B; [contradiction|].
  simpl in ND. inversion ND as [|? ? NI NDr]; subst. simpl. destruct I as [E|I].
  - inversion E; subst k0 m0. rewrite B. destruct m; [| |exact Logic.I].
    + intros c Ev. subst v. apply in_or_app. left. left. reflexivity.
    + intros c co Ev Gc b Ib. subst v. rewrite Gc. apply in_or_app. left. exact Ib.
  - specialize (IH k m I NDr v B). destruct m; [| |exact Logic.I].
    + intros c Ev. apply in_or_app. right. exact (IH c Ev).
    + intros c co Ev Gc b Ib. apply in_or_app. right. exact (IH c co Ev Gc b Ib).
Qed.

Lemma init_inv_nomemo : forall nf h seeds, Inv h seeds (init_st nf h []).
Proof.
  intros nf h seeds. constructor; simpl.
  - lia.
  - reflexivity.
  - intros x y H. discriminate H.
  - intros y ob k v Hy G. apply hget_Some_range in G. lia.
  - intros y ob Hy G. apply hget_Some_range in G. lia.
Qed.

Section ShallowTop.
Variable h : heap.
Variable nf : bool.
Variable fuel : nat.
Variable root : Z.
Variable tmpl : template.
Variable ob : obj.
Notation n0 := (hlen h).
Notation seeds := (shallow_shares h (obody ob) tmpl).

Hypothesis G : hget h root = Some ob.
Hypothesis WF : wf_heap h seeds = true.
Hypothesis WF2 : wf_heap2 h = true.
Hypothesis WF3 : wf_heap3 h = true.
Hypothesis NO : memz root (owned_list h) = false.
Hypothesis TOK : template_ok tmpl = true.
Hypothesis AK : is_annk (okind ob) = true.
Hypothesis Hf : (length h < fuel)%nat.

(* everything the theorems about the route say, in one statement (the Props file splits it) *)
Theorem shallow_copy_spec : forall s' y, shallow_copy nf fuel h root tmpl = Ok (s', R y) ->
  (* the new object; the source heap is untouched *)
  y = n0 /\ (forall o, o < n0 -> hget (sh s') o = hget h o) /\ Inv h seeds s'
  /\ kind_at (sh s') y = Some (okind ob)
  (* the attributes, as the template says *)
  /\ Forall (FieldOK h s' y (obody ob) (n0 + 1)) tmpl
  (* the annotations: a new AnnotationSet listing deep copies of the source's annotations, in order *)
  /\ exists c2 done,
       (forall p, In p c2 -> In p (sc s')) /\ In (root, y) c2
       /\ AnnState s' y done /\ map fst done = refs_of (ann_items h ob) /\ (forall p, In p done -> In p c2)
       /\ (forall a b, In (a, b) c2 -> b <> y ->
             0 <= a < n0 /\ n0 < b < hlen (sh s') /\
             exists oa ob', hget h a = Some oa /\ hget (sh s') b = Some ob' /\ ocls oa = ocls ob' /\ okind oa = okind ob'
               /\ (forall k' v', In (k', v') (obody ob') ->
                     rebuilt (okind oa) k' \/ exists k v, In (k, v) (obody oa) /\ vrel n0 c2 k k' /\ vrel n0 c2 v v')
               /\ (forall k v, In (k, v) (obody oa) ->
                     not_carried (okind oa) k \/ exists k' v', In (k', v') (obody ob') /\ vrel n0 c2 k k' /\ vrel n0 c2 v v')).
Proof.
  intros s' y H. unfold shallow_copy in H. rewrite G in H.
  destruct (wf_heap_parts _ _ WF) as [Hc [Hs [Hi [Hn Hk]]]].
  assert (Hr : 0 <= root < n0) by (eapply hget_Some_range; exact G).
  set (s0 := init_st nf h []) in *.
  assert (IV0 : Inv h seeds s0) by apply init_inv_nomemo.
  assert (J0 : Inv2 h s0) by (apply (init_inv2 h [] nf); intros x []).
  assert (J30 : Inv3 h s0) by apply init_inv3.
  assert (ML : alookup root (sm s0) = None) by reflexivity.
  assert (HU : (U h s0 <= length h)%nat) by apply (U_init h [] nf).
  destruct (new_copy_spec h seeds s0 root ob IV0 Hr ML) as [I1 [E1 [Y1 [K1 [U1 L1]]]]].
  destruct (new_copy2 h seeds s0 root ob IV0 J0 Hr G ML) as [J1 [F1 IN1]].
  destruct (st3_new_copy h seeds s0 root ob IV0 J0 J30 Hr G ML) as [T1 [F01 AS1]].
  destruct (new_copy s0 root ob) as [s1 y1] eqn:NC. cbn [fst snd] in *. subst y1.
  change (hlen (sh s0)) with n0 in *.
  destruct (deep_copy_annotations_from (dc fuel) s1 n0 root) as [s2| |] eqn:DC; simpl in H; try discriminate.
  destruct (shallow_fields s2 n0 (obody ob) tmpl) as [s3| |] eqn:SF; simpl in H; try discriminate.
  inversion H; subst s' y. clear H.
  assert (R3 := dc_spec3 h seeds (closedb_spec h Hc) (ann_items_ok_spec h seeds Hi) (bound_names_ok_spec h Hn)
           (attr_keys_ok_spec h Hk) (wf2_listkeys h WF2) (wf2_noalias h WF2) (wf2_taxa h WF2) (wf2_bound h WF2)
           (wf2_ilist h WF2) (wf2_ilist2 h WF2) (wf3_nodup h WF3) fuel).
  assert (Uf1 : (U h s1 < fuel)%nat) by lia.
  assert (Hd : n0 <= n0 < hlen (sh s1)) by lia.
  assert (T1e := st3_weaken_ex h seeds Full (eq n0) _ _ _ _ (fun y0 (F : Full y0) => match F with end) T1).
  destruct (dcaf3 h seeds (closedb_spec h Hc) (ann_items_ok_spec h seeds Hi) (bound_names_ok_spec h Hn)
              (wf2_listkeys h WF2) (wf2_noalias h WF2) (wf2_bound h WF2) (wf2_ilist h WF2) (wf3_nodup h WF3)
              (eq n0) (eq n0) s0 (dc fuel) fuel s1 s1 n0 root (okind ob) ob R3 I1 T1e Uf1 Hd (or_introl eq_refl) eq_refl
              K1 AK Hr IN1 G AK AS1 s2 DC) as [T2 [done [AS2 [E2 D2]]]].
  assert (L12 := dcaf2 h seeds (closedb_spec h Hc) (ann_items_ok_spec h seeds Hi) (bound_names_ok_spec h Hn)
                   (wf2_listkeys h WF2) (wf2_noalias h WF2) (wf2_bound h WF2) (wf2_ilist h WF2)
                   (dc fuel) fuel s1 n0 root (okind ob) ob (proj1 R3) I1 J1 Uf1 Hd K1 AK Hr IN1 G AK s2 DC).
  assert (I2 := l_inv h seeds _ _ L12). assert (J2 := l_inv2 h seeds _ _ L12).
  destruct (l_ext h seeds _ _ L12) as [LEN12 _].
  assert (K2 : kind_at (sh s2) n0 = Some (okind ob)) by (eapply kind_ext; [exact (l_ext h seeds _ _ L12) | exact K1]).
  assert (NKS : okind ob <> KAnnSet) by (intro C; rewrite C in AK; discriminate AK).
  destruct (template_ok_spec tmpl TOK) as [ND KEYS].
  assert (SHF : forall k m, In (k, m) tmpl -> field_shares h seeds (obody ob) k m).
  { intros k m I v B. assert (X := in_shallow_shares h (obody ob) tmpl k m I ND v B).
    destruct (closedb_spec h Hc root ob k v G (bget_In _ _ _ B)) as [_ Vv].
    destruct m; [| |exact Logic.I].
    - intros c Ev. subst v. split; [exact Vv | left; exact (X c eq_refl)].
    - intros c co Ev Gc k' v' b I' KV. subst v.
      assert (Ib : In b (body_refs (obody co))) by (eapply In_body_refs; eassumption).
      split; [|left; exact (X c co eq_refl Gc b Ib)].
      destruct (closedb_spec h Hc c co k' v' Gc I') as [Vk' Vv']. destruct KV; subst; assumption. }
  assert (VSF : forall k v, bget (obody ob) k = Some v -> vsrc h v).
  { intros k v B. destruct (closedb_spec h Hc root ob k v G (bget_In _ _ _ B)) as [_ X]. exact X. }
  destruct (shallow_fields_spec h seeds tmpl s2 n0 (okind ob) (obody ob) s3 I2 ltac:(lia) K2 NKS KEYS ND SHF VSF SF)
    as [I3 [E23 [FR [KF [FO [K3 SC23]]]]]].
  split; [reflexivity|]. split; [exact (i_old _ _ _ I3)|]. split; [exact I3|]. split; [exact K3|].
  split; [eapply Forall_impl; [|exact FO]; intros km F; eapply fieldok_base; [|exact F]; lia|].
  exists (sc s2), done.
  split; [exact SC23|]. split; [exact (proj1 (l_ext2 h seeds _ _ L12) _ IN1)|].
  assert (NANN : ~ In NM_ANN (map fst tmpl)).
  { intro I. apply in_map_iff in I. destruct I as [[k m] [E I]]. simpl in E. subst k. destruct (KEYS NM_ANN m I) as [_ C]. apply C. reflexivity. }
  split.
  { (* the annotation set survives the attribute phase *)
    unfold AnnState in *. rewrite (KF NM_ANN NANN). destruct done as [|p0 r]; [exact AS2|].
    destruct AS2 as [sy [ly [zy [B [GS [GL GZ]]]]]]. exists sy, ly, zy. split; [exact B|].
    assert (NEW : forall o ob0, hget (sh s2) o = Some ob0 -> o <> n0 -> hget (sh s3) o = Some ob0).
    { intros o ob0 G0 Ne. rewrite (FR o Ne); [exact G0|]. apply hget_Some_range in G0. lia. }
    destruct (kind_at_hget _ _ _ K2) as [o2 [G2 KO2]].
    assert (Q1 : sy <> n0) by (intro C; subst sy; rewrite GS in G2; inversion G2; subst o2; simpl in KO2; rewrite <- KO2 in AK; discriminate AK).
    assert (Q2 : ly <> n0) by (intro C; subst ly; rewrite GL in G2; inversion G2; subst o2; simpl in KO2; rewrite <- KO2 in AK; discriminate AK).
    assert (Q3 : zy <> n0) by (intro C; subst zy; rewrite GZ in G2; inversion G2; subst o2; simpl in KO2; rewrite <- KO2 in AK; discriminate AK).
    split; [apply NEW; assumption|]. split; apply NEW; assumption. }
  split; [exact E2|]. split; [exact D2|].
  intros a b I Nb.
  destruct (j_scr _ _ J2 a b I) as [Ra Rb].
  assert (PR : Present h (sc s2) (sh s2) a b).
  { apply (l_new h seeds _ _ L12 a b I). destruct (Z_lt_dec b (hlen (sh s1))) as [Lt|Ge]; [|lia]. exfalso. lia. }
  destruct (pair_ok h (wf2_nodup h WF2) s2 a b J2 I PR) as [_ [_ [oa [ob' [Ga [Gb [C1 [C2 [SND PRS]]]]]]]]].
  split; [exact Ra|]. split; [destruct E23 as [LL _]; lia|].
  exists oa, ob'. split; [exact Ga|]. split; [rewrite (FR b Nb) by lia; exact Gb|]. auto.
Qed.

(* the documented shares: where they come from *)
Lemma shares_inv : forall t src b, In b (shallow_shares h src t) ->
  exists k m v, In (k, m) t /\ bget src k = Some v /\
    ((m = FSame /\ v = R b) \/ (m = FCopy /\ exists c co, v = R c /\ hget h c = Some co /\ In b (body_refs (obody co)))).
Proof.
  induction t as [|[k0 m0] r IH]; intros src b I; [contradiction|]. simpl in I. apply in_app_or in I. destruct I as [I|I].
  - destruct (bget src k0) as [[?|c]|] eqn:B; try contradiction. destruct m0; try contradiction.
    + destruct I as [E|[]]. subst c. exists k0, FSame, (R b). split; [left; reflexivity|]. split; [exact B|]. left. auto.
    + destruct (hget h c) as [co|] eqn:Gc; [|contradiction].
      exists k0, FCopy, (R c). split; [left; reflexivity|]. split; [exact B|]. right. split; [reflexivity|]. exists c, co. auto.
  - destruct (IH src b I) as [k [m [v [I' X]]]]. exists k, m, v. split; [right; exact I' | exact X].
Qed.

Lemma body_refs_edge : forall (hh : heap) a oa b, hget hh a = Some oa -> In b (body_refs (obody oa)) -> edge hh a b.
Proof.
  intros hh a oa b Ga I. unfold body_refs in I. apply in_flat_map in I. destruct I as [[k v] [Ie Ir]].
  apply refs_of_In in Ir. simpl in Ir. exists oa, k, v. split; [exact Ga|]. split; [exact Ie|].
  destruct Ir as [E|[E|[]]]; [left | right]; exact E.
Qed.

(* what the shallow copy and its source share is exactly what the documented shares (and atomic objects) reach *)
Theorem shallow_copy_shares : forall s' y, shallow_copy nf fuel h root tmpl = Ok (s', R y) ->
  (forall o, reach (sh s') y o ->
     n0 <= o < hlen (sh s') \/ exists b, (In b seeds \/ is_atomic h b = true) /\ reach h b o)
  /\ (forall b, In b seeds -> reach (sh s') y b /\ reach h root b).
Proof.
  intros s' y H. destruct (shallow_copy_spec s' y H) as [Ey [OLD [IV [K [FO _]]]]]. subst y.
  destruct (wf_heap_parts _ _ WF) as [Hc _]. split.
  - set (C := fun o => n0 <= o < hlen (sh s') \/ exists b, (In b seeds \/ is_atomic h b = true) /\ reach h b o).
    assert (SC : forall b, Shared h seeds b -> C b).
    { intros b [Rb Sb]. right. exists b. split; [exact Sb | apply reach_refl]. }
    apply (reach_closed_set (sh s') C n0).
    + intros a b Ca [oa [k [v [Ga [I J]]]]]. destruct (Z_lt_dec a n0) as [Lt|Ge].
      * destruct Ca as [Ca|[b0 [Sb Rb]]]; [lia|]. rewrite (OLD a Lt) in Ga.
        right. exists b0. split; [assumption|]. eapply reach_step; [exact Rb|]. exists oa, k, v. auto.
      * destruct (i_fresh _ _ _ IV a oa k v ltac:(lia) Ga I) as [Vk Vv].
        destruct J as [J|J]; subst; simpl in *.
        -- destruct Vk as [Vk|Vk]; [left; lia | apply SC; assumption].
        -- destruct Vv as [Vv|Vv]; [left; lia | apply SC; assumption].
    + left. destruct (kind_at_hget _ _ _ K) as [oy [Gy _]]. apply hget_Some_range in Gy. lia.
  - intros b Ib. destruct (shares_inv tmpl (obody ob) b Ib) as [k [m [v [I [B CASE]]]]].
    rewrite Forall_forall in FO. destruct (FO (k, m) I) as [v0 [B0 F]]. simpl in B0, F.
    assert (v0 = v) by congruence. subst v0.
    destruct (kind_at_hget _ _ _ K) as [oy [Gy _]].
    assert (BY : forall kk vv, bget (body_of s' n0) kk = Some vv -> In (kk, vv) (obody oy)).
    { intros kk vv Bk. unfold body_of in Bk. rewrite Gy in Bk. apply bget_In. exact Bk. }
    destruct CASE as [[Em Ev]|[Em [c [co [Ev [Gc Irefs]]]]]]; subst m v.
    + split.
      * eapply reach_step; [apply reach_refl|]. exists oy, k, (R b). split; [exact Gy|]. split; [apply BY; exact F | right; reflexivity].
      * eapply reach_step; [apply reach_refl|]. exists ob, k, (R b). split; [exact G|]. split; [apply bget_In; exact B | right; reflexivity].
    + destruct F as [c0 [co0 [c' [E0 [G0 [Lb [Ny [Bk Gc']]]]]]]]. inversion E0; subst c0. assert (co0 = co) by congruence. subst co0.
      split.
      * eapply reach_step; [eapply reach_step; [apply reach_refl|]|].
        -- exists oy, k, (R c'). split; [exact Gy|]. split; [apply BY; exact Bk | right; reflexivity].
        -- eapply body_refs_edge; [exact Gc' | exact Irefs].
      * eapply reach_step; [eapply reach_step; [apply reach_refl|]|].
        -- exists ob, k, (R c). split; [exact G|]. split; [apply bget_In; exact B | right; reflexivity].
        -- eapply body_refs_edge; [exact Gc | exact Irefs].
Qed.

Lemma in_shallow_conts : forall t src k c, In (k, FCopy) t -> NoDup (map fst t) -> bget src k = Some (R c) ->
  In c (shallow_conts src t).
Proof.
  induction t as [|[k0 m0] r IH]; intros src k c I ND B; [contradiction|].
  simpl in ND. inversion ND as [|? ? NI NDr]; subst. simpl. destruct I as [E|I].
  - inversion E; subst k0 m0. rewrite B. apply in_or_app. left. left. reflexivity.
  - apply in_or_app. right. eapply IH; eassumption.
Qed.

(* frame for the shallow route *)
Theorem shallow_copy_frame : forall s' y, shallow_copy nf fuel h root tmpl = Ok (s', R y) ->
  (forall news ws, (forall w, In w ws -> n0 <= fst w) ->
     (forall o, reach h root o <-> reach (write_all (sh s' ++ news) ws) root o)
     /\ (forall o, reach h root o -> hget (write_all (sh s' ++ news) ws) o = hget h o))
  /\ (forall news ws,
        (forall w, In w ws -> fst w < n0 /\ ~ exists b, (In b seeds \/ is_atomic h b = true) /\ reach h b (fst w)) ->
        (forall o, reach (sh s') y o <-> reach (write_all (sh s' ++ news) ws) y o)
        /\ (forall o, reach (sh s') y o -> hget (write_all (sh s' ++ news) ws) o = hget (sh s') o))
  /\ (forall b nb, In b seeds -> b <> root -> ~ In b (shallow_conts (obody ob) tmpl) ->
        hget (write_all (sh s') [(b, nb)]) b = Some nb
        /\ reach (write_all (sh s') [(b, nb)]) y b /\ reach (write_all (sh s') [(b, nb)]) root b).
Proof.
  intros s' y H. destruct (shallow_copy_spec s' y H) as [Ey [OLD [IV [K [FO _]]]]].
  destruct (shallow_copy_shares s' y H) as [ONLY _]. subst y.
  destruct (wf_heap_parts _ _ WF) as [Hc [Hs _]].
  assert (Hr : 0 <= root < n0) by (eapply hget_Some_range; exact G).
  assert (LEN : n0 <= hlen (sh s')) by exact (i_len _ _ _ IV).
  assert (RG : forall o, reach h root o -> 0 <= o < n0) by (apply reach_in_range; assumption).
  assert (A0 : forall o, reach h root o -> hget (sh s') o = hget h o) by (intros o Ro; apply OLD; apply RG; assumption).
  assert (EQ : forall o, reach h root o <-> reach (sh s') root o) by (apply frame_general_l; exact A0).
  split; [|split].
  - intros news ws W. destruct (frame_writes_l (sh s') root news ws) as [F1 F2].
    + intros o Ro. apply EQ in Ro. specialize (RG o Ro). lia.
    + intros w I Ro. apply EQ in Ro. specialize (RG _ Ro). specialize (W w I). lia.
    + split; [intro o; rewrite EQ; apply F1|]. intros o Ro. rewrite F2 by (apply EQ; assumption). apply A0. assumption.
  - intros news ws W. apply frame_writes_l.
    + intros o Ro. destruct (ONLY o Ro) as [X|[b [Sb Rb]]]; [lia|].
      assert (Rb0 : 0 <= b < n0).
      { destruct Sb as [Sb|Sb]; [apply Hs; assumption|]. unfold is_atomic, kind_at in Sb.
        destruct (hget h b) eqn:Gb; [|discriminate]. eapply hget_Some_range. eassumption. }
      assert (X := reach_in_range h b Hc Rb0 o Rb). lia.
    + intros w I Ro. destruct (W w I) as [Lt NS]. destruct (ONLY _ Ro) as [X|X]; [lia | contradiction].
  - intros b nb Ib Nr NC. simpl.
    assert (Rb : 0 <= b < n0) by (apply Hs; exact Ib).
    assert (OTHER : forall o, o <> b -> hget (hset (sh s') b nb) o = hget (sh s') o) by (intros o Ne; apply hget_hset_other; auto).
    split; [apply hget_hset_same; lia|].
    destruct (shares_inv tmpl (obody ob) b Ib) as [k [m [v [I [B CASE]]]]].
    destruct (template_ok_spec tmpl TOK) as [ND _].
    rewrite Forall_forall in FO. destruct (FO (k, m) I) as [v0 [B0 F]]. simpl in B0, F.
    assert (v0 = v) by congruence. subst v0.
    destruct (kind_at_hget _ _ _ K) as [oy [Gy _]].
    assert (BY : forall kk vv, bget (body_of s' n0) kk = Some vv -> In (kk, vv) (obody oy)).
    { intros kk vv Bk. unfold body_of in Bk. rewrite Gy in Bk. apply bget_In. exact Bk. }
    assert (Gr : hget (sh s') root = Some ob) by (rewrite (OLD root (proj2 Hr)); exact G).
    destruct CASE as [[Em Ev]|[Em [c [co [Ev [Gc Irefs]]]]]]; subst m v.
    + split.
      * eapply reach_step; [apply reach_refl|]. exists oy, k, (R b). split; [rewrite OTHER by lia; exact Gy|].
        split; [apply BY; exact F | right; reflexivity].
      * eapply reach_step; [apply reach_refl|]. exists ob, k, (R b). split; [rewrite OTHER by auto; exact Gr|].
        split; [apply bget_In; exact B | right; reflexivity].
    + destruct F as [c0 [co0 [c' [E0 [G0 [Lb [Ny [Bk Gc']]]]]]]]. inversion E0; subst c0. assert (co0 = co) by congruence. subst co0.
      assert (Ncb : c <> b) by (intro C; subst c; apply NC; eapply in_shallow_conts; eassumption).
      assert (Vc : 0 <= c < n0) by (eapply hget_Some_range; exact Gc).
      split.
      * eapply reach_step; [eapply reach_step; [apply reach_refl|]|].
        -- exists oy, k, (R c'). split; [rewrite OTHER by lia; exact Gy|]. split; [apply BY; exact Bk | right; reflexivity].
        -- eapply body_refs_edge; [rewrite OTHER by lia; exact Gc' | exact Irefs].
      * eapply reach_step; [eapply reach_step; [apply reach_refl|]|].
        -- exists ob, k, (R c). split; [rewrite OTHER by auto; exact Gr|]. split; [apply bget_In; exact B | right; reflexivity].
        -- eapply body_refs_edge; [rewrite OTHER by auto; rewrite (OLD c (proj2 Vc)); exact Gc | exact Irefs].
Qed.

End ShallowTop.
