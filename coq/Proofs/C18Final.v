(* C18 - the statements of Props/C18.v that need a few lines beyond the main lemmas *)
From Coq Require Import QArith List Bool Arith Permutation.
From DV Require Import Model.C18Model.
From DV Require Import Proofs.C18Lists Proofs.C18Tree Proofs.C18Monad Proofs.C18BD Proofs.C18FBD Proofs.C18PB Proofs.C18Coal Proofs.C18CC Proofs.C18Examples.
Import ListNotations.
Open Scope nat_scope.

Lemma bd_result_spec_full : forall (cs : bool) (P : bdp) (ns : list lab) (script : list draw)
                                   (t : btree) (ns' : list lab) (r : rs),
  1 <= p_n P ->
  bd_sim true cs P ns script = Done (t, ns') r ->
  length (leaf_ids t) = p_n P /\
  (forall s, In s (subtrees t) -> length (b_kids s) = 0 \/ length (b_kids s) = 2) /\
  NoDup (ids t) /\
  (exists D, forall x q, In (x, q) (depths t) -> q == D)%Q /\
  (forall x, In x (leaf_taxa t) -> exists i, x = Some i /\ i < length ns') /\
  NoDup (leaf_taxa t) /\
  (exists extra, ns' = ns ++ extra).
Proof.
  intros cs P ns script t ns' r HN H.
  destruct (bd_result_spec_proved true cs P ns script t ns' r HN H) as (A & B & C & D & E & F & G).
  repeat (split; [assumption|]). split; [apply F; left; reflexivity|exact G].
Qed.

Lemma bd_result_spec_current : forall (cs : bool) (P : bdp) (ns : list lab) (script : list draw)
                                      (t : btree) (ns' : list lab) (r : rs),
  1 <= p_n P ->
  bd_sim false cs P ns script = Done (t, ns') r ->
  length (leaf_ids t) = p_n P /\
  (forall s, In s (subtrees t) -> length (b_kids s) = 0 \/ length (b_kids s) = 2) /\
  NoDup (ids t) /\
  (exists D, forall x q, In (x, q) (depths t) -> q == D)%Q /\
  (forall x, In x (leaf_taxa t) -> exists i, x = Some i /\ i < length ns') /\
  ((cs = true \/ (forall k, ~ In (LT false k) ns)) -> NoDup (leaf_taxa t)) /\
  (exists extra, ns' = ns ++ extra).
Proof.
  intros cs P ns script t ns' r HN H.
  destruct (bd_result_spec_proved false cs P ns script t ns' r HN H) as (A & B & C & D & E & F & G).
  repeat (split; [assumption|]). split; [intros Hm; apply F; right; exact Hm|exact G].
Qed.

Lemma fbd_result_spec_full : forall (cs : bool) (P : bdp) (ns : list lab) (script : list draw)
                                    (t : btree) (ns' : list lab) (r : rs),
  1 <= p_n P ->
  fbd_sim true cs P ns script = Done (t, ns') r ->
  length (leaf_ids t) = p_n P /\
  (forall s, In s (subtrees t) -> length (b_kids s) = 0 \/ length (b_kids s) = 2) /\
  NoDup (ids t) /\
  (exists D, forall x q, In (x, q) (depths t) -> q == D)%Q /\
  (forall x, In x (leaf_taxa t) -> exists i, x = Some i /\ i < length ns') /\
  NoDup (leaf_taxa t) /\
  (exists extra, ns' = ns ++ extra).
Proof.
  intros cs P ns script t ns' r HN H.
  destruct (fbd_result_spec_proved true cs P ns script t ns' r HN H) as (A & B & C & D & E & F & G).
  repeat (split; [assumption|]). split; [apply F; left; reflexivity|exact G].
Qed.

Lemma fbd_result_spec_current : forall (cs : bool) (P : bdp) (ns : list lab) (script : list draw)
                                       (t : btree) (ns' : list lab) (r : rs),
  1 <= p_n P ->
  fbd_sim false cs P ns script = Done (t, ns') r ->
  length (leaf_ids t) = p_n P /\
  (forall s, In s (subtrees t) -> length (b_kids s) = 0 \/ length (b_kids s) = 2) /\
  NoDup (ids t) /\
  (exists D, forall x q, In (x, q) (depths t) -> q == D)%Q /\
  (forall x, In x (leaf_taxa t) -> exists i, x = Some i /\ i < length ns') /\
  ((cs = true \/ (forall k, ~ In (LT false k) ns)) -> NoDup (leaf_taxa t)) /\
  (exists extra, ns' = ns ++ extra).
Proof.
  intros cs P ns script t ns' r HN H.
  destruct (fbd_result_spec_proved false cs P ns script t ns' r HN H) as (A & B & C & D & E & F & G).
  repeat (split; [assumption|]). split; [intros Hm; apply F; right; exact Hm|exact G].
Qed.

Lemma bd_inv_unfold_proved : forall N st,
  bd_inv N st <->
  ( NoDup (ids (s_tr st)) /\
    (forall y, In y (leaf_ids (s_tr st)) <-> In y (s_ext st) \/ In y (s_dead st)) /\
    NoDup (s_ext st ++ s_dead st) /\
    arity (fun n => n = 0 \/ n = 2) (s_tr st) /\
    (exists D, eqd (s_ext st) D (s_tr st)) /\
    (forall y, In y (ids (s_tr st)) -> y < s_next st) /\
    b_id (s_tr st) = 0 /\
    1 <= length (s_ext st) <= N ).
Proof.
  intros N st. split.
  - intros [H1 H2 H3 H4 H5 H6 H7 H8]. repeat split; try assumption; try apply H2; try apply H8.
  - intros (H1 & H2 & H3 & H4 & H5 & H6 & H7 & H8). constructor; assumption.
Qed.

Lemma deterministic_proved : forall (s : simcall) (script1 script2 : list draw),
  script1 = script2 -> run_sim s script1 = run_sim s script2.
Proof. intros s script1 script2 E. rewrite E. reflexivity. Qed.
