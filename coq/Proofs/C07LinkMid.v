(* C07 link, part 5: reroot_at_midpoint on the heap.  C03 proves that the heap program completes
   well formed (or raises before touching anything) for ANY taxon pair; here: whenever it completes,
   the result is the same unrooted tree.  Whatever the search (ancs / first_common / mid_loop) finds,
   the program either re-seeds at an internal node or breaks an edge of length el into
   head_len + (el - head_len) and re-seeds at the new node: both are covered by the C07 theorems.
   (The equidistance claim stays at the specification level: Props/C07.v midpoint_equidistant.)
   mid_edge_spec re-does C03Midpoint.mid_edge_wf with the resulting tree made explicit. *)
From Coq Require Import ZArith List Bool Lia Permutation.
From DV Require Import Model.PyPrims Model.Tree.
From DV Require Import Model.Heap Model.HeapOps Model.C03Spec Proofs.C03Base Proofs.C03Abs Proofs.C03Local
     Proofs.C03Prims Proofs.C03Suppress Proofs.C03Reseed Proofs.C03SpecLinks Proofs.C03Ops Proofs.C03Ops2
     Proofs.C03PruneLoops Proofs.C03Hist Proofs.C03More Proofs.C03Midpoint.
From DV Require Model.C07Model Proofs.C07Thms Proofs.C07Link Proofs.C07LinkOps Proofs.C07LinkEdge.
From DV Require Import Model.C07Spec.
Import ListNotations.
Open Scope Z_scope.

Lemma mid_edge_spec su hl tl h c ot x l e lft s rgt :
  WFt h (plug c (T ot x l e (lft ++ s :: rgt))) ->
  exists h',
    (hdo h1 <- remove_child_plain ot (t_id s) h ;;
     let ns := next h1 in
     let h2 := alloc None None None h1 in
     hdo h3 <- add_child ns (t_id s) h2 ;;
     let h4 := set_elen (t_id s) (Some hl) h3 in
     hdo h5 <- add_child ot ns h4 ;;
     let h6 := set_elen ns (Some tl) h5 in
     reseed_at ns false false su h6) = HOk h' /\
    WFt h' (spec_encode su false true
              (reroot (CNode c ot x l e (lft ++ rgt) [])
                      (T (next h) None None (Some tl) [T (t_id s) (t_taxon s) (t_label s) (Some hl) (t_kids s)]))).
Proof.
  intros [W S].
  destruct (remove_child_plain_wf h c ot x l e lft s rgt W) as [h1 [E1 [W1 [R1 [_ [_ [P1 [P1r P1s]]]]]]]].
  destruct (detached_facts h c ot x l e lft s rgt W) as [Ns [Ds Bs]].
  rewrite E1. simpl hbind. cbv zeta.
  remember (plug c (T ot x l e (lft ++ rgt))) as main eqn:Emain.
  set (ns := next h1) in *.
  destruct (alloc_wf h1 main None None None W1) as [W2 [R2n Nn]]. fold ns in R2n, Nn.
  set (h2 := alloc None None None h1) in *.
  assert (A2 : same_off [ns] h1 h2) by (unfold h2, ns; frame_solve).
  assert (G2 : grows h1 h2) by (unfold h2; frame_solve).
  assert (N2 : next h2 = ns + 1) by reflexivity.
  assert (Bs1 : forall j, In j (ids s) -> j < ns).
  { intros j Hj. rewrite P1. apply Bs, Hj. }
  assert (R2s : rep h2 None s).
  { apply (rep_frame_off [ns] h1 h2 None s A2 G2); [|exact R1].
    intros j Hj [<-|[]]. specialize (Bs1 _ Hj). lia. }
  assert (Wn : Wr h2 (plug CTop (T ns None None None []))).
  { simpl plug. split; [exact R2n|split].
    - rewrite ids_eq. simpl. constructor; [intros []|constructor].
    - intros j Hj. rewrite ids_eq in Hj. simpl in Hj. destruct Hj as [<-|[]]. lia. }
  destruct (add_child_attach h2 CTop ns None None None [] None s Wn R2s Ns) as [h3 [E3 [W3 [A3 [G3 [P3 [P3r P3s]]]]]]].
  { intros j Hj H. simpl plug in H. rewrite ids_eq in H. simpl in H. destruct H as [<-|[]].
    specialize (Bs1 _ Hj). lia. }
  { intros j Hj. specialize (Bs1 _ Hj). lia. }
  rewrite E3. simpl hbind. simpl plug in W3. simpl app in W3.
  assert (W3m : Wr h3 main).
  { apply (wr_frame [ns; t_id s] h2 h3 main W2 A3 G3).
    intros j Hj [<-|[<-|[]]]; [exact (Nn Hj)|]. exact (Ds _ (ids_root s) Hj). }
  destruct s as [ci xs ls es ks]. simpl t_id in *. cbn [t_taxon t_label t_kids].
  pose proof (set_elen_wf h3 (CNode CTop ns None None None [] []) ci xs ls es ks (Some hl) W3) as W4.
  simpl plug in W4. simpl app in W4.
  set (h4 := set_elen ci (Some hl) h3) in *.
  assert (W4m : Wr h4 main).
  { apply (wr_frame [ci] h3 h4 main W3m); [unfold h4, set_elen; frame_solve|unfold h4, set_elen; frame_solve|].
    intros j Hj [<-|[]]. exact (Ds _ (ids_root (T ci xs ls es ks)) Hj). }
  remember (T ci xs ls (Some hl) ks) as s' eqn:Es'.
  assert (Is' : forall j, In j (ids (T ns None None None [s'])) -> j = ns \/ In j (ids (T ci xs ls es ks))).
  { intros j Hj. rewrite ids_eq in Hj. simpl in Hj. rewrite app_nil_r in Hj.
    destruct Hj as [<-|Hj]; [left; reflexivity|right]. subst s'. rewrite ids_eq in *. exact Hj. }
  destruct W4 as [R4 [N4 B4]]. rewrite Emain in W4m.
  destruct (add_child_attach h4 c ot x l e (lft ++ rgt) None (T ns None None None [s']) W4m R4 N4)
    as [h5 [E5 [W5 [_ [_ [P5 [P5r P5s]]]]]]].
  { intros j Hj. rewrite <- Emain. destruct (Is' j Hj) as [->|Hj']; [exact Nn|exact (Ds j Hj')]. }
  { exact B4. }
  simpl t_id in E5. rewrite E5. simpl hbind.
  pose proof (set_elen_wf h5 (CNode c ot x l e (lft ++ rgt) []) ns None None None [s'] (Some tl) W5) as W6.
  assert (W6' : WFt (set_elen ns (Some tl) h5)
                    (plug (CNode c ot x l e (lft ++ rgt) []) (T ns None None (Some tl) [s']))).
  { split; [exact W6|]. simpl seed. rewrite P5s. unfold h4. simpl seed. rewrite P3s. unfold h2. simpl seed.
    rewrite P1s, <- S. simpl plug. rewrite !plug_id. reflexivity. }
  assert (Hk : t_kids (T ns None None (Some tl) [s']) <> [] \/ su = false) by (left; discriminate).
  destruct (reseed_at_wf false false su _ _ _ W6' Hk) as [h' [E [W' _]]].
  simpl t_id in E. exists h'. split; [exact E|].
  assert (En : ns = next h) by (unfold ns; exact P1).
  rewrite <- En. exact W'.
Qed.

(* the going-up loop: what it can return *)
Lemma mid_loop_cases2 h t : Wr h t -> forall path plen,
  (forall j, In j path -> In j (ids t)) ->
  mid_loop h path plen = MidTypeErr \/ mid_loop h path plen = MidNone \/
  (exists b cur, mid_loop h path plen = MidNode b /\ In cur (ids t) /\ parent h cur = Some b) \/
  (exists tg hl, mid_loop h path plen = MidEdge tg hl /\ In tg (ids t)).
Proof.
  intros W. induction path as [|cur r IH]; intros plen Hp; simpl.
  - right. left. reflexivity.
  - destruct (elen h cur) as [l|]; [|left; reflexivity].
    destruct (plen <? l).
    + right. right. right. exists cur, plen. split; [reflexivity|apply Hp; left; reflexivity].
    + destruct (l <? plen).
      * apply IH. intros j Hj. apply Hp. right. exact Hj.
      * destruct (parent h cur) as [p|] eqn:Pc.
        -- right. right. left. exists p, cur. split; [reflexivity|]. split; [apply Hp; left; reflexivity | exact Pc].
        -- right. left. reflexivity.
Qed.

Definition same_unrooted (t t' : tree) : Prop :=
  Permutation (leaf_taxa t) (leaf_taxa t')
  /\ (forall S, is_usplit t S <-> is_usplit t' S)
  /\ total_length t' = total_length t
  /\ (forall a b, dist a b t' = dist a b t).

(* the tail: is_rooted = True; update_bipartitions(suppress_unifurcations=False, ...) *)
Lemma mid_tail_abs (ub cb : bool) h1 t1 :
  WFt h1 t1 ->
  exists h', (let h2 := set_rooted (Some true) h1 in
              if ub then encode_structural false cb h2 else HOk h2) = HOk h' /\ WF h' /\ abs h' = Some t1
             /\ rooted h' = Some true.
Proof.
  intro W1. pose proof (WFt_set_rooted (Some true) h1 _ W1) as W2. cbv zeta. destruct ub.
  - destruct (encode_structural_wf false cb _ _ W2) as [h' [E [W' [_ R]]]].
    assert (Es : spec_encode false cb (not_rooted (set_rooted (Some true) h1)) t1 = t1).
    { unfold spec_encode. change (not_rooted (set_rooted (Some true) h1)) with false.
      rewrite andb_false_r. reflexivity. }
    rewrite Es in W'. exists h'. split; [exact E|]. split; [eapply WFt_WF, W'|]. split; [apply abs_WFt, W'|].
    destruct R as [R|R]; [rewrite R; reflexivity|].
    (* rooted_ok's second alternative cannot happen: no collapse when rooted *)
    revert E. unfold encode_structural. change (not_rooted (set_rooted (Some true) h1)) with false.
    rewrite andb_false_r. simpl hbind. intro E. inversion E. reflexivity.
  - eexists. split; [reflexivity|]. split; [eapply WFt_WF, W2|]. split; [apply abs_WFt, W2 | reflexivity].
Qed.

Lemma heap_mid_body (ub su cb : bool) h t up1 plen h' :
  WFt h t -> (forall j, In j up1 -> In j (ids t)) ->
  (2 <= length (t_kids t))%nat -> NoDup (leaf_taxa t) ->
  (hdo h1 <-
     match mid_loop h up1 plen with
     | MidTypeErr => HErr TypeErr h
     | MidNone => HErr AssertErr h
     | MidNode b => reseed_at b false false su h
     | MidEdge target head_len =>
       match elen h target, parent h target with
       | Some tl, Some old_tail =>
         let tail_len := tl - head_len in
         hdo h1 <- remove_child_plain old_tail target h ;;
         let ns := next h1 in
         let h2 := alloc None None None h1 in
         hdo h3 <- add_child ns target h2 ;;
         let h4 := set_elen target (Some head_len) h3 in
         hdo h5 <- add_child old_tail ns h4 ;;
         let h6 := set_elen ns (Some tail_len) h5 in
         reseed_at ns false false su h6
       | _, _ => HErr TypeErr h
       end
     end ;;
   let h2 := set_rooted (Some true) h1 in
   if ub then encode_structural false cb h2 else HOk h2) = HOk h' ->
  WF h' /\ rooted h' = Some true /\ exists t', abs h' = Some t' /\ same_unrooted t t'.
Proof.
  intros W Hp TK ND HR. pose proof W as [W0 S]. pose proof W0 as [_ [N _]].
  destruct (mid_loop_cases2 h t W0 up1 plen Hp) as [E|[E|[[b [cur [E [Hc Pc]]]]|[tg [hl [E Htg]]]]]]; rewrite E in HR;
    try discriminate.
  - (* the midpoint is an existing node: b, the parent of cur *)
    destruct (find_ctx t cur Hc) as [c [s [Et Es]]]. subst t cur.
    pose proof W0 as [R _]. apply rep_plug in R. destruct R as [_ Rs].
    rewrite (rep_parent h _ s Rs) in Pc.
    destruct c as [|c' q x l e lft rgt]; simpl in Pc; [discriminate|]. inversion Pc; subst q.
    simpl plug in *.
    assert (HI : is_internal_node b (plug c' (T b x l e (lft ++ s :: rgt)))).
    { exists (T b x l e (lft ++ s :: rgt)). split; [apply (C07LinkOps.find_node_plug c' (T b x l e (lft ++ s :: rgt)) N)|].
      cbn [t_kids]. destruct lft; discriminate. }
    destruct (C07LinkOps.heap_reseed_at_l false false su h _ b (WFt_WF _ _ W) (abs_WFt _ _ W) HI TK ND)
      as [h1 [t1 [r1 [E1 [W1 [A1 [_ I1]]]]]]].
    rewrite E1 in HR. simpl hbind in HR.
    destruct (mid_tail_abs ub cb h1 t1 (WF_abs_t _ _ W1 A1)) as [h2 [E2 [W2 [A2 R2]]]].
    cbv zeta in E2, HR. rewrite E2 in HR. inversion HR; subst h2.
    split; [exact W2|]. split; [exact R2|]. exists t1. split; [exact A2 | exact I1].
  - (* the midpoint is inside the edge above tg *)
    destruct (elen h tg) as [el|] eqn:El; [|discriminate].
    destruct (parent h tg) as [ot|] eqn:Pt; [|discriminate].
    destruct (find_ctx t tg Htg) as [c [s [Et Es]]]. subst t tg.
    pose proof W0 as [R _]. apply rep_plug in R. destruct R as [_ Rs].
    rewrite (rep_parent h _ s Rs) in Pt. rewrite (rep_elen h _ s Rs) in El.
    destruct c as [|c' q x l e lft rgt]; simpl in Pt; [discriminate|]. inversion Pt; subst q.
    simpl plug in *.
    destruct (mid_edge_spec su hl (el - hl) h c' ot x l e lft s rgt W) as [h1 [E1 W1]].
    cbv zeta in E1, HR. rewrite E1 in HR. simpl hbind in HR.
    destruct (mid_tail_abs ub cb h1 _ W1) as [h2 [E2 [W2 [A2 R2]]]].
    cbv zeta in E2. rewrite E2 in HR. inversion HR; subst h2.
    split; [exact W2|]. split; [exact R2|]. eexists. split; [exact A2|].
    destruct s as [ci xs ls es ks]. cbn [t_id t_taxon t_label t_kids t_len] in *.
    assert (FR : ~ In (next h) (ids (plug c' (T ot x l e (lft ++ T ci xs ls es ks :: rgt))))).
    { intro C. destruct W0 as [_ [_ B]]. specialize (B _ C). lia. }
    assert (HM := C07LinkEdge.model_reroot_at_edge (rooted h) (Some (el - hl)) (Some hl) false su (next h)
                    c' ot x l e lft ci xs ls es ks rgt N FR).
    cbv beta iota in HM.
    apply (C07Thms.reroot_at_edge_l _ _ _ _ _ _ _ _ _ _ HM); try assumption.
    intros H HF.
    assert (G := C07LinkOps.find_node_plug (CNode c' ot x l e lft rgt) (T ci xs ls es ks) N).
    cbn [plug t_id] in G. rewrite G in HF. inversion HF; subst H. cbn [t_len C07Model.len0]. rewrite El. cbn. lia.
Qed.

Lemma heap_reroot_at_midpoint_l tx1 tx2 ub su cb h t h' :
  WF h -> abs h = Some t -> (2 <= length (t_kids t))%nat -> NoDup (leaf_taxa t) ->
  HeapOps.reroot_at_midpoint tx1 tx2 ub su cb h = HOk h' ->
  WF h' /\ rooted h' = Some true /\
  exists t', abs h' = Some t'
    /\ Permutation (leaf_taxa t) (leaf_taxa t')
    /\ (forall S, is_usplit t S <-> is_usplit t' S)
    /\ total_length t' = total_length t
    /\ (forall a b, dist a b t' = dist a b t).
Proof.
  intros Wf A TK ND HR. pose proof (WF_abs_t h t Wf A) as W. pose proof W as [W0 S].
  unfold reroot_at_midpoint in HR. rewrite (with_sub_seed h t _ W) in HR.
  set (hits := filter _ (leaf_ids t)) in HR.
  assert (Hh : forall j, In j hits -> In j (ids t)).
  { intros j Hj. unfold hits in Hj. apply filter_In in Hj. apply (proj1 (leaf_ids_sub t)), Hj. }
  destruct hits as [|s0 [|s1 rest]]; try discriminate.
  destruct (ancs_live h t s0 W0 (Hh s0 (or_introl eq_refl))) as [a0 [E0 [L0 Rt0]]].
  destruct (ancs_live h t s1 W0 (Hh s1 (or_intror (or_introl eq_refl)))) as [a1 [E1 [L1 Rt1]]].
  rewrite E0, E1 in HR.
  destruct (dist_from_root h s0 a0) as [d0|e0|]; try discriminate.
  destruct (dist_from_root h s1 a1) as [d1|e1|]; try discriminate.
  destruct (d0 <? d1).
  - destruct (first_common a1 a0) as [mrca|] eqn:Fc; [|discriminate].
    refine (heap_mid_body ub su cb h t (upto mrca a1)
              (fold_right (fun a s => len0 h a + s) 0 (upto mrca a1 ++ upto mrca a0) / 2) h' W _ TK ND HR).
    intros j Hj. apply L1. eapply upto_sub, Hj.
  - destruct (first_common a0 a1) as [mrca|] eqn:Fc; [|discriminate].
    refine (heap_mid_body ub su cb h t (upto mrca a0)
              (fold_right (fun a s => len0 h a + s) 0 (upto mrca a0 ++ upto mrca a1) / 2) h' W _ TK ND HR).
    intros j Hj. apply L0. eapply upto_sub, Hj.
Qed.
