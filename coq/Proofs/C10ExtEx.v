(* C10, second wave: non-vacuity examples on the reachable world ex_w of Proofs/C10Proofs.v
   (members [1;0;3;5;4] with labels A B a a A and indices 0 3 2 5 4; index 1 vacated; count 6). *)
From Coq Require Import ZArith List Bool Lia.
From DV Require Import Model.PyPrims Model.C10Model Model.C10ModelExt Proofs.C10Proofs Proofs.C10Ext.
Import ListNotations.
Open Scope Z_scope.

Example ex_w_inv : Inv (w_ns ex_w) /\ 1 <= count (w_ns ex_w).
Proof. split; [apply ex_w_winv| vm_compute; discriminate]. Qed.

(* "010101": width 6 = count; the vacated position 1 is '0' *)
Example ex_bitstring :
  snd (xstep ex_lower ex_w (XBitString 21)) = YBits [false; true; false; true; false; true]
  /\ snd (xstep ex_lower ex_w (XBitString 0)) = YBits [false; false; false; false; false; false]
  /\ snd (xstep ex_lower ex_w (XBitString 64)) = YBits [true; false; false; false; false; false; false].
Proof. vm_compute. repeat split; reflexivity. Qed.

(* colliding labels: the last member with the key wins, the first occurrence fixes the position *)
Example ex_label_map :
  snd (xstep ex_lower ex_w (XLabelMap None)) = YMap [(0, 4); (1, 0)]
  /\ snd (xstep ex_lower ex_w (XLabelMap (Some true))) = YMap [(0, 4); (1, 0); (2, 5)]
  /\ lookup_all ex_lower ex_w 2 None = [1; 3; 5; 4].
Proof. vm_compute. repeat split; reflexivity. Qed.

(* members 1 and 3 (bits 0 and 2): leafset 0b000101; unrooted: bit 0 set, so the split is the
   complement within 0b111111 = 0b111010, which also has the VACATED bit 1 set *)
Example ex_bipartition_hyps : incl [1; 3] (taxa (w_ns ex_w)).
Proof. intros x H. vm_compute. simpl in H. intuition. Qed.

Example ex_bipartition :
  snd (xstep ex_lower ex_w (XBipartition [1; 3] None)) = YBip 58 5 63
  /\ snd (xstep ex_lower ex_w (XBipartition [1; 3] (Some true))) = YBip 5 5 63
  /\ snd (xstep ex_lower ex_w (XBipartition [3; 4] (Some false))) = YBip 20 20 63
  /\ Z.testbit 58 1 = true /\ alookup 1 (rev (w_ns ex_w)) = None.
Proof. vm_compute. repeat split; reflexivity. Qed.

Example ex_taxa_bitmask_labels :
  snd (xstep ex_lower ex_w (XTaxaBitmaskLabels [2] None false)) = YBase (OInt 53)
  /\ snd (xstep ex_lower ex_w (XTaxaBitmaskLabels [2; 1] (Some true) true)) = YBase (OInt 12)
  /\ snd (xstep ex_lower ex_w (XTaxaBitmaskLabels [7] None false)) = YBase (OInt 0).
Proof. vm_compute. repeat split; reflexivity. Qed.

Example ex_container :
  snd (xstep ex_lower ex_w (XGetItem (-1))) = YBase (OTax (Some 4))
  /\ snd (xstep ex_lower ex_w (XGetItem 5)) = YBase (OErr IndexErr)
  /\ snd (xstep ex_lower ex_w (XGetSlice (Some (-3)) None)) = YBase (OTaxa [3; 5; 4])
  /\ snd (xstep ex_lower ex_w (XContains 2)) = YBase (OBool false)
  /\ snd (xstep ex_lower ex_w (XContains 3)) = YBase (OBool true)
  /\ snd (xstep ex_lower ex_w XLabels) = YBase (OGroup1 [0; 1; 2; 2; 0]).
Proof. vm_compute. repeat split; reflexivity. Qed.

(* an immutable namespace can still shrink and be reordered *)
Example ex_immutable_shrinks :
  let w := fst (step ex_lower ex_w (SetMutable false)) in
  observe (fst (step ex_lower w Clear)) = []
  /\ observe (fst (step ex_lower w (Sort true))) = [(3, 2); (5, 5); (0, 3); (1, 0); (4, 4)]
  /\ observe (fst (step ex_lower w Reverse)) = [(4, 4); (5, 5); (3, 2); (0, 3); (1, 0)]
  /\ observe (fst (step ex_lower w (DiscardLabel 2 None false))) = [(0, 3)]
  /\ step ex_lower w (AddTaxon 3) = (w, OUnit)
  /\ step ex_lower w (AddTaxon 2) = (w, OErr TypeErr)
  /\ step ex_lower w (NewTaxa []) = (w, OErr TypeErr).
Proof. vm_compute. repeat split; reflexivity. Qed.
