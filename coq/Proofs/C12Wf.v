(* C12: Prop forms of the executable well-formedness check Model.wf_heap *)
From Coq Require Import ZArith List Bool Lia.
From DV Require Import Model.PyPrims Model.C12Model Proofs.C12Heap Proofs.C12Inv.
Import ListNotations.
Open Scope Z_scope.

Lemma nth_error_In' : forall A (l : list A) n x, nth_error l n = Some x -> In x l.
Proof. intros. eapply nth_error_In. eassumption. Qed.

Lemma hget_In : forall h o ob, hget h o = Some ob -> In ob h.
Proof. unfold hget. intros h o ob H. destruct (o <? 0); [discriminate|]. eapply nth_error_In'. eassumption. Qed.

Lemma In_refs_of : forall vs o, In (R o) vs -> In o (refs_of vs).
Proof.
  unfold refs_of. intros vs o H. apply in_flat_map. exists (R o). split; [assumption | left; reflexivity].
Qed.

Lemma refs_of_In : forall vs o, In o (refs_of vs) -> In (R o) vs.
Proof.
  unfold refs_of. intros vs o H. apply in_flat_map in H. destruct H as [v [I J]].
  destruct v as [p|q]; simpl in J; [contradiction|]. destruct J as [J|[]]. subst. assumption.
Qed.

Lemma In_body_refs : forall b k v o, In (k, v) b -> (k = R o \/ v = R o) -> In o (body_refs b).
Proof.
  unfold body_refs. intros b k v o I H. apply in_flat_map. exists (k, v). split; [assumption|]. simpl.
  destruct H as [H|H]; subst.
  - left. reflexivity.
  - destruct k; simpl; [left; reflexivity | right; left; reflexivity].
Qed.

Lemma closedb_spec : forall h, closedb h = true ->
  forall o ob k v, hget h o = Some ob -> In (k, v) (obody ob) -> vsrc h k /\ vsrc h v.
Proof.
  unfold closedb. intros h H o ob k v G I. rewrite forallb_forall in H. apply hget_In in G.
  specialize (H ob G). rewrite forallb_forall in H.
  assert (X : forall q, (k = R q \/ v = R q) -> 0 <= q < hlen h).
  { intros q Hq. assert (Y := H q (In_body_refs _ _ _ _ I Hq)). apply andb_true_iff in Y. destruct Y as [Y1 Y2].
    apply Z.leb_le in Y1. apply Z.ltb_lt in Y2. lia. }
  split.
  - destruct k as [p|q]; simpl; [exact Logic.I|]. apply X. left. reflexivity.
  - destruct v as [p|q]; simpl; [exact Logic.I|]. apply X. right. reflexivity.
Qed.

Lemma memz_In : forall x l, memz x l = true <-> In x l.
Proof.
  unfold memz. intros x l. rewrite existsb_exists. split.
  - intros [y [I E]]. apply Z.eqb_eq in E. subst. assumption.
  - intros I. exists x. split; [assumption | apply Z.eqb_refl].
Qed.

Lemma ann_items_ok_spec : forall h seeds, ann_items_ok h seeds = true ->
  forall x ob a, hget h x = Some ob -> In (R a) (ann_items h ob) -> ~ Shared h seeds a.
Proof.
  unfold ann_items_ok. intros h seeds H x ob a G I [_ S]. rewrite forallb_forall in H.
  specialize (H ob (hget_In _ _ _ G)). rewrite forallb_forall in H.
  specialize (H a (In_refs_of _ _ I)). apply andb_true_iff in H. destruct H as [H1 H2].
  destruct S as [S|S].
  - apply memz_In in S. rewrite S in H1. discriminate.
  - rewrite S in H2. discriminate.
Qed.

Lemma forallbi_spec : forall A (f : Z -> A -> bool) l i, forallbi f i l = true ->
  forall n x, nth_error l n = Some x -> f (i + Z.of_nat n) x = true.
Proof.
  induction l as [|a r IH]; simpl; intros i H n x N.
  - destruct n; discriminate.
  - apply andb_true_iff in H. destruct H as [H1 H2]. destruct n as [|n]; simpl in N.
    + inversion N; subst. replace (i + Z.of_nat 0) with i by lia. assumption.
    + replace (i + Z.of_nat (S n)) with ((i + 1) + Z.of_nat n) by lia. eapply IH; eassumption.
Qed.

Lemma bound_names_ok_spec : forall h, bound_names_ok h = true ->
  forall x ob a ao t tob owner name rest,
  hget h x = Some ob -> In (R a) (ann_items h ob) -> hget h a = Some ao ->
  bget (obody ao) NM_VALUE = Some (R t) -> hget h t = Some tob ->
  (okind tob = KTuple \/ okind tob = KList) ->
  values (obody tob) = owner :: name :: rest -> owner = R x -> exists p, name = P p.
Proof.
  unfold bound_names_ok. intros h H x ob a ao t tob owner name rest G I Ga Bv Gt Kt Vs Eo.
  assert (Hx := hget_Some_range _ _ _ G).
  unfold hget in G. destruct (x <? 0) eqn:Ex; [discriminate|].
  apply Z.ltb_ge in Ex.
  assert (F : forallb (bound_name_ok h x) (refs_of (ann_items h ob)) = true).
  { assert (F := forallbi_spec _ _ _ _ H _ _ G). replace (0 + Z.of_nat (Z.to_nat x)) with x in F by lia. exact F. }
  rewrite forallb_forall in F. specialize (F a (In_refs_of _ _ I)).
  unfold bound_name_ok in F. rewrite Ga, Bv, Gt, Vs in F. subst owner. rewrite val_eqb_refl in F. simpl in F.
  destruct Kt as [Kt|Kt]; rewrite Kt in F; destruct name as [p|q]; simpl in F; try discriminate; eauto.
Qed.

Lemma attr_keys_ok_spec : forall h, attr_keys_ok h = true ->
  forall o ob k v, hget h o = Some ob ->
  (okind ob = KPlain \/ okind ob = KAnnotable \/ okind ob = KTaxon \/ okind ob = KNamespace \/ okind ob = KAnnSet) ->
  In (k, v) (obody ob) -> exists p, k = P p.
Proof.
  unfold attr_keys_ok. intros h H o ob k v G K I. rewrite forallb_forall in H.
  specialize (H ob (hget_In _ _ _ G)).
  assert (F : forallb (fun e => is_prim (fst e)) (obody ob) = true).
  { destruct K as [K|[K|[K|[K|K]]]]; rewrite K in H; exact H. }
  rewrite forallb_forall in F. specialize (F (k, v) I). simpl in F. destruct k as [p|q]; [eauto | discriminate].
Qed.

Lemma wf_heap_parts : forall h seeds, wf_heap h seeds = true ->
  closedb h = true /\ (forall x, In x seeds -> 0 <= x < hlen h) /\ ann_items_ok h seeds = true
  /\ bound_names_ok h = true /\ attr_keys_ok h = true.
Proof.
  unfold wf_heap. intros h seeds H.
  apply andb_true_iff in H. destruct H as [H Hk].
  apply andb_true_iff in H. destruct H as [H Hn].
  apply andb_true_iff in H. destruct H as [H Hi].
  apply andb_true_iff in H. destruct H as [Hc Hs].
  split; [exact Hc|]. split; [|auto].
  intros x Ix. rewrite forallb_forall in Hs. specialize (Hs x Ix). apply andb_true_iff in Hs.
  destruct Hs as [A B]. apply Z.leb_le in A. apply Z.ltb_lt in B. lia.
Qed.
