(* C07, wave 8: a REFUSED re-rooting changes nothing - for the GENERATED programs (Gen/Mutators.v, compiled
   statement by statement from _tree.py on every run; C03's refinements Proofs/C03GenTree.v).
   Heap.hres keeps the state an exception leaves behind (HErr e h): the theorems say that this state IS the
   input heap - every parent pointer, child list, edge length and the rooting flag - when reroot_at_edge is
   given the seed edge (no tail node: AttributeError) and when to_outgroup_position is given the seed
   (AssertionError).  The source order matters: a reroot_at_edge that attaches the head node to the new node
   and assigns length2 BEFORE it touches the tail node raises the same AttributeError with the seed node
   re-parented and its edge length overwritten; its compiled program is not HeapOps.reroot_at_edge and
   C03GenTree.gen_reroot_at_edge (used here) does not go through. *)
From Coq Require Import ZArith List Bool Lia.
From DV Require Import Model.PyPrims Model.Tree.
From DV Require Import Model.Heap Model.HeapOps Model.MutPrims Gen.Mutators Model.C03GenInst Proofs.C03Base
     Proofs.C03Hist Proofs.C03GenTree.
From DV Require Proofs.C07Thms Proofs.C07LinkEx.
Import ListNotations.
Open Scope Z_scope.

Lemma gen_reroot_at_edge_refused_l c l1 l2 ub su h : parent h c = None ->
  to_hres (Tree_reroot_at_edge HG c l1 l2 ub su h) = HErr AttrErr h.
Proof. intro P. rewrite gen_reroot_at_edge. unfold reroot_at_edge. rewrite P. reflexivity. Qed.

Lemma gen_to_outgroup_refused_l og ub su h : parent h og = None ->
  to_hres (Tree_to_outgroup_position HG og ub su h) = HErr AssertErr h.
Proof. intro P. rewrite gen_to_outgroup_position. unfold to_outgroup_position_r. rewrite P. reflexivity. Qed.

Lemma wf_seed_parent h : WF h -> parent h (seed h) = None.
Proof. intro W. destruct (wf_meaning_l h W) as [t [_ [_ [_ [P _]]]]]. exact P. Qed.

Lemma gen_reroot_at_seed_edge_l l1 l2 ub su h : WF h ->
  to_hres (Tree_reroot_at_edge HG (seed h) l1 l2 ub su h) = HErr AttrErr h.
Proof. intro W. apply gen_reroot_at_edge_refused_l, wf_seed_parent, W. Qed.

Lemma gen_to_outgroup_seed_l ub su h : WF h ->
  to_hres (Tree_to_outgroup_position HG (seed h) ub su h) = HErr AssertErr h.
Proof. intro W. apply gen_to_outgroup_refused_l, wf_seed_parent, W. Qed.

(* ... so whatever follows starts from the same heap: a further (valid) reroot_at_edge after the refused one
   is the valid one alone *)
Lemma refused_then_l l1 l2 ub su (k : heap -> hres) h : WF h ->
  k (hres_heap (to_hres (Tree_reroot_at_edge HG (seed h) l1 l2 ub su h)) h) = k h.
Proof. intro W. rewrite gen_reroot_at_seed_edge_l by assumption. reflexivity. Qed.

(* non-vacuity: a well-formed heap, and the refused call evaluated on it *)
Lemma refused_example_l :
  WF (of_tree C07Thms.ex_t None)
  /\ to_hres (Tree_reroot_at_edge HG (seed (of_tree C07Thms.ex_t None)) (Some 512) (Some 512) false true
                                  (of_tree C07Thms.ex_t None))
     = HErr AttrErr (of_tree C07Thms.ex_t None).
Proof.
  assert (W : WF (of_tree C07Thms.ex_t None)) by apply (proj1 C07LinkEx.ex_heap).
  split; [exact W | apply gen_reroot_at_seed_edge_l, W].
Qed.
