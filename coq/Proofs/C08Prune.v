(* C08 - the in-place methods compute the specification `restrictG`. *)
From Coq Require Import ZArith List Bool Lia.
From DV Require Import Model.PyPrims Model.Tree Model.C08Model Proofs.C08Base Proofs.C08InPlace.
Import ListNotations.
Open Scope Z_scope.

Definition olist {A} (o : option A) : list A := match o with Some a => [a] | None => [] end.
Definition nnot (p : npred) : npred := fun i x => negb (p i x).

Lemma omap_olist {A B} (f : A -> option B) l : omap_list f l = flat_map (fun a => olist (f a)) l.
Proof. reflexivity. Qed.

Lemma restrictG_leaf sup kl ki ke i x l e :
  restrictG sup kl ki ke (T i x l e []) = if kl i x then Some (T i x l e []) else None.
Proof. reflexivity. Qed.

Lemma restrictG_node sup kl ki ke i x l e k r :
  restrictG sup kl ki ke (T i x l e (k :: r)) =
  if ki i x then
    match omap_list (restrictG sup kl ki ke) (k :: r) with
    | [] => if ke i x then Some (T i x l e []) else None
    | [c] => if sup then Some (set_len c (merge_len e (t_len c))) else Some (T i x l e [c])
    | ks' => Some (T i x l e ks')
    end
  else None.
Proof. reflexivity. Qed.

(* ---------------------------------------------------------------------------------------- *)
(* filter-like updates keep ids distinct                                                    *)
(* ---------------------------------------------------------------------------------------- *)

Definition filterlike (f : tree -> list tree) : Prop := forall n, f n = [] \/ f n = [n].

Lemma filterlike_shrink f : filterlike f -> ids_shrink f.
Proof. intros H n a. destruct (H n) as [E|E]; rewrite E; [intros [] | rewrite idsF_single; exact (fun X => X)]. Qed.

Lemma NoDup_recf f (Hf : filterlike f) : forall t, NoDup (ids t) -> NoDup (idsF (recf f t)).
Proof.
  pose proof (filterlike_shrink f Hf) as Hs.
  induction t as [i x l e ks IH] using tree_ind'. intro Hnd. simpl recf.
  destruct (Hf (T i x l e (flat_map (recf f) ks))) as [E|E]; rewrite E; [constructor|].
  rewrite idsF_single, ids_T.
  destruct (NoDup_ids_kids _ _ _ _ _ Hnd) as [Hk Hi].
  assert (Hsub : forall a F, In a (idsF (flat_map (recf f) F)) -> In a (idsF F)).
  { intros a F Ha. unfold idsF in *. rewrite flat_map_flat_map in Ha. apply in_flat_map in Ha.
    destruct Ha as [k [Hk' Ha]]. apply in_flat_map. exists k. split; [exact Hk'|]. exact (ids_recf f Hs k a Ha). }
  constructor.
  - intro H. apply Hi. apply Hsub. exact H.
  - clear Hi Hnd E. induction ks as [|k r IHr]; [constructor|].
    inversion IH as [|? ? Pk Pr]; subst. rewrite idsF_cons in Hk.
    simpl flat_map. rewrite idsF_app. apply NoDup_app_intro.
    + apply Pk. exact (NoDup_app_l _ _ Hk).
    + apply IHr; [exact Pr | exact (NoDup_app_r _ _ Hk)].
    + intros a H1 H2. apply (ids_recf f Hs) in H1. apply Hsub in H2. exact (NoDup_app_disj _ _ _ Hk H1 H2).
Qed.

Lemma NoDup_recf_kids f (Hf : filterlike f) t : NoDup (ids t) ->
  NoDup (ids (set_kids t (flat_map (recf f) (t_kids t)))).
Proof.
  intro Hnd. pose proof (filterlike_shrink f Hf) as Hs.
  rewrite ids_set_kids. rewrite ids_as_kids in Hnd. inversion Hnd as [|? ? Hn Hr]; subst.
  assert (Hsub : forall a F, In a (idsF (flat_map (recf f) F)) -> In a (idsF F)).
  { intros a F Ha. unfold idsF in *. rewrite flat_map_flat_map in Ha. apply in_flat_map in Ha.
    destruct Ha as [k [Hk' Ha]]. apply in_flat_map. exists k. split; [exact Hk'|]. exact (ids_recf f Hs k a Ha). }
  constructor.
  - intro H. apply Hn. apply Hsub. exact H.
  - clear Hn Hnd. induction (t_kids t) as [|k r IHr]; [constructor|].
    rewrite idsF_cons in Hr. simpl flat_map. rewrite idsF_app. apply NoDup_app_intro.
    + apply NoDup_recf; [exact Hf | exact (NoDup_app_l _ _ Hr)].
    + apply IHr. exact (NoDup_app_r _ _ Hr).
    + intros a H1 H2. apply (ids_recf f Hs) in H1. apply Hsub in H2. exact (NoDup_app_disj _ _ _ Hr H1 H2).
Qed.

Definition dropf (bad : npred) (n : tree) : list tree :=
  if is_nil (t_kids n) && app_np bad n then [] else [n].

Lemma dropf_filterlike bad : filterlike (dropf bad).
Proof. intro n. unfold dropf. destruct (is_nil (t_kids n) && app_np bad n); [left | right]; reflexivity. Qed.

Lemma dropL_recf bad : forall n, dropL bad n = recf (dropf bad) n.
Proof.
  induction n as [i x l e ks IH] using tree_ind'. rewrite dropL_T. simpl recf. unfold dropf. simpl t_kids.
  unfold app_np. simpl t_id. simpl t_taxon.
  rewrite (flat_map_ext_in (dropL bad) (recf (dropf bad)) ks); [reflexivity|].
  rewrite Forall_forall in IH. exact IH.
Qed.

Lemma NoDup_drop_root bad t : NoDup (ids t) -> NoDup (ids (drop_root bad t)).
Proof.
  intro H. unfold drop_root.
  rewrite (flat_map_ext_in (dropL bad) (recf (dropf bad))); [|intros a _; apply dropL_recf].
  apply NoDup_recf_kids; [apply dropf_filterlike | exact H].
Qed.

Lemma p1_filterlike lf intn taxa : filterlike (p1_f lf intn taxa).
Proof. intro n. unfold p1_f. destruct (p1_cond lf intn taxa n); [left | right]; reflexivity. Qed.

(* ---------------------------------------------------------------------------------------- *)
(* repeated leaf removal = restrictG without suppression; suppression on top = restrictG    *)
(* ---------------------------------------------------------------------------------------- *)

Lemma dropL_restrict bad : forall n,
  dropL bad n = olist (restrictG false (nnot bad) np_true (nnot bad) n).
Proof.
  induction n as [i x l e ks IH] using tree_ind'. rewrite dropL_T.
  rewrite (flat_map_ext_in (dropL bad) (fun a => olist (restrictG false (nnot bad) np_true (nnot bad) a)) ks).
  2:{ rewrite Forall_forall in IH. exact IH. }
  rewrite <- omap_olist.
  destruct ks as [|k r].
  - rewrite restrictG_leaf. unfold nnot. simpl. destruct (bad i x); reflexivity.
  - rewrite restrictG_node.
    generalize (omap_list (restrictG false (nnot bad) np_true (nnot bad)) (k :: r)). intro A.
    unfold np_true at 1. cbv iota.
    destruct A as [|c [|c2 r2]].
    + unfold nnot. simpl. destruct (bad i x); reflexivity.
    + reflexivity.
    + reflexivity.
Qed.

Lemma su_f_root n : su_f n = [su_root n].
Proof. unfold su_f, su_root. destruct (t_kids n) as [|c [|c2 r]]; reflexivity. Qed.

Lemma su_restrict_gen kl ki ke : forall n,
  flat_map suL (olist (restrictG false kl ki ke n)) = olist (restrictG true kl ki ke n).
Proof.
  induction n as [i x l e ks IH] using tree_ind'.
  destruct ks as [|k r].
  - rewrite !restrictG_leaf. destruct (kl i x); [|reflexivity]. simpl. reflexivity.
  - rewrite !restrictG_node. destruct (ki i x); [|reflexivity].
    assert (AB : flat_map suL (omap_list (restrictG false kl ki ke) (k :: r)) =
                 omap_list (restrictG true kl ki ke) (k :: r)).
    { rewrite !omap_olist, flat_map_flat_map. apply flat_map_ext_in. rewrite Forall_forall in IH. exact IH. }
    pose proof (suL_length (omap_list (restrictG false kl ki ke) (k :: r))) as Hlen. rewrite AB in Hlen.
    revert AB Hlen.
    generalize (omap_list (restrictG false kl ki ke) (k :: r)).
    generalize (omap_list (restrictG true kl ki ke) (k :: r)). intros B A AB Hlen.
    destruct A as [|a [|a2 ar]].
    + simpl in AB. rewrite <- AB. destruct (ke i x); reflexivity.
    + unfold olist at 1. simpl flat_map. rewrite app_nil_r, suL_T, AB.
      destruct B as [|b [|b2 br]]; try discriminate Hlen.
      reflexivity.
    + unfold olist at 1. simpl flat_map at 1. rewrite app_nil_r, suL_T, AB.
      destruct B as [|b [|b2 br]]; try discriminate Hlen.
      reflexivity.
Qed.

Lemma su_restrict kl ke : forall n,
  flat_map suL (olist (restrictG false kl np_true ke n)) = olist (restrictG true kl np_true ke n).
Proof. apply su_restrict_gen. Qed.

Lemma dropL_root bad t : dropL bad t = if drop_fails bad t then [] else [drop_root bad t].
Proof. destruct t as [i x l e ks]. rewrite dropL_T. reflexivity. Qed.

Lemma suL_root t : suL t = [su_root (set_kids t (flat_map suL (t_kids t)))].
Proof. destruct t as [i x l e ks]. rewrite suL_T, su_f_root. reflexivity. Qed.

(* the loop followed by the optional suppression, against the specification *)
Lemma loop_su_restrict bad e sup t : NoDup (ids t) ->
  match restrictG sup (nnot bad) np_true (nnot bad) t with
  | Some r =>
    (exists rem, lf_loop bad e true (S (size t)) t [] = IOk (rem, drop_root bad t)) /\
    (if sup then fst (su_run (drop_root bad t)) else drop_root bad t) = r
  | None => lf_loop bad e true (S (size t)) t [] = IErr e (set_kids t [])
  end.
Proof.
  intro Hnd.
  destruct (lf_loop_tree bad e (size t) t [] (le_n _) Hnd) as [L1 L2].
  pose proof (dropL_restrict bad t) as D. rewrite dropL_root in D.
  pose proof (su_restrict (nnot bad) (nnot bad) t) as S. rewrite <- D in S.
  destruct (drop_fails bad t) eqn:F.
  - assert (R0 : restrictG false (nnot bad) np_true (nnot bad) t = None).
    { destruct (restrictG false (nnot bad) np_true (nnot bad) t); [discriminate D | reflexivity]. }
    simpl in S.
    assert (R1 : restrictG true (nnot bad) np_true (nnot bad) t = None).
    { destruct (restrictG true (nnot bad) np_true (nnot bad) t); [discriminate S | reflexivity]. }
    destruct sup; [rewrite R1 | rewrite R0]; apply L1; reflexivity.
  - destruct (L2 eq_refl) as [rem Hrem]. simpl in Hrem.
    destruct sup.
    + simpl flat_map in S. rewrite app_nil_r, suL_root in S.
      destruct (restrictG true (nnot bad) np_true (nnot bad) t) as [r|]; [|discriminate S].
      split; [exists rem; exact Hrem|].
      rewrite su_run_eq; [|apply NoDup_drop_root; exact Hnd].
      simpl in S. inversion S. reflexivity.
    + destruct (restrictG false (nnot bad) np_true (nnot bad) t) as [r|]; [|discriminate D].
      split; [exists rem; exact Hrem|]. simpl in D. inversion D. reflexivity.
Qed.

(* ---------------------------------------------------------------------------------------- *)
(* the methods                                                                              *)
(* ---------------------------------------------------------------------------------------- *)

Definition with_update (upd_bip sup : bool) (rooted : option bool) (r : tree) : tree * option bool :=
  if upd_bip then encode_effect sup rooted r else (r, rooted).

Lemma finish_eq upd_bip sup ret t rooted :
  finish upd_bip sup ret t rooted =
  (ret, fst (with_update upd_bip sup rooted (if sup then fst (su_run t) else t)),
        snd (with_update upd_bip sup rooted (if sup then fst (su_run t) else t))).
Proof.
  unfold finish, with_update. destruct upd_bip.
  - destruct (encode_effect sup rooted (if sup then fst (su_run t) else t)). reflexivity.
  - reflexivity.
Qed.


Lemma restrictG_ext sup : forall kl ki ke kl' ki' ke' t,
  (forall n, In n (preorder t) -> kl (t_id n) (t_taxon n) = kl' (t_id n) (t_taxon n) /\
                                  ki (t_id n) (t_taxon n) = ki' (t_id n) (t_taxon n) /\
                                  ke (t_id n) (t_taxon n) = ke' (t_id n) (t_taxon n)) ->
  restrictG sup kl ki ke t = restrictG sup kl' ki' ke' t.
Proof.
  intros kl ki ke kl' ki' ke'. induction t as [i x l e ks IH] using tree_ind'. intro H.
  destruct (H _ (preorder_self _)) as [H1 [H2 H3]]. simpl in H1, H2, H3.
  destruct ks as [|k r].
  - rewrite !restrictG_leaf, H1. reflexivity.
  - rewrite !restrictG_node, H2, H3.
    assert (E : omap_list (restrictG sup kl ki ke) (k :: r) = omap_list (restrictG sup kl' ki' ke') (k :: r)).
    { rewrite !omap_olist. apply flat_map_ext_in. intros a Ha. f_equal.
      rewrite Forall_forall in IH. apply IH; [exact Ha|]. intros n Hn. apply H.
      apply (preorder_trans _ a); [apply kid_in_preorder; exact Ha | exact Hn]. }
    rewrite E. reflexivity.
Qed.

(* on leaves only (internal predicates untouched) *)
Lemma restrictG_ext_leaves sup ki ke : forall kl kl' t,
  (forall n, In n (leaves t) -> kl (t_id n) (t_taxon n) = kl' (t_id n) (t_taxon n)) ->
  restrictG sup kl ki ke t = restrictG sup kl' ki ke t.
Proof.
  intros kl kl'. induction t as [i x l e ks IH] using tree_ind'. intro H.
  destruct ks as [|k r].
  - rewrite !restrictG_leaf. pose proof (H (T i x l e []) (or_introl eq_refl)) as E. simpl in E. rewrite E. reflexivity.
  - rewrite !restrictG_node.
    assert (E : omap_list (restrictG sup kl ki ke) (k :: r) = omap_list (restrictG sup kl' ki ke) (k :: r)).
    { rewrite !omap_olist. apply flat_map_ext_in. intros a Ha. f_equal.
      rewrite Forall_forall in IH. apply IH; [exact Ha|]. intros n Hn. apply H.
      rewrite leaves_T_cons. apply in_flat_map. exists a. split; assumption. }
    rewrite E. reflexivity.
Qed.

(* --- prune_leaves_without_taxa / filter_leaf_nodes (recursive) --- *)


Lemma nnot_no_taxon : forall i x, nnot no_taxon i x = has_taxon i x.
Proof. intros i [a|]; reflexivity. Qed.

Theorem plwt_spec upd_bip sup t rooted : NoDup (ids t) ->
  match restrictG sup has_taxon np_true has_taxon t with
  | Some r => exists rem,
      prune_leaves_without_taxa true upd_bip sup (t, rooted) =
      IOk (rem, fst (with_update upd_bip sup rooted r), snd (with_update upd_bip sup rooted r))
  | None => prune_leaves_without_taxa true upd_bip sup (t, rooted) = IErr EAttr (set_kids t [])
  end.
Proof.
  intro Hnd. pose proof (loop_su_restrict no_taxon EAttr sup t Hnd) as L.
  rewrite (restrictG_ext sup (nnot no_taxon) np_true (nnot no_taxon) has_taxon np_true has_taxon) in L.
  2:{ intros n _. rewrite !nnot_no_taxon. repeat split. }
  unfold prune_leaves_without_taxa.
  destruct (restrictG sup has_taxon np_true has_taxon t) as [r|].
  - destruct L as [[rem Hrem] Hr]. exists rem. rewrite Hrem, finish_eq, Hr. reflexivity.
  - rewrite L. reflexivity.
Qed.

Definition ok_pred (ok : list Z) : npred := fun i _ => memz i ok.

Theorem filter_leaf_nodes_spec ok upd_bip sup t rooted : NoDup (ids t) ->
  match restrictG sup (ok_pred ok) np_true (ok_pred ok) t with
  | Some r => exists rem,
      filter_leaf_nodes ok true upd_bip sup (t, rooted) =
      IOk (rem, fst (with_update upd_bip sup rooted r), snd (with_update upd_bip sup rooted r))
  | None => filter_leaf_nodes ok true upd_bip sup (t, rooted) = IErr ESeedDel (set_kids t [])
  end.
Proof.
  intro Hnd. pose proof (loop_su_restrict (fun i _ => negb (memz i ok)) ESeedDel sup t Hnd) as L.
  rewrite (restrictG_ext sup (nnot (fun i _ => negb (memz i ok))) np_true (nnot (fun i _ => negb (memz i ok)))
                         (ok_pred ok) np_true (ok_pred ok)) in L.
  2:{ intros n _. unfold nnot, ok_pred. rewrite negb_involutive. repeat split. }
  unfold filter_leaf_nodes.
  destruct (restrictG sup (ok_pred ok) np_true (ok_pred ok) t) as [r|].
  - destruct L as [[rem Hrem] Hr]. exists rem. rewrite Hrem, finish_eq, Hr. reflexivity.
  - rewrite L. reflexivity.
Qed.

(* --- prune_taxa --- *)

(* which leaves the first loop of prune_taxa leaves standing (on trees with leaf taxa only) *)
Definition p1_keep (lf : bool) (taxa : list Z) : npred :=
  fun _ x => match x with Some a => negb (lf && memz a taxa) | None => false end.

Lemma leaf_taxa_only_leaf i x l e : leaf_taxa_only (T i x l e []) = match x with Some _ => true | None => false end.
Proof. reflexivity. Qed.
Lemma leaf_taxa_only_node i x l e k r :
  leaf_taxa_only (T i x l e (k :: r)) = match x with Some _ => false | None => forallb leaf_taxa_only (k :: r) end.
Proof. reflexivity. Qed.

Lemma recf_T f i x l e ks : recf f (T i x l e ks) = f (T i x l e (flat_map (recf f) ks)).
Proof. reflexivity. Qed.

Lemma flat_map_single {A B} (f : A -> list B) a : flat_map f [a] = f a.
Proof. simpl. apply app_nil_r. Qed.

Lemma p1_drop lf intn taxa : forall n, leaf_taxa_only n = true ->
  flat_map (dropL no_taxon) (recf (p1_f lf intn taxa) n) =
  olist (restrictG false (p1_keep lf taxa) np_true np_false n).
Proof.
  induction n as [i x l e ks IH] using tree_ind'. intro Hd.
  destruct ks as [|k r].
  - rewrite leaf_taxa_only_leaf in Hd. destruct x as [a|]; [|discriminate Hd].
    rewrite restrictG_leaf. unfold p1_keep.
    simpl recf. unfold p1_f, p1_cond. simpl is_leaf. simpl t_taxon.
    destruct lf, intn, (memz a taxa); reflexivity.
  - rewrite leaf_taxa_only_node in Hd. destruct x as [a|]; [discriminate Hd|].
    rewrite recf_T. unfold p1_f at 1, p1_cond. simpl t_taxon. rewrite andb_false_r.
    rewrite flat_map_single, dropL_T, flat_map_flat_map.
    rewrite (flat_map_ext_in (fun a => flat_map (dropL no_taxon) (recf (p1_f lf intn taxa) a))
                             (fun a => olist (restrictG false (p1_keep lf taxa) np_true np_false a)) (k :: r)).
    2:{ intros a Ha. rewrite Forall_forall in IH. apply IH; [exact Ha|].
        rewrite forallb_forall in Hd. exact (Hd a Ha). }
    rewrite <- omap_olist, restrictG_node.
    generalize (omap_list (restrictG false (p1_keep lf taxa) np_true np_false) (k :: r)). intro A.
    unfold np_true at 1. cbv iota.
    destruct A as [|c [|c2 r2]]; reflexivity.
Qed.

Lemma restrictG_su kl ke t :
  match restrictG false kl np_true ke t with
  | Some r0 => restrictG true kl np_true ke t = Some (su_root (set_kids r0 (flat_map suL (t_kids r0))))
  | None => restrictG true kl np_true ke t = None
  end.
Proof.
  pose proof (su_restrict kl ke t) as S.
  destruct (restrictG false kl np_true ke t) as [r0|].
  - simpl in S. rewrite app_nil_r, suL_root in S.
    destruct (restrictG true kl np_true ke t); [|discriminate S]. simpl in S. inversion S. reflexivity.
  - simpl in S. destruct (restrictG true kl np_true ke t); [discriminate S | reflexivity].
Qed.

Theorem prune_taxa_spec taxa upd_bip sup lf intn t rooted :
  NoDup (ids t) -> leaf_taxa_only t = true ->
  prune_taxa taxa upd_bip sup lf intn (t, rooted) =
  match restrict sup (p1_keep lf taxa) t with
  | Some r => IOk ([], fst (with_update upd_bip sup rooted r), snd (with_update upd_bip sup rooted r))
  | None => IErr EAttr (set_kids t [])
  end.
Proof.
  intros Hnd Hd. unfold prune_taxa. rewrite (phase1_eq lf intn taxa t Hnd). cbv zeta.
  set (t1 := set_kids t (flat_map (recf (p1_f lf intn taxa)) (t_kids t))).
  unfold restrict.
  destruct t as [i x l e ks]. destruct ks as [|k r].
  - (* single node *)
    rewrite leaf_taxa_only_leaf in Hd. destruct x as [a|]; [|discriminate Hd].
    rewrite restrictG_leaf. unfold p1_keep.
    subst t1. simpl set_kids. unfold p1_cond. simpl is_leaf. simpl t_taxon.
    assert (P : prune_leaves_without_taxa true upd_bip sup (T i (Some a) l e [], rooted) =
                IOk ([], fst (with_update upd_bip sup rooted (T i (Some a) l e [])),
                         snd (with_update upd_bip sup rooted (T i (Some a) l e [])))).
    { unfold prune_leaves_without_taxa. simpl lf_loop. cbv iota beta. rewrite finish_eq.
      assert (Hs : fst (su_run (T i (Some a) l e [])) = T i (Some a) l e []) by (rewrite (su_run_eq _ Hnd); reflexivity).
      destruct sup; [rewrite Hs|]; reflexivity. }
    destruct lf, intn, (memz a taxa); simpl andb; simpl orb; simpl negb; cbv iota; try reflexivity; rewrite P; reflexivity.
  - rewrite leaf_taxa_only_node in Hd. destruct x as [a|]; [discriminate Hd|].
    assert (C : p1_cond lf intn taxa t1 = false).
    { unfold p1_cond, t1. rewrite t_taxon_set_kids. simpl. apply andb_false_r. }
    rewrite C.
    assert (Hnd1 : NoDup (ids t1)) by (apply NoDup_recf_kids; [apply p1_filterlike | exact Hnd]).
    (* the loop on t1 *)
    pose proof (loop_su_restrict no_taxon EAttr sup t1 Hnd1) as L.
    (* restrictG on t1 with the loop's predicates = restrict on t with the composite predicate *)
    assert (K : flat_map (dropL no_taxon) (t_kids t1) =
                omap_list (restrictG false (p1_keep lf taxa) np_true np_false) (k :: r)).
    { unfold t1. rewrite t_kids_set_kids. simpl t_kids. rewrite flat_map_flat_map, omap_olist.
      apply flat_map_ext_in. intros a Ha. apply p1_drop. rewrite forallb_forall in Hd. exact (Hd a Ha). }
    assert (R0 : restrictG false (nnot no_taxon) np_true (nnot no_taxon) t1 =
                 restrictG false (p1_keep lf taxa) np_true np_false (T i None l e (k :: r))).
    { pose proof (dropL_restrict no_taxon t1) as D. rewrite dropL_root in D.
      assert (F1 : drop_fails no_taxon t1 = is_nil (omap_list (restrictG false (p1_keep lf taxa) np_true np_false) (k :: r))).
      { unfold drop_fails. rewrite K. unfold app_np, t1. rewrite t_taxon_set_kids. simpl t_taxon. simpl no_taxon.
        apply andb_true_r. }
      assert (F2 : drop_root no_taxon t1 = T i None l e (omap_list (restrictG false (p1_keep lf taxa) np_true np_false) (k :: r))).
      { unfold drop_root. rewrite K. unfold t1. rewrite set_kids_set_kids. reflexivity. }
      rewrite F1, F2 in D. rewrite restrictG_node.
      revert D. generalize (omap_list (restrictG false (p1_keep lf taxa) np_true np_false) (k :: r)).
      intros A D. unfold np_true at 2. cbv iota. unfold np_false.
      destruct (restrictG false (nnot no_taxon) np_true (nnot no_taxon) t1) as [x0|];
        destruct A as [|c [|c2 r2]]; simpl in D; try discriminate D; try (inversion D; reflexivity); reflexivity. }
    assert (R : restrictG sup (nnot no_taxon) np_true (nnot no_taxon) t1 =
                restrictG sup (p1_keep lf taxa) np_true np_false (T i None l e (k :: r))).
    { destruct sup; [|exact R0].
      pose proof (restrictG_su (nnot no_taxon) (nnot no_taxon) t1) as S1.
      pose proof (restrictG_su (p1_keep lf taxa) np_false (T i None l e (k :: r))) as S2.
      rewrite R0 in S1.
      destruct (restrictG false (p1_keep lf taxa) np_true np_false (T i None l e (k :: r))).
      - rewrite S1, S2. reflexivity.
      - rewrite S1, S2. reflexivity. }
    rewrite R in L.
    unfold prune_leaves_without_taxa.
    destruct (restrictG sup (p1_keep lf taxa) np_true np_false (T i None l e (k :: r))) as [rr|].
    + destruct L as [[rem Hrem] Hr]. rewrite Hrem, finish_eq, Hr. reflexivity.
    + rewrite L. unfold t1. rewrite set_kids_set_kids. reflexivity.
Qed.
