(* C04: the split list stored by encode_bipartitions() is duplicate-free exactly outside the domain of
   the finding weighted-distance-root-adjacent-edge-collision (trees with pairwise distinct leaf taxa) *)
From Coq Require Import ZArith List Bool Lia Permutation.
From DV Require Import Model.PyPrims Model.Tree Model.C04Model Model.C04Spec Gen.BitFns
  Proofs.C04Lists Proofs.C04Loops Proofs.C04Bits Proofs.C04Core Proofs.C04Sets.
Import ListNotations.
Open Scope Z_scope.

(* ------------------------------------------------------------------------------------------ *)
(* normalize_bitmask is injective on sub-masks of the tree mask up to complement *)

Lemma normalize_inj m1 m2 tm :
  0 < tm -> Z.land m1 tm = m1 -> Z.land m2 tm = m2 ->
  py_normalize_bitmask m1 tm (py_least_significant_set_bit tm)
  = py_normalize_bitmask m2 tm (py_least_significant_set_bit tm) ->
  m1 = m2 \/ (Z.land m1 m2 = 0 /\ Z.lor m1 m2 = tm).
Proof.
  intros Hpos S1 S2. destruct tm as [|p|p]; try lia.
  destruct (lsb_spec p) as [j [Hj [E Tb]]]. rewrite E. unfold py_normalize_bitmask.
  rewrite !land_pow2_zero by exact Hj. rewrite !negb_involutive.
  assert (I1 : forall n, 0 <= n -> Z.testbit m1 n = true -> Z.testbit (Zpos p) n = true).
  { intros n Hn T. rewrite <- S1, Z.land_spec in T. apply andb_true_iff in T. tauto. }
  assert (I2 : forall n, 0 <= n -> Z.testbit m2 n = true -> Z.testbit (Zpos p) n = true).
  { intros n Hn T. rewrite <- S2, Z.land_spec in T. apply andb_true_iff in T. tauto. }
  destruct (Z.testbit m1 j) eqn:E1, (Z.testbit m2 j) eqn:E2; intro H.
  - left. apply Z.bits_inj'. intros n Hn.
    assert (Hb : Z.testbit (Z.land (Z.lnot m1) (Zpos p)) n = Z.testbit (Z.land (Z.lnot m2) (Zpos p)) n) by (rewrite H; reflexivity).
    rewrite !Z.land_spec, !Z.lnot_spec in Hb by exact Hn.
    specialize (I1 n Hn). specialize (I2 n Hn).
    destruct (Z.testbit m1 n), (Z.testbit m2 n), (Z.testbit (Zpos p) n); simpl in *; try reflexivity; try discriminate;
      try (specialize (I1 eq_refl); discriminate); try (specialize (I2 eq_refl); discriminate).
  - right. split; apply Z.bits_inj'; intros n Hn;
      assert (Hb : Z.testbit (Z.land (Z.lnot m1) (Zpos p)) n = Z.testbit (Z.land m2 (Zpos p)) n) by (rewrite H; reflexivity);
      rewrite ?Z.land_spec, ?Z.lor_spec, ?Z.bits_0; rewrite !Z.land_spec, Z.lnot_spec in Hb by exact Hn;
      specialize (I1 n Hn); specialize (I2 n Hn);
      destruct (Z.testbit m1 n), (Z.testbit m2 n), (Z.testbit (Zpos p) n); simpl in *; try reflexivity; try discriminate;
      try (specialize (I1 eq_refl); discriminate); try (specialize (I2 eq_refl); discriminate).
  - right. split; apply Z.bits_inj'; intros n Hn;
      assert (Hb : Z.testbit (Z.land m1 (Zpos p)) n = Z.testbit (Z.land (Z.lnot m2) (Zpos p)) n) by (rewrite H; reflexivity);
      rewrite ?Z.land_spec, ?Z.lor_spec, ?Z.bits_0; rewrite !Z.land_spec, Z.lnot_spec in Hb by exact Hn;
      specialize (I1 n Hn); specialize (I2 n Hn);
      destruct (Z.testbit m1 n), (Z.testbit m2 n), (Z.testbit (Zpos p) n); simpl in *; try reflexivity; try discriminate;
      try (specialize (I1 eq_refl); discriminate); try (specialize (I2 eq_refl); discriminate).
  - left. rewrite S1, S2 in H. exact H.
Qed.

(* ------------------------------------------------------------------------------------------ *)
(* (C) no two leafset masks are complementary when the seed has at least three children *)

Lemma no_complementary_pair acc i x l e ks u v :
  good acc (T i x l e ks) -> (3 <= length ks)%nat ->
  In u (postorder (T i x l e ks)) -> In v (postorder (T i x l e ks)) ->
  Z.land (lmask acc u) (lmask acc v) = 0 ->
  Z.lor (lmask acc u) (lmask acc v) = lmask acc (T i x l e ks) -> False.
Proof.
  intros G L Hu Hv HA HO. set (t := T i x l e ks) in *.
  destruct (postorder_good acc t u G Hu) as [Gu Iu]. destruct (postorder_good acc t v G Hv) as [Gv Iv].
  assert (Root : forall w w', In w' (postorder t) -> good acc w' -> w = t ->
                 Z.land (lmask acc w) (lmask acc w') = 0 -> False).
  { intros w w' Hw' Gw' -> HA'. destruct (postorder_good acc t w' G Hw') as [_ Iw'].
    rewrite Z.land_comm, (mask_subset acc w' t Gw' G Iw') in HA'. apply (good_mask_nonzero acc w' Gw' HA'). }
  unfold t in Hu, Hv. rewrite postorder_node in Hu, Hv. apply in_app_iff in Hu. apply in_app_iff in Hv. fold t in Hu, Hv.
  destruct Hu as [Hu|[Eu|[]]]; [|apply (Root u v); [unfold t; rewrite postorder_node; apply in_or_app; exact Hv|exact Gv|symmetry; exact Eu|exact HA]].
  destruct Hv as [Hv|[Ev|[]]]; [|apply (Root v u); [unfold t; rewrite postorder_node; apply in_or_app; left; exact Hu|exact Gu|symmetry; exact Ev|rewrite Z.land_comm; exact HA]].
  apply in_flat_map in Hu. destruct Hu as [k1 [Hk1 Hu]]. apply in_flat_map in Hv. destruct Hv as [k2 [Hk2 Hv]].
  destruct (third_member ks k1 k2 (good_kids_nodup acc i x l e ks G) L) as [c [Hc [C1 C2]]].
  pose proof (good_kid acc i x l e ks c G Hc) as Gc.
  pose proof (good_kid acc i x l e ks k1 G Hk1) as G1. pose proof (good_kid acc i x l e ks k2 G Hk2) as G2.
  destruct (postorder_good acc k1 u G1 Hu) as [_ Iu1]. destruct (postorder_good acc k2 v G2 Hv) as [_ Iv2].
  destruct (good_mask_bit acc c Gc) as [j [Hj [Hin _]]].
  assert (T1 : Z.testbit (lmask acc t) j = true).
  { rewrite good_testbit by assumption. apply memz_In. unfold t. rewrite bits_node by (intro E0; subst; contradiction).
    apply in_flat_map. exists c. tauto. }
  rewrite <- HO, Z.lor_spec, !good_testbit in T1 by assumption. apply orb_true_iff in T1. destruct T1 as [T1|T1]; apply memz_In in T1.
  - apply (good_kids_disjoint acc i x l e ks c k1 G Hc Hk1 C1 j Hin). apply Iu1, T1.
  - apply (good_kids_disjoint acc i x l e ks c k2 G Hc Hk2 C2 j Hin). apply Iv2, T1.
Qed.

Lemma NoDup_map_inj_in {A B} (f : A -> B) l :
  (forall a b, In a l -> In b l -> f a = f b -> a = b) -> NoDup l -> NoDup (map f l).
Proof.
  induction l as [|x r IH]; intros Hinj N; [constructor|]. inversion N as [|? ? Hx Hr]; subst. simpl. constructor.
  - intro Hi. apply in_map_iff in Hi. destruct Hi as [y [E Hy]]. apply Hx.
    rewrite (Hinj x y (or_introl eq_refl) (or_intror Hy) (eq_sym E)). exact Hy.
  - apply IH; [|exact Hr]. intros a b Ha Hb. apply Hinj; right; assumption.
Qed.

(* ------------------------------------------------------------------------------------------ *)
(* splits of an already normalised structure *)

Lemma pnodes_masks acc b t : map (fun n => fst (snd n)) (pnodes acc b t) = map (lmask acc) (postorder t).
Proof.
  revert b. induction t as [i x l e ks IH] using tree_ind'. intro b.
  rewrite postorder_node. cbn [pnodes]. rewrite !map_app. cbn [map fst snd]. f_equal.
  induction IH as [|k r Hk Hr IHr]; simpl; [reflexivity|]. rewrite !map_app, Hk, IHr. reflexivity.
Qed.

Lemma splits_n acc s : map fst (entries_n acc s) = map (split_of (snd s) (lmask acc (fst s))) (map (lmask acc) (postorder (fst s))).
Proof. unfold entries_n. rewrite <- (pnodes_masks acc true), !map_map. reflexivity. Qed.

Theorem nodup_splits_n acc t r :
  good acc t -> unifurcation_free t = true ->
  (is_true r = true \/ nkids t <> 2%nat) ->
  NoDup (map fst (entries_n acc (t, r))).
Proof.
  intros G U H. rewrite splits_n. cbn [fst snd].
  pose proof (masks_all_different acc t G U) as A.
  unfold split_of. destruct (is_true r) eqn:Hr.
  - rewrite map_id. exact A.
  - destruct H as [H|H]; [discriminate|].
    apply NoDup_map_inj_in; [|exact A].
    intros m1 m2 H1 H2 E. apply in_map_iff in H1. destruct H1 as [u [<- Hu]]. apply in_map_iff in H2. destruct H2 as [v [<- Hv]].
    destruct (postorder_good acc t u G Hu) as [Gu Iu]. destruct (postorder_good acc t v G Hv) as [Gv Iv].
    assert (P : 0 < lmask acc t).
    { pose proof (lmask_nonneg acc t). pose proof (good_mask_nonzero acc t G). lia. }
    destruct (normalize_inj _ _ _ P (mask_subset acc u t Gu G Iu) (mask_subset acc v t Gv G Iv) E) as [E'|[HA HO]]; [exact E'|exfalso].
    destruct t as [i x l e ks]. unfold nkids in H. cbn [t_kids] in H.
    destruct (unifurcation_free_node i x l e ks U) as [L1 _].
    destruct ks as [|k1 [|k2 [|k3 r3]]]; try (simpl in *; congruence).
    + (* a single leaf: u = v = the tree *)
      simpl in Hu, Hv. destruct Hu as [<-|[]]. destruct Hv as [<-|[]].
      rewrite Z.land_diag in HA. apply (good_mask_nonzero acc _ G HA).
    + apply (no_complementary_pair acc i x l e _ u v G); try assumption. simpl. lia.
Qed.

(* the seed has exactly two children and the tree is not rooted: the two seed edges carry one split *)
Theorem dup_splits_n acc i x l e c0 c1 r :
  good acc (T i x l e [c0; c1]) -> is_true r = false ->
  ~ NoDup (map fst (entries_n acc (T i x l e [c0; c1], r))).
Proof.
  intros G Hr N. rewrite splits_n in N. cbn [fst snd] in N.
  rewrite postorder_node in N. cbn [flat_map] in N. rewrite app_nil_r in N. set (t := T i x l e [c0; c1]) in *.
  pose proof (good_kid acc i x l e _ c0 G (or_introl eq_refl)) as G0.
  pose proof (good_kid acc i x l e _ c1 G (or_intror (or_introl eq_refl))) as G1.
  assert (D : c0 <> c1).
  { pose proof (good_kids_nodup acc i x l e _ G) as ND. inversion ND as [|? ? H1 _]; subst. intro E. apply H1. left. symmetry. exact E. }
  assert (E : split_of r (lmask acc t) (lmask acc c0) = split_of r (lmask acc t) (lmask acc c1)).
  { unfold split_of. rewrite Hr. apply normalize_complement.
    - pose proof (lmask_nonneg acc t). pose proof (good_mask_nonzero acc t G). lia.
    - unfold t. cbn [lmask fold_right]. rewrite Z.lor_0_r. reflexivity.
    - apply masks_disjoint; try assumption.
      apply (good_kids_disjoint acc i x l e [c0; c1] c0 c1 G); [left; reflexivity | right; left; reflexivity | exact D]. }
  (* postorder c0 ends with c0, postorder c1 ends with c1 *)
  assert (P0 : exists p0, postorder c0 = p0 ++ [c0]) by (destruct c0; eexists; apply postorder_node).
  assert (P1 : exists p1, postorder c1 = p1 ++ [c1]) by (destruct c1; eexists; apply postorder_node).
  destruct P0 as [p0 E0], P1 as [p1 E1]. rewrite E0, E1 in N.
  rewrite !map_app in N. cbn [map] in N. rewrite E in N.
  rewrite <- !app_assoc in N. apply NoDup_app_r in N. cbn [app] in N.
  inversion N as [|? ? Hx _]; subst. apply Hx. apply in_or_app. right. left. reflexivity.
Qed.

(* ------------------------------------------------------------------------------------------ *)
(* the normalisation keeps the leaves and leaves no unifurcation *)

Lemma bits_set_len acc t e : bits acc (set_len t e) = bits acc t.
Proof. destruct t as [i x l e0 [|k r]]; reflexivity. Qed.

Lemma has_bits_set_len acc t e : has_bits acc (set_len t e) = has_bits acc t.
Proof. destruct t as [i x l e0 [|k r]]; reflexivity. Qed.

Lemma uf_set_len t e : unifurcation_free (set_len t e) = unifurcation_free t.
Proof. destruct t; reflexivity. Qed.

Lemma flat_map_ext_in' {A B} (f g : A -> list B) l : (forall x, In x l -> f x = g x) -> flat_map f l = flat_map g l.
Proof.
  induction l as [|x r IH]; simpl; intro H; [reflexivity|].
  rewrite (H x (or_introl eq_refl)), IH; [reflexivity|]. intros y Hy. apply H. right. exact Hy.
Qed.

Lemma forallb_map' {A B} (f : B -> bool) (g : A -> B) l : forallb f (map g l) = forallb (fun x => f (g x)) l.
Proof. induction l as [|x r IH]; simpl; [reflexivity|]. rewrite IH. reflexivity. Qed.

Lemma bits_suppress acc t : bits acc (suppress t) = bits acc t.
Proof.
  induction t as [i x l e ks IH] using tree_ind'. rewrite suppress_unfold.
  destruct ks as [|k [|k2 r]].
  - reflexivity.
  - rewrite bits_set_len. inversion IH as [|? ? Hk _]; subst. rewrite Hk. simpl. rewrite app_nil_r. reflexivity.
  - rewrite !bits_node by discriminate. rewrite flat_map_concat_map, map_map, <- flat_map_concat_map.
    apply flat_map_ext_in'. rewrite Forall_forall in IH. exact IH.
Qed.

Lemma has_bits_suppress acc t : has_bits acc (suppress t) = has_bits acc t.
Proof.
  induction t as [i x l e ks IH] using tree_ind'. rewrite suppress_unfold.
  destruct ks as [|k [|k2 r]].
  - reflexivity.
  - rewrite has_bits_set_len. inversion IH as [|? ? Hk _]; subst. rewrite Hk. simpl. rewrite andb_true_r. reflexivity.
  - rewrite !has_bits_node by discriminate. rewrite forallb_map'. apply forallb_ext_in'.
    rewrite Forall_forall in IH. exact IH.
Qed.

Lemma uf_suppress t : unifurcation_free (suppress t) = true.
Proof.
  induction t as [i x l e ks IH] using tree_ind'. rewrite suppress_unfold.
  destruct ks as [|k [|k2 r]].
  - reflexivity.
  - rewrite uf_set_len. inversion IH; subst. assumption.
  - cbn [unifurcation_free]. rewrite map_length. cbn [length Nat.eqb negb andb].
    rewrite forallb_map'. apply forallb_forall. rewrite Forall_forall in IH. exact IH.
Qed.

Lemma nkids_suppress_many i x l e ks : (2 <= length ks)%nat -> nkids (suppress (T i x l e ks)) = length ks.
Proof. intro H. rewrite suppress_many by exact H. unfold nkids. cbn [t_kids]. apply map_length. Qed.

Lemma suppress_uf_id t : unifurcation_free t = true -> suppress t = t.
Proof.
  induction t as [i x l e ks IH] using tree_ind'. intro U.
  destruct (unifurcation_free_node i x l e ks U) as [L Uk]. rewrite suppress_unfold.
  destruct ks as [|k [|k2 r]]; [reflexivity | simpl in L; congruence |].
  f_equal. rewrite <- (map_id (k :: k2 :: r)) at 2. apply map_ext_in. intros k' Hk'.
  rewrite Forall_forall in IH. apply IH; [exact Hk' | apply Uk, Hk'].
Qed.

Section MG.
Variable mg : bool.

Lemma bits_collapsed acc i x l e c0 c1 :
  bits acc (collapsed mg i x l e c0 c1) = bits acc (T i x l e [c0; c1]) /\
  has_bits acc (collapsed mg i x l e c0 c1) = has_bits acc (T i x l e [c0; c1]).
Proof.
  unfold collapsed.
  destruct (Nat.leb 2 (nkids c1)) eqn:A; [|destruct (Nat.leb 2 (nkids c0)) eqn:B]; [| |split; reflexivity].
  - apply Nat.leb_le in A. destruct c1 as [i1 x1 l1 e1 ks1]. unfold nkids in A. cbn [t_kids t_len] in *.
    assert (N1 : ks1 <> []) by (destruct ks1; simpl in A; [lia|discriminate]).
    rewrite !bits_node, !has_bits_node by discriminate. cbn [flat_map forallb].
    rewrite bits_set_len, has_bits_set_len, bits_node, has_bits_node by exact N1.
    rewrite app_nil_r, andb_true_r. split; reflexivity.
  - apply Nat.leb_le in B. destruct c0 as [i0 x0 l0 e0 ks0]. unfold nkids in B. cbn [t_kids t_len] in *.
    assert (N0 : ks0 <> []) by (destruct ks0; simpl in B; [lia|discriminate]).
    rewrite (bits_node acc i x l e (ks0 ++ _)), (has_bits_node acc i x l e (ks0 ++ _)) by (destruct ks0; discriminate).
    rewrite (bits_node acc i x l e [_; _]), (has_bits_node acc i x l e [_; _]) by discriminate.
    rewrite flat_map_app, forallb_app. cbn [flat_map forallb].
    rewrite bits_set_len, has_bits_set_len, bits_node, has_bits_node by exact N0.
    rewrite !app_nil_r, !andb_true_r. split; reflexivity.
Qed.

Lemma normalise_cases s :
  normalise mg s = (suppress (fst s), snd s) \/
  (is_true (snd s) = false /\
   exists i x l e c0 c1, fst s = T i x l e [c0; c1] /\
     normalise mg s = (suppress (collapsed mg i x l e c0 c1), if collapses c0 c1 then Some false else snd s)).
Proof.
  destruct s as [t r]. cbn [fst snd]. destruct (is_true r) eqn:Hr.
  - left. apply normalise_no_basal. left. exact Hr.
  - destruct t as [i x l e ks]. destruct ks as [|c0 [|c1 [|c2 rest]]];
      try (left; apply normalise_no_basal; right; cbn [fst nkids t_kids length]; lia).
    right. split; [reflexivity|]. exists i, x, l, e, c0, c1. split; [reflexivity|]. apply normalise_2. exact Hr.
Qed.

Lemma normalise_keeps acc s :
  bits acc (fst (normalise mg s)) = bits acc (fst s) /\
  has_bits acc (fst (normalise mg s)) = has_bits acc (fst s) /\
  unifurcation_free (fst (normalise mg s)) = true /\
  is_true (snd (normalise mg s)) = is_true (snd s).
Proof.
  destruct (normalise_cases s) as [E|[Hr [i [x [l [e [c0 [c1 [Es E]]]]]]]]]; rewrite E; cbn [fst snd].
  - rewrite bits_suppress, has_bits_suppress, uf_suppress. repeat split.
  - rewrite bits_suppress, has_bits_suppress, uf_suppress, Es.
    destruct (bits_collapsed acc i x l e c0 c1) as [B1 B2]. rewrite B1, B2. repeat split.
    rewrite Hr. destruct (collapses c0 c1); [reflexivity|exact Hr].
Qed.

Lemma good_normalise acc s : good acc (fst s) -> good acc (fst (normalise mg s)).
Proof.
  intros [H1 [H2 H3]]. destruct (normalise_keeps acc s) as [B [Hb _]]. unfold good. rewrite B, Hb. tauto.
Qed.

(* ------------------------------------------------------------------------------------------ *)
(* theorem and finding partition the trees with distinct leaf taxa *)

Theorem nodup_splits_iff acc s :
  distinct_taxa acc (fst s) = true ->
  (NoDup (splits mg acc s) <-> collides mg s = false).
Proof.
  intro D. apply distinct_taxa_good in D. pose proof (good_normalise acc s D) as G.
  destruct (normalise_keeps acc s) as [_ [_ [U R]]].
  unfold splits, entries, collides. rewrite <- R.
  destruct (normalise mg s) as [N r'] eqn:E. cbn [fst snd] in *. split.
  - intro ND. destruct (is_true r') eqn:Hr; [reflexivity|]. cbn [negb andb].
    apply Nat.eqb_neq. intro K. destruct N as [i x l e ks]. unfold nkids in K. cbn [t_kids] in K.
    destruct ks as [|c0 [|c1 [|c2 rest]]]; try discriminate. apply (dup_splits_n acc i x l e c0 c1 r' G Hr ND).
  - intro C. apply nodup_splits_n; try assumption.
    destruct (is_true r'); [left; reflexivity|right]. cbn [negb andb] in C. apply Nat.eqb_neq. exact C.
Qed.

(* a sufficient condition on the tree as given: no unifurcation, at least three leaves *)
Lemma n_leaves_node i x l e ks : ks <> [] -> n_leaves (T i x l e ks) = length (flat_map leaf_taxa ks).
Proof. intro H. unfold n_leaves. rewrite leaf_taxa_node by exact H. reflexivity. Qed.

Theorem not_colliding t r :
  unifurcation_free t = true -> (3 <= n_leaves t)%nat -> collides mg (t, r) = false.
Proof.
  intros U L. unfold collides. cbn [snd]. destruct (is_true r) eqn:Hr; [reflexivity|]. cbn [negb andb].
  apply Nat.eqb_neq. destruct t as [i x l e ks].
  destruct (unifurcation_free_node i x l e ks U) as [L1 Uk].
  destruct ks as [|c0 [|c1 [|c2 rest]]].
  - unfold n_leaves in L. simpl in L. lia.
  - simpl in L1. congruence.
  - rewrite normalise_2 by exact Hr. cbn [fst]. unfold collapsed.
    destruct (Nat.leb 2 (nkids c1)) eqn:A; [|destruct (Nat.leb 2 (nkids c0)) eqn:B].
    + apply Nat.leb_le in A. unfold nkids in A. rewrite nkids_suppress_many by (simpl; lia). simpl. lia.
    + apply Nat.leb_le in B. unfold nkids in B. rewrite nkids_suppress_many by (rewrite app_length; simpl; lia). rewrite app_length. simpl. lia.
    + (* both seed children are leaves: two leaves *)
      exfalso. apply Nat.leb_gt in A. apply Nat.leb_gt in B.
      assert (K : forall c, In c [c0; c1] -> (nkids c < 2)%nat -> t_kids c = []).
      { intros c Hc Hn. destruct c as [ci cx cl ce cks]. unfold nkids in Hn. cbn [t_kids] in *.
        destruct (unifurcation_free_node ci cx cl ce cks (Uk _ Hc)) as [Lc _]. destruct cks as [|a [|b r']]; simpl in *; try reflexivity; try congruence; lia. }
      pose proof (K c0 (or_introl eq_refl) B) as K0. pose proof (K c1 (or_intror (or_introl eq_refl)) A) as K1.
      destruct c0 as [i0 x0 l0 e0 ks0], c1 as [i1 x1 l1 e1 ks1]. cbn [t_kids] in K0, K1. subst.
      unfold n_leaves in L. simpl in L. lia.
  - rewrite normalise_no_basal by (right; cbn [fst nkids t_kids length]; lia). cbn [fst].
    rewrite nkids_suppress_many by (simpl; lia). simpl. lia.
Qed.

(* the seed condition of the re-drawing theorems follows from distinct taxa *)
Lemma seed_ok_of_distinct acc t r :
  mg = true -> distinct_taxa acc t = true -> seed_ok mg acc (t, r).
Proof.
  intros Hm D Hr c0 c1 Hk HB. cbn [fst] in Hk. split; [left; exact Hm|].
  apply distinct_taxa_good in D. destruct t as [i x l e ks]. cbn [t_kids] in Hk. subst ks.
  pose proof (good_kid acc i x l e _ c0 D (or_introl eq_refl)) as G0.
  pose proof (good_kid acc i x l e _ c1 D (or_intror (or_introl eq_refl))) as G1.
  apply masks_disjoint; try assumption.
  apply (good_kids_disjoint acc i x l e [c0; c1] c0 c1 D); [left; reflexivity | right; left; reflexivity|].
  pose proof (good_kids_nodup acc i x l e _ D) as ND. inversion ND as [|? ? H1 _]; subst. intro E. apply H1. left. symmetry. exact E.
Qed.

End MG.

Lemma has_bits_taxa_known acc t : has_bits acc t = true -> taxa_known acc t = true.
Proof.
  unfold taxa_known. induction t as [i x l e ks IH] using tree_ind'. destruct ks as [|k r].
  - simpl. destruct x as [tx|]; [|discriminate]. destruct (zlookup tx acc); [reflexivity|discriminate].
  - rewrite has_bits_node, leaf_taxa_node by discriminate. intro H. rewrite forallb_forall in H.
    apply forallb_forall. intros y Hy. apply in_flat_map in Hy. destruct Hy as [k' [Hk' Hy]].
    rewrite Forall_forall in IH. specialize (IH k' Hk' (H k' Hk')). rewrite forallb_forall in IH. apply IH, Hy.
Qed.

Lemma proper_well_formed acc s : proper acc s = true -> well_formed acc s = true.
Proof.
  unfold proper, well_formed. rewrite !andb_true_iff. intros [D N]. pose proof (distinct_taxa_good acc _ D) as G.
  repeat split.
  - apply has_bits_taxa_known. apply G.
  - apply negb_true_iff. apply Z.eqb_neq. apply good_mask_nonzero, G.
  - exact N.
Qed.
