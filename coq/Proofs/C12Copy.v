(* C12: every component of the deep-copy interpreter preserves the invariant, never runs out of fuel
   while fuel exceeds the number of unmemoised source objects, and returns fresh-or-shared values. *)
From Coq Require Import ZArith List Bool Lia.
From DV Require Import Model.PyPrims Model.C12Model Proofs.C12Heap Proofs.C12Inv.
Import ListNotations.
Open Scope Z_scope.

Section Copy.
Variable h0 : heap.
Variable seeds : list Z.
Notation n0 := (hlen h0).
Notation Inv := (Inv h0 seeds).
Notation Shared := (Shared h0 seeds).
Notation vok := (vok h0 seeds).
Notation vsrc := (vsrc h0).
Notation res_ok := (res_ok h0 seeds).
Notation ref_ok := (ref_ok h0).
Notation U := (U h0).

(* well-formedness of the source heap (Prop forms of Model.wf_heap, see C12Wf.v) *)
Hypothesis Hclosed : forall o ob k v, hget h0 o = Some ob -> In (k, v) (obody ob) -> vsrc k /\ vsrc v.
Hypothesis Hitems : forall x ob a, hget h0 x = Some ob -> In (R a) (ann_items h0 ob) -> ~ Shared a.
Hypothesis Hnames : forall x ob a ao t tob owner name rest,
  hget h0 x = Some ob -> In (R a) (ann_items h0 ob) -> hget h0 a = Some ao ->
  bget (obody ao) NM_VALUE = Some (R t) -> hget h0 t = Some tob ->
  (okind tob = KTuple \/ okind tob = KList) ->
  values (obody tob) = owner :: name :: rest -> owner = R x -> exists p, name = P p.
Hypothesis Hkeys : forall o ob k v, hget h0 o = Some ob ->
  (okind ob = KPlain \/ okind ob = KAnnotable \/ okind ob = KTaxon \/ okind ob = KNamespace \/ okind ob = KAnnSet) ->
  In (k, v) (obody ob) -> exists p, k = P p.

Definition RecSpec (rec : rec_t) (f : nat) : Prop :=
  forall s v, Inv s -> vsrc v -> (U s < f)%nat ->
    rec s v <> OutOfFuel /\
    forall s' v', rec s v = Ok (s', v') -> Inv s' /\ Ext s s' /\ res_ok (hlen (sh s')) v v'.

Definition StSpec (r : res st) (s : st) : Prop :=
  r <> OutOfFuel /\ forall s', r = Ok s' -> Inv s' /\ Ext s s'.

Definition free_kind (kd : kind) : Prop := is_annk kd = false /\ kd <> KAnnSet.

Lemma stspec_ok : forall s, Inv s -> StSpec (Ok s) s.
Proof. intros s IV. split; [discriminate|]. intros s' E. inversion E; subst. split; [assumption | apply ext_refl]. Qed.

Lemma stspec_err : forall e s, StSpec (Err e) s.
Proof. intros. split; [discriminate|]. intros s' E. discriminate. Qed.

Lemma stspec_ext : forall r s1 s2, Ext s1 s2 -> StSpec r s2 -> StSpec r s1.
Proof.
  intros r s1 s2 E [A B]. split; [assumption|]. intros s' H. destruct (B s' H). split; [assumption|].
  eapply ext_trans; eassumption.
Qed.

Lemma U_lt_ext : forall s s' f, Ext s s' -> (U s < f)%nat -> (U s' < f)%nat.
Proof. intros s s' f E H. assert (A := U_mono h0 s s' E). lia. Qed.

Lemma kind_ext : forall s s' o kd, Ext s s' -> kind_at (sh s) o = Some kd -> kind_at (sh s') o = Some kd.
Proof. intros s s' o kd [_ [_ K]] H. auto. Qed.

Lemma vok_ext : forall s s' v, Ext s s' -> vok (hlen (sh s)) v -> vok (hlen (sh s')) v.
Proof. intros s s' v [L _] H. eapply vok_mono; eassumption. Qed.

Lemma body_of_old : forall s o, Inv s -> o < n0 -> body_of s o = match hget h0 o with Some x => obody x | None => [] end.
Proof. intros s o IV H. unfold body_of. rewrite (i_old _ _ _ IV) by assumption. reflexivity. Qed.

Lemma old_values_vsrc : forall o ob, hget h0 o = Some ob -> Forall vsrc (values (obody ob)).
Proof.
  intros o ob H. apply Forall_forall. intros v IV. apply In_values in IV. destruct IV as [k IV].
  destruct (Hclosed _ _ _ _ H IV). assumption.
Qed.

(* ---- list / tuple bodies ------------------------------------------------------------------------ *)

Lemma copy_append_spec : forall xs rec f s y i kd,
  RecSpec rec f -> Inv s -> (U s < f)%nat -> n0 <= y -> kind_at (sh s) y = Some kd -> free_kind kd ->
  Forall vsrc xs -> StSpec (copy_append rec s y i xs) s.
Proof.
  induction xs as [|a r IH]; intros rec f s y i kd RS IV Uf Hy K FK Fx; simpl.
  - apply stspec_ok. assumption.
  - inversion Fx as [|? ? Va Vr]; subst. destruct (RS s a IV Va Uf) as [NO OK].
    destruct (rec s a) as [[s1 a']| |] eqn:E; simpl; [|apply stspec_err|congruence].
    destruct (OK s1 a' eq_refl) as [I1 [E1 R1]].
    apply stspec_ext with (s2 := put s1 y (pidx i) a').
    { eapply ext_trans; [exact E1 | apply ext_put]. }
    eapply IH with (kd := kd); try eassumption.
    + apply inv_put; auto.
      * exact Logic.I.
      * eapply res_ok_vok. eassumption.
      * destruct FK as [F1 F2]. eapply put_side_kind; [eapply kind_ext; eassumption | rewrite F1; discriminate | assumption].
    + eapply U_lt_ext; [|eassumption]. eapply ext_trans; [exact E1 | apply ext_put].
    + rewrite put_kind. eapply kind_ext; eassumption.
Qed.

(* ---- dict bodies --------------------------------------------------------------------------------- *)

Lemma copy_entries_spec : forall es rec f ck s y kd,
  RecSpec rec f -> Inv s -> (U s < f)%nat -> n0 <= y -> kind_at (sh s) y = Some kd -> free_kind kd ->
  Forall (fun e => vsrc (fst e) /\ vsrc (snd e)) es -> StSpec (copy_entries rec ck s y es) s.
Proof.
  induction es as [|[k v] r IH]; intros rec f ck s y kd RS IV Uf Hy K FK Fx; simpl.
  - apply stspec_ok. assumption.
  - inversion Fx as [|? ? [Vk Vv] Vr]; subst. simpl in Vk, Vv.
    assert (KS : StSpec (do (s1, k') <- (if ck then rec s k else match k with P _ => Ok (s, k) | R _ => Err AttrErr end) ;;
                         do (s2, v') <- rec s1 v ;; copy_entries rec ck (put s2 y k' v') y r) s);
      [|exact KS].
    assert (KK : forall s1 k', Inv s1 -> Ext s s1 -> vok (hlen (sh s1)) k' ->
                 StSpec (do (s2, v') <- rec s1 v ;; copy_entries rec ck (put s2 y k' v') y r) s).
    { intros s1 k' I1 E1 V1. destruct (RS s1 v I1 Vv (U_lt_ext _ _ _ E1 Uf)) as [NO OK].
      destruct (rec s1 v) as [[s2 v']| |] eqn:E; simpl; [|apply stspec_err|congruence].
      destruct (OK s2 v' eq_refl) as [I2 [E2 R2]].
      assert (E12 : Ext s (put s2 y k' v')).
      { eapply ext_trans; [exact E1|]. eapply ext_trans; [exact E2 | apply ext_put]. }
      apply stspec_ext with (s2 := put s2 y k' v'); [assumption|].
      eapply IH with (kd := kd); try eassumption.
      - apply inv_put; auto.
        + eapply vok_ext; eassumption.
        + eapply res_ok_vok. eassumption.
        + destruct FK as [F1 F2]. eapply put_side_kind; [|rewrite F1; discriminate|assumption].
          eapply kind_ext; [|exact K]. exact (ext_trans _ _ _ E1 E2).
      - eapply U_lt_ext; [exact E12 | exact Uf].
      - rewrite put_kind. eapply kind_ext; [|exact K]. exact (ext_trans _ _ _ E1 E2). }
    destruct ck.
    + destruct (RS s k IV Vk Uf) as [NO OK].
      destruct (rec s k) as [[s1 k']| |] eqn:E; simpl; [|apply stspec_err|congruence].
      destruct (OK s1 k' eq_refl) as [I1 [E1 R1]]. apply KK; [assumption | assumption |]. eapply res_ok_vok. eassumption.
    + destruct k as [p|o]; simpl; [|apply stspec_err]. apply KK; [assumption | apply ext_refl | exact Logic.I].
Qed.

(* ---- attribute loops ------------------------------------------------------------------------------ *)

Lemma plain_fields_spec : forall es rec f skip s y kd,
  RecSpec rec f -> Inv s -> (U s < f)%nat -> n0 <= y -> kind_at (sh s) y = Some kd ->
  kd <> KAnnSet -> (is_annk kd = true -> In NM_ANN skip) ->
  Forall (fun e => (exists p, fst e = P p) /\ vsrc (snd e)) es ->
  StSpec (plain_fields rec skip s y es) s.
Proof.
  induction es as [|[k v] r IH]; intros rec f skip s y kd RS IV Uf Hy K NA SK Fx; simpl.
  - apply stspec_ok. assumption.
  - inversion Fx as [|? ? [[p Vk] Vv] Vr]; subst. simpl in Vk, Vv. subst k.
    destruct (existsb (val_eqb (P p)) skip) eqn:EX.
    + eapply IH; eassumption.
    + destruct (RS s v IV Vv Uf) as [NO OK].
      destruct (rec s v) as [[s1 v']| |] eqn:E; simpl; [|apply stspec_err|congruence].
      destruct (OK s1 v' eq_refl) as [I1 [E1 R1]].
      assert (E12 : Ext s (put s1 y (P p) v')) by (eapply ext_trans; [exact E1 | apply ext_put]).
      apply stspec_ext with (s2 := put s1 y (P p) v'); [assumption|].
      eapply IH with (kd := kd); try eassumption.
      * apply inv_put; auto.
        -- exact Logic.I.
        -- eapply res_ok_vok. eassumption.
        -- eapply put_side_kind; [eapply kind_ext; eassumption| |assumption].
           intros AK C. apply SK in AK. rewrite <- C in AK.
           assert (X : existsb (val_eqb (P p)) skip = true).
           { apply existsb_exists. exists (P p). split; [assumption | apply val_eqb_refl]. }
           congruence.
      * eapply U_lt_ext; eassumption.
      * rewrite put_kind. eapply kind_ext; eassumption.
Qed.

Lemma annotable_fields_spec : forall es rec f s y kd,
  RecSpec rec f -> Inv s -> (U s < f)%nat -> n0 <= y -> kind_at (sh s) y = Some kd -> kd <> KAnnSet ->
  Forall (fun e => (exists p, fst e = P p) /\ vsrc (snd e)) es ->
  StSpec (annotable_fields rec s y es) s.
Proof.
  induction es as [|[k v] r IH]; intros rec f s y kd RS IV Uf Hy K NA Fx; simpl.
  - apply stspec_ok. assumption.
  - inversion Fx as [|? ? [[p Vk] Vv] Vr]; subst. simpl in Vk, Vv. subst k.
    destruct (val_eqb (P p) NM_ANN) eqn:EA; [eapply IH; eassumption|].
    destruct (bget (body_of s y) (P p)); [eapply IH; eassumption|].
    destruct (RS s v IV Vv Uf) as [NO OK].
    destruct (rec s v) as [[s1 v']| |] eqn:E; simpl; [|apply stspec_err|congruence].
    destruct (OK s1 v' eq_refl) as [I1 [E1 R1]].
    assert (I2 : Inv (put s1 y (P p) v')).
    { apply inv_put; auto.
      - exact Logic.I.
      - eapply res_ok_vok. eassumption.
      - eapply put_side_kind; [eapply kind_ext; eassumption| |assumption].
        intros _ C. apply val_eqb_neq in EA. contradiction. }
    assert (E12 : Ext s (memo_val (put s1 y (P p) v') v v')).
    { eapply ext_trans; [exact E1|]. eapply ext_trans; [apply ext_put | apply ext_memo_val]. }
    apply stspec_ext with (s2 := memo_val (put s1 y (P p) v') v v'); [assumption|].
    eapply IH with (kd := kd); try eassumption.
    + apply inv_memo_val; auto. rewrite put_hlen. assumption.
    + eapply U_lt_ext; eassumption.
    + eapply kind_ext; [apply ext_memo_val|]. rewrite put_kind. eapply kind_ext; eassumption.
Qed.

(* ---- annotation sets ------------------------------------------------------------------------------ *)

Lemma kind_at_hget : forall h o kd, kind_at h o = Some kd -> exists ob, hget h o = Some ob /\ okind ob = kd.
Proof. unfold kind_at. intros h o kd H. destruct (hget h o) as [ob|]; [|discriminate]. inversion H. eauto. Qed.

Lemma oset_add_spec : forall s sy a s', Inv s -> n0 <= sy -> kind_at (sh s) sy = Some KAnnSet ->
  vok (hlen (sh s)) a -> oset_add s sy a = Ok s' -> Inv s' /\ Ext s s'.
Proof.
  intros s sy a s' IV Hy K Va H. unfold oset_add in H.
  destruct (kind_at_hget _ _ _ K) as [ob [G KO]].
  destruct (i_ann _ _ _ IV sy ob Hy G) as [_ A2]. destruct (A2 KO) as [AL AS].
  unfold body_of in H at 1 2. rewrite G in H.
  destruct (bget (obody ob) NM_ISET) as [[?|zy]|] eqn:BZ; try discriminate.
  destruct (bget (obody ob) NM_ILIST) as [[?|ly]|] eqn:BL; try discriminate.
  destruct (AS _ eq_refl zy eq_refl) as [Fz Kz]. destruct (AL _ eq_refl ly eq_refl) as [Fl Kl].
  destruct (bget (body_of s zy) a).
  - inversion H; subst. split; [assumption | apply ext_refl].
  - inversion H; subst. clear H.
    assert (I1 : Inv (put s zy a PNone)).
    { apply inv_put; auto. exact Logic.I. eapply put_side_kind; [eassumption | discriminate | discriminate]. }
    split.
    + apply inv_put; auto.
      * exact Logic.I.
      * rewrite put_hlen. assumption.
      * eapply put_side_kind; [rewrite put_kind; eassumption | discriminate | discriminate].
    + eapply ext_trans; apply ext_put.
Qed.

Lemma new_annset_eq : forall s cls tg, new_annset s cls tg =
  (put (put (put (fst (alloc (fst (alloc (fst (alloc s (mkObj cls KAnnSet []))) (mkObj CLS_LIST KList []))) (mkObj CLS_SET KSet [])))
                 (hlen (sh s)) NM_ILIST (R (hlen (sh (fst (alloc s (mkObj cls KAnnSet [])))))))
            (hlen (sh s)) NM_ISET (R (hlen (sh (fst (alloc (fst (alloc s (mkObj cls KAnnSet []))) (mkObj CLS_LIST KList [])))))))
       (hlen (sh s)) NM_TARGET tg, hlen (sh s)).
Proof. reflexivity. Qed.

Lemma new_annset_spec : forall s cls tg, Inv s -> vok (hlen (sh s)) tg ->
  Inv (fst (new_annset s cls tg)) /\ Ext s (fst (new_annset s cls tg))
  /\ snd (new_annset s cls tg) = hlen (sh s)
  /\ kind_at (sh (fst (new_annset s cls tg))) (hlen (sh s)) = Some KAnnSet.
Proof.
  intros s cls tg IV Vt. rewrite new_annset_eq.
  set (s1 := fst (alloc s (mkObj cls KAnnSet []))).
  set (s2 := fst (alloc s1 (mkObj CLS_LIST KList []))).
  set (s3 := fst (alloc s2 (mkObj CLS_SET KSet []))).
  cbn [fst snd].
  assert (I1 : Inv s1) by (apply inv_alloc_empty; assumption).
  assert (I2 : Inv s2) by (apply inv_alloc_empty; assumption).
  assert (I3 : Inv s3) by (apply inv_alloc_empty; assumption).
  assert (E1 : Ext s s1) by apply ext_alloc.
  assert (E2 : Ext s1 s2) by apply ext_alloc.
  assert (E3 : Ext s2 s3) by apply ext_alloc.
  assert (L1 : hlen (sh s1) = hlen (sh s) + 1) by (unfold s1; simpl; apply hlen_app1).
  assert (L2 : hlen (sh s2) = hlen (sh s) + 2) by (unfold s2, s1; simpl; rewrite !hlen_app1; lia).
  assert (L3 : hlen (sh s3) = hlen (sh s) + 3) by (unfold s3, s2, s1; simpl; rewrite !hlen_app1; lia).
  assert (K1 : kind_at (sh s3) (hlen (sh s)) = Some KAnnSet).
  { eapply kind_ext; [exact E3|]. eapply kind_ext; [exact E2|]. apply (kind_alloc_new s). }
  assert (K2 : kind_at (sh s3) (hlen (sh s1)) = Some KList).
  { eapply kind_ext; [exact E3|]. apply (kind_alloc_new s1). }
  assert (K3 : kind_at (sh s3) (hlen (sh s2)) = Some KSet) by apply (kind_alloc_new s2).
  assert (N := i_len _ _ _ IV).
  set (sy := hlen (sh s)).
  set (t1 := put s3 sy NM_ILIST (R (hlen (sh s1)))).
  assert (J1 : Inv t1).
  { apply inv_put; [exact I3 | unfold sy; lia | exact Logic.I | left; lia |].
    - intros ob G. split; [intros A _; exfalso|].
      + unfold kind_at in K1. fold sy in K1. rewrite G in K1. inversion K1 as [K]. rewrite K in A. discriminate.
      + intros _. split; intros C; [|discriminate]. intros o E.
        assert (EQ : o = hlen (sh s1)) by (inversion E; reflexivity). subst o. split; [lia | assumption]. }
  set (t2 := put t1 sy NM_ISET (R (hlen (sh s2)))).
  assert (J2 : Inv t2).
  { apply inv_put; [exact J1 | unfold sy; lia | exact Logic.I | unfold t1; rewrite put_hlen; left; lia |].
    - intros ob G. split; [intros A _; exfalso|].
      + assert (K1' : kind_at (sh t1) sy = Some KAnnSet) by (unfold t1; rewrite put_kind; exact K1).
        unfold kind_at in K1'. rewrite G in K1'. inversion K1' as [K]. rewrite K in A. discriminate.
      + intros _. split; intros C; [discriminate|]. intros o E.
        assert (EQ : o = hlen (sh s2)) by (inversion E; reflexivity). subst o. split; [lia|].
        unfold t1. rewrite put_kind. assumption. }
  split; [|split; [|split]].
  - apply inv_put; [exact J2 | unfold sy; lia | exact Logic.I | | apply put_side_key; discriminate].
    unfold t2. rewrite put_hlen. unfold t1. rewrite put_hlen. apply (vok_mono h0 seeds (hlen (sh s)) _ tg); [lia | exact Vt].
  - eapply ext_trans; [exact E1|]. eapply ext_trans; [exact E2|]. eapply ext_trans; [exact E3|].
    eapply ext_trans; [apply ext_put|]. eapply ext_trans; apply ext_put.
  - reflexivity.
  - rewrite put_kind. unfold t2. rewrite put_kind. unfold t1. rewrite put_kind. exact K1.
Qed.

Lemma annk_not_annset : forall kd, is_annk kd = true -> kd <> KAnnSet.
Proof. intros kd H C. subst. discriminate. Qed.

Lemma annotations_add_spec : forall s dst a2 s' kd, Inv s -> n0 <= dst ->
  kind_at (sh s) dst = Some kd -> is_annk kd = true -> vok (hlen (sh s)) a2 ->
  annotations_add s dst a2 = Ok s' -> Inv s' /\ Ext s s'.
Proof.
  intros s dst a2 s' kd IV Hd K AK Va H. unfold annotations_add in H.
  destruct (kind_at_hget _ _ _ K) as [ob [G KO]].
  unfold body_of in H at 1. rewrite G in H.
  destruct (bget (obody ob) NM_ANN) as [[?|sy]|] eqn:B; try discriminate.
  - destruct (i_ann _ _ _ IV dst ob Hd G) as [A1 _]. rewrite KO in A1.
    destruct (A1 AK _ B sy eq_refl) as [Fy Ky]. eapply oset_add_spec; eassumption.
  - destruct (new_annset_spec s CLS_ANNSET (R dst) IV) as [I1 [E1 [Y K1]]].
    { left. apply hget_Some_range in G. lia. }
    destruct (new_annset s CLS_ANNSET (R dst)) as [s1 sy] eqn:NA. cbn [fst snd] in *. subst sy.
    assert (N := i_len _ _ _ IV).
    assert (I2 : Inv (put s1 dst NM_ANN (R (hlen (sh s))))).
    { apply inv_put; auto.
      - exact Logic.I.
      - left. destruct E1 as [L _]. apply kind_at_hget in K1. destruct K1 as [? [K1 _]].
        apply hget_Some_range in K1. lia.
      - intros ob' G'. split.
        + intros _ _ o E. inversion E; subst o. split; [lia | assumption].
        + intros C. exfalso. assert (K' := kind_ext _ _ _ _ E1 K). unfold kind_at in K'. rewrite G' in K'.
          assert (KE : kd = KAnnSet) by congruence. rewrite KE in AK. discriminate AK. }
    assert (R0 : Inv s' /\ Ext (put s1 dst NM_ANN (R (hlen (sh s)))) s').
    { apply (oset_add_spec (put s1 dst NM_ANN (R (hlen (sh s)))) (hlen (sh s)) a2 s' I2);
        [lia | rewrite put_kind; assumption | rewrite put_hlen; eapply vok_ext; eassumption | exact H]. }
    destruct R0 as [I3 E3]. split; [assumption|].
    eapply ext_trans; [exact E1|]. eapply ext_trans; [apply ext_put | exact E3].
Qed.


(* ---- computations that contain no recursive call never run out of fuel ---------------------------- *)

Lemma oset_add_no_oof : forall s sy a, oset_add s sy a <> OutOfFuel.
Proof.
  intros. unfold oset_add.
  repeat match goal with |- context [match ?x with _ => _ end] => destruct x end; discriminate.
Qed.

Lemma annotations_add_no_oof : forall s dst a, annotations_add s dst a <> OutOfFuel.
Proof.
  intros. unfold annotations_add.
  destruct (bget (body_of s dst) NM_ANN) as [[?|?]|]; try discriminate; try apply oset_add_no_oof.
Qed.

Lemma retarget_no_oof : forall s dst src a1 a2, retarget s dst src a1 a2 <> OutOfFuel.
Proof.
  intros. unfold retarget.
  repeat match goal with |- context [match ?x with _ => _ end] => destruct x end; discriminate.
Qed.

Lemma stspec_bind : forall (r : res st) (k : st -> res st) s,
  StSpec r s -> (forall s2, Inv s2 -> Ext s s2 -> StSpec (k s2) s2) -> StSpec (bind r k) s.
Proof.
  intros r k s [NO OK] K. destruct r as [s2| |]; simpl; [|apply stspec_err|congruence].
  destruct (OK s2 eq_refl) as [I2 E2]. eapply stspec_ext; [exact E2|]. apply K; assumption.
Qed.

(* ---- re-targeting of bound annotations --------------------------------------------------------- *)

Definition item_ok (src : Z) (a1 : val) : Prop :=
  vsrc a1 /\ forall a, a1 = R a -> ~ Shared a /\
    (forall ao t tob owner name rest, hget h0 a = Some ao -> bget (obody ao) NM_VALUE = Some (R t) ->
       hget h0 t = Some tob -> (okind tob = KTuple \/ okind tob = KList) ->
       values (obody tob) = owner :: name :: rest -> owner = R src -> exists p, name = P p).

Lemma retarget_spec : forall s dst src a1 a2 s', Inv s -> n0 <= dst < hlen (sh s) -> 0 <= src < n0 ->
  item_ok src a1 -> res_ok (hlen (sh s)) a1 a2 -> retarget s dst src a1 a2 = Ok s' -> Inv s' /\ Ext s s'.
Proof.
  intros s dst src a1 a2 s' IV Hd Hs [V1 IO] RO H. unfold retarget in H.
  destruct a2 as [?|a2o]; [discriminate|].
  destruct (bget (body_of s a2o) NM_ISATTR) as [isattr|]; [|discriminate].
  destruct (val_eqb isattr PTrue); [|inversion H; subst; split; [assumption | apply ext_refl]].
  destruct a1 as [?|a1o]; [discriminate|]. simpl in V1.
  destruct (IO a1o eq_refl) as [NS NM].
  rewrite (body_of_old s a1o IV) in H by lia.
  destruct (hget h0 a1o) as [ao|] eqn:GA; [|discriminate].
  destruct (bget (obody ao) NM_VALUE) as [[?|t]|] eqn:BV; try discriminate.
  assert (Vt : 0 <= t < n0).
  { destruct (Hclosed _ _ _ _ GA (bget_In _ _ _ BV)) as [_ X]. exact X. }
  unfold kind_of in H. rewrite (i_old _ _ _ IV t) in H by lia.
  rewrite (body_of_old s t IV) in H by lia.
  destruct (hget h0 t) as [tob|] eqn:GT; [|discriminate].
  assert (KK : forall vs, (okind tob = KTuple \/ okind tob = KList) ->
     match vs with
     | [] => Err IndexErr
     | owner :: rest =>
       if val_eqb owner (R src) then
         match rest with
         | [] => Err IndexErr
         | name :: _ =>
           let '(sa, tn) := alloc s (mkObj CLS_TUPLE KTuple [(pidx 0, R dst); (pidx 1, name)]) in
           Ok (put (note sa t tn) a2o NM_VALUE (R tn))
         end
       else Ok s
     end = Ok s' -> vs = values (obody tob) -> Inv s' /\ Ext s s').
  { intros vs KT HH EV. destruct vs as [|owner rest]; [discriminate|].
    destruct (val_eqb owner (R src)) eqn:EO; [|inversion HH; subst; split; [assumption | apply ext_refl]].
    apply val_eqb_eq in EO. destruct rest as [|name rest']; [discriminate|].
    destruct (NM ao t tob owner name rest' eq_refl BV GT KT (eq_sym EV) EO) as [p Np]. subst name.
    cbn [alloc] in HH. inversion HH; subst s'. clear HH.
    set (tb := mkObj CLS_TUPLE KTuple [(pidx 0, R dst); (pidx 1, P p)]).
    set (sa := fst (alloc s tb)).
    assert (Ia : Inv sa).
    { apply inv_alloc; [exact IV| | |].
      - intros k v IN. simpl in IN. destruct IN as [IN|[IN|[]]]; inversion IN; subst; split; try exact Logic.I.
        left. lia.
      - intros C. discriminate C.
      - intros C. discriminate C. }
    assert (Ea : Ext s sa) by apply ext_alloc.
    assert (La : hlen (sh sa) = hlen (sh s) + 1) by (unfold sa; simpl; apply hlen_app1).
    assert (F2 : n0 <= a2o).
    { simpl in RO. destruct RO as [RO|[SH EQ]]; [lia|]. inversion EQ; subst. contradiction. }
    assert (N := i_len _ _ _ IV).
    split.
    - change (Inv (put (note sa t (hlen (sh s))) a2o NM_VALUE (R (hlen (sh s))))).
      apply inv_put; [apply inv_note; exact Ia | exact F2 | exact Logic.I | | apply put_side_key; discriminate].
      left. change (hlen (sh (note sa t (hlen (sh s))))) with (hlen (sh sa)). lia.
    - change (Ext s (put (note sa t (hlen (sh s))) a2o NM_VALUE (R (hlen (sh s))))).
      eapply ext_trans; [exact Ea|]. eapply ext_trans; [apply ext_note | apply ext_put]. }
  destruct (okind tob) eqn:KT; try discriminate;
    (eapply KK; [auto | exact H | reflexivity]).
Qed.

Lemma copy_annotation_items_spec : forall items rec f s dst src kd,
  RecSpec rec f -> Inv s -> (U s < f)%nat -> n0 <= dst < hlen (sh s) ->
  kind_at (sh s) dst = Some kd -> is_annk kd = true -> 0 <= src < n0 ->
  Forall (item_ok src) items -> StSpec (copy_annotation_items rec s dst src items) s.
Proof.
  induction items as [|a1 r IH]; intros rec f s dst src kd RS IV Uf Hd K AK Hs Fx; simpl.
  - apply stspec_ok. assumption.
  - inversion Fx as [|? ? IO Fr]; subst. destruct (RS s a1 IV (proj1 IO) Uf) as [NO OK].
    destruct (rec s a1) as [[s1 a2]| |] eqn:E; simpl; [|apply stspec_err|congruence].
    destruct (OK s1 a2 eq_refl) as [I1 [E1 R1]].
    assert (I2 : Inv (memo_val s1 a1 a2)) by (apply inv_memo_val; [assumption | exact (proj1 IO) | assumption]).
    assert (E2 : Ext s (memo_val s1 a1 a2)) by (eapply ext_trans; [exact E1 | apply ext_memo_val]).
    assert (L2 : hlen (sh (memo_val s1 a1 a2)) = hlen (sh s1)).
    { destruct a1 as [p|?]; destruct a2; simpl; try reflexivity; destruct p; reflexivity. }
    destruct (retarget (memo_val s1 a1 a2) dst src a1 a2) as [s3| |] eqn:RT; simpl;
      [|apply stspec_err | exfalso; eapply retarget_no_oof; eassumption].
    assert (Hd2 : n0 <= dst < hlen (sh (memo_val s1 a1 a2))) by (destruct E2 as [LL _]; lia).
    assert (R2 : res_ok (hlen (sh (memo_val s1 a1 a2))) a1 a2) by (rewrite L2; exact R1).
    destruct (retarget_spec _ _ _ _ _ _ I2 Hd2 Hs IO R2 RT) as [I3 E3].
    assert (E13 : Ext s s3) by (eapply ext_trans; eassumption).
    destruct (annotations_add s3 dst a2) as [s4| |] eqn:AA; simpl;
      [|apply stspec_err | exfalso; eapply annotations_add_no_oof; eassumption].
    destruct (annotations_add_spec s3 dst a2 s4 kd I3 (proj1 Hd) (kind_ext _ _ _ _ E13 K) AK) as [I4 E4]; [|exact AA|].
    { eapply vok_ext; [exact E3|]. rewrite L2. eapply res_ok_vok. exact R1. }
    assert (E14 : Ext s s4) by (eapply ext_trans; eassumption).
    eapply stspec_ext; [exact E14|].
    eapply IH with (kd := kd); try eassumption.
    + eapply U_lt_ext; eassumption.
    + destruct E14. lia.
    + eapply kind_ext; eassumption.
Qed.

(* ---- deep_copy_annotations_from ------------------------------------------------------------------- *)

Lemma maybe_note_inv : forall s (o1 o2 : option val), Inv s ->
  Inv (match o1, o2 with Some (R a), Some (R b) => note s a b | _, _ => s end).
Proof. intros s [[?|a]|] [[?|b]|] IV; auto using inv_note. Qed.

Lemma maybe_note_ext : forall s (o1 o2 : option val),
  Ext s (match o1, o2 with Some (R a), Some (R b) => note s a b | _, _ => s end).
Proof. intros s [[?|a]|] [[?|b]|]; auto using ext_note, ext_refl. Qed.

Lemma dcaf_spec : forall rec f s dst src kd,
  RecSpec rec f -> Inv s -> (U s < f)%nat -> n0 <= dst < hlen (sh s) ->
  kind_at (sh s) dst = Some kd -> is_annk kd = true -> 0 <= src < n0 ->
  StSpec (deep_copy_annotations_from rec s dst src) s.
Proof.
  intros rec f s dst src kd RS IV Uf Hd K AK Hs. unfold deep_copy_annotations_from.
  rewrite (body_of_old s src IV) by lia.
  destruct (hget h0 src) as [ob|] eqn:GS; [|apply stspec_ok; assumption].
  destruct (bget (obody ob) NM_ANN) as [[?|sx]|] eqn:BA; [apply stspec_err| |apply stspec_ok; assumption].
  assert (Vx : 0 <= sx < n0).
  { destruct (Hclosed _ _ _ _ GS (bget_In _ _ _ BA)) as [_ X]. exact X. }
  destruct (hget (sh s) dst) as [d|]; [|apply stspec_err].
  destruct (hget (sh s) src) as [o|]; [|apply stspec_err].
  destruct (negb (ocls d =? ocls o)); [apply stspec_err|].
  rewrite (body_of_old s sx IV) by lia.
  destruct (hget h0 sx) as [sob|] eqn:GX; [|apply stspec_err].
  destruct (bget (obody sob) NM_ILIST) as [[?|lx]|] eqn:BL; try apply stspec_err.
  assert (Vl : 0 <= lx < n0).
  { destruct (Hclosed _ _ _ _ GX (bget_In _ _ _ BL)) as [_ X]. exact X. }
  rewrite (body_of_old s lx IV) by lia.
  assert (FI : Forall (item_ok src) (values (match hget h0 lx with Some x => obody x | None => [] end))).
  { destruct (hget h0 lx) as [l|] eqn:GL; [|constructor].
    assert (AI : ann_items h0 ob = values (obody l)).
    { unfold ann_items. rewrite BA, GX, BL, GL. reflexivity. }
    apply Forall_forall. intros a1 IN. split.
    - assert (F := old_values_vsrc _ _ GL). rewrite Forall_forall in F. apply F. assumption.
    - intros a EA. subst a1. rewrite <- AI in IN. split.
      + exact (Hitems src ob a GS IN).
      + intros ao t tob owner name rest G1 G2 G3 G4 G5 G6.
        exact (Hnames src ob a ao t tob owner name rest GS IN G1 G2 G3 G4 G5 G6). }
  apply stspec_bind.
  - eapply copy_annotation_items_spec; eassumption.
  - intros s1 I1 E1.
    assert (K1 : kind_at (sh s1) dst = Some kd) by (eapply kind_ext; eassumption).
    destruct (kind_at_hget _ _ _ K1) as [ob1 [G1 KO1]].
    unfold body_of at 1. rewrite G1.
    destruct (bget (obody ob1) NM_ANN) as [[?|sy]|] eqn:B1.
    + simpl. apply stspec_ok. assumption.
    + destruct (i_ann _ _ _ I1 dst ob1 (proj1 Hd) G1) as [A1 _]. rewrite KO1 in A1.
      destruct (A1 AK _ B1 sy eq_refl) as [Fy Ky].
      destruct (kind_at_hget _ _ _ Ky) as [? [Gy _]]. apply hget_Some_range in Gy.
      split; [discriminate|]. intros s' EQ. inversion EQ; subst s'. clear EQ. split.
      * apply inv_memo_set; [assumption | lia | left; lia | intro; lia].
      * apply ext_memo_set.
    + apply stspec_ok. assumption.
Qed.

(* ---- AnnotationSet.__deepcopy__ items ------------------------------------------------------------ *)

Lemma annset_items_spec : forall items rec f s o,
  RecSpec rec f -> Inv s -> (U s < f)%nat -> n0 <= o -> kind_at (sh s) o = Some KAnnSet ->
  Forall vsrc items -> StSpec (annset_items rec s o items) s.
Proof.
  induction items as [|a r IH]; intros rec f s o RS IV Uf Ho K Fx; simpl.
  - apply stspec_ok. assumption.
  - inversion Fx as [|? ? Va Vr]; subst. destruct (RS s a IV Va Uf) as [NO OK].
    destruct (rec s a) as [[sa a']| |] eqn:E; simpl; [|apply stspec_err|congruence].
    destruct (OK sa a' eq_refl) as [I1 [E1 R1]].
    assert (I2 : Inv (memo_val sa a a')) by (apply inv_memo_val; assumption).
    assert (E2 : Ext s (memo_val sa a a')) by (eapply ext_trans; [exact E1 | apply ext_memo_val]).
    assert (L2 : hlen (sh (memo_val sa a a')) = hlen (sh sa)).
    { destruct a as [p|?]; destruct a'; simpl; try reflexivity; destruct p; reflexivity. }
    destruct (oset_add (memo_val sa a a') o a') as [sb| |] eqn:OA; simpl;
      [|apply stspec_err | exfalso; eapply oset_add_no_oof; eassumption].
    assert (V2 : vok (hlen (sh (memo_val sa a a'))) a') by (rewrite L2; eapply res_ok_vok; exact R1).
    destruct (oset_add_spec _ _ _ _ I2 Ho (kind_ext _ _ _ _ E2 K) V2 OA) as [I3 E3].
    assert (E13 : Ext s sb) by (eapply ext_trans; eassumption).
    eapply stspec_ext; [exact E13|]. eapply IH; try eassumption.
    + eapply U_lt_ext; eassumption.
    + eapply kind_ext; eassumption.
Qed.


(* ---- one level of copy.deepcopy ---------------------------------------------------------------- *)

Lemma new_copy_eq : forall s x ob, new_copy s x ob =
  (note (memo_set (fst (alloc s (mkObj (ocls ob) (okind ob) []))) x (hlen (sh s))) x (hlen (sh s)), hlen (sh s)).
Proof. reflexivity. Qed.

Lemma U_after_memo : forall s s' x y, Ext s s' -> 0 <= x < n0 -> alookup x (sm s) = None ->
  alookup x (sm s') = Some y -> (U s' < U s)%nat.
Proof. intros. eapply U_strict; try eassumption. congruence. Qed.

Lemma new_copy_spec : forall s x ob, Inv s -> 0 <= x < n0 -> alookup x (sm s) = None ->
  Inv (fst (new_copy s x ob)) /\ Ext s (fst (new_copy s x ob)) /\ snd (new_copy s x ob) = hlen (sh s)
  /\ kind_at (sh (fst (new_copy s x ob))) (hlen (sh s)) = Some (okind ob)
  /\ (U (fst (new_copy s x ob)) < U s)%nat
  /\ hlen (sh (fst (new_copy s x ob))) = hlen (sh s) + 1.
Proof.
  intros s x ob IV Hx ML. rewrite new_copy_eq. cbn [fst snd].
  set (s1 := fst (alloc s (mkObj (ocls ob) (okind ob) []))).
  assert (I1 : Inv s1) by (apply inv_alloc_empty; assumption).
  assert (E1 : Ext s s1) by apply ext_alloc.
  assert (L1 : hlen (sh s1) = hlen (sh s) + 1) by (unfold s1; simpl; apply hlen_app1).
  assert (N := i_len _ _ _ IV).
  assert (EE : Ext s (note (memo_set s1 x (hlen (sh s))) x (hlen (sh s)))).
  { eapply ext_trans; [exact E1|]. eapply ext_trans; [apply ext_memo_set | apply ext_note]. }
  split; [|split; [|split; [|split; [|split]]]].
  - apply inv_note. apply inv_memo_set; [assumption | assumption | left; lia | intro; lia].
  - exact EE.
  - reflexivity.
  - exact (kind_alloc_new s (mkObj (ocls ob) (okind ob) [])).
  - eapply U_after_memo; [exact EE | exact Hx | exact ML |]. simpl. rewrite Z.eqb_refl. reflexivity.
  - exact L1.
Qed.

Lemma finish_spec : forall (r : res st) s s1 y v, StSpec r s1 -> Ext s s1 -> n0 <= y < hlen (sh s1) ->
  (do s2 <- r ;; Ok (s2, R y)) <> OutOfFuel /\
  forall s' v', (do s2 <- r ;; Ok (s2, R y)) = Ok (s', v') -> Inv s' /\ Ext s s' /\ res_ok (hlen (sh s')) v v'.
Proof.
  intros r s s1 y v [NO OK] E1 Hy. destruct r as [s2| |]; simpl; [|split; [discriminate | intros; discriminate]|congruence].
  split; [discriminate|]. intros s' v' EQ. inversion EQ; subst s' v'. clear EQ.
  destruct (OK s2 eq_refl) as [I2 E2]. split; [assumption|]. split; [eapply ext_trans; eassumption|].
  simpl. left. destruct E2. lia.
Qed.

Lemma old_fields : forall x ob, hget h0 x = Some ob ->
  (okind ob = KPlain \/ okind ob = KAnnotable \/ okind ob = KTaxon \/ okind ob = KNamespace \/ okind ob = KAnnSet) ->
  Forall (fun e => (exists p, fst e = P p) /\ vsrc (snd e)) (obody ob).
Proof.
  intros x ob G K. apply Forall_forall. intros [k v] IN. simpl. split.
  - eapply Hkeys; eassumption.
  - destruct (Hclosed _ _ _ _ G IN). assumption.
Qed.

Lemma old_entries : forall x ob, hget h0 x = Some ob ->
  Forall (fun e => vsrc (fst e) /\ vsrc (snd e)) (obody ob).
Proof. intros x ob G. apply Forall_forall. intros [k v] IN. simpl. eapply Hclosed; eassumption. Qed.

Lemma dc_step_spec : forall rec f, RecSpec rec f -> RecSpec (dc_step rec) (S f).
Proof.
  intros rec f RS s v IV Vs Uf. unfold dc_step. destruct v as [p|x].
  { split; [discriminate|]. intros s' v' E. inversion E; subst. split; [assumption|]. split; [apply ext_refl | reflexivity]. }
  simpl in Vs. destruct (alookup x (sm s)) as [y|] eqn:ML.
  { destruct (i_memo _ _ _ IV x y ML) as [_ [V EQ]]. split; [discriminate|]. intros s' v' E. inversion E; subst.
    split; [assumption|]. split; [apply ext_refl|]. simpl. simpl in V. destruct V as [V|V]; [left; exact V|].
    right. split; [exact V|]. destruct V as [[_ V] _]. rewrite (EQ V). reflexivity. }
  rewrite (i_old _ _ _ IV x) by lia. destruct (hget_in_range h0 x Vs) as [ob G]. rewrite G.
  destruct (new_copy_spec s x ob IV Vs ML) as [I1 [E1 [Y1 [K1 [U1 L1]]]]].
  assert (N := i_len _ _ _ IV).
  assert (Uf1 : (U (fst (new_copy s x ob)) < f)%nat) by lia.
  assert (Hy1 : n0 <= hlen (sh s) < hlen (sh (fst (new_copy s x ob)))) by lia.
  destruct (okind ob) eqn:KO.
  - (* KAtomic *)
    split; [discriminate|]. intros s' v' E. inversion E; subst. split; [assumption|]. split; [apply ext_refl|].
    simpl. right. split; [|reflexivity]. split; [assumption|]. right. unfold is_atomic, kind_at. rewrite G, KO. reflexivity.
  - (* KList *)
    destruct (new_copy s x ob) as [s1 y] eqn:NC. cbn [fst snd] in *. subst y.
    apply finish_spec with (s1 := s1); [|assumption|assumption].
    eapply copy_append_spec with (kd := KList); try eassumption; try lia; try (split; [reflexivity | discriminate]).
    eapply old_values_vsrc; eassumption.
  - (* KDict *)
    destruct (new_copy s x ob) as [s1 y] eqn:NC. cbn [fst snd] in *. subst y.
    apply finish_spec with (s1 := s1); [|assumption|assumption].
    eapply copy_entries_spec with (kd := KDict); try eassumption; try lia; try (split; [reflexivity | discriminate]).
    eapply old_entries; eassumption.
  - (* KSet *)
    destruct (forallb (fun e => is_prim (fst e) && is_prim (snd e)) (obody ob)) eqn:FA;
      [|split; [discriminate | intros; discriminate]].
    split; [discriminate|]. intros s' v' E. cbn [alloc] in E. inversion E; subst s' v'. clear E.
    set (s1 := fst (alloc s ob)).
    assert (Ia : Inv s1).
    { apply inv_alloc; [exact IV| | |].
      - intros k v IN. rewrite forallb_forall in FA. apply FA in IN. simpl in IN.
        apply andb_true_iff in IN. destruct IN as [A B]. destruct k; [|discriminate]. destruct v; [|discriminate].
        split; exact Logic.I.
      - rewrite KO. intros C. discriminate C.
      - rewrite KO. intros C. discriminate C. }
    assert (Ea : Ext s s1) by apply ext_alloc.
    assert (La : hlen (sh s1) = hlen (sh s) + 1) by (unfold s1; simpl; apply hlen_app1).
    change (Inv (note (memo_set s1 x (hlen (sh s))) x (hlen (sh s))) /\
            Ext s (note (memo_set s1 x (hlen (sh s))) x (hlen (sh s))) /\
            res_ok (hlen (sh s1)) (R x) (R (hlen (sh s)))).
    split; [|split].
    + apply inv_note. apply inv_memo_set; [assumption | assumption | left; lia | intro; lia].
    + eapply ext_trans; [exact Ea|]. eapply ext_trans; [apply ext_memo_set | apply ext_note].
    + left. lia.
  - (* KTuple *)
    destruct (new_copy s x ob) as [s1 y] eqn:NC. cbn [fst snd] in *. subst y.
    apply finish_spec with (s1 := s1); [|assumption|assumption].
    eapply copy_append_spec with (kd := KTuple); try eassumption; try lia; try (split; [reflexivity | discriminate]).
    eapply old_values_vsrc; eassumption.
  - (* KPlain *)
    destruct (new_copy s x ob) as [s1 y] eqn:NC. cbn [fst snd] in *. subst y.
    apply finish_spec with (s1 := s1); [|assumption|assumption].
    eapply plain_fields_spec with (kd := KPlain); try eassumption; try lia; try discriminate.
    eapply old_fields; [eassumption | tauto].
  - (* KAnnotable *)
    destruct (new_copy s x ob) as [s1 y] eqn:NC. cbn [fst snd] in *. subst y.
    assert (SS : StSpec (do s2 <- annotable_fields rec s1 (hlen (sh s)) (obody ob) ;;
                         deep_copy_annotations_from rec s2 (hlen (sh s)) x) s1).
    { apply stspec_bind.
      - eapply annotable_fields_spec with (kd := KAnnotable); try eassumption; try lia; try discriminate.
        eapply old_fields; [eassumption | tauto].
      - intros s2 I2 E2. eapply dcaf_spec with (kd := KAnnotable); try eassumption.
        + eapply U_lt_ext; eassumption.
        + destruct E2. lia.
        + eapply kind_ext; eassumption.
        + reflexivity. }
    assert (FS := finish_spec _ s s1 (hlen (sh s)) (R x) SS E1 Hy1).
    destruct (annotable_fields rec s1 (hlen (sh s)) (obody ob)) as [s2| |]; simpl in *; exact FS.
  - (* KAnnSet *)
    destruct (bget (obody ob) NM_TARGET) as [tg|] eqn:BT; [|split; [discriminate | intros; discriminate]].
    assert (TG : forall tg', (match tg with
                 | R t => match alookup t (sm s) with Some t' => Ok (R t') | None => Err KeyErr end
                 | P 0 => if snone s then Ok PNone else Err KeyErr
                 | P _ => Err KeyErr end) = Ok tg' -> vok (hlen (sh s)) tg').
    { intros tg' H. destruct tg as [q|t].
      - destruct q; try discriminate. destruct (snone s); [|discriminate]. inversion H. exact Logic.I.
      - destruct (alookup t (sm s)) as [t'|] eqn:MT; [|discriminate]. inversion H; subst.
        destruct (i_memo _ _ _ IV t t' MT) as [_ [V _]]. exact V. }
    destruct (match tg with
              | R t => match alookup t (sm s) with Some t' => Ok (R t') | None => Err KeyErr end
              | P 0 => if snone s then Ok PNone else Err KeyErr
              | P _ => Err KeyErr end) as [tg'| |] eqn:ET; cbn [bind];
      [|split; [discriminate | intros; discriminate]
       |exfalso; destruct tg as [q|t]; [destruct q; try discriminate; destruct (snone s); discriminate
                                       |destruct (alookup t (sm s)); discriminate]].
    destruct (new_annset_spec s (ocls ob) tg' IV (TG tg' eq_refl)) as [Ia [Ea [Ya Ka]]].
    destruct (new_annset s (ocls ob) tg') as [sa o] eqn:NA. cbn [fst snd] in *. subst o.
    set (s2 := note (memo_set sa x (hlen (sh s))) x (hlen (sh s))).
    assert (La : hlen (sh s) < hlen (sh sa)).
    { destruct (kind_at_hget _ _ _ Ka) as [? [Gk _]]. apply hget_Some_range in Gk. lia. }
    assert (I2 : Inv s2).
    { apply inv_note. apply inv_memo_set; [assumption | assumption | left; lia | intro; lia]. }
    assert (E2 : Ext s s2).
    { eapply ext_trans; [exact Ea|]. eapply ext_trans; [apply ext_memo_set | apply ext_note]. }
    assert (U2 : (U s2 < f)%nat).
    { assert (X : (U s2 < U s)%nat); [|lia].
      eapply U_after_memo; [exact E2 | exact Vs | exact ML |]. simpl. rewrite Z.eqb_refl. reflexivity. }
    destruct (bget (obody ob) NM_ILIST) as [[?|lx]|] eqn:BL; try (split; [discriminate | intros; discriminate]).
    assert (Vl : 0 <= lx < n0).
    { destruct (Hclosed _ _ _ _ G (bget_In _ _ _ BL)) as [_ X]. exact X. }
    assert (Ea2 : Ext sa s2) by (eapply ext_trans; [apply ext_memo_set | apply ext_note]).
    apply finish_spec with (s1 := s2); [|assumption|destruct Ea2; lia].
    apply (annset_items_spec _ rec f s2 (hlen (sh s)) RS I2 U2).
    + lia.
    + eapply kind_ext; [exact Ea2 | exact Ka].
    + rewrite (body_of_old s2 lx I2) by lia. destruct (hget h0 lx) as [l|] eqn:GL; [|constructor].
      eapply old_values_vsrc; eassumption.
  - (* KTaxon *)
    destruct (new_copy s x ob) as [s1 y] eqn:NC. cbn [fst snd] in *. subst y.
    assert (SS : StSpec (do s2 <- plain_fields rec [NM_ANN] s1 (hlen (sh s)) (obody ob) ;;
                         deep_copy_annotations_from rec s2 (hlen (sh s)) x) s1).
    { apply stspec_bind.
      - eapply plain_fields_spec with (kd := KTaxon); try eassumption; try lia; try discriminate;
          try (intros _; left; reflexivity).
        eapply old_fields; [eassumption | tauto].
      - intros s2 I2 E2. eapply dcaf_spec with (kd := KTaxon); try eassumption.
        + eapply U_lt_ext; eassumption.
        + destruct E2. lia.
        + eapply kind_ext; eassumption.
        + reflexivity. }
    assert (FS := finish_spec _ s s1 (hlen (sh s)) (R x) SS E1 Hy1).
    destruct (plain_fields rec [NM_ANN] s1 (hlen (sh s)) (obody ob)) as [s2| |]; simpl in *; exact FS.
  - (* KNamespace *)
    destruct (new_copy s x ob) as [s1 y] eqn:NC. cbn [fst snd] in *. subst y.
    destruct (bget (obody ob) NM_TAXA) as [[?|lt]|] eqn:BT; try (split; [discriminate | intros; discriminate]).
    assert (Vl : 0 <= lt < n0).
    { destruct (Hclosed _ _ _ _ G (bget_In _ _ _ BT)) as [_ X]. exact X. }
    set (s2 := fst (alloc s1 (mkObj CLS_LIST KList []))).
    change (alloc s1 (mkObj CLS_LIST KList [])) with (s2, hlen (sh s1)). cbn iota.
    set (l := hlen (sh s1)).
    assert (I2 : Inv s2) by (apply inv_alloc_empty; assumption).
    assert (E2 : Ext s1 s2) by apply ext_alloc.
    assert (L2 : hlen (sh s2) = hlen (sh s1) + 1) by (unfold s2; simpl; apply hlen_app1).
    assert (K2 : kind_at (sh s2) l = Some KList) by apply (kind_alloc_new s1).
    assert (Ky2 : kind_at (sh s2) (hlen (sh s)) = Some KNamespace) by (eapply kind_ext; eassumption).
    set (s3 := note (memo_set (put s2 (hlen (sh s)) NM_TAXA (R l)) lt l) lt l).
    assert (I3 : Inv s3).
    { apply inv_note. apply inv_memo_set; [|assumption| |].
      - apply inv_put; [assumption | lia | exact Logic.I | left; unfold l; lia |].
        eapply put_side_kind; [exact Ky2 | intros _; discriminate | discriminate].
      - rewrite put_hlen. left. unfold l. lia.
      - unfold l. intro. lia. }
    assert (E3 : Ext s2 s3).
    { eapply ext_trans; [apply ext_put|]. eapply ext_trans; [apply ext_memo_set | apply ext_note]. }
    assert (E13 : Ext s1 s3) by (eapply ext_trans; eassumption).
    assert (L3 : hlen (sh s3) = hlen (sh s2)) by (unfold s3; simpl; apply put_hlen).
    assert (SS : StSpec (do s4 <- copy_append rec s3 l 0 (values (body_of s3 lt)) ;;
                         do s5 <- plain_fields rec [NM_ANN; NM_TAXA] s4 (hlen (sh s)) (obody ob) ;;
                         deep_copy_annotations_from rec s5 (hlen (sh s)) x) s3).
    { apply stspec_bind.
      - apply (copy_append_spec _ rec f s3 l 0 KList RS I3).
        + eapply U_lt_ext; [exact E13 | exact Uf1].
        + unfold l. lia.
        + eapply kind_ext; [exact E3 | exact K2].
        + split; [reflexivity | discriminate].
        + rewrite (body_of_old s3 lt I3) by lia. destruct (hget h0 lt) as [lo|] eqn:GL; [|constructor].
          eapply old_values_vsrc; eassumption.
      - intros s4 I4 E4. apply stspec_bind.
        + apply (plain_fields_spec _ rec f _ s4 (hlen (sh s)) KNamespace RS I4).
          * eapply U_lt_ext; [|exact Uf1]. eapply ext_trans; [exact E13 | exact E4].
          * lia.
          * eapply kind_ext; [|exact Ky2]. eapply ext_trans; [exact E3 | exact E4].
          * discriminate.
          * intros _. left. reflexivity.
          * eapply old_fields; [eassumption | tauto].
        + intros s5 I5 E5. apply (dcaf_spec rec f s5 (hlen (sh s)) x KNamespace RS I5).
          * eapply U_lt_ext; [|exact Uf1]. eapply ext_trans; [exact E13|]. eapply ext_trans; [exact E4 | exact E5].
          * destruct E5 as [X5 _], E4 as [X4 _], E13 as [X13 _]. lia.
          * eapply kind_ext; [|exact Ky2]. eapply ext_trans; [exact E3|]. eapply ext_trans; [exact E4 | exact E5].
          * reflexivity.
          * exact Vs. }
    assert (Hy3 : n0 <= hlen (sh s) < hlen (sh s3)) by lia.
    assert (E03 : Ext s s3) by (eapply ext_trans; eassumption).
    assert (FS := finish_spec _ s s3 (hlen (sh s)) (R x) SS E03 Hy3).
    destruct (copy_append rec s3 l 0 (values (body_of s3 lt))) as [s4| |]; simpl in *; [|exact FS|exact FS].
    destruct (plain_fields rec [NM_ANN; NM_TAXA] s4 (hlen (sh s)) (obody ob)) as [s5| |]; simpl in *; exact FS.
  - (* KCDict *)
    destruct (new_copy s x ob) as [s1 y] eqn:NC. cbn [fst snd] in *. subst y.
    apply finish_spec with (s1 := s1); [|assumption|assumption].
    eapply copy_entries_spec with (kd := KCDict); try eassumption; try lia; try (split; [reflexivity | discriminate]).
    eapply old_entries; eassumption.
Qed.

Theorem dc_spec : forall f, RecSpec (dc f) f.
Proof.
  induction f as [|f IH].
  - intros s v _ _ H. lia.
  - simpl. apply dc_step_spec. exact IH.
Qed.

End Copy.
