(* C06: histories over the repaired forms (what the source has now): nothing raises, and arrays that
   should hold the same trees have the same summary *)
From Coq Require Import ZArith List Bool Lia Permutation.
From DV Require Import Model.PyPrims Model.C06Model Model.C06Hist Proofs.C06Lemmas Proofs.C06Proofs Proofs.C06Sched.
Import ListNotations.

Section H.
Variable c : cfg.
Variable r : option bool.
Hypothesis Hc : c_rooting c = None \/ c_rooting c = r.

Lemma ReprBody_set_rooting t l r' : ReprBody c t l -> ReprBody c (set_rooting t r') l.
Proof. intro R. destruct R. constructor; cbn; assumption. Qed.

Lemma Repr_extend_r a b la lb :
  Repr c r a la -> Repr c r b lb ->
  exists t', extend_r a b = (t', None) /\ Repr c r t' (la ++ lb).
Proof.
  intros [Ra Hra] [Rb Hrb]. unfold extend_r. rewrite (ReprBody_nil _ _ _ Rb).
  destruct lb as [|y lb]; cbn [is_nil].
  - exists a. rewrite app_nil_r. split; [reflexivity | split; assumption].
  - cbn [is_nil] in Hrb.
    set (a' := if (is_nil (ta_splits a) && is_none (ta_rooting a))%bool then set_rooting a (ta_rooting b) else a).
    assert (Ba : ReprBody c a' la).
    { subst a'. destruct (is_nil (ta_splits a) && is_none (ta_rooting a))%bool;
        [apply ReprBody_set_rooting|]; exact Ra. }
    assert (Ea : ta_rooting a' = r).
    { subst a'. rewrite (ReprBody_nil _ _ _ Ra).
      destruct la as [|x la]; cbn [is_nil andb] in *.
      - destruct (ta_rooting a) as [ra|] eqn:E; cbn [is_none].
        + rewrite E. destruct Hc as [H|H]; congruence.
        + cbn. exact Hrb.
      - exact Hra. }
    unfold extend.
    rewrite Ea, Hrb, obool_eqb_refl.
    rewrite (R_iel _ _ _ Ba), (R_iel _ _ _ Rb), (R_iag _ _ _ Ba), (R_iag _ _ _ Rb), (R_uw _ _ _ Ba), (R_uw _ _ _ Rb).
    rewrite !eqb_reflx. cbn [negb].
    eexists. split; [reflexivity|]. split.
    + apply ReprBody_extend_lists; assumption.
    + cbn [extend_lists ta_rooting]. rewrite is_nil_app. cbn [is_nil]. rewrite andb_false_r. exact Ea.
Qed.

Lemma Repr_plus_r a b la lb :
  Repr c r a la -> Repr c r b lb ->
  exists t', plus_r a b = (Some t', None) /\ Repr c r t' (la ++ lb).
Proof.
  intros HRa HRb. pose proof HRa as [Ra Hra]. unfold plus_r.
  set (t0 := new_ta (ta_rooting a) (ta_ign_el a) (ta_ign_ages a) (ta_use_w a)).
  assert (B0 : ReprBody c t0 []).
  { destruct (Repr_new c r) as [R0 _]. unfold new_cfg in R0. subst t0.
    rewrite (R_iel _ _ _ Ra), (R_iag _ _ _ Ra), (R_uw _ _ _ Ra).
    destruct R0. constructor; cbn in *; try assumption; try reflexivity. }
  assert (E1 : exists t1, extend_r t0 a = (t1, None) /\ Repr c r t1 la).
  { unfold extend_r. rewrite (ReprBody_nil _ _ _ Ra).
    destruct la as [|x la]; cbn [is_nil] in *.
    - exists t0. split; [reflexivity|]. split; [exact B0 | subst t0; cbn; exact Hra].
    - subst t0. cbn [new_ta ta_splits is_nil andb ta_rooting].
      set (t0' := if is_none (ta_rooting a) then _ else _).
      assert (B0' : ReprBody c t0' []).
      { subst t0'. destruct (is_none (ta_rooting a)); [apply ReprBody_set_rooting|]; exact B0. }
      assert (E0 : ta_rooting t0' = ta_rooting a).
      { subst t0'. destruct (is_none (ta_rooting a)); reflexivity. }
      unfold extend. rewrite E0, obool_eqb_refl.
      rewrite (R_iel _ _ _ B0'), (R_iel _ _ _ Ra), (R_iag _ _ _ B0'), (R_iag _ _ _ Ra), (R_uw _ _ _ B0'), (R_uw _ _ _ Ra).
      rewrite !eqb_reflx. cbn [negb].
      eexists. split; [reflexivity|]. split.
      + apply (ReprBody_extend_lists c t0' a [] (x :: la) B0' Ra).
      + cbn. rewrite E0. exact Hra. }
  destruct E1 as [t1 [E1 R1]]. rewrite E1.
  destruct (Repr_extend_r t1 b la lb R1 HRb) as [t2 [E2 R2]]. rewrite E2.
  exists t2. split; [reflexivity | exact R2].
Qed.

End H.

Definition good_rec (c : cfg) (rooted : bool) (x : trec) : Prop :=
  tr_rooted x = rooted /\ (c_ign_ages c = false -> tr_ages_err x = None).

Definition op_good (c : cfg) (rooted : bool) (o : op) : Prop :=
  match o with OAdd _ x _ => good_rec c rooted x | _ => True end.

Lemma ok_rec_norm c rooted x : good_rec c rooted x -> ok_rec c (Some rooted) (norm_rooting x).
Proof. intros [H1 H2]. split; [rewrite norm_rooting_rooted, H1; reflexivity | exact H2]. Qed.

Definition ReprN (c : cfg) (rooted : bool) (t : tarr) (l : list trec) : Prop :=
  Repr c (Some rooted) t (map norm_rooting l).

Lemma nth_error_some_lt {B} (l : list B) i : (i < length l)%nat -> exists x, nth_error l i = Some x.
Proof. intro H. destruct (nth_error l i) eqn:E; [eauto|]. apply nth_error_None in E. lia. Qed.

Lemma step_v_Repr c rooted w g o :
  (c_rooting c = None \/ c_rooting c = Some rooted) ->
  Forall2 (ReprN c rooted) w g -> op_good c rooted o -> op_in_range (length w) o = true ->
  snd (step_v true true w o) = None /\
  Forall2 (ReprN c rooted) (fst (step_v true true w o)) (pool_step g o None).
Proof.
  intros Hc F Ho Hr. unfold ReprN in *.
  destruct o as [i x idx | i j | i j | i j | k i j]; cbn [step_v step op_in_range] in *.
  - apply Nat.ltb_lt in Hr. destruct (nth_error_some_lt w i Hr) as [t E]. rewrite E.
    destruct (Forall2_nth_error_l _ _ _ _ _ F E) as [l [El Rl]].
    destruct (Repr_add c (Some rooted) Hc t _ (norm_rooting x) idx Rl (ok_rec_norm _ _ _ Ho)) as [t' [Ea Ra]].
    unfold add_tree_r. rewrite Ea. cbn [fst snd pool_step]. split; [reflexivity|].
    rewrite (nth_error_nth_d _ _ _ [] El). apply Forall2_set_nth; [exact F|].
    rewrite map_app. exact Ra.
  - apply andb_true_iff in Hr. destruct Hr as [H1 H2]. apply Nat.ltb_lt in H1, H2.
    destruct (nth_error_some_lt w i H1) as [a Ea]. destruct (nth_error_some_lt w j H2) as [b Eb]. rewrite Ea, Eb.
    destruct (Forall2_nth_error_l _ _ _ _ _ F Ea) as [la [Ela Rla]].
    destruct (Forall2_nth_error_l _ _ _ _ _ F Eb) as [lb [Elb Rlb]].
    destruct (Repr_update c (Some rooted) a b _ _ Rla Rlb) as [t' [Eu Ru]]. rewrite Eu. cbn [fst snd pool_step].
    split; [reflexivity|].
    rewrite (nth_error_nth_d _ _ _ [] Ela), (nth_error_nth_d _ _ _ [] Elb). apply Forall2_set_nth; [exact F|].
    rewrite map_app. exact Ru.
  - apply andb_true_iff in Hr. destruct Hr as [H1 H2]. apply Nat.ltb_lt in H1, H2.
    destruct (nth_error_some_lt w i H1) as [a Ea]. destruct (nth_error_some_lt w j H2) as [b Eb]. rewrite Ea, Eb.
    destruct (Forall2_nth_error_l _ _ _ _ _ F Ea) as [la [Ela Rla]].
    destruct (Forall2_nth_error_l _ _ _ _ _ F Eb) as [lb [Elb Rlb]].
    destruct (Repr_extend_r c (Some rooted) Hc a b _ _ Rla Rlb) as [t' [Eu Ru]]. rewrite Eu. cbn [fst snd pool_step].
    split; [reflexivity|].
    rewrite (nth_error_nth_d _ _ _ [] Ela), (nth_error_nth_d _ _ _ [] Elb). apply Forall2_set_nth; [exact F|].
    rewrite map_app. exact Ru.
  - apply andb_true_iff in Hr. destruct Hr as [H1 H2]. apply Nat.ltb_lt in H1, H2.
    destruct (nth_error_some_lt w i H1) as [a Ea]. destruct (nth_error_some_lt w j H2) as [b Eb]. rewrite Ea, Eb.
    destruct (Forall2_nth_error_l _ _ _ _ _ F Ea) as [la [Ela Rla]].
    destruct (Forall2_nth_error_l _ _ _ _ _ F Eb) as [lb [Elb Rlb]].
    destruct (Repr_extend_r c (Some rooted) Hc a b _ _ Rla Rlb) as [t' [Eu Ru]]. rewrite Eu. cbn [fst snd pool_step].
    split; [reflexivity|].
    rewrite (nth_error_nth_d _ _ _ [] Ela), (nth_error_nth_d _ _ _ [] Elb). apply Forall2_set_nth; [exact F|].
    rewrite map_app. exact Ru.
  - apply andb_true_iff in Hr. destruct Hr as [H1 H2]. apply Nat.ltb_lt in H1, H2.
    destruct (nth_error_some_lt w i H1) as [a Ea]. destruct (nth_error_some_lt w j H2) as [b Eb]. rewrite Ea, Eb.
    destruct (Forall2_nth_error_l _ _ _ _ _ F Ea) as [la [Ela Rla]].
    destruct (Forall2_nth_error_l _ _ _ _ _ F Eb) as [lb [Elb Rlb]].
    destruct (Repr_plus_r c (Some rooted) Hc a b _ _ Rla Rlb) as [t' [Eu Ru]]. rewrite Eu. cbn [fst snd pool_step].
    split; [reflexivity|].
    rewrite (nth_error_nth_d _ _ _ [] Ela), (nth_error_nth_d _ _ _ [] Elb). apply Forall2_set_nth; [exact F|].
    rewrite map_app. exact Ru.
Qed.

Lemma Forall2_len' {A B} (R : A -> B -> Prop) l m : Forall2 R l m -> length l = length m.
Proof. induction 1; simpl; congruence. Qed.

Lemma run_pool_v_Repr c rooted :
  (c_rooting c = None \/ c_rooting c = Some rooted) ->
  forall ops w g w' g' es,
    Forall2 (ReprN c rooted) w g -> Forall (op_good c rooted) ops ->
    Forall (fun o => op_in_range (length w) o = true) ops ->
    run_pool_v true true w g ops = (w', g', es) ->
    Forall2 (ReprN c rooted) w' g' /\ Forall (fun e => e = None) es.
Proof.
  intros Hc. induction ops as [|o ops IH]; intros w g w' g' es F Ho Hr E; simpl in E.
  - inversion E; subst. split; [exact F | constructor].
  - inversion Ho as [|? ? Ho1 Ho2]; subst. inversion Hr as [|? ? Hr1 Hr2]; subst.
    destruct (step_v_Repr c rooted w g o Hc F Ho1 Hr1) as [S1 S2].
    destruct (step_v true true w o) as [w1 e] eqn:St. cbn [fst snd] in *. subst e.
    destruct (run_pool_v true true w1 (pool_step g o None) ops) as [[wf gf] es'] eqn:Er.
    inversion E; subst.
    assert (Lw : length w1 = length w).
    { rewrite (Forall2_len' _ _ _ S2), (Forall2_len' _ _ _ F).
      destruct o; cbn [pool_step]; apply set_nth_length. }
    assert (Hr2' : Forall (fun o => op_in_range (length w1) o = true) ops) by (rewrite Lw; exact Hr2).
    destruct (IH w1 _ _ _ _ S2 Ho2 Hr2' Er) as [I1 I2].
    split; [exact I1 | constructor; [reflexivity | exact I2]].
Qed.

Lemma new_world_ReprN c rooted n : Forall2 (ReprN c rooted) (repeat (new_cfg c) n) (repeat [] n).
Proof. induction n; simpl; constructor; [apply Repr_new | assumption]. Qed.

Lemma merge_history_repaired_l : forall c rooted n1 n2 ops1 ops2 w1 g1 es1 w2 g2 es2 i j t1 t2,
  (c_rooting c = None \/ c_rooting c = Some rooted) ->
  Forall (op_good c rooted) ops1 -> Forall (op_good c rooted) ops2 ->
  Forall (fun o => op_in_range n1 o = true) ops1 -> Forall (fun o => op_in_range n2 o = true) ops2 ->
  run_pool_v true true (repeat (new_cfg c) n1) (repeat [] n1) ops1 = (w1, g1, es1) ->
  run_pool_v true true (repeat (new_cfg c) n2) (repeat [] n2) ops2 = (w2, g2, es2) ->
  Forall (fun e => e = None) es1 /\ Forall (fun e => e = None) es2 /\
  (nth_error w1 i = Some t1 -> nth_error w2 j = Some t2 ->
   Permutation (nth i g1 []) (nth j g2 []) -> ta_equiv t1 t2).
Proof.
  intros c rooted n1 n2 ops1 ops2 w1 g1 es1 w2 g2 es2 i j t1 t2 Hc O1 O2 R1 R2 E1 E2.
  assert (R1' : Forall (fun o => op_in_range (length (repeat (new_cfg c) n1)) o = true) ops1) by (rewrite repeat_length; exact R1).
  assert (R2' : Forall (fun o => op_in_range (length (repeat (new_cfg c) n2)) o = true) ops2) by (rewrite repeat_length; exact R2).
  destruct (run_pool_v_Repr c rooted Hc ops1 _ _ _ _ _ (new_world_ReprN c rooted n1) O1 R1' E1) as [F1 N1].
  destruct (run_pool_v_Repr c rooted Hc ops2 _ _ _ _ _ (new_world_ReprN c rooted n2) O2 R2' E2) as [F2 N2].
  split; [exact N1|]. split; [exact N2|].
  intros T1 T2 P.
  destruct (Forall2_nth_error_l _ _ _ _ _ F1 T1) as [l1 [L1 Q1]].
  destruct (Forall2_nth_error_l _ _ _ _ _ F2 T2) as [l2 [L2 Q2]].
  rewrite (nth_error_nth_d _ _ _ [] L1), (nth_error_nth_d _ _ _ [] L2) in P.
  eapply Repr_equiv; [exact Q1 | exact Q2 | apply Permutation_map; exact P].
Qed.
