(* C08 - why a loop over a LAZY post-order iterator that mutates the tree in its body may be
   modelled as a loop over the post-order list taken at loop entry.

   The library's iterator (Gen/Traversals.v: Node_postorder_iter_step; Props/C15.v proves that on
   an unchanging graph it yields the structural post-order) reads node.child_nodes exactly once per
   node m, when m is expanded, i.e. when exactly the nodes preceding m's block in the post-order
   have been yielded (and the loop body has run on them).  The theorem below is stated on the
   transcription's own loop (foldF f = one `upd f` per id): at that moment the whole subtree of m
   is still, value for value, what it was at loop entry - the bodies run so far have only touched
   nodes already visited.  So every child list the iterator ever reads is the original one, and
   the sequence it yields is the post-order of the tree at loop entry. *)
From Coq Require Import ZArith List Bool Lia.
From DV Require Import Model.PyPrims Model.Tree Model.C08Model Proofs.C08Base Proofs.C08InPlace Proofs.C08Prune.
Import ListNotations.
Open Scope Z_scope.

Definition preF (F : list tree) : list tree := flat_map preorder F.

Lemma idsF_recf_sub f (Hf : ids_shrink f) F a : In a (idsF (flat_map (recf f) F)) -> In a (idsF F).
Proof.
  intro Ha. unfold idsF in *. rewrite flat_map_flat_map in Ha. apply in_flat_map in Ha.
  destruct Ha as [k [Hk Ha]]. apply in_flat_map. exists k. split; [exact Hk | exact (ids_recf f Hf k a Ha)].
Qed.

Lemma in_split_kid {A} (k : A) ks : In k ks -> exists A1 B1, ks = A1 ++ k :: B1.
Proof. apply in_split. Qed.

Theorem unvisited_block_intact f (Hf : ids_shrink f) : forall t, NoDup (ids t) ->
  forall m, In m (preorder t) ->
  exists L1 L2, post_ids t = L1 ++ post_ids m ++ L2 /\ In m (preF (foldF f L1 [t])).
Proof.
  induction t as [i x l e ks IH] using tree_ind'. intros Hnd m Hm.
  rewrite preorder_T in Hm. destruct Hm as [<-|Hm].
  - exists [], []. split; [rewrite app_nil_r; reflexivity|]. unfold foldF, preF. simpl. rewrite app_nil_r. left. reflexivity.
  - apply in_flat_map in Hm. destruct Hm as [k [Hk Hm]].
    destruct (NoDup_ids_kids _ _ _ _ _ Hnd) as [Hks Hi].
    destruct (in_split k ks Hk) as [A [B EAB]]. subst ks.
    rewrite Forall_forall in IH.
    destruct (IH k Hk (NoDup_idsF_kid _ _ Hks Hk) m Hm) as [L1' [L2' [EL Hin]]].
    exists (flat_map post_ids A ++ L1'), (L2' ++ flat_map post_ids B ++ [i]). split.
    + rewrite post_ids_T, flat_map_app'. simpl flat_map. rewrite EL, <- !app_assoc. reflexivity.
    + rewrite idsF_app, idsF_cons in Hks.
      assert (HL1' : forall a, In a L1' -> In a (ids k)).
      { intros a Ha. apply post_ids_in. rewrite EL. apply in_or_app. left. exact Ha. }
      rewrite foldF_root.
      2:{ intro H. apply Hi. rewrite idsF_app, idsF_cons. apply in_app_or in H. destruct H as [H|H].
          - apply in_or_app. left. apply postF_in. exact H.
          - apply in_or_app. right. apply in_or_app. left. exact (HL1' i H). }
      unfold preF. rewrite flat_map_single, preorder_T. right.
      rewrite foldF_app_list.
      change (A ++ k :: B) with (A ++ [k] ++ B). rewrite !foldF_app_forest.
      rewrite (post_fold_kids f Hf A (NoDup_app_l _ _ Hks)).
      rewrite (foldF_notin f (flat_map post_ids A) [k]).
      2:{ intros a Ha H. apply postF_in in Ha. rewrite idsF_single in H.
          apply (NoDup_app_disj _ _ a Hks Ha). apply in_or_app. left. exact H. }
      rewrite (foldF_notin f (flat_map post_ids A) B).
      2:{ intros a Ha H. apply postF_in in Ha. apply (NoDup_app_disj _ _ a Hks Ha). apply in_or_app. right. exact H. }
      rewrite !flat_map_app'. apply in_or_app. right. apply in_or_app. left. exact Hin.
Qed.

(* the bodies of the three loops qualify *)
Lemma rm_shrink : ids_shrink rm_f.
Proof. intros n a []. Qed.

Corollary lazy_prune_phase1 lf intn taxa t : NoDup (ids t) -> forall m, In m (preorder t) ->
  exists L1 L2, post_ids t = L1 ++ post_ids m ++ L2 /\ In m (preF (foldF (p1_f lf intn taxa) L1 [t])).
Proof. apply unvisited_block_intact. apply p1_shrink. Qed.

Corollary lazy_suppress_unifurcations t : NoDup (ids t) -> forall m, In m (preorder t) ->
  exists L1 L2, post_ids t = L1 ++ post_ids m ++ L2 /\ In m (preF (foldF su_f L1 [t])).
Proof. apply unvisited_block_intact. apply su_shrink. Qed.
