(* C16 - the transcribed fitch_down_pass (node store, character loop, weights, per-character list)
   against the one-character Fitch function; independence of the initial store. *)
From Coq Require Import ZArith List Bool Lia.
From DV Require Import Model.PyPrims Model.Tree Model.C16Model Proofs.C16Fitch.
Import ListNotations.
Open Scope Z_scope.

(* ---------- stores ---------- *)
Lemma lookup_st_set j s k v : lookup j (st_set s k v) = if Z.eqb j k then Some v else lookup j s.
Proof. reflexivity. Qed.

Lemma lookup_st_set_same s k v : lookup k (st_set s k v) = Some v.
Proof. rewrite lookup_st_set, Z.eqb_refl. reflexivity. Qed.

Lemma lookup_st_set_other j s k v : j <> k -> lookup j (st_set s k v) = lookup j s.
Proof. intro N. rewrite lookup_st_set. destruct (Z.eqb_spec j k); [contradiction|reflexivity]. Qed.

Lemma lookup_in {A} x (m : list (Z * A)) row : lookup x m = Some row -> In (x, row) m.
Proof.
  induction m as [|[k v] r IH]; simpl; [discriminate|].
  destruct (Z.eqb_spec x k) as [->|N]; intro E; [inversion E; auto|auto].
Qed.

Lemma run_nodes_app m w l1 l2 p :
  run_nodes m w (l1 ++ l2) p =
  match run_nodes m w l1 p with Done p' => run_nodes m w l2 p' | f => f end.
Proof.
  revert p. induction l1 as [|nd r IH]; intro p; simpl; [reflexivity|].
  destruct (node_step m w p nd); [apply IH|reflexivity].
Qed.

Lemma NoDup_app_inv {A} (a b : list A) : NoDup (a ++ b) ->
  NoDup a /\ NoDup b /\ (forall x, In x a -> In x b -> False).
Proof.
  induction a as [|y a IH]; simpl; intro H.
  - repeat split; [constructor|exact H|intros x []].
  - inversion H as [|? ? Ny H2]; subst. destruct (IH H2) as [Na [Nb D]].
    repeat split; [constructor; [intro Q; apply Ny; apply in_or_app; auto|exact Na]|exact Nb|].
    intros x [->|Hx] Hb; [apply Ny; apply in_or_app; auto|eapply D; eauto].
Qed.

Lemma ids_node2 i x l e a b : ids (T i x l e [a; b]) = i :: ids a ++ ids b.
Proof. unfold ids. simpl. rewrite app_nil_r, map_app. reflexivity. Qed.

Lemma root_in_ids t : In (t_id t) (ids t).
Proof. destruct t. unfold ids. simpl. auto. Qed.

Lemma postorder_node2 i x l e a b :
  postorder (T i x l e [a; b]) = postorder a ++ postorder b ++ [T i x l e [a; b]].
Proof. simpl. rewrite app_nil_r, app_assoc. reflexivity. Qed.

(* ---------- list level ---------- *)
Definition comb1 (a b : Z) : Z := if Z.eqb (Z.land a b) 0 then Z.lor a b else Z.land a b.
Definition pen1 (a b : Z) : Z := if Z.eqb (Z.land a b) 0 then 1 else 0.

Fixpoint zcomb (l r : ssl) : ssl :=
  match l, r with a :: l', b :: r' => comb1 a b :: zcomb l' r' | _, _ => [] end.
Fixpoint zpen (l r : ssl) : list Z :=
  match l, r with a :: l', b :: r' => pen1 a b :: zpen l' r' | _, _ => [] end.
Fixpoint zadd (a b : list Z) : list Z :=
  match a, b with x :: a', y :: b' => (x + y) :: zadd a' b' | _, _ => [] end.
Fixpoint wl (w : option (list Z)) (n : nat) (l : list Z) : list Z :=
  match l with [] => [] | x :: r => weight_at w n * x :: wl w (S n) r end.

Definition sbc_upd (sbc : option (list Z)) (d : list Z) : option (list Z) :=
  match sbc with Some s => Some (zadd s d) | None => None end.
Definition sbc_len (sbc : option (list Z)) (k : nat) : Prop :=
  match sbc with Some s => length s = k | None => True end.

Lemma zcomb_length l r : length l = length r -> length (zcomb l r) = length l.
Proof. revert r. induction l; destruct r; simpl; intro E; try discriminate; auto. Qed.
Lemma zpen_length l r : length l = length r -> length (zpen l r) = length l.
Proof. revert r. induction l; destruct r; simpl; intro E; try discriminate; auto. Qed.
Lemma zadd_length a b : length a = length b -> length (zadd a b) = length a.
Proof. revert b. induction a; destruct b; simpl; intro E; try discriminate; auto. Qed.
Lemma wl_length w n l : length (wl w n l) = length l.
Proof. revert n. induction l; simpl; auto. Qed.

Lemma zadd_assoc a b c : zadd (zadd a b) c = zadd a (zadd b c).
Proof.
  revert b c. induction a as [|x a IH]; intros [|y b] [|z c]; simpl; try reflexivity.
  rewrite IH. f_equal. lia.
Qed.

Lemma wl_zadd w n a b : wl w n (zadd a b) = zadd (wl w n a) (wl w n b).
Proof.
  revert n b. induction a as [|x a IH]; intros n [|y b]; simpl; try reflexivity.
  rewrite IH. f_equal. lia.
Qed.

Lemma zsum_zadd a b : length a = length b -> zsum (zadd a b) = zsum a + zsum b.
Proof.
  revert b. induction a as [|x a IH]; intros [|y b]; simpl; intro E; try discriminate; [reflexivity|].
  rewrite IH by lia. lia.
Qed.

Lemma zadd_zero k d : length d = k -> zadd (repeat 0 k) d = d.
Proof. revert d. induction k; intros [|y d]; simpl; intro E; try discriminate; [reflexivity|]. rewrite IHk by lia. reflexivity. Qed.

Lemma list_add_at_app pre c cur wt :
  list_add_at (pre ++ c :: cur) (length pre) wt = Some (pre ++ (c + wt) :: cur).
Proof. induction pre as [|x pre IH]; simpl; [reflexivity|]. rewrite IH. reflexivity. Qed.

Lemma weight_lookup w n : weights_ok w (S n) ->
  match w with None => Some 1 | Some ws => nth_error ws n end = Some (weight_at w n).
Proof.
  destruct w as [ws|]; simpl; intro H; [|reflexivity].
  apply nth_error_nth'. lia.
Qed.

Lemma weights_ok_le w a b : (a <= b)%nat -> weights_ok w b -> weights_ok w a.
Proof. destruct w; simpl; lia. Qed.

Lemma char_loop_some w : forall l r n acc sc pre cur,
  length l = length r -> length cur = length l -> length pre = n -> weights_ok w (n + length l) ->
  char_loop w n l r acc sc (Some (pre ++ cur)) =
  ((rev acc ++ zcomb l r, sc + zsum (wl w n (zpen l r)), Some (pre ++ zadd cur (wl w n (zpen l r)))), None).
Proof.
  induction l as [|a l IH]; intros [|b r] n acc sc pre cur E1 E2 E3 W; simpl in E1; try discriminate.
  - destruct cur; [|discriminate]. simpl. rewrite !app_nil_r, Z.add_0_r. reflexivity.
  - destruct cur as [|c cur]; [discriminate|]. simpl in E2.
    simpl char_loop. unfold comb1, pen1. simpl zcomb. simpl zpen. unfold comb1, pen1.
    destruct (Z.eqb_spec (Z.land a b) 0) as [Z0|NZ]; simpl negb; cbv iota.
    + rewrite (weight_lookup w n) by (eapply weights_ok_le; [|exact W]; simpl; lia).
      subst n. rewrite list_add_at_app.
      replace (pre ++ c + weight_at w (length pre) :: cur) with ((pre ++ [c + weight_at w (length pre)]) ++ cur)
        by (rewrite <- app_assoc; reflexivity).
      rewrite IH; try lia.
      * simpl. rewrite <- !app_assoc. simpl. f_equal. f_equal; [f_equal|].
        -- lia.
        -- do 3 f_equal. lia.
      * rewrite app_length. simpl. lia.
      * eapply weights_ok_le; [|exact W]. simpl. lia.
    + subst n.
      replace (pre ++ c :: cur) with ((pre ++ [c]) ++ cur) by (rewrite <- app_assoc; reflexivity).
      rewrite IH; try lia.
      * simpl. rewrite <- !app_assoc. simpl. f_equal. f_equal; [f_equal|].
        -- lia.
        -- do 3 f_equal. lia.
      * rewrite app_length. simpl. lia.
      * eapply weights_ok_le; [|exact W]. simpl. lia.
Qed.

Lemma char_loop_none w : forall l r n acc sc,
  length l = length r -> weights_ok w (n + length l) ->
  char_loop w n l r acc sc None =
  ((rev acc ++ zcomb l r, sc + zsum (wl w n (zpen l r)), None), None).
Proof.
  induction l as [|a l IH]; intros [|b r] n acc sc E1 W; simpl in E1; try discriminate.
  - simpl. rewrite app_nil_r, Z.add_0_r. reflexivity.
  - simpl char_loop. simpl zcomb. simpl zpen. unfold comb1, pen1.
    destruct (Z.eqb_spec (Z.land a b) 0) as [Z0|NZ]; simpl negb; cbv iota.
    + rewrite (weight_lookup w n) by (eapply weights_ok_le; [|exact W]; simpl; lia).
      rewrite IH; try lia.
      * simpl. rewrite <- !app_assoc. simpl. f_equal. f_equal. f_equal. lia.
      * eapply weights_ok_le; [|exact W]. simpl. lia.
    + rewrite IH; try lia.
      * simpl. rewrite <- !app_assoc. simpl. f_equal. f_equal. f_equal. lia.
      * eapply weights_ok_le; [|exact W]. simpl. lia.
Qed.

Lemma char_loop_top w l r sc sbc k :
  length l = k -> length r = k -> sbc_len sbc k -> weights_ok w k ->
  char_loop w O l r [] sc sbc =
  ((zcomb l r, sc + zsum (wl w O (zpen l r)), sbc_upd sbc (wl w O (zpen l r))), None).
Proof.
  intros E1 E2 S W. destruct sbc as [s|]; simpl in S.
  - change (Some s) with (Some ([] ++ s)). rewrite char_loop_some; try lia; [reflexivity|reflexivity|simpl; rewrite E1; exact W].
  - rewrite char_loop_none; try lia; [reflexivity|simpl; rewrite E1; exact W].
Qed.

(* the state-set list and the per-character score list of a subtree, computed purely *)
Fixpoint fitchL (m : matrix) (k : nat) (t : tree) : ssl * list Z :=
  match t with
  | T _ x _ _ ks =>
    match ks with
    | [] => (match map_get m x with Some row => row | None => [] end, repeat 0 k)
    | [a; b] =>
      let A := fitchL m k a in
      let B := fitchL m k b in
      (zcomb (fst A) (fst B), zadd (zadd (snd A) (snd B)) (zpen (fst A) (fst B)))
    | _ => ([], [])
    end
  end.

Lemma covers_node2 m k i x l e a b : covers m k (T i x l e [a; b]) <-> covers m k a /\ covers m k b.
Proof. simpl. tauto. Qed.

Lemma fitchL_length m k t : binary t -> covers m k t ->
  length (fst (fitchL m k t)) = k /\ length (snd (fitchL m k t)) = k.
Proof.
  intro B. pattern t. revert t B. apply binary_ind; [intros i x l e | intros i x l e a b Ba Bb IHa IHb]; intro C.
  - simpl in *. destruct C as [row [-> L]]. split; [exact L|apply repeat_length].
  - apply covers_node2 in C. destruct C as [Ca Cb].
    destruct (IHa Ca) as [A1 A2]. destruct (IHb Cb) as [B1 B2].
    simpl. split.
    + rewrite zcomb_length; lia.
    + rewrite zadd_length; rewrite ?zadd_length, ?zpen_length; lia.
Qed.

Lemma zsum_wl_zero w k : forall n, zsum (wl w n (repeat 0 k)) = 0.
Proof. induction k as [|k IH]; intro n; simpl; [reflexivity|]. rewrite IH. lia. Qed.

Lemma zadd_wl_zero w s : forall n, zadd s (wl w n (repeat 0 (length s))) = s.
Proof. induction s as [|y s IH]; intro n; simpl; [reflexivity|]. rewrite IH. f_equal. lia. Qed.

Section Pass.
  Variable m : matrix.
  Variable w : option (list Z).
  Variable k : nat.
  Hypothesis W : weights_ok w k.

  Lemma run_nodes_binary t : binary t -> covers m k t -> NoDup (ids t) ->
    forall st sc sbc, sbc_len sbc k ->
    exists st',
      run_nodes (Some m) w (postorder t) (mkP st sc sbc) =
        Done (mkP st' (sc + zsum (wl w O (snd (fitchL m k t)))) (sbc_upd sbc (wl w O (snd (fitchL m k t))))) /\
      lookup (t_id t) st' = Some (fst (fitchL m k t)) /\
      (forall j, ~ In j (ids t) -> lookup j st' = lookup j st).
  Proof.
    intro B. pattern t. revert t B.
    apply binary_ind; [intros i x l e | intros i x l e a b Ba Bb IHa IHb]; intros C ND st sc sbc SL.
    - simpl in C. destruct C as [row [Hrow Lrow]].
      exists (st_set st i row). simpl postorder. simpl run_nodes. unfold node_step. simpl t_kids. simpl t_taxon.
      rewrite Hrow. simpl fitchL. rewrite Hrow. simpl fst. simpl snd. simpl p_store. simpl p_score. simpl p_sbc. simpl t_id.
      assert (Z0 : zsum (wl w O (repeat 0 k)) = 0) by apply zsum_wl_zero.
      assert (U : sbc_upd sbc (wl w O (repeat 0 k)) = sbc).
      { destruct sbc as [s|]; simpl in *; [|reflexivity]. f_equal. rewrite <- SL. apply zadd_wl_zero. }
      rewrite Z0, U, Z.add_0_r. split; [reflexivity|]. split.
      + apply lookup_st_set_same.
      + intros j NI. apply lookup_st_set_other. intro; subst. apply NI. unfold ids. simpl. auto.
    - apply covers_node2 in C. destruct C as [Ca Cb].
      rewrite ids_node2 in ND. inversion ND as [|? ? Ni ND2]; subst.
      destruct (NoDup_app_inv _ _ ND2) as [NDa [NDb DISJ]].
      destruct (fitchL_length m k a Ba Ca) as [LA1 LA2].
      destruct (fitchL_length m k b Bb Cb) as [LB1 LB2].
      destruct (IHa Ca NDa st sc sbc SL) as [st1 [R1 [G1 F1]]].
      set (sc1 := sc + zsum (wl w O (snd (fitchL m k a)))) in *.
      set (sb1 := sbc_upd sbc (wl w O (snd (fitchL m k a)))) in *.
      assert (SL1 : sbc_len sb1 k).
      { unfold sb1. destruct sbc as [s|]; simpl in *; [|exact I]. rewrite zadd_length; rewrite ?wl_length; lia. }
      destruct (IHb Cb NDb st1 sc1 sb1 SL1) as [st2 [R2 [G2 F2]]].
      set (sc2 := sc1 + zsum (wl w O (snd (fitchL m k b)))) in *.
      set (sb2 := sbc_upd sb1 (wl w O (snd (fitchL m k b)))) in *.
      assert (SL2 : sbc_len sb2 k).
      { unfold sb2. destruct sb1 as [s|]; simpl in *; [|exact I]. rewrite zadd_length; rewrite ?wl_length; lia. }
      (* the left child's attribute survives the right subtree *)
      assert (Ga : lookup (t_id a) st2 = Some (fst (fitchL m k a))).
      { rewrite F2; [exact G1|]. intro In_b.
        apply (DISJ (t_id a)); [apply root_in_ids|exact In_b]. }
      set (A := fitchL m k a) in *. set (Bv := fitchL m k b) in *.
      exists (st_set st2 i (zcomb (fst A) (fst Bv))).
      rewrite postorder_node2, run_nodes_app, R1, run_nodes_app, R2.
      simpl run_nodes. unfold node_step. simpl t_kids. unfold get_ss at 1. simpl p_store. rewrite Ga.
      simpl kids_loop. unfold get_ss. rewrite G2.
      rewrite (char_loop_top w (fst A) (fst Bv) sc2 sb2 k LA1 LB1 SL2 W).
      split; [|split].
      + f_equal. f_equal.
        * simpl fitchL. fold A. fold Bv. simpl snd.
          rewrite !wl_zadd, !zsum_zadd; [unfold sc2, sc1; lia| |];
            repeat first [rewrite zadd_length | rewrite wl_length | rewrite zpen_length]; lia.
        * simpl fitchL. fold A. fold Bv. simpl snd.
          unfold sb2, sb1. destruct sbc as [s|]; simpl; [|reflexivity].
          f_equal. rewrite !wl_zadd, !zadd_assoc. reflexivity.
      + simpl t_id. rewrite lookup_st_set_same. reflexivity.
      + intros j NI. rewrite ids_node2 in NI. simpl in NI.
        rewrite lookup_st_set_other by (intro Q; apply NI; left; symmetry; exact Q).
        rewrite F2 by (intro; apply NI; right; apply in_or_app; auto).
        apply F1. intro; apply NI; right; apply in_or_app; auto.
  Qed.
End Pass.

(* ---------- list level = character by character ---------- *)
Lemma nth_zcomb i l r : (i < length l)%nat -> (i < length r)%nat ->
  nth i (zcomb l r) 0 = comb1 (nth i l 0) (nth i r 0) /\ nth i (zpen l r) 0 = pen1 (nth i l 0) (nth i r 0).
Proof.
  revert i r. induction l as [|a l IH]; intros i [|b r] H1 H2; simpl in *; try lia.
  destruct i; [split; reflexivity|]. apply IH; lia.
Qed.

Lemma nth_zadd i a b : (i < length a)%nat -> (i < length b)%nat -> nth i (zadd a b) 0 = nth i a 0 + nth i b 0.
Proof.
  revert i b. induction a as [|x a IH]; intros i [|y b] H1 H2; simpl in *; try lia.
  destruct i; [reflexivity|]. apply IH; lia.
Qed.

Lemma fitchL_nth m k t : binary t -> covers m k t -> forall i, (i < k)%nat ->
  nth i (fst (fitchL m k t)) 0 = fitch_set (column m i) t /\
  nth i (snd (fitchL m k t)) 0 = fitch_score (column m i) t.
Proof.
  intro B. pattern t. revert t B. apply binary_ind; [intros j x l e | intros j x l e a b Ba Bb IHa IHb]; intros C i Hi.
  - simpl in C. destruct C as [row [Hrow Lrow]].
    unfold fitch_set, fitch_score. rewrite fitch1_leaf. simpl. unfold column. rewrite Hrow. split; [reflexivity|].
    apply nth_repeat.
  - apply covers_node2 in C. destruct C as [Ca Cb].
    destruct (fitchL_length m k a Ba Ca) as [LA1 LA2].
    destruct (fitchL_length m k b Bb Cb) as [LB1 LB2].
    destruct (IHa Ca i Hi) as [A1 A2]. destruct (IHb Cb i Hi) as [B1 B2].
    unfold fitch_set, fitch_score in *. rewrite fitch1_node2. simpl fitchL.
    destruct (nth_zcomb i (fst (fitchL m k a)) (fst (fitchL m k b))) as [N1 N2]; try lia.
    simpl fst. simpl snd.
    rewrite N1, nth_zadd, nth_zadd, N2, A1, A2, B1, B2; rewrite ?zadd_length, ?zpen_length; try lia.
    destruct (fitch1 (column m i) a) as [Fa fa]. destruct (fitch1 (column m i) b) as [Fb fb].
    unfold fcomb, comb1, pen1. simpl fst. simpl snd.
    destruct (Z.eqb (Z.land Fa Fb) 0); simpl; split; try reflexivity; lia.
Qed.

Lemma wl_as_map w l : forall n,
  wl w n l = map (fun i => weight_at w i * nth (i - n) l 0) (seq n (length l)).
Proof.
  induction l as [|x l IH]; intro n; simpl; [reflexivity|].
  rewrite Nat.sub_diag. f_equal. rewrite IH. apply map_ext_in. intros i Hi. apply in_seq in Hi.
  replace (i - n)%nat with (S (i - S n)) by lia. reflexivity.
Qed.

Lemma wl_scores m w k t : binary t -> covers m k t ->
  wl w O (snd (fitchL m k t)) = map (fun i => weight_at w i * fitch_score (column m i) t) (seq 0 k).
Proof.
  intros B C. rewrite wl_as_map. destruct (fitchL_length m k t B C) as [_ L]. rewrite L.
  apply map_ext_in. intros i Hi. apply in_seq in Hi. rewrite Nat.sub_0_r.
  destruct (fitchL_nth m k t B C i) as [_ E]; [lia|]. rewrite E. reflexivity.
Qed.

Lemma covers_nonempty m k t : binary t -> covers m k t -> m <> [].
Proof.
  intro B. pattern t. revert t B. apply binary_ind; [intros i x l e | intros i x l e a b Ba Bb IHa IHb]; intro C.
  - simpl in C. destruct C as [row [H _]]. intro E. subst. destruct x; discriminate.
  - apply covers_node2 in C. tauto.
Qed.

(* the transcribed fitch_down_pass on a fully bifurcating tree, from ANY initial store *)
Lemma down_pass_binary m w k sbcf st t :
  binary t -> NoDup (ids t) -> covers m k t -> Forall (fun row => length (snd row) = k) m -> weights_ok w k ->
  exists st',
    fitch_down_pass (Some m) w sbcf st t =
    Done (mkP st'
              (zsum (map (fun i => weight_at w i * fitch_score (column m i) t) (seq 0 k)))
              (if sbcf then Some (map (fun i => weight_at w i * fitch_score (column m i) t) (seq 0 k)) else None)).
Proof.
  intros B ND C R Wk. unfold fitch_down_pass.
  pose proof (covers_nonempty m k t B C) as NE.
  pose proof (wl_scores m w k t B C) as WS.
  destruct (fitchL_length m k t B C) as [_ LS].
  destruct sbcf.
  - destruct m as [|[x0 row0] rest]; [contradiction|].
    pose proof (Forall_inv R) as L0. simpl in L0. simpl length. rewrite L0.
    destruct (run_nodes_binary _ w k Wk t B C ND st 0 (Some (repeat 0 k))) as [st' [E _]].
    { simpl. apply repeat_length. }
    exists st'. rewrite E. simpl sbc_upd. rewrite zadd_zero by (rewrite wl_length; exact LS).
    rewrite WS. reflexivity.
  - destruct (run_nodes_binary _ w k Wk t B C ND st 0 None I) as [st' [E _]].
    exists st'. rewrite E. simpl. rewrite WS. reflexivity.
Qed.

(* =====================================================================================
   Independence of the initial store (any tree, any matrix, including the error branches)
   ===================================================================================== *)
Definition agree (V : Z -> Prop) (s1 s2 : store) := forall j, V j -> lookup j s1 = lookup j s2.

Definition prel (V : Z -> Prop) (p1 p2 : pst) :=
  agree V (p_store p1) (p_store p2) /\ p_score p1 = p_score p2 /\ p_sbc p1 = p_sbc p2.

Definition osim (V : Z -> Prop) (o1 o2 : outcome) : Prop :=
  match o1, o2 with
  | Done p1, Done p2 => prel V p1 p2
  | Fail p1 e1, Fail p2 e2 => e1 = e2 /\ p_sbc p1 = p_sbc p2
  | _, _ => False
  end.

Lemma agree_set V s1 s2 k v : agree V s1 s2 -> agree (fun j => V j \/ j = k) (st_set s1 k v) (st_set s2 k v).
Proof.
  intros A j Hj. rewrite !lookup_st_set. destruct (Z.eqb_spec j k); [reflexivity|].
  destruct Hj; [auto|contradiction].
Qed.

Lemma agree_mono (V V' : Z -> Prop) s1 s2 : (forall j, V' j -> V j) -> agree V s1 s2 -> agree V' s1 s2.
Proof. intros H A j Hj. apply A. auto. Qed.

Lemma osim_mono (V V' : Z -> Prop) o1 o2 : (forall j, V' j -> V j) -> osim V o1 o2 -> osim V' o1 o2.
Proof.
  intros H. destruct o1, o2; simpl; auto. intros [A R]. split; [eapply agree_mono; eauto|exact R].
Qed.

Section Sim.
  Variable m : matrix.
  Variable w : option (list Z).

  Lemma get_ss_sim V s1 s2 c : agree V s1 s2 -> V (t_id c) ->
    exists s1' s2' r, get_ss (Some m) s1 c = (s1', r) /\ get_ss (Some m) s2 c = (s2', r) /\ agree V s1' s2'.
  Proof.
    intros A Hc. unfold get_ss. rewrite (A _ Hc).
    destruct (lookup (t_id c) s2) as [v|]; [eauto 6|].
    destruct (map_get m (t_taxon c)) as [v|]; [|eauto 6].
    exists (st_set s1 (t_id c) v), (st_set s2 (t_id c) v), (Ok v). repeat split.
    eapply agree_mono; [|apply agree_set; exact A]. simpl. auto.
  Qed.

  Lemma kids_loop_sim V nd : forall remaining left_ssl right_c p1 p2,
    prel V p1 p2 -> V (t_id right_c) -> Forall (fun c => V (t_id c)) remaining ->
    osim (fun j => V j \/ j = t_id nd)
         (kids_loop (Some m) w nd left_ssl right_c remaining p1)
         (kids_loop (Some m) w nd left_ssl right_c remaining p2).
  Proof.
    induction remaining as [|c rest IH]; intros left_ssl right_c [s1 sc1 sb1] [s2 sc2 sb2] [A [E1 E2]] Hr Hrem;
      simpl in A, E1, E2; subst sc2 sb2.
    - simpl kids_loop. simpl p_store.
      destruct (get_ss_sim V s1 s2 right_c A Hr) as [s1' [s2' [r [G1 [G2 A']]]]]. rewrite G1, G2.
      destruct r as [rs|er|]; simpl; auto.
      destruct (char_loop w 0 left_ssl rs [] sc1 sb1) as [[[res sc] sb] [er|]]; simpl; auto.
      split; [apply agree_set; exact A'|auto].
    - simpl kids_loop. simpl p_store.
      destruct (get_ss_sim V s1 s2 right_c A Hr) as [s1' [s2' [r [G1 [G2 A']]]]]. rewrite G1, G2.
      destruct r as [rs|er|]; simpl; auto.
      destruct (char_loop w 0 left_ssl rs [] sc1 sb1) as [[[res sc] sb] [er|]]; simpl; auto.
      inversion Hrem; subst. apply IH; auto. repeat split; auto.
  Qed.

  Lemma node_step_sim V p1 p2 nd :
    prel V p1 p2 -> Forall (fun c => V (t_id c)) (t_kids nd) ->
    osim (fun j => V j \/ j = t_id nd) (node_step (Some m) w p1 nd) (node_step (Some m) w p2 nd).
  Proof.
    destruct p1 as [s1 sc1 sb1], p2 as [s2 sc2 sb2]. intros [A [E1 E2]] K. simpl in A, E1, E2. subst sc2 sb2.
    unfold node_step. destruct (t_kids nd) as [|lc [|rc rem]].
    - destruct (map_get m (t_taxon nd)) as [v|]; simpl; auto.
      split; [apply agree_set; exact A|auto].
    - simpl. auto.
    - inversion K as [|? ? Kl K2]; subst. inversion K2 as [|? ? Kr K3]; subst.
      simpl p_store.
      destruct (get_ss_sim V s1 s2 lc A Kl) as [s1' [s2' [r [G1 [G2 A']]]]]. rewrite G1, G2.
      destruct r as [ls|er|]; simpl; auto.
      apply kids_loop_sim; auto. repeat split; auto.
  Qed.

  Lemma run_nodes_sim_app V V2 l1 l2 p1 p2 :
    osim V (run_nodes (Some m) w l1 p1) (run_nodes (Some m) w l1 p2) ->
    (forall q1 q2, prel V q1 q2 -> osim V2 (run_nodes (Some m) w l2 q1) (run_nodes (Some m) w l2 q2)) ->
    osim V2 (run_nodes (Some m) w (l1 ++ l2) p1) (run_nodes (Some m) w (l1 ++ l2) p2).
  Proof.
    intros H1 H2. rewrite !run_nodes_app.
    destruct (run_nodes (Some m) w l1 p1) as [q1|q1 e1], (run_nodes (Some m) w l1 p2) as [q2|q2 e2];
      simpl in H1; try contradiction.
    - apply H2. exact H1.
    - simpl. exact H1.
  Qed.

  Lemma run_nodes_sim t : forall V p1 p2, prel V p1 p2 ->
    osim (fun j => V j \/ In j (ids t))
         (run_nodes (Some m) w (postorder t) p1) (run_nodes (Some m) w (postorder t) p2).
  Proof.
    induction t as [i x l e ks IH] using tree_ind'. intros V p1 p2 R.
    assert (KS : forall V p1 p2, prel V p1 p2 ->
              osim (fun j => V j \/ In j (map t_id (flat_map preorder ks)))
                   (run_nodes (Some m) w (flat_map postorder ks) p1)
                   (run_nodes (Some m) w (flat_map postorder ks) p2)).
    { clear V p1 p2 R. induction IH as [|c r Hc Hr IHr]; intros V p1 p2 R.
      - simpl. destruct R as [A R]. split; [eapply agree_mono; [|exact A]; simpl; tauto|exact R].
      - simpl flat_map. eapply run_nodes_sim_app; [apply Hc; exact R|].
        intros q1 q2 Q. eapply osim_mono; [|apply IHr; exact Q].
        intros j [Hj|Hj]; [left; left; exact Hj|].
        simpl in Hj. rewrite map_app, in_app_iff in Hj. unfold ids. tauto. }
    change (postorder (T i x l e ks)) with (flat_map postorder ks ++ [T i x l e ks]).
    eapply run_nodes_sim_app; [apply KS; exact R|].
    intros q1 q2 Q. simpl run_nodes.
    pose proof (node_step_sim _ q1 q2 (T i x l e ks) Q) as NS.
    assert (K : Forall (fun c => V (t_id c) \/ In (t_id c) (map t_id (flat_map preorder ks))) (t_kids (T i x l e ks))).
    { simpl. apply Forall_forall. intros c Hc. right. apply in_map. apply in_flat_map. exists c. split; [exact Hc|].
      destruct c. simpl. auto. }
    specialize (NS K).
    assert (MONO : forall j, V j \/ In j (ids (T i x l e ks)) ->
                             (V j \/ In j (map t_id (flat_map preorder ks))) \/ j = t_id (T i x l e ks)).
    { intros j [Hj|Hj]; [auto|]. unfold ids in Hj. simpl in Hj. simpl. destruct Hj; [right; auto|auto]. }
    destruct (node_step (Some m) w q1 (T i x l e ks)) as [r1|r1 e1], (node_step (Some m) w q2 (T i x l e ks)) as [r2|r2 e2];
      simpl in NS; try contradiction; simpl.
    - destruct NS as [A RR]. split; [eapply agree_mono; [exact MONO|exact A]|exact RR].
    - exact NS.
  Qed.

  Lemma down_pass_sim sbcf st1 st2 t :
    osim (fun j => In j (ids t)) (fitch_down_pass (Some m) w sbcf st1 t) (fitch_down_pass (Some m) w sbcf st2 t).
  Proof.
    unfold fitch_down_pass.
    assert (G : forall sb, osim (fun j => In j (ids t))
                                (run_nodes (Some m) w (postorder t) (mkP st1 0 sb))
                                (run_nodes (Some m) w (postorder t) (mkP st2 0 sb))).
    { intro sb. eapply osim_mono; [|apply (run_nodes_sim t (fun _ => False))].
      - intros j Hj. right. exact Hj.
      - repeat split. intros j []. }
    destruct sbcf; [|apply G].
    destruct m as [|[x0 row0] rest]; [simpl; auto|apply G].
  Qed.
End Sim.

Lemma dump_agree t s1 s2 : agree (fun j => In j (ids t)) s1 s2 -> dump s1 t = dump s2 t.
Proof.
  intro A. unfold dump. apply map_ext_in. intros n Hn. apply A. unfold ids. apply in_map. exact Hn.
Qed.

Lemma outcome_obs_sim t o1 o2 : osim (fun j => In j (ids t)) o1 o2 ->
  result_of (snd (outcome_obs o1 t)) = result_of (snd (outcome_obs o2 t)) /\
  (forall z, o_res (snd (outcome_obs o1 t)) = Ok z -> snd (outcome_obs o1 t) = snd (outcome_obs o2 t)).
Proof.
  destruct o1 as [[s1 sc1 sb1]|[s1 sc1 sb1] e1], o2 as [[s2 sc2 sb2]|[s2 sc2 sb2] e2]; simpl; try tauto.
  - intros [A [E1 E2]]. simpl in *. subst. unfold result_of. simpl. split; [reflexivity|].
    intros z _. rewrite (dump_agree t s1 s2 A). reflexivity.
  - intros [-> E]. simpl in E. subst. unfold result_of. simpl. split; [reflexivity|]. intros z H. discriminate.
Qed.

Definition uses_map (c : call) : Prop :=
  match k_api c with ParsimonyScore _ => True | DownPass true => True | _ => False end.

Lemma run_call_store_independent t c st1 st2 : uses_map c ->
  result_of (snd (run_call t st1 c)) = result_of (snd (run_call t st2 c)) /\
  (forall z, o_res (snd (run_call t st1 c)) = Ok z -> snd (run_call t st1 c) = snd (run_call t st2 c)).
Proof.
  unfold uses_map, run_call. destruct (k_api c) as [[|]|[|]|wm]; try contradiction; intros _.
  - apply outcome_obs_sim. apply down_pass_sim.
  - simpl. split; [reflexivity|]. intros z H. discriminate.
  - apply outcome_obs_sim. apply down_pass_sim.
Qed.

Fixpoint store_after (t : tree) (st : store) (cs : list call) : store :=
  match cs with [] => st | c :: r => store_after t (fst (run_call t st c)) r end.

Lemma run_history_snoc t : forall pre st c,
  run_history t st (pre ++ [c]) = run_history t st pre ++ [snd (run_call t (store_after t st pre) c)].
Proof.
  induction pre as [|c0 pre IH]; intros st c; simpl.
  - destruct (run_call t st c). reflexivity.
  - destruct (run_call t st c0) as [st' o] eqn:E. simpl. rewrite IH. reflexivity.
Qed.

Lemma run_history_length t : forall cs st, length (run_history t st cs) = length cs.
Proof.
  induction cs as [|c cs IH]; intro st; simpl; [reflexivity|].
  destruct (run_call t st c). simpl. rewrite IH. reflexivity.
Qed.

Lemma history_independent_l t pre c : uses_map c ->
  exists o, nth_error (run_history t [] (pre ++ [c])) (length pre) = Some o /\
            result_of o = result_of (snd (run_call t [] c)) /\
            (forall z, o_res o = Ok z -> o = snd (run_call t [] c)).
Proof.
  intro U. exists (snd (run_call t (store_after t [] pre) c)). split.
  - rewrite run_history_snoc, nth_error_app2; rewrite run_history_length; [|lia].
    rewrite Nat.sub_diag. reflexivity.
  - apply run_call_store_independent. exact U.
Qed.
