(* C01, translator tie: the generated Bipartition methods (Gen/Bipartition.v) equal the model's
   Bipartition construction and predicates (Model/C01Model.v). *)
From Coq Require Import ZArith List Bool Lia.
From DV Require Import Model.PyPrims Model.Tree Gen.BitFns Model.C01Model Model.C01GenPrims Gen.Bipartition
  Proofs.C01Gen.
Import ListNotations.
Open Scope Z_scope.

(* a compiled Bipartition object of a tree with leafset mask f <> 0 *)
Definition full_bip (s ls f : Z) (r m : option bool) : bip :=
  mkB (Some s) (Some ls) (Some f) (Some (py_least_significant_set_bit f)) r m.

(* Bipartition(leafset_bitmask=a, tree_leafset_bitmask=f, is_rooted=r)  =  the model's mk_bip *)
Lemma gen_init_eq a f r : f <> 0 ->
  gen_init None (Some (Some a)) (Some (Some f)) (Some r) None None
  = Ok (full_bip (snd (mk_bip a f r)) (fst (mk_bip a f r)) f r (Some true), tt).
Proof.
  intro N. assert (E : (f =? 0) = false) by (apply Z.eqb_neq; exact N).
  unfold gen_init, gen_compile_split_bitmask, gen_compile_tree_leafset_bitmask, gen_compile_leafset_bitmask,
    mk_bip, full_bip, truthy_oz, kw_get, bip_blank.
  destruct (Z.eqb a 0) eqn:Ea.
  - apply Z.eqb_eq in Ea. subst a.
    repeat (cbn -[py_normalize_bitmask py_least_significant_set_bit Z.eqb Z.land]; rewrite ?E).
    rewrite Z.land_0_l. destruct r as [[|]|]; cbn -[py_normalize_bitmask py_least_significant_set_bit Z.eqb Z.land]; reflexivity.
  - repeat (cbn -[py_normalize_bitmask py_least_significant_set_bit Z.eqb Z.land]; rewrite ?E, ?Ea).
    destruct r as [[|]|]; cbn -[py_normalize_bitmask py_least_significant_set_bit Z.eqb Z.land]; reflexivity.
Qed.

Lemma gen_is_trivial_eq s ls f r m :
  gen_is_trivial (full_bip s ls f r m) = Ok (full_bip s ls f r m, bip_is_trivial s f).
Proof. reflexivity. Qed.

Lemma gen_is_compatible_with_bip_eq s1 ls1 f1 r1 m1 s2 ls2 f2 r2 m2 :
  gen_is_compatible_with (full_bip s1 ls1 f1 r1 m1) (IsBip (full_bip s2 ls2 f2 r2 m2))
  = Ok (full_bip s1 ls1 f1 r1 m1, bip_is_compatible_with s1 s2 f1).
Proof. reflexivity. Qed.

Lemma gen_is_compatible_with_int_eq s1 ls1 f1 r1 m1 b :
  gen_is_compatible_with (full_bip s1 ls1 f1 r1 m1) (IsInt b)
  = Ok (full_bip s1 ls1 f1 r1 m1, bip_is_compatible_with_int r1 s1 b f1).
Proof.
  unfold gen_is_compatible_with, bip_is_compatible_with_int, full_bip. cbn [b_split b_rooted b_lrb b_tree_leafset is_none negb].
  rewrite truthy_ob_is_true. destruct (is_true r1); reflexivity.
Qed.

Lemma gen_is_nested_within_eq s1 ls1 f1 r1 m1 s2 ls2 f2 r2 m2 masked :
  gen_is_nested_within (full_bip s1 ls1 f1 r1 m1) (full_bip s2 ls2 f2 r2 m2) masked
  = Ok (full_bip s1 ls1 f1 r1 m1, bip_is_nested_within r1 (ls1, s1) (ls2, s2) f1 masked).
Proof.
  unfold gen_is_nested_within, bip_is_nested_within, full_bip. cbn [b_rooted b_leafset b_split b_tree_leafset fst snd].
  rewrite truthy_ob_is_true. destruct (is_true r1), masked; reflexivity.
Qed.

Lemma gen_is_leafset_nested_within_bip_eq s1 ls1 f1 r1 m1 s2 ls2 f2 r2 m2 :
  gen_is_leafset_nested_within (full_bip s1 ls1 f1 r1 m1) (IsBip (full_bip s2 ls2 f2 r2 m2))
  = Ok (full_bip s1 ls1 f1 r1 m1, bip_is_leafset_nested_within ls1 ls2 f1).
Proof. reflexivity. Qed.

Lemma gen_is_leafset_nested_within_int_eq s1 ls1 f1 r1 m1 b :
  gen_is_leafset_nested_within (full_bip s1 ls1 f1 r1 m1) (IsInt b)
  = Ok (full_bip s1 ls1 f1 r1 m1, bip_is_leafset_nested_within ls1 b f1).
Proof. reflexivity. Qed.

(* Tree.is_compatible_with_bipartition on an encoding of compiled bipartitions of one tree *)
Lemma gen_bip_eq_full s1 ls1 f1 r1 m1 s2 ls2 f2 r2 m2 :
  gen_bip_eq (full_bip s1 ls1 f1 r1 m1) (full_bip s2 ls2 f2 r2 m2) = Z.eqb s1 s2.
Proof. unfold gen_bip_eq, full_bip. cbn. destruct (s1 =? s2); reflexivity. Qed.

Lemma gen_is_compatible_with_bipartition_eq f r m (enc : list (Z * Z)) s ls :
  gen_is_compatible_with_bipartition (map (fun e => full_bip (snd e) (fst e) f r m) enc) (full_bip s ls f r m)
  = Ok (tree_is_compatible_with (map snd enc) f s).
Proof.
  unfold gen_is_compatible_with_bipartition, tree_is_compatible_with.
  assert (E : existsb (fun b => gen_bip_eq (full_bip s ls f r m) b) (map (fun e => full_bip (snd e) (fst e) f r m) enc)
              = existsb (Z.eqb s) (map snd enc)).
  { induction enc as [|e q IH]; [reflexivity|]. cbn [map existsb]. rewrite gen_bip_eq_full, IH. reflexivity. }
  rewrite E. destruct (existsb (Z.eqb s) (map snd enc)); [reflexivity|]. clear E.
  induction enc as [|e q IH]; [reflexivity|]. cbn [map all_res forallb].
  rewrite gen_is_compatible_with_bip_eq. cbn [bind snd]. unfold bip_is_compatible_with.
  destruct (py_is_compatible_bitmasks (snd e) s f); [exact IH | reflexivity].
Qed.
