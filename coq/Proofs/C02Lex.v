(* C02: the token sequence of the Newick writer's output.
   tokenize (write_tree ...) = the token-level rendering `wtoks` of the tree. *)
From Coq Require Import ZArith List Bool Lia.
From DV Require Import Model.PyPrims Gen.CharClasses Model.Tokenizer Model.Newick Model.C02Spec
     Proofs.C02Tok Proofs.C02Escape.
Import ListNotations.
Open Scope Z_scope.

(* nested induction principle for ntree *)
Section NInd.
  Variable L : Type.
  Variable P : ntree L -> Prop.
  Hypothesis H : forall tx lb ln ks, Forall P ks -> P (Nd tx lb ln ks).
  Fixpoint ntree_ind' (t : ntree L) : P t :=
    match t with
    | Nd tx lb ln ks =>
      H tx lb ln ks
        ((fix go (ks : list (ntree L)) : Forall P ks :=
            match ks with
            | [] => Forall_nil P
            | k :: r => Forall_cons k (ntree_ind' k) (go r)
            end) ks)
    end.
End NInd.

(* a token without comments, not at end of stream *)
Definition T (s : str) (q : bool) : token := mkTok s q [] false.

Section Lex.
Variable L : Type.
Variable render_len : L -> str.
Hypothesis len_plain : forall x, render_len x <> [] /\ forallb numeral_char (render_len x) = true.
Variable o : rt_opts.

Let cfg := nexus_cfg (rt_pu o).
Let wo := rt_wopts o.

Notation ntree := (ntree L).

Definition tag_q (l : str) : bool :=
  escape_quotes newick_writer_protect (rt_ps o) (negb (rt_uu o)) l.

Definition tag_toks (t : ntree) : list token :=
  match tag_of L o t with Some l => [T l (tag_q l)] | None => [] end.

Definition body_toks (t : ntree) : list token :=
  tag_toks t ++
  match n_len L t with Some x => [T [COLON] false; T (render_len x) false] | None => [] end.

Fixpoint wtoks (first : bool) (t : ntree) : list token :=
  match t with
  | Nd _ _ _ [] => (if first then [] else [T [COMMA] false]) ++ body_toks t
  | Nd _ _ _ (k :: ks) =>
    (if first then [T [LPAREN] false] else [T [COMMA] false; T [LPAREN] false])
      ++ wtoks true k ++ flat_map (wtoks false) ks ++ T [RPAREN] false :: body_toks t
  end.

(* `s` is tokenized into `toks`, whatever non-empty continuation starting with a captured delimiter follows *)
Definition Lexes (s : str) (toks : list token) : Prop :=
  forall r, cap_start r = true -> r <> [] ->
    tokenize cfg (s ++ r) = let '(l, e) := tokenize cfg r in (toks ++ l, e).

Lemma Lexes_nil : Lexes [] [].
Proof. intros r _ _. simpl. destruct (tokenize cfg r). reflexivity. Qed.

Lemma Lexes_cons_cap c s toks : zmem c tok_captured_delimiters = true -> Lexes s toks ->
  Lexes (c :: s) (T [c] false :: toks).
Proof.
  intros Hc Hs r Hr Hne. simpl app. rewrite tokenize_unfold.
  unfold cfg. rewrite (next_captured (rt_pu o) c (s ++ r) Hc). fold cfg.
  rewrite (Hs r Hr Hne). destruct (tokenize cfg r) as [l e].
  assert (E : is_nil (s ++ r) = false) by (destruct s; [destruct r; [congruence | reflexivity] | reflexivity]).
  rewrite E. reflexivity.
Qed.

Lemma cap_start_app s r : cap_start s = true -> cap_start r = true -> cap_start (s ++ r) = true.
Proof. destruct s; simpl; auto. Qed.

Lemma Lexes_word w txt q s toks :
  (forall r, cap_start r = true -> next_token cfg (w ++ r) = TTok txt q [] r) ->
  cap_start s = true -> Lexes s toks -> Lexes (w ++ s) (T txt q :: toks).
Proof.
  intros Hw Hcs Hs r Hr Hne. rewrite <- app_assoc. rewrite tokenize_unfold.
  rewrite (Hw (s ++ r) (cap_start_app s r Hcs Hr)).
  rewrite (Hs r Hr Hne). destruct (tokenize cfg r) as [l e].
  assert (E : is_nil (s ++ r) = false) by (destruct s; [destruct r; [congruence | reflexivity] | reflexivity]).
  rewrite E. reflexivity.
Qed.

Lemma Lexes_word_end w txt q :
  (forall r, cap_start r = true -> next_token cfg (w ++ r) = TTok txt q [] r) -> Lexes w [T txt q].
Proof.
  intro Hw. pose proof (Lexes_word w txt q [] [] Hw eq_refl Lexes_nil) as H.
  rewrite app_nil_r in H. exact H.
Qed.

Lemma Lexes_app s1 t1 s2 t2 : Lexes s1 t1 -> Lexes s2 t2 -> cap_start s2 = true ->
  Lexes (s1 ++ s2) (t1 ++ t2).
Proof.
  intros H1 H2 Hc r Hr Hne. rewrite <- app_assoc.
  rewrite (H1 (s2 ++ r) (cap_start_app s2 r Hc Hr)); [| destruct s2; [exact Hne | discriminate]].
  rewrite (H2 r Hr Hne). destruct (tokenize cfg r) as [l e]. rewrite <- app_assoc. reflexivity.
Qed.

(* the edge-length numeral is one unquoted token *)
Lemma numeral_token x r : cap_start r = true ->
  next_token cfg (render_len x ++ r) = TTok (render_len x) false [] r.
Proof.
  intro Hr. destruct (len_plain x) as [Hne Hall].
  assert (A : forall c, In c (render_len x) ->
            plain c = true /\ zmem c tok_quote_chars = false /\ c <> UNDERSCORE).
  { intros c Hi. rewrite forallb_forall in Hall. specialize (Hall c Hi). unfold numeral_char in Hall.
    apply andb_true_iff in Hall. destruct Hall as [H1 H2]. apply negb_true_iff in H1, H2.
    rewrite !zmem_app, !orb_false_iff in H1. destruct H1 as [A1 [A2 [A3 A4]]].
    unfold plain. rewrite A1, A2, A4. apply Z.eqb_neq in H2. auto. }
  unfold cfg. rewrite next_plain.
  - f_equal. rewrite <- (map_id (render_len x)) at 2. apply map_ext_in. intros c Hi.
    destruct (A c Hi) as [_ [_ N]]. unfold conv. apply Z.eqb_neq in N. rewrite N. reflexivity.
  - exact Hne.
  - apply forallb_forall. intros c Hi. apply (A c Hi).
  - destruct (render_len x) as [|c s]; [congruence|]. simpl. apply (A c (or_introl eq_refl)).
  - exact Hr.
Qed.

(* what _render_node_tag produces on the round-trip domain *)
Lemma label_ok_nonempty l : label_ok o l = true -> is_nil l = false.
Proof.
  unfold label_ok, good_label. rewrite !andb_true_iff. intros [[[[H _] _] _] _].
  apply negb_true_iff in H. exact H.
Qed.

Lemma render_tag_wf tx lb ln ks :
  (match tag_of L o (Nd tx lb ln ks) with Some l => label_ok o l | None => true end) = true ->
  (if is_nil ks then true else if rt_it o then is_none lb else is_none tx) = true ->
  render_node_tag L wo (Nd tx lb ln ks)
  = match tag_of L o (Nd tx lb ln ks) with
    | Some l => escape_token newick_writer_protect (rt_ps o) (negb (rt_uu o)) l
    | None => []
    end.
Proof.
  intros Hl Hs. unfold render_node_tag, tag_of in *. unfold wo, rt_wopts. cbn [wo_suppress_leaf_taxon_labels
    wo_suppress_leaf_node_labels wo_suppress_internal_taxon_labels wo_suppress_internal_node_labels
    wo_taxon_token wo_preserve_spaces wo_unquoted_underscores].
  destruct (is_nil ks) eqn:Ek.
  - (* leaf: the node label is suppressed *)
    assert (P2 : match lb with Some l => if is_nil l then [] else [] | None => [] end = ([] : list str)).
    { destruct lb as [l|]; [destruct (is_nil l)|]; reflexivity. }
    replace (match lb with Some l => if is_nil l then [] else if true then [] else [l] | None => [] end)
      with ([] : list str) by (destruct lb as [l|]; [destruct (is_nil l)|]; reflexivity).
    destruct tx as [l|]; [|reflexivity].
    simpl. rewrite app_nil_r. rewrite (label_ok_nonempty l Hl). reflexivity.
  - destruct (rt_it o).
    + destruct lb; [discriminate|]. destruct tx as [l|]; [|reflexivity].
      simpl. rewrite app_nil_r. rewrite (label_ok_nonempty l Hl). reflexivity.
    + destruct tx; [discriminate|]. destruct lb as [l|]; [|reflexivity].
      simpl. rewrite (label_ok_nonempty l Hl). simpl. rewrite app_nil_r.
      rewrite (label_ok_nonempty l Hl). reflexivity.
Qed.

Lemma tag_token l r : label_ok o l = true -> cap_start r = true ->
  next_token cfg (escape_token newick_writer_protect (rt_ps o) (negb (rt_uu o)) l ++ r)
  = TTok l (tag_q l) [] r.
Proof.
  intros Hl Hr. unfold label_ok in Hl. rewrite !andb_true_iff in Hl. destruct Hl as [[Hg _] Hc].
  apply escape_tokenize_roundtrip_l; assumption.
Qed.

Lemma colon_cap : zmem COLON tok_captured_delimiters = true.
Proof. apply struct_cap. simpl. tauto. Qed.
Lemma comma_cap : zmem COMMA tok_captured_delimiters = true.
Proof. apply struct_cap. simpl. tauto. Qed.
Lemma lparen_cap : zmem LPAREN tok_captured_delimiters = true.
Proof. apply struct_cap. simpl. tauto. Qed.
Lemma rparen_cap : zmem RPAREN tok_captured_delimiters = true.
Proof. apply struct_cap. simpl. tauto. Qed.
Lemma semi_cap : zmem SEMI tok_captured_delimiters = true.
Proof. apply struct_cap. simpl. tauto. Qed.

Lemma lex_body tx lb ln ks :
  (match tag_of L o (Nd tx lb ln ks) with Some l => label_ok o l | None => true end) = true ->
  (if is_nil ks then true else if rt_it o then is_none lb else is_none tx) = true ->
  Lexes (write_node_body L render_len wo (Nd tx lb ln ks)) (body_toks (Nd tx lb ln ks)).
Proof.
  intros Hl Hs. unfold write_node_body, body_toks, tag_toks. rewrite (render_tag_wf tx lb ln ks Hl Hs).
  cbn [n_len]. change (wo_suppress_edge_lengths wo) with false.
  assert (LL : Lexes (match ln with Some x => COLON :: render_len x | None => [] end)
                     (match ln with Some x => [T [COLON] false; T (render_len x) false] | None => [] end)).
  { destruct ln as [x|]; [|apply Lexes_nil].
    apply Lexes_cons_cap; [apply colon_cap|].
    apply Lexes_word_end. intros r Hr. apply numeral_token. exact Hr. }
  destruct (tag_of L o (Nd tx lb ln ks)) as [l|].
  - apply (Lexes_word _ l (tag_q l)); [intros r Hr; apply tag_token; assumption | | exact LL].
    destruct ln; [simpl; apply colon_cap | reflexivity].
  - exact LL.
Qed.

Lemma wf_unfold tx lb ln ks : wf_tree L o (Nd tx lb ln ks) = true ->
  (match tag_of L o (Nd tx lb ln ks) with Some l => label_ok o l | None => true end) = true /\
  (if is_nil ks then negb (is_none tx && is_none ln) else if rt_it o then is_none lb else is_none tx) = true /\
  forallb (wf_tree L o) ks = true.
Proof. cbn [wf_tree]. rewrite !andb_true_iff. tauto. Qed.

Lemma wf_shape tx lb ln ks : wf_tree L o (Nd tx lb ln ks) = true ->
  (if is_nil ks then true else if rt_it o then is_none lb else is_none tx) = true.
Proof. intro H. apply wf_unfold in H. destruct H as [_ [H _]]. destruct (is_nil ks); [reflexivity | exact H]. Qed.

Lemma write_node_false_head t : exists s, write_node L render_len wo false t = COMMA :: s.
Proof. destruct t as [tx lb ln [|k ks]]; cbn [write_node]; eexists; reflexivity. Qed.

Lemma cap_start_kids ks s : cap_start s = true ->
  cap_start (flat_map (write_node L render_len wo false) ks ++ s) = true.
Proof.
  intro Hs. destruct ks as [|k ks]; [exact Hs|]. cbn [flat_map].
  destruct (write_node_false_head k) as [x E]. rewrite E. simpl. apply comma_cap.
Qed.

Lemma lex_kids B BT : Lexes B BT -> forall ks,
  Forall (fun k => wf_tree L o k = true -> forall first, Lexes (write_node L render_len wo first k) (wtoks first k)) ks ->
  forallb (wf_tree L o) ks = true ->
  Lexes (flat_map (write_node L render_len wo false) ks ++ RPAREN :: B)
        (flat_map (wtoks false) ks ++ T [RPAREN] false :: BT).
Proof.
  intros LB ks. induction ks as [|k2 ks IHl]; intros IHks Hks.
  - simpl. apply Lexes_cons_cap; [apply rparen_cap | exact LB].
  - cbn [flat_map]. rewrite <- !app_assoc.
    inversion IHks as [|? ? IH2 IHr]; subst. simpl in Hks. apply andb_true_iff in Hks. destruct Hks as [H2 Hr].
    apply Lexes_app; [apply IH2; exact H2 | apply IHl; assumption |].
    apply cap_start_kids. simpl. apply rparen_cap.
Qed.

Lemma lex_node : forall t, wf_tree L o t = true -> forall first,
  Lexes (write_node L render_len wo first t) (wtoks first t).
Proof.
  induction t as [tx lb ln ks IH] using ntree_ind'. intros Hwf first.
  pose proof (wf_unfold _ _ _ _ Hwf) as [Hl [_ Hk]]. pose proof (wf_shape _ _ _ _ Hwf) as Hs.
  pose proof (lex_body tx lb ln ks Hl Hs) as LB.
  destruct ks as [|k ks].
  - cbn [write_node wtoks]. destruct first; [exact LB|].
    apply (Lexes_cons_cap COMMA); [apply comma_cap | exact LB].
  - cbn [write_node wtoks].
    inversion IH as [|? ? IHk IHks]; subst. simpl in Hk. apply andb_true_iff in Hk. destruct Hk as [Hk Hks].
    assert (LK : Lexes (flat_map (write_node L render_len wo false) ks ++ RPAREN :: write_node_body L render_len wo (Nd tx lb ln (k :: ks)))
                       (flat_map (wtoks false) ks ++ T [RPAREN] false :: body_toks (Nd tx lb ln (k :: ks)))).
    { apply lex_kids; assumption. }
    assert (LA : Lexes (write_node L render_len wo true k ++ flat_map (write_node L render_len wo false) ks ++
                          RPAREN :: write_node_body L render_len wo (Nd tx lb ln (k :: ks)))
                       (wtoks true k ++ flat_map (wtoks false) ks ++ T [RPAREN] false :: body_toks (Nd tx lb ln (k :: ks)))).
    { apply Lexes_app; [apply IHk; exact Hk | exact LK |]. apply cap_start_kids. simpl. apply rparen_cap. }
    destruct first.
    + apply (Lexes_cons_cap LPAREN); [apply lparen_cap | exact LA].
    + apply (Lexes_cons_cap COMMA); [apply comma_cap|]. apply (Lexes_cons_cap LPAREN); [apply lparen_cap | exact LA].
Qed.

(* ---- the whole statement: rooting token, node, ";" and the "\n" of _write_tree_list ---- *)

Definition add_comments (cs : list str) (toks : list token) : list token :=
  match toks with
  | t :: r => mkTok (t_text t) (t_quoted t) (cs ++ t_comments t) (t_eof t) :: r
  | [] => []
  end.

Definition wrap_comments (cs : list str) (x : tok_result) : tok_result :=
  match x with
  | TEof cs' => TEof (cs ++ cs')
  | TTok t q cs' rest => TTok t q (cs ++ cs') rest
  | y => y
  end.

Lemma next_token_skip c r : zmem c tok_uncaptured_delimiters = true ->
  next_token cfg (c :: r) = next_token cfg r.
Proof.
  intro Hc. unfold next_token.
  transitivity (next_tok cfg (S (length (c :: r))) r).
  - cbn [next_tok skip_ws]. change (tc_uncaptured cfg) with tok_uncaptured_delimiters. rewrite Hc. reflexivity.
  - apply next_tok_irrel; simpl; lia.
Qed.

(* a rooting comment token in front of a statement *)
Lemma comment_prefix (tk : str) (rc : str) c0 tk' :
  tk = c0 :: tk' ->
  zmem c0 tok_uncaptured_delimiters = false -> zmem c0 tok_captured_delimiters = false ->
  zmem c0 tok_quote_chars = false ->
  (forall s, unquoted_loop cfg (S (length (tk ++ s))) (tk ++ s) = Some ([], [rc], s)) ->
  forall s, next_token cfg (tk ++ s) = wrap_comments [rc] (next_token cfg s).
Proof.
  intros E Hu Hc Hq Hunq s. unfold next_token at 1. cbn [next_tok].
  assert (Hs : skip_ws cfg (tk ++ s) = c0 :: (tk' ++ s)).
  { rewrite E. simpl app. cbn [skip_ws]. change (tc_uncaptured cfg) with tok_uncaptured_delimiters.
    rewrite Hu. reflexivity. }
  rewrite Hs. change (tc_captured cfg) with tok_captured_delimiters.
  change (tc_quotes cfg) with tok_quote_chars. rewrite Hc, Hq.
  replace (c0 :: tk' ++ s) with (tk ++ s) by (rewrite E; reflexivity).
  rewrite Hunq. destruct s as [|x s].
  - reflexivity.
  - unfold next_token.
    rewrite (next_tok_irrel cfg (length (tk ++ x :: s)) (S (length (x :: s))) (x :: s)).
    + destruct (next_tok cfg (S (length (x :: s))) (x :: s)); reflexivity.
    + rewrite E. rewrite app_length. simpl. lia.
    + lia.
Qed.

Lemma rooted_prefix s :
  next_token cfg (writer_rooting_rooted ++ s) = wrap_comments [[38; 82]] (next_token cfg s).
Proof.
  apply (comment_prefix writer_rooting_rooted [38; 82] 91 [38; 82; 93; 32]);
    vm_compute; reflexivity.
Qed.

Lemma unrooted_prefix s :
  next_token cfg (writer_rooting_unrooted ++ s) = wrap_comments [[38; 85]] (next_token cfg s).
Proof.
  apply (comment_prefix writer_rooting_unrooted [38; 85] 91 [38; 85; 93; 32]);
    vm_compute; reflexivity.
Qed.

(* comments carried by the first token of the statement *)
Definition rooting_comments (r : option bool) : list str :=
  if rt_sr o then []
  else match r with Some true => [[38; 82]] | Some false => [[38; 85]] | None => [] end.

Lemma tokenize_add_comments cs s :
  (forall x, next_token cfg (cs ++ s) = wrap_comments x (next_token cfg s) -> True) -> True.
Proof. auto. Qed.

Lemma wtoks_nonempty_head t first : wf_tree L o t = true ->
  exists tk rest, wtoks first t = T (t_text tk) (t_quoted tk) :: rest.
Proof.
  intro Hwf. destruct t as [tx lb ln ks]. pose proof (wf_unfold _ _ _ _ Hwf) as [_ [Hb _]].
  destruct ks as [|k ks].
  - cbn [wtoks]. destruct first.
    + simpl app. unfold body_toks, tag_toks, tag_of. cbn [is_nil n_len].
      simpl in Hb. destruct tx as [l|].
      * eexists (T l _), _. reflexivity.
      * destruct ln as [x|]; [|discriminate]. eexists (T [COLON] false), _. reflexivity.
    + eexists (T [COMMA] false), _. reflexivity.
  - cbn [wtoks]. destruct first; [eexists (T [LPAREN] false), _ | eexists (T [COMMA] false), _]; reflexivity.
Qed.

(* the single-tree document written by _write_tree_list *)
Theorem tokenize_write_tree : forall (r : option bool) (t : ntree), wf_tree L o t = true ->
  tokenize cfg (write_tree_list L render_len wo [(r, t)])
  = (add_comments (rooting_comments r) (wtoks true t ++ [T [SEMI] false]), EndEof []).
Proof.
  intros r t Hwf. unfold write_tree_list. cbn [flat_map fst snd]. rewrite app_nil_r.
  unfold write_tree.
  assert (TAIL : tokenize cfg [SEMI; NEWLINE] = ([T [SEMI] false], EndEof [])).
  { unfold cfg. destruct (rt_pu o); vm_compute; reflexivity. }
  assert (BODY : tokenize cfg (write_node L render_len wo true t ++ [SEMI; NEWLINE])
                 = (wtoks true t ++ [T [SEMI] false], EndEof [])).
  { rewrite (lex_node t Hwf true [SEMI; NEWLINE]); [| simpl; apply semi_cap | discriminate].
    rewrite TAIL. reflexivity. }
  replace ((rooting_token wo r ++ write_node L render_len wo true t ++ [SEMI]) ++ [NEWLINE])
    with (rooting_token wo r ++ (write_node L render_len wo true t ++ [SEMI; NEWLINE]))
    by (rewrite <- !app_assoc; reflexivity).
  set (body := write_node L render_len wo true t ++ [SEMI; NEWLINE]) in *.
  destruct (wtoks_nonempty_head t true Hwf) as [tk [rest Ew]].
  assert (PREF : forall tkn rc, (forall s, next_token cfg (tkn ++ s) = wrap_comments [rc] (next_token cfg s)) ->
            tokenize cfg (tkn ++ body) = (add_comments [rc] (wtoks true t ++ [T [SEMI] false]), EndEof [])).
  { intros tkn rc Hp. rewrite tokenize_unfold. rewrite Hp.
    rewrite tokenize_unfold in BODY. rewrite Ew in *. simpl app in *.
    destruct (next_token cfg body) as [cs|e| |tx q cs rst]; try discriminate.
    cbn [wrap_comments]. destruct (tokenize cfg rst) as [l e].
    injection BODY as A1 A2 A3 A4 El Ee.
    rewrite A1, A2, A3, A4, El, Ee.
    unfold add_comments, T. cbn [t_text t_quoted t_comments t_eof]. reflexivity. }
  unfold rooting_token, rooting_comments. change (wo_suppress_rooting wo) with (rt_sr o).
  destruct (rt_sr o).
  - simpl app. rewrite BODY. rewrite Ew. reflexivity.
  - destruct r as [[|]|].
    + apply PREF. apply rooted_prefix.
    + apply PREF. apply unrooted_prefix.
    + simpl app. rewrite BODY. rewrite Ew. reflexivity.
Qed.

End Lex.
