(* C01, object-level translator tie: the functions generated from the source's object statements
   (Gen/BipartitionObj.v) equal the hand model of Model/C01ObjModel.v. *)
From Coq Require Import ZArith List Bool Lia.
From DV Require Import Model.PyPrims Model.Tree Gen.BitFns Model.C01Model Model.C01GenPrims Model.C01ObjModel
  Model.C01ObjPrims Gen.BipartitionObj Proofs.C01Bits Proofs.C01Enc Proofs.C01Flags Proofs.C01Obj.
Import ListNotations.
Open Scope Z_scope.

Lemma prim_bip_new_first : prim_bip_new (Some (Some false)) (Some (Some true)) = init_obj.
Proof. reflexivity. Qed.

Lemma oh_getter_bound nid h c : oh_slot h nid = Some c -> oh_getter nid h = (c, h).
Proof. intro E. unfold oh_getter. rewrite E. reflexivity. Qed.

(* the object statements of the loop body: a NEW object is bound to the edge and written twice *)
Lemma ogen_first_pass_edge_eq r h e :
  ogen_first_pass_edge r (fst (snd e)) (fst e) h = first_pass_edge r h e.
Proof.
  unfold ogen_first_pass_edge, first_pass_edge. rewrite prim_bip_new_first.
  unfold oh_alloc. cbv zeta.
  set (c := oh_next h).
  set (h2 := oh_bind (fst e) c (mkOH ((c, init_obj) :: oh_store h) (c + 1) (oh_emap h))).
  assert (S2 : oh_slot h2 (fst e) = Some c).
  { unfold h2, oh_bind, oh_slot. cbn [oh_emap em_get]. rewrite Z.eqb_refl. reflexivity. }
  rewrite (oh_getter_bound _ _ _ S2).
  rewrite (oh_getter_bound (fst e) (oh_write c (set_b_leafset (Some (fst (snd e)))) h2) c)
    by (rewrite oh_write_slot; exact S2).
  reflexivity.
Qed.

Lemma ogen_first_pass_fold_eq r : forall entries h,
  fold_left (fun h e => ogen_first_pass_edge r (fst (snd e)) (fst e) h) entries h
  = fold_left (first_pass_edge r) entries h.
Proof.
  induction entries as [|e q IH]; intro h; [reflexivity |]. cbn [fold_left].
  rewrite ogen_first_pass_edge_eq. apply IH.
Qed.

(* the two helpers: the object bound to the edge is compiled IN PLACE and that same object is returned *)
Lemma ogen_compile_edge_eq compile g nid h c b :
  oh_slot h nid = Some c -> st_get (oh_store h) c = Some b -> compile b = Ok (g b) ->
  ogen_compile_mutable_bipartition_for_edge compile nid h = Ok (oh_write c g h, c) /\
  ogen_compile_immutable_bipartition_for_edge compile nid h = Ok (oh_write c g h, c).
Proof.
  intros S G C.
  assert (U : oh_update c compile h = Ok (oh_write c g h)).
  { unfold oh_update, oh_write. rewrite G, C. reflexivity. }
  assert (S' : oh_slot (oh_write c g h) nid = Some c) by (rewrite oh_write_slot; exact S).
  unfold ogen_compile_mutable_bipartition_for_edge, ogen_compile_immutable_bipartition_for_edge.
  rewrite (oh_getter_bound _ _ _ S), U. cbn [bind]. rewrite (oh_getter_bound _ _ _ S'). split; reflexivity.
Qed.

(* the tail: the map is consumed to the end on both paths; what is stored *)
Lemma ogen_tail_eq ss run_map stored h h2 l :
  run_map h = Ok (h2, l) -> ogen_tail ss run_map stored h = Ok (h2, if ss then None else Some l).
Proof. intro E. unfold ogen_tail. destruct ss; rewrite E; reflexivity. Qed.

Lemma first_pass_slots r : forall entries h,
  NoDup (map fst entries) ->
  forall i e, nth_error entries i = Some e ->
  oh_slot (fold_left (first_pass_edge r) entries h) (fst e) = Some (oh_next h + Z.of_nat i).
Proof.
  induction entries as [|e0 q IH]; intros h ND i e E; [destruct i; discriminate |].
  cbn [fold_left]. cbn [map] in ND. inversion ND as [|? ? NI ND']; subst.
  destruct (first_pass_edge_facts r h e0) as (N0 & M0 & _ & _).
  destruct i as [|i].
  - cbn in E. injection E as <-.
    destruct (first_pass_fold r q (first_pass_edge r h e0)) as (_ & _ & _ & U & _).
    rewrite (U _ NI). unfold oh_slot. rewrite M0, em_get_cons, Z.eqb_refl. f_equal. cbn. lia.
  - cbn [nth_error] in E. rewrite (IH (first_pass_edge r h e0) ND' i e E), N0. f_equal. lia.
Qed.

Lemma map_edges_is_second_pass (sel : bool) compile mut tm : forall entries h acc0,
  NoDup (slot_cells h entries) ->
  (forall e, In e entries -> exists c b, oh_slot h (fst e) = Some c /\ st_get (oh_store h) c = Some b /\
                                         compile b = Ok (compiled_obj mut tm b)) ->
  exists h2 cells,
    fold_left (second_pass_edge mut tm) entries (h, acc0) = (h2, acc0 ++ cells) /\
    oh_map_edges (if sel then ogen_compile_mutable_bipartition_for_edge compile
                  else ogen_compile_immutable_bipartition_for_edge compile) (map fst entries) h = Ok (h2, cells).
Proof.
  induction entries as [|e q IH]; intros h acc0 ND A.
  - exists h, []. rewrite app_nil_r. split; reflexivity.
  - destruct (A e (or_introl eq_refl)) as (c & b & S & G & C).
    unfold slot_cells in ND. cbn [flat_map] in ND. rewrite S in ND. cbn [app] in ND. fold (slot_cells h q) in ND.
    inversion ND as [|? ? NI ND']; subst.
    set (h' := oh_write c (compiled_obj mut tm) h).
    assert (SC : slot_cells h' q = slot_cells h q).
    { unfold slot_cells. apply flat_map_ext. intro a. unfold h'. rewrite oh_write_slot. reflexivity. }
    destruct (IH h' (acc0 ++ [c])) as (h2 & cells & F & M).
    + rewrite SC. exact ND'.
    + intros e' He'. destruct (A e' (or_intror He')) as (c' & b' & S' & G' & C').
      exists c', b'. unfold h'. rewrite oh_write_slot. split; [exact S' |]. split; [| exact C'].
      rewrite oh_write_other; [exact G' |]. intros ->. apply NI. unfold slot_cells. apply in_flat_map.
      exists e'. split; [exact He' |]. rewrite S'. left. reflexivity.
    + exists h2, (c :: cells). split.
      * cbn [fold_left].
        replace (second_pass_edge mut tm (h, acc0) e) with (h', acc0 ++ [c])
          by (unfold second_pass_edge; cbn [fst snd]; rewrite S; reflexivity).
        rewrite F, <- app_assoc. reflexivity.
      * cbn [map oh_map_edges].
        destruct (ogen_compile_edge_eq compile (compiled_obj mut tm) (fst e) h c b S G C) as (E1 & E2).
        destruct sel; [rewrite E1 | rewrite E2]; fold h'; rewrite M; reflexivity.
Qed.

Lemma edge_cells_slot_cells h (entries : list (Z * (Z * Z))) : edge_cells h (map fst entries) = slot_cells h entries.
Proof.
  unfold edge_cells, slot_cells. induction entries as [|e q IH]; [reflexivity |]. cbn [map flat_map]. rewrite IH. reflexivity.
Qed.

(* encode_bipartitions at the object level: the generated function returns the hand model's state, for the
   compile functions that act on the first-pass objects as the model's compiled_obj does (Props/C01Gen.v
   instantiates them with the generated ones) *)
Lemma ogen_encode_bipartitions_eq su cb ss mut acc cm ci s :
  let R := encode_f su cb acc (ot_rooted s) (ot_tree s) in
  NoDup (map fst (r_edges R)) ->
  (forall tm r ls, cm (Some tm) (first_obj r ls) = Ok (compiled_obj true tm (first_obj r ls))) ->
  (forall tm r ls, ci (Some tm) (first_obj r ls) = Ok (compiled_obj false tm (first_obj r ls))) ->
  ogen_encode_bipartitions su cb ss mut acc cm ci s = Ok (obj_encode su cb ss mut acc s).
Proof.
  cbv zeta. intros ND CM CI. unfold ogen_encode_bipartitions, obj_encode. cbv zeta.
  set (R := encode_f su cb acc (ot_rooted s) (ot_tree s)) in *.
  set (tm := fst (snd (last (r_edges R) (0, (0, 0))))).
  rewrite ogen_first_pass_fold_eq.
  set (h1 := fold_left (first_pass_edge (r_rooted R)) (r_edges R) (ot_heap s)).
  destruct (first_pass_closed (r_rooted R) (r_edges R) (ot_heap s) ND) as (SC & ST). fold h1 in SC, ST.
  assert (ND2 : NoDup (slot_cells h1 (r_edges R))) by (rewrite SC; apply cells_from_NoDup).
  assert (A : forall (mt : bool) compile,
              (forall r ls, compile (first_obj r ls) = Ok (compiled_obj mt tm (first_obj r ls))) ->
              forall e, In e (r_edges R) -> exists c b, oh_slot h1 (fst e) = Some c /\ st_get (oh_store h1) c = Some b /\
                                                       compile b = Ok (compiled_obj mt tm b)).
  { intros mt compile HC e He. apply In_nth_error in He. destruct He as (i & Ei).
    exists (oh_next (ot_heap s) + Z.of_nat i), (first_obj (r_rooted R) (fst (snd e))).
    split; [apply (first_pass_slots (r_rooted R) (r_edges R) (ot_heap s) ND i e Ei) |].
    split; [apply (ST i e Ei) | apply HC]. }
  assert (FIN : forall (mt : bool) h2 cells,
            fold_left (second_pass_edge mt tm) (r_edges R) (h1, []) = (h2, cells) ->
            slot_cells h2 (r_edges R) = cells).
  { intros mt h2 cells F.
    destruct (second_pass_fold mt tm (r_edges R) h1 []) as (_ & M2 & C2 & _). rewrite F in M2, C2. cbn [fst snd app] in M2, C2.
    rewrite C2. unfold slot_cells. apply flat_map_ext. intro a. unfold oh_slot. rewrite M2. reflexivity. }
  destruct mut.
  - destruct (map_edges_is_second_pass true (cm (Some tm)) true tm (r_edges R) h1 [] ND2 (A true _ (CM tm))) as (h2 & cells & F & M).
    cbn [app] in F. rewrite (ogen_tail_eq ss _ (ot_stored s) h1 h2 cells M). cbn [bind].
    rewrite F. cbn [fst snd]. rewrite edge_cells_slot_cells, (FIN true h2 cells F). reflexivity.
  - destruct (map_edges_is_second_pass false (ci (Some tm)) false tm (r_edges R) h1 [] ND2 (A false _ (CI tm))) as (h2 & cells & F & M).
    cbn [app] in F. rewrite (ogen_tail_eq ss _ (ot_stored s) h1 h2 cells M). cbn [bind].
    rewrite F. cbn [fst snd]. rewrite edge_cells_slot_cells, (FIN false h2 cells F). reflexivity.
Qed.
