(* C03 proofs, second wave: to_outgroup_position WITH unifurcation suppression outside the two
   failure classes found by the harness, and randomly_reorient. *)
From Coq Require Import ZArith List Bool Lia Permutation.
From DV Require Import Model.PyPrims Model.Tree Model.Heap Model.HeapOps Model.C03Spec
  Proofs.C03Base Proofs.C03Abs Proofs.C03Local Proofs.C03Prims Proofs.C03Collapse Proofs.C03Suppress
  Proofs.C03Reseed Proofs.C03Order Proofs.C03Ops Proofs.C03Ops2 Proofs.C03PruneLoops Proofs.C03Hist.
Import ListNotations.
Open Scope Z_scope.

Lemma spec_su_node i x l e ks :
  length ks <> 1%nat -> spec_su (T i x l e ks) = T i x l e (map spec_su ks).
Proof.
  intro L. rewrite spec_su_eq. destruct (map spec_su ks) as [|a [|b r]] eqn:E; try reflexivity.
  exfalso. apply L. rewrite <- (map_length spec_su), E. reflexivity.
Qed.

Definition not_unary (s : tree) : Prop := length (t_kids s) <> 1%nat.

Lemma spec_su_id s : not_unary s -> t_id (spec_su s) = t_id s.
Proof. destruct s as [i x l e ks]. intro L. simpl in L. rewrite spec_su_node by exact L. reflexivity. Qed.

(* to_outgroup_position(og, suppress_unifurcations=True) when og itself is not a unifurcation and
   its parent p does not end up as a unifurcation root (p has another child or is not the seed) *)
Lemma to_outgroup_su_wf ub h c p x l e lft s rgt :
  WFt h (plug c (T p x l e (lft ++ s :: rgt))) ->
  not_unary s -> (c <> CTop \/ lft ++ rgt <> []) ->
  exists h', to_outgroup_position (t_id s) ub true h = HOk h' /\
    WFt h' (T p x l (root_len c e)
              (spec_su s :: map spec_su lft ++ map spec_su (rgt ++ olist (up c e)))) /\
    next h' = next h /\ rooted_ok h h'.
Proof.
  intros W Ns Hc. unfold to_outgroup_position.
  pose proof W as [W0 _]. destruct (wr_focus _ _ _ _ _ _ _ W0) as [_ [_ [Fk _]]].
  apply Forall_app in Fk. destruct Fk as [_ Fk]. inversion Fk as [|? ? Rs _]; subst.
  rewrite (rep_parent h (Some p) s Rs).
  destruct (reseed_at_wf ub false true h c (T p x l e (lft ++ s :: rgt)) W) as [h1 [E1 [W1 [N1 R1]]]].
  { left. simpl. destruct lft; discriminate. }
  simpl t_id in E1. rewrite E1. simpl hbind.
  unfold spec_encode in W1. simpl andb in W1. cbv iota zeta in W1. simpl reroot in W1.
  rewrite spec_su_node in W1.
  2:{ intro L. repeat rewrite app_length in L. simpl in L.
      destruct c as [|c' i y m f a b]; [|simpl in L; lia].
      destruct Hc as [Hc|Hc]; [congruence|]. destruct lft, rgt; simpl in *; try congruence; lia. }
  rewrite <- app_assoc in W1. simpl app in W1. rewrite map_app in W1. simpl map in W1.
  assert (Eid : t_id (spec_su s) = t_id s) by (apply spec_su_id, Ns).
  destruct W1 as [W1 S1]. rewrite <- Eid.
  destruct (remove_child_plain_wf h1 CTop p x l (root_len c e) (map spec_su lft) (spec_su s)
              (map spec_su (rgt ++ olist (up c e))) W1) as [h2 [E2 [W2 [R2 [_ [_ [P1 [P2 P3]]]]]]]].
  rewrite E2. simpl hbind. simpl plug in W2.
  destruct (detached_facts h1 CTop p x l (root_len c e) (map spec_su lft) (spec_su s)
              (map spec_su (rgt ++ olist (up c e))) W1) as [Nd [Dd Bd]].
  pose proof (insert_child_attach h2 CTop p x l (root_len c e)
                (map spec_su lft ++ map spec_su (rgt ++ olist (up c e))) 0 None (spec_su s) W2 R2 Nd) as W3.
  simpl plug in W3. simpl firstn in W3. simpl skipn in W3. simpl app in W3.
  destruct (insert_child_frame p 0 (t_id (spec_su s)) h2) as [_ [_ [Q1 [Q2 Q3]]]].
  eexists. split; [reflexivity|]. split; [split|split].
  - apply W3; [exact Dd|]. intros j Hj. rewrite P1. apply Bd, Hj.
  - simpl. rewrite Q3, P3. exact S1.
  - rewrite Q1, P1. exact N1.
  - unfold rooted_ok in *. rewrite Q2, P2. exact R1.
Qed.

(* the two failure classes, machine checked on the model (they replay on the library: known
   findings to_outgroup-parent-is-unifurcation-seed / to_outgroup-outgroup-is-unifurcation) *)
Definition og_leaf (i : Z) : tree := T i (Some i) None (Some 1024) [].

Theorem to_outgroup_su_refuted_seed :
  exists h og h', WF h /\ live h og /\ to_outgroup_position og false true h = HOk h' /\ ~ WF h'.
Proof.
  exists (of_tree (T 0 None None None [T 1 None None (Some 1024) [og_leaf 2; og_leaf 3]]) None), 1.
  eexists. split; [apply of_tree_WF; repeat constructor; simpl; intuition discriminate|].
  split; [eexists; split; [vm_compute; reflexivity|vm_compute; tauto]|].
  split; [vm_compute; reflexivity|].
  intro W. destruct (wf_meaning_l _ W) as [t [_ [_ [_ [P _]]]]]. vm_compute in P. discriminate.
Qed.

Theorem to_outgroup_su_refuted_unary :
  exists h og e h', WF h /\ live h og /\ to_outgroup_position og false true h = HErr e h' /\ e = ValueErr.
Proof.
  exists (of_tree (T 0 None None None [og_leaf 1; T 2 None None (Some 1024) [T 3 None None (Some 1024) [og_leaf 4; og_leaf 5]]]) None), 2.
  eexists. eexists. split; [apply of_tree_WF; repeat constructor; simpl; intuition discriminate|].
  split; [eexists; split; [vm_compute; reflexivity|vm_compute; tauto]|].
  split; [vm_compute; reflexivity|reflexivity].
Qed.
