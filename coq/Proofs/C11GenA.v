(* C11: the translated methods (coq/Gen/Containers.v, regenerated from the Python source on every run)
   equal the hand-written model - part A: Tree methods, TreeList import / append / insert / extend *)
From Coq Require Import String.
From Coq Require Import List Bool Arith ZArith Lia.
From DV Require Import Model.PyPrims Model.C11Model Model.C11Prims Gen.Containers Proofs.C11Base.
Import ListNotations.
Open Scope nat_scope.

(* ---- the namespace-level functions of the model do not look at the object stores ---- *)
Definition with_objs (st : state) (T : list tree) (L : list tlist) (M : list matrix) (D : list dataset) : state :=
  mkSt (s_lab st) (s_mem st) (s_cs st) (s_nns st) T L M D.

Lemma with_objs_id : forall st, with_objs st (s_trees st) (s_lists st) (s_mats st) (s_dss st) = st.
Proof. intros [a b c d e f g h]. reflexivity. Qed.

Lemma set_tree_objs : forall st i t, set_tree st i t = with_objs st (upd (s_trees st) i t) (s_lists st) (s_mats st) (s_dss st).
Proof. reflexivity. Qed.

Section WithLower.
Variable lower : lbl -> lbl.

Lemma add_member_objs : forall st T L M D n x,
  add_member (with_objs st T L M D) n x = with_objs (add_member st n x) T L M D.
Proof.
  intros. unfold add_member. change (members (with_objs st T L M D) n) with (members st n).
  destruct (memb x (members st n)); reflexivity.
Qed.

Lemma new_taxon_objs : forall st T L M D n l,
  new_taxon (with_objs st T L M D) n l = (with_objs (fst (new_taxon st n l)) T L M D, snd (new_taxon st n l)).
Proof. reflexivity. Qed.

Lemma require_taxon_objs : forall st T L M D n l cs,
  require_taxon lower (with_objs st T L M D) n l cs
  = (with_objs (fst (require_taxon lower st n l cs)) T L M D, snd (require_taxon lower st n l cs)).
Proof.
  intros. unfold require_taxon.
  change (first_match lower (with_objs st T L M D) n cs l) with (first_match lower st n cs l).
  destruct (first_match lower st n cs l); [reflexivity | apply new_taxon_objs].
Qed.

Lemma recon_refs_objs : forall n u refs st T L M D memo,
  recon_refs lower (with_objs st T L M D) n u refs memo
  = let '(s1, r, m) := recon_refs lower st n u refs memo in (with_objs s1 T L M D, r, m).
Proof.
  intros n u refs. induction refs as [|x r IH]; intros st T L M D memo; cbn [recon_refs]; [reflexivity|].
  change (members (with_objs st T L M D) n) with (members st n).
  change (label (with_objs st T L M D) x) with (label st x).
  change (ns_cs (with_objs st T L M D) n) with (ns_cs st n).
  destruct (u || negb (memb x (members st n))).
  - destruct (alookup x memo) as [t|].
    + rewrite add_member_objs, IH. destruct (recon_refs lower (add_member st n t) n u r memo) as [[s2 r2] m2]. reflexivity.
    + destruct u.
      * rewrite require_taxon_objs. destruct (require_taxon lower st n (label st x) (ns_cs st n)) as [s1 t]. cbn [fst snd].
        rewrite IH. destruct (recon_refs lower s1 n true r ((x, t) :: memo)) as [[s2 r2] m2]. reflexivity.
      * rewrite new_taxon_objs. destruct (new_taxon st n (label st x)) as [s1 t]. cbn [fst snd].
        rewrite IH. destruct (recon_refs lower s1 n false r ((x, t) :: memo)) as [[s2 r2] m2]. reflexivity.
  - rewrite IH. destruct (recon_refs lower st n u r memo) as [[s2 r2] m2]. reflexivity.
Qed.

Lemma recon_refs_trees : forall n u refs st memo,
  s_trees (fst (fst (recon_refs lower st n u refs memo))) = s_trees st.
Proof.
  intros n u refs st memo. pose proof (recon_refs_objs n u refs st (s_trees st) (s_lists st) (s_mats st) (s_dss st) memo) as H.
  rewrite with_objs_id in H. destruct (recon_refs lower st n u refs memo) as [[s1 r] m]. cbn [fst].
  injection H as H1. rewrite H1. reflexivity.
Qed.

(* ---- Tree.reconstruct_taxon_namespace ---- *)
(* the loop body exactly as generated *)
Definition recon_body (tr : oid) (u : bool) :=
  fun (stb : state) (x : oid) (m : list (oid * oid)) =>
    if andb (negb false) (orb u (negb (memb x (members stb (t_ns (gettree stb tr)))))) then
      let v_t := memo_get m x in
      match v_t with
      | None =>
        if u then
          bindR (ns_require_taxon lower stb (t_ns (gettree stb tr)) (label stb x)) (fun s r =>
          let m1 := memo_set m x r in let nt := r in (s, Ok (nt, m1)))
        else
          bindR (ns_new_taxon stb (t_ns (gettree stb tr)) (label stb x)) (fun s r =>
          let m1 := memo_set m x r in let nt := r in (s, Ok (nt, m1)))
      | Some t =>
        let s := ns_add_taxon stb (t_ns (gettree stb tr)) t in let nt := t in (s, Ok (nt, m))
      end
    else (stb, Ok (x, m)).

Lemma for_nodes_recon : forall tr u refs st0 st memo,
  s_trees st = s_trees st0 ->
  for_nodes_go refs (recon_body tr u) st memo
  = let '(s1, r, m) := recon_refs lower st (t_ns (gettree st0 tr)) u refs memo in (s1, Ok m, r).
Proof.
  intros tr u refs. induction refs as [|x r IH]; intros st0 st memo T; cbn [for_nodes_go recon_refs]; [reflexivity|].
  assert (N : t_ns (gettree st tr) = t_ns (gettree st0 tr)) by (unfold gettree; rewrite T; reflexivity).
  unfold recon_body at 1. rewrite N. cbn [negb andb]. set (n := t_ns (gettree st0 tr)) in *.
  destruct (u || negb (memb x (members st n))).
  - unfold memo_get. destruct (alookup x memo) as [t|]; cbv zeta.
    + unfold ns_add_taxon. rewrite (IH st0); [|rewrite <- T; unfold add_member; destruct (memb t (members st n)); reflexivity].
      fold n. destruct (recon_refs lower (add_member st n t) n u r memo) as [[s2 r2] m2]. reflexivity.
    + destruct u.
      * unfold ns_require_taxon, bindR. pose proof (require_taxon_objs st (s_trees st) (s_lists st) (s_mats st) (s_dss st) n (label st x) (ns_cs st n)) as Q.
        rewrite with_objs_id in Q. destruct (require_taxon lower st n (label st x) (ns_cs st n)) as [s1 t]. cbn [fst snd] in Q.
        injection Q as Q. unfold memo_set. rewrite (IH st0); [|rewrite Q; exact T].
        fold n. destruct (recon_refs lower s1 n true r ((x, t) :: memo)) as [[s2 r2] m2]. reflexivity.
      * unfold ns_new_taxon, bindR. destruct (new_taxon st n (label st x)) as [s1 t] eqn:Q.
        assert (T1 : s_trees s1 = s_trees st) by (unfold new_taxon, alloc_taxon in Q; injection Q as Q1 Q2; rewrite <- Q1; reflexivity).
        unfold memo_set. rewrite (IH st0); [|rewrite T1; exact T].
        fold n. destruct (recon_refs lower s1 n false r ((x, t) :: memo)) as [[s2 r2] m2]. reflexivity.
  - rewrite (IH st0 st memo T). fold n. destruct (recon_refs lower st n u r memo) as [[s2 r2] m2]. reflexivity.
Qed.

Theorem gen_Tree_reconstruct : forall st tr u om,
  py_Tree_reconstruct_taxon_namespace lower st tr u om
  = let n := t_ns (gettree st tr) in
    let '(s1, refs', memo') := recon_refs lower st n u (t_refs (gettree st tr)) (kw_default om []) in
    (set_tree s1 tr (mkTree n refs'), Ok memo').
Proof.
  intros st tr u om. unfold py_Tree_reconstruct_taxon_namespace, for_nodes.
  change (match om with Some x_ => x_ | None => [] end) with (kw_default om []).
  fold (recon_body tr u).
  rewrite (for_nodes_recon tr u _ st st _ eq_refl).
  pose proof (recon_refs_trees (t_ns (gettree st tr)) u (t_refs (gettree st tr)) st (kw_default om [])) as T.
  destruct (recon_refs lower st (t_ns (gettree st tr)) u (t_refs (gettree st tr)) (kw_default om [])) as [[s1 r] m].
  cbn [fst] in T. cbn [bindR]. unfold set_tree_refs, gettree. rewrite T. reflexivity.
Qed.


(* ---- Tree.update_taxon_namespace ---- *)
Definition update_body (tr : oid) :=
  fun (stb : state) (x : oid) (_ : unit) =>
    if negb false then let s := ns_add_taxon stb (t_ns (gettree stb tr)) x in (s, Ok (x, tt))
    else (stb, Ok (x, tt)).

Lemma add_member_trees : forall st n x, s_trees (add_member st n x) = s_trees st.
Proof. intros. unfold add_member. destruct (memb x (members st n)); reflexivity. Qed.

Lemma add_members_trees : forall xs st n, s_trees (add_members st n xs) = s_trees st.
Proof.
  induction xs as [|x r IH]; intros st n; [reflexivity|]. unfold add_members in *. cbn [fold_left].
  rewrite IH. apply add_member_trees.
Qed.

Lemma for_nodes_update : forall tr refs st0 st,
  s_trees st = s_trees st0 ->
  for_nodes_go refs (update_body tr) st tt = (add_members st (t_ns (gettree st0 tr)) refs, Ok tt, refs).
Proof.
  intros tr refs. induction refs as [|x r IH]; intros st0 st T; cbn [for_nodes_go]; [reflexivity|].
  assert (N : t_ns (gettree st tr) = t_ns (gettree st0 tr)) by (unfold gettree; rewrite T; reflexivity).
  unfold update_body at 1. rewrite N. cbn [negb]. cbv zeta. unfold ns_add_taxon.
  rewrite (IH st0); [|rewrite add_member_trees; exact T]. reflexivity.
Qed.

Lemma t_ns_set_tree_refs : forall st tr refs, t_ns (gettree (set_tree_refs st tr refs) tr) = t_ns (gettree st tr).
Proof.
  intros. unfold set_tree_refs, gettree. simpl. destruct (nth_error (s_trees st) tr) eqn:E.
  - rewrite (nth_error_some_nth _ _ _ dtree _ (nth_error_upd_same _ _ _ _ _ E)). reflexivity.
  - rewrite !nth_overflow; [reflexivity | apply nth_error_None; exact E | rewrite upd_length; apply nth_error_None; exact E].
Qed.

Theorem gen_Tree_update : forall st tr,
  py_Tree_update_taxon_namespace st tr
  = (update_tree st tr (t_ns (gettree st tr)), Ok (t_ns (gettree st tr))).
Proof.
  intros st tr. unfold py_Tree_update_taxon_namespace, for_nodes. fold (update_body tr).
  rewrite (for_nodes_update tr _ st st eq_refl). cbn [bindR].
  set (s1 := add_members st (t_ns (gettree st tr)) (t_refs (gettree st tr))).
  assert (T : s_trees s1 = s_trees st) by apply add_members_trees.
  rewrite t_ns_set_tree_refs. unfold set_tree_refs, update_tree. fold s1.
  assert (G : gettree s1 tr = gettree st tr) by (unfold gettree; rewrite T; reflexivity).
  rewrite G. reflexivity.
Qed.

(* ---- TaxonNamespaceAssociated.migrate_taxon_namespace on a Tree ---- *)
Lemma upd_upd : forall A (l : list A) i a b, upd (upd l i a) i b = upd l i b.
Proof. intros A l. induction l as [|y r IH]; intros [|i] a b; simpl; try reflexivity. rewrite IH. reflexivity. Qed.

Lemma gettree_set_tree_same : forall st tr t, tr < length (s_trees st) -> gettree (set_tree st tr t) tr = t.
Proof.
  intros. unfold gettree. simpl. apply nth_error_some_nth. destruct (nth_error (s_trees st) tr) eqn:E.
  - eapply nth_error_upd_same. exact E.
  - apply nth_error_None in E. lia.
Qed.

Theorem gen_Tree_migrate : forall st tr n u om,
  tr < length (s_trees st) ->
  py_Tree_migrate_taxon_namespace lower st tr (Some n) u om
  = (fst (migrate_tree lower st tr n u (kw_default om [])), Ok (snd (migrate_tree lower st tr n u (kw_default om [])))).
Proof.
  intros st tr n u om V. unfold py_Tree_migrate_taxon_namespace. cbn [bindR].
  rewrite gen_Tree_reconstruct. unfold set_tree_ns. rewrite gettree_set_tree_same by exact V. cbn [t_ns t_refs].
  rewrite set_tree_objs, recon_refs_objs. unfold migrate_tree.
  pose proof (recon_refs_objs n u (t_refs (gettree st tr)) st (s_trees st) (s_lists st) (s_mats st) (s_dss st) (kw_default om [])) as Q.
  rewrite with_objs_id in Q.
  destruct (recon_refs lower st n u (t_refs (gettree st tr)) (kw_default om [])) as [[s1 r] m].
  injection Q as Q. cbn [bindR fst snd]. f_equal. rewrite Q at 2. unfold set_tree, with_objs. simpl. rewrite upd_upd. reflexivity.
Qed.

(* ---- Tree._clone_from ---- *)
Lemma clone_refs_ext : forall refs st m1 m2,
  (forall k, alookup k m1 = alookup k m2) ->
  fst (clone_refs st refs m1) = fst (clone_refs st refs m2).
Proof.
  induction refs as [|x r IH]; intros st m1 m2 H; cbn [clone_refs]; [reflexivity|].
  rewrite <- (H x). destruct (alookup x m1) as [t|].
  - specialize (IH st m1 m2 H). destruct (clone_refs st r m1) as [[a b] c]. destruct (clone_refs st r m2) as [[a2 b2] c2].
    cbn [fst] in *. injection IH as I1 I2. subst. reflexivity.
  - destruct (alloc_taxon st (label st x)) as [s1 t].
    assert (H' : forall k, alookup k ((x, t) :: m1) = alookup k ((x, t) :: m2)).
    { intro k. rewrite !alookup_cons. destruct (Nat.eqb k x); [reflexivity | apply H]. }
    specialize (IH s1 _ _ H'). destruct (clone_refs s1 r ((x, t) :: m1)) as [[a b] c].
    destruct (clone_refs s1 r ((x, t) :: m2)) as [[a2 b2] c2]. cbn [fst] in *. injection IH as I1 I2. subst. reflexivity.
Qed.

Lemma clone_loop_same : forall (ms : list oid) st m,
  for_each ms (fun (stb : state) (x : oid) (m : dmemo) =>
                 let m1 := dmemo_set_taxon m x x in (stb, Ok m1)) st m
  = (st, Ok (mkDM (dm_ns m) (map (fun x : oid => (x, x)) (rev ms) ++ dm_tax m))).
Proof.
  induction ms as [|x r IH]; intros st m; cbn [for_each].
  - destruct m. reflexivity.
  - cbv zeta. cbn [bindR]. rewrite IH. unfold dmemo_set_taxon. cbn [dm_ns dm_tax rev].
    rewrite map_app. cbn [map]. rewrite <- app_assoc. reflexivity.
Qed.

Lemma clone_loop_other : forall n ms st m,
  for_each ms (fun (stb : state) (x : oid) (m : dmemo) =>
                 bindR (ns_require_taxon lower stb n (label stb x)) (fun s r =>
                 let m1 := dmemo_set_taxon m x r in (s, Ok m1))) st m
  = let '(s1, tm) := clone_memo lower st n ms (dm_tax m) in (s1, Ok (mkDM (dm_ns m) tm)).
Proof.
  intros n ms. induction ms as [|x r IH]; intros st m; cbn [for_each clone_memo].
  - destruct m. reflexivity.
  - unfold ns_require_taxon at 1. destruct (require_taxon lower st n (label st x) (ns_cs st n)) as [s1 t].
    cbn [bindR]. cbv zeta. rewrite IH. reflexivity.
Qed.

Lemma alookup_idmap_rev : forall (ms : list oid) k, alookup k (map (fun x : oid => (x, x)) (rev ms) ++ []) = alookup k (map (fun x : oid => (x, x)) ms).
Proof.
  intros ms k. rewrite app_nil_r.
  assert (H : forall l : list oid, alookup k (map (fun x : oid => (x, x)) l) = if memb k l then Some k else None).
  { induction l as [|y r IH]; [reflexivity|]. cbn [map]. rewrite alookup_cons. unfold memb in *. cbn [existsb].
    destruct (Nat.eqb k y) eqn:E; [apply Nat.eqb_eq in E; subst; reflexivity | exact IH]. }
  rewrite !H. assert (M : memb k (rev ms) = memb k ms).
  { destruct (memb k ms) eqn:E.
    - apply memb_In. apply -> in_rev. apply memb_In. exact E.
    - apply memb_false. intro I. apply in_rev in I. apply memb_In in I. congruence. }
  rewrite M. reflexivity.
Qed.

Theorem gen_Tree_clone_from : forall st tr n,
  py_Tree__clone_from lower st tt tr (Some n)
  = (fst (clone_tree lower st tr n), Ok (snd (clone_tree lower st tr n))).
Proof.
  intros st tr n. unfold py_Tree__clone_from, clone_tree. cbn [kw_pop_ns]. cbv zeta.
  rewrite (Nat.eqb_sym n (t_ns (gettree st tr))).
  destruct (Nat.eqb (t_ns (gettree st tr)) n) eqn:E; cbn [negb].
  - rewrite clone_loop_same. cbn [bindR]. unfold deepcopy_tree. cbn [dm_ns dm_tax dmemo_set_ns dmemo_empty].
    rewrite alookup_cons, Nat.eqb_refl.
    pose proof (clone_refs_ext (t_refs (gettree st tr)) st _ _ (alookup_idmap_rev (members st (t_ns (gettree st tr))))) as X.
    destruct (clone_refs st (t_refs (gettree st tr)) (map (fun x : oid => (x, x)) (rev (members st (t_ns (gettree st tr)))) ++ [])) as [[a b] c].
    destruct (clone_refs st (t_refs (gettree st tr)) (map (fun x : oid => (x, x)) (members st (t_ns (gettree st tr))))) as [[a2 b2] c2].
    cbn [fst] in X. injection X as X1 X2. subst. reflexivity.
  - rewrite clone_loop_other. cbn [dm_tax dm_ns dmemo_set_ns dmemo_empty].
    destruct (clone_memo lower st n (members st (t_ns (gettree st tr))) []) as [s1 tm] eqn:Q. cbn [bindR].
    unfold deepcopy_tree. cbn [dm_ns dm_tax]. 
    assert (G : gettree s1 tr = gettree st tr).
    { clear - Q. revert Q. generalize (@nil (oid * oid)). generalize (members st (t_ns (gettree st tr))). intros ms. revert st s1 tm.
      induction ms as [|y ys IH]; intros st s1 tm m0 Q; cbn [clone_memo] in Q; [injection Q as Q1 Q2; subst; reflexivity|].
      pose proof (require_taxon_objs st (s_trees st) (s_lists st) (s_mats st) (s_dss st) n (label st y) (ns_cs st n)) as R.
      rewrite with_objs_id in R. destruct (require_taxon lower st n (label st y) (ns_cs st n)) as [sa ta]. cbn [fst snd] in R.
      injection R as R. rewrite (IH _ _ _ _ Q). unfold gettree. rewrite R. reflexivity. }
    rewrite G. rewrite alookup_cons, Nat.eqb_refl.
    destruct (clone_refs s1 (t_refs (gettree st tr)) tm) as [[a b] c]. reflexivity.
Qed.

End WithLower.
